------------------------------- MODULE ListMC -------------------------------
(***************************************************************************)
(* TLC model check of the DESIGN of the ordering and set/list helpers on a *)
(* bounded universe: implementation-shaped transcriptions of today's       *)
(* templates (plugin/sort, keys, min, max, contains, unique, set, union,   *)
(* intersect, filter, takewhile, all, any) must satisfy every law of       *)
(* ListSem.  A violation here is a LEAD (to be confirmed on real code) or  *)
(* a mistake in the specification -- never a verdict.                      *)
(*                                                                         *)
(* Universe: elements = 3 Equal-classes x 2 representatives (Equal but not *)
(* identical; class 1 stands for the zero / nil element); lists of length  *)
(* <= 4 over all 6 elements (duplicates, Equal-but-not-identical           *)
(* neighbours, sorted, reversed ...) plus lists of length 5..6 over one    *)
(* representative per class; second lists of length <= VERIF_MCB (2 or 3); *)
(* items and defaults: every element; predicates: a 4-member family.       *)
(* mode "val": elements are ==-comparable and == is Equal (basic, struct   *)
(* and array of those); mode "ptr": == is identity (pointers) or absent    *)
(* (slices): Contains uses derived Equal, Unique the hash table.           *)
(* The derived Hash is modelled with a collision (classes 1 and 3).        *)
(*                                                                         *)
(* The same module EXPORTS the abstract list cases the conformance run     *)
(* concretises (VERIF_OUT, one record per list; slot = 2*(class-1)+rep).   *)
(***************************************************************************)
EXTENDS ListSem, TLC, SequencesExt, Json, IOUtils

Elems == [c : 1..3, r : 1..2]
Rep1  == {e \in Elems : e.r = 1}
EqA(x, y)  == x.c = y.c
CmpA(x, y) == IF x.c < y.c THEN -1 ELSE IF x.c > y.c THEN 1 ELSE 0
HashA(x)   == x.c % 2
Modes == {"val", "ptr"}
KeyEqA(m, x, y) == IF m = "val" THEN EqA(x, y) ELSE x = y
PredA(pi, e) == CASE pi = 1 -> TRUE [] pi = 2 -> FALSE [] pi = 3 -> e.c = 2 [] OTHER -> e.r = 1
Preds == 1..4

SeqsUpTo(S, n) == UNION {[1..k -> S] : k \in 0..n}
Singles == SeqsUpTo(Elems, 4) \cup [1..5 -> Rep1] \cup [1..6 -> Rep1]
HasEnv(v) == v \in DOMAIN IOEnv
BBound == IF HasEnv("VERIF_MCB") /\ IOEnv.VERIF_MCB = "3" THEN 3 ELSE 2
Firsts  == SeqsUpTo(Elems, 3)
Seconds == SeqsUpTo(Elems, BBound)

Slot(e) == 2 * (e.c - 1) + e.r
ExportSeq == LET ss == SetToSeq(Singles) IN
             [i \in DOMAIN ss |-> [es |-> [k \in DOMAIN ss[i] |-> Slot(ss[i][k])]]]
ASSUME HasEnv("VERIF_OUT") => ndJsonSerialize(IOEnv.VERIF_OUT, ExportSeq)

-----------------------------------------------------------------------------
(* IMPLEMENTATION-SHAPED LAYER: today's templates, transcribed.            *)

\* sort.Slice(list, func(i, j) bool { return compare(list[i], list[j]) < 0 })
SortImpl(list) == SortSeq(list, LAMBDA x, y : CmpA(x, y) < 0)

\* for key := range m { keys = append(keys, key) }: any iteration order
KeysImpls(keyset) == SetToSeqs(keyset)

\* m := list[0]; for i, v := range list[1:] { if compare(v, m) < 0 { m = list[i] } }
RECURSIVE MinScan(_, _, _)
MinScan(list, m, i) == IF i > Len(list) THEN m
                       ELSE MinScan(list, IF CmpA(list[i], m) < 0 THEN list[i] ELSE m, i + 1)
MinImpl(list, def) == IF Len(list) = 0 THEN def ELSE MinScan(list, list[1], 2)
RECURSIVE MaxScan(_, _, _)
MaxScan(list, m, i) == IF i > Len(list) THEN m
                       ELSE MaxScan(list, IF CmpA(list[i], m) > 0 THEN list[i] ELSE m, i + 1)
MaxImpl(list, def) == IF Len(list) = 0 THEN def ELSE MaxScan(list, list[1], 2)
Min2Impl(a, b) == IF CmpA(a, b) < 0 THEN a ELSE b
Max2Impl(a, b) == IF CmpA(a, b) > 0 THEN a ELSE b

\* for _, v := range list { if v == item (or derived Equal) { return true } }
ContainsImpl(list, item) == \E k \in DOMAIN list : EqA(list[k], item)

\* a Go map built by inserting the list in order: the key set keeps one
\* element per == class (which one: float keys are overwritten, others not)
ValidKeySet(m, list, ks) ==
  /\ \A x \in LRng(list) : \E k \in ks : KeyEqA(m, x, k)
  /\ \A k1, k2 \in ks : k1 # k2 => ~KeyEqA(m, k1, k2)
MapsOf(m, list) == {ks \in SUBSET LRng(list) : ValidKeySet(m, list, ks)}
\* deterministic choice (first occurrences) for the inputs of the map forms
MapOf(m, list) == LRng(FirstOccurrences(LAMBDA x, y : KeyEqA(m, x, y), list))

\* unique, hash path: table hash -> indexes into the compacted prefix
RECURSIVE UniqLoop(_, _, _, _)
UniqLoop(list, table, u, i) ==
  IF i > Len(list) THEN SubSeq(list, 1, u)
  ELSE LET h    == HashA(list[i])
           idxs == table[h]
           dup  == \E n \in DOMAIN idxs : EqA(list[idxs[n]], list[i]) IN
       IF dup THEN UniqLoop(list, table, u, i + 1)
       ELSE UniqLoop([list EXCEPT ![u + 1] = list[i]], [table EXCEPT ![h] = Append(@, u + 1)], u + 1, i + 1)
UniqueHashImpl(list) == IF Len(list) = 0 THEN <<>> ELSE UniqLoop(list, [h \in {0, 1} |-> <<>>], 0, 1)
\* unique, comparable path: deriveKeys(deriveSet(list))
UniqueValImpls(list) == IF Len(list) = 0 THEN {<<>>} ELSE UNION {KeysImpls(ks) : ks \in MapsOf("val", list)}

\* for i, v := range that { if !contains(this, v) { this = append(this, that[i]) } }
RECURSIVE UnionLoop(_, _, _)
UnionLoop(this, that, i) ==
  IF i > Len(that) THEN this
  ELSE UnionLoop(IF ContainsImpl(this, that[i]) THEN this ELSE Append(this, that[i]), that, i + 1)
UnionImpl(this, that) == UnionLoop(this, that, 1)
IntersectImpl(this, that) == SelectSeq(this, LAMBDA v : ContainsImpl(that, v))
UnionMapImpl(m, A, B)     == A \cup {k \in B : ~\E a \in A : KeyEqA(m, a, k)}
IntersectMapImpl(m, A, B) == {k \in A : \E b \in B : KeyEqA(m, k, b)}

\* filter: in-place compaction; every loop returns [out, log]
RECURSIVE FiltLoop(_, _, _, _, _)
FiltLoop(pi, list, j, i, log) ==
  IF i > Len(list) THEN [out |-> SubSeq(list, 1, j), log |-> log]
  ELSE IF PredA(pi, list[i])
       THEN FiltLoop(pi, [list EXCEPT ![j + 1] = list[i]], j + 1, i + 1, Append(log, list[i]))
       ELSE FiltLoop(pi, list, j, i + 1, Append(log, list[i]))
FilterImpl(pi, list) == FiltLoop(pi, list, 0, 1, <<>>)

RECURSIVE TWLoop(_, _, _, _, _)
TWLoop(pi, list, out, i, log) ==
  IF i > Len(list) THEN [out |-> out, log |-> log]
  ELSE IF ~PredA(pi, list[i]) THEN [out |-> out, log |-> Append(log, list[i])]
  ELSE TWLoop(pi, list, Append(out, list[i]), i + 1, Append(log, list[i]))
TakeWhileImpl(pi, list) == TWLoop(pi, list, <<>>, 1, <<>>)

RECURSIVE AllLoop(_, _, _, _)
AllLoop(pi, list, i, log) ==
  IF i > Len(list) THEN [out |-> TRUE, log |-> log]
  ELSE IF ~PredA(pi, list[i]) THEN [out |-> FALSE, log |-> Append(log, list[i])]
  ELSE AllLoop(pi, list, i + 1, Append(log, list[i]))
RECURSIVE AnyLoop(_, _, _, _)
AnyLoop(pi, list, i, log) ==
  IF i > Len(list) THEN [out |-> FALSE, log |-> log]
  ELSE IF PredA(pi, list[i]) THEN [out |-> TRUE, log |-> Append(log, list[i])]
  ELSE AnyLoop(pi, list, i + 1, Append(log, list[i]))

-----------------------------------------------------------------------------
(* root -> one state per (mode, first list) -> one per second list         *)
VARIABLES ph, mode, a, b
vars == <<ph, mode, a, b>>
Init == ph = "root" /\ mode = "val" /\ a = <<>> /\ b = <<>>
Next ==
  \/ /\ ph = "root"
     /\ ph' = "one" /\ mode' \in Modes /\ a' \in Singles /\ b' = <<>>
  \/ /\ ph = "one" /\ a \in Firsts
     /\ ph' = "two" /\ b' \in Seconds /\ UNCHANGED <<mode, a>>
Spec == Init /\ [][Next]_vars

One == ph = "one"
Two == ph = "two"
KEq(x, y) == KeyEqA(mode, x, y)

SortInv == One => LET out == SortImpl(a) IN SortPermOK(a, out) /\ SortSortedOK(CmpA, out)
KeysInv == One /\ Len(a) <= 4 =>
  \A ks \in MapsOf(mode, a) : \A out \in KeysImpls(ks) :
     KeysElemOK(a, out) /\ KeysOnceOK(KEq, out) /\ KeysAllOK(KEq, a, out)
MinMaxInv == One => \A d \in Elems :
  LET mn == MinImpl(a, d) mx == MaxImpl(a, d) IN
  /\ MinEmptyOK(a, d, mn) /\ MinElemOK(a, mn) /\ MinLeastOK(CmpA, a, mn)
  /\ MinEmptyOK(a, d, mx) /\ MinElemOK(a, mx) /\ MaxGreatestOK(CmpA, a, mx)
TwoValueInv == One /\ Len(a) = 2 =>
  LET mn == Min2Impl(a[1], a[2]) mx == Max2Impl(a[1], a[2]) IN
  /\ MinElemOK(a, mn) /\ MinLeastOK(CmpA, a, mn)
  /\ MinElemOK(a, mx) /\ MaxGreatestOK(CmpA, a, mx)

ContainsInv == One => \A it \in Elems : ContainsOK(EqA, a, it, ContainsImpl(a, it))
UniqueInv == One =>
  IF mode = "ptr"
  THEN LET out == UniqueHashImpl(a) IN
       UniqueElemOK(a, out) /\ UniqueDistinctOK(EqA, out) /\ UniqueCoversOK(EqA, a, out) /\ UniqueFirstOK(EqA, a, out)
  ELSE Len(a) <= 4 => \A out \in UniqueValImpls(a) :
       UniqueElemOK(a, out) /\ UniqueDistinctOK(EqA, out) /\ UniqueCoversOK(EqA, a, out)
SetInv == One /\ Len(a) <= 4 => \A ks \in MapsOf(mode, a) :
  LET keys == SetToSeq(ks) IN SetElemOK(a, keys) /\ SetAllOK(KEq, a, keys)
PredInv == One => \A pi \in Preds :
  LET p(x) == PredA(pi, x)
      f == FilterImpl(pi, a) t == TakeWhileImpl(pi, a)
      al == AllLoop(pi, a, 1, <<>>) an == AnyLoop(pi, a, 1, <<>>) IN
  /\ FilterOK(p, a, f.out) /\ FilterLogOK(a, f.log)
  /\ TakeWhileOK(p, a, t.out) /\ TakeWhileLogOK(p, a, t.log)
  /\ AllOK(p, a, al.out) /\ AllLogOK(p, a, al.log)
  /\ AnyOK(p, a, an.out) /\ AnyLogOK(p, a, an.log)

UnionInv == Two => LET out == UnionImpl(a, b) IN
  UnionPrefixOK(a, out) /\ UnionNewOK(EqA, a, b, out) /\ UnionAllOK(EqA, b, out)
IntersectInv == Two => LET out == IntersectImpl(a, b) IN
  IntersectOrderOK(a, out) /\ IntersectInOK(EqA, b, out) /\ IntersectAllOK(EqA, a, b, out)
MapFormsInv == Two =>
  LET A == MapOf(mode, a) B == MapOf(mode, b)
      ka == SetToSeq(A) kb == SetToSeq(B)
      un == SetToSeq(UnionMapImpl(mode, A, B))
      it == SetToSeq(IntersectMapImpl(mode, A, B)) IN
  /\ UnionMapElemOK(ka, kb, un) /\ UnionMapAllOK(KEq, ka, kb, un) /\ PairwiseNon(KEq, un)
  /\ IntersectMapElemOK(ka, it) /\ IntersectInOK(KEq, kb, it) /\ IntersectAllOK(KEq, ka, kb, it)
=============================================================================
