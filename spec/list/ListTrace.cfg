SPECIFICATION Spec
INVARIANT Export
POSTCONDITION TraceAccepted
CHECK_DEADLOCK FALSE
