----------------------------- MODULE ListCases ------------------------------
(***************************************************************************)
(* Binding of the abstract list universe of ListMC (3 Equal-classes x 2    *)
(* representatives) to the value pool of each concrete element type.       *)
(*                                                                         *)
(* Input  VERIF_CASES: the file SemCases exported ({"id","t","pool"}).     *)
(* Output VERIF_OUT:   {"id", "slots": <<a1,a2, b1,b2, c1,c2>>} per type,  *)
(*   indices into Pool(t):                                                 *)
(*   class a = the class of the ZERO value (nil for pointers and slices),  *)
(*   class b = the class of the rich BASE value,                           *)
(*   class c = a third class (preferring the pool's +0 / -0 pair, then the  *)
(*   EMPTY value if it has a second representative),                       *)
(*   a' = the EMPTY value (non-nil, empty) when zero is nil and has no      *)
(*   Equal twin; otherwise                                                 *)
(*   second representative = a value structurally Equal (Eq of DeriveSem)  *)
(*   to the first but not the same (preferring a twin such as +0 / -0,     *)
(*   else another allocation); the first again if the pool has none.       *)
(*   For leaf-like types the pool is XPool(T) (ListPool: Pool(T) plus the  *)
(*   leaf tokens it lacks, exported as "extra"); those take b' / c' when   *)
(*   these would only repeat b / c.                                        *)
(* This only CHOOSES inputs; ListTrace judges every observation from the   *)
(* pool indices actually used, whatever the slots are.                     *)
(***************************************************************************)
EXTENDS ListPool, Json, IOUtils

Cases == ndJsonDeserialize(IOEnv.VERIF_CASES)

SlotsOf(cs) ==
  LET T == cs.t
      P == cs.pool \o Extras(cs.t)
      NP == Len(cs.pool)
      N == DOMAIN P
      E(i) == {j \in N : Eq(NoEnv, T, P[i].v, P[j].v)}
      First(S) == CHOOSE i \in S : \A j \in S : i <= j
      Rep2In(i, Ei) ==
        LET Twins  == {j \in Ei : "twin" \in Diff(NoEnv, T, P[i].v, P[j].v)}
            Others == {j \in Ei : P[j].v # P[i].v} IN
        IF Twins # {} THEN First(Twins) ELSE IF Others # {} THEN First(Others) ELSE i
      a1 == 1
      b1 == 3
      Ea == E(a1)
      Eb == E(b1)
      rest == N \ (Ea \cup Eb)
      \* the EMPTY value (pool[2]: non-nil, empty containers) when it is a third
      \* class with a second representative, else the first remaining value
      E2 == E(2)
      \* a pair the pool itself marks as "the same value, every float leaf the other
      \* zero" (fzp / fzn: structurally Equal, different bits), if it is a third class
      FZ == {j \in N : P[j].tag = "fzn" /\ P[j].kind = "same" /\ P[j].of \in rest}
      \* a' : an Equal second representative of the zero value; when there is none
      \* (nil) and the EMPTY value is another class, the EMPTY value: nil and
      \* empty-but-non-nil are Compare-adjacent and must meet in every list form
      ar == Rep2In(a1, Ea)
      a2 == IF ar # a1 THEN ar ELSE IF 2 \in rest THEN 2 ELSE a1
      rest3 == IF a2 = 2 /\ ar = a1 THEN rest \ {2} ELSE rest
      c1 == IF FZ # {} THEN P[First(FZ)].of
            ELSE IF 2 \in rest3 /\ Rep2In(2, E2) # 2 THEN 2 ELSE IF rest3 # {} THEN First(rest3) ELSE b1
      c2 == IF FZ # {} THEN First(FZ) ELSE Rep2In(c1, E(c1))
      br == Rep2In(b1, Eb)
      \* leaf-like types: the extra tokens of XPool(T) (far from the base value)
      \* take the slots that would only repeat a value: b' and, if c has no second
      \* representative, c'
      xs == {i \in N : i > NP /\ i \notin {c1, c2}}
      b2 == IF br = b1 /\ xs # {} THEN First(xs) ELSE br
      xs2 == xs \ {b2}
      c3 == IF c2 = c1 /\ xs2 # {} THEN First(xs2) ELSE c2
  IN <<a1, a2, b1, b2, c1, c3>>

Out == [i \in DOMAIN Cases |->
          [id |-> Cases[i].id,
           extra |-> IF Cases[i].wf THEN Extras(Cases[i].t) ELSE <<>>,
           slots |-> IF Cases[i].wf /\ Len(Cases[i].pool) >= 3 THEN SlotsOf(Cases[i]) ELSE <<>>]]

ASSUME ndJsonSerialize(IOEnv.VERIF_OUT, Out)

VARIABLE done
Init == done = TRUE
Next == UNCHANGED done
Spec == Init /\ [][Next]_done
=============================================================================
