SPECIFICATION Spec
