------------------------------ MODULE ListSem -------------------------------
(***************************************************************************)
(* Engine S, ordering and set/list helpers (C13, C14): the LIST / SET      *)
(* ALGEBRA the generated helpers are judged against.                       *)
(*                                                                         *)
(* Everything is parameterised by relations handed in as operators:        *)
(*   eq(x, y)    the equality the statement speaks of (derived Equal)      *)
(*   keq(x, y)   the equality of map keys (Go's ==)                        *)
(*   cmp(x, y)   the OBSERVED derived Compare (natural < for basic types): *)
(*               -1, 0, +1; any other value (panic) satisfies no law       *)
(*   p(x)        a predicate of the harness's family                       *)
(* Elements are opaque IDENTITIES (labels): two list positions hold the    *)
(* same element iff the ids are equal (the same pointer, the same bits).   *)
(* ListMC instantiates the ids with (class, representative) records,       *)
(* ListTrace with identity classes of the values of Pool(T).               *)
(*                                                                         *)
(* Each operator is ONE law of the property statement -- nothing more.     *)
(***************************************************************************)
EXTENDS Integers, Sequences, FiniteSets

LRng(s) == {s[k] : k \in DOMAIN s}
LCount(x, s) == Cardinality({k \in DOMAIN s : s[k] = x})

\* out is in as a bag of identities
IsPermutation(in, out) ==
  /\ Len(in) = Len(out)
  /\ \A x \in LRng(in) \cup LRng(out) : LCount(x, in) = LCount(x, out)

\* x strictly precedes y under the observed compare, asked in either argument
\* order (the same thing for a lawful Compare; an asymmetric one must not hide it)
Precedes(cmp(_, _), x, y) == cmp(x, y) \notin {0, 1} \/ cmp(y, x) \notin {0, -1}
\* adjacent pairs non-decreasing under the observed compare
SortedBy(cmp(_, _), out) == \A k \in 1..(Len(out) - 1) : ~Precedes(cmp, out[k + 1], out[k])

\* sub is s with some positions dropped (order kept)
RECURSIVE SubseqFrom(_, _, _, _)
SubseqFrom(sub, s, i, j) ==
  IF i > Len(sub) THEN TRUE
  ELSE IF j > Len(s) THEN FALSE
  ELSE IF sub[i] = s[j] THEN SubseqFrom(sub, s, i + 1, j + 1)
  ELSE SubseqFrom(sub, s, i, j + 1)
IsSubseq(sub, s) == SubseqFrom(sub, s, 1, 1)

RECURSIVE PickFrom(_, _, _)
PickFrom(s, keep, k) ==
  IF k > Len(s) THEN <<>>
  ELSE (IF k \in keep THEN <<s[k]>> ELSE <<>>) \o PickFrom(s, keep, k + 1)

PairwiseNon(eq(_, _), s) == \A k, m \in DOMAIN s : k < m => ~eq(s[k], s[m])
Covers(eq(_, _), in, out) == \A k \in DOMAIN in : \E m \in DOMAIN out : eq(in[k], out[m])
Member(eq(_, _), s, x) == \E k \in DOMAIN s : eq(s[k], x)

-----------------------------------------------------------------------------
(* C13                                                                     *)
SortPermOK(in, out)          == IsPermutation(in, out)
SortSortedOK(cmp(_, _), out) == SortedBy(cmp, out)

\* ks: the keys put into the map (any multiplicity); out: the returned slice
KeysElemOK(ks, out)          == LRng(out) \subseteq LRng(ks)
KeysOnceOK(keq(_, _), out)   == PairwiseNon(keq, out)
KeysAllOK(keq(_, _), ks, out) == Covers(keq, ks, out)

MinEmptyOK(in, def, out)     == in = <<>> => out = def
MinElemOK(in, out)           == in # <<>> => out \in LRng(in)
\* no element of the list strictly precedes the result
MinLeastOK(cmp(_, _), in, out) == \A k \in DOMAIN in : ~Precedes(cmp, in[k], out)
\* no element of the list strictly follows the result
MaxGreatestOK(cmp(_, _), in, out) == \A k \in DOMAIN in : ~Precedes(cmp, out, in[k])

-----------------------------------------------------------------------------
(* C14                                                                     *)
ContainsOK(eq(_, _), in, item, res) == res = Member(eq, in, item)

UniqueElemOK(in, out)            == LRng(out) \subseteq LRng(in)
UniqueDistinctOK(eq(_, _), out)  == PairwiseNon(eq, out)
UniqueCoversOK(eq(_, _), in, out) == Covers(eq, in, out)
FirstOccurrences(eq(_, _), in) ==
  PickFrom(in, {k \in DOMAIN in : ~\E j \in 1..(k - 1) : eq(in[j], in[k])}, 1)
\* demanded only when the elements are not ==-comparable
UniqueFirstOK(eq(_, _), in, out) == out = FirstOccurrences(eq, in)

\* keys: the key set of the returned map[T]struct{} (as a sequence)
SetElemOK(in, keys)              == LRng(keys) \subseteq LRng(in)
SetAllOK(keq(_, _), in, keys)    == Covers(keq, in, keys)

\* lists: the first list in order, then new items
UnionPrefixOK(a, out) == Len(out) >= Len(a) /\ SubSeq(out, 1, Len(a)) = a
UnionNewOK(eq(_, _), a, b, out) ==
  \A m \in (Len(a) + 1)..Len(out) :
     /\ out[m] \in LRng(b)
     /\ ~\E j \in 1..(m - 1) : eq(out[j], out[m])
UnionAllOK(eq(_, _), b, out) == Covers(eq, b, out)

\* maps: key sets
UnionMapElemOK(a, b, keys)           == LRng(keys) \subseteq (LRng(a) \cup LRng(b))
UnionMapAllOK(keq(_, _), a, b, keys) == Covers(keq, a, keys) /\ Covers(keq, b, keys)

IntersectOrderOK(a, out)             == IsSubseq(out, a)
IntersectInOK(eq(_, _), b, out)      == \A m \in DOMAIN out : Member(eq, b, out[m])
IntersectAllOK(eq(_, _), a, b, out)  == \A k \in DOMAIN a : Member(eq, b, a[k]) => Member(eq, out, a[k])

IntersectMapElemOK(a, keys)          == LRng(keys) \subseteq LRng(a)

-----------------------------------------------------------------------------
(* predicate scanning: result and call log                                 *)
FirstWhere(q(_), in) ==
  LET F == {k \in DOMAIN in : q(in[k])} IN
  IF F = {} THEN Len(in) + 1 ELSE CHOOSE k \in F : \A j \in F : k <= j
FirstFail(p(_), in) == FirstWhere(LAMBDA x : ~p(x), in)
FirstPass(p(_), in) == FirstWhere(p, in)
\* the elements in order up to and including position n
LogUpTo(in, n) == SubSeq(in, 1, IF n > Len(in) THEN Len(in) ELSE n)

FilterOK(p(_), in, out)      == out = SelectSeq(in, p)
FilterLogOK(in, log)         == log = in
TakeWhileOK(p(_), in, out)   == out = SubSeq(in, 1, FirstFail(p, in) - 1)
TakeWhileLogOK(p(_), in, log) == log = LogUpTo(in, FirstFail(p, in))
AllOK(p(_), in, res)         == res = (FirstFail(p, in) = Len(in) + 1)
AllLogOK(p(_), in, log)      == log = LogUpTo(in, FirstFail(p, in))
AnyOK(p(_), in, res)         == res = (FirstPass(p, in) <= Len(in))
AnyLogOK(p(_), in, log)      == log = LogUpTo(in, FirstPass(p, in))
=============================================================================
