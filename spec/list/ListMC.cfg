SPECIFICATION Spec
INVARIANTS
  SortInv
  KeysInv
  MinMaxInv
  TwoValueInv
  ContainsInv
  UniqueInv
  SetInv
  PredInv
  UnionInv
  IntersectInv
  MapFormsInv
CHECK_DEADLOCK FALSE
