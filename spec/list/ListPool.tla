------------------------------ MODULE ListPool ------------------------------
(***************************************************************************)
(* The value pool of an ELEMENT type as the list helpers see it:           *)
(* XPool(T) = Pool(T) of spec/sem, followed -- for leaf-like types (basic, *)
(* named basic, struct with one leaf-like field) -- by one value per       *)
(* canonical leaf token that Pool(T) does not hold.  Pool(T) is built from *)
(* single mutations of one base value (neighbouring ranks); lists of leaf  *)
(* elements need the far tokens too, e.g. the complex numbers (1,2) and    *)
(* (2,0), ordered oppositely in real and imaginary part.                   *)
(***************************************************************************)
EXTENDS DeriveSem

RECURSIVE LeafKind(_)
\* the basic kind at the bottom of a leaf-like type, "" otherwise
LeafKind(T) ==
  CASE T.k = "basic" -> T.b
    [] T.k = "named" -> T.u.b
    [] T.k = "struct" /\ Len(T.fields) = 1 /\ "meth" \notin DOMAIN T -> LeafKind(T.fields[1].t)
    [] OTHER -> ""

RECURSIVE WrapLeaf(_, _)
WrapLeaf(T, tok) == IF T.k = "struct" THEN StructV(<<WrapLeaf(T.fields[1].t, tok)>>) ELSE Leaf(tok)

RECURSIVE TokOf(_, _)
TokOf(T, v) == IF T.k = "struct" THEN TokOf(T.fields[1].t, v.fs[1]) ELSE v.tok

Extras(T) ==
  LET b == LeafKind(T) IN
  IF b = "" THEN <<>>
  ELSE LET P    == Pool(T)
           have == {TokOf(T, P[i].v) : i \in DOMAIN P}
           more == SelectSeq(Canon(b), LAMBDA e : e.tok \notin have) IN
       [i \in DOMAIN more |-> Entry("x" \o more[i].tok, 0, "", "none", WrapLeaf(T, more[i].tok))]

XPool(T) == Pool(T) \o Extras(T)
=============================================================================
