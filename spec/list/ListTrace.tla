----------------------------- MODULE ListTrace ------------------------------
(***************************************************************************)
(* Validation of OBSERVATIONS recorded from the REAL generated ordering    *)
(* and set/list helpers (C13, C14) against the laws of ListSem.            *)
(*                                                                         *)
(* VERIF_TRACE is NDJSON.  Per element type, in this order:                *)
(*  {"k":"case","id","t","wf","pool"}    the line SemCases exported, pool   *)
(*        extended to XPool(t) (ListPool) for leaf-like element types      *)
(*  {"k":"eq", "id","form":"bin","m"}    observed derived Equal on pool^2  *)
(*  {"k":"cmp","id","form":"bin","m"}    observed derived Compare          *)
(*  {"k":"lbind","id","cls":[..]}        cls[i] = first pool index holding *)
(*        the SAME Go value as pool[i] (same pointer / same bits):         *)
(*        element identity as the driver projects it                       *)
(*  {"k":"lists","id","ls":[{"nl":B,"es":[pool index..]}..]}  the lists    *)
(*  {"k":"lop","id","op":O,"rs":[..]}    one record per executed call:     *)
(*        a, b = list numbers; d, it, x, y = pool indices; pt = identities *)
(*        on which the predicate is true; pn = panicked; out / res / log = *)
(*        result and predicate call log, elements projected to identities  *)
(*        (0 = a value that is none of the pool's)                         *)
(* Every line is consumed; what the laws do not allow is RECORDED in bad:  *)
(*  [l, id, op, law, fails = numbers of the rejected records of the line]. *)
(***************************************************************************)
EXTENDS ListPool, ListSem, Json, IOUtils

Trace == ndJsonDeserialize(IOEnv.VERIF_TRACE)
NL == Len(Trace)

VARIABLES l, cur, eqm, cmpm, cls, keqm, lists, bad
vars == <<l, cur, eqm, cmpm, cls, keqm, lists, bad>>

NoCase == [id |-> "", t |-> [k |-> "basic", b |-> "int"], wf |-> FALSE, pool |-> <<>>]
Init == l = 1 /\ cur = NoCase /\ eqm = <<>> /\ cmpm = <<>> /\ cls = <<>> /\ keqm = <<>> /\ lists = <<>> /\ bad = <<>>

Ev == Trace[l]
IsObs(k) == l <= NL /\ Ev.k = k /\ l' = l + 1
T == cur.t
P == cur.pool
N == DOMAIN P
X(i) == P[i].v
RightType == Ev.id = cur.id /\ cur.wf
Square(m) == Len(m) = Len(P) /\ \A i \in DOMAIN m : Len(m[i]) = Len(P)
Rec(op, law, fails) == [l |-> l, id |-> Ev.id, op |-> op, law |-> law, fails |-> fails]
Malformed(why) == bad' = Append(bad, Rec("", "MALFORMED: " \o why, {}))

-----------------------------------------------------------------------------
(* Go's == on comparable types (map keys): pointers by allocation.         *)
RECURSIVE GoEq(_, _, _, _)
GoEq(env, ty, x, y) ==
  CASE ty.k = "basic"  -> Rank(ty.b, x.tok) = Rank(ty.b, y.tok)
    [] ty.k = "named"  -> GoEq(env, ty.u, x, y)
    [] ty.k = "self"   -> GoEq(env, env[ty.name], x, y)
    [] ty.k = "ptr"    -> IF x.nil \/ y.nil THEN x.nil = y.nil ELSE x.lbl = y.lbl
    [] ty.k = "array"  -> \A i \in 1..ty.len : GoEq(env, ty.e, x.es[i], y.es[i])
    [] ty.k = "struct" -> LET e2 == Bind(env, ty) IN
                          \A i \in DOMAIN ty.fields : GoEq(e2, ty.fields[i].t, x.fs[i], y.fs[i])
    [] OTHER -> FALSE
RECURSIVE GoComparable(_)
GoComparable(ty) ==
  CASE ty.k \in {"basic", "named", "ptr"} -> TRUE
    [] ty.k = "array"  -> GoComparable(ty.e)
    [] ty.k = "struct" -> \A i \in DOMAIN ty.fields : GoComparable(ty.fields[i].t)
    [] OTHER -> FALSE
\* "==-comparable" in the generator's sense (derive.IsComparable): no pointers
RECURSIVE ValComparable(_)
ValComparable(ty) ==
  CASE ty.k \in {"basic", "named"} -> TRUE
    [] ty.k = "array"  -> ValComparable(ty.e)
    [] ty.k = "struct" -> \A i \in DOMAIN ty.fields : ValComparable(ty.fields[i].t)
    [] OTHER -> FALSE
\* natural < exists: ordered basic kinds
Natural == T.k = "basic" /\ T.b \notin {"bool", "complex64", "complex128"}

(* the relations the laws are parameterised with, on identities (= pool    *)
(* indices of class representatives)                                       *)
E(i, j) == eqm[i][j] = "T"
C(i, j) == IF Natural THEN Sgn(Rank(T.b, X(i).tok), Rank(T.b, X(j).tok)) ELSE cmpm[i][j]
K(i, j) == keqm[i][j]
R(s)    == [k \in DOMAIN s |-> cls[s[k]]]
In(n)   == R(lists[n].es)
Clean(s) == 0 \notin LRng(s)
Chk(ok, law) == IF ok THEN {} ELSE {law}

-----------------------------------------------------------------------------
VSort(r) ==
  IF r.pn THEN {"Sort: panicked"}
  ELSE Chk(SortPermOK(In(r.a), r.out), "Sort: result is not a permutation of the input")
       \cup Chk(~Clean(r.out) \/ SortSortedOK(C, r.out), "Sort: result is not non-decreasing under derived Compare")
VKeys(r) ==
  IF r.pn THEN {"Keys: panicked"}
  ELSE LET ks == In(r.a) IN
       Chk(KeysElemOK(ks, r.out), "Keys: result contains a value that is not a key of the map")
       \cup Chk(~Clean(r.out) \/ KeysOnceOK(K, r.out), "Keys: a key is returned more than once")
       \cup Chk(~Clean(r.out) \/ KeysAllOK(K, ks, r.out), "Keys: a key of the map is missing")
VMinMax(nm, r, in, isMin, two) ==
  IF r.pn THEN {nm \o ": panicked"}
  ELSE LET d == IF two THEN 0 ELSE cls[r.d]
           word == IF isMin THEN "precedes" ELSE "follows" IN
       Chk(MinEmptyOK(in, d, r.out), nm \o ": result for an empty list is not the default")
       \cup Chk(MinElemOK(in, r.out), nm \o (IF two THEN ": result is not one of the two arguments" ELSE ": result is not an element of the list"))
       \cup (IF in = <<>> \/ r.out \notin LRng(in) THEN {}
             ELSE Chk(IF isMin THEN MinLeastOK(C, in, r.out) ELSE MaxGreatestOK(C, in, r.out),
                      nm \o ": another element " \o word \o " the result under derived Compare"))
VContains(r) ==
  IF r.pn THEN {"Contains: panicked"}
  ELSE LET want == Member(E, In(r.a), cls[r.it]) IN
       Chk(r.res => want, "Contains: true although no element is Equal to the item")
       \cup Chk(want => r.res, "Contains: false although an element is Equal to the item")
VUnique(r) ==
  IF r.pn THEN {"Unique: panicked"}
  ELSE LET in == In(r.a) IN
       Chk(UniqueElemOK(in, r.out), "Unique: result contains a value that is not an element of the input")
       \cup (IF ~Clean(r.out) THEN {} ELSE
             Chk(UniqueDistinctOK(E, r.out), "Unique: result elements are not pairwise non-Equal")
             \cup Chk(UniqueCoversOK(E, in, r.out), "Unique: an input element has no Equal element in the result")
             \* which occurrence / which order: only asked of a result that is a duplicate-free cover
             \cup Chk(ValComparable(T) \/ ~UniqueDistinctOK(E, r.out) \/ ~UniqueCoversOK(E, in, r.out) \/ UniqueFirstOK(E, in, r.out),
                      "Unique: first occurrences are not kept in order (elements not ==-comparable)"))
VSet(r) ==
  IF r.pn THEN {"Set: panicked"}
  ELSE LET in == In(r.a) IN
       Chk(SetElemOK(in, r.out), "Set: a key is not an element of the list")
       \cup Chk(~Clean(r.out) \/ SetAllOK(K, in, r.out), "Set: an element of the list is not a key")
VUnion(r) ==
  IF r.pn THEN {"Union: panicked"}
  ELSE LET a == In(r.a) b == In(r.b) IN
       Chk(UnionPrefixOK(a, r.out), "Union: result does not start with the first list in order")
       \cup (IF ~Clean(r.out) \/ ~UnionPrefixOK(a, r.out) THEN {} ELSE
             Chk(UnionNewOK(E, a, b, r.out), "Union: an appended item is not a new item of the second list")
             \cup Chk(UnionAllOK(E, b, r.out), "Union: an element of the second list has no Equal element in the result"))
VIntersect(r) ==
  IF r.pn THEN {"Intersect: panicked"}
  ELSE LET a == In(r.a) b == In(r.b) IN
       Chk(IntersectOrderOK(a, r.out), "Intersect: result is not elements of the first list in the first list's order")
       \cup (IF ~Clean(r.out) THEN {} ELSE
             Chk(IntersectInOK(E, b, r.out), "Intersect: a result element is not Equal to any element of the second list")
             \cup Chk(IntersectAllOK(E, a, b, r.out), "Intersect: a common element has no Equal element in the result"))
VUnionMap(r) ==
  IF r.pn THEN {"Union (maps): panicked"}
  ELSE LET a == In(r.a) b == In(r.b) IN
       Chk(UnionMapElemOK(a, b, r.out), "Union (maps): a key of the result is a key of neither map")
       \cup Chk(~Clean(r.out) \/ UnionMapAllOK(K, a, b, r.out), "Union (maps): a key of one of the maps is missing")
VIntersectMap(r) ==
  IF r.pn THEN {"Intersect (maps): panicked"}
  ELSE LET a == In(r.a) b == In(r.b) IN
       Chk(IntersectMapElemOK(a, r.out), "Intersect (maps): a key of the result is not a key of the first map")
       \cup (IF ~Clean(r.out) THEN {} ELSE
             Chk(IntersectInOK(K, b, r.out), "Intersect (maps): a key of the result is not a key of the second map")
             \cup Chk(IntersectAllOK(K, a, b, r.out), "Intersect (maps): a common key is missing"))
VPred(op, r) ==
  LET in == In(r.a)
      p(x) == x \in LRng(r.pt) IN
  CASE r.pn -> {op \o ": panicked"}
    [] op = "Filter" ->
         Chk(FilterOK(p, in, r.out), "Filter: result is not the elements satisfying the predicate, in order")
         \cup Chk(FilterLogOK(in, r.log), "Filter: the predicate is not called on every element in order")
    [] op = "TakeWhile" ->
         Chk(TakeWhileOK(p, in, r.out), "TakeWhile: result is not the longest prefix satisfying the predicate")
         \cup Chk(TakeWhileLogOK(p, in, r.log), "TakeWhile: predicate calls are not the elements in order up to the first failing one")
    [] op = "All" ->
         Chk(AllOK(p, in, r.res), "All: wrong result")
         \cup Chk(AllLogOK(p, in, r.log), "All: predicate calls are not the elements in order up to the first failing one")
    [] OTHER ->
         Chk(AnyOK(p, in, r.res), "Any: wrong result")
         \cup Chk(AnyLogOK(p, in, r.log), "Any: predicate calls are not the elements in order up to the first satisfying one")

NeedCmp == {"sort", "min", "max", "min2", "max2"}
NeedKey == {"keys", "set", "unionm", "intersectm"}
NeedEq  == {"contains", "unique", "union", "intersect"}
Ops == NeedCmp \cup NeedKey \cup NeedEq \cup {"filter", "takewhile", "all", "any"}

Viol(op, r) ==
  CASE op = "sort"       -> VSort(r)
    [] op = "keys"       -> VKeys(r)
    [] op = "min"        -> VMinMax("Min", r, In(r.a), TRUE, FALSE)
    [] op = "max"        -> VMinMax("Max", r, In(r.a), FALSE, FALSE)
    [] op = "min2"       -> VMinMax("Min (two values)", r, <<cls[r.x], cls[r.y]>>, TRUE, TRUE)
    [] op = "max2"       -> VMinMax("Max (two values)", r, <<cls[r.x], cls[r.y]>>, FALSE, TRUE)
    [] op = "contains"   -> VContains(r)
    [] op = "unique"     -> VUnique(r)
    [] op = "set"        -> VSet(r)
    [] op = "union"      -> VUnion(r)
    [] op = "intersect"  -> VIntersect(r)
    [] op = "unionm"     -> VUnionMap(r)
    [] op = "intersectm" -> VIntersectMap(r)
    [] op = "filter"     -> VPred("Filter", r)
    [] op = "takewhile"  -> VPred("TakeWhile", r)
    [] op = "all"        -> VPred("All", r)
    [] OTHER             -> VPred("Any", r)

-----------------------------------------------------------------------------
Case ==
  /\ IsObs("case")
  /\ eqm' = <<>> /\ cmpm' = <<>> /\ cls' = <<>> /\ keqm' = <<>> /\ lists' = <<>>
  /\ IF Ev.wf /\ WellFormed(Ev.t) /\ Ev.pool = XPool(Ev.t)
     THEN cur' = Ev /\ UNCHANGED bad
     ELSE cur' = [Ev EXCEPT !.wf = FALSE] /\ Malformed("case: not the specification's XPool(t)")

EqObs ==
  /\ IsObs("eq")
  /\ IF RightType /\ Square(Ev.m) THEN eqm' = (IF Ev.form = "bin" THEN Ev.m ELSE eqm) /\ UNCHANGED bad
     ELSE Malformed("eq line does not belong to the current case") /\ UNCHANGED eqm
  /\ UNCHANGED <<cur, cmpm, cls, keqm, lists>>

CmpObs ==
  /\ IsObs("cmp")
  /\ IF RightType /\ Square(Ev.m) THEN cmpm' = (IF Ev.form = "bin" THEN Ev.m ELSE cmpm) /\ UNCHANGED bad
     ELSE Malformed("cmp line does not belong to the current case") /\ UNCHANGED cmpm
  /\ UNCHANGED <<cur, eqm, cls, keqm, lists>>

(* identity classes of the driver: a class never merges values the         *)
(* specification can tell apart                                            *)
BindObs ==
  /\ IsObs("lbind")
  /\ IF /\ RightType /\ Len(Ev.cls) = Len(P)
        /\ \A i \in N : Ev.cls[i] \in 1..i /\ Ev.cls[Ev.cls[i]] = Ev.cls[i]
        /\ \A i \in N : Identical(NoEnv, T, X(i), X(Ev.cls[i]))
     THEN /\ cls' = Ev.cls /\ UNCHANGED bad
          /\ keqm' = IF GoComparable(T) THEN [i \in N |-> [j \in N |-> GoEq(NoEnv, T, X(i), X(j))]] ELSE <<>>
     ELSE Malformed("lbind: identity classes inconsistent with the pool") /\ UNCHANGED <<cls, keqm>>
  /\ UNCHANGED <<cur, eqm, cmpm, lists>>

ListsObs ==
  /\ IsObs("lists")
  /\ IF RightType /\ cls # <<>> /\ \A n \in DOMAIN Ev.ls : LRng(Ev.ls[n].es) \subseteq N
     THEN lists' = Ev.ls /\ UNCHANGED bad
     ELSE Malformed("lists line does not belong to the current case") /\ UNCHANGED lists
  /\ UNCHANGED <<cur, eqm, cmpm, cls, keqm>>

OpObs ==
  /\ IsObs("lop")
  /\ IF \/ ~RightType \/ lists = <<>> \/ Ev.op \notin Ops
        \/ (Ev.op \in NeedCmp /\ ~Natural /\ cmpm = <<>>)
        \/ (Ev.op \in NeedEq /\ eqm = <<>>)
        \/ (Ev.op \in NeedKey /\ keqm = <<>>)
     THEN Malformed("lop line without the observations it is judged with")
     ELSE LET V == [n \in DOMAIN Ev.rs |-> Viol(Ev.op, Ev.rs[n])]
              laws == UNION {V[n] : n \in DOMAIN Ev.rs} IN
          bad' = bad \o SetToSeq({Rec(Ev.op, lw, {n \in DOMAIN Ev.rs : lw \in V[n]}) : lw \in laws})
  /\ UNCHANGED <<cur, eqm, cmpm, cls, keqm, lists>>

\* lines of other observation kinds (statistics) are consumed unjudged
OtherObs ==
  /\ l <= NL /\ Ev.k \notin {"case", "eq", "cmp", "lbind", "lists", "lop"} /\ l' = l + 1
  /\ UNCHANGED <<cur, eqm, cmpm, cls, keqm, lists, bad>>

Next == Case \/ EqObs \/ CmpObs \/ BindObs \/ ListsObs \/ OpObs \/ OtherObs
Spec == Init /\ [][Next]_vars

Export == l = NL + 1 => ndJsonSerialize(IOEnv.VERIF_OUT, bad)
TraceAccepted == TLCGet("stats").diameter - 1 = NL
=============================================================================
