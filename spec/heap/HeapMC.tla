------------------------------- MODULE HeapMC -------------------------------
(***************************************************************************)
(* TLC model check of the copy model on the bounded universe.              *)
(*                                                                         *)
(* Input: VERIF_CASES, the file HeapCases exported ({"id","t","pool",      *)
(* "prior"} per line) -- literally the types, sources and prior            *)
(* destinations the real generated code is run on.                         *)
(*                                                                         *)
(* Per type, two families of (source, destination) heaps are entered:      *)
(*  mode "impl": dst = the implementation-shaped copy (CopyImpl) of        *)
(*               pool[i] over prior[j], for every call form;               *)
(*  mode "any" : dst = ANY candidate copy: pool[q] rebuilt at fresh        *)
(*               labels, and Shallow(pool[i], d): aliased (d=0), sharing   *)
(*               everything below the root (d=1), below depth 2, ...       *)
(* and then the action Write(loc) overwrites one cell reachable from one   *)
(* side (up to MaxW writes, all through the same side).                    *)
(*                                                                         *)
(* Invariants (a violation means the SPECIFICATION is wrong -> exit 2):    *)
(*  PriorsOK            every prior is tree-shaped and label-disjoint from *)
(*                      every source; the export is PriorDst(t)            *)
(*  ImplSatisfiesCopyOK today's template establishes CopyOK from every     *)
(*                      tree-shaped, label-disjoint prior                  *)
(*  WriteIndependence   THEOREM (bounded): CopyOK => no write through the  *)
(*                      copy is visible through the source and vice versa  *)
(*  StaysDisjoint       ... and the heaps stay disjoint (inductive step)   *)
(*  SharingIsObservable the converse on this universe: a shared, visible   *)
(*                      allocation makes some single write visible (so     *)
(*                      the theorem is not vacuous and Reach is not        *)
(*                      stronger than needed on visible cells)             *)
(***************************************************************************)
EXTENDS CopyImpl, Json, IOUtils

Cases == ndJsonDeserialize(IOEnv.VERIF_CASES)
NC == Len(Cases)

VARIABLES ti, mode, tag, src, dst, src0, dst0, ok0, side, n
vars == <<ti, mode, tag, src, dst, src0, dst0, ok0, side, n>>

T == Cases[ti].t
\* two consecutive writes on the types of depth <= 1, one write on deeper ones (one write from
\* ANY state satisfying CopyOK is the inductive step; the second is a cross-check)
MaxW == IF Depth(T) <= 1 THEN 2 ELSE 1
P == Cases[ti].pool
N == DOMAIN P
X(a) == P[a].v
Prior == Cases[ti].prior
D(b) == Prior[b].v

Nil0 == [nil |-> TRUE]

Init == /\ ti = 0 /\ mode = "root" /\ tag = <<>> /\ src = Nil0 /\ dst = Nil0 /\ src0 = Nil0 /\ dst0 = Nil0
        /\ ok0 = FALSE /\ side = "none" /\ n = 0

Enter(m, tg, s, d) ==
  /\ mode' = m /\ tag' = tg /\ src' = s /\ dst' = d /\ src0' = s /\ dst0' = d
  /\ ok0' = CopyOK(T, s, s, d) /\ side' = "none" /\ n' = 0 /\ UNCHANGED ti

MaxDepth == 3
\* candidates that differ from the source cannot satisfy the premise CopyOK: left out
Family(a) == {Shallow(X(a), d) : d \in 0..MaxDepth}
             \cup {Relabel(X(q), "z:") : q \in {r \in N : Identical(NoEnv, T, X(r), X(a))}}

WriteVia(sd) ==
  /\ side \in {"none", sd} /\ n < MaxW
  /\ \E loc \in Locs(IF sd = "dst" THEN dst ELSE src) :
        /\ src' = WriteAt(NoEnv, T, src, loc)
        /\ dst' = WriteAt(NoEnv, T, dst, loc)
  /\ side' = sd /\ n' = n + 1
  /\ UNCHANGED <<ti, mode, tag, src0, dst0, ok0>>

Next ==
  \/ /\ mode = "root"
     /\ ti' \in 1..NC /\ mode' = "type"
     /\ UNCHANGED <<tag, src, dst, src0, dst0, ok0, side, n>>
  \/ /\ mode = "type"
     /\ \E a \in N, f \in Forms(T) :
          /\ FormApplies(f, T, X(a))
          /\ \E b \in (IF f \in {"ptr", "slice"} THEN DOMAIN Prior ELSE {1}) :
               Enter("impl", <<f, a, b>>, X(a), DstAfterImpl(f, T, X(a), D(b)))
  \/ /\ mode = "type"
     /\ \E a \in N : \E dd \in Family(a) : Enter("any", <<"any", a, 0>>, X(a), dd)
  \* the theorem is about ANY pair satisfying CopyOK; the implementation-shaped copies are
  \* shown to satisfy CopyOK (ImplSatisfiesCopyOK) and get one write each as a cross-check
  \/ /\ (mode = "any" \/ (mode = "impl" /\ n = 0)) /\ WriteVia("dst")
  \/ /\ (mode = "any" \/ (mode = "impl" /\ n = 0)) /\ WriteVia("src")

Spec == Init /\ [][Next]_vars

-----------------------------------------------------------------------------
PriorsOK == mode = "type" =>
  /\ Cases[ti].wf /\ WellFormed(T)
  /\ P = Pool(T) /\ Prior = PriorDst(T)
  /\ \A b \in DOMAIN Prior : WFV(NoEnv, T, D(b)) /\ TreeShaped(D(b))
  /\ \A a \in N : WFV(NoEnv, T, X(a))
  /\ \A a \in N, b \in DOMAIN Prior : PriorOK(X(a), D(b))
  /\ \A a \in N, f \in Forms(T), b \in DOMAIN Prior :
        FormApplies(f, T, X(a)) => /\ PriorOK(X(a), DstBefore(f, T, X(a), D(b)))
                                   /\ WFV(NoEnv, T, DstBefore(f, T, X(a), D(b)))

ImplSatisfiesCopyOK == (mode = "impl" /\ n = 0) => (ok0 /\ WFV(NoEnv, T, dst) /\ TreeShaped(dst))

WriteIndependence == ok0 =>
  /\ (side = "dst" => Identical(NoEnv, T, src, src0))
  /\ (side = "src" => Identical(NoEnv, T, dst, dst0))

StaysDisjoint == ok0 => Reach(src) \cap Reach(dst) = {}

(* labels of allocations with at least one VISIBLE cell                    *)
RECURSIVE VisLabels(_)
VisLabels(v) ==
  LET k == VKind(v) IN
  CASE k \in {"leaf", "nil"} -> {}
    [] k = "struct" -> UNION {VisLabels(v.fs[a]) : a \in DOMAIN v.fs}
    [] k = "array"  -> UNION {VisLabels(v.es[a]) : a \in DOMAIN v.es}
    [] k = "ptr"    -> {v.lbl} \cup VisLabels(v.v)
    [] k = "slice"  -> (IF Len(v.es) > 0 THEN {v.lbl} ELSE {}) \cup UNION {VisLabels(v.es[a]) : a \in DOMAIN v.es}
    [] k = "map"    -> (IF Len(v.kv) > 0 THEN {v.lbl} ELSE {}) \cup UNION {VisLabels(v.kv[a].v) : a \in DOMAIN v.kv}

SharingIsObservable == (mode = "any" /\ n = 0 /\ VisLabels(src) \cap VisLabels(dst) # {}) =>
  \E loc \in Locs(dst) : ~Identical(NoEnv, T, WriteAt(NoEnv, T, src, loc), src)

(* sensitivity (HeapMCNeg.cfg): without the premise CopyOK the theorem     *)
(* must FAIL on this universe                                              *)
NoPremise == side = "dst" => Identical(NoEnv, T, src, src0)
=============================================================================
