SPECIFICATION Spec
INVARIANTS
  FlagOK
  RoundTrips
CHECK_DEADLOCK FALSE
