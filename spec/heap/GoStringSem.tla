----------------------------- MODULE GoStringSem -----------------------------
(***************************************************************************)
(* C06: what the round trip  value --deriveGoString--> text --Go compiler, *)
(* run--> value'  must preserve, and an IMPLEMENTATION-SHAPED model of     *)
(* today's template (plugin/gostring/gostring.go) as a printer into a tiny *)
(* abstract syntax plus an evaluator of that syntax on the heap model.     *)
(*                                                                         *)
(* Abstract layer (verdicts, GoStringTrace.tla):                           *)
(*   AllExported(T)   the quantifier: types with exported fields only      *)
(*   RoundTripOK      Eq(T, v', v): structurally equal, nil vs empty and   *)
(*                    pointer targets included (Eq of spec/sem)            *)
(* Implementation-shaped layer (GoStringMC.tla checks Eval(Print(v)) on    *)
(* every pool value; never a verdict):                                     *)
(*   PStmt / PField   genStatement / genField                              *)
(*   Eval             evaluation of the printed closure                    *)
(* What TLA+ does NOT decide: how a leaf is formatted (%#v) and parsed     *)
(* back -- the text is judged by the real Go compiler; here a literal is   *)
(* the token itself, except the one fact transcribed in LitEval.           *)
(***************************************************************************)
EXTENDS HeapOps

RECURSIVE AllExported(_)
AllExported(T) ==
  CASE T.k \in {"basic", "named", "self"} -> TRUE
    [] T.k \in {"ptr", "slice", "array"} -> AllExported(T.e)
    [] T.k = "map"    -> AllExported(T.key) /\ AllExported(T.e)
    [] T.k = "struct" -> \A a \in DOMAIN T.fields :
                            /\ (T.fields[a].emb \/ Exported(T.fields[a].name))
                            /\ AllExported(T.fields[a].t)

RoundTripOK(T, orig, back) == Eq(NoEnv, T, back, orig)

-----------------------------------------------------------------------------
(* The values tried: Pool(T) plus a LEAF SWEEP -- the rich base value with *)
(* every leaf set to the n-th token of its kind's boundary table, for      *)
(* every n (quotes, newline, non-UTF-8 byte, extreme integers, -0, max,    *)
(* denormal ... in every leaf position of every shape).  Map keys of one   *)
(* map take consecutive tokens, so they stay pairwise distinct.            *)
TokAt(b, n) == LeafTab[b][(n % Len(LeafTab[b])) + 1].tok

RECURSIVE SetLeaves(_, _, _, _)
SetLeaves(env, T, v, n) ==
  CASE T.k = "basic"  -> Leaf(TokAt(T.b, n))
    [] T.k = "named"  -> SetLeaves(env, T.u, v, n)
    [] T.k = "self"   -> SetLeaves(env, env[T.name], v, n)
    [] T.k = "ptr"    -> IF v.nil THEN v ELSE [v EXCEPT !.v = SetLeaves(env, T.e, @, n)]
    [] T.k = "slice"  -> IF v.nil THEN v ELSE [v EXCEPT !.es = SeqMap(@, LAMBDA e : SetLeaves(env, T.e, e, n))]
    [] T.k = "array"  -> [v EXCEPT !.es = SeqMap(@, LAMBDA e : SetLeaves(env, T.e, e, n))]
    [] T.k = "map"    -> IF v.nil THEN v
                         ELSE [v EXCEPT !.kv = SeqMap([a \in DOMAIN v.kv |-> a], LAMBDA a :
                                 [k |-> SetLeaves(env, T.key, v.kv[a].k, n + a - 1), v |-> SetLeaves(env, T.e, v.kv[a].v, n)])]
    [] T.k = "struct" -> LET e2 == Bind(env, T) IN
                         [v EXCEPT !.fs = [a \in DOMAIN T.fields |-> SetLeaves(e2, T.fields[a].t, v.fs[a], n)]]

MaxOf(S) == CHOOSE m \in S : \A x \in S : m >= x
MaxTab(T) == MaxOf({1} \cup {Len(LeafTab[X.b]) : X \in {Y \in Nodes(T) : Y.k = "basic"}})

Sweeps(T) ==
  LET B0 == Base(NoEnv, T, Mode0, "r", 0, 1) IN
  [n \in 1..MaxTab(T) |-> Entry("w" \o ToString(n), 0, "", "none",
                                 Relabel(SetLeaves(NoEnv, T, B0, n - 1), "w" \o ToString(n) \o ":"))]

GsPool(T) == Pool(T) \o Sweeps(T)

-----------------------------------------------------------------------------
(* Abstract syntax of the returned text.                                   *)
(*  expressions  [x |-> "lit", b, tok]        %#v of a leaf                *)
(*               [x |-> "fmt", t, v]          %#v of a whole container of  *)
(*                                            basics                       *)
(*               [x |-> "addr", e]            func (v B) *B { return &v }(e)*)
(*               [x |-> "fn", t, st, ret]     func() T { st...; return }() *)
(*  statements   [s |-> "nil"]                return nil                   *)
(*               [s |-> "ret", e]             return e                     *)
(*               [s |-> "new", t]             this := new(E) / &S{} / [2]E{} / make(..)*)
(*               [s |-> "deref", e]           *this = e                    *)
(*               [s |-> "field", i, e]        this.F_i = e                 *)
(*               [s |-> "idx", i, e]          this[i] = e                  *)
(*               [s |-> "key", ke, e]         this[ke] = e                 *)
(*  ret          "this" | "*this" | "done" (a return statement was reached)*)
IsBasic(T) == T.k = "basic"          \* the template tests for *types.Basic: named types are not

Lit(T, v) == [x |-> "lit", b |-> (IF T.k = "named" THEN T.u.b ELSE T.b), tok |-> v.tok]

RECURSIVE PStmt(_, _, _)
RECURSIVE PField(_, _, _)

\* func() T { ... }()  for a value v of type T
Fn(env, T, v) == [x |-> "fn", body |-> PStmt(env, T, v)]

(* genField: the assignment to one field / element, or <<>> when the       *)
(* template's guard (if this.F != nil) skips it                            *)
PField(env, T, v) ==
  CASE T.k \in {"basic", "named"} -> <<Lit(T, v)>>
    [] T.k = "self"   -> PField(env, env[T.name], v)
    [] T.k = "ptr"    -> IF v.nil THEN <<>>
                         ELSE IF IsBasic(T.e) THEN <<[x |-> "addr", e |-> Lit(T.e, v.v)]>>
                         ELSE <<Fn(env, T, v)>>
    [] T.k = "slice"  -> IF v.nil THEN <<>>
                         ELSE IF IsBasic(T.e) THEN <<[x |-> "fmt", t |-> T, v |-> v]>> ELSE <<Fn(env, T, v)>>
    [] T.k = "array"  -> IF IsBasic(T.e) THEN <<[x |-> "fmt", t |-> T, v |-> v]>> ELSE <<Fn(env, T, v)>>
    [] T.k = "map"    -> IF v.nil THEN <<>>
                         ELSE IF IsBasic(T.e) /\ IsBasic(T.key) THEN <<[x |-> "fmt", t |-> T, v |-> v]>>
                         ELSE <<Fn(env, T, v)>>
    [] T.k = "struct" -> <<Fn(env, T, v)>>

Assign(kind, i, es) == IF Len(es) = 0 THEN <<>> ELSE <<[s |-> kind, i |-> i, e |-> es[1]]>>

(* genStatement: the body of func() T { ... }                              *)
PStmt(env, T, v) ==
  CASE T.k \in {"basic", "named"} -> <<[s |-> "ret", e |-> Lit(T, v)]>>
    [] T.k = "self"   -> PStmt(env, env[T.name], v)
    [] T.k = "ptr"    ->
         IF v.nil THEN <<[s |-> "nil"]>>
         ELSE LET E == IF T.e.k = "self" THEN env[T.e.name] ELSE T.e IN
              IF E.k = "struct"
              THEN LET e2 == Bind(env, E) IN
                   <<[s |-> "new", t |-> T, env |-> env]>> \o
                   FlatSeq([a \in DOMAIN E.fields |-> Assign("pfield", a, PField(e2, E.fields[a].t, v.v.fs[a]))]) \o
                   <<[s |-> "retthis"]>>
              ELSE <<[s |-> "new", t |-> T, env |-> env]>> \o Assign("deref", 0, PField(env, E, v.v)) \o <<[s |-> "retthis"]>>
    [] T.k = "struct" ->
         LET e2 == Bind(env, T) IN
         <<[s |-> "new", t |-> Ptr(T), env |-> env]>> \o
         FlatSeq([a \in DOMAIN T.fields |-> Assign("pfield", a, PField(e2, T.fields[a].t, v.fs[a]))]) \o
         <<[s |-> "retderef"]>>
    [] T.k = "slice"  ->
         IF v.nil THEN <<[s |-> "nil"]>>
         ELSE IF IsBasic(T.e) THEN <<[s |-> "ret", e |-> [x |-> "fmt", t |-> T, v |-> v]]>>
         ELSE <<[s |-> "make", t |-> T, env |-> env, n |-> Len(v.es)]>> \o
              SeqMap([a \in DOMAIN v.es |-> a], LAMBDA a : [s |-> "idx", i |-> a, e |-> Fn(env, T.e, v.es[a])]) \o
              <<[s |-> "retthis"]>>
    [] T.k = "array"  ->
         IF IsBasic(T.e) THEN <<[s |-> "ret", e |-> [x |-> "fmt", t |-> T, v |-> v]]>>
         ELSE <<[s |-> "make", t |-> T, env |-> env, n |-> T.len]>> \o
              SeqMap([a \in DOMAIN v.es |-> a], LAMBDA a : [s |-> "idx", i |-> a, e |-> Fn(env, T.e, v.es[a])]) \o
              <<[s |-> "retthis"]>>
    [] T.k = "map"    ->
         IF v.nil THEN <<[s |-> "nil"]>>
         ELSE IF IsBasic(T.e) /\ IsBasic(T.key) THEN <<[s |-> "ret", e |-> [x |-> "fmt", t |-> T, v |-> v]]>>
         ELSE <<[s |-> "make", t |-> T, env |-> env, n |-> 0]>> \o
              SeqMap([a \in DOMAIN v.kv |-> a], LAMBDA a :
                 [s |-> "key", ke |-> (IF IsBasic(T.key) THEN Lit(T.key, v.kv[a].k) ELSE Fn(env, T.key, v.kv[a].k)),
                  e |-> Fn(env, T.e, v.kv[a].v)]) \o
              <<[s |-> "retthis"]>>

-----------------------------------------------------------------------------
(* Evaluation of the printed text on the heap model; p = label prefix of   *)
(* what the evaluation allocates.                                          *)

(* The one formatting fact transcribed from fmt: %#v prints the float -0   *)
(* as "-0", which the compiler reads as the INTEGER constant 0: a twin     *)
(* token comes back as the canonical token of its class.                   *)
LitEval(b, tok) ==
  LET c == SelectSeq(LeafTab[b], LAMBDA e : ~e.twin /\ e.rank = Rank(b, tok)) IN
  IF LeafTab[b][TokIdx[b][tok]].twin /\ Len(c) > 0 THEN c[1].tok ELSE tok

RECURSIVE FmtEval(_, _, _)
FmtEval(T, v, p) ==          \* %#v of a container of basics: composite literal / T(nil)
  CASE T.k = "basic" -> Leaf(LitEval(T.b, v.tok))
    [] T.k = "slice" -> IF v.nil THEN NilV ELSE SliceV(p, Len(v.es), SeqMap(v.es, LAMBDA e : FmtEval(T.e, e, p)))
    [] T.k = "array" -> ArrayV(SeqMap(v.es, LAMBDA e : FmtEval(T.e, e, p)))
    [] T.k = "map"   -> IF v.nil THEN NilV
                        ELSE MapV(p, SeqMap(v.kv, LAMBDA e : [k |-> FmtEval(T.key, e.k, p), v |-> FmtEval(T.e, e.v, p)]))

RECURSIVE Eval(_, _)
RECURSIVE RunFrom(_, _, _, _)

Eval(x, p) ==
  CASE x.x = "lit"  -> Leaf(LitEval(x.b, x.tok))
    [] x.x = "fmt"  -> FmtEval(x.t, x.v, p)
    [] x.x = "addr" -> PtrV(p, Eval(x.e, p \o "*"))
    [] x.x = "fn"   -> RunFrom(x.body, 1, NilV, p)

RunFrom(body, a, this, p) ==
  LET st == body[a]
      q  == p \o "/" \o ToString(a) IN
  CASE st.s = "nil"      -> NilV
    [] st.s = "ret"      -> Eval(st.e, p)
    [] st.s = "retthis"  -> this
    [] st.s = "retderef" -> this.v
    [] st.s = "new"      -> RunFrom(body, a + 1, PtrV(p, Zero(st.env, st.t.e)), p)
    [] st.s = "make"     -> RunFrom(body, a + 1,
                              (CASE st.t.k = "slice" -> SliceV(p, st.n, Zeros(st.env, st.t.e, st.n))
                                 [] st.t.k = "array" -> ArrayV(Zeros(st.env, st.t.e, st.n))
                                 [] st.t.k = "map"   -> MapV(p, <<>>)), p)
    [] st.s = "deref"    -> RunFrom(body, a + 1, [this EXCEPT !.v = Eval(st.e, q)], p)
    [] st.s = "pfield"   -> RunFrom(body, a + 1, [this EXCEPT !.v.fs[st.i] = Eval(st.e, q)], p)
    [] st.s = "idx"      -> RunFrom(body, a + 1, [this EXCEPT !.es[st.i] = Eval(st.e, q)], p)
    [] st.s = "key"      -> RunFrom(body, a + 1, [this EXCEPT !.kv = Append(@, [k |-> Eval(st.ke, q \o "k"), v |-> Eval(st.e, q)])], p)

RoundTripImpl(T, v) == Eval(Fn(NoEnv, T, v), "G:")
=============================================================================
