SPECIFICATION Spec
