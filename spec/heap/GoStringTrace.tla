---------------------------- MODULE GoStringTrace ----------------------------
(***************************************************************************)
(* C06: validation of the two-stage round trip recorded from REAL code.    *)
(*                                                                         *)
(* VERIF_TRACE is NDJSON.  Per type:                                       *)
(*   {"k":"case","id","t","wf","pool","prior","gs","gsx"}  the HeapCases   *)
(*      line; the values are GsPool(t) = pool \o gsx (Pool + leaf sweep)   *)
(*   {"k":"gs","id","i","st1","compiled","st2","v"}  one per value i:      *)
(*      st1      "ok" | "panic"   the real deriveGoString(pool[i])         *)
(*      compiled TRUE iff the returned text, placed as an expression in a  *)
(*               package importing the type's package, was accepted by the *)
(*               real Go compiler (judged per expression: a failing one    *)
(*               does not take others down)                                *)
(*      st2      "ok" | "panic" | "type" (evaluates to a value of another  *)
(*               type) | "none" (not run)                                  *)
(*      v        the projected value the expression evaluated to (st2=ok)  *)
(*                                                                         *)
(* TLA+ decides: which types are in the quantifier (AllExported), which    *)
(* values are tried (Pool), and RoundTripOK = Eq(T, v, pool[i]) (nil vs    *)
(* empty, pointer targets).  It does not decide leaf formatting: that is   *)
(* the Go compiler's verdict on the concrete text, over the leaf table.    *)
(* A result that is Eq but not Identical (the sign of a zero) is a NOTE,   *)
(* not a verdict: the statement says "structurally equal".                 *)
(***************************************************************************)
EXTENDS GoStringSem, Json, IOUtils

Trace == ndJsonDeserialize(IOEnv.VERIF_TRACE)
NL == Len(Trace)

VARIABLES l, cur, seen, bad
vars == <<l, cur, seen, bad>>

NoCase == [id |-> "", t |-> [k |-> "basic", b |-> "int"], wf |-> FALSE, pool |-> <<>>, gsx |-> <<>>]

Init == l = 1 /\ cur = NoCase /\ seen = {} /\ bad = <<>>

Ev == Trace[l]
IsObs(k) == l <= NL /\ Ev.k = k /\ l' = l + 1

T == cur.t
P == cur.pool \o cur.gsx
N == DOMAIN P
X(a) == P[a].v

Rec(law, d) == [l |-> l, id |-> Ev.id, k |-> Ev.k, form |-> "", law |-> law, diff |-> d,
                i |-> IF "i" \in DOMAIN Ev THEN Ev.i ELSE 0, j |-> 0, n |-> 1]
Key(r) == <<r.law, r.diff>>

Emit(recs) ==
  /\ bad' = bad \o SetToSeq({r \in recs : Key(r) \notin seen})
  /\ seen' = seen \cup {Key(r) : r \in recs}

Case ==
  /\ IsObs("case")
  /\ seen' = {}
  /\ IF Ev.wf /\ WellFormed(Ev.t) /\ Ev.pool = Pool(Ev.t) /\ Ev.gs /\ AllExported(Ev.t) /\ Ev.gsx = Sweeps(Ev.t)
     THEN cur' = Ev /\ UNCHANGED bad
     ELSE /\ cur' = [Ev EXCEPT !.wf = FALSE]
          /\ bad' = Append(bad, Rec("MALFORMED: case line is not the specification's Pool(t) of a type with exported fields only", {}))

GsRecs ==
  IF ~(Ev.id = cur.id /\ cur.wf /\ Ev.i \in N) THEN {Rec("MALFORMED: observation does not belong to the current case", {})}
  ELSE IF Ev.st1 # "ok" THEN {Rec("deriveGoString panicked", {})}
  ELSE IF ~Ev.compiled THEN {Rec("the returned text does not compile as an expression in a package importing the type's package", {})}
  ELSE IF Ev.st2 = "panic" THEN {Rec("the compiled text panics when evaluated", {})}
  ELSE IF Ev.st2 = "type" THEN {Rec("the compiled text evaluates to a value of another type", {})}
  ELSE IF Ev.st2 # "ok" THEN {Rec("MALFORMED: stage 2 did not evaluate a compiled text", {})}
  ELSE IF ~WFV(NoEnv, T, Ev.v) THEN {Rec("the compiled text evaluates to an ill-shaped value or a leaf outside the table", {})}
  ELSE IF ~RoundTripOK(T, X(Ev.i), Ev.v)
       THEN {Rec("the compiled text evaluates to a structurally different value", Diff(NoEnv, T, Ev.v, X(Ev.i)))}
  ELSE (IF Identical(NoEnv, T, Ev.v, X(Ev.i)) THEN {}
        ELSE {Rec("NOTE: structurally equal, but a leaf comes back in another representation (not a verdict)", Diff(NoEnv, T, Ev.v, X(Ev.i)))})
       \* not a verdict: the implementation-shaped model predicts another outcome
       \cup (IF Diff(NoEnv, T, RoundTripImpl(T, X(Ev.i)), X(Ev.i)) = Diff(NoEnv, T, Ev.v, X(Ev.i)) THEN {}
             ELSE {Rec("DRIFT: round trip differs from the implementation-shaped model (not a verdict)", {})})

GsObs ==
  /\ IsObs("gs")
  /\ Emit(GsRecs)
  /\ UNCHANGED cur

Next == Case \/ GsObs

Spec == Init /\ [][Next]_vars

Export == l = NL + 1 => ndJsonSerialize(IOEnv.VERIF_OUT, bad)

TraceAccepted == TLCGet("stats").diameter - 1 = NL
=============================================================================
