------------------------------- MODULE HeapOps ------------------------------
(***************************************************************************)
(* Operations on the heap model of Heap.tla:                               *)
(*   Locs(v)            the cells reachable from v                          *)
(*   WriteAt(T,x,loc)   the view x of the heap after a write to cell loc   *)
(*   Shallow(v,d)       copies of v that share everything below depth d    *)
(*   PriorDst(T)        the prior destination states of C05's quantifier   *)
(***************************************************************************)
EXTENDS Heap

NoKey == [tok |-> "-"]

(* another token of the kind                                               *)
OtherTok(b, tok) == LET c == LeafTab[b] IN c[(TokIdx[b][tok] % Len(c)) + 1].tok

(* Scr: a value of type T that differs from v at every position that is    *)
(* stored IN the cell (leaves change, nil-ness of every pointer, slice and *)
(* map flips; what is allocated gets the fresh label prefix p)             *)
RECURSIVE Scr(_, _, _, _)
Scr(env, T, v, p) ==
  CASE T.k = "basic"  -> Leaf(OtherTok(T.b, v.tok))
    [] T.k = "named"  -> Scr(env, T.u, v, p)
    [] T.k = "self"   -> Scr(env, env[T.name], v, p)
    [] T.k = "ptr"    -> IF v.nil THEN PtrV(p, Zero(env, T.e)) ELSE NilV
    [] T.k = "slice"  -> IF v.nil THEN SliceV(p, 1, <<Zero(env, T.e)>>) ELSE NilV
    [] T.k = "map"    -> IF v.nil THEN MapV(p, <<>>) ELSE NilV
    [] T.k = "array"  -> ArrayV([a \in 1..T.len |-> Scr(env, T.e, v.es[a], p \o "/" \o ToString(a))])
    [] T.k = "struct" -> LET e2 == Bind(env, T) IN
                         StructV([a \in DOMAIN T.fields |-> Scr(e2, T.fields[a].t, v.fs[a], p \o "." \o ToString(a))])

(* a cell: the target of a pointer (i = 0), element i of a backing array   *)
(* (spare capacity included), or an entry of a map (i = 1: overwrite the   *)
(* value at key, i = 2: delete key)                                        *)
RECURSIVE Locs(_)
Locs(v) ==
  LET k == VKind(v) IN
  CASE k \in {"leaf", "nil"} -> {}
    [] k = "struct" -> UNION {Locs(v.fs[a]) : a \in DOMAIN v.fs}
    [] k = "array"  -> UNION {Locs(v.es[a]) : a \in DOMAIN v.es}
    [] k = "ptr"    -> {[l |-> v.lbl, i |-> 0, key |-> NoKey]} \cup Locs(v.v)
    [] k = "slice"  -> {[l |-> v.lbl, i |-> OffOf(v) + n, key |-> NoKey] : n \in 0..(v.cap - 1)}
                       \cup UNION {Locs(v.es[a]) : a \in DOMAIN v.es}
    [] k = "map"    -> {[l |-> v.lbl, i |-> op, key |-> v.kv[a].k] : a \in DOMAIN v.kv, op \in {1, 2}}
                       \cup UNION {Locs(v.kv[a].v) : a \in DOMAIN v.kv}

(* WriteAt: what the view x (of type T) shows after cell loc has been      *)
(* overwritten with a scrambled value.  Every node of x carrying the       *)
(* label of loc shows the write if the cell lies in its visible range.     *)
RECURSIVE WriteAt(_, _, _, _)
WriteAt(env, T, x, loc) ==
  CASE T.k = "basic"  -> x
    [] T.k = "named"  -> x
    [] T.k = "self"   -> WriteAt(env, env[T.name], x, loc)
    [] T.k = "ptr"    ->
         IF x.nil THEN x
         ELSE IF x.lbl = loc.l THEN [x EXCEPT !.v = Scr(env, T.e, @, "w:" \o loc.l)]
         ELSE [x EXCEPT !.v = WriteAt(env, T.e, @, loc)]
    [] T.k = "slice"  ->
         IF x.nil THEN x
         ELSE IF x.lbl = loc.l /\ x.cap > 0
         THEN LET a == loc.i - OffOf(x) + 1 IN
              IF a \in DOMAIN x.es
              THEN [x EXCEPT !.es[a] = Scr(env, T.e, @, "w:" \o loc.l \o "/" \o ToString(loc.i))]
              ELSE x                                    \* a cell outside the visible range of this view
         ELSE [x EXCEPT !.es = SeqMap(@, LAMBDA e : WriteAt(env, T.e, e, loc))]
    [] T.k = "array"  -> [x EXCEPT !.es = SeqMap(@, LAMBDA e : WriteAt(env, T.e, e, loc))]
    [] T.k = "map"    ->
         IF x.nil THEN x
         ELSE IF x.lbl = loc.l
         THEN IF loc.i = 2 THEN [x EXCEPT !.kv = SelectSeq(@, LAMBDA e : e.k # loc.key)]
              ELSE [x EXCEPT !.kv = SeqMap(@, LAMBDA e : IF e.k = loc.key
                                                         THEN [e EXCEPT !.v = Scr(env, T.e, @, "w:" \o loc.l)] ELSE e)]
         ELSE [x EXCEPT !.kv = SeqMap(@, LAMBDA e : [e EXCEPT !.v = WriteAt(env, T.e, @, loc)])]
    [] T.k = "struct" -> LET e2 == Bind(env, T) IN
         [x EXCEPT !.fs = [a \in DOMAIN T.fields |-> WriteAt(e2, T.fields[a].t, x.fs[a], loc)]]

(* Shallow(v, d): a copy of v in which the allocations above depth d are   *)
(* fresh (prefix "z:") and everything deeper is SHARED with v.  d = 0 is v *)
(* itself (an aliased "copy"), a large d a fully independent one.          *)
RECURSIVE Shallow(_, _)
Shallow(v, d) ==
  LET k == VKind(v) IN
  CASE k \in {"leaf", "nil"} -> v
    [] k = "struct" -> [v EXCEPT !.fs = SeqMap(@, LAMBDA x : Shallow(x, d))]
    [] k = "array"  -> [v EXCEPT !.es = SeqMap(@, LAMBDA x : Shallow(x, d))]
    [] k = "ptr"    -> IF d = 0 THEN v ELSE [v EXCEPT !.lbl = "z:" \o @, !.v = Shallow(@, d - 1)]
    [] k = "slice"  -> IF d = 0 THEN v ELSE [v EXCEPT !.lbl = "z:" \o @, !.es = SeqMap(@, LAMBDA x : Shallow(x, d - 1))]
    [] k = "map"    -> IF d = 0 THEN v
                       ELSE [v EXCEPT !.lbl = "z:" \o @, !.kv = SeqMap(@, LAMBDA e : [e EXCEPT !.v = Shallow(@, d - 1)])]

-----------------------------------------------------------------------------
(* Resize: every slice of v gets length n (cut, or extended with zero      *)
(* elements) and `extra` cells of spare capacity.                          *)
Zeros(env, T, n) == IF n <= 0 THEN <<>> ELSE [a \in 1..n |-> Zero(env, T)]

RECURSIVE Resize(_, _, _, _, _)
Resize(env, T, v, n, extra) ==
  CASE T.k = "basic"  -> v
    [] T.k = "named"  -> v
    [] T.k = "self"   -> Resize(env, env[T.name], v, n, extra)
    [] T.k = "ptr"    -> IF v.nil THEN v ELSE [v EXCEPT !.v = Resize(env, T.e, @, n, extra)]
    [] T.k = "slice"  ->
         IF v.nil THEN v
         ELSE LET es0 == SeqMap(v.es, LAMBDA e : Resize(env, T.e, e, n, extra))
                  es1 == IF Len(es0) >= n THEN SubSeq(es0, 1, n) ELSE es0 \o Zeros(env, T.e, n - Len(es0)) IN
              [v EXCEPT !.es = es1, !.cap = n + extra]
    [] T.k = "array"  -> [v EXCEPT !.es = SeqMap(@, LAMBDA e : Resize(env, T.e, e, n, extra))]
    [] T.k = "map"    -> IF v.nil THEN v
                         ELSE [v EXCEPT !.kv = SeqMap(@, LAMBDA e : [e EXCEPT !.v = Resize(env, T.e, @, n, extra)])]
    [] T.k = "struct" -> LET e2 == Bind(env, T) IN
         [v EXCEPT !.fs = [a \in DOMAIN T.fields |-> Resize(e2, T.fields[a].t, v.fs[a], n, extra)]]

(* PriorDst(T): "arbitrary unrelated prior contents" of the destination,   *)
(* boundary-biased: the zero value; everything non-nil and empty; a rich   *)
(* value with the source's own shape; a rich value with OTHER leaves and   *)
(* map keys; spare capacity; longer slices; shorter slices with spare      *)
(* capacity.  All tree-shaped, labels "D<n>:..." (disjoint from any pool   *)
(* value).  Together with Pool(T) (nil / empty / one element more or less) *)
(* every branch of a destination-reusing copy is reached: nil vs non-nil   *)
(* on either side, len(src) <, =, > len(dst), cap(dst) >=, < len(src).     *)
PriorEntry(tag, v) == [tag |-> tag, v |-> v]

RECURSIVE DedupFrom(_, _)
DedupFrom(s, a) ==
  IF a > Len(s) THEN <<>>
  ELSE (IF \E b \in 1..(a - 1) : s[b].v = s[a].v THEN <<>> ELSE <<s[a]>>) \o DedupFrom(s, a + 1)

PriorDst(T) ==
  LET B(m, s) == Base(NoEnv, T, m, "r", s, 1) IN
  DedupFrom(<< PriorEntry("zero",  Zero(NoEnv, T)),
               PriorEntry("empty", Relabel(Empty(NoEnv, T, "r", 1), "D1:")),
               PriorEntry("rich",  Relabel(B(Mode0, 0), "D2:")),
               PriorEntry("other", Relabel(B(Mode0, 2), "D3:")),
               PriorEntry("cap",   Relabel(B([Mode0 EXCEPT !.extra = 2], 1), "D4:")),
               PriorEntry("long",  Relabel(Resize(NoEnv, T, B(Mode0, 1), 3, 0), "D5:")),
               PriorEntry("short", Relabel(Resize(NoEnv, T, B(Mode0, 3), 1, 2), "D6:")) >>, 1)
=============================================================================
