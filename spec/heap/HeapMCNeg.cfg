SPECIFICATION Spec
INVARIANTS
  NoPremise
CHECK_DEADLOCK FALSE
