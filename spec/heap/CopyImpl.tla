------------------------------ MODULE CopyImpl ------------------------------
(***************************************************************************)
(* IMPLEMENTATION-SHAPED LAYER for C05: today's deepcopy / clone templates *)
(* (plugin/deepcopy/deepcopy.go genStatement + genField,                   *)
(* plugin/clone/clone.go genFuncFor), transcribed as functions on the heap *)
(* model.  Model-checked against the abstract CopyOK (HeapMC); real        *)
(* observations that differ from it are DRIFT, never a verdict.            *)
(*                                                                         *)
(*   CpField(env,T,s,d,p)   genField: the destination field after copying  *)
(*                          source field s over its prior content d        *)
(*   CpPtrBody(env,T,s,d,p) deriveDeepCopy(dst, src *T): *dst afterwards   *)
(*   CpSliceForm / CpMapForm   deriveDeepCopy(dst, src []E / map[K]E)      *)
(*   CloneImpl              deriveClone(src)                               *)
(* p is the label prefix of what the call allocates (new, make).           *)
(***************************************************************************)
EXTENDS HeapOps

(* canCopy: plain assignment is a deep copy (no pointer, slice or map)     *)
RECURSIVE CanCopy(_)
CanCopy(T) ==
  CASE T.k \in {"basic", "named"} -> TRUE
    [] T.k = "array"  -> CanCopy(T.e)
    [] T.k = "struct" -> \A a \in DOMAIN T.fields : CanCopy(T.fields[a].t)
    [] OTHER -> FALSE

Sub(p, a) == p \o "/" \o ToString(a)

RECURSIVE CpField(_, _, _, _, _)
RECURSIVE CpPtrBody(_, _, _, _, _)

CpField(env, T, s, d, p) ==
  IF CanCopy(T) THEN s                                                       \* dst.F = src.F
  ELSE CASE T.k = "self" -> CpField(env, env[T.name], s, d, p)
    [] T.k = "ptr" ->
         IF s.nil THEN NilV                                                  \* dst.F = nil
         ELSE PtrV(p, CpPtrBody(env, T.e, s.v, Zero(env, T.e), p \o "*"))    \* dst.F = new(E); copy into it
    [] T.k = "slice" ->
         IF s.nil THEN NilV
         ELSE LET n  == Len(s.es)
                  mk == SliceV(p, n, Zeros(env, T.e, n))                     \* make([]E, len(src))
                  d1 == IF d.nil THEN mk
                        ELSE IF n > Len(d.es)
                             THEN (IF d.cap >= n                             \* reuse: dst = dst[:len(src)]
                                   THEN [d EXCEPT !.es = @ \o Zeros(env, T.e, n - Len(@))]
                                   ELSE mk)
                        ELSE IF n < Len(d.es) THEN [d EXCEPT !.es = SubSeq(@, 1, n)]
                        ELSE d IN
              [d1 EXCEPT !.es = IF n = 0 THEN <<>>
                                ELSE [a \in 1..n |-> IF CanCopy(T.e) THEN s.es[a]                        \* copy(dst, src)
                                                     ELSE CpField(env, T.e, s.es[a], d1.es[a], Sub(p, a))]]
    [] T.k = "map" ->
         IF s.nil THEN NilV
         ELSE MapV(p, SeqMap([a \in DOMAIN s.kv |-> a], LAMBDA a :                \* make(map, len(src)); range src
                 [k |-> s.kv[a].k, v |-> CpField(env, T.e, s.kv[a].v, Zero(env, T.e), Sub(p, a))]))
    [] T.k = "array" ->
         ArrayV([a \in 1..T.len |-> CpField(env, T.e, s.es[a], d.es[a], Sub(p, a))])
    [] T.k = "struct" ->                                                     \* field := new(T); copy; dst.F = *field
         CpPtrBody(env, T, s, Zero(env, T), p)

CpPtrBody(env, T, s, d, p) ==
  CASE T.k = "self"   -> CpPtrBody(env, env[T.name], s, d, p)
    [] T.k = "struct" -> LET e2 == Bind(env, T) IN
         StructV([a \in DOMAIN T.fields |-> CpField(e2, T.fields[a].t, s.fs[a], d.fs[a], p \o "." \o ToString(a))])
    [] OTHER -> CpField(env, T, s, d, p)

(* deriveDeepCopy(dst, src []E): element-wise into the caller's slice      *)
CpSliceForm(env, T, s, d, p) ==
  IF s.nil \/ d.nil THEN d
  ELSE [d EXCEPT !.es = SeqMap([a \in DOMAIN d.es |-> a], LAMBDA a :
          IF a > Len(s.es) THEN d.es[a]
          ELSE IF CanCopy(T.e) THEN s.es[a]
          ELSE CpField(env, T.e, s.es[a], d.es[a], Sub(p, a)))]

(* deriveDeepCopy(dst, src map[K]E): entry-wise into the caller's map      *)
CpMapForm(env, T, s, d, p) ==
  IF s.nil \/ d.nil THEN d
  ELSE LET old(k) == LET hit == SelectSeq(d.kv, LAMBDA e : e.k = k) IN
                     IF Len(hit) = 0 THEN Zero(env, T.e) ELSE hit[1].v
           kept == SelectSeq(d.kv, LAMBDA e : ~\E a \in DOMAIN s.kv : s.kv[a].k = e.k) IN
       [d EXCEPT !.kv = kept \o SeqMap([a \in DOMAIN s.kv |-> a], LAMBDA a :
          [k |-> s.kv[a].k, v |-> CpField(env, T.e, s.kv[a].v, old(s.kv[a].k), Sub(p, a))])]

(* deriveClone(src T) T                                                    *)
CloneImpl(T, s, p) ==
  CASE T.k = "ptr"   -> IF s.nil THEN NilV ELSE PtrV(p, CpPtrBody(NoEnv, T.e, s.v, Zero(NoEnv, T.e), p \o "*"))
    [] T.k = "slice" -> IF s.nil THEN NilV
                        ELSE CpSliceForm(NoEnv, T, s, SliceV(p, Len(s.es), Zeros(NoEnv, T.e, Len(s.es))), p)
    [] T.k = "map"   -> IF s.nil THEN NilV ELSE CpMapForm(NoEnv, T, s, MapV(p, <<>>), p)
    [] OTHER         -> CpPtrBody(NoEnv, T, s, Zero(NoEnv, T), p)

-----------------------------------------------------------------------------
(* The destination handed to each call form, derived from prior state d0:  *)
(*  ptr   : d0 itself (the target of the caller's pointer)                 *)
(*  slice : "a slice of equal length" with d0's contents and one spare     *)
(*          cell, nil iff the source is (the root reference is the         *)
(*          caller's: its nil-ness cannot be changed by the call)          *)
(*  map   : "an empty map"                                                 *)
FitSlice(T, s, d0) ==
  IF s.nil THEN NilV
  ELSE LET n   == Len(s.es)
           old == IF d0.nil THEN <<>> ELSE d0.es
           es  == IF Len(old) >= n THEN SubSeq(old, 1, n) ELSE old \o Zeros(NoEnv, T.e, n - Len(old)) IN
       SliceV("F:", n + 1, es)

Forms(T) == {"ptr", "clone"} \cup (IF T.k = "slice" THEN {"slice"} ELSE {}) \cup (IF T.k = "map" THEN {"map"} ELSE {})

\* is the call form defined on (source s, prior d0)?
FormApplies(form, T, s) == form = "map" => ~s.nil

DstBefore(form, T, s, d0) ==
  CASE form = "ptr"   -> d0
    [] form = "slice" -> FitSlice(T, s, d0)
    [] form = "map"   -> MapV("F:", <<>>)
    [] form = "clone" -> Zero(NoEnv, T)

DstAfterImpl(form, T, s, d0) ==
  CASE form = "ptr"   -> CpPtrBody(NoEnv, T, s, d0, "N:")
    [] form = "slice" -> CpSliceForm(NoEnv, T, s, FitSlice(T, s, d0), "N:")
    [] form = "map"   -> CpMapForm(NoEnv, T, s, MapV("F:", <<>>), "N:")
    [] form = "clone" -> CloneImpl(T, s, "N:")

(* which allocations of a destination were REUSED from the prior state     *)
(* (labels replaced by old / new): what DRIFT compares                     *)
RECURSIVE Erase(_, _)
Erase(v, R) ==
  LET k == VKind(v)
      mark(l) == IF l \in R THEN "old" ELSE "new" IN
  CASE k \in {"leaf", "nil"} -> v
    [] k = "struct" -> [v EXCEPT !.fs = SeqMap(@, LAMBDA x : Erase(x, R))]
    [] k = "array"  -> [v EXCEPT !.es = SeqMap(@, LAMBDA x : Erase(x, R))]
    [] k = "ptr"    -> [nil |-> FALSE, lbl |-> mark(v.lbl), v |-> Erase(v.v, R)]
    [] k = "slice"  -> [nil |-> FALSE, lbl |-> IF v.cap = 0 THEN "new" ELSE mark(v.lbl), cap |-> v.cap,
                        es |-> SeqMap(v.es, LAMBDA x : Erase(x, R))]
    [] k = "map"    -> [nil |-> FALSE, lbl |-> mark(v.lbl),
                        kv |-> {[k |-> v.kv[a].k, v |-> Erase(v.kv[a].v, R)] : a \in DOMAIN v.kv}]
=============================================================================
