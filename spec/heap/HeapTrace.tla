------------------------------ MODULE HeapTrace -----------------------------
(***************************************************************************)
(* C05: validation of OBSERVATIONS recorded from the REAL generated        *)
(* deriveDeepCopy / deriveClone against the abstract layer of Heap.tla.    *)
(*                                                                         *)
(* VERIF_TRACE is NDJSON.  Per type:                                       *)
(*   {"k":"case","id","t","wf","pool","prior"}   the line HeapCases wrote  *)
(*   {"k":"copy","id","form","i","j","st",                                 *)
(*    "pre": {"s":V,"d":V},   projected heap before the call               *)
(*    "post":{"s":V,"d":V},   ... after the call (one label table)         *)
(*    "sw":V,                 the source after EVERY cell reachable from   *)
(*                            the copy has been overwritten                *)
(*    "dw":V}                 (second, fresh run) the copy after every     *)
(*                            cell reachable from the source was           *)
(*   form: ptr   deriveDeepCopy(dst, src *T), *src = pool[i], *dst = prior[j]*)
(*         slice deriveDeepCopy(dst, src T),  T a slice, dst of equal length *)
(*               built from prior[j] (CopyImpl!FitSlice)                    *)
(*         map   deriveDeepCopy(dst, src T),  T a map, dst empty (j = 1)   *)
(*         clone deriveClone(src T)           (j = 1, "d" = the result)    *)
(*   V is the value JSON of engs with labels = real addresses (slices also *)
(*   carry "off"); st = "ok" | "panic" | "corrupt" (reading source or      *)
(*   result after the call faults); then only "pre" is present.            *)
(*                                                                         *)
(*   {"k":"crash","id","why"}  the process running the case's copies died  *)
(* Every line is consumed; what CopyOK / write independence do not allow   *)
(* is recorded in bad (one record per case x form x law x difference       *)
(* class) and exported to VERIF_OUT.  Laws starting with MALFORMED are     *)
(* errors of the harness (exit 2), with DRIFT disagreement with CopyImpl.  *)
(***************************************************************************)
EXTENDS CopyImpl, Json, IOUtils

Trace == ndJsonDeserialize(IOEnv.VERIF_TRACE)
NL == Len(Trace)

VARIABLES l, cur, seen, bad
vars == <<l, cur, seen, bad>>

NoCase == [id |-> "", t |-> [k |-> "basic", b |-> "int"], wf |-> FALSE, pool |-> <<>>, prior |-> <<>>]

Init == l = 1 /\ cur = NoCase /\ seen = {} /\ bad = <<>>

Ev == Trace[l]
IsObs(k) == l <= NL /\ Ev.k = k /\ l' = l + 1

T == cur.t
P == cur.pool
N == DOMAIN P
X(a) == P[a].v

Rec(form, law, d) == [l |-> l, id |-> Ev.id, k |-> Ev.k, form |-> form, law |-> law, diff |-> d,
                      i |-> IF "i" \in DOMAIN Ev THEN Ev.i ELSE 0, j |-> IF "j" \in DOMAIN Ev THEN Ev.j ELSE 0, n |-> 1]
Key(r) == <<r.form, r.law, r.diff>>

\* one record per (form, law, difference class) and case
Emit(recs) ==
  /\ bad' = bad \o SetToSeq({r \in recs : Key(r) \notin seen})
  /\ seen' = seen \cup {Key(r) : r \in recs}

Case ==
  /\ IsObs("case")
  /\ seen' = {}
  /\ IF Ev.wf /\ WellFormed(Ev.t) /\ Ev.pool = Pool(Ev.t) /\ Ev.prior = PriorDst(Ev.t)
     THEN cur' = Ev /\ UNCHANGED bad
     ELSE /\ cur' = [Ev EXCEPT !.wf = FALSE]
          /\ bad' = Append(bad, Rec("", "MALFORMED: case line is not the specification's Pool(t) / PriorDst(t)", {}))

FormText(f) ==
  CASE f = "ptr"   -> "deriveDeepCopy(dst, src *T)"
    [] f = "slice" -> "deriveDeepCopy(dst, src []E)"
    [] f = "map"   -> "deriveDeepCopy(dst, src map[K]E)"
    [] f = "clone" -> "deriveClone(src T)"
    [] OTHER       -> "?"

Dif(x, y) == Diff(NoEnv, T, x, y)
Same(x, y) == Identical(NoEnv, T, x, y)
WF1(v) == WFV(NoEnv, T, v)

CopyRecs ==
  LET f == Ev.form
      R(law, d) == Rec(f, FormText(f) \o ": " \o law, d)
      Bad1(law) == {Rec(f, law, {})} IN
  IF ~(Ev.id = cur.id /\ cur.wf) THEN Bad1("MALFORMED: observation does not belong to the current case")
  ELSE IF ~(f \in Forms(T) /\ Ev.i \in N /\ Ev.j \in DOMAIN cur.prior /\ FormApplies(f, T, X(Ev.i)))
  THEN Bad1("MALFORMED: call form or indices outside the case")
  ELSE LET s0 == X(Ev.i)
           d0 == DstBefore(f, T, s0, cur.prior[Ev.j].v) IN
  IF ~(WF1(Ev.pre.s) /\ WF1(Ev.pre.d)) THEN Bad1("MALFORMED: ill-shaped pre-state")
  ELSE IF ~(Same(Ev.pre.s, s0) /\ Same(Ev.pre.d, d0) /\ PriorOK(Ev.pre.s, Ev.pre.d))
  THEN Bad1("MALFORMED: pre-state is not the case's source and a tree-shaped, disjoint prior destination")
  ELSE IF Ev.st = "corrupt" THEN {R("a value cannot be read after the call (corrupt memory)", {})}
  ELSE IF Ev.st # "ok" THEN {R("the call panicked", {})}
  ELSE IF ~(WF1(Ev.post.s) /\ WF1(Ev.post.d) /\ WF1(Ev.sw) /\ WF1(Ev.dw))
  THEN {R("a value after the call is ill-shaped or holds a leaf outside the table", {})}
  ELSE
    \* ---- the property (abstract layer): CopyOK and observed write independence
    (IF Same(Ev.post.s, Ev.pre.s) THEN {}
     ELSE {R("the source was changed by the call", Dif(Ev.post.s, Ev.pre.s))})
    \cup (IF Same(Ev.post.d, Ev.pre.s) THEN {}
          ELSE {R("the result differs from the source", Dif(Ev.post.d, Ev.pre.s))})
    \cup (IF Reach(Ev.post.d) \cap Reach(Ev.post.s) = {} THEN {}
          ELSE {R("the result shares memory with the source", SharedKinds(Ev.post.d, Ev.post.s))})
    \* (against the POST state: isolates the effect of the writes from an already wrong copy;
    \*  dw comes from a second run of the same deterministic call)
    \cup (IF Same(Ev.sw, Ev.post.s) THEN {}
          ELSE {R("a write through the result is visible through the source", {})})
    \cup (IF Same(Ev.dw, Ev.post.d) THEN {}
          ELSE {R("a write through the source is visible through the result", {})})
    \* ---- not a verdict: today's template would have reused / allocated differently
    \cup (LET m == DstAfterImpl(f, T, s0, cur.prior[Ev.j].v) IN
          IF Erase(Ev.post.d, Reach(Ev.pre.d)) = Erase(m, Reach(d0)) THEN {}
          ELSE {Rec(f, "DRIFT: destination reuse / allocation pattern differs from the implementation-shaped model (not a verdict)", {})})

CopyObs ==
  /\ IsObs("copy")
  /\ Emit(CopyRecs)
  /\ UNCHANGED cur

(* the child process that ran the copies of the current case crashed or   *)
(* hung: generated code broke memory safety (the harness's own code runs   *)
(* unchanged on every other case)                                          *)
CrashObs ==
  /\ IsObs("crash")
  /\ Emit({[Rec("", "the process running the generated functions crashed or hung (memory corrupted by a call)", {}) EXCEPT !.k = "copy"]})
  /\ UNCHANGED cur

Next == Case \/ CopyObs \/ CrashObs

Spec == Init /\ [][Next]_vars

\* export the verdict when the whole file has been consumed
Export == l = NL + 1 => ndJsonSerialize(IOEnv.VERIF_OUT, bad)

\* all lines consumed: the trace specification never got stuck
TraceAccepted == TLCGet("stats").diameter - 1 = NL
=============================================================================
