----------------------------- MODULE GoStringMC ------------------------------
(***************************************************************************)
(* TLC model check of the implementation-shaped GoString round trip on the *)
(* exported universe (VERIF_CASES = the file HeapCases wrote): for every   *)
(* type with exported fields only and every pool value,                    *)
(*   Eval(Print(v)) is a well-shaped, tree-shaped value structurally equal *)
(*   to v (RoundTripOK), label-disjoint from v, and Identical to v except  *)
(*   where a twin leaf (-0) was printed.                                   *)
(* A violation means the SPECIFICATION is wrong (exit 2), never a verdict. *)
(***************************************************************************)
EXTENDS GoStringSem, Json, IOUtils

Cases == ndJsonDeserialize(IOEnv.VERIF_CASES)
NC == Len(Cases)

VARIABLES ti, i, back
vars == <<ti, i, back>>

T == Cases[ti].t
P == Cases[ti].pool \o Cases[ti].gsx
X(a) == P[a].v

Init == ti = 0 /\ i = 0 /\ back = NilV
Next ==
  \/ /\ ti = 0 /\ ti' \in {t \in 1..NC : Cases[t].gs} /\ i' = 0 /\ back' = NilV
  \/ /\ ti > 0 /\ i = 0 /\ i' \in DOMAIN P /\ back' = RoundTripImpl(T, X(i')) /\ UNCHANGED ti
Spec == Init /\ [][Next]_vars

FlagOK == ti > 0 => (Cases[ti].gs = AllExported(T) /\ P = GsPool(T))

RoundTrips == i > 0 =>
  /\ WFV(NoEnv, T, back) /\ TreeShaped(back)
  /\ RoundTripOK(T, X(i), back)
  /\ Reach(back) \cap Reach(X(i)) = {}
  /\ Diff(NoEnv, T, back, X(i)) \subseteq {"twin"}
=============================================================================
