SPECIFICATION Spec
INVARIANTS
  PriorsOK
  ImplSatisfiesCopyOK
  WriteIndependence
  StaysDisjoint
  SharingIsObservable
CHECK_DEADLOCK FALSE
