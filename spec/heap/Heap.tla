-------------------------------- MODULE Heap --------------------------------
(***************************************************************************)
(* Engine S on a HEAP: copy semantics (C05) and round trips (C06).         *)
(*                                                                         *)
(* Values are the trees of spec/sem/Values.tla: every pointer target,      *)
(* slice backing array and map carries an ALLOCATION LABEL; two nodes with *)
(* one label are one allocation.  A slice is a view                        *)
(*      (lbl, off, len = Len(es), cap)                                     *)
(* of the cells off .. off+cap-1 of its backing array (off is optional in  *)
(* the JSON/record form and defaults to 0); the cells beyond len are the   *)
(* SPARE CAPACITY: not visible through the view, but writable through it   *)
(* (s[:cap]) and therefore part of what is reachable.                      *)
(*                                                                         *)
(* Abstract layer (verdicts are judged against this, HeapTrace.tla):       *)
(*   Reach(v)          allocation labels reachable from v                  *)
(*   CopyOK(..)        the post-condition of C05                           *)
(*   Locs / WriteAt    the cells reachable from a value and the effect of  *)
(*                     a write to one cell on ANY view of the heap         *)
(*   PriorDst(T)       the prior destination states of the quantifier      *)
(* HeapMC.tla shows with TLC that CopyOK implies write independence in     *)
(* both directions; CopyImpl.tla transcribes today's template.             *)
(***************************************************************************)
EXTENDS DeriveSem

OffOf(v) == IF "off" \in DOMAIN v THEN v.off ELSE 0

(* the kind of a value node, read off its shape                            *)
VKind(v) ==
  LET D == DOMAIN v IN
  IF "tok" \in D THEN "leaf"
  ELSE IF "fs" \in D THEN "struct"
  ELSE IF "nil" \notin D THEN "array"
  ELSE IF v.nil THEN "nil"
  ELSE IF "v" \in D THEN "ptr"
  ELSE IF "es" \in D THEN "slice"
  ELSE "map"

SeqMap(s, F(_)) == IF Len(s) = 0 THEN <<>> ELSE [a \in 1..Len(s) |-> F(s[a])]

(* allocations of a value in preorder: [l = label, k = kind, c = cells]    *)
RECURSIVE LabelSeq(_)
LabelSeq(v) ==
  LET k == VKind(v) IN
  CASE k \in {"leaf", "nil"} -> <<>>
    [] k = "struct" -> FlatSeq(SeqMap(v.fs, LAMBDA x : LabelSeq(x)))
    [] k = "array"  -> FlatSeq(SeqMap(v.es, LAMBDA x : LabelSeq(x)))
    [] k = "ptr"    -> <<[l |-> v.lbl, k |-> "ptr", c |-> 1]>> \o LabelSeq(v.v)
    [] k = "slice"  -> <<[l |-> v.lbl, k |-> "slice", c |-> v.cap]>> \o FlatSeq(SeqMap(v.es, LAMBDA x : LabelSeq(x)))
    [] k = "map"    -> <<[l |-> v.lbl, k |-> "map", c |-> 1]>> \o
                       FlatSeq(SeqMap(v.kv, LAMBDA e : LabelSeq(e.k) \o LabelSeq(e.v)))

(* a slice without cells (cap = 0) owns no memory: Go hands out one shared *)
(* address for all of them                                                 *)
Owning(v) == SelectSeq(LabelSeq(v), LAMBDA x : x.c > 0)

(* Reach: the allocation labels reachable from v (a backing array counts   *)
(* as a whole, spare capacity included)                                    *)
Reach(v) == LET s == Owning(v) IN {s[a].l : a \in DOMAIN s}

(* every allocation is reached along exactly one path                      *)
TreeShaped(v) == LET s == Owning(v) IN \A a, b \in DOMAIN s : a # b => s[a].l # s[b].l

(* kinds of the allocations two values have in common (failure classes)    *)
SharedKinds(x, y) ==
  LET s == Owning(x) R == Reach(y) IN {"shared@" \o s[a].k : a \in {b \in DOMAIN s : s[b].l \in R}}

-----------------------------------------------------------------------------
(* shape of a value w.r.t. its type (observed values are checked before    *)
(* any reference operator is applied to them)                              *)
RECURSIVE WFV(_, _, _)
WFV(env, ty, v) ==
  CASE ty.k = "basic"  -> DOMAIN v = {"tok"} /\ v.tok \in Toks(ty.b)
    [] ty.k = "named"  -> WFV(env, ty.u, v)
    [] ty.k = "self"   -> WFV(env, env[ty.name], v)
    [] ty.k = "ptr"    -> /\ "nil" \in DOMAIN v
                          /\ IF v.nil THEN DOMAIN v = {"nil"}
                             ELSE DOMAIN v = {"nil", "lbl", "v"} /\ WFV(env, ty.e, v.v)
    [] ty.k = "slice"  -> /\ "nil" \in DOMAIN v
                          /\ IF v.nil THEN DOMAIN v = {"nil"}
                             ELSE /\ DOMAIN v \in {{"nil", "lbl", "cap", "es"}, {"nil", "lbl", "cap", "es", "off"}}
                                  /\ v.cap >= Len(v.es) /\ OffOf(v) >= 0
                                  /\ \A a \in DOMAIN v.es : WFV(env, ty.e, v.es[a])
    [] ty.k = "array"  -> DOMAIN v = {"es"} /\ Len(v.es) = ty.len /\ \A a \in DOMAIN v.es : WFV(env, ty.e, v.es[a])
    [] ty.k = "map"    -> /\ "nil" \in DOMAIN v
                          /\ IF v.nil THEN DOMAIN v = {"nil"}
                             ELSE /\ DOMAIN v = {"nil", "lbl", "kv"}
                                  /\ \A a \in DOMAIN v.kv : WFV(env, ty.key, v.kv[a].k) /\ WFV(env, ty.e, v.kv[a].v)
                                  /\ \A a, b \in DOMAIN v.kv : a # b => ~Eq(env, ty.key, v.kv[a].k, v.kv[b].k)
    [] ty.k = "struct" -> LET e2 == Bind(env, ty) IN
                          /\ DOMAIN v = {"fs"} /\ Len(v.fs) = Len(ty.fields)
                          /\ \A a \in DOMAIN v.fs : WFV(e2, ty.fields[a].t, v.fs[a])

-----------------------------------------------------------------------------
(* C05, exactly the statement: the result is structurally equal to the     *)
(* source with the nil-ness of every pointer, slice and map reproduced,    *)
(* the source is unchanged, and no pointer target, backing array or map    *)
(* reachable from the result is reachable from the source.                 *)
CopyOK(T, srcPre, srcPost, dstPost) ==
  /\ Identical(NoEnv, T, srcPost, srcPre)
  /\ Identical(NoEnv, T, dstPost, srcPre)
  /\ Reach(dstPost) \cap Reach(srcPost) = {}

(* the quantifier's side condition on a prior destination state            *)
PriorOK(src, dst0) == TreeShaped(dst0) /\ Reach(dst0) \cap Reach(src) = {}
=============================================================================
