------------------------------ MODULE HeapCases -----------------------------
(***************************************************************************)
(* Case export for C05 / C06 (same contract as spec/sem/SemCases.tla):     *)
(*  VERIF_TYPES=g, VERIF_OUT=f : g holds lines {"id":..,"t":<type>}; for   *)
(*      each, write {"k":"case","id","t","wf","pool","prior"} with         *)
(*      pool = Pool(t) (the sources) and prior = PriorDst(t) (the prior    *)
(*      destination states) -- the values the real generated code is run   *)
(*      on and HeapMC model-checks the copy model on; gs = AllExported(t)  *)
(*      marks the types of C06's quantifier, gsx = Sweeps(t) its extra    *)
(*      values (leaf sweep).                                               *)
(*  VERIF_LEAVES=h : the leaf token table for the harness's sanity check   *)
(***************************************************************************)
EXTENDS GoStringSem, Json, IOUtils

VARIABLE done

HasEnv(v) == v \in DOMAIN IOEnv

CaseOf(r) ==
  IF WellFormed(r.t)
  THEN [k |-> "case", id |-> r.id, t |-> r.t, wf |-> TRUE, pool |-> Pool(r.t), prior |-> PriorDst(r.t),
        gs |-> AllExported(r.t), gsx |-> IF AllExported(r.t) THEN Sweeps(r.t) ELSE <<>>]
  ELSE [k |-> "case", id |-> r.id, t |-> r.t, wf |-> FALSE, pool |-> <<>>, prior |-> <<>>, gs |-> FALSE, gsx |-> <<>>]

CasesOut ==
  LET ts == ndJsonDeserialize(IOEnv.VERIF_TYPES) IN
  ndJsonSerialize(IOEnv.VERIF_OUT, [i \in DOMAIN ts |-> CaseOf(ts[i])])

LeavesOut == ndJsonSerialize(IOEnv.VERIF_LEAVES, LeafExport)

ASSUME HasEnv("VERIF_LEAVES") => LeavesOut
ASSUME HasEnv("VERIF_TYPES") => CasesOut

Init == done = TRUE
Next == UNCHANGED done
Spec == Init /\ [][Next]_done
=============================================================================
