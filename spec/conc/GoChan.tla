------------------------------- MODULE GoChan -------------------------------
(***************************************************************************)
(* Go channel / goroutine / WaitGroup semantics at the grain of the        *)
(* controlled scheduler vsched (engine K; DESIGN.md Appendix A.2).         *)
(*                                                                         *)
(* A goroutine is a record gs[p] with a role; what it does is given by     *)
(* three operators the combinator modules supply:                          *)
(*   P(p)      its pending operation (a POp record), from its local state  *)
(*   A(p, r)   its local state after the pending operation completed with  *)
(*             result r = [v, ok, idx]                                     *)
(*   B(p, c)   the initial local state of the goroutine c that p spawns    *)
(* The actions below are the ONLY way the shared state changes: buffered   *)
(* send/receive, receive on closed-and-empty, unbuffered rendezvous as one *)
(* atomic step, close, select over receive cases, go, WaitGroup            *)
(* Add/Done/Wait, and the runtime panics.  vsched computes "enabled" and   *)
(* "effect" by exactly these rules (sched.go Enabled / step.go Apply).     *)
(***************************************************************************)
EXTENDS Integers, Sequences, FiniteSets, TLC

VARIABLES
  cfg,       \* the configuration of this run (never changes)
  ch,        \* ch[c] = [buf, cap, closed, live]; live = created so far
  wg,        \* wg[w] = [n, live]
  gs,        \* gs[p] = local state of goroutine p; role "absent" before its spawn
  panicked,  \* "no" or the Go runtime panic message
  last       \* the transition just taken (what vsched logs as the step)

gvars == <<cfg, ch, wg, gs, panicked, last>>

\* values: the field name encodes the kind
NoV   == [n |-> 0]
IV(i) == [i |-> i]
CV(c) == [c |-> c]
Nil   == "nil"

\* pending operations, uniform shape (same fields as vsched's projection)
POp(op, c, v, cs, w, n, child) == [op |-> op, c |-> c, v |-> v, cs |-> cs, w |-> w, n |-> n, child |-> child]
PSend(c, v) == POp("send", c, v, <<>>, "", 0, "")
PRecv(c)    == POp("recv", c, NoV, <<>>, "", 0, "")
PClose(c)   == POp("close", c, NoV, <<>>, "", 0, "")
PSelect(cs) == POp("select", "", NoV, cs, "", 0, "")
PGo(child)  == POp("go", "", NoV, <<>>, "", 0, child)
PAdd(w, n)  == POp("add", "", NoV, <<>>, w, n, "")
PWait(w)    == POp("wait", "", NoV, <<>>, w, 0, "")
PExit       == POp("exit", "", NoV, <<>>, "", 0, "")
\* a spawned goroutine that has not run yet (only when vsched makes goroutine starts scheduling points)
PStart      == POp("start", "", NoV, <<>>, "", 0, "")

Res(v, ok, idx) == [v |-> v, ok |-> ok, idx |-> idx]
Plain == Res(NoV, TRUE, -1)

Step(k, g, q, c, w, case, v, ok) == [k |-> k, g |-> g, q |-> q, c |-> c, w |-> w, case |-> case, v |-> v, ok |-> ok]
NoStep == Step("init", "", "", "", "", -1, NoV, FALSE)

Live(p)  == gs[p].role # "absent"
Procs    == DOMAIN gs
IsChan(c) == c # Nil /\ c \in DOMAIN ch

\* channels a goroutine creates in the local code it runs after a step
MkLive(c2, recs) ==
  [c \in DOMAIN c2 |-> IF \E r \in recs : c \in r.mk THEN [c2[c] EXCEPT !.live = TRUE] ELSE c2[c]]
MkLiveW(w2, recs) ==
  [w \in DOMAIN w2 |-> IF \E r \in recs : w \in r.mkw THEN [w2[w] EXCEPT !.live = TRUE] ELSE w2[w]]

\* p's operation completed with result r; channels/WaitGroups become c2/w2
Finish1(p, np, c2, w2, st) ==
  /\ gs' = [gs EXCEPT ![p] = np]
  /\ ch' = MkLive(c2, {np})
  /\ wg' = MkLiveW(w2, {np})
  /\ last' = st
  /\ UNCHANGED <<cfg, panicked>>

PanicWith(msg, st) ==
  /\ panicked' = msg /\ last' = st
  /\ UNCHANGED <<cfg, ch, wg, gs>>

-----------------------------------------------------------------------------
SendBuf(p, o, A(_, _)) ==
  /\ o.op = "send" /\ IsChan(o.c) /\ ~ch[o.c].closed /\ Len(ch[o.c].buf) < ch[o.c].cap
  /\ Finish1(p, A(p, Plain), [ch EXCEPT ![o.c].buf = Append(@, o.v)], wg,
             Step("sendbuf", p, "", o.c, "", -1, o.v, FALSE))

SendClosed(p, o) ==
  /\ o.op = "send" /\ IsChan(o.c) /\ ch[o.c].closed
  /\ PanicWith("send on closed channel", Step("sendclosed", p, "", o.c, "", -1, NoV, FALSE))

\* the receive cases of a pending operation: <<case index, channel>>
RecvCases(o) ==
  IF o.op = "recv" THEN {<<-1, o.c>>}
  ELSE IF o.op = "select" THEN {<<i - 1, o.cs[i]>> : i \in DOMAIN o.cs}
  ELSE {}

RecvBuf(p, o, A(_, _)) ==
  \E rc \in RecvCases(o) : LET c == rc[2] IN
    /\ IsChan(c) /\ ch[c].buf # <<>>
    /\ Finish1(p, A(p, Res(Head(ch[c].buf), TRUE, rc[1])), [ch EXCEPT ![c].buf = Tail(@)], wg,
               Step("recvbuf", p, "", c, "", rc[1], Head(ch[c].buf), TRUE))

RecvClosed(p, o, A(_, _)) ==
  \E rc \in RecvCases(o) : LET c == rc[2] IN
    /\ IsChan(c) /\ ch[c].buf = <<>> /\ ch[c].closed
    /\ Finish1(p, A(p, Res(NoV, FALSE, rc[1])), ch, wg,
               Step("recvclosed", p, "", c, "", rc[1], NoV, FALSE))

\* unbuffered hand-off: sender p and receiver q complete in one atomic step
Rendezvous(p, o, P(_), A(_, _)) ==
  /\ o.op = "send" /\ IsChan(o.c) /\ ch[o.c].cap = 0 /\ ~ch[o.c].closed
  /\ \E q \in Procs \ {p} : Live(q) /\ \E rc \in RecvCases(P(q)) :
       /\ rc[2] = o.c
       /\ LET np == A(p, Plain)
              nq == A(q, Res(o.v, TRUE, rc[1])) IN
          /\ gs' = [gs EXCEPT ![p] = np, ![q] = nq]
          /\ ch' = MkLive(ch, {np, nq})
          /\ wg' = MkLiveW(wg, {np, nq})
          /\ last' = Step("rv", p, q, o.c, "", rc[1], o.v, TRUE)
          /\ UNCHANGED <<cfg, panicked>>

Close(p, o, A(_, _)) ==
  /\ o.op = "close"
  /\ IF ~IsChan(o.c) THEN PanicWith("close of nil channel", Step("closenil", p, "", Nil, "", -1, NoV, FALSE))
     ELSE IF ch[o.c].closed THEN PanicWith("close of closed channel", Step("closeclosed", p, "", o.c, "", -1, NoV, FALSE))
     ELSE Finish1(p, A(p, Plain), [ch EXCEPT ![o.c].closed = TRUE], wg,
                  Step("close", p, "", o.c, "", -1, NoV, FALSE))

Spawn(p, o, A(_, _), B(_, _)) ==
  /\ o.op = "go"
  /\ LET np == A(p, Plain)
         nc == B(p, o.child) IN
     /\ gs' = [gs EXCEPT ![p] = np, ![o.child] = nc]
     /\ ch' = MkLive(ch, {np, nc})
     /\ wg' = MkLiveW(wg, {np, nc})
     /\ last' = Step("go", p, o.child, "", "", -1, NoV, FALSE)
     /\ UNCHANGED <<cfg, panicked>>

WgAdd(p, o, A(_, _)) ==
  /\ o.op = "add"
  /\ IF wg[o.w].n + o.n < 0
       THEN PanicWith("sync: negative WaitGroup counter", Step("negwg", p, "", "", o.w, -1, NoV, FALSE))
       ELSE Finish1(p, A(p, Plain), ch, [wg EXCEPT ![o.w].n = @ + o.n],
                    Step("add", p, "", "", o.w, -1, IV(o.n), FALSE))

WgWait(p, o, A(_, _)) ==
  /\ o.op = "wait" /\ wg[o.w].n = 0
  /\ Finish1(p, A(p, Plain), ch, wg, Step("wait", p, "", "", o.w, -1, NoV, FALSE))

\* a spawned goroutine begins to run: no effect on shared state
Begin(p, o, A(_, _)) ==
  /\ o.op = "start"
  /\ Finish1(p, A(p, Plain), ch, wg, Step("start", p, "", "", "", -1, NoV, FALSE))

\* one step of goroutine p
GoStepOf(p, P(_), A(_, _), B(_, _)) ==
  /\ Live(p) /\ panicked = "no"
  /\ LET o == P(p) IN
       \/ SendBuf(p, o, A) \/ SendClosed(p, o) \/ Rendezvous(p, o, P, A)
       \/ RecvBuf(p, o, A) \/ RecvClosed(p, o, A)
       \/ Close(p, o, A) \/ Spawn(p, o, A, B) \/ WgAdd(p, o, A) \/ WgWait(p, o, A) \/ Begin(p, o, A)

GoNext(P(_), A(_, _), B(_, _)) == \E p \in Procs : GoStepOf(p, P, A, B)

\* state predicate: p has an enabled transition (= ENABLED GoStepOf(p, ...); checked in ConcMC)
CanStep(p, P(_)) ==
  /\ Live(p) /\ panicked = "no"
  /\ LET o == P(p) IN
       \/ /\ o.op = "send" /\ IsChan(o.c)
          /\ \/ ch[o.c].closed
             \/ Len(ch[o.c].buf) < ch[o.c].cap
             \/ ch[o.c].cap = 0 /\ \E q \in Procs \ {p} : Live(q) /\ \E rc \in RecvCases(P(q)) : rc[2] = o.c
       \/ \E rc \in RecvCases(o) : IsChan(rc[2]) /\ (ch[rc[2]].buf # <<>> \/ ch[rc[2]].closed)
       \/ o.op \in {"close", "go", "add", "start"}
       \/ o.op = "wait" /\ wg[o.w].n = 0
Stuck(P(_)) == \A p \in Procs : ~CanStep(p, P)

-----------------------------------------------------------------------------
NoPanic == panicked = "no"
AllExited(P(_)) == \A p \in Procs : Live(p) => P(p).op = "exit"

\* the projection vsched logs after every step (sets of uniform records)
ProjCh == {[id |-> c, buf |-> ch[c].buf, cap |-> ch[c].cap, closed |-> ch[c].closed] : c \in {x \in DOMAIN ch : ch[x].live}}
ProjWg == {[id |-> w, n |-> wg[w].n] : w \in {x \in DOMAIN wg : wg[x].live}}
ProjPend(P(_)) == {[g |-> p] @@ P(p) : p \in {x \in Procs : Live(x)}}
=============================================================================
