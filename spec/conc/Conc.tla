-------------------------------- MODULE Conc --------------------------------
(***************************************************************************)
(* All concurrent combinators over the shared Go semantics (GoChan), with  *)
(* the properties of C19 / C20 stated once, over the environment roles.    *)
(* cfg.comb selects the combinator; Pend/Adv/Birth dispatch on the role.   *)
(***************************************************************************)
EXTENDS Dup, Fmap, Chaos

Pend(p) == LET r == gs[p].role IN
  CASE r \in EnvRoles        -> EnvPend(p)
    [] r = "dup"             -> DupPend(p)
    [] r = "fmap"            -> FmapPend(p)
    [] r \in {"jtop", "jfwd"} -> JoinPend(p)
    [] r = "jvar"            -> JVPend(p)
    [] r = "pfmap"           -> PipePend(p)
    [] r \in {"docaller", "doworker"} -> DoPend(p)
    [] r = "script"          -> ScriptPend(p)

Adv(p, r) == LET ro == gs[p].role IN
  CASE ro \in EnvRoles        -> EnvAdv(p, r)
    [] ro = "dup"             -> DupAdv(p, r)
    [] ro = "fmap"            -> FmapAdv(p, r)
    [] ro \in {"jtop", "jfwd"} -> JoinAdv(p, r)
    [] ro = "jvar"            -> JVAdv(p, r)
    [] ro = "pfmap"           -> PipeAdv(p, r)
    [] ro \in {"docaller", "doworker"} -> DoAdv(p, r)
    [] ro = "script"          -> ScriptAdv(p, r)

Birth(p, c) ==
  CASE gs[p].role = "jtop"  -> JoinBirth(p, c)
    [] gs[p].role = "pfmap" -> PipeBirth(p, c)
    [] OTHER                -> gs[c].as

InitCh(c) == CASE c.comb = "dup" -> DupInitCh(c) [] c.comb = "fmap" -> FmapInitCh(c) [] c.comb = "joinchan" -> JCInitCh(c)
               [] c.comb = "joinslice" -> JSInitCh(c) [] c.comb = "joinvar" -> JVInitCh(c) [] c.comb = "pipeline" -> PipeInitCh(c) [] c.comb = "do" -> DoInitCh(c) [] c.comb = "chaos" -> ChaosInitCh(c)
InitWg(c) == CASE c.comb = "dup" -> DupInitWg(c) [] c.comb = "fmap" -> FmapInitWg(c) [] c.comb = "joinchan" -> JCInitWg(c)
               [] c.comb = "joinslice" -> JSInitWg(c) [] c.comb = "joinvar" -> JVInitWg(c) [] c.comb = "pipeline" -> PipeInitWg(c) [] c.comb = "do" -> DoInitWg(c) [] c.comb = "chaos" -> ChaosInitWg(c)
InitGs(c) == CASE c.comb = "dup" -> DupInitGs(c) [] c.comb = "fmap" -> FmapInitGs(c) [] c.comb = "joinchan" -> JCInitGs(c)
               [] c.comb = "joinslice" -> JSInitGs(c) [] c.comb = "joinvar" -> JVInitGs(c) [] c.comb = "pipeline" -> PipeInitGs(c) [] c.comb = "do" -> DoInitGs(c) [] c.comb = "chaos" -> ChaosInitGs(c)
Inputs(c)  == CASE c.comb = "dup" -> DupInputs(c) [] c.comb = "fmap" -> FmapInputs(c) [] c.comb = "joinchan" -> JCInputs(c)
               [] c.comb = "joinslice" -> JSInputs(c) [] c.comb = "joinvar" -> JVInputs(c) [] c.comb = "pipeline" -> PipeInputs(c) [] c.comb = "do" -> {} [] c.comb = "chaos" -> {}
Outputs(c) == CASE c.comb = "dup" -> DupOutputs(c) [] c.comb = "fmap" -> FmapOutputs(c) [] c.comb = "joinchan" -> JCOutputs(c)
               [] c.comb = "joinslice" -> JSOutputs(c) [] c.comb = "joinvar" -> JVOutputs(c) [] c.comb = "pipeline" -> PipeOutputs(c) [] c.comb = "do" -> {} [] c.comb = "chaos" -> {}
\* what a consumer of output channel o must receive: a sequence of input sequences
Expect(c, o) == CASE c.comb = "dup" -> DupExpect(c, o) [] c.comb = "fmap" -> FmapExpect(c, o)
                  [] c.comb \in {"joinchan", "joinslice", "joinvar"} -> JoinExpect(c, o) [] c.comb = "pipeline" -> PipeExpect(c, o) [] c.comb = "do" -> <<>> [] c.comb = "chaos" -> <<>>

InitFor(c) ==
  /\ cfg = c /\ ch = InitCh(c) /\ wg = InitWg(c) /\ gs = InitGs(c)
  /\ panicked = "no" /\ last = NoStep

Step1 == GoNext(Pend, Adv, Birth)
Terminated == AllExited(Pend) /\ \A p \in Procs : Live(p)
Next == Step1 \/ (Terminated /\ UNCHANGED gvars)

-----------------------------------------------------------------------------
(* C19 *)
RECURSIVE Filter(_, _)
Filter(s, S) == IF s = <<>> THEN <<>>
                ELSE IF Head(s) \in S THEN <<Head(s)>> \o Filter(Tail(s), S) ELSE Filter(Tail(s), S)
Elems(s) == {s[i] : i \in DOMAIN s}
IsPrefixOf(a, b) == Len(a) <= Len(b) /\ SubSeq(b, 1, Len(a)) = a

\* every consumer has, at every moment, received for each input a prefix of what was
\* sent on it, in order, and nothing else: no duplicate, no foreign item, order kept
DeliveredPrefix ==
  \A p \in Procs : gs[p].role = "consumer" =>
    LET ex == Expect(cfg, gs[p].c) IN
      /\ \A j \in DOMAIN ex : IsPrefixOf(Filter(gs[p].got, Elems(ex[j])), ex[j])
      /\ Elems(gs[p].got) \subseteq UNION {Elems(ex[j]) : j \in DOMAIN ex}
      /\ \A i, k \in DOMAIN gs[p].got : gs[p].got[i] = gs[p].got[k] => i = k

\* at termination every item has been delivered (exactly once follows with the above)
DeliveredAllNow ==
  \A p \in Procs : gs[p].role = "consumer" =>
    \A j \in DOMAIN Expect(cfg, gs[p].c) : Filter(gs[p].got, Elems(Expect(cfg, gs[p].c)[j])) = Expect(cfg, gs[p].c)[j]

DeliveredAll == Terminated => DeliveredAllNow

\* an output is closed only after all inputs are closed and drained
CloseAfterDrain ==
  \A o \in Outputs(cfg) : ch[o].closed => \A i \in Inputs(cfg) : ch[i].closed /\ ch[i].buf = <<>>

\* outputs are closed when everything has finished (exactly once: a second close is a panic)
OutputsClosed == Terminated => \A o \in Outputs(cfg) : ch[o].closed

(* C20: the caller has returned when everything has finished *)
DoReturns == Terminated => \A p \in Callers : gs[p].returned

\* every misuse script ends in exactly its runtime panic (the panic actions are not vacuous)
ChaosPanics == (cfg.comb = "chaos" /\ Stuck(Pend)) => panicked = ChaosExpected(cfg.kind)
ChaosNoEarlyPanic == (cfg.comb = "chaos" /\ panicked # "no") => panicked = ChaosExpected(cfg.kind)

\* no deadlock other than full termination; CanStep is exactly enabledness
NoDeadlock == Stuck(Pend) => Terminated
CanStepIsEnabled == \A p \in Procs : CanStep(p, Pend) <=> ENABLED GoStepOf(p, Pend, Adv, Birth)

Fair == WF_gvars(Step1)
EventuallyDone == <>Terminated
=============================================================================
