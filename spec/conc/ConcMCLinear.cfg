SPECIFICATION MCSpec
CONSTANTS
  Combs = {"dup", "fmap"}
  MaxInputs = 1
  MaxItems = 2
  MaxCap = 2
INVARIANTS NoPanic DeliveredPrefix DeliveredAll CloseAfterDrain OutputsClosed NoDeadlock CanStepIsEnabled
PROPERTY EventuallyDone
CHECK_DEADLOCK TRUE
