---------------------------- MODULE JoinVariadic ----------------------------
(***************************************************************************)
(* deriveJoin(c0, c1, ...) from the generated text (plugin/join/join.go    *)
(* genChanVariant):                                                        *)
(*   out := make(chan T)                                                   *)
(*   go func() {                                                           *)
(*     for c0 != nil || c1 != nil {                                        *)
(*       select {                                                          *)
(*       case v0, ok0 := <-c0: if !ok0 { c0 = nil } else { out <- v0 }     *)
(*       case v1, ok1 := <-c1: if !ok1 { c1 = nil } else { out <- v1 }     *)
(*       }                                                                 *)
(*     }                                                                   *)
(*     close(out)                                                          *)
(*   }()                                                                   *)
(* Driver ("joinvar", n = Len(cfg.items) >= 2): inputs 0#0..0#(n-1),       *)
(* out = 0#n; 0.0 select loop, 0.1..0.n producers, 0.(n+1) consumer.       *)
(***************************************************************************)
EXTENDS JoinChan

JoinVar(cs, out) == [role |-> "jvar", mk |-> {}, mkw |-> {}, cs |-> cs, out |-> out, pc |-> "sel", v |-> NoV]

JVPend(p) == LET g == gs[p] IN
  CASE g.pc = "sel"   -> PSelect(g.cs)
    [] g.pc = "send"  -> PSend(g.out, g.v)
    [] g.pc = "close" -> PClose(g.out)
    [] OTHER          -> PExit

JVAdv(p, r) == LET g == gs[p] IN
  CASE g.pc = "sel"   -> IF r.ok THEN [g EXCEPT !.pc = "send", !.v = r.v]
                         ELSE LET cs2 == [g.cs EXCEPT ![r.idx + 1] = Nil] IN
                              [g EXCEPT !.cs = cs2, !.pc = IF \A i \in DOMAIN cs2 : cs2[i] = Nil THEN "close" ELSE "sel"]
    [] g.pc = "send"  -> [g EXCEPT !.pc = "sel"]
    [] g.pc = "close" -> [g EXCEPT !.pc = "exit"]
    [] OTHER          -> g

JVInitCh(c) == JSInitCh(c)
JVInitWg(c) == [x \in {} |-> WG(FALSE)]
JVInitGs(c) == LET n == NIn(c) out == Cid("0", n) IN
  [x \in {"0"} \cup {Gid("0", k) : k \in 0..(n + 1)} |->
     CASE x = "0"   -> Main([k \in 1..(n + 2) |-> Gid("0", k - 1)])
       [] x = "0.0" -> Absent(JoinVar([k \in 1..n |-> Cid("0", k - 1)], out))
       [] x = Gid("0", n + 1) -> Absent(Consumer(out))
       [] OTHER     -> LET j == CHOOSE j \in 1..n : x = Gid("0", j) IN
                       Absent(Producer(Cid("0", j - 1), Toks(j, c.items[j])))]
JVInputs(c)  == JSInputs(c)
JVOutputs(c) == JSOutputs(c)
=============================================================================
