------------------------------ MODULE JoinChan ------------------------------
(***************************************************************************)
(* deriveJoin over a channel of channels and over a slice of channels,     *)
(* from the generated text (plugin/join/join.go genChan, genSliceOfChan):  *)
(*   out := make(chan T)                                                   *)
(*   go func() {                                                           *)
(*     wait := sync.WaitGroup{}                                            *)
(*     for c := range in {          \* slice form: for _, c := range in    *)
(*       wait.Add(1)                                                       *)
(*       res := c                                                          *)
(*       go func() { for r := range res { out <- r }; wait.Done() }()      *)
(*     }                                                                   *)
(*     wait.Wait()                                                         *)
(*     close(out)                                                          *)
(*   }()                                                                   *)
(* One action per operation: top = recv in / Add / go / Wait / close;      *)
(* forwarder = recv res / send out / Done.                                 *)
(*                                                                         *)
(* Driver, chan form (cfg.comb = "joinchan", n = Len(cfg.items)):          *)
(*   in = 0#0, inner channels 0#1..0#n, out = 0#(n+1); goroutines 0.0 top, *)
(*   0.1 feeder (sends the inner channels on in, closes in), 0.2..0.(n+1)  *)
(*   producers, 0.(n+2) consumer; forwarders 0.0.0, 0.0.1, ...             *)
(* Driver, slice form ("joinslice"): channels 0#0..0#(n-1), out = 0#n;     *)
(*   0.0 top, 0.1..0.n producers, 0.(n+1) consumer.                        *)
(***************************************************************************)
EXTENDS Env

Cid(p, k) == p \o "#" \o ToString(k)
Gid(p, k) == p \o "." \o ToString(k)
Wid(p)    == p \o "#w0"

\* top goroutine `self`; src = "chan" (range over channel in) or "slice" (range over cs)
JoinTop(self, src, in, cs, out) ==
  [role |-> "jtop", mk |-> {}, mkw |-> {Wid(self)}, self |-> self, src |-> src, in |-> in, cs |-> cs,
   out |-> out, w |-> Wid(self), pc |-> IF src = "chan" THEN "recv" ELSE IF cs = <<>> THEN "wait" ELSE "add",
   cur |-> IF src = "slice" /\ cs # <<>> THEN cs[1] ELSE Nil, k |-> 0]

JoinFwd(out, w) == [role |-> "jfwd", mk |-> {}, mkw |-> {}, res |-> Nil, out |-> out, w |-> w, pc |-> "recv", v |-> NoV]

JoinPend(p) == LET g == gs[p] IN
  IF g.role = "jtop" THEN
    CASE g.pc = "recv"  -> PRecv(g.in)
      [] g.pc = "add"   -> PAdd(g.w, 1)
      [] g.pc = "go"    -> PGo(Gid(g.self, g.k))
      [] g.pc = "wait"  -> PWait(g.w)
      [] g.pc = "close" -> PClose(g.out)
      [] OTHER          -> PExit
  ELSE
    CASE g.pc = "recv"  -> PRecv(g.res)
      [] g.pc = "send"  -> PSend(g.out, g.v)
      [] g.pc = "done"  -> PAdd(g.w, -1)
      [] OTHER          -> PExit

JoinAdv(p, r) == LET g == gs[p] IN
  IF g.role = "jtop" THEN
    CASE g.pc = "recv"  -> IF r.ok THEN [g EXCEPT !.pc = "add", !.cur = r.v.c] ELSE [g EXCEPT !.pc = "wait"]
      [] g.pc = "add"   -> [g EXCEPT !.pc = "go"]
      [] g.pc = "go"    -> IF g.src = "chan" THEN [g EXCEPT !.pc = "recv", !.k = @ + 1]
                           ELSE IF g.k + 1 < Len(g.cs) THEN [g EXCEPT !.pc = "add", !.k = @ + 1, !.cur = g.cs[g.k + 2]]
                           ELSE [g EXCEPT !.pc = "wait", !.k = @ + 1]
      [] g.pc = "wait"  -> [g EXCEPT !.pc = "close"]
      [] g.pc = "close" -> [g EXCEPT !.pc = "exit"]
      [] OTHER          -> g
  ELSE
    CASE g.pc = "recv"  -> IF r.ok THEN [g EXCEPT !.pc = "send", !.v = r.v] ELSE [g EXCEPT !.pc = "done"]
      [] g.pc = "send"  -> [g EXCEPT !.pc = "recv"]
      [] g.pc = "done"  -> [g EXCEPT !.pc = "exit"]
      [] OTHER          -> g

\* the forwarder takes `res := c` from its parent
JoinBirth(p, c) == [gs[c].as EXCEPT !.res = gs[p].cur]

-----------------------------------------------------------------------------
NIn(c) == Len(c.items)

JCInitCh(c) == [x \in {Cid("0", k) : k \in 0..(NIn(c) + 1)} |-> Chan(IF x = Cid("0", NIn(c) + 1) THEN 0 ELSE c.cap, TRUE)]
JCInitWg(c) == [x \in {Wid("0.0")} |-> WG(FALSE)]
JCInitGs(c) == LET n == NIn(c) out == Cid("0", n + 1) IN
  [x \in {"0"} \cup {Gid("0", k) : k \in 0..(n + 2)} \cup {Gid("0.0", k) : k \in 0..(n - 1)} |->
     CASE x = "0"   -> Main([k \in 1..(n + 3) |-> Gid("0", k - 1)])
       [] x = "0.0" -> Absent(JoinTop("0.0", "chan", "0#0", <<>>, out))
       [] x = "0.1" -> Absent(Feeder("0#0", [k \in 1..n |-> Cid("0", k)]))
       [] x = Gid("0", n + 2) -> Absent(Consumer(out))
       [] x \in {Gid("0", j + 1) : j \in 1..n} -> LET j == CHOOSE j \in 1..n : x = Gid("0", j + 1) IN
                                                   Absent(Producer(Cid("0", j), Toks(j, c.items[j])))
       [] OTHER     -> Absent(JoinFwd(out, Wid("0.0")))]
JCInputs(c)  == {Cid("0", k) : k \in 0..NIn(c)}
JCOutputs(c) == {Cid("0", NIn(c) + 1)}

JSInitCh(c) == [x \in {Cid("0", k) : k \in 0..NIn(c)} |-> Chan(IF x = Cid("0", NIn(c)) THEN 0 ELSE c.cap, TRUE)]
JSInitWg(c) == [x \in {Wid("0.0")} |-> WG(FALSE)]
JSInitGs(c) == LET n == NIn(c) out == Cid("0", n) IN
  [x \in {"0"} \cup {Gid("0", k) : k \in 0..(n + 1)} \cup {Gid("0.0", k) : k \in 0..(n - 1)} |->
     CASE x = "0"   -> Main([k \in 1..(n + 2) |-> Gid("0", k - 1)])
       [] x = "0.0" -> Absent(JoinTop("0.0", "slice", Nil, [k \in 1..n |-> Cid("0", k - 1)], out))
       [] x = Gid("0", n + 1) -> Absent(Consumer(out))
       [] x \in {Gid("0", j) : j \in 1..n} -> LET j == CHOOSE j \in 1..n : x = Gid("0", j) IN
                                               Absent(Producer(Cid("0", j - 1), Toks(j, c.items[j])))
       [] OTHER     -> Absent(JoinFwd(out, Wid("0.0")))]
JSInputs(c)  == {Cid("0", k) : k \in 0..(NIn(c) - 1)}
JSOutputs(c) == {Cid("0", NIn(c))}

\* one consumer; it must receive an interleaving of the inputs' sequences
JoinExpect(c, o) == [j \in 1..NIn(c) |-> Toks(j, c.items[j])]
=============================================================================
