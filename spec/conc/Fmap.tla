-------------------------------- MODULE Fmap --------------------------------
(***************************************************************************)
(* deriveFmap over a channel, from the generated text (plugin/fmap/fmap.go *)
(* genChan):                                                               *)
(*   out := make(chan B, cap(in))                                          *)
(*   go func() { for a := range in { b := f(a); out <- b }; close(out) }() *)
(* f is the driver's injective token function F.                           *)
(* Driver: in = 0#0, out = 0#1; goroutines 0.0 (fmap), 0.1 producer,       *)
(* 0.2 consumer.   cfg = [comb |-> "fmap", items |-> <<n>>, cap |-> k]     *)
(***************************************************************************)
EXTENDS Env

F(v) == IV(v.i + 100)

FmapG(in, out) == [role |-> "fmap", mk |-> {}, mkw |-> {}, in |-> in, out |-> out, pc |-> "recv", v |-> NoV]

FmapPend(p) == LET g == gs[p] IN
  CASE g.pc = "recv"  -> PRecv(g.in)
    [] g.pc = "send"  -> PSend(g.out, g.v)
    [] g.pc = "close" -> PClose(g.out)
    [] OTHER          -> PExit

FmapAdv(p, r) == LET g == gs[p] IN
  CASE g.pc = "recv"  -> IF r.ok THEN [g EXCEPT !.pc = "send", !.v = F(r.v)] ELSE [g EXCEPT !.pc = "close"]
    [] g.pc = "send"  -> [g EXCEPT !.pc = "recv"]
    [] g.pc = "close" -> [g EXCEPT !.pc = "exit"]
    [] OTHER          -> g

FmapInitCh(c) == [x \in {"0#0", "0#1"} |-> Chan(c.cap, TRUE)]
FmapInitWg(c) == [x \in {} |-> WG(FALSE)]
FmapInitGs(c) ==
  [x \in {"0", "0.0", "0.1", "0.2"} |->
     CASE x = "0"   -> Main(<<"0.0", "0.1", "0.2">>)
       [] x = "0.0" -> Absent(FmapG("0#0", "0#1"))
       [] x = "0.1" -> Absent(Producer("0#0", Toks(1, c.items[1])))
       [] x = "0.2" -> Absent(Consumer("0#1"))]
FmapInputs(c)  == {"0#0"}
FmapOutputs(c) == {"0#1"}
FmapExpect(c, o) == << [k \in 1..c.items[1] |-> F(Tok(1, k))] >>
=============================================================================
