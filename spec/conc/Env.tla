-------------------------------- MODULE Env --------------------------------
(***************************************************************************)
(* The environment of every combinator: the driver's main goroutine that   *)
(* spawns everything, producers that send distinct tokens and then close,  *)
(* and consumers that keep receiving until their channel is closed.  These *)
(* are the roles of the hand-written driver (engk/driver/env.go), which is *)
(* rewritten and scheduled like the generated code.                        *)
(***************************************************************************)
EXTENDS GoChan

\* every goroutine record has: role, mk (channels it just created), mkw
Absent(as) == [role |-> "absent", mk |-> {}, mkw |-> {}, as |-> as]
Exited     == [role |-> "exited", mk |-> {}, mkw |-> {}]

Tok(j, k) == IV(10 * j + k)                       \* k-th item of input j
Toks(j, n) == [k \in 1..n |-> Tok(j, k)]

\* mks[i] = channels main creates (make is local) after spawning kids[i]
MainMk(kids, mks)  == [role |-> "main", mk |-> {}, mkw |-> {}, kids |-> kids, mks |-> mks, i |-> 1]
Main(kids)         == MainMk(kids, [k \in DOMAIN kids |-> {}])
Producer(c, items) == [role |-> "producer", mk |-> {}, mkw |-> {}, c |-> c, items |-> items, i |-> 1]
Consumer(c)        == [role |-> "consumer", mk |-> {}, mkw |-> {}, c |-> c, got |-> <<>>, fin |-> FALSE]
\* sends the channels cs on c, then closes c (feeds a join over chan of chan)
Feeder(c, cs)      == [role |-> "producer", mk |-> {}, mkw |-> {}, c |-> c, items |-> [k \in DOMAIN cs |-> CV(cs[k])], i |-> 1]

EnvRoles == {"main", "producer", "consumer", "exited", "absent"}

EnvPend(p) == LET g == gs[p] IN
  CASE g.role = "main"     -> IF g.i <= Len(g.kids) THEN PGo(g.kids[g.i]) ELSE PExit
    [] g.role = "producer" -> IF g.i <= Len(g.items) THEN PSend(g.c, g.items[g.i])
                              ELSE IF g.i = Len(g.items) + 1 THEN PClose(g.c) ELSE PExit
    [] g.role = "consumer" -> IF g.fin THEN PExit ELSE PRecv(g.c)
    [] OTHER               -> PExit

EnvAdv(p, r) == LET g == gs[p] IN
  CASE g.role = "main"     -> [g EXCEPT !.i = @ + 1, !.mk = g.mks[g.i]]
    [] g.role = "producer" -> [g EXCEPT !.i = @ + 1]
    [] g.role = "consumer" -> IF r.ok THEN [g EXCEPT !.got = Append(@, r.v)] ELSE [g EXCEPT !.fin = TRUE]
    [] OTHER               -> g

\* channel / WaitGroup tables
Chan(cap, live) == [buf |-> <<>>, cap |-> cap, closed |-> FALSE, live |-> live]
WG(live)        == [n |-> 0, live |-> live]

Consumers == {p \in Procs : gs[p].role = "consumer"}
Producers == {p \in Procs : gs[p].role = "producer"}
=============================================================================
