SPECIFICATION MCSpec
CONSTANTS
  Combs = {"dup", "fmap", "joinchan", "joinslice", "joinvar", "pipeline", "do"}
  MaxInputs = 2
  MaxItems = 2
  MaxCap = 1
INVARIANTS NoPanic DeliveredPrefix DeliveredAll CloseAfterDrain OutputsClosed NoDeadlock DoHappensBefore DoSpawnAllFirst DoResult DoReturns
CHECK_DEADLOCK TRUE
