---------------------------- MODULE ConcConform ----------------------------
(***************************************************************************)
(* Conformance of recorded schedules of the REAL generated code to the     *)
(* implementation-shaped combinator modules (Dup, Fmap, Join*, Pipeline,   *)
(* Do): every logged step must be a step of the module with the same       *)
(* effect on the projected state (channels, WaitGroups, pending operation  *)
(* of every goroutine, panic).  If all schedules conform, what TLC proved  *)
(* about the module in ConcMC transfers to the explored executions.  A     *)
(* rejected line is DRIFT (the module no longer describes the generated    *)
(* text), never a verdict: verdicts come from ConcTrace.                   *)
(***************************************************************************)
EXTENDS Conc, Json, IOUtils, SequencesExt

Trace == ndJsonDeserialize(IOEnv.VERIF_TRACE)
N == Len(Trace)

VARIABLES l, run, skip, bad
tvars == <<l, run, skip, bad>>

Ev == Trace[l]
StOf(e)   == [ch |-> ToSet(e.st.ch), wg |-> ToSet(e.st.wg), pend |-> ToSet(e.st.pend), panic |-> e.st.panic]
StepOf(e) == Step(e.k, e.g, e.q, e.c, e.w, e.case, e.v, e.ok)
Proj == [ch |-> ProjCh, wg |-> ProjWg, pend |-> ProjPend(Pend), panic |-> panicked]
Reject(why) == bad' = Append(bad, [l |-> l, run |-> run, why |-> why])

CInit ==
  /\ l = 1 /\ run = "" /\ skip = TRUE /\ bad = <<>>
  /\ cfg = [comb |-> "none"] /\ ch = <<>> /\ wg = <<>> /\ gs = <<>> /\ panicked = "no" /\ last = NoStep

Start ==
  /\ l <= N /\ Ev.ev = "start" /\ l' = l + 1 /\ run' = Ev.run
  /\ cfg' = Ev.cfg /\ ch' = InitCh(Ev.cfg) /\ wg' = InitWg(Ev.cfg) /\ gs' = InitGs(Ev.cfg)
  /\ panicked' = "no" /\ last' = NoStep
  /\ IF Proj' = StOf(Ev) THEN skip' = FALSE /\ UNCHANGED bad
     ELSE skip' = TRUE /\ Reject("initial state differs from the module's")

StepMatch == Ev.g \in Procs /\ GoStepOf(Ev.g, Pend, Adv, Birth) /\ last' = StepOf(Ev) /\ Proj' = StOf(Ev)

StepOK ==
  /\ l <= N /\ Ev.ev = "step" /\ ~skip /\ l' = l + 1
  /\ StepMatch
  /\ UNCHANGED <<run, skip, bad>>

StepBad ==
  /\ l <= N /\ Ev.ev = "step" /\ ~skip /\ l' = l + 1
  /\ ~ENABLED StepMatch
  /\ Reject("step " \o Ev.k \o " of goroutine " \o Ev.g \o " is not a step of the module with this effect")
  /\ skip' = TRUE
  /\ UNCHANGED <<run, cfg, ch, wg, gs, panicked, last>>

Skip ==
  /\ l <= N /\ Ev.ev # "start" /\ skip /\ l' = l + 1
  /\ UNCHANGED <<run, skip, bad, cfg, ch, wg, gs, panicked, last>>

End ==
  /\ l <= N /\ Ev.ev = "end" /\ ~skip /\ l' = l + 1
  /\ IF (Ev.outcome = "done" => Terminated) /\ (Ev.outcome = "stuck" => Stuck(Pend))
       THEN UNCHANGED bad
       ELSE Reject("outcome " \o Ev.outcome \o " differs from the module's state")
  /\ UNCHANGED <<run, skip, cfg, ch, wg, gs, panicked, last>>

CNext == Start \/ StepOK \/ StepBad \/ Skip \/ End
CSpec == CInit /\ [][CNext]_<<gvars, tvars>>

Export == l = N + 1 => ndJsonSerialize(IOEnv.VERIF_OUT, bad)
TraceAccepted == TLCGet("stats").diameter - 1 = N
=============================================================================
