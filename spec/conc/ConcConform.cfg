SPECIFICATION CSpec
INVARIANT Export
POSTCONDITION TraceAccepted
CHECK_DEADLOCK FALSE
