------------------------------ MODULE Pipeline ------------------------------
(***************************************************************************)
(* derivePipeline(f, g), from the generated text (plugin/pipeline):        *)
(*   return func(a A) <-chan C { b := f(a); return deriveJoin(deriveFmap(g, b)) } *)
(* = the producer f, fmap of g over its channel (each item becomes a new   *)
(* channel fed by its own goroutine), and the join over channel of         *)
(* channels.  Driver ("pipeline", cfg.items = <<m, k>>): f's channel 0#0   *)
(* (m tokens), fmap's output 0#1 (cap(0#0)), join's output 0#2;            *)
(* 0.0 f's producer, 0.1 fmap (creates 0.1#i and spawns 0.1.i per item),   *)
(* 0.2 join top (forwarders 0.2.i), 0.3 consumer.                          *)
(***************************************************************************)
EXTENDS JoinVariadic

PFmap(self, in, out) == [role |-> "pfmap", mk |-> {}, mkw |-> {}, self |-> self, in |-> in, out |-> out, pc |-> "recv", k |-> 0, v |-> NoV]
\* the goroutine g(b) starts: sends the tokens of item b on its fresh channel, closes it
GItems(v, n) == [i \in 1..n |-> IV(10 * v.i + i)]

PipePend(p) == LET g == gs[p] IN
  CASE g.pc = "recv"  -> PRecv(g.in)
    [] g.pc = "go"    -> PGo(Gid(g.self, g.k))
    [] g.pc = "send"  -> PSend(g.out, CV(Cid(g.self, g.k)))
    [] g.pc = "close" -> PClose(g.out)
    [] OTHER          -> PExit

PipeAdv(p, r) == LET g == gs[p] IN
  CASE g.pc = "recv"  -> IF r.ok THEN [g EXCEPT !.pc = "go", !.mk = {Cid(g.self, g.k)}, !.v = r.v] ELSE [g EXCEPT !.pc = "close"]
    [] g.pc = "go"    -> [g EXCEPT !.pc = "send"]
    [] g.pc = "send"  -> [g EXCEPT !.pc = "recv", !.k = @ + 1]
    [] g.pc = "close" -> [g EXCEPT !.pc = "exit"]
    [] OTHER          -> g

PipeBirth(p, c) == Producer(Cid(gs[p].self, gs[p].k), GItems(gs[p].v, cfg.items[2]))

PipeInitCh(c) ==
  [x \in {"0#0", "0#1", "0#2"} \cup {Cid("0.1", i) : i \in 0..(c.items[1] - 1)} |->
     CASE x = "0#2" -> Chan(0, FALSE)
       [] x = "0#0" -> Chan(c.cap, TRUE)
       [] x = "0#1" -> Chan(c.cap, FALSE)
       [] OTHER -> Chan(c.cap, FALSE)]
PipeInitWg(c) == [x \in {Wid("0.2")} |-> WG(FALSE)]
PipeInitGs(c) == LET m == c.items[1] IN
  [x \in {"0", "0.0", "0.1", "0.2", "0.3"} \cup {Gid("0.1", i) : i \in 0..(m - 1)} \cup {Gid("0.2", i) : i \in 0..(m - 1)} |->
     CASE x = "0"   -> MainMk(<<"0.0", "0.1", "0.2", "0.3">>, <<{"0#1"}, {"0#2"}, {}, {}>>)
       [] x = "0.0" -> Absent(Producer("0#0", Toks(1, m)))
       [] x = "0.1" -> Absent(PFmap("0.1", "0#0", "0#1"))
       [] x = "0.2" -> Absent(JoinTop("0.2", "chan", "0#1", <<>>, "0#2"))
       [] x = "0.3" -> Absent(Consumer("0#2"))
       [] x \in {Gid("0.1", i) : i \in 0..(m - 1)} -> Absent(Exited)
       [] OTHER     -> Absent(JoinFwd("0#2", Wid("0.2")))]
PipeInputs(c)  == {"0#0", "0#1"} \cup {Cid("0.1", i) : i \in 0..(c.items[1] - 1)}
PipeOutputs(c) == {"0#2"}
PipeExpect(c, o) == [j \in 1..c.items[1] |-> GItems(Tok(1, j), c.items[2])]
=============================================================================
