--------------------------------- MODULE Do ---------------------------------
(***************************************************************************)
(* deriveDo(f0, ..., f(n-1)), from the generated text (plugin/do/do.go):   *)
(*   errChan := make(chan error)                                           *)
(*   var v0 A                                                              *)
(*   go func() { var v0err error; v0, v0err = f0(); errChan <- v0err }()   *)
(*   ... one goroutine per function ...                                    *)
(*   var err error                                                         *)
(*   for i := 0; i < n; i++ {                                              *)
(*     errc := <-errChan                                                   *)
(*     if errc != nil { if err == nil { err = errc } }                     *)
(*   }                                                                     *)
(*   return v0, ..., err                                                   *)
(* One action per operation: caller = n x go, n x receive; worker = the    *)
(* operations of its function, then (v_i written) the send on errChan.     *)
(*                                                                         *)
(* (cfg.ring: a token goes round f0 -> f1 -> ... -> f(n-1) -> f0 over the   *)
(* unbuffered channels 0#0..0#(n-1): f0 waits for the LAST function.)      *)
(* Driver ("do", cfg.fail = error code per function, 0 = nil; cfg.rv =     *)
(* the functions rendezvous: f0 receives one token from each other         *)
(* function on the unbuffered channel 0#0, so every function waits for     *)
(* another one): main 0 spawns the caller 0.0, which calls deriveDo:       *)
(* errChan = 0.0#0, workers 0.0.0 .. 0.0.(n-1).                            *)
(***************************************************************************)
EXTENDS Pipeline

DoN(c) == Len(c.fail)

DoCaller(self, n) ==
  [role |-> "docaller", mk |-> {Cid(self, 0)}, mkw |-> {}, self |-> self, ech |-> Cid(self, 0), n |-> n,
   k |-> 0, i |-> 0, err |-> 0, returned |-> FALSE, sawAll |-> FALSE]

\* ops: the channel operations of the function body; wrote: f returned and v_i is assigned
DoWorker(idx, ops, ech, code) ==
  [role |-> "doworker", mk |-> {}, mkw |-> {}, idx |-> idx, ops |-> ops, j |-> 1, ech |-> ech, code |-> code,
   wrote |-> ops = <<>>, sent |-> FALSE]

\* star (c.rv): f0 receives a token from every later function on 0#0.
\* ring (c.ring): channels 0#0..0#(n-1); f0 sends on 0#0 then waits for f(n-1) on 0#(n-1);
\* f_i waits for f(i-1) on 0#(i-1) then sends on 0#i.
FnOps(c, idx) ==
  IF c.ring THEN
    IF idx = 0 THEN <<PSend("0#0", IV(0)), PRecv(Cid("0", DoN(c) - 1))>>
    ELSE <<PRecv(Cid("0", idx - 1)), PSend(Cid("0", idx), IV(idx))>>
  ELSE IF ~c.rv THEN <<>>
  ELSE IF idx = 0 THEN [k \in 1..(DoN(c) - 1) |-> PRecv("0#0")]
  ELSE <<PSend("0#0", IV(idx))>>

DoWorkers == {p \in Procs : gs[p].role = "doworker" \/ (gs[p].role = "absent" /\ gs[p].as.role = "doworker")}
WorkerRec(p) == IF gs[p].role = "absent" THEN gs[p].as ELSE gs[p]

DoPend(p) == LET g == gs[p] IN
  IF g.role = "docaller" THEN
    IF g.k < g.n THEN PGo(Gid(g.self, g.k))
    ELSE IF g.i < g.n THEN PRecv(g.ech)
    ELSE PExit
  ELSE
    IF g.j <= Len(g.ops) THEN g.ops[g.j]
    ELSE IF ~g.sent THEN PSend(g.ech, IV(g.code))
    ELSE PExit

DoAdv(p, r) == LET g == gs[p] IN
  IF g.role = "docaller" THEN
    IF g.k < g.n THEN [g EXCEPT !.k = @ + 1]
    ELSE LET e == IF g.err = 0 /\ r.v.i # 0 THEN r.v.i ELSE g.err IN
         IF g.i + 1 < g.n THEN [g EXCEPT !.i = @ + 1, !.err = e]
         \* last receive: the caller reads every v_i and returns; sawAll = every v_i had been written
         ELSE [g EXCEPT !.i = @ + 1, !.err = e, !.returned = TRUE,
                        !.sawAll = \A w \in DoWorkers : WorkerRec(w).wrote]
  ELSE
    IF g.j <= Len(g.ops) THEN [g EXCEPT !.j = @ + 1, !.wrote = (g.j = Len(g.ops))]
    ELSE [g EXCEPT !.sent = TRUE]

DoInitCh(c) == [x \in {Cid("0", k) : k \in 0..(DoN(c) - 1)} \cup {"0.0#0"} |->
                 Chan(0, (x = "0#0" /\ c.rv) \/ (x # "0.0#0" /\ c.ring))]
DoInitWg(c) == [x \in {} |-> WG(FALSE)]
DoInitGs(c) == LET n == DoN(c) IN
  [x \in {"0", "0.0"} \cup {Gid("0.0", i) : i \in 0..(n - 1)} |->
     CASE x = "0"   -> Main(<<"0.0">>)
       [] x = "0.0" -> Absent(DoCaller("0.0", n))
       [] OTHER     -> LET i == CHOOSE i \in 0..(n - 1) : x = Gid("0.0", i) IN
                       Absent(DoWorker(i, FnOps(c, i), "0.0#0", c.fail[i + 1]))]

-----------------------------------------------------------------------------
(* C20 on the model *)
Callers == {p \in Procs : gs[p].role = "docaller"}
Codes(c) == {c.fail[i] : i \in 1..DoN(c)}

\* every read of v_i happens after the receive that goroutine i's send enabled
DoHappensBefore == \A p \in Callers : gs[p].returned =>
  /\ gs[p].sawAll
  /\ \A w \in DoWorkers : gs[w].role = "doworker" /\ gs[w].sent
\* all n goroutines are spawned before the first receive (mutually waiting functions complete)
DoSpawnAllFirst == \A p \in Callers : gs[p].i > 0 => gs[p].k = gs[p].n
\* nil iff all succeeded, otherwise one of the errors actually returned
DoResult == \A p \in Callers : gs[p].returned =>
  /\ (gs[p].err = 0 <=> Codes(cfg) \subseteq {0})
  /\ gs[p].err \in Codes(cfg) \cup {0}
=============================================================================
