SPECIFICATION MCSpec
CONSTANTS
  Combs = {"chaos"}
  MaxInputs = 0
  MaxItems = 0
  MaxCap = 0
INVARIANTS ChaosPanics ChaosNoEarlyPanic CanStepIsEnabled
CHECK_DEADLOCK FALSE
