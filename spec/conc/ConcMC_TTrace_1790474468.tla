---- MODULE ConcMC_TTrace_1790474468 ----
EXTENDS Sequences, TLCExt, ConcMC, Toolbox, Naturals, TLC

_expression ==
    LET ConcMC_TEExpression == INSTANCE ConcMC_TEExpression
    IN ConcMC_TEExpression!expression
----

_trace ==
    LET ConcMC_TETrace == INSTANCE ConcMC_TETrace
    IN ConcMC_TETrace!trace
----

_inv ==
    ~(
        TLCGet("level") = Len(_TETrace)
        /\
        wg = (("0#w0" :> [n |-> 1, live |-> TRUE]))
        /\
        last = ([c |-> "", k |-> "add", g |-> "0", v |-> [i |-> 1], ok |-> FALSE, w |-> "0#w0", q |-> "", case |-> -1])
        /\
        ch = (("0#0" :> [cap |-> 1, closed |-> FALSE, buf |-> <<>>, live |-> TRUE]))
        /\
        cfg = ([comb |-> "chaos", items |-> <<>>, cap |-> 0, kind |-> "negwg"])
        /\
        panicked = ("no")
        /\
        gs = (("0" :> [role |-> "script", j |-> 2, mk |-> {}, mkw |-> {}, ops |-> <<[c |-> "", n |-> 1, v |-> [n |-> 0], cs |-> <<>>, op |-> "add", w |-> "0#w0", child |-> ""], [c |-> "", n |-> 0, v |-> [n |-> 0], cs |-> <<>>, op |-> "wait", w |-> "0#w0", child |-> ""], [c |-> "", n |-> -1, v |-> [n |-> 0], cs |-> <<>>, op |-> "add", w |-> "0#w0", child |-> ""], [c |-> "", n |-> 0, v |-> [n |-> 0], cs |-> <<>>, op |-> "wait", w |-> "0#w0", child |-> ""], [c |-> "", n |-> -1, v |-> [n |-> 0], cs |-> <<>>, op |-> "add", w |-> "0#w0", child |-> ""]>>]))
    )
----

_init ==
    /\ panicked = _TETrace[1].panicked
    /\ ch = _TETrace[1].ch
    /\ last = _TETrace[1].last
    /\ cfg = _TETrace[1].cfg
    /\ gs = _TETrace[1].gs
    /\ wg = _TETrace[1].wg
----

_next ==
    /\ \E i,j \in DOMAIN _TETrace:
        /\ \/ /\ j = i + 1
              /\ i = TLCGet("level")
        /\ panicked  = _TETrace[i].panicked
        /\ panicked' = _TETrace[j].panicked
        /\ ch  = _TETrace[i].ch
        /\ ch' = _TETrace[j].ch
        /\ last  = _TETrace[i].last
        /\ last' = _TETrace[j].last
        /\ cfg  = _TETrace[i].cfg
        /\ cfg' = _TETrace[j].cfg
        /\ gs  = _TETrace[i].gs
        /\ gs' = _TETrace[j].gs
        /\ wg  = _TETrace[i].wg
        /\ wg' = _TETrace[j].wg

\* Uncomment the ASSUME below to write the states of the error trace
\* to the given file in Json format. Note that you can pass any tuple
\* to `JsonSerialize`. For example, a sub-sequence of _TETrace.
    \* ASSUME
    \*     LET J == INSTANCE Json
    \*         IN J!JsonSerialize("ConcMC_TTrace_1790474468.json", _TETrace)

=============================================================================

 Note that you can extract this module `ConcMC_TEExpression`
  to a dedicated file to reuse `expression` (the module in the 
  dedicated `ConcMC_TEExpression.tla` file takes precedence 
  over the module `ConcMC_TEExpression` below).

---- MODULE ConcMC_TEExpression ----
EXTENDS Sequences, TLCExt, ConcMC, Toolbox, Naturals, TLC

expression == 
    [
        \* To hide variables of the `ConcMC` spec from the error trace,
        \* remove the variables below.  The trace will be written in the order
        \* of the fields of this record.
        panicked |-> panicked
        ,ch |-> ch
        ,last |-> last
        ,cfg |-> cfg
        ,gs |-> gs
        ,wg |-> wg
        
        \* Put additional constant-, state-, and action-level expressions here:
        \* ,_stateNumber |-> _TEPosition
        \* ,_panickedUnchanged |-> panicked = panicked'
        
        \* Format the `panicked` variable as Json value.
        \* ,_panickedJson |->
        \*     LET J == INSTANCE Json
        \*     IN J!ToJson(panicked)
        
        \* Lastly, you may build expressions over arbitrary sets of states by
        \* leveraging the _TETrace operator.  For example, this is how to
        \* count the number of times a spec variable changed up to the current
        \* state in the trace.
        \* ,_panickedModCount |->
        \*     LET F[s \in DOMAIN _TETrace] ==
        \*         IF s = 1 THEN 0
        \*         ELSE IF _TETrace[s].panicked # _TETrace[s-1].panicked
        \*             THEN 1 + F[s-1] ELSE F[s-1]
        \*     IN F[_TEPosition - 1]
    ]

=============================================================================



Parsing and semantic processing can take forever if the trace below is long.
 In this case, it is advised to uncomment the module below to deserialize the
 trace from a generated binary file.

\*
\*---- MODULE ConcMC_TETrace ----
\*EXTENDS IOUtils, ConcMC, TLC
\*
\*trace == IODeserialize("ConcMC_TTrace_1790474468.bin", TRUE)
\*
\*=============================================================================
\*

---- MODULE ConcMC_TETrace ----
EXTENDS ConcMC, TLC

trace == 
    <<
    ([wg |-> ("0#w0" :> [n |-> 0, live |-> TRUE]),last |-> [c |-> "", k |-> "init", g |-> "", v |-> [n |-> 0], ok |-> FALSE, w |-> "", q |-> "", case |-> -1],ch |-> ("0#0" :> [cap |-> 1, closed |-> FALSE, buf |-> <<>>, live |-> TRUE]),cfg |-> [comb |-> "chaos", items |-> <<>>, cap |-> 0, kind |-> "negwg"],panicked |-> "no",gs |-> ("0" :> [role |-> "script", j |-> 1, mk |-> {}, mkw |-> {}, ops |-> <<[c |-> "", n |-> 1, v |-> [n |-> 0], cs |-> <<>>, op |-> "add", w |-> "0#w0", child |-> ""], [c |-> "", n |-> 0, v |-> [n |-> 0], cs |-> <<>>, op |-> "wait", w |-> "0#w0", child |-> ""], [c |-> "", n |-> -1, v |-> [n |-> 0], cs |-> <<>>, op |-> "add", w |-> "0#w0", child |-> ""], [c |-> "", n |-> 0, v |-> [n |-> 0], cs |-> <<>>, op |-> "wait", w |-> "0#w0", child |-> ""], [c |-> "", n |-> -1, v |-> [n |-> 0], cs |-> <<>>, op |-> "add", w |-> "0#w0", child |-> ""]>>])]),
    ([wg |-> ("0#w0" :> [n |-> 1, live |-> TRUE]),last |-> [c |-> "", k |-> "add", g |-> "0", v |-> [i |-> 1], ok |-> FALSE, w |-> "0#w0", q |-> "", case |-> -1],ch |-> ("0#0" :> [cap |-> 1, closed |-> FALSE, buf |-> <<>>, live |-> TRUE]),cfg |-> [comb |-> "chaos", items |-> <<>>, cap |-> 0, kind |-> "negwg"],panicked |-> "no",gs |-> ("0" :> [role |-> "script", j |-> 2, mk |-> {}, mkw |-> {}, ops |-> <<[c |-> "", n |-> 1, v |-> [n |-> 0], cs |-> <<>>, op |-> "add", w |-> "0#w0", child |-> ""], [c |-> "", n |-> 0, v |-> [n |-> 0], cs |-> <<>>, op |-> "wait", w |-> "0#w0", child |-> ""], [c |-> "", n |-> -1, v |-> [n |-> 0], cs |-> <<>>, op |-> "add", w |-> "0#w0", child |-> ""], [c |-> "", n |-> 0, v |-> [n |-> 0], cs |-> <<>>, op |-> "wait", w |-> "0#w0", child |-> ""], [c |-> "", n |-> -1, v |-> [n |-> 0], cs |-> <<>>, op |-> "add", w |-> "0#w0", child |-> ""]>>])])
    >>
----


=============================================================================

---- CONFIG ConcMC_TTrace_1790474468 ----
CONSTANTS
    Combs = { "chaos" }
    MaxInputs = 0
    MaxItems = 0
    MaxCap = 0

INVARIANT
    _inv

CHECK_DEADLOCK
    \* CHECK_DEADLOCK off because of PROPERTY or INVARIANT above.
    FALSE

INIT
    _init

NEXT
    _next

CONSTANT
    _TETrace <- _trace

ALIAS
    _expression
=============================================================================
\* Generated on Sun Sep 27 02:01:10 UTC 2026