----------------------------- MODULE ConcTrace -----------------------------
(***************************************************************************)
(* Validation of schedules recorded from the REAL generated code running   *)
(* under vsched, against the property-level layer: the Go semantics of     *)
(* GoChan.tla plus the C19 / C20 properties.  The goroutines are driven by *)
(* the trace (what the real code did next is read from the next line), the *)
(* channels, WaitGroups and panics are computed by the GoChan actions: a   *)
(* step is accepted only if it is an enabled GoChan transition with        *)
(* exactly the logged effect.  Nothing here knows how a combinator is      *)
(* implemented: a refactoring that keeps the properties is accepted.       *)
(*                                                                         *)
(* Lines: start (cfg, inventory, initial state), step*, end (outcome).     *)
(* Rejected lines are collected in bad: kind "violation" (a property of    *)
(* the statement failed on the real run) or "infra" (the scheduler did     *)
(* something GoChan does not allow: harness defect, never a verdict).      *)
(***************************************************************************)
EXTENDS Conc, Json, IOUtils, SequencesExt

Trace == ndJsonDeserialize(IOEnv.VERIF_TRACE)
N == Len(Trace)

VARIABLES l, run, skip, bad
tvars == <<l, run, skip, bad>>

Ev == Trace[l]
EnvLabels == {"main", "producer", "consumer", "caller"}

StOf(e)   == [ch |-> ToSet(e.st.ch), wg |-> ToSet(e.st.wg), pend |-> ToSet(e.st.pend), panic |-> e.st.panic]
StepOf(e) == Step(e.k, e.g, e.q, e.c, e.w, e.case, e.v, e.ok)
PendIn(e, p) == CHOOSE r \in ToSet(e.st.pend) : r.g = p
HasG(e, p)   == \E r \in ToSet(e.st.pend) : r.g = p
Strip(r) == POp(r.op, r.c, r.v, r.cs, r.w, r.n, r.child)

\* trace-driven goroutines
TG(label, pend, got, c) == [role |-> label, mk |-> {}, mkw |-> {}, pend |-> pend, got |-> got, c |-> c]
TP(p) == gs[p].pend
\* the channel an environment goroutine works on: outputs are what consumers receive from,
\* inputs what producers send on and close (by role, not by who created the channel)
ChanOf(role, np, old) ==
  IF role = "consumer" /\ np.op = "recv" THEN np.c
  ELSE IF role = "producer" /\ np.op \in {"send", "close"} THEN np.c ELSE old
NewCh(e) == {x.id : x \in ToSet(e.st.ch)}
NewWg(e) == {x.id : x \in ToSet(e.st.wg)}
TA(p, r) ==
  LET g == gs[p]
      np == IF HasG(Ev, p) THEN Strip(PendIn(Ev, p)) ELSE PExit
      got == IF g.role = "consumer" /\ g.pend.op = "recv" /\ r.ok THEN Append(g.got, r.v) ELSE g.got
      c == ChanOf(g.role, np, g.c)
  IN [g EXCEPT !.pend = np, !.got = got, !.c = c, !.mk = NewCh(Ev), !.mkw = NewWg(Ev)]
TB(p, c) ==
  LET np == IF HasG(Ev, c) THEN Strip(PendIn(Ev, c)) ELSE PExit
  IN [gs[c].as EXCEPT !.pend = np, !.c = ChanOf(gs[c].as.role, np, ""), !.mk = NewCh(Ev), !.mkw = NewWg(Ev)]

Proj == [ch |-> ProjCh, wg |-> ProjWg, pend |-> ProjPend(TP), panic |-> panicked]

Fail(kind, whys) == bad' = bad \o SetToSeq({[l |-> l, run |-> run, kind |-> kind, why |-> w] : w \in whys})
Checks(pairs) == {p[1] : p \in {q \in pairs : ~q[2]}}

-----------------------------------------------------------------------------
TInit ==
  /\ l = 1 /\ run = "" /\ skip = TRUE /\ bad = <<>>
  /\ cfg = [comb |-> "none"] /\ ch = <<>> /\ wg = <<>> /\ gs = <<>> /\ panicked = "no" /\ last = NoStep

Start ==
  /\ l <= N /\ Ev.ev = "start" /\ l' = l + 1
  /\ run' = Ev.run /\ cfg' = Ev.cfg /\ panicked' = "no" /\ last' = NoStep
  /\ LET live == NewCh(Ev) IN
     ch' = [c \in {x.id : x \in ToSet(Ev.all.ch)} |->
              Chan((CHOOSE x \in ToSet(Ev.all.ch) : x.id = c).cap, c \in live)]
  /\ wg' = [w \in ToSet(Ev.all.wg) |-> WG(w \in NewWg(Ev))]
  /\ gs' = [p \in {x.g : x \in ToSet(Ev.all.g)} |->
              LET lab == (CHOOSE x \in ToSet(Ev.all.g) : x.g = p).label
                  role == IF lab = "" THEN "internal" ELSE lab IN
              IF HasG(Ev, p) THEN TG(role, Strip(PendIn(Ev, p)), <<>>, ChanOf(role, PendIn(Ev, p), ""))
              ELSE Absent(TG(role, PExit, <<>>, ""))]
  /\ skip' = FALSE
  /\ UNCHANGED bad

TOutputs == {gs[p].c : p \in {x \in Procs : Live(x) /\ gs[x].role = "consumer" /\ gs[x].c \in DOMAIN ch}}
TInputs  == {gs[p].c : p \in {x \in Procs : Live(x) /\ gs[x].role = "producer" /\ gs[x].c \in DOMAIN ch}}
TCloseAfterDrain == \A o \in TOutputs : ch[o].closed => \A i \in TInputs : ch[i].closed /\ ch[i].buf = <<>>

\* properties of the statement that must hold in every state of every run
StateChecks ==
  {<<"panic: " \o panicked', panicked' = "no">>,
   <<"output closed before all inputs were closed and drained", TCloseAfterDrain'>>,
   <<"delivered items are not, per input, a duplicate-free in-order prefix of what was sent", DeliveredPrefix'>>}

StepMatch ==
  /\ Ev.g \in Procs
  /\ GoStepOf(Ev.g, TP, TA, TB)      \* the logged goroutine acts (GoNext restricted to it)
  /\ last' = StepOf(Ev)
  /\ Proj' = StOf(Ev)

StepOK ==
  /\ l <= N /\ Ev.ev = "step" /\ ~skip /\ l' = l + 1
  /\ StepMatch
  /\ Fail("violation", Checks(StateChecks))
  /\ UNCHANGED <<run, skip>>

StepBad ==
  /\ l <= N /\ Ev.ev = "step" /\ ~skip /\ l' = l + 1
  /\ ~ENABLED StepMatch
  /\ Fail("infra", {"step is not an enabled GoChan transition with the logged effect"})
  /\ skip' = TRUE
  /\ UNCHANGED <<run, cfg, ch, wg, gs, panicked, last>>

Skip ==
  /\ l <= N /\ Ev.ev # "start" /\ skip /\ l' = l + 1
  /\ UNCHANGED <<run, skip, bad, cfg, ch, wg, gs, panicked, last>>

EnvBlocked == \E p \in Procs : Live(p) /\ gs[p].role \in EnvLabels /\ TP(p).op # "exit"
TTerminated == AllExited(TP)

End ==
  /\ l <= N /\ Ev.ev = "end" /\ ~skip /\ l' = l + 1
  /\ LET o == Ev.outcome IN
     LET infra == Checks({
          <<"end: outcome done but a goroutine has not exited", o = "done" => TTerminated>>,
          <<"end: outcome stuck but GoChan enables a step", o = "stuck" => Stuck(TP) /\ ~TTerminated>>,
          <<"end: outcome panic but no panic state", o = "panic" <=> panicked # "no">>})
         viol == Checks({
            <<"deadlock", ~(o = "stuck" /\ EnvBlocked)>>,
            <<"goroutines left blocked after the combinator finished", ~(o = "stuck" /\ ~EnvBlocked)>>,
            <<"no termination within the step bound", o # "steplimit">>,
            <<"runtime panic", o # "usererr">>,
            <<"item lost", o = "done" => DeliveredAllNow>>,
            <<"output not closed", o = "done" => \A x \in TOutputs : ch[x].closed>>,
            \* C20 (Do): what the caller observed, reported by the environment in the end line
            <<"Do did not return", (cfg.comb = "do" /\ o = "done") => Ev.returned>>,
            <<"Do returned before every function had returned",
                (cfg.comb = "do" /\ Ev.returned) => \A i \in DOMAIN Ev.atreturn : Ev.atreturn[i]>>,
            <<"Do: a value is not in its position",
                (cfg.comb = "do" /\ Ev.returned) => \A i \in DOMAIN Ev.results : Ev.results[i] = 100 + (i - 1)>>,
            <<"Do: error is not nil exactly when a function failed, or is none of the returned errors",
                (cfg.comb = "do" /\ Ev.returned) =>
                   LET codes == {cfg.fail[i] : i \in DOMAIN cfg.fail} IN
                   /\ (Ev.err = 0 <=> codes \subseteq {0})
                   /\ Ev.err \in codes \cup {0}>>})
     IN bad' = bad \o SetToSeq({[l |-> l, run |-> run, kind |-> "infra", why |-> w] : w \in infra})
                  \o SetToSeq({[l |-> l, run |-> run, kind |-> "violation", why |-> w] : w \in viol})
  /\ UNCHANGED <<run, skip, cfg, ch, wg, gs, panicked, last>>

TNext == Start \/ StepOK \/ StepBad \/ Skip \/ End
TSpec == TInit /\ [][TNext]_<<gvars, tvars>>

Export == l = N + 1 => ndJsonSerialize(IOEnv.VERIF_OUT, bad)
TraceAccepted == TLCGet("stats").diameter - 1 = N
=============================================================================
