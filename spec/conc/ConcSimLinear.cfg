SPECIFICATION SimSpec
CONSTANTS
  Combs = {"dup", "fmap"}
  MaxInputs = 1
  MaxItems = 2
  MaxCap = 2
INVARIANT SimExport
CHECK_DEADLOCK FALSE
