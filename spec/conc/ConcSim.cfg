\* by-hand run: VERIF_OUT=/tmp/sim.csv tlc -metadir /tmp/x -workers 1 -simulate num=100 -depth 400 -config ConcSim.cfg ConcSim
SPECIFICATION SimSpec
CONSTANTS
  Combs = {"dup", "fmap", "joinchan", "joinslice", "joinvar", "pipeline", "do"}
  MaxInputs = 2
  MaxItems = 1
  MaxCap = 1
INVARIANT SimExport
CHECK_DEADLOCK FALSE
