------------------------------ MODULE ConcSim ------------------------------
(***************************************************************************)
(* Behaviours of the combinator modules for replay into the real code:     *)
(* run with `-simulate`; at the end of every behaviour (termination,       *)
(* deadlock or panic state) the configuration and the sequence of          *)
(* <<step taken, projected state after it>> is appended to VERIF_OUT.      *)
(***************************************************************************)
EXTENDS ConcMC, Json, CSV, IOUtils

VARIABLE hist

MProj == [ch |-> ProjCh, wg |-> ProjWg, pend |-> ProjPend(Pend), panic |-> panicked]

SimInit == MCInit /\ hist = <<>>
SimNext == Step1 /\ hist' = Append(hist, [s |-> last', st |-> MProj'])
SimSpec == SimInit /\ [][SimNext]_<<gvars, hist>>

SimExport ==
  (Stuck(Pend) \/ panicked # "no") =>
    CSVWrite("%1$s", <<ToJson([cfg |-> cfg, hist |-> hist, terminated |-> Terminated])>>, IOEnv.VERIF_OUT)
=============================================================================
