------------------------------- MODULE ConcMC -------------------------------
(***************************************************************************)
(* Bounded model checking of the combinator modules: every configuration   *)
(* in Configs is an initial state, so one TLC run covers them all.         *)
(***************************************************************************)
EXTENDS Conc

CONSTANTS Combs, MaxInputs, MaxItems, MaxCap

Linear == {[comb |-> c, items |-> <<n>>, cap |-> k] :
             c \in Combs \cap {"dup", "fmap"}, n \in 0..MaxItems, k \in 0..MaxCap}
\* sequences of 0..MaxItems of the given lengths
ItemSeqs(lens) == UNION {[1..n -> 0..MaxItems] : n \in lens}
Joins == {[comb |-> c, items |-> it, cap |-> k] :
            c \in Combs \cap {"joinchan", "joinslice"}, it \in ItemSeqs(0..MaxInputs), k \in 0..MaxCap}
         \cup {[comb |-> c, items |-> it, cap |-> k] :
            c \in Combs \cap {"joinvar"}, it \in ItemSeqs(2..MaxInputs), k \in 0..MaxCap}
Pipes == {[comb |-> c, items |-> <<m, n>>, cap |-> k] :
            c \in Combs \cap {"pipeline"}, m \in 0..MaxInputs, n \in 0..MaxItems, k \in 0..MaxCap}
Configs == Linear \cup Joins \cup Pipes

MCInit == \E c \in Configs : InitFor(c)
MCSpec == MCInit /\ [][Next]_gvars /\ Fair
=============================================================================
