------------------------------- MODULE ConcMC -------------------------------
(***************************************************************************)
(* Bounded model checking of the combinator modules: every configuration   *)
(* in Configs is an initial state, so one TLC run covers them all.         *)
(***************************************************************************)
EXTENDS Conc

CONSTANTS Combs, MaxInputs, MaxItems, MaxCap

Linear == {[comb |-> c, items |-> <<n>>, cap |-> k] :
             c \in Combs \cap {"dup", "fmap"}, n \in 0..MaxItems, k \in 0..MaxCap}
\* sequences of 0..MaxItems of the given lengths
ItemSeqs(lens) == UNION {[1..n -> 0..MaxItems] : n \in lens}
Joins == {[comb |-> c, items |-> it, cap |-> k] :
            c \in Combs \cap {"joinchan", "joinslice"}, it \in ItemSeqs(0..MaxInputs), k \in 0..MaxCap}
         \cup {[comb |-> c, items |-> it, cap |-> k] :
            c \in Combs \cap {"joinvar"}, it \in ItemSeqs(2..MaxInputs), k \in 0..MaxCap}
Pipes == {[comb |-> c, items |-> <<m, n>>, cap |-> k] :
            c \in Combs \cap {"pipeline"}, m \in 0..MaxInputs, n \in 0..MaxItems, k \in 0..MaxCap}
\* do: 2..MaxInputs functions, every failing subset (function i fails with error code i), with and without rendezvous
DoFails(lo) == UNION {{g \in [1..n -> 0..n] : \A i \in 1..n : g[i] \in {0, i}} : n \in lo..MaxInputs}
Dos == {[comb |-> c, fail |-> f, rv |-> b, ring |-> FALSE, items |-> <<>>, cap |-> 0] :
          c \in Combs \cap {"do"}, b \in BOOLEAN, f \in DoFails(2)}
       \cup {[comb |-> c, fail |-> f, rv |-> FALSE, ring |-> TRUE, items |-> <<>>, cap |-> 0] :
          c \in Combs \cap {"do"}, f \in DoFails(3)}
Chaoses == {[comb |-> c, kind |-> k, items |-> <<>>, cap |-> 0] : c \in Combs \cap {"chaos"}, k \in ChaosKinds}
Configs == Linear \cup Joins \cup Pipes \cup Dos \cup Chaoses

MCInit == \E c \in Configs : InitFor(c)
MCSpec == MCInit /\ [][Next]_gvars /\ Fair
=============================================================================
