SPECIFICATION TSpec
INVARIANT Export
POSTCONDITION TraceAccepted
CHECK_DEADLOCK FALSE
