\* by-hand run: tlc -metadir /tmp/x -workers 4 -config ConcMC.cfg ConcMC   (the check generates its own configurations)
SPECIFICATION MCSpec
CONSTANTS
  Combs = {"dup", "fmap", "joinchan", "joinslice", "joinvar", "pipeline", "do"}
  MaxInputs = 2
  MaxItems = 1
  MaxCap = 1
INVARIANTS NoPanic DeliveredPrefix DeliveredAll CloseAfterDrain OutputsClosed NoDeadlock CanStepIsEnabled DoHappensBefore DoSpawnAllFirst DoResult DoReturns
PROPERTY EventuallyDone
CHECK_DEADLOCK TRUE
