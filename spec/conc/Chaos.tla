-------------------------------- MODULE Chaos --------------------------------
(***************************************************************************)
(* Misuse scripts: single goroutines that run straight into each runtime   *)
(* panic GoChan models (send on closed channel, close of closed channel,   *)
(* close of nil channel, negative WaitGroup counter).  The correct         *)
(* combinators never reach a panic action (NoPanic), so without these the  *)
(* panic actions would be vacuous in the model-checking coverage; here     *)
(* each script must end in exactly its panic.  cfg = [comb |-> "chaos",    *)
(* kind |-> ...].  The same panics are exercised on the real code through  *)
(* the template mutants (recorded schedules ending in a panic step are     *)
(* accepted by ConcTrace as GoChan transitions).                           *)
(***************************************************************************)
EXTENDS Do

Script(ops) == [role |-> "script", mk |-> {}, mkw |-> {}, ops |-> ops, j |-> 1]
ScriptPend(p) == IF gs[p].j <= Len(gs[p].ops) THEN gs[p].ops[gs[p].j] ELSE PExit
ScriptAdv(p, r) == [gs[p] EXCEPT !.j = @ + 1]

ChaosKinds == {"sendclosed", "closeclosed", "closenil", "negwg"}
ChaosOps(k) ==
  CASE k = "sendclosed"  -> <<PClose("0#0"), PSend("0#0", IV(1))>>
    [] k = "closeclosed" -> <<PSend("0#0", IV(1)), PClose("0#0"), PRecv("0#0"), PRecv("0#0"), PClose("0#0")>>
    [] k = "closenil"    -> <<PClose(Nil)>>
    [] k = "negwg"       -> <<PAdd("0#w0", 1), PAdd("0#w0", -1), PWait("0#w0"), PAdd("0#w0", -1)>>
ChaosExpected(k) ==
  CASE k = "sendclosed"  -> "send on closed channel"
    [] k = "closeclosed" -> "close of closed channel"
    [] k = "closenil"    -> "close of nil channel"
    [] k = "negwg"       -> "sync: negative WaitGroup counter"

ChaosInitCh(c) == [x \in {"0#0"} |-> Chan(1, TRUE)]
ChaosInitWg(c) == [x \in {"0#w0"} |-> WG(TRUE)]
ChaosInitGs(c) == [x \in {"0"} |-> Script(ChaosOps(c.kind))]
=============================================================================
