-------------------------------- MODULE Dup --------------------------------
(***************************************************************************)
(* deriveDup, from the generated text (plugin/dup/dup.go):                 *)
(*   cc1, cc2 := make(chan T, cap(c)), make(chan T, cap(c))                *)
(*   go func() { for v := range c { cc1 <- v; cc2 <- v }                   *)
(*               close(cc1); close(cc2) }()                                *)
(* Driver (main = "0"): c = 0#0, cc1 = 0#1, cc2 = 0#2; spawns the          *)
(* combinator's goroutine 0.0, the producer 0.1, the consumers 0.2, 0.3.   *)
(* cfg = [comb |-> "dup", items |-> <<n>>, cap |-> k]                      *)
(***************************************************************************)
EXTENDS Env

DupG(in, o1, o2) == [role |-> "dup", mk |-> {}, mkw |-> {}, in |-> in, o1 |-> o1, o2 |-> o2, pc |-> "recv", v |-> NoV]

DupPend(p) == LET g == gs[p] IN
  CASE g.pc = "recv" -> PRecv(g.in)
    [] g.pc = "s1"   -> PSend(g.o1, g.v)
    [] g.pc = "s2"   -> PSend(g.o2, g.v)
    [] g.pc = "c1"   -> PClose(g.o1)
    [] g.pc = "c2"   -> PClose(g.o2)
    [] OTHER         -> PExit

DupAdv(p, r) == LET g == gs[p] IN
  CASE g.pc = "recv" -> IF r.ok THEN [g EXCEPT !.pc = "s1", !.v = r.v] ELSE [g EXCEPT !.pc = "c1"]
    [] g.pc = "s1"   -> [g EXCEPT !.pc = "s2"]
    [] g.pc = "s2"   -> [g EXCEPT !.pc = "recv"]
    [] g.pc = "c1"   -> [g EXCEPT !.pc = "c2"]
    [] g.pc = "c2"   -> [g EXCEPT !.pc = "exit"]
    [] OTHER         -> g

DupInitCh(c) == [x \in {"0#0", "0#1", "0#2"} |-> Chan(c.cap, TRUE)]
DupInitWg(c) == [x \in {} |-> WG(FALSE)]
DupInitGs(c) ==
  [x \in {"0", "0.0", "0.1", "0.2", "0.3"} |->
     CASE x = "0"   -> Main(<<"0.0", "0.1", "0.2", "0.3">>)
       [] x = "0.0" -> Absent(DupG("0#0", "0#1", "0#2"))
       [] x = "0.1" -> Absent(Producer("0#0", Toks(1, c.items[1])))
       [] x = "0.2" -> Absent(Consumer("0#1"))
       [] x = "0.3" -> Absent(Consumer("0#2"))]

DupInputs(c)  == {"0#0"}
DupOutputs(c) == {"0#1", "0#2"}
\* what each consumer must receive: a sequence of input sequences (here one: total order)
DupExpect(c, o) == << Toks(1, c.items[1]) >>
=============================================================================
