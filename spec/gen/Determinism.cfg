SPECIFICATION Spec
CONSTANTS MaxCallsD = 3
INVARIANT Export
CHECK_DEADLOCK FALSE
