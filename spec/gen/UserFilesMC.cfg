SPECIFICATION Spec
CONSTANTS
  Truncate = TRUE
  Orig <- OrigC
INVARIANT FilesIntact
CHECK_DEADLOCK FALSE
