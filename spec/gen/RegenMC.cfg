SPECIFICATION Spec
CONSTANTS
  MaxEdits = 2
  FixedOrder = TRUE
INVARIANTS TypeOK FileRemoved Export
CHECK_DEADLOCK FALSE
