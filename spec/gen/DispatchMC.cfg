SPECIFICATION Spec
CONSTANTS
  Default <- DefaultC
  Pool <- PoolC
  Sfxs <- SfxsC
INVARIANTS LongestWins Unique
CHECK_DEADLOCK FALSE
