------------------------------ MODULE Dispatch ------------------------------
(***************************************************************************)
(* C12: prefix customisation (main.go) and call dispatch (generate.go      *)
(* sortPlugins, pkg.Add).                                                  *)
(*                                                                         *)
(* Implementation-shaped part: the effective prefix of a plugin is its     *)
(* default prefix with the first "derive" replaced by -prefix, unless      *)
(* -pluginprefix overrides it; plugins are then sorted longest prefix      *)
(* first (ties: larger string first) and a call goes to the FIRST plugin   *)
(* in that order whose prefix is a prefix of the call's name.              *)
(* Abstract part (Names.tla): the call goes to the plugin with the longest *)
(* matching prefix, whatever the registration order.                      *)
(* TLC checks, for every prefix map of the bounded universe, every         *)
(* registration order and every call name, that the former refines the     *)
(* latter, and exports the cases for the conformance run.                  *)
(***************************************************************************)
EXTENDS Names, Json, CSV, IOUtils

CONSTANTS Default,    \* plugin -> default prefix
          Pool,       \* prefixes an override may choose from
          Sfxs    \* what a user appends to a prefix to name a call

VARIABLES override,   \* partial function plugin -> prefix  (-pluginprefix)
          global,     \* -prefix ("derive" = default)
          reg,        \* registration order: sequence of plugins
          call,       \* the call name being dispatched
          chosen      \* "" | plugin

vars == <<override, global, reg, call, chosen>>
PluginsD == DOMAIN Default

\* strings.Replace(p, "derive", g, 1) for prefixes that start with "derive"
ReplaceDerive(p, g) == IF IsPrefixStr("derive", p) THEN g \o SubSeq(p, 7, Len(p)) ELSE p

Eff(p) == IF p \in DOMAIN override THEN override[p] ELSE ReplaceDerive(Default[p], global)

\* sortPlugins: longer prefix first; equal length: larger string first.  Strings of
\* equal length are compared through their position in a fixed enumeration.
Before(p, q) == Len(Eff(p)) > Len(Eff(q))

\* the first plugin in sorted order whose prefix matches = a matching plugin such that
\* no matching plugin sorts strictly before it
FirstMatch(name) ==
  LET C == {p \in PluginsD : IsPrefixStr(Eff(p), name)} IN
  {p \in C : \A q \in C : ~Before(q, p)}

AsRecords == {[name |-> p, prefix |-> Eff(p)] : p \in PluginsD}

Distinct == \A p, q \in PluginsD : p # q => Eff(p) # Eff(q)

Init ==
  /\ override \in UNION {[S -> Pool] : S \in SUBSET PluginsD}
  /\ global \in {"derive", "gen", "d"}
  /\ Distinct
  /\ reg \in {s \in [1..Cardinality(PluginsD) -> PluginsD] : \A i, j \in DOMAIN s : i # j => s[i] # s[j]}
  /\ call \in {Eff(p) \o s : p \in PluginsD, s \in Sfxs}
  /\ chosen = ""

Dispatch ==
  /\ chosen = ""
  /\ \E p \in FirstMatch(call) : chosen' = p
  /\ UNCHANGED <<override, global, reg, call>>

Next == Dispatch
Spec == Init /\ [][Next]_vars

\* refinement of the abstract rule, for every registration order
LongestWins ==
  chosen # "" => [name |-> chosen, prefix |-> Eff(chosen)] \in LongestMatch(AsRecords, call)

\* with pairwise distinct prefixes the choice is unique, hence order independent
Unique == Cardinality(FirstMatch(call)) = 1

\* the default-named twin of the call: same plugin, default prefix, same remainder
Twin == Default[chosen] \o SubSeq(call, Len(Eff(chosen)) + 1, Len(call))

Export ==
  chosen # "" =>
    CSVWrite("%1$s", <<ToJson([override |-> [p \in DOMAIN override |-> override[p]], global |-> global,
                               eff |-> [p \in PluginsD |-> Eff(p)],
                               call |-> call, plugin |-> chosen, twin |-> Twin])>>, IOEnv.VERIF_OUT)
=============================================================================
