---------------------------- MODULE Determinism ----------------------------
(***************************************************************************)
(* C08: for fixed sources and flags the output is the same on every run.   *)
(*                                                                         *)
(* The only run-to-run nondeterminism inside the generator is Go's map     *)
(* iteration order; the name table is where it can reach the output:       *)
(* nameOf ranges over funcToTyps and returns the FIRST entry the query is  *)
(* assignable to.  This module is the self-composition of the registration *)
(* and helper-lookup steps of Goderive.tla with that choice made           *)
(* independently in two copies of the run, over argument type lists that   *)
(* ARE related by assignability:                                           *)
(*    I1, I2   two named slice types      U   the unnamed slice type       *)
(*    S        a struct with a field of type U (its Equal needs a helper   *)
(*             for U)                                                      *)
(* U is assignable to I1 and I2 and vice versa; I1 and I2 are not          *)
(* assignable to each other.                                               *)
(* TLC explores every scenario and every pair of resolutions; terminal     *)
(* states are exported with differ = the two copies disagree.  A scenario  *)
(* with a differing pair is a lead: the conformance run repeats the real   *)
(* generator on it many times.                                             *)
(***************************************************************************)
EXTENDS Names, Json, CSV, IOUtils

CONSTANTS MaxCallsD

KeysD == {"I1", "I2", "U", "S"}
Assignable(q, e) == q = e \/ (q = "U" /\ e \in {"I1", "I2"}) \/ (q \in {"I1", "I2"} /\ e = "U")
HelperOf(k) == IF k = "S" THEN {"U"} ELSE {}

NamesD == {"deriveEqualA", "deriveEqualB", "deriveEqualC"}

VARIABLES callsD, i, t1, t2, b1, b2, e1, e2
vars == <<callsD, i, t1, t2, b1, b2, e1, e2>>

Matches(t, k) == {n \in Names(t) : Assignable(k, t.f2t[n])}

\* one registration in one copy; pick = the map-order choice of nameOf (a name in M, or NoName when M is empty)
Reg(t, n, k, pick) ==
  IF pick # NoName THEN
       IF pick = n THEN [res |-> n, err |-> NoErr, t |-> t]
       ELSE [res |-> NoName, err |-> "duplicate", t |-> t]
  ELSE IF n \in Names(t) THEN
       IF Assignable(t.f2t[n], k) THEN [res |-> n, err |-> NoErr, t |-> t]
       ELSE [res |-> NoName, err |-> "conflict", t |-> t]
  ELSE [res |-> n, err |-> NoErr, t |-> Bind(t, n, k)]

Picks(t, k) == IF Matches(t, k) = {} THEN {NoName} ELSE Matches(t, k)

\* helper request GetFuncName(k): found (any match) or a fresh name
Fresh(t) == CHOOSE x \in {"deriveEqual", "deriveEqual_", "deriveEqual_1", "deriveEqual_2"} : x \notin Names(t)
Get(t, k, pick) == IF pick # NoName THEN [res |-> pick, t |-> t] ELSE [res |-> Fresh(t), t |-> Bind(t, Fresh(t), k)]

\* phase "add": newPackage registers every call; phase "gen": pkg.Generate emits the registered
\* functions in work-list order, and generating one for S looks up the helper for U
Init ==
  /\ callsD \in UNION {[1..len -> [n : NamesD, k : KeysD]] : len \in 1..MaxCallsD}
  /\ i = 1 /\ t1 = EmptyTab /\ t2 = EmptyTab /\ b1 = <<>> /\ b2 = <<>> /\ e1 = NoErr /\ e2 = NoErr

Step ==
  /\ i <= Len(callsD) /\ e1 = NoErr /\ e2 = NoErr
  /\ LET c == callsD[i] IN
     \E p1 \in Picks(t1, c.k), q1 \in Picks(t2, c.k) :
       LET ra == Reg(t1, c.n, c.k, p1)
           rb == Reg(t2, c.n, c.k, q1)
       IN /\ t1' = ra.t /\ t2' = rb.t
          /\ b1' = Append(b1, <<ra.res>>) /\ b2' = Append(b2, <<rb.res>>)
          /\ e1' = ra.err /\ e2' = rb.err
  /\ i' = i + 1
  /\ UNCHANGED callsD

NeedsHelper(t) == \E n \in Names(t) : t.f2t[n] = "S"

\* one generation step (at most one S entry exists per table: a second S call is a duplicate or the same name)
GenStep ==
  /\ i = Len(callsD) + 1 /\ e1 = NoErr /\ e2 = NoErr
  /\ \E p2 \in Picks(t1, "U"), q2 \in Picks(t2, "U") :
       LET ga == IF NeedsHelper(t1) THEN Get(t1, "U", p2) ELSE [res |-> "", t |-> t1]
           gb == IF NeedsHelper(t2) THEN Get(t2, "U", q2) ELSE [res |-> "", t |-> t2]
       IN /\ t1' = ga.t /\ t2' = gb.t
          /\ b1' = Append(b1, <<ga.res>>) /\ b2' = Append(b2, <<gb.res>>)
  /\ i' = i + 1
  /\ UNCHANGED <<callsD, e1, e2>>

Done == i > Len(callsD) + 1 \/ e1 # NoErr \/ e2 # NoErr
Spec == Init /\ [][Step \/ GenStep]_vars

Differ == e1 # e2 \/ (e1 = NoErr /\ (b1 # b2 \/ t1.f2t # t2.f2t))

\* the abstract demand (violated by the implementation-shaped choice: that is the lead)
Deterministic == Done => ~Differ

Export ==
  Done => CSVWrite("%1$s", <<ToJson([calls |-> callsD, differ |-> Differ])>>, IOEnv.VERIF_OUT)
=============================================================================
