------------------------------- MODULE Regen -------------------------------
(***************************************************************************)
(* C07: regeneration depends only on the current sources.                  *)
(*                                                                         *)
(* State: the user's sources (which derive call sites are present and how  *)
(* the types they mention are currently declared) and what derived.gen.go  *)
(* holds on disk.  Environment actions edit the sources or interrupt a     *)
(* write (leaving a truncated file); Run is one goderive run.              *)
(*                                                                         *)
(* Call sites (in source order) of the modelled package:                   *)
(*   eqA   deriveEqualA(a, b *T1)            T1 has a field F of type fty  *)
(*   eqB   deriveEqualB(x, y V)              V is declared as vty          *)
(*   keys  deriveKeys(m)                     the inner function of nest on *)
(*                                           its own: an old file can      *)
(*                                           define it without the outer   *)
(*   nest  deriveSort(deriveKeys(m))         m is declared as mty: the     *)
(*                                           inner call's result type      *)
(*                                           flows into the outer call     *)
(*   cmp   deriveCompare(c, d *T1)                                         *)
(*                                                                         *)
(* Abstract layer (what C07 demands):                                      *)
(*     disk after a successful run = Scratch(current sources)              *)
(* whatever the disk held before.  Implementation-shaped layer: how the    *)
(* pinned code actually consults the old file (find.go: calls that resolve *)
(* into derived.gen.go are "derived", typed from the old file's            *)
(* signatures, and registered after the undefined ones).  Where the two    *)
(* layers disagree the model predicts a defect; that prediction is a lead  *)
(* which the conformance run confirms or refutes on the real generator.    *)
(***************************************************************************)
EXTENDS Naturals, Sequences, FiniteSets, TLC, Json, CSV, IOUtils

Sites == <<"eqA", "eqB", "keys", "nest", "cmp">>  \* source order
SiteSet == {Sites[i] : i \in DOMAIN Sites}

Versions == [present : SUBSET SiteSet, fty : {"int", "strs"}, vty : {"ints", "strs"}, mty : {"mapSI", "mapII"}]

\* the functions a version needs, identified by call site + the types they are generated for
Key(v, s) ==
  CASE s = "eqA"  -> <<"eqA", v.fty>>
    [] s = "eqB"  -> <<"eqB", v.vty>>
    [] s = "keys" -> <<"keys", v.mty>>
    [] s = "nest" -> <<"nest", v.mty>>
    [] s = "cmp"  -> <<"cmp", v.fty>>

InOrder(v) == SelectSeq(Sites, LAMBDA s : s \in v.present)

\* pkg.Generate emits plugin by plugin (sorted plugin order), and within a plugin in
\* registration order: compare before equal before keys/sort
PluginRank(s) == CASE s = "cmp" -> 1 [] s \in {"eqA", "eqB"} -> 2 [] s = "keys" -> 3 [] s = "nest" -> 4
ByPlugin(order) == SelectSeq(order, LAMBDA s : PluginRank(s) = 1) \o SelectSeq(order, LAMBDA s : PluginRank(s) = 2)
                   \o SelectSeq(order, LAMBDA s : PluginRank(s) = 3) \o SelectSeq(order, LAMBDA s : PluginRank(s) = 4)

\* output of a run from scratch: per plugin, functions in source order of their call sites
Scratch(v) == [i \in DOMAIN InOrder(v) |-> Key(v, ByPlugin(InOrder(v))[i])]

TruncClasses == {"empty", "inPackageClause", "inImports", "afterSomeFuncs", "midFunc"}

Disks == {[kind |-> "absent"]}
         \cup {[kind |-> "output", of |-> v] : v \in Versions}
         \cup {[kind |-> "trunc", of |-> v, class |-> c] : v \in Versions, c \in TruncClasses}

VARIABLES src,      \* current version of the sources
          disk,     \* derived.gen.go
          edits,    \* number of edits since the last run
          hist,     \* how this state was reached: [v1, ops, diskAtRun]
          last      \* result of the last run: [ran, same, ok]

vars == <<src, disk, edits, hist, last>>

CONSTANT MaxEdits, FixedOrder   \* FixedOrder: the generator registers calls in source order (after the fix)

\* ---------------------------------------------------------------------------
\* implementation-shaped Run

\* which call sites resolve into the old derived file (so they are "derived", not "undefined")
Declared(d) == IF d.kind = "output" THEN d.of.present ELSE {}   \* a truncated file is skipped or unparsable

\* registration order of the pinned code: undefined calls first, then derived ones (per file)
ImplOrder(v, d) ==
  IF FixedOrder THEN InOrder(v)
  ELSE SelectSeq(Sites, LAMBDA s : s \in v.present /\ s \notin Declared(d))
       \o SelectSeq(Sites, LAMBDA s : s \in v.present /\ s \in Declared(d))

\* the outer call of "nest" is typed from the signature the OLD file declares for the inner one
StaleNest(v, d) == /\ "nest" \in v.present /\ d.kind = "output" /\ d.of.present \cap {"nest", "keys"} # {}
                   /\ d.of.mty # v.mty

\* a truncated remnant that still is a Go file but declares nothing, or does not parse
Unloadable(d) == d.kind = "trunc" /\ d.class \in {"empty", "inPackageClause", "inImports"}

ImplOut(v, d) ==
  [i \in DOMAIN ImplOrder(v, d) |->
     LET s == ByPlugin(ImplOrder(v, d))[i] IN
     IF s = "nest" /\ StaleNest(v, d) THEN <<"nest", d.of.mty, "stale">> ELSE Key(v, s)]

Run ==
  /\ LET exitOK == ~Unloadable(disk)
         out == ImplOut(src, disk)
     IN
     /\ last' = [ran |-> TRUE, ok |-> exitOK, same |-> exitOK /\ out = Scratch(src)]
     /\ disk' = IF ~exitOK THEN disk
                ELSE IF src.present = {} THEN [kind |-> "absent"]
                ELSE IF out = Scratch(src) THEN [kind |-> "output", of |-> src]
                ELSE [kind |-> "output", of |-> src]     \* content differs from scratch: recorded in last.same
     /\ hist' = [hist EXCEPT !.diskAtRun = disk, !.v2 = src]
     /\ edits' = 0
  /\ UNCHANGED src

\* ---------------------------------------------------------------------------
\* environment

Edit(op) ==
  /\ edits < MaxEdits
  /\ src' = CASE op.k = "toggle" -> [src EXCEPT !.present = IF op.s \in @ THEN @ \ {op.s} ELSE @ \cup {op.s}]
              [] op.k = "fty"    -> [src EXCEPT !.fty = IF @ = "int" THEN "strs" ELSE "int"]
              [] op.k = "vty"    -> [src EXCEPT !.vty = IF @ = "ints" THEN "strs" ELSE "ints"]
              [] op.k = "mty"    -> [src EXCEPT !.mty = IF @ = "mapSI" THEN "mapII" ELSE "mapSI"]
  /\ edits' = edits + 1
  /\ hist' = [hist EXCEPT !.ops = Append(@, op)]
  /\ UNCHANGED <<disk, last>>

Ops == {[k |-> "toggle", s |-> s] : s \in SiteSet} \cup {[k |-> "fty"], [k |-> "vty"], [k |-> "mty"]}

\* an interrupted write: the file is a truncated prefix of the old output, or of the output for the new sources
Crash(c) ==
  /\ disk.kind = "output"
  /\ \A i \in DOMAIN hist.ops : hist.ops[i].k # "crash"     \* one interrupted write per history
  /\ \/ disk' = [kind |-> "trunc", of |-> disk.of, class |-> c]
     \/ (src.present # {} /\ disk' = [kind |-> "trunc", of |-> src, class |-> c])
  /\ hist' = [hist EXCEPT !.ops = Append(@, [k |-> "crash", c |-> c])]
  /\ UNCHANGED <<src, edits, last>>

Init ==
  /\ src \in Versions
  /\ disk = IF src.present = {} THEN [kind |-> "absent"] ELSE [kind |-> "output", of |-> src]   \* after a first run from scratch
  /\ edits = 0
  /\ hist = [v1 |-> src, ops |-> <<>>, diskAtRun |-> [kind |-> "absent"], v2 |-> src]
  /\ last = [ran |-> FALSE, ok |-> TRUE, same |-> TRUE]

Next ==
  \/ \E op \in Ops : ~last.ran /\ Edit(op)
  \/ \E c \in TruncClasses : ~last.ran /\ Len(hist.ops) < MaxEdits + 1 /\ Crash(c)
  \/ (~last.ran /\ hist.ops # <<>> /\ Run)

Spec == Init /\ [][Next]_vars

\* ---------------------------------------------------------------------------
TypeOK == src \in Versions /\ disk \in Disks

\* C07 on the model.  With FixedOrder = FALSE, or with a stale nested type, or with an
\* unloadable remnant, the implementation-shaped Run violates it: those are the leads.
C07 == last.ran => (last.ok /\ last.same)

\* the design obligations that hold of the model regardless
FileRemoved == (last.ran /\ last.ok /\ src.present = {}) => disk.kind = "absent"

Export ==
  last.ran =>
    CSVWrite("%1$s", <<ToJson([v1 |-> [present |-> hist.v1.present, fty |-> hist.v1.fty, vty |-> hist.v1.vty, mty |-> hist.v1.mty],
                               v2 |-> [present |-> src.present, fty |-> src.fty, vty |-> src.vty, mty |-> src.mty],
                               ops |-> hist.ops,
                               disk |-> hist.diskAtRun.kind,
                               class |-> IF hist.diskAtRun.kind = "trunc" THEN hist.diskAtRun.class ELSE "",
                               truncOfNew |-> hist.diskAtRun.kind = "trunc" /\ hist.diskAtRun.of = src,
                               predictOK |-> last.ok, predictSame |-> last.same])>>, IOEnv.VERIF_OUT)
=============================================================================
