--------------------------- MODULE GoderiveTrace ---------------------------
(***************************************************************************)
(* Validation of traces recorded from the REAL goderive binary (built with *)
(* -tags verif) against the abstract layer of the generator specification. *)
(*                                                                         *)
(* The trace file is NDJSON: the hook events of derive/verif_on.go in the  *)
(* order they were emitted, bracketed per run by two records the harness   *)
(* writes: RunStart (scenario: calls, flags, what the checker should       *)
(* assert) and RunEnd (exit status and go/types observations of the        *)
(* resulting package).  Many runs are concatenated in one file.            *)
(*                                                                         *)
(* One action per event type.  Every event is consumed (l' = l + 1); an    *)
(* event the specification does not allow is RECORDED in bad (line,        *)
(* run id, reason) instead of stopping TLC, so that one TLC run judges     *)
(* thousands of traces.  The verdict is the exported bad set.              *)
(***************************************************************************)
EXTENDS Names, FileOps, Json, IOUtils, SequencesExt

Trace == ndJsonDeserialize(IOEnv.VERIF_TRACE)
N == Len(Trace)

VARIABLES
  l,         \* next line to consume
  run,       \* the RunStart record of the current run
  tabs,      \* prefix -> table (reset by PkgStart: newPackage builds fresh tables)
  reserved,  \* names the user calls that are defined outside derived.gen.go
  plugins,   \* set of [name, prefix]
  flags,     \* [autoname, dedup]
  stack,     \* open SetFuncName / GetFuncName frames (goderive is sequential)
  genf,      \* the open Generate(plugin, key) frame
  cur,       \* the call being registered
  lastAdd,   \* result of the last Add
  files,     \* [renamed, rewritten] sets of files
  pass,      \* [errSeen, exitErr, content, undefined, ended, printed, deleted]
  imports,   \* alias -> import path of the file being generated (printer.go)
  bad        \* sequence of [l, run, why]

vars == <<l, run, tabs, reserved, plugins, flags, stack, genf, cur, lastAdd, files, pass, imports, bad>>

NoRun  == [id |-> "none", ident |-> FALSE, calls |-> <<>>, assertExit |-> FALSE, autoname |-> FALSE, dedup |-> FALSE,
           mustSucceed |-> FALSE, wellTyped |-> FALSE]
NoGen  == [active |-> FALSE, prefix |-> "", key |-> <<>>]
NoCur  == [name |-> "", key |-> <<>>, file |-> "", undef |-> FALSE]
NoPass == [errSeen |-> FALSE, exitErr |-> FALSE, content |-> FALSE, undefined |-> <<>>,
           ended |-> FALSE, printed |-> FALSE, deleted |-> FALSE, pkgs |-> 0]
NoFiles == [renamed |-> {}, rewritten |-> {}, log |-> {}]


Init ==
  /\ l = 1 /\ run = NoRun /\ tabs = <<>> /\ reserved = {} /\ plugins = {}
  /\ flags = [autoname |-> FALSE, dedup |-> FALSE]
  /\ stack = <<>> /\ genf = NoGen /\ cur = NoCur /\ lastAdd = [res |-> "", err |-> ""]
  /\ files = NoFiles /\ pass = NoPass /\ imports = <<>> /\ bad = <<>>

Ev == Trace[l]
IsEvent(e) == l <= N /\ Ev.ev = e /\ l' = l + 1

\* record the names of the checks that failed for this line
Fail(whys) == bad' = bad \o SetToSeq({[l |-> l, run |-> run.id, why |-> w] : w \in whys})
Checks(pairs) == {p[1] : p \in {q \in pairs : ~q[2]}}   \* pairs: set of <<name, holds>>

Tab(prefix) == IF prefix \in DOMAIN tabs THEN tabs[prefix] ELSE EmptyTab
SetTab(prefix, t) == tabs' = [p \in DOMAIN tabs \cup {prefix} |-> IF p = prefix THEN t ELSE tabs[p]]

Top == stack[Len(stack)]
Pop == SubSeq(stack, 1, Len(stack) - 1)

-----------------------------------------------------------------------------
RunStart ==
  /\ IsEvent("RunStart")
  /\ run' = Ev
  /\ tabs' = <<>> /\ reserved' = {} /\ plugins' = {}
  /\ flags' = [autoname |-> Ev.autoname, dedup |-> Ev.dedup]
  /\ stack' = <<>> /\ genf' = NoGen /\ cur' = NoCur /\ lastAdd' = [res |-> "", err |-> ""]
  /\ files' = NoFiles /\ pass' = NoPass /\ imports' = <<>>
  /\ UNCHANGED bad

PkgStart ==
  /\ IsEvent("PkgStart")
  /\ tabs' = [p \in {Ev.plugins[i].prefix : i \in DOMAIN Ev.plugins} |-> EmptyTab]
  /\ reserved' = ToSet(Ev.reserved)
  /\ plugins' = ToSet(Ev.plugins)
  /\ flags' = [autoname |-> Ev.autoname, dedup |-> Ev.dedup]
  /\ stack' = <<>> /\ genf' = NoGen /\ cur' = NoCur
  /\ pass' = [pass EXCEPT !.ended = FALSE, !.printed = FALSE, !.deleted = FALSE]
  /\ Fail(Checks({
       <<"PkgStart: flags differ from the command line", Ev.autoname = run.autoname /\ Ev.dedup = run.dedup>>,
       <<"PkgStart: previous pass left open frames", stack = <<>> /\ ~genf.active>>,
       <<"PkgStart: reserved names are not the union of the files' funcNames",
           ToSet(Ev.reserved) = UNION {ToSet(Ev.files[i].funcNames) : i \in DOMAIN Ev.files}>> }))
  /\ imports' = <<>>      \* newPackage creates a fresh printer
  /\ UNCHANGED <<run, lastAdd, files>>

Call ==
  /\ IsEvent("Call")
  /\ cur' = [name |-> Ev.name, key |-> Ev.key, file |-> Ev.file, undef |-> Ev.undef]
  /\ Fail(Checks({
       <<"Call: registration frames still open", stack = <<>> >>,
       <<"Call: a call whose argument type is not (yet) valid was registered instead of deferred (C09)",
           (\E i \in DOMAIN Ev.key : ContainsStr(Ev.key[i], "invalid type") \/ Ev.key[i] = "<nil>") => Ev.undef>> }))
  /\ UNCHANGED <<run, tabs, reserved, plugins, flags, stack, genf, lastAdd, files, pass, imports>>

Dispatch ==
  /\ IsEvent("Dispatch")
  /\ Fail(Checks({
       <<"Dispatch: not the call being registered", Ev.name = cur.name /\ Ev.key = cur.key>>,
       <<"Dispatch: call with untyped arguments was registered", ~cur.undef>>,
       <<"Dispatch: plugin is not the longest-prefix match (C12)",
           [name |-> Ev.plugin, prefix |-> Ev.prefix] \in LongestMatch(plugins, Ev.name)>> }))
  /\ UNCHANGED <<run, tabs, reserved, plugins, flags, stack, genf, cur, lastAdd, files, pass, imports>>

NoPlugin ==
  /\ IsEvent("NoPlugin")
  /\ lastAdd' = [res |-> "", err |-> ""]
  /\ Fail(Checks({ <<"NoPlugin: a plugin prefix matches the call", Candidates(plugins, Ev.name) = {}>> }))
  /\ UNCHANGED <<run, tabs, reserved, plugins, flags, stack, genf, cur, files, pass, imports>>

\* binding of the logged lookup results to the specification's table
LookupOK(tab, key, matches) ==
  /\ ExactMatches(tab, key) \subseteq ToSet(matches)
  /\ ToSet(matches) \subseteq Names(tab)
  /\ run.ident => ToSet(matches) = ExactMatches(tab, key)

SetFuncName ==
  /\ IsEvent("SetFuncName")
  /\ LET tab == Tab(Ev.prefix) IN
     /\ stack' = Append(stack, [op |-> "set", prefix |-> Ev.prefix, n |-> Ev.name, k |-> Ev.key,
                                M |-> ToSet(Ev.matches), pre |-> tab, auto |-> FALSE])
     /\ Fail(Checks({
          <<"SetFuncName: unknown prefix", Ev.prefix \in DOMAIN tabs>>,
          <<"SetFuncName: table binding (name lookup) differs from the specification state",
              (Ev.had.ok <=> Ev.name \in Names(tab)) /\ (Ev.name \in Names(tab) => tab.f2t[Ev.name] = Ev.had.key)>>,
          <<"SetFuncName: table binding (type lookup) differs from the specification state",
              LookupOK(tab, Ev.key, Ev.matches)>>,
          <<"SetFuncName: reserved set changed", ToSet(Ev.reserved) = reserved>>,
          <<"SetFuncName: flags changed", Ev.autoname = flags.autoname /\ Ev.dedup = flags.dedup>> }))
  /\ UNCHANGED <<run, tabs, reserved, plugins, flags, genf, cur, lastAdd, files, pass, imports>>

SetOK(f, res, err) ==
  IF run.ident
  THEN SetResultIdent(f.pre, reserved, flags.autoname, flags.dedup, f.n, f.k, res, err)
  ELSE SetResult(f.pre, reserved, flags.autoname, flags.dedup, f.n, f.k, f.M, res, err)

SetFuncNameRet ==
  /\ IsEvent("SetFuncNameRet")
  /\ IF stack # <<>> /\ Top.op = "set" /\ Top.prefix = Ev.prefix /\ ~Top.auto
     THEN LET f == Top IN
          /\ stack' = Pop
          /\ SetTab(f.prefix, AfterSet(Tab(f.prefix), f.k, Ev.res, Ev.err))
          /\ Fail(Checks({ <<"SetFuncNameRet: result not allowed by the conflict/duplicate rules (C11): branch " \o Ev.branch,
                              SetOK(f, Ev.res, Ev.err)>> }))
     ELSE /\ Fail({"SetFuncNameRet: no matching open SetFuncName"})
          /\ UNCHANGED <<stack, tabs>>
  /\ UNCHANGED <<run, reserved, plugins, flags, genf, cur, lastAdd, files, pass, imports>>

SetFuncNameAuto ==
  /\ IsEvent("SetFuncNameAuto")
  /\ IF stack # <<>> /\ Top.op = "set" /\ Top.prefix = Ev.prefix /\ Top.n = Ev.name /\ Top.k = Ev.key
     THEN /\ stack' = [stack EXCEPT ![Len(stack)].auto = TRUE]
          /\ Fail(Checks({ <<"SetFuncNameAuto: renaming although -autoname is off", flags.autoname>> }))
     ELSE /\ Fail({"SetFuncNameAuto: no matching open SetFuncName"})
          /\ UNCHANGED stack
  /\ UNCHANGED <<run, tabs, reserved, plugins, flags, genf, cur, lastAdd, files, pass, imports>>

GetFuncName ==
  /\ IsEvent("GetFuncName")
  /\ LET tab == Tab(Ev.prefix) IN
     /\ stack' = Append(stack, [op |-> "get", prefix |-> Ev.prefix, k |-> Ev.key, found |-> Ev.found,
                                name |-> Ev.name, fresh |-> ""])
     /\ Fail(Checks({
          <<"GetFuncName: unknown prefix", Ev.prefix \in DOMAIN tabs>>,
          <<"GetFuncName: table binding differs from the specification state", LookupOK(tab, Ev.key, Ev.matches)>>,
          <<"GetFuncName: lookup result is not one of the matching names",
              (Ev.found <=> Ev.matches # <<>>) /\ (Ev.found => Ev.name \in ToSet(Ev.matches))>> }))
  /\ UNCHANGED <<run, tabs, reserved, plugins, flags, genf, cur, lastAdd, files, pass, imports>>

NewName ==
  /\ IsEvent("NewName")
  /\ IF stack # <<>> /\ Top.op = "get" /\ Top.prefix = Ev.prefix /\ Top.k = Ev.key /\ ~Top.found
     THEN /\ stack' = [stack EXCEPT ![Len(stack)].fresh = Ev.res]
          /\ Fail(Checks({
               <<"NewName: minted name is already bound, reserved by the user, or lacks the plugin prefix",
                   FreshOK(Tab(Ev.prefix), reserved, Ev.prefix, Ev.res)>>,
               <<"NewName: reserved set changed", ToSet(Ev.reserved) = reserved>> }))
     ELSE /\ Fail({"NewName: no open GetFuncName that needs a name"})
          /\ UNCHANGED stack
  /\ UNCHANGED <<run, tabs, reserved, plugins, flags, genf, cur, lastAdd, files, pass, imports>>

GetFuncNameRet ==
  /\ IsEvent("GetFuncNameRet")
  /\ IF stack # <<>> /\ Top.op = "get" /\ Top.prefix = Ev.prefix /\ Top.k = Ev.key
     THEN LET g == Top
              tab == Tab(Ev.prefix)
              rest == Pop
              outer == rest # <<>> /\ rest[Len(rest)].op = "set" /\ rest[Len(rest)].auto
                       /\ rest[Len(rest)].prefix = Ev.prefix
          IN
          /\ stack' = IF outer THEN SubSeq(rest, 1, Len(rest) - 1) ELSE rest
          /\ Fail(Checks({
               <<"GetFuncNameRet: returned name is neither the one found nor the one minted",
                   Ev.res = (IF g.found THEN g.name ELSE g.fresh)>>,
               <<"GetFuncNameRet: returned name is not bound to a function for these types",
                   Ev.res \in Names(tab) /\ (run.ident => tab.f2t[Ev.res] = Ev.key)>>,
               <<"GetFuncNameRet: -autoname result not allowed by the conflict rule (C11)",
                   outer => SetOK(rest[Len(rest)], Ev.res, NoErr)>> }))
     ELSE /\ Fail({"GetFuncNameRet: no matching open GetFuncName"})
          /\ UNCHANGED stack
  /\ UNCHANGED <<run, tabs, reserved, plugins, flags, genf, cur, lastAdd, files, pass, imports>>

AddRet ==
  /\ IsEvent("AddRet")
  /\ lastAdd' = [res |-> Ev.res, err |-> Ev.err]
  /\ pass' = IF Ev.err # "" THEN [pass EXCEPT !.errSeen = TRUE] ELSE pass
  /\ LET pfx == {p.prefix : p \in {q \in plugins : q.name = Ev.plugin}}
         tabOK == \E p \in pfx : Ev.res \in Names(Tab(p)) /\ (run.ident => Tab(p).f2t[Ev.res] = cur.key)
     IN Fail(Checks({
          <<"AddRet: registration frames left open", stack = <<>> >>,
          <<"AddRet: call site bound to a name that is not registered for its argument types (C11)",
              (Ev.err = "" /\ Ev.res # "") => tabOK>>,
          <<"AddRet: call renamed although neither -autoname nor -dedup is given",
              (Ev.err = "" /\ Ev.res # "" /\ Ev.res # Ev.name) => (flags.autoname \/ flags.dedup)>> }))
  /\ UNCHANGED <<run, tabs, reserved, plugins, flags, stack, genf, cur, files, imports>>

Rename ==
  /\ IsEvent("Rename")
  /\ files' = [files EXCEPT !.renamed = @ \cup {Ev.file},
                             !.log = @ \cup {[file |-> Ev.file, from |-> Ev.from, to |-> Ev.to, offset |-> Ev.offset]}]
  /\ Fail(Checks({
       <<"Rename: not the call being registered", Ev.from = cur.name /\ Ev.file = cur.file>>,
       <<"Rename: new name is not the registration result", Ev.to = lastAdd.res /\ Ev.to # Ev.from>> }))
  /\ UNCHANGED <<run, tabs, reserved, plugins, flags, stack, genf, cur, lastAdd, pass, imports>>

Rewrite ==
  /\ IsEvent("Rewrite")
  /\ files' = [files EXCEPT !.rewritten = @ \cup {Ev.file}]
  /\ Fail(Checks({ <<"Rewrite: user file rewritten without a renamed call in it (C10)", Ev.file \in files.renamed>> }))
  /\ UNCHANGED <<run, tabs, reserved, plugins, flags, stack, genf, cur, lastAdd, pass, imports>>

Pending(tab, key) == \E n \in Names(tab) : tab.f2t[n] = key /\ n \notin tab.gen
Emitted(tab, key) == \E n \in Names(tab) : tab.f2t[n] = key /\ n \in tab.gen

GenStart ==
  /\ IsEvent("GenStart")
  /\ genf' = [active |-> TRUE, prefix |-> Ev.prefix, key |-> Ev.key]
  /\ Fail(Checks({
       <<"GenStart: previous Generate still open", ~genf.active /\ stack = <<>> >>,
       <<"GenStart: key is not a registered, not yet generated entry of the work list",
           Pending(Tab(Ev.prefix), Ev.key)>> }))
  /\ UNCHANGED <<run, tabs, reserved, plugins, flags, stack, cur, lastAdd, files, pass, imports>>

Generating ==
  /\ IsEvent("Generating")
  /\ LET tab == Tab(Ev.prefix) IN
     /\ SetTab(Ev.prefix, [tab EXCEPT !.gen = @ \cup {Ev.name}])
     /\ Fail(Checks({
          <<"Generating: outside Generate", genf.active>>,
          <<"Generating: name is not bound in the table", Ev.name \in Names(tab) /\ LookupOK(tab, Ev.key, Ev.matches)>>,
          <<"Generating: function emitted twice", ~Ev.already /\ Ev.name \notin tab.gen>> }))
  /\ UNCHANGED <<run, reserved, plugins, flags, stack, genf, cur, lastAdd, files, pass, imports>>

GenEnd ==
  /\ IsEvent("GenEnd")
  /\ genf' = NoGen
  /\ pass' = IF Ev.err # "" THEN [pass EXCEPT !.errSeen = TRUE] ELSE pass
  /\ Fail(Checks({
       <<"GenEnd: does not close the open Generate", genf.active /\ genf.prefix = Ev.prefix /\ genf.key = Ev.key>>,
       <<"GenEnd: helper lookup frames left open", stack = <<>> >>,
       <<"GenEnd: Generate succeeded without marking its function as generated (work list would never drain)",
           Ev.err = "" => Emitted(Tab(Ev.prefix), Ev.key)>> }))
  /\ UNCHANGED <<run, tabs, reserved, plugins, flags, stack, cur, lastAdd, files, imports>>

AllDone == \A p \in DOMAIN tabs : tabs[p].gen = Names(tabs[p])

PassEnd ==
  /\ IsEvent("PassEnd")
  /\ pass' = [pass EXCEPT !.content = Ev.content, !.undefined = Ev.undefined, !.ended = TRUE]
  /\ Fail(Checks({
       <<"PassEnd: a registered function was never generated (helper requested but not emitted)", AllDone>>,
       <<"PassEnd: frames left open", stack = <<>> /\ ~genf.active>>,
       <<"PassEnd: tables lost the bijection name <-> argument types",
           \A p \in DOMAIN tabs : TabBijection(tabs[p]) /\ OrderMatches(tabs[p])>>,
       <<"PassEnd: content flag disagrees with what was generated",
           (\E p \in DOMAIN tabs : tabs[p].gen # {}) => Ev.content>> }))
  /\ UNCHANGED <<run, tabs, reserved, plugins, flags, stack, genf, cur, lastAdd, files, imports>>

PrintFile ==
  /\ IsEvent("Print")
  /\ pass' = [pass EXCEPT !.printed = TRUE]
  /\ Fail(Checks({ <<"Print: without generated content or before the pass ended", pass.ended /\ pass.content>> }))
  /\ UNCHANGED <<run, tabs, reserved, plugins, flags, stack, genf, cur, lastAdd, files, imports>>

DeleteFile ==
  /\ IsEvent("Delete")
  /\ pass' = [pass EXCEPT !.deleted = TRUE]
  /\ Fail(Checks({ <<"Delete: although content was generated", pass.ended /\ ~pass.content>> }))
  /\ UNCHANGED <<run, tabs, reserved, plugins, flags, stack, genf, cur, lastAdd, files, imports>>

Reload ==
  /\ IsEvent("Reload")
  /\ Fail(Checks({
       <<"Reload: nothing was left undefined", pass.undefined # <<>> >>,
       <<"Reload: output neither written nor removed before reloading", pass.printed \/ pass.deleted>> }))
  /\ UNCHANGED <<run, tabs, reserved, plugins, flags, stack, genf, cur, lastAdd, files, pass, imports>>

PkgExit ==
  /\ IsEvent("PkgExit")
  /\ pass' = [pass EXCEPT !.exitErr = (@ \/ Ev.err # ""), !.errSeen = FALSE, !.pkgs = @ + 1]
  /\ Fail(Checks({
       <<"PkgExit: an Add/Generate error was swallowed (C09)", pass.errSeen => Ev.err # "">>,
       <<"PkgExit: success without writing or removing derived.gen.go",
           Ev.err = "" => (pass.printed \/ pass.deleted)>> }))
  /\ UNCHANGED <<run, tabs, reserved, plugins, flags, stack, genf, cur, lastAdd, files, imports>>

\* RunEnd is written by the harness: exit status plus go/types observations.
PostOK(post) ==
  {<<"RunEnd: package with derived.gen.go does not type-check after a successful run with -autoname/-dedup (C11)",
       (run.autoname \/ run.dedup \/ run.ident) => post.typechecks>>,
   <<"RunEnd: a call site invokes a function whose parameters are not exactly its argument types (C11)",
       \A i \in DOMAIN post.sites : post.sites[i].arg = post.sites[i].param>>,
   <<"RunEnd: the functions in derived.gen.go are not exactly the registered and generated names, each once (C01)",
       run.mustSucceed => /\ {post.funcs[i].name : i \in DOMAIN post.funcs} = UNION {tabs[p].gen : p \in DOMAIN tabs}
                          /\ \A i, j \in DOMAIN post.funcs : post.funcs[i].name = post.funcs[j].name => i = j>>,
   <<"RunEnd: a generated function took a name the user calls elsewhere (C11)",
       \A i \in DOMAIN post.funcs : post.funcs[i].name \notin ToSet(post.reserved)>>,
   <<"RunEnd: after -dedup a plugin has two functions for one argument type list (C11)",
       flags.dedup => \A i, j \in DOMAIN post.funcs :
          (post.funcs[i].plugin = post.funcs[j].plugin /\ post.funcs[i].param = post.funcs[j].param /\ post.funcs[i].top /\ post.funcs[j].top) => i = j>>}

RunEnd ==
  /\ IsEvent("RunEnd")
  /\ LET expect == ExpectedExit(run.calls, run.autoname, run.dedup) IN
     Fail(Checks({
        <<"RunEnd: goderive crashed or hung (C09)", ~Ev.timedout /\ ~Ev.panicked>>,
        <<"RunEnd: goderive fails on a package whose derive calls are all inside the supported grammar (C01)",
            run.mustSucceed => Ev.exit = 0>>,
        <<"RunEnd: package with derived.gen.go does not type-check although every call is supported (C01)",
            (run.mustSucceed /\ Ev.exit = 0 /\ Ev.post.present) => Ev.post.typechecks>>,
        <<"RunEnd: a derive call resolves to no generated function (C01)",
            (run.mustSucceed /\ Ev.exit = 0 /\ Ev.post.present) => Ev.post.unresolved = <<>> >>,
        <<"RunEnd: exit 0 but derived.gen.go does not parse or type-check (C09)",
            (run.wellTyped /\ ~run.mustSucceed /\ Ev.exit = 0 /\ Ev.post.present) => Ev.post.typechecks>>,
        <<"RunEnd: exit 0 but derived.gen.go is not a syntactically valid Go file (C09)",
            (~run.wellTyped /\ Ev.exit = 0 /\ Ev.post.present) => Ev.post.derivedParses>>,
        <<"RunEnd: non-zero exit without a diagnostic (C09)", Ev.exit # 0 => Ev.diagnostic>>,
        <<"RunEnd: a generator error did not reach the exit status (C09)", pass.exitErr => Ev.exit # 0>>,
        <<"RunEnd: exit status contradicts the conflict/duplicate rules (C11): expected " \o expect,
            (run.assertExit /\ expect # "any") => ((Ev.exit = 0) <=> (expect = "ok"))>>,
        <<"RunEnd: user file rewritten that the trace does not account for (C10)",
            ToSet(Ev.changedFiles) \subseteq files.rewritten>>,
        <<"RunEnd: files rewritten without -autoname/-dedup (C10)",
            (~run.autoname /\ ~run.dedup) => Ev.changedFiles = <<>> >> })
        \cup (IF Ev.exit = 0 /\ Ev.post.present THEN Checks(PostOK(Ev.post)) ELSE {}))
  /\ UNCHANGED <<run, tabs, reserved, plugins, flags, stack, genf, cur, lastAdd, files, pass, imports>>

\* FileObs is written by the harness for every user file of the package after the run:
\* token texts of gofmt(original) and of the file as it is now, and the renames of the
\* trace mapped (by an independent scan) to token indices.
FileObs ==
  /\ IsEvent("FileObs")
  /\ LET rens == ToSet(Ev.rens)
         logged == {[from |-> r.from, to |-> r.to, offset |-> r.offset] : r \in {x \in files.log : x.file = Ev.file}}
     IN Fail(Checks({
          <<"FileObs: user file changed although the run renamed no call in it (C10)",
              Ev.changed => Ev.file \in files.rewritten>>,
          <<"FileObs: user file changed without -autoname/-dedup (C10)",
              Ev.changed => (run.autoname \/ run.dedup)>>,
          <<"FileObs: renames seen by the independent scan differ from the renames of the trace",
              {[from |-> r.from, to |-> r.to, offset |-> r.offset] : r \in rens} = logged>>,
          <<"FileObs: rewritten file is not its original with just the renamed call identifiers substituted (C10)",
              (Ev.changed /\ Ev.single) => IntactTexts(Ev.before, Ev.after, rens)>>,
          <<"FileObs: rewritten file is not a complete well-formed Go file (C10)", Ev.changed => Ev.parses>>,
          <<"FileObs: rewritten file is not exactly the gofmt formatting of the substituted original (C10)",
              (Ev.changed /\ Ev.single) => Ev.exact>> }))
  /\ UNCHANGED <<run, tabs, reserved, plugins, flags, stack, genf, cur, lastAdd, files, pass, imports>>

\* PrefixObs is written by the harness (C12): the run used customised prefixes; its output and the
\* output of the default run on the default-named twin package were canonicalised (every generated
\* function named plugin(parameter types), bodies hashed over their tokens).
PrefixObs ==
  /\ IsEvent("PrefixObs")
  /\ Fail(Checks({
       <<"PrefixObs: renamed run and default run disagree on success (C12)", Ev.exitR = Ev.exitD>>,
       <<"PrefixObs: generated functions differ from the default run beyond renaming (C12)",
           (Ev.exitR = 0 /\ Ev.exitD = 0) => ToSet(Ev.canonR) = ToSet(Ev.canonD)>>,
       <<"PrefixObs: output for a global -prefix is not textually the default output with the prefix substituted (C12)",
           (Ev.exitR = 0 /\ Ev.exitD = 0 /\ Ev.globalOnly) => Ev.textual>>,
       <<"PrefixObs: a call was not handled by the plugin the specification's longest-prefix rule selects (C12)",
           \A i \in DOMAIN Ev.handled : Ev.handled[i].got = Ev.handled[i].want>> }))
  /\ UNCHANGED <<run, tabs, reserved, plugins, flags, stack, genf, cur, lastAdd, files, pass, imports>>

\* RegenObs is written by the harness (C07): this run started from a derived.gen.go left by an
\* earlier version of the sources (or a truncated remnant); a second run of the same sources in a
\* fresh copy without derived.gen.go gives the scratch result.
RegenObs ==
  /\ IsEvent("RegenObs")
  /\ Fail(Checks({
       <<"RegenObs: run over the old derived.gen.go fails although the run from scratch succeeds (C07)",
           Ev.exitS = 0 => Ev.exitR = 0>>,
       <<"RegenObs: derived.gen.go differs from the one generated from scratch (C07)",
           (Ev.exitS = 0 /\ Ev.exitR = 0) => (Ev.existsR = Ev.existsS /\ Ev.shaR = Ev.shaS)>>,
       <<"RegenObs: package does not type-check after one regeneration run (C07)",
           (Ev.exitS = 0 /\ Ev.exitR = 0 /\ Ev.scratchTypechecks) => Ev.typechecksR>>,
       <<"RegenObs: derived.gen.go not removed although no derive calls remain (C07)",
           (Ev.exitR = 0 /\ ~Ev.callsRemain) => ~Ev.existsR>> }))
  /\ UNCHANGED <<run, tabs, reserved, plugins, flags, stack, genf, cur, lastAdd, files, pass, imports>>

\* DetObs / CtxObs are written by the harness (C08): the same sources and flags were run n times
\* (DetObs), or once per way of addressing / grouping the package on the command line (CtxObs);
\* outcomes are the distinct (exit status, sha256 of derived.gen.go) pairs observed.
DetObs ==
  /\ IsEvent("DetObs")
  /\ Fail(Checks({
       <<"DetObs: repeated runs on the same sources and flags disagree (C08)", Len(Ev.outcomes) = 1>> }))
  /\ UNCHANGED <<run, tabs, reserved, plugins, flags, stack, genf, cur, lastAdd, files, pass, imports>>

CtxObs ==
  /\ IsEvent("CtxObs")
  /\ Fail(Checks({
       <<"CtxObs: output depends on how the package is addressed or which other packages are named (C08)",
           Len(Ev.outcomes) = 1>> }))
  /\ UNCHANGED <<run, tabs, reserved, plugins, flags, stack, genf, cur, lastAdd, files, pass, imports>>

\* printer.NewImport: the alias under which generated code refers to a package.  The first
\* package to use a name keeps it; a second package with the same name gets its whole import
\* path, made an identifier, as alias.  Never two paths under one alias (C01: the file imports
\* exactly what it uses and same-named packages do not collide).
ImportEv ==
  /\ IsEvent("Import")
  /\ Fail(Checks({
       <<"Import: logged alias table differs from the specification state",
           Ev.had = (IF Ev.name \in DOMAIN imports THEN imports[Ev.name] ELSE "")>> }))
  /\ UNCHANGED <<run, tabs, reserved, plugins, flags, stack, genf, cur, lastAdd, files, pass, imports>>

ImportRet ==
  /\ IsEvent("ImportRet")
  /\ imports' = (Ev.alias :> Ev.path) @@ imports
  /\ Fail(Checks({
       <<"ImportRet: alias already stands for another import path (C01)",
           Ev.alias \in DOMAIN imports => imports[Ev.alias] = Ev.path>>,
       <<"ImportRet: the same path is imported under two aliases (C01)",
           \A a \in DOMAIN imports : imports[a] = Ev.path => a = Ev.alias>> }))
  /\ UNCHANGED <<run, tabs, reserved, plugins, flags, stack, genf, cur, lastAdd, files, pass>>

Next ==
  \/ RunStart \/ PkgStart \/ Call \/ Dispatch \/ NoPlugin
  \/ SetFuncName \/ SetFuncNameRet \/ SetFuncNameAuto \/ GetFuncName \/ NewName \/ GetFuncNameRet
  \/ AddRet \/ Rename \/ Rewrite \/ GenStart \/ Generating \/ GenEnd
  \/ PassEnd \/ PrintFile \/ DeleteFile \/ Reload \/ PkgExit \/ RunEnd \/ FileObs \/ PrefixObs \/ RegenObs \/ DetObs \/ CtxObs \/ ImportEv \/ ImportRet

Spec == Init /\ [][Next]_vars

\* export the verdict when the whole trace has been consumed
Export ==
  l = N + 1 => ndJsonSerialize(IOEnv.VERIF_OUT, bad)

\* all lines consumed: the trace specification never got stuck
TraceAccepted == TLCGet("stats").diameter - 1 = N
=============================================================================
