------------------------------- MODULE FileOps -------------------------------
(***************************************************************************)
(* Abstract layer of C10: constant operators over token sequences, shared  *)
(* by the design model (UserFiles.tla) and by the validation of what the   *)
(* real generator did to real files (GoderiveTrace.tla, FileObs events).   *)
(***************************************************************************)
EXTENDS Naturals, Sequences, FiniteSets, TLC

\* ---------- abstract layer: constant operators over token sequences ----------
\* renames: function from token index -> new text
Subst(toks, renames) ==
  [i \in DOMAIN toks |-> IF i \in DOMAIN renames THEN [toks[i] EXCEPT !.t = renames[i]] ELSE toks[i]]

Texts(toks) == [i \in DOMAIN toks |-> toks[i].t]

\* what C10 demands of one file, given the renames the run performed in it
Intact(orig, now, renames) == Texts(now) = Texts(Subst(orig, renames))

RECURSIVE SumLen(_)
SumLen(toks) == IF toks = <<>> THEN 0 ELSE Len(Head(toks).t) + SumLen(Tail(toks))


\* the same demand on plain text sequences, renames given as a set of [i, from, to]
SubstTexts(before, rens) ==
  [i \in DOMAIN before |-> IF \E r \in rens : r.i = i THEN (CHOOSE r \in rens : r.i = i).to ELSE before[i]]
IntactTexts(before, after, rens) ==
  /\ \A r \in rens : r.i \in DOMAIN before /\ before[r.i] = r.from
  /\ after = SubstTexts(before, rens)
=============================================================================
