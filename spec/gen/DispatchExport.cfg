SPECIFICATION MCSpec
CONSTANTS
  Default <- DefaultC
  Pool <- PoolC
  Sfxs <- SfxsC
INVARIANTS LongestWins Unique Export
CHECK_DEADLOCK FALSE
