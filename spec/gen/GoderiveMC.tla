----------------------------- MODULE GoderiveMC -----------------------------
(***************************************************************************)
(* Bounded instance of Goderive.tla: every package of up to MaxCalls       *)
(* derive calls over 2 plugins x 3 name suffixes x 3 pairwise              *)
(* non-assignable argument type lists x 2 files x 4 flag combinations x    *)
(* reserved user functions named like the helper names newName mints.      *)
(* Scenarios are enumerated up to renaming of keys (first-occurrence       *)
(* order).  Every terminal state is exported as one scenario for the       *)
(* conformance run against the real generator.                             *)
(***************************************************************************)
EXTENDS Goderive, Json, CSV, IOUtils

CONSTANTS MaxCalls, TwoPlugins

PrefixC == IF TwoPlugins THEN [equal |-> "deriveEqual", compare |-> "deriveCompare"]
                         ELSE [equal |-> "deriveEqual"]
Sfx  == {"", "_", "A"}
KeyC == <<"K1", "K2", "K3">>
NoDeps == [x \in (DOMAIN PrefixC) \X {KeyC[j] : j \in 1..3} |-> {}]

CallKinds == [p : DOMAIN PrefixC, n : {"x"}, k : {KeyC[j] : j \in 1..3}, f : {1, 2}]

\* canonical: keys appear in first-occurrence order, files are non-decreasing
KeyIdx(k) == CHOOSE j \in 1..3 : KeyC[j] = k
Canonical(cs) ==
  /\ \A j \in DOMAIN cs : KeyIdx(cs[j].k) <= 1 + Cardinality({cs[j2].k : j2 \in 1..(j - 1)})
  /\ \A j \in 1..(Len(cs) - 1) : cs[j].f <= cs[j + 1].f

CallSet == {[p |-> p, n |-> PrefixC[p] \o s, k |-> k, f |-> f] :
               p \in DOMAIN PrefixC, s \in Sfx, k \in {KeyC[j] : j \in 1..3}, f \in {1, 2}}

Scenarios == UNION {{cs \in [1..len -> CallSet] : Canonical(cs)} : len \in 0..MaxCalls}

\* reserved: user-defined functions (also called by the user) named like minted names
ResvChoices == {{}, {"deriveEqual_"}, {"deriveEqual", "deriveEqual_1"}}

MCInit ==
  /\ calls \in Scenarios
  /\ resv \in ResvChoices
  /\ \A j \in DOMAIN calls : calls[j].n \notin resv
  /\ autoname \in BOOLEAN /\ dedup \in BOOLEAN
  /\ RunInit

MCSpec == MCInit /\ [][Next]_vars /\ WF_vars(Next)

\* export: one JSON line per terminal state
Export ==
  pc = "done" =>
    CSVWrite("%1$s", <<ToJson([calls |-> calls, resv |-> resv, autoname |-> autoname, dedup |-> dedup,
                               exit |-> exit, errkind |-> errkind, bound |-> bound,
                               expect |-> ExpectedExit(calls, autoname, dedup),
                               names |-> [p \in DOMAIN PrefixC |-> Names(tab[p])]])>>,
             IOEnv.VERIF_OUT)
=============================================================================
