SPECIFICATION Spec
CONSTANTS
  StopRule = "text"
INVARIANTS TypeOK C07Chain Terminates Export
CHECK_DEADLOCK FALSE
