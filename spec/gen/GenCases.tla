------------------------------ MODULE GenCases ------------------------------
(***************************************************************************)
(* The universe of packages for C01 (successful generation yields a        *)
(* complete, type-correct package) and C09 (every run ends cleanly).       *)
(*                                                                         *)
(* A type is a term over the property's grammar: basic and named basic     *)
(* types, pointers, slices, arrays, maps with value keys, and              *)
(* named / embedded / recursive / imported structs (also two imported      *)
(* packages with the same name, and unexported fields).  TypesUpTo(d) is   *)
(* every term of constructor depth <= d.  A case is a type, a plugin with  *)
(* the argument shape that plugin takes, and a call-site form.             *)
(*                                                                         *)
(* Supported(plugin, T) is the PROPERTY's grammar (C01: must succeed and   *)
(* type-check).  Bad(T) puts one unsupported constituent (chan, func,      *)
(* interface, unsafe.Pointer) at a position of T (C09: must end cleanly:   *)
(* success with a well-typed file, or a diagnostic).                       *)
(***************************************************************************)
EXTENDS Naturals, Sequences, FiniteSets, TLC, Json, CSV, IOUtils

CONSTANTS Depth, WithBad

B(n) == [k |-> "basic", n |-> n]
Leaf(n) == [k |-> "leaf", n |-> n]      \* a type declared in the fixture: see harness (fixture.go)
Ptr(e) == [k |-> "ptr", e |-> e]
Slice(e) == [k |-> "slice", e |-> e]
Array(e) == [k |-> "array", e |-> e]
Map(key, e) == [k |-> "map", key |-> key, e |-> e]
Wrap(e) == [k |-> "wrap", e |-> e]      \* a named struct declared for the case: struct { F e; G int }
Named(e) == [k |-> "named", e |-> e]    \* a named non-struct type declared for the case: type N e

Basics == {B("int"), B("string"), B("bool"), B("float64"), B("uint8"), B("complex128")}
\* fixture leaves: named basics, a local struct with an unexported field, a struct imported from
\* m/ext with unexported fields, a struct from m/other/ext (same package name), a recursive struct,
\* a struct with embedded fields
FixLeaves == {Leaf("MyInt"), Leaf("MyString"), Leaf("SL"), Leaf("ext.SE"), Leaf("ext2.SE2"), Leaf("Rec"), Leaf("Emb"),
              Leaf("time.Duration"), Leaf("time.Time"),
              Leaf("Both"),
              \* type aliases (go/types materialises them as their own node since Go 1.23): of a local struct,
              \* of a basic type, of an imported struct with unexported fields
              Leaf("AliasSL"), Leaf("AliasInt"), Leaf("AliasExt")}   \* local struct with fields from BOTH packages called ext: the generated file must alias one of them   \* a named basic and a struct (unexported fields, own Equal/Compare methods) from the standard library
Leaves == Basics \cup FixLeaves

\* value keys of maps
KeyTypes == {B("int"), B("string"), Leaf("MyString"), Array(B("int")), Leaf("KeyStruct")}

Unsupported == {[k |-> "bad", n |-> "chan int"], [k |-> "bad", n |-> "func() int"],
                [k |-> "bad", n |-> "interface{}"], [k |-> "bad", n |-> "unsafe.Pointer"]}

RECURSIVE TypesUpTo(_)
TypesUpTo(d) ==
  IF d = 0 THEN Leaves
  ELSE LET S == TypesUpTo(d - 1) IN
       S \cup {Ptr(t) : t \in S} \cup {Slice(t) : t \in S} \cup {Array(t) : t \in S}
         \cup {Wrap(t) : t \in S} \cup {Named(t) : t \in {x \in S : x.k \notin {"leaf", "named", "wrap"}}}
         \cup {Map(key, t) : key \in KeyTypes, t \in S}

\* the same, with exactly one unsupported constituent somewhere
RECURSIVE BadUpTo(_)
BadUpTo(d) ==
  IF d = 0 THEN Unsupported
  ELSE LET S == BadUpTo(d - 1) IN
       S \cup {Ptr(t) : t \in S} \cup {Slice(t) : t \in S} \cup {Array(t) : t \in S}
         \cup {Wrap(t) : t \in S} \cup {Map(key, t) : key \in {B("string")}, t \in S}

RECURSIVE HasBad(_)
HasBad(t) == CASE t.k = "bad" -> TRUE
               [] t.k \in {"ptr", "slice", "array", "wrap", "named"} -> HasBad(t.e)
               [] t.k = "map" -> HasBad(t.key) \/ HasBad(t.e)
               [] OTHER -> FALSE

\* Go comparability (==), needed by the plugins that build a map keyed by the element
RECURSIVE Comparable(_)
Comparable(t) ==
  CASE t.k = "basic" -> TRUE
    [] t.k = "leaf" -> t.n \in {"MyInt", "MyString", "SL", "KeyStruct", "time.Duration", "time.Time", "AliasSL", "AliasInt"}
    [] t.k = "ptr" -> TRUE
    [] t.k \in {"slice", "map"} -> FALSE
    [] t.k \in {"array", "wrap", "named"} -> Comparable(t.e)
    [] t.k = "bad" -> t.n # "func() int"      \* channels, interfaces and unsafe.Pointer are comparable in Go
    [] OTHER -> FALSE

\* an imported struct with unexported fields somewhere inside: GoString cannot rebuild it outside its package
RECURSIVE HasExtPrivate(_)
HasExtPrivate(t) ==
  CASE t.k = "leaf" -> t.n \in {"ext.SE", "ext2.SE2", "time.Time", "Both", "AliasExt"}
    [] t.k \in {"ptr", "slice", "array", "wrap", "named"} -> HasExtPrivate(t.e)
    [] t.k = "map" -> HasExtPrivate(t.key) \/ HasExtPrivate(t.e)
    [] OTHER -> FALSE

\* bool and complex (also behind a type name) have no natural <
Unordered(t) == t \in {B("bool"), B("complex128"), Named(B("bool")), Named(B("complex128"))}

\* plugins and the argument shape each takes for a subject type T
PluginsG == {"equal", "compare", "hash", "deepcopy", "clone", "gostring",
             "sort", "keys", "min", "max", "contains", "unique", "set", "union", "intersect"}
ScalarPlugins == {"equal", "compare", "hash", "deepcopy", "clone", "gostring"}

\* Is generating plugin for subject T inside the property's grammar?
Supported(p, t) ==
  /\ ~HasBad(t)
  /\ CASE p = "gostring" -> ~HasExtPrivate(t)    \* C06: types with exported fields
       [] p \in ScalarPlugins -> TRUE
       [] p \in {"sort", "min", "max"} -> TRUE   \* over []T; types without < (bool, complex) go through derived Compare            \* over []T, ordered by < or derived Compare
       [] p \in {"contains", "unique", "union", "intersect"} -> TRUE                       \* over []T
       [] p = "set" -> Comparable(t)                                                         \* []T -> map[T]struct{}
       [] p = "keys" -> t \in KeyTypes                                                       \* map[T]int
       [] OTHER -> FALSE

\* where the derive call stands: a plain function body, a package-level variable initialiser, a
\* closure, nested inside another derive call, a _test file, the one-argument curried form, and
\* positions the AST walk must still reach: an argument of a builtin, of an ordinary function,
\* an element of a composite literal, a method body, a goroutine, a conversion's operand
Forms == {"body", "pkgvar", "closure", "nested", "testfile", "curried",
          "builtinarg", "funcarg", "composite", "method", "goroutine", "deferred",
          \* one form per branch of find.go's Visit for the CALL that encloses the derive call: callee is a
          \* predeclared type (conversion, no source position), a declared type, a qualified identifier, a function literal
          "convarg", "namedconv", "selectorarg", "litcall"}
HasResult(p) == p # "deepcopy"
FormOK(p, f) == CASE f = "curried" -> p \in {"equal", "compare"}
                  [] f = "nested" -> p \in {"equal", "compare", "hash", "sort", "keys", "contains", "unique", "min", "max"}
                  [] f \in {"builtinarg", "funcarg", "composite", "namedconv", "selectorarg", "litcall"} -> HasResult(p)
                  [] f = "convarg" -> p \in {"equal", "compare", "hash", "gostring", "contains"}   \* result is bool/int/uint64/string
                  [] OTHER -> TRUE

VARIABLES case, done
vars == <<case, done>>

Universe == IF WithBad THEN BadUpTo(Depth) ELSE TypesUpTo(Depth)

Init == /\ case \in [t : Universe, p : PluginsG, f : Forms]
        /\ FormOK(case.p, case.f)
        /\ (case.p = "keys" => (case.t \in KeyTypes \/ WithBad))
        /\ (case.p = "set" /\ ~WithBad => Comparable(case.t))
        /\ (~WithBad => Supported(case.p, case.t))
        /\ ((WithBad /\ case.p \in {"keys", "set"}) => Comparable(case.t))   \* otherwise the USER's map type is already invalid
        /\ done = FALSE
Emit == /\ ~done /\ done' = TRUE /\ UNCHANGED case
Spec == Init /\ [][Emit]_vars

\* every exported positive case is inside the grammar; every negative one carries exactly one bad constituent
WellFormed == IF WithBad THEN HasBad(case.t) ELSE Supported(case.p, case.t)

Export == done => CSVWrite("%1$s", <<ToJson([t |-> case.t, p |-> case.p, f |-> case.f])>>, IOEnv.VERIF_OUT)
=============================================================================
