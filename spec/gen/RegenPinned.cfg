SPECIFICATION Spec
CONSTANTS
  MaxEdits = 2
  FixedOrder = FALSE
INVARIANTS TypeOK FileRemoved
CHECK_DEADLOCK FALSE
