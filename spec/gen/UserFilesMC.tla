---------------------------- MODULE UserFilesMC ----------------------------
EXTENDS UserFiles
Tok(s, c) == [t |-> s, call |-> c]
OrigC == [a |-> <<Tok("func", FALSE), Tok("dEqual", TRUE), Tok("(x)", FALSE), Tok("dEqual", TRUE), Tok("// tail", FALSE)>>,
          b |-> <<Tok("var", FALSE), Tok("dEqual", TRUE), Tok("// end", FALSE)>>]
=============================================================================
