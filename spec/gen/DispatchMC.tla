----------------------------- MODULE DispatchMC -----------------------------
EXTENDS Dispatch
DefaultC == [equal |-> "deriveEqual", compare |-> "deriveCompare", deepcopy |-> "deriveDeepCopy"]
PoolC == {"d", "dA", "dAB", "dB", "deriveEqualA", "deriveCompare"}
SfxsC == {"", "A", "B", "AB"}
\* registration order does not influence FirstMatch in the model (it sorts); one order suffices for the export
RegFixed == reg = <<"compare", "deepcopy", "equal">>
MCInit == Init /\ RegFixed
MCSpec == MCInit /\ [][Next]_vars
=============================================================================
