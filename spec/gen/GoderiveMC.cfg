SPECIFICATION MCSpec
CONSTANTS
  MaxCalls = 3
  TwoPlugins = TRUE
  Prefix <- PrefixC
  Deps <- NoDeps
INVARIANTS TablesOK ExitOK Sound Export
PROPERTY Terminates
CHECK_DEADLOCK FALSE
