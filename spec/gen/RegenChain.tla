----------------------------- MODULE RegenChain -----------------------------
(***************************************************************************)
(* C07 for chains of nested derive calls.                                  *)
(*                                                                         *)
(* A call whose argument is another derive call can only be typed once the *)
(* inner function is declared in derived.gen.go; goderive therefore works  *)
(* in passes (generate what can be typed, write the file, reload, repeat)  *)
(* and stops when nothing is left or a pass makes no progress.  How many   *)
(* passes a run needs depends on what the OLD file already declares; what  *)
(* it finally writes must not.                                             *)
(*                                                                         *)
(* A version of the sources is one call expression: a chain of plugins     *)
(* applied to a base value,                                                *)
(*     <<"keys","sort","equal">>  =  deriveEqual(deriveSort(deriveKeys(m)), ys) *)
(* All levels work on []string, so no signature in an old file is ever     *)
(* stale in this family (that defect is Regen.tla's StaleNest).            *)
(*                                                                         *)
(* Run is the implementation-shaped pass loop; StopRule selects when the   *)
(* loop gives up: "text" (pinned code: the list of calls still undefined   *)
(* is the same as after the previous pass) or "count" (there are not fewer *)
(* of them), a plausible simplification that TLC refutes here.             *)
(***************************************************************************)
EXTENDS Naturals, Sequences, FiniteSets, TLC, Json, CSV, IOUtils

CONSTANT StopRule

Levels == <<"keys", "sort", "equal">>
Versions == {<<"keys">>, <<"sort">>, <<"equal">>, <<"keys", "sort">>, <<"keys", "equal">>,
             <<"sort", "equal">>, <<"keys", "sort", "equal">>}

ToSetC(s) == {s[i] : i \in DOMAIN s}
\* what a run from scratch generates: one function per level of the chain
Scratch(v) == ToSetC(v)

\* level i of v can be typed when its argument is the base value or a call whose function the file declares
Typeable(v, declared) == {i \in DOMAIN v : i = 1 \/ v[i - 1] \in declared}

VARIABLES v1, v2, disk, pass, prevUndef, status
vars == <<v1, v2, disk, pass, prevUndef, status>>

Init == /\ v1 \in Versions /\ v2 \in Versions /\ v1 # v2
        /\ disk = Scratch(v1)              \* derived.gen.go after the run on the old sources
        /\ pass = 0
        /\ prevUndef = <<"none">>
        /\ status = "running"

Undef(v, declared) == SelectSeq(v, LAMBDA p : \E i \in DOMAIN v : v[i] = p /\ i \notin Typeable(v, declared))

\* one pass: register what can be typed, generate it, write the file (functions no call needs are dropped)
Pass ==
  /\ status = "running"
  /\ LET t == Typeable(v2, disk)
         u == Undef(v2, disk)
         stuck == IF StopRule = "text" THEN u = prevUndef
                  ELSE prevUndef # <<"none">> /\ Len(u) >= Len(prevUndef)
     IN
     /\ pass' = pass + 1
     /\ IF u = <<>> THEN /\ disk' = {v2[i] : i \in t}
                         /\ status' = "done"
                         /\ UNCHANGED prevUndef
        ELSE IF stuck THEN /\ status' = "gaveup"        \* the real code then exits 0 if something was generated, else "cannot generate"
                           /\ UNCHANGED <<disk, prevUndef>>
        ELSE /\ disk' = {v2[i] : i \in t}
             /\ prevUndef' = u
             /\ status' = "running"
  /\ UNCHANGED <<v1, v2>>

Next == Pass
Spec == Init /\ [][Next]_vars

TypeOK == pass \in 0..8 /\ disk \subseteq ToSetC(Levels)
\* C07 on the model: the run ends (within |chain|+1 passes) with exactly what a run from scratch writes
C07Chain == status # "running" => (status = "done" /\ disk = Scratch(v2))
Terminates == pass <= 5

Export ==
  status # "running" =>
    CSVWrite("%1$s", <<ToJson([v1 |-> v1, v2 |-> v2, passes |-> pass, ok |-> status = "done" /\ disk = Scratch(v2)])>>, IOEnv.VERIF_OUT)
=============================================================================
