------------------------------ MODULE UserFiles ------------------------------
(***************************************************************************)
(* C10: what a goderive run may do to the user's source files.             *)
(*                                                                         *)
(* A file is a sequence of tokens [t |-> text, call |-> BOOLEAN]; its      *)
(* bytes on disk are modelled by the token texts' total length, which is   *)
(* what matters for a rewrite that does not truncate.  A run renames some  *)
(* call identifiers (newPackage: call.Expr.Fun = ast.NewIdent(name)) and   *)
(* rewrites exactly the files in which it renamed something.               *)
(*                                                                         *)
(*   Rename(f, i, to)   one call identifier of file f gets a new name      *)
(*   Rewrite(f)         the file is written back: format.Node on the       *)
(*                      opened file.  Truncate = TRUE models O_TRUNC;      *)
(*                      FALSE models the overlay write of the pinned code  *)
(*                      (old tail bytes survive when the new text is       *)
(*                      shorter).                                          *)
(*                                                                         *)
(* The property (abstract layer, used to judge real observations too):     *)
(*   Intact(orig, now, renames) == now = Subst(orig, renames)              *)
(* and a file without renames is untouched.                                *)
(***************************************************************************)
EXTENDS FileOps

\* ---------- implementation-shaped model ----------
CONSTANTS Truncate,      \* BOOLEAN: does the rewrite truncate the file?
          Orig           \* file name -> token sequence

VARIABLES disk,          \* file name -> [toks, junk]: junk = stale bytes after the written text
          ast,           \* file name -> token sequence being mutated in memory
          renamed,       \* file name -> function index -> new text
          pc

vars == <<disk, ast, renamed, pc>>

Files == DOMAIN Orig
NewNames == {"d", "dEqual", "dEqualLonger"}   \* shorter, equal, longer than "dEqual"

Init ==
  /\ disk = [f \in Files |-> [toks |-> Orig[f], junk |-> 0]]
  /\ ast = Orig
  /\ renamed = [f \in Files |-> <<>>]
  /\ pc = "add"

Rename(f, i, to) ==
  /\ pc = "add"
  /\ ast[f][i].call /\ i \notin DOMAIN renamed[f] /\ to # ast[f][i].t
  /\ ast' = [ast EXCEPT ![f][i].t = to]
  /\ renamed' = [renamed EXCEPT ![f] = (i :> to) @@ @]
  /\ UNCHANGED <<disk, pc>>

\* newPackage rewrites a file right after registering its calls, iff something changed
Rewrite(f) ==
  /\ pc = "add" /\ DOMAIN renamed[f] # {}
  /\ disk[f].toks # ast[f]
  /\ LET oldLen == SumLen(disk[f].toks) + disk[f].junk
         newLen == SumLen(ast[f])
     IN disk' = [disk EXCEPT ![f] = [toks |-> ast[f],
                                     junk |-> IF Truncate \/ newLen >= oldLen THEN 0 ELSE oldLen - newLen]]
  /\ UNCHANGED <<ast, renamed, pc>>

Done ==
  /\ pc = "add"
  /\ \A f \in Files : DOMAIN renamed[f] # {} => disk[f].toks = ast[f]
  /\ pc' = "done"
  /\ UNCHANGED <<disk, ast, renamed>>

Next == (\E f \in Files, i \in 1..6, to \in NewNames : i \in DOMAIN ast[f] /\ Rename(f, i, to))
        \/ (\E f \in Files : Rewrite(f)) \/ Done

Spec == Init /\ [][Next]_vars

\* C10 on the model
FilesIntact == pc = "done" => \A f \in Files :
   /\ Intact(Orig[f], disk[f].toks, renamed[f])
   /\ disk[f].junk = 0                                  \* nothing left over from the old contents
   /\ (DOMAIN renamed[f] = {} => disk[f] = [toks |-> Orig[f], junk |-> 0])
=============================================================================
