------------------------------- MODULE Names -------------------------------
(***************************************************************************)
(* Abstract (property-level) layer of goderive's per-plugin name table     *)
(* (derive/typesmap.go).  Constant-level operators only, so that the same  *)
(* definitions are used by the bounded design model (Goderive.tla), by the *)
(* case export and by the validation of traces recorded from the real      *)
(* generator (GoderiveTrace.tla).                                          *)
(*                                                                         *)
(* A table is a record                                                     *)
(*   [f2t   |-> function  name -> key        (funcToTyps)                  *)
(*    order |-> sequence of keys              (typss, the work list)       *)
(*    gen   |-> set of names already emitted  (generated)]                 *)
(* A key is a sequence of type strings (the argument type list).           *)
(***************************************************************************)
EXTENDS Naturals, Sequences, FiniteSets, TLC

NoName == ""
NoErr  == ""

EmptyTab == [f2t |-> <<>>, order |-> <<>>, gen |-> {}]

IsPrefixStr(p, s) == Len(p) <= Len(s) /\ SubSeq(s, 1, Len(p)) = p

ContainsStr(s, sub) == \E i \in 1..(Len(s) - Len(sub) + 1) : SubSeq(s, i, i + Len(sub) - 1) = sub

Names(tab) == DOMAIN tab.f2t

\* names bound to exactly this key
ExactMatches(tab, k) == {n \in Names(tab) : tab.f2t[n] = k}

Bind(tab, n, k) ==
  [tab EXCEPT !.f2t = (n :> k) @@ tab.f2t, !.order = Append(tab.order, k)]

(***************************************************************************)
(* The C11 case analysis as a relation between the pre-state, the          *)
(* arguments and the result of one registration SetFuncName(n, k).         *)
(*   M        the set of names whose key the query k is assignable to      *)
(*            (what nameOf may return; Go map order picks one of them)     *)
(*   hadOther n is bound to a key that is not equal to k                   *)
(* A duplicate is "another name for the same argument types", a conflict   *)
(* is "the same name for other argument types".                            *)
(***************************************************************************)
SetResult(tab, reserved, autoname, dedup, n, k, M, res, err) ==
  IF M # {}
  THEN \E m \in M :
         \/ m = n /\ res = n /\ err = NoErr
         \/ m # n /\ dedup  /\ res = m      /\ err = NoErr
         \/ m # n /\ ~dedup /\ res = NoName /\ err = "duplicate"
  ELSE IF n \in Names(tab)
  THEN \/ autoname  /\ err = NoErr /\ res \notin Names(tab) /\ res \notin reserved /\ res # NoName
       \/ ~autoname /\ res = NoName /\ err = "conflict"
       \/ res = n /\ err = NoErr /\ tab.f2t[n] # k  \* one-directional assignability (sameeq): not decided here
  ELSE res = n /\ err = NoErr

\* the deterministic reading used when keys are pairwise non-assignable (C11 universe)
SetResultIdent(tab, reserved, autoname, dedup, n, k, res, err) ==
  LET M == ExactMatches(tab, k) IN
  /\ SetResult(tab, reserved, autoname, dedup, n, k, M, res, err)
  /\ ~(M = {} /\ n \in Names(tab) /\ res = n)

\* effect of a successful registration on the table
AfterSet(tab, k, res, err) ==
  IF err = NoErr /\ res \notin Names(tab) THEN Bind(tab, res, k) ELSE tab

\* a freshly minted helper name
FreshOK(tab, reserved, prefix, res) ==
  /\ res \notin Names(tab)
  /\ res \notin reserved
  /\ IsPrefixStr(prefix, res)

\* invariants of a table
TabBijection(tab) == \A a, b \in Names(tab) : tab.f2t[a] = tab.f2t[b] => a = b
OrderMatches(tab) == {tab.order[i] : i \in DOMAIN tab.order} = {tab.f2t[n] : n \in Names(tab)}
                     /\ Len(tab.order) = Cardinality(Names(tab))
GenRegistered(tab) == tab.gen \subseteq Names(tab)
NotReserved(tab, reserved, userNames) == \A n \in Names(tab) \ userNames : n \notin reserved

(***************************************************************************)
(* Clash predicates of a package (C11), over a sequence of calls           *)
(* [p |-> plugin, n |-> name, k |-> key].                                  *)
(***************************************************************************)
Conflict(calls) == \E i, j \in DOMAIN calls :
   calls[i].p = calls[j].p /\ calls[i].n = calls[j].n /\ calls[i].k # calls[j].k
Duplicate(calls) == \E i, j \in DOMAIN calls :
   calls[i].p = calls[j].p /\ calls[i].n # calls[j].n /\ calls[i].k = calls[j].k

\* What the statement of C11 says about the exit status; "any" where it is silent.
ExpectedExit(calls, autoname, dedup) ==
  LET c == Conflict(calls)  d == Duplicate(calls) IN
  IF ~c /\ ~d THEN "ok"
  ELSE IF ~autoname /\ ~dedup THEN "err"
  ELSE IF autoname /\ dedup THEN "ok"
  ELSE IF autoname /\ ~c THEN "err"     \* only duplicates, -autoname alone
  ELSE IF dedup /\ ~d THEN "err"        \* only conflicts, -dedup alone
  ELSE "any"

\* longest-prefix dispatch (C12): plugins is a set of [name, prefix]
Candidates(plugins, callName) == {p \in plugins : IsPrefixStr(p.prefix, callName)}
LongestMatch(plugins, callName) ==
  {p \in Candidates(plugins, callName) :
      \A q \in Candidates(plugins, callName) : Len(q.prefix) <= Len(p.prefix)}
=============================================================================
