---------------------------- MODULE NameTableInd ----------------------------
(***************************************************************************)
(* Unbounded safety of the name table (C11 core) by an inductive           *)
(* invariant, discharged by Apalache:                                      *)
(*      Init => IndInv              (length 0)                             *)
(*      IndInv /\ Next => IndInv'   (length 1, from IndInit)               *)
(* The table is a set of <<name, key>> pairs (funcToTyps) plus the set of  *)
(* reserved names.  Actions are the outcomes SetResult (Names.tla) allows  *)
(* for keys that are pairwise non-assignable (identity lookup): register a *)
(* new binding, fold a duplicate (-dedup), mint a fresh name for a         *)
(* conflict (-autoname), or fail.  IndInv: the table is a bijection        *)
(* between names and keys, and minted names avoid the reserved ones.       *)
(***************************************************************************)
EXTENDS Integers, FiniteSets

CONSTANTS
  \* @type: Set(Str);
  NamesU,
  \* @type: Set(Str);
  KeysU,
  \* @type: Set(Str);
  UserNames     \* names that appear at call sites (may coincide with table names, never reserved)

VARIABLES
  \* @type: Set(<<Str, Str>>);
  tab,
  \* @type: Set(Str);
  reserved,
  \* @type: Bool;
  autoname,
  \* @type: Bool;
  dedup,
  \* @type: Str;
  lastErr

CInit ==
  /\ NamesU = {"n1", "n2", "n3", "n4", "n5"}
  /\ KeysU = {"k1", "k2", "k3", "k4"}
  /\ UserNames = {"n1", "n2", "n3"}

\* @type: (Set(<<Str, Str>>)) => Set(Str);
NamesOf(t) == {p[1] : p \in t}
\* @type: (Set(<<Str, Str>>)) => Set(Str);
KeysOf(t) == {p[2] : p \in t}

TypeOK ==
  /\ tab \subseteq (NamesU \X KeysU)
  /\ reserved \subseteq NamesU
  /\ autoname \in BOOLEAN /\ dedup \in BOOLEAN
  /\ lastErr \in {"", "duplicate", "conflict"}

\* name <-> key is a bijection on the table
Bij == \A p \in tab : \A q \in tab : (p[1] = q[1] \/ p[2] = q[2]) => p = q

\* a name the user calls elsewhere is never bound, unless the user wrote that very name at a derive call site
ReservedFree == \A p \in tab : p[1] \in reserved => p[1] \in UserNames

IndInv == TypeOK /\ Bij /\ ReservedFree /\ (reserved \cap UserNames = {})

Init ==
  /\ tab = {} /\ lastErr = ""
  /\ reserved \in SUBSET (NamesU \ UserNames)
  /\ autoname \in BOOLEAN /\ dedup \in BOOLEAN

\* SetFuncName(n, k) for a user call site
Register(n, k) ==
  LET byKey == {p \in tab : p[2] = k}
      byName == {p \in tab : p[1] = n}
  IN
  IF byKey # {} THEN
       \/ /\ <<n, k>> \in tab /\ UNCHANGED tab /\ lastErr' = ""                     \* same binding again
       \/ /\ <<n, k>> \notin tab /\ dedup /\ UNCHANGED tab /\ lastErr' = ""         \* folded onto the existing name
       \/ /\ <<n, k>> \notin tab /\ ~dedup /\ UNCHANGED tab /\ lastErr' = "duplicate"
  ELSE IF byName # {} THEN
       \/ /\ autoname /\ lastErr' = ""
          /\ \E fresh \in NamesU : /\ fresh \notin NamesOf(tab) /\ fresh \notin reserved
                                   /\ tab' = tab \cup {<<fresh, k>>}
       \/ /\ ~autoname /\ UNCHANGED tab /\ lastErr' = "conflict"
  ELSE tab' = tab \cup {<<n, k>>} /\ lastErr' = ""

\* GetFuncName(k) for a helper: found, or minted fresh
Helper(k) ==
  /\ lastErr' = ""
  /\ IF \E p \in tab : p[2] = k THEN UNCHANGED tab
     ELSE \E fresh \in NamesU : /\ fresh \notin NamesOf(tab) /\ fresh \notin reserved
                                /\ tab' = tab \cup {<<fresh, k>>}

Next ==
  /\ \/ \E n \in UserNames, k \in KeysU : Register(n, k)
     \/ \E k \in KeysU : Helper(k)
  /\ UNCHANGED <<reserved, autoname, dedup>>

\* an arbitrary state satisfying the invariant (Apalache wants every variable assigned from a set)
IndInit ==
  /\ tab \in SUBSET (NamesU \X KeysU)
  /\ reserved \in SUBSET NamesU
  /\ autoname \in BOOLEAN /\ dedup \in BOOLEAN
  /\ lastErr \in {"", "duplicate", "conflict"}
  /\ IndInv
=============================================================================
