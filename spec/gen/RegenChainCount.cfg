SPECIFICATION Spec
CONSTANTS
  StopRule = "count"
INVARIANTS TypeOK C07Chain
CHECK_DEADLOCK FALSE
