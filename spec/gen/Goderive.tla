------------------------------ MODULE Goderive ------------------------------
(***************************************************************************)
(* Implementation-shaped model of one goderive run over one package        *)
(* (derive/generate.go newPackage + pkg.Generate, derive/typesmap.go).     *)
(* One action per critical section of the code:                            *)
(*   Register    one loop iteration of newPackage: pkg.Add -> SetFuncName  *)
(*               (with nameOf's map-order choice, -dedup, -autoname,       *)
(*               newName) and the call-identifier rename                   *)
(*   Generate    one g.Generate(typs) of the work list, which requests its *)
(*               helpers through GetFuncName (which may extend the list)   *)
(*   Finish      Print or Delete, exit                                     *)
(* TLC checks that every step refines the abstract relations of Names.tla  *)
(* and that the run as a whole has the properties C11 states.              *)
(*                                                                         *)
(* Keys are model values; Eq is key identity (the C11 universe: pairwise   *)
(* non-assignable argument types).  Names are real strings, built exactly  *)
(* as newName builds them for pointer-typed keys: prefix, prefix_,         *)
(* prefix_1, prefix_2 ...                                                  *)
(***************************************************************************)
EXTENDS Names, Integers

CONSTANTS
  Prefix,     \* plugin -> prefix string, e.g. [equal |-> "deriveEqual", hash |-> "deriveHash"]
  Deps        \* <<plugin, key>> -> set of <<plugin, key>> helpers requested while generating

VARIABLES
  calls,      \* scenario: sequence of [p, n, k, f]  (plugin, name, key, file)
  resv,       \* scenario: names the user calls that are defined by the user
  autoname, dedup,
  pc,         \* "add" | "gen" | "done"
  i,          \* next call to register
  tab,        \* plugin -> table
  bound,      \* per call: the name its call site ends up invoking ("" = not yet)
  exit,       \* "run" | "ok" | "err"
  errkind,    \* "" | "duplicate" | "conflict"
  printed     \* "no" | "print" | "delete"

vars == <<calls, resv, autoname, dedup, pc, i, tab, bound, exit, errkind, printed>>
scen == <<calls, resv, autoname, dedup>>

Plugins == DOMAIN Prefix

\* newName for keys whose first type is a pointer (no type-name fragment)
Cand(p, j) == IF j = 0 THEN Prefix[p] ELSE IF j = 1 THEN Prefix[p] \o "_" ELSE Prefix[p] \o "_" \o ToString(j - 1)
RECURSIVE FirstFree(_, _, _)
FirstFree(t, p, j) == IF Cand(p, j) \in Names(t) \/ Cand(p, j) \in resv THEN FirstFree(t, p, j + 1) ELSE Cand(p, j)
NewName(t, p) == FirstFree(t, p, 0)

\* GetFuncName(k): lookup, else mint and register.  Returns <<name, table'>>.
GetFuncName(t, p, k) ==
  LET M == ExactMatches(t, k) IN
  IF M # {} THEN <<CHOOSE n \in M : TRUE, t>>
  ELSE LET n == NewName(t, p) IN <<n, Bind(t, n, k)>>

\* SetFuncName(n, k) as the code does it.  Returns [res, err, t].
SetFuncNameImpl(t, p, n, k) ==
  LET M == ExactMatches(t, k) IN
  IF M # {} THEN
       IF n \in M THEN [res |-> n, err |-> NoErr, t |-> t]
       ELSE IF dedup THEN [res |-> CHOOSE m \in M : TRUE, err |-> NoErr, t |-> t]
       ELSE [res |-> NoName, err |-> "duplicate", t |-> t]
  ELSE IF n \in Names(t) THEN
       IF autoname THEN LET g == GetFuncName(t, p, k) IN [res |-> g[1], err |-> NoErr, t |-> g[2]]
       ELSE [res |-> NoName, err |-> "conflict", t |-> t]
  ELSE [res |-> n, err |-> NoErr, t |-> Bind(t, n, k)]

Register ==
  /\ pc = "add" /\ i <= Len(calls)
  /\ LET c == calls[i]
         r == SetFuncNameImpl(tab[c.p], c.p, c.n, c.k)
     IN
     \* refinement: the implementation step is allowed by the abstract relation
     /\ Assert(SetResultIdent(tab[c.p], resv, autoname, dedup, c.n, c.k, r.res, r.err),
               <<"SetFuncNameImpl does not refine SetResult", c, r>>)
     /\ Assert(r.t = AfterSet(tab[c.p], c.k, r.res, r.err),
               <<"table effect does not refine AfterSet", c, r>>)
     /\ IF r.err # NoErr
        THEN /\ exit' = "err" /\ errkind' = r.err /\ pc' = "done"
             /\ UNCHANGED <<tab, bound, i>>
        ELSE /\ tab' = [tab EXCEPT ![c.p] = r.t]
             /\ bound' = [bound EXCEPT ![i] = r.res]
             /\ i' = i + 1
             /\ pc' = IF i = Len(calls) THEN "gen" ELSE "add"
             /\ UNCHANGED <<exit, errkind>>
  /\ UNCHANGED <<scen, printed>>

\* helpers requested by generating <<p, k>>: each goes through GetFuncName of its plugin
RECURSIVE Request(_, _)
Request(tb, hs) ==
  IF hs = {} THEN tb
  ELSE LET h == CHOOSE x \in hs : TRUE
           g == GetFuncName(tb[h[1]], h[1], h[2])
       IN Request([tb EXCEPT ![h[1]] = g[2]], hs \ {h})

PendingIn(t) == {n \in Names(t) : n \notin t.gen}

Generate ==
  /\ pc = "gen"
  /\ \E p \in Plugins :
       /\ PendingIn(tab[p]) # {}
       /\ LET \* first pending entry in work-list order
              idx == CHOOSE j \in DOMAIN tab[p].order :
                        /\ \E n \in PendingIn(tab[p]) : tab[p].f2t[n] = tab[p].order[j]
                        /\ \A j2 \in 1..(j - 1) : ~\E n \in PendingIn(tab[p]) : tab[p].f2t[n] = tab[p].order[j2]
              k == tab[p].order[idx]
              n == CHOOSE x \in Names(tab[p]) : tab[p].f2t[x] = k
              marked == [tab EXCEPT ![p].gen = @ \cup {n}]
          IN tab' = Request(marked, Deps[<<p, k>>])
  /\ UNCHANGED <<scen, pc, i, bound, exit, errkind, printed>>

Finish ==
  /\ pc = "gen"
  /\ \A p \in Plugins : PendingIn(tab[p]) = {}
  /\ pc' = "done" /\ exit' = "ok"
  /\ printed' = IF \E p \in Plugins : tab[p].gen # {} THEN "print" ELSE "delete"
  /\ UNCHANGED <<scen, i, tab, bound, errkind>>

Next == Register \/ Generate \/ Finish

RunInit ==
  /\ pc = (IF calls = <<>> THEN "gen" ELSE "add") /\ i = 1
  /\ tab = [p \in Plugins |-> EmptyTab]
  /\ bound = [j \in DOMAIN calls |-> ""]
  /\ exit = "run" /\ errkind = "" /\ printed = "no"

-----------------------------------------------------------------------------
(* Properties of the design *)

UserNames == {calls[j].n : j \in DOMAIN calls}

TablesOK == \A p \in Plugins :
   /\ TabBijection(tab[p]) /\ OrderMatches(tab[p]) /\ GenRegistered(tab[p])
   /\ NotReserved(tab[p], resv, UserNames)

\* C11, exit status
ExitOK == exit # "run" =>
   LET e == ExpectedExit(calls, autoname, dedup) IN e # "any" => exit = e

\* C11, soundness of a successful run
Sound == exit = "ok" =>
   /\ \A j \in DOMAIN calls : bound[j] \in Names(tab[calls[j].p]) /\ tab[calls[j].p].f2t[bound[j]] = calls[j].k
   /\ (~autoname /\ ~dedup) => \A j \in DOMAIN calls : bound[j] = calls[j].n
   /\ \A p \in Plugins : tab[p].gen = Names(tab[p])
   /\ \A j \in DOMAIN calls : bound[j] \notin resv

\* every run terminates: the pass has a bounded number of steps
Terminates == <>(pc = "done")
=============================================================================
