SPECIFICATION Spec
CONSTANTS
  Truncate = FALSE
  Orig <- OrigC
INVARIANT FilesIntact
CHECK_DEADLOCK FALSE
