SPECIFICATION Spec
