------------------------------- MODULE Types -------------------------------
(***************************************************************************)
(* Engine S: the abstract TYPE universe of the generated pure functions.   *)
(*                                                                         *)
(* A type is a record whose field k names the constructor:                 *)
(*   [k |-> "basic",  b |-> "int"]                                         *)
(*   [k |-> "named",  n |-> "NI", u |-> T]        named non-struct type    *)
(*   [k |-> "ptr",    e |-> T]                                             *)
(*   [k |-> "slice",  e |-> T]                                             *)
(*   [k |-> "array",  len |-> 2, e |-> T]                                  *)
(*   [k |-> "map",    key |-> K, e |-> T]                                  *)
(*   [k |-> "struct", name |-> "S", pkg |-> "local"|"ext",                 *)
(*                    fields |-> << [name |-> "A", t |-> T, emb |-> B] >>] *)
(*     optional field  meth |-> "vv"|"pv"|"vp"|"pp"|"vi"|"pi": the struct  *)
(*     declares its own Equal / Compare / Hash methods (receiver by value  *)
(*     or pointer x argument by value, pointer or interface{}); the        *)
(*     fixture methods look at the FIRST FIELD ONLY (see MStruct)          *)
(*   [k |-> "self",   name |-> "S"]   the enclosing struct named S         *)
(*                                     (recursion; only under ptr/slice/   *)
(*                                     map value)                          *)
(* A field is exported iff its name starts with an upper-case letter.      *)
(* The Go harness (engs/absty.go) concretises these terms into Go source.  *)
(***************************************************************************)
EXTENDS Integers, Sequences, FiniteSets, TLC, SequencesExt

Basics == <<"bool", "int", "int8", "int64", "uint8", "uint64",
            "float32", "float64", "complex128", "string">>
\* kinds that have a leaf table and are well-formed but are NOT leaves of TypesUpTo (the enumeration
\* other engines share stays as it was); their types are enumerated with the extras (MethTypes)
ExtraBasics == <<"complex64">>
AllBasics == Basics \o ExtraBasics
BasicSet == {AllBasics[i] : i \in DOMAIN AllBasics}

Basic(b)            == [k |-> "basic", b |-> b]
Named(n, u)         == [k |-> "named", n |-> n, u |-> u]
Ptr(e)              == [k |-> "ptr", e |-> e]
Slice(e)            == [k |-> "slice", e |-> e]
Array(e)            == [k |-> "array", len |-> 2, e |-> e]
Map(key, e)         == [k |-> "map", key |-> key, e |-> e]
Field(name, t)      == [name |-> name, t |-> t, emb |-> FALSE]
Embedded(name, t)   == [name |-> name, t |-> t, emb |-> TRUE]
Struct(name, pkg, fields) == [k |-> "struct", name |-> name, pkg |-> pkg, fields |-> fields]
Self(name)          == [k |-> "self", name |-> name]

(* Fixture: a named struct with user-declared methods.  Its Equal / Compare *)
(* / Hash consider the first field K only and ignore V -- deliberately     *)
(* non-structural, so honouring vs ignoring the method is observable.      *)
MethKinds == {"vv", "pv", "vp", "pp", "vi", "pi", "pd"}
(* "pd": pointer receiver, pointer argument, and Compare returns the DIFFERENCE of the keys (negative /    *)
(* zero / positive, not clamped to -1/+1) -- the usual convention of hand-written Compare methods.  Its    *)
(* fixture KDStruct has the single field K int8 (so the method's Equal is structural) and is comparable:   *)
(* it also serves as a map key.                                                                            *)
HasMeth(T) == T.k = "struct" /\ "meth" \in DOMAIN T

TInt    == Basic("int")
TString == Basic("string")

UpperCase == {"A","B","C","D","E","F","G","H","I","J","K","L","M","N","O","P","Q","R","S","T","U","V","W","X","Y","Z"}
Exported(name) == Len(name) > 0 /\ SubSeq(name, 1, 1) \in UpperCase

-----------------------------------------------------------------------------
(* Environments bind struct names to their definitions (for "self").       *)
NoEnv == [n \in {} |-> 0]
Bind(env, T) == [n \in DOMAIN env \cup {T.name} |-> IF n = T.name THEN T ELSE env[n]]

-----------------------------------------------------------------------------
(* Map key kinds of the universe (value keys).                             *)
MStruct(mk) == [k |-> "struct", name |-> "M" \o mk, pkg |-> "local",
                 fields |-> <<Field("K", TInt), Field("V", TInt)>>, meth |-> mk]

KDStruct == [k |-> "struct", name |-> "KD", pkg |-> "local", fields |-> <<Field("K", Basic("int8"))>>, meth |-> "pd"]

KeyStruct == Struct("K", "local", <<Field("A", TInt), Field("B", TString)>>)
NamedString == Named("NS", TString)
KeyTypes == <<TInt, TString, NamedString, Array(TInt), KeyStruct>>
KeyTypeSet == {KeyTypes[i] : i \in DOMAIN KeyTypes}

NamedLeaves == {Named("NI", TInt), NamedString, Named("NF", Basic("float64"))}
Leaves == {Basic(Basics[i]) : i \in DOMAIN Basics} \cup NamedLeaves

-----------------------------------------------------------------------------
(* Structural predicates.                                                  *)
RECURSIVE Depth(_)
Max2(a, b) == IF a >= b THEN a ELSE b
RECURSIVE MaxDepthFields(_, _)
MaxDepthFields(fs, i) == IF i > Len(fs) THEN 0 ELSE Max2(Depth(fs[i].t), MaxDepthFields(fs, i + 1))
Depth(T) ==
  CASE T.k = "basic"  -> 0
    [] T.k = "named"  -> Depth(T.u)
    [] T.k = "self"   -> 0
    [] T.k \in {"ptr", "slice", "array"} -> 1 + Depth(T.e)
    [] T.k = "map"    -> 1 + Max2(Depth(T.key), Depth(T.e))
    [] T.k = "struct" -> 1 + MaxDepthFields(T.fields, 1)

RECURSIVE Size(_)
RECURSIVE SizeFields(_, _)
SizeFields(fs, i) == IF i > Len(fs) THEN 0 ELSE 1 + Size(fs[i].t) + SizeFields(fs, i + 1)
Size(T) ==
  CASE T.k = "basic"  -> 1
    [] T.k = "named"  -> 1 + Size(T.u)
    [] T.k = "self"   -> 1
    [] T.k \in {"ptr", "slice", "array"} -> 1 + Size(T.e)
    [] T.k = "map"    -> 1 + Size(T.key) + Size(T.e)
    [] T.k = "struct" -> 1 + SizeFields(T.fields, 1)

(* All sub-terms (nodes) of a term.                                        *)
RECURSIVE Nodes(_)
Nodes(T) ==
  {T} \cup
  CASE T.k = "named" -> Nodes(T.u)
    [] T.k \in {"ptr", "slice", "array"} -> Nodes(T.e)
    [] T.k = "map" -> Nodes(T.key) \cup Nodes(T.e)
    [] T.k = "struct" -> UNION {Nodes(T.fields[i].t) : i \in DOMAIN T.fields}
    [] OTHER -> {}

Unclamped(T) == \E X \in Nodes(T) : HasMeth(X) /\ X.meth = "pd"
HasSlice(T) == \E X \in Nodes(T) : X.k = "slice"
HasMap(T)   == \E X \in Nodes(T) : X.k = "map"
FloatKinds  == {"float32", "float64", "complex64", "complex128"}
HasFloat(T) == \E X \in Nodes(T) : X.k = "basic" /\ X.b \in FloatKinds
Allocates(T) == \E X \in Nodes(T) : X.k \in {"ptr", "slice", "map"}
(* a container whose elements are themselves allocations: sharing possible *)
HasSharable(T) == \E X \in Nodes(T) : X.k \in {"slice", "array", "map"} /\ Allocates(X.e)

-----------------------------------------------------------------------------
(* Well-formedness: what the harness may feed in (random depth-3 terms are *)
(* produced by the Go side and are admitted only if TLC accepts them).     *)
\* imported key structs whose keys differ only in UNEXPORTED fields (read through reflect + unsafe)
KXStruct  == Struct("KX", "ext", <<Field("a", TInt)>>)
KX2Struct == Struct("KX2", "ext", <<Field("A", Basic("bool")), Field("b", TString)>>)
IsKeyType(T) == T \in KeyTypeSet \cup {Basic("complex128"), Basic("complex64"), KXStruct, KX2Struct, KDStruct, Struct("K2", "local", <<Field("A", KDStruct), Field("B", TString)>>)}

RECURSIVE WF(_, _, _, _)
\* env: set of struct names in scope; under: TRUE iff directly below ptr/slice/map value
\* inext: TRUE iff inside a struct of package ext (no local struct may occur there)
WF(T, names, under, inext) ==
  CASE T.k = "basic"  -> DOMAIN T = {"k", "b"} /\ T.b \in BasicSet
    [] T.k = "named"  -> DOMAIN T = {"k", "n", "u"} /\ T.u.k = "basic" /\ T.u.b \in BasicSet
                         /\ T \in NamedLeaves
    [] T.k = "self"   -> DOMAIN T = {"k", "name"} /\ T.name \in names /\ under
    [] T.k = "ptr"    -> DOMAIN T = {"k", "e"} /\ WF(T.e, names, TRUE, inext)
    [] T.k = "slice"  -> DOMAIN T = {"k", "e"} /\ WF(T.e, names, TRUE, inext)
    [] T.k = "array"  -> DOMAIN T = {"k", "len", "e"} /\ T.len = 2 /\ WF(T.e, names, FALSE, inext)
    [] T.k = "map"    -> DOMAIN T = {"k", "key", "e"} /\ IsKeyType(T.key) /\ WF(T.e, names, TRUE, inext)
                         /\ (inext => T.key \in KeyTypeSet \ {KeyStruct})
    [] T.k = "struct" ->
         /\ \/ DOMAIN T = {"k", "name", "pkg", "fields"}
            \/ /\ DOMAIN T = {"k", "name", "pkg", "fields", "meth"} /\ T.meth \in MethKinds
               /\ T.fields = (IF T.meth = "pd" THEN <<Field("K", Basic("int8"))>> ELSE <<Field("K", TInt), Field("V", TInt)>>)
         /\ T.pkg \in {"local", "ext"} /\ (inext => T.pkg = "ext")
         /\ T.name \notin names /\ Len(T.name) > 0 /\ SubSeq(T.name, 1, 1) \in UpperCase
         /\ Len(T.fields) \in 1..4
         /\ \A i \in DOMAIN T.fields :
              LET f == T.fields[i] IN
              /\ DOMAIN f = {"name", "t", "emb"}
              /\ Len(f.name) > 0
              /\ \A j \in DOMAIN T.fields : j # i => T.fields[j].name # f.name
              /\ WF(f.t, names \cup {T.name}, FALSE, T.pkg = "ext")
              /\ f.emb => ~HasMeth(f.t)       \* embedding would promote the methods to the outer struct
              /\ f.emb => (f.t.k \in {"named", "struct"} /\ f.name = (IF f.t.k = "named" THEN f.t.n ELSE f.t.name))
    [] OTHER -> FALSE

(* all struct definitions with one name inside a term are identical terms  *)
RECURSIVE StructDefs(_)
StructDefs(T) ==
  CASE T.k = "named" -> StructDefs(T.u)
    [] T.k \in {"ptr", "slice", "array"} -> StructDefs(T.e)
    [] T.k = "map" -> StructDefs(T.key) \cup StructDefs(T.e)
    [] T.k = "struct" -> {T} \cup UNION {StructDefs(T.fields[i].t) : i \in DOMAIN T.fields}
    [] OTHER -> {}

NamesUnique(T) == \A a, b \in StructDefs(T) : a.name = b.name => a = b

(* A method-bearing struct is a COMPONENT: at top level (or behind top-     *)
(* level pointers) deriveEqual on pointers to M is what the user method     *)
(* itself calls and is structural by necessity; the statement speaks of     *)
(* components.                                                              *)
RECURSIVE PtrChainToMeth(_)
PtrChainToMeth(T) == HasMeth(T) \/ (T.k = "ptr" /\ PtrChainToMeth(T.e))

WellFormed(T) == WF(T, {}, FALSE, FALSE) /\ NamesUnique(T) /\ ~PtrChainToMeth(T)

-----------------------------------------------------------------------------
(* Enumeration of all type terms of constructor depth <= d.                *)

(* rewrite every struct below T into package ext (an imported struct can   *)
(* only mention imported structs)                                          *)
RECURSIVE ToExt(_)
ToExt(T) ==
  CASE T.k \in {"ptr", "slice", "array"} -> [T EXCEPT !.e = ToExt(T.e)]
    [] T.k = "map" -> [T EXCEPT !.e = ToExt(T.e)]
    [] T.k = "struct" -> [T EXCEPT !.pkg = "ext",
                            !.fields = [i \in DOMAIN T.fields |-> [T.fields[i] EXCEPT !.t = ToExt(T.fields[i].t)]]]
    [] OTHER -> T

ExtOK(T) == ~\E X \in Nodes(T) : X.k = "map" /\ X.key = KeyStruct

(* append a suffix to every struct name below T (two fields of one struct  *)
(* must not define two different structs with one name)                    *)
RECURSIVE Rename(_, _)
Rename(T, sfx) ==
  CASE T.k \in {"ptr", "slice", "array"} -> [T EXCEPT !.e = Rename(T.e, sfx)]
    [] T.k = "map" -> [T EXCEPT !.e = Rename(T.e, sfx)]
    [] T.k = "self" -> [T EXCEPT !.name = T.name \o sfx]
    [] T.k = "struct" -> [T EXCEPT !.name = T.name \o sfx,
                            !.fields = [i \in DOMAIN T.fields |->
                                [T.fields[i] EXCEPT !.t = Rename(T.fields[i].t, sfx),
                                                    !.name = IF T.fields[i].emb /\ T.fields[i].t.k = "struct"
                                                             THEN T.fields[i].name \o sfx ELSE T.fields[i].name]]]
    [] OTHER -> T

SName(d) == "S" \o ToString(d)
SNameOver(t) == SName(Depth(t) + 1)

(* structs over one component type t                                       *)
Structs1(t) ==
  LET nm == SNameOver(t) IN
  {Struct(nm, "local", <<Field("A", t)>>),
   Struct(nm, "local", <<Field("a", t)>>)}
  \cup (IF ExtOK(t) THEN {Struct(nm, "ext", <<Field("A", ToExt(t))>>),
                          Struct(nm, "ext", <<Field("a", ToExt(t))>>)} ELSE {})
  \cup (IF t.k = "named" THEN {Struct(nm, "local", <<Embedded(t.n, t), Field("B", TInt)>>)} ELSE {})
  \cup (IF t.k = "struct" THEN {Struct(nm, "local", <<Embedded(t.name, t), Field("B", TInt)>>)} ELSE {})

(* recursive structs (recursion through ptr / slice / map)                 *)
RecStructs ==
  {Struct("S1", "local", <<Field("A", TInt), Field("Next", Ptr(Self("S1")))>>),
   Struct("S1", "local", <<Field("A", TString), Field("Kids", Slice(Self("S1")))>>),
   Struct("S1", "local", <<Field("A", TInt), Field("M", Map(TString, Self("S1")))>>),
   Struct("S1", "ext",   <<Field("a", TInt), Field("next", Ptr(Self("S1")))>>)}

(* two-field structs, pairwise: the i-th component with its successor      *)
Pairs(S) ==
  LET seq == SetToSeq(S) n == Len(seq) IN
  {LET a == seq[i] b == seq[(i % n) + 1] IN
   Struct(SName(Max2(Depth(a), Depth(b)) + 1), "local", <<Field("A", a), Field("b", Rename(b, "b"))>>) : i \in 1..n}

(* value-keyed maps: int and string keys over every component, the other   *)
(* key kinds over the leaves                                               *)
Maps(S) ==
  {Map(TInt, t) : t \in S} \cup {Map(TString, t) : t \in S}
  \cup {Map(KeyTypes[i], t) : i \in 3..Len(KeyTypes), t \in S \cap Leaves}

ConsOver(S) ==
  {Ptr(t) : t \in S} \cup {Slice(t) : t \in S} \cup {Array(t) : t \in S}
  \cup Maps(S)
  \cup UNION {Structs1(t) : t \in S}

RECURSIVE TypesUpTo(_)
RECURSIVE Layer(_)
Layer(d) == IF d = 0 THEN Leaves ELSE TypesUpTo(d) \ TypesUpTo(d - 1)
TypesUpTo(d) ==
  IF d = 0 THEN Leaves
  ELSE TypesUpTo(d - 1) \cup ConsOver(TypesUpTo(d - 1)) \cup Pairs(Layer(d - 1))
       \cup (IF d = 1 THEN RecStructs ELSE {})

(* Types with a method-bearing component: every one-level context over M   *)
(* and *M for every method kind, plus a second level of unary contexts.     *)
MStructOf(mk) == IF mk = "pd" THEN KDStruct ELSE MStruct(mk)
MethComponents == {MStructOf(mk) : mk \in MethKinds} \cup {Ptr(MStructOf(mk)) : mk \in MethKinds}
\* maps KEYED by the unclamped-Compare fixture (sorted-key walks of Compare and Hash go through the user's method)
KDKeyed ==
  LET k2 == Struct("K2", "local", <<Field("A", KDStruct), Field("B", TString)>>)
      ms == {Map(KDStruct, TInt), Map(KDStruct, TString), Map(KDStruct, Slice(TInt)), Map(k2, TInt)} IN
  ms \cup {Ptr(m) : m \in ms} \cup {Slice(m) : m \in ms} \cup {Struct("S2", "local", <<Field("A", m)>>) : m \in ms}
NoEmbMeth(T) == ~\E X \in Nodes(T) : X.k = "struct" /\ \E i \in DOMAIN X.fields : X.fields[i].emb /\ HasMeth(X.fields[i].t)
KXKeyed ==
  LET ms == {Map(KXStruct, TInt), Map(KXStruct, TString), Map(KX2Struct, TInt), Map(KXStruct, Slice(TInt))} IN
  ms \cup {Ptr(m) : m \in ms} \cup {Slice(m) : m \in ms} \cup {Struct("S2", "local", <<Field("A", m)>>) : m \in ms}
\* imported structs with several unexported fields of different basic types / sizes
ExtMulti ==
  LET B(b) == Basic(b)
      pairs == { <<"int64", "int8">>, <<"int8", "int64">>, <<"float64", "bool">>, <<"string", "int">>, <<"uint64", "uint8">>, <<"int64", "float64">> }
      two == UNION {{Struct("S1", "ext", <<Field("a", B(p[1])), Field("b", B(p[2]))>>),
                     Struct("S1", "ext", <<Field("a", B(p[1])), Field("B", B(p[2]))>>),
                     Struct("S1", "ext", <<Field("A", B(p[1])), Field("b", B(p[2]))>>)} : p \in pairs}
      three == {Struct("S1", "ext", <<Field("Name", TString), Field("serial", B("int64")), Field("level", B("int8"))>>),
                Struct("S1", "ext", <<Field("a", B("float64")), Field("b", B("int8")), Field("c", B("uint8")), Field("d", B("bool"))>>)}
      all == two \cup three IN
  all \cup {Ptr(t) : t \in all} \cup {Slice(t) : t \in three} \cup {Map(TInt, t) : t \in three}
\* complex64: own template branches in compare and hash (Float32bits of the real and the imaginary part)
C64Types == LET c == Basic("complex64") IN
  {c, Ptr(c), Slice(c), Array(c), Map(TInt, c), Struct("S1", "local", <<Field("A", c)>>),
   Struct("S1", "ext", <<Field("a", c)>>), Struct("S1", "local", <<Field("A", TInt), Field("B", c)>>)}
\* maps keyed by a complex kind: keys have no < operator, the sorted-key walks order them by derived compare
CplxKeyed ==
  LET ms == {Map(Basic(b), TInt) : b \in {"complex64", "complex128"}} \cup {Map(Basic("complex128"), TString)} IN
  ms \cup {Struct("S2", "local", <<Field("A", m)>>) : m \in ms} \cup {Slice(m) : m \in ms}
ExtraPlain == KXKeyed \cup ExtMulti \cup C64Types \cup CplxKeyed      \* no user methods; enumerated with the method types (harness: fixed core)

MethLayer1 == {T \in ConsOver(MethComponents) : NoEmbMeth(T) /\ ~PtrChainToMeth(T)}
MethTypes(d) ==
  IF d <= 1 THEN MethLayer1 \cup KDKeyed \cup ExtraPlain
  ELSE MethLayer1 \cup KDKeyed \cup ExtraPlain \cup {Ptr(t) : t \in MethLayer1} \cup {Slice(t) : t \in MethLayer1}
       \cup {Struct(SNameOver(t), "local", <<Field("A", TInt), Field("b", t)>>) : t \in MethLayer1}

(* short, name-free rendering of the type AT a position (failure classes)  *)
RECURSIVE TStr(_)
TStr(T) ==
  CASE T.k = "basic"  -> T.b
    [] T.k = "named"  -> "named(" \o TStr(T.u) \o ")"
    [] T.k = "self"   -> "self"
    [] T.k = "ptr"    -> "*" \o TStr(T.e)
    [] T.k = "slice"  -> "[]" \o TStr(T.e)
    [] T.k = "array"  -> "[2]" \o TStr(T.e)
    [] T.k = "map"    -> "map[" \o TStr(T.key) \o "]" \o TStr(T.e)
    [] T.k = "struct" -> "struct"
=============================================================================
