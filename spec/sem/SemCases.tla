------------------------------ MODULE SemCases ------------------------------
(***************************************************************************)
(* Case export for engine S.  Two uses (selected by environment):          *)
(*  VERIF_ENUM=d, VERIF_OUT=f     : write every term of TypesUpTo(d) to f  *)
(*  VERIF_TYPES=g, VERIF_OUT=f    : g holds lines {"id":..,"t":<type>}     *)
(*      chosen by the harness (a subset of the enumeration, or random      *)
(*      deeper terms); for each, write {"id","t","wf","pool"} where pool   *)
(*      is Pool(t) -- the values the real generated code will be run on    *)
(*      and SemMC model-checks the reference laws on.                      *)
(*  VERIF_LEAVES=h (optional)     : write the leaf token table (rank =     *)
(*      equality class and natural order) for the harness's sanity check   *)
(***************************************************************************)
EXTENDS DeriveSem, Json, IOUtils

VARIABLE done

HasEnv(v) == v \in DOMAIN IOEnv

EnumOut ==
  LET d  == IF IOEnv.VERIF_ENUM = "0" THEN 0 ELSE IF IOEnv.VERIF_ENUM = "1" THEN 1
            ELSE IF IOEnv.VERIF_ENUM = "2" THEN 2 ELSE 3
      ts == SetToSeq(TypesUpTo(d)) IN
  ndJsonSerialize(IOEnv.VERIF_OUT, [i \in DOMAIN ts |-> [t |-> ts[i], depth |-> Depth(ts[i]), size |-> Size(ts[i])]])

CaseOf(r) ==
  IF WellFormed(r.t)
  THEN [k |-> "case", id |-> r.id, t |-> r.t, wf |-> TRUE, pool |-> Pool(r.t)]
  ELSE [k |-> "case", id |-> r.id, t |-> r.t, wf |-> FALSE, pool |-> <<>>]

CasesOut ==
  LET ts == ndJsonDeserialize(IOEnv.VERIF_TYPES) IN
  ndJsonSerialize(IOEnv.VERIF_OUT, [i \in DOMAIN ts |-> CaseOf(ts[i])])

LeavesOut == ndJsonSerialize(IOEnv.VERIF_LEAVES, LeafExport)

ASSUME HasEnv("VERIF_LEAVES") => LeavesOut
\* VERIF_ENUM_METH=d: the types with a method-bearing component (MethTypes(d))
EnumMethOut ==
  LET ts == SetToSeq(MethTypes(IF IOEnv.VERIF_ENUM_METH = "1" THEN 1 ELSE 2)) IN
  ndJsonSerialize(IOEnv.VERIF_OUT, [i \in DOMAIN ts |-> [t |-> ts[i], depth |-> Depth(ts[i]), size |-> Size(ts[i])]])

ASSUME HasEnv("VERIF_ENUM") => EnumOut
ASSUME HasEnv("VERIF_ENUM_METH") => EnumMethOut
ASSUME HasEnv("VERIF_TYPES") => CasesOut

Init == done = TRUE
Next == UNCHANGED done
Spec == Init /\ [][Next]_done
=============================================================================
