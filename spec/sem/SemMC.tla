------------------------------- MODULE SemMC --------------------------------
(***************************************************************************)
(* Model check of engine S's reference semantics on the bounded universe.  *)
(*                                                                         *)
(* Input: VERIF_CASES, the file SemCases exported ({"id","t","pool"} per   *)
(* line) -- literally the types and values the real generated code is run  *)
(* on.  One TLC state per (type, i, j) with i, j indices into the pool;    *)
(* the invariants quantify over the third index k.                         *)
(*                                                                         *)
(* HARD invariants (a violation means the SPEC is wrong -> exit 2):        *)
(*  - the exported pool IS Pool(t); pools are well-formed                  *)
(*  - Eq is an equivalence relation, insensitive to labels, capacity and   *)
(*    map insertion order, and agrees at top level and as a field          *)
(*  - every single mutation is distinguished by Eq                         *)
(*  - (the order / equivalence laws of the implementation-shaped Compare   *)
(*    and Equal are LEADS since the user-method defects were transcribed)  *)
(*  - the implementation-shaped Hash depends only on the value             *)
(*    (Identical => same hash)                                             *)
(* LEADS (implementation-shaped layer vs abstract layer; printed, never a  *)
(* verdict -- the conformance run on real code confirms or refutes them):  *)
(*  - EqImpl # Eq;  Eq but HashImpl differs;  EqImpl but HashImpl differs; *)
(*    CmpImpl = 0 but not Eq;  CmpImpl = 0 differs from EqImpl (found by   *)
(*    TLC on struct{A *[]byte}: bytes.Equal through a pointer in Equal,    *)
(*    nil-first helper in Compare -- confirmed on the real code)           *)
(***************************************************************************)
EXTENDS DeriveSem, Json, IOUtils

Cases == ndJsonDeserialize(IOEnv.VERIF_CASES)
NC == Len(Cases)

VARIABLES ti, i, j, M     \* M: per-type matrices, computed once when the type is entered
vars == <<ti, i, j, M>>

T == Cases[ti].t
P == Cases[ti].pool
N == DOMAIN P
X(a) == P[a].v

NoM == [e |-> <<>>, ei |-> <<>>, c |-> <<>>, h |-> <<>>]
Matrices(t) ==
  LET ty == Cases[t].t pl == Cases[t].pool IN
  [e  |-> [a \in DOMAIN pl |-> [b \in DOMAIN pl |-> Eq(NoEnv, ty, pl[a].v, pl[b].v)]],
   ei |-> [a \in DOMAIN pl |-> [b \in DOMAIN pl |-> EqImpl(NoEnv, ty, pl[a].v, pl[b].v, "top")]],
   c  |-> [a \in DOMAIN pl |-> [b \in DOMAIN pl |-> CmpImpl(NoEnv, ty, pl[a].v, pl[b].v, "top")]],
   h  |-> [a \in DOMAIN pl |-> HashImpl(NoEnv, ty, pl[a].v)]]

(* root -> one state per type -> matrices -> one state per (i, j): the     *)
(* successors of different types are expanded by different workers         *)
Init == ti = 0 /\ i = 0 /\ j = 0 /\ M = NoM
Next ==
  \/ /\ ti = 0
     /\ ti' \in 1..NC /\ i' = 0 /\ j' = 0 /\ M' = NoM
  \/ /\ ti > 0 /\ i = 0 /\ j = 0
     /\ M' = Matrices(ti) /\ i' = 0 /\ j' = 1 /\ UNCHANGED ti
  \/ /\ ti > 0 /\ i = 0 /\ j = 1
     /\ i' \in N /\ j' \in N /\ UNCHANGED <<ti, M>>
Spec == Init /\ [][Next]_vars

Pair  == i >= 1
First == i = 1 /\ j = 1

E(a, b)  == M.e[a][b]
EI(a, b) == M.ei[a][b]
C(a, b)  == M.c[a][b]
H(a)     == M.h[a]

-----------------------------------------------------------------------------
(* shape of a value w.r.t. its type; map keys pairwise distinct            *)
RECURSIVE WFV(_, _, _)
WFV(env, ty, v) ==
  CASE ty.k = "basic"  -> DOMAIN v = {"tok"} /\ v.tok \in Toks(ty.b)
    [] ty.k = "named"  -> WFV(env, ty.u, v)
    [] ty.k = "self"   -> WFV(env, env[ty.name], v)
    [] ty.k = "ptr"    -> IF v.nil THEN DOMAIN v = {"nil"}
                          ELSE DOMAIN v = {"nil", "lbl", "v"} /\ WFV(env, ty.e, v.v)
    [] ty.k = "slice"  -> IF v.nil THEN DOMAIN v = {"nil"}
                          ELSE /\ DOMAIN v = {"nil", "lbl", "cap", "es"} /\ v.cap >= Len(v.es)
                               /\ \A a \in DOMAIN v.es : WFV(env, ty.e, v.es[a])
    [] ty.k = "array"  -> DOMAIN v = {"es"} /\ Len(v.es) = ty.len /\ \A a \in DOMAIN v.es : WFV(env, ty.e, v.es[a])
    [] ty.k = "map"    -> IF v.nil THEN DOMAIN v = {"nil"}
                          ELSE /\ DOMAIN v = {"nil", "lbl", "kv"}
                               /\ \A a \in DOMAIN v.kv : WFV(env, ty.key, v.kv[a].k) /\ WFV(env, ty.e, v.kv[a].v)
                               /\ \A a, b \in DOMAIN v.kv : a # b => ~Eq(env, ty.key, v.kv[a].k, v.kv[b].k)
    [] ty.k = "struct" -> LET e2 == Bind(env, ty) IN
                          /\ DOMAIN v = {"fs"} /\ Len(v.fs) = Len(ty.fields)
                          /\ \A a \in DOMAIN v.fs : WFV(e2, ty.fields[a].t, v.fs[a])

(* all allocations of a value: set of <<label, subtree>>                   *)
RECURSIVE Allocs(_)
Allocs(v) ==
  LET D == DOMAIN v IN
  IF "tok" \in D THEN {}
  ELSE IF "fs" \in D THEN UNION {Allocs(v.fs[a]) : a \in DOMAIN v.fs}
  ELSE IF "nil" \notin D THEN UNION {Allocs(v.es[a]) : a \in DOMAIN v.es}
  ELSE IF v.nil THEN {}
  ELSE IF "v" \in D THEN {<<v.lbl, v>>} \cup Allocs(v.v)
  ELSE IF "es" \in D THEN {<<v.lbl, v>>} \cup UNION {Allocs(v.es[a]) : a \in DOMAIN v.es}
  ELSE {<<v.lbl, v>>} \cup UNION {Allocs(v.kv[a].k) \cup Allocs(v.kv[a].v) : a \in DOMAIN v.kv}

PoolAllocs == UNION {Allocs(X(a)) : a \in N}

PoolOK ==
  First =>
    /\ Cases[ti].wf
    /\ WellFormed(T)
    /\ P = Pool(T)                                          \* the export is the spec's own pool
    /\ \A a \in N : WFV(NoEnv, T, X(a))
    /\ \A p, q \in PoolAllocs : p[1] = q[1] => p[2] = q[2]  \* one label, one allocation
    /\ \A a \in N : P[a].of \in (0..Len(P)) \ {a}
    /\ \A a \in N : P[a].dir # "none" => P[a].of # 0 /\ P[a].kind \in {"leaf", "nil"}

-----------------------------------------------------------------------------
EqEquivalence == Pair =>
  /\ (i = j => E(i, j))
  /\ E(i, j) = E(j, i)
  /\ \A k \in N : (E(i, j) /\ E(j, k)) => E(i, k)

\* labels (pointer identity / sharing), spare capacity, insertion order: irrelevant
EqInsensitive == Pair =>
  /\ (P[j].kind \in {"same", "twin", "ign"} /\ P[j].of = i) => E(i, j)
  /\ E(i, j) = Eq(NoEnv, T, X(i), Relabel(X(j), "z:"))
  /\ (P[j].kind = "same" /\ P[j].of = i /\ P[j].tag # "fzn") => Identical(NoEnv, T, X(i), X(j))

\* every single mutation (and nil+len) is a structural difference
MutationsDiffer == Pair =>
  ((P[j].of = i /\ P[j].kind \in {"leaf", "nil", "len", "key", "nil+len"}) => ~E(i, j))

\* a component compares the same at top level and as a field
TopEqualsField == Pair =>
  LET W == Struct("W", "local", <<Field("A", T)>>) IN
  (~(\E S \in StructDefs(T) : S.name = "W") =>
     E(i, j) = Eq(NoEnv, W, StructV(<<X(i)>>), StructV(<<X(j)>>)))

DiffConsistent == Pair => ((Diff(NoEnv, T, X(i), X(j)) = {}) <=> Identical(NoEnv, T, X(i), X(j)))

-----------------------------------------------------------------------------
CmpImplLaws == Pair =>
  /\ C(i, j) \in {-1, 0, 1}
  /\ C(i, j) = 0 - C(j, i)
  /\ \A k \in N : (C(i, j) <= 0 /\ C(j, k) <= 0) => C(i, k) <= 0
  /\ (P[j].of = i /\ P[j].dir # "none" /\ ~EI(i, j)) => (C(i, j) = DirSign(P[j].dir) /\ C(j, i) = 0 - DirSign(P[j].dir))

EqImplEquivalence == Pair =>
  /\ (i = j => EI(i, j))
  /\ EI(i, j) = EI(j, i)
  /\ \A k \in N : (EI(i, j) /\ EI(j, k)) => EI(i, k)

HashImplFunction == Pair => (Identical(NoEnv, T, X(i), X(j)) => H(i) = H(j))

-----------------------------------------------------------------------------
\* the order / equivalence laws on the implementation-shaped layer itself (a lead when violated:
\* e.g. the unchecked method call through a nil pointer breaks antisymmetry)
ImplLawsHold ==
  \A a, b \in N :
    /\ C(a, b) \in {-1, 0, 1} /\ C(a, b) = 0 - C(b, a)
    /\ (a = b => EI(a, b)) /\ EI(a, b) = EI(b, a)
    /\ \A k \in N : ((C(a, b) <= 0 /\ C(b, k) <= 0) => C(a, k) <= 0) /\ ((EI(a, b) /\ EI(b, k)) => EI(a, k))
    /\ (P[b].of = a /\ P[b].dir # "none" /\ ~EI(a, b)) => (C(a, b) = DirSign(P[b].dir) /\ C(b, a) = 0 - DirSign(P[b].dir))

LeadKinds ==
  (IF \E a, b \in N : EI(a, b) # E(a, b) THEN " EqImpl#Eq" ELSE "") \o
  (IF \E a, b \in N : E(a, b) /\ H(a) # H(b) THEN " Eq-but-HashImpl-differs" ELSE "") \o
  (IF \E a, b \in N : EI(a, b) /\ ~E(a, b) /\ H(a) # H(b) THEN " EqImpl-not-Eq-and-HashImpl-differs" ELSE "") \o
  (IF \E a, b \in N : (C(a, b) = 0) # E(a, b) THEN " CmpImpl0#Eq" ELSE "") \o
  (IF \E a, b \in N : (C(a, b) = 0) # EI(a, b) THEN " CmpImpl0#EqImpl" ELSE "") \o
  (IF ~ImplLawsHold THEN " ImplLaws" ELSE "")

Leads == First => (LeadKinds = "" \/ PrintT("LEAD " \o Cases[ti].id \o LeadKinds))
=============================================================================
