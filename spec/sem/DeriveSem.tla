----------------------------- MODULE DeriveSem ------------------------------
(***************************************************************************)
(* Engine S: REFERENCE SEMANTICS of the generated pure functions.          *)
(*                                                                         *)
(* Abstract (property-level) layer -- verdicts are judged against this:    *)
(*   Eq(env,T,x,y)     structural equality, exactly C02's statement        *)
(*   Identical(..)     Eq plus same token representation (for copies)      *)
(*   Diff(env,T,x,y)   HOW two values differ (failure classes)             *)
(*   order laws over an OBSERVED compare matrix (C03)                      *)
(*   hash laws over an OBSERVED hash vector (C04)                          *)
(* Implementation-shaped layer -- a transcription of today's templates,    *)
(* model-checked against the abstract layer (SemMC), never a verdict:      *)
(*   EqImpl, CmpImpl, HashImpl                                             *)
(***************************************************************************)
EXTENDS Values

-----------------------------------------------------------------------------
(* C02: structurally identical = same nil-ness at every pointer, slice and *)
(* map, same lengths and key sets, equal leaves (all fields, exported or   *)
(* not); labels (pointer identity), capacity and insertion order ignored.  *)
RECURSIVE Eq(_, _, _, _)
Eq(env, T, x, y) ==
  CASE T.k = "basic"  -> Rank(T.b, x.tok) = Rank(T.b, y.tok)
    [] T.k = "named"  -> Eq(env, T.u, x, y)
    [] T.k = "self"   -> Eq(env, env[T.name], x, y)
    [] T.k = "ptr"    -> IF x.nil \/ y.nil THEN x.nil = y.nil ELSE Eq(env, T.e, x.v, y.v)
    [] T.k = "slice"  -> /\ x.nil = y.nil
                         /\ \/ x.nil
                            \/ /\ Len(x.es) = Len(y.es)
                               /\ \A i \in DOMAIN x.es : Eq(env, T.e, x.es[i], y.es[i])
    [] T.k = "array"  -> \A i \in 1..T.len : Eq(env, T.e, x.es[i], y.es[i])
    [] T.k = "map"    -> /\ x.nil = y.nil
                         /\ \/ x.nil
                            \/ /\ Len(x.kv) = Len(y.kv)
                               /\ \A i \in DOMAIN x.kv : \E j \in DOMAIN y.kv :
                                     /\ Eq(env, T.key, x.kv[i].k, y.kv[j].k)
                                     /\ Eq(env, T.e, x.kv[i].v, y.kv[j].v)
    [] T.k = "struct" -> LET e2 == Bind(env, T) IN
                         IF HasMeth(T)          \* the answer at this component is the user's method: first field only
                         THEN Eq(e2, T.fields[1].t, x.fs[1], y.fs[1])
                         ELSE \A i \in DOMAIN T.fields : Eq(e2, T.fields[i].t, x.fs[i], y.fs[i])

(* Identical: Eq and additionally the same leaf representation (+0 is not  *)
(* -0).  For copy / round-trip properties (C05, C06).                      *)
RECURSIVE Identical(_, _, _, _)
Identical(env, T, x, y) ==
  CASE T.k = "basic"  -> x.tok = y.tok
    [] T.k = "named"  -> Identical(env, T.u, x, y)
    [] T.k = "self"   -> Identical(env, env[T.name], x, y)
    [] T.k = "ptr"    -> IF x.nil \/ y.nil THEN x.nil = y.nil ELSE Identical(env, T.e, x.v, y.v)
    [] T.k = "slice"  -> /\ x.nil = y.nil
                         /\ \/ x.nil
                            \/ /\ Len(x.es) = Len(y.es)
                               /\ \A i \in DOMAIN x.es : Identical(env, T.e, x.es[i], y.es[i])
    [] T.k = "array"  -> \A i \in 1..T.len : Identical(env, T.e, x.es[i], y.es[i])
    [] T.k = "map"    -> /\ x.nil = y.nil
                         /\ \/ x.nil
                            \/ /\ Len(x.kv) = Len(y.kv)
                               /\ \A i \in DOMAIN x.kv : \E j \in DOMAIN y.kv :
                                     /\ Identical(env, T.key, x.kv[i].k, y.kv[j].k)
                                     /\ Identical(env, T.e, x.kv[i].v, y.kv[j].v)
    [] T.k = "struct" -> LET e2 == Bind(env, T) IN
                         \A i \in DOMAIN T.fields : Identical(e2, T.fields[i].t, x.fs[i], y.fs[i])

(* Diff: the set of KINDS of elementary differences between two values:    *)
(* "leaf" (leaves of different class), "twin" (same class, other           *)
(* representation: +0 / -0), "nil@ptr", "nil@slice", "nil@map",            *)
(* "len@slice", "len@map", "key@map".  Labels, capacity and insertion      *)
(* order are not differences.  Used to CLASSIFY rejected observations; the *)
(* harness then shrinks the TYPE to a minimal one with the same class.     *)
LenOf(c, f) == IF c.nil THEN 0 ELSE Len(c[f])
RECURSIVE Diff(_, _, _, _)
Diff(env, T, x, y) ==
  CASE T.k = "basic"  -> IF x.tok = y.tok THEN {}
                         ELSE IF Rank(T.b, x.tok) = Rank(T.b, y.tok) THEN {"twin"} ELSE {"leaf"}
    [] T.k = "named"  -> Diff(env, T.u, x, y)
    [] T.k = "self"   -> Diff(env, env[T.name], x, y)
    [] T.k = "ptr"    -> IF x.nil /\ y.nil THEN {}
                         ELSE IF x.nil \/ y.nil THEN {"nil@ptr"}
                         \* behind a pointer the templates take another route to the user's method: own class
                         ELSE IF HasMeth(T.e) THEN {IF d = "ignored-by-method" THEN "ignored-by-method@ptr" ELSE d : d \in Diff(env, T.e, x.v, y.v)}
                         ELSE Diff(env, T.e, x.v, y.v)
    [] T.k = "slice"  ->
         (IF x.nil # y.nil THEN {"nil@slice"} ELSE {}) \cup
         (IF LenOf(x, "es") # LenOf(y, "es") THEN {"len@slice"} ELSE {}) \cup
         (IF x.nil \/ y.nil THEN {}
          ELSE UNION {Diff(env, T.e, x.es[i], y.es[i]) : i \in DOMAIN x.es \cap DOMAIN y.es})
    [] T.k = "array"  -> UNION {Diff(env, T.e, x.es[i], y.es[i]) : i \in 1..T.len}
    [] T.k = "map"    ->
         (IF x.nil # y.nil THEN {"nil@map"} ELSE {}) \cup
         (IF LenOf(x, "kv") # LenOf(y, "kv") THEN {"len@map"} ELSE {}) \cup
         (IF x.nil \/ y.nil THEN {}
          ELSE LET matched == {p \in (DOMAIN x.kv) \X (DOMAIN y.kv) : Eq(env, T.key, x.kv[p[1]].k, y.kv[p[2]].k)} IN
               (IF \/ \E i \in DOMAIN x.kv : ~\E p \in matched : p[1] = i
                   \/ \E j \in DOMAIN y.kv : ~\E p \in matched : p[2] = j
                THEN {"key@map"} ELSE {}) \cup
               UNION {Diff(env, T.key, x.kv[p[1]].k, y.kv[p[2]].k) \cup Diff(env, T.e, x.kv[p[1]].v, y.kv[p[2]].v) : p \in matched})
    [] T.k = "struct" -> LET e2 == Bind(env, T) IN
                         IF HasMeth(T)
                         THEN Diff(e2, T.fields[1].t, x.fs[1], y.fs[1]) \cup
                              (IF \E i \in DOMAIN T.fields : i > 1 /\ ~Identical(e2, T.fields[i].t, x.fs[i], y.fs[i])
                               THEN {"ignored-by-method"} ELSE {})
                         ELSE UNION {Diff(e2, T.fields[i].t, x.fs[i], y.fs[i]) : i \in DOMAIN T.fields}

-----------------------------------------------------------------------------
(* Laws over OBSERVED results.  P is a pool (sequence of entries), eqm /   *)
(* m are matrices indexed [i][j] over DOMAIN P.                            *)

\* C03 -- each operator returns the set of offending index tuples
CmpRangeBad(m, N)   == {<<i, j>> \in N \X N : m[i][j] \notin {-1, 0, 1}}
CmpAntiSymBad(m, N) == {<<i, j>> \in N \X N : i <= j /\ m[i][j] \in {-1, 0, 1} /\ m[j][i] \in {-1, 0, 1} /\ m[i][j] # 0 - m[j][i]}
\* transitivity of <= over all triples (with antisymmetry this is a total preorder whose kernel is "0")
CmpTransBad(m, N)   == {<<i, j, k>> \in N \X N \X N :
                          /\ m[i][j] \in {-1, 0} /\ m[j][k] \in {-1, 0} /\ m[i][k] = 1}
\* result 0 exactly when the observed derived Equal holds
CmpZeroIffBad(m, eqm, N) == {<<i, j>> \in N \X N : m[i][j] \in {-1, 0, 1} /\ eqm[i][j] \in {"T", "F"} /\ ((m[i][j] = 0) # (eqm[i][j] = "T"))}
\* natural direction on single-mutation pairs that derived Equal distinguishes
DirSign(d) == IF d = "lt" THEN -1 ELSE 1
CmpDirBad(m, eqm, P) == {<<P[j].of, j>> : j \in {q \in DOMAIN P : P[q].dir # "none" /\ eqm[P[q].of][q] = "F"
                             /\ \/ m[P[q].of][q] # DirSign(P[q].dir)
                                \/ m[q][P[q].of] # 0 - DirSign(P[q].dir)}}

\* C04
HashRespectsBad(h, rel, N) == {<<i, j>> \in N \X N : i < j /\ rel[i][j] /\ h[i] # h[j]}

-----------------------------------------------------------------------------
(* IMPLEMENTATION-SHAPED LAYER: today's templates, transcribed.            *)
(* pos = "top" (a generated function body: genStatement) or "field"        *)
(* (an expression inside one: field()).  The only place they differ: a     *)
(* []byte in field position is compared by nil-ness && bytes.Equal.        *)
IsBytes(T) == T.k = "slice" /\ T.e.k = "basic" /\ T.e.b = "uint8"

StripMeth(T) == [f \in DOMAIN T \ {"meth"} |-> T[f]]
MethArg(T) == SubSeq(T.meth, 2, 2)      \* "v" | "p" | "i"
MethRecv(T) == SubSeq(T.meth, 1, 1)     \* "v" | "p"

\* canEqual() of plugin/equal: basics, arrays and structs of them are compared with Go's ==
RECURSIVE CanEq(_)
CanEq(T) ==
  CASE T.k = "basic"  -> TRUE
    [] T.k = "named"  -> TRUE
    [] T.k = "array"  -> CanEq(T.e)
    [] T.k = "struct" -> \A i \in DOMAIN T.fields : CanEq(T.fields[i].t)
    [] OTHER -> FALSE
\* Go's == on such a value: leaf by leaf, user methods play no role
RECURSIVE PlainEq(_, _, _)
PlainEq(T, x, y) ==
  CASE T.k = "basic"  -> Rank(T.b, x.tok) = Rank(T.b, y.tok)
    [] T.k = "named"  -> PlainEq(T.u, x, y)
    [] T.k = "array"  -> \A i \in 1..T.len : PlainEq(T.e, x.es[i], y.es[i])
    [] T.k = "struct" -> \A i \in DOMAIN T.fields : PlainEq(T.fields[i].t, x.fs[i], y.fs[i])

\* this.P.Equal(that.P) / this.P.Compare(that.P) is emitted WITHOUT a nil check when the
\* method takes a pointer or interface{}: a value receiver then cannot be nil-safe
NilCallUnsafe(T) == T.k = "ptr" /\ HasMeth(T.e) /\ MethArg(T.e) \in {"p", "i"} /\ MethRecv(T.e) = "v"

RECURSIVE EqImpl(_, _, _, _, _)
EqImpl(env, T, x, y, pos) ==
  CASE T.k = "basic"  -> Rank(T.b, x.tok) = Rank(T.b, y.tok)               \* ==
    [] T.k = "named"  -> EqImpl(env, T.u, x, y, pos)
    [] T.k = "self"   -> EqImpl(env, env[T.name], x, y, pos)
    [] T.k = "ptr"    -> IF pos = "field" /\ NilCallUnsafe(T) /\ x.nil THEN FALSE      \* panics, or (dead load elided) "b == nil -> false"
                         ELSE IF x.nil \/ y.nil THEN x.nil = y.nil
                         ELSE EqImpl(env, T.e, x.v, y.v,
                                     IF pos = "field" /\ T.e.k \notin {"named", "struct", "self"} THEN "field" ELSE "top")
    [] T.k = "slice"  ->
         IF pos = "field" /\ IsBytes(T)
         THEN /\ x.nil = y.nil                                              \* (a == nil) == (b == nil) && bytes.Equal(a, b)
              /\ LenOf(x, "es") = LenOf(y, "es")
              /\ \A i \in 1..LenOf(x, "es") : Rank("uint8", x.es[i].tok) = Rank("uint8", y.es[i].tok)
         ELSE /\ x.nil = y.nil
              /\ \/ x.nil
                 \/ /\ Len(x.es) = Len(y.es)
                    /\ \A i \in DOMAIN x.es : EqImpl(env, T.e, x.es[i], y.es[i], "field")
    [] T.k = "array"  -> IF pos = "field" /\ CanEq(T) THEN PlainEq(T, x, y)              \* this.A == that.A
                         ELSE \A i \in 1..T.len : EqImpl(env, T.e, x.es[i], y.es[i], "field")
    [] T.k = "map"    -> /\ x.nil = y.nil
                         /\ \/ x.nil
                            \/ /\ Len(x.kv) = Len(y.kv)
                               /\ \A i \in DOMAIN x.kv : \E j \in DOMAIN y.kv :      \* thatv, ok := that[k]
                                     /\ Eq(env, T.key, x.kv[i].k, y.kv[j].k)
                                     /\ EqImpl(env, T.e, x.kv[i].v, y.kv[j].v, "field")
    [] T.k = "struct" -> LET e2 == Bind(env, T) IN
                         IF HasMeth(T) THEN EqImpl(e2, T.fields[1].t, x.fs[1], y.fs[1], "field")   \* this.A.Equal(that.A)
                         ELSE IF pos = "field" /\ CanEq(T) THEN PlainEq(T, x, y)                    \* this.A == that.A: nested methods ignored
                         ELSE \A i \in DOMAIN T.fields : EqImpl(e2, T.fields[i].t, x.fs[i], y.fs[i], "field")

Sgn(a, b) == IF a < b THEN -1 ELSE IF a > b THEN 1 ELSE 0

\* first non-zero of a sequence of comparison results
RECURSIVE FirstNZ(_, _)
FirstNZ(cs, i) == IF i > Len(cs) THEN 0 ELSE IF cs[i] # 0 THEN cs[i] ELSE FirstNZ(cs, i + 1)

\* bytes.Compare: lexicographic, nil == empty
RECURSIVE BytesCmp(_, _, _)
BytesCmp(a, b, i) ==
  IF i > Len(a) /\ i > Len(b) THEN 0
  ELSE IF i > Len(a) THEN -1
  ELSE IF i > Len(b) THEN 1
  ELSE LET c == Sgn(Rank("uint8", a[i].tok), Rank("uint8", b[i].tok)) IN
       IF c # 0 THEN c ELSE BytesCmp(a, b, i + 1)
EsOf(v) == IF v.nil THEN <<>> ELSE v.es

RECURSIVE CmpImpl(_, _, _, _, _)
CmpImpl(env, T, x, y, pos) ==
  CASE T.k = "basic"  -> Sgn(Rank(T.b, x.tok), Rank(T.b, y.tok))
    [] T.k = "named"  -> CmpImpl(env, T.u, x, y, pos)
    [] T.k = "self"   -> CmpImpl(env, env[T.name], x, y, pos)
    [] T.k = "ptr"    -> IF pos = "field" /\ NilCallUnsafe(T) /\ x.nil THEN 1           \* panics, or (dead load elided) "b == nil -> 1"
                         ELSE IF x.nil THEN (IF y.nil THEN 0 ELSE -1)
                         ELSE IF y.nil THEN 1
                         \* a value-argument Compare method is not used behind a pointer: structural helper
                         ELSE IF HasMeth(T.e) /\ MethArg(T.e) = "v" THEN CmpImpl(env, StripMeth(T.e), x.v, y.v, "top")
                         ELSE CmpImpl(env, T.e, x.v, y.v, "top")
    [] T.k = "slice"  ->
         IF x.nil THEN (IF y.nil THEN 0 ELSE -1)                                 \* (no bytes.Compare shortcut since 6bf4d66)
         ELSE IF y.nil THEN 1
         ELSE IF Len(x.es) # Len(y.es) THEN Sgn(Len(x.es), Len(y.es))            \* length first
         ELSE FirstNZ([i \in DOMAIN x.es |-> CmpImpl(env, T.e, x.es[i], y.es[i], "field")], 1)
    [] T.k = "array"  -> FirstNZ([i \in 1..T.len |-> CmpImpl(env, T.e, x.es[i], y.es[i], "field")], 1)
    [] T.k = "map"    ->
         IF x.nil THEN (IF y.nil THEN 0 ELSE -1)
         ELSE IF y.nil THEN 1
         ELSE IF Len(x.kv) # Len(y.kv) THEN Sgn(Len(x.kv), Len(y.kv))
         ELSE LET lt(a, b) == CmpImpl(env, T.key, a.k, b.k, "field") < 0
                  xs == SortSeq(x.kv, lt)                                        \* deriveSort(deriveKeys(m))
                  ys == SortSeq(y.kv, lt) IN
              FirstNZ([i \in DOMAIN xs |->
                         IF Eq(env, T.key, xs[i].k, ys[i].k)                     \* thiskey == thatkey
                         THEN CmpImpl(env, T.e, xs[i].v, ys[i].v, "field")
                         ELSE CmpImpl(env, T.key, xs[i].k, ys[i].k, "field")], 1)
    [] T.k = "struct" -> LET e2 == Bind(env, T) IN
         IF HasMeth(T) THEN CmpImpl(e2, T.fields[1].t, x.fs[1], y.fs[1], "field")                 \* this.A.Compare(that.A)
         ELSE FirstNZ([i \in DOMAIN T.fields |-> CmpImpl(e2, T.fields[i].t, x.fs[i], y.fs[i], "field")], 1)

(* Hash: 17/31 accumulation.  TLC integers are 32 bit, so the accumulator  *)
(* lives modulo a prime; leaf "bit patterns" are injective on TOKENS (a    *)
(* twin token such as -0 has its own pattern, as Float64bits has).         *)
HMod == 1000003
Acc(h, c) == (31 * h + c) % HMod
\* since b76a3fe floats are hashed as Float64bits(x + 0): a twin (-0) has the pattern of its canonical token
CanonIdx(b, tok) == IF LeafTab[b][TokIdx[b][tok]].twin
                    THEN CHOOSE i \in DOMAIN LeafTab[b] : ~LeafTab[b][i].twin /\ LeafTab[b][i].rank = Rank(b, tok)
                    ELSE TokIdx[b][tok]
LeafBits(b, tok) == IF b = "bool" THEN (IF tok = "true" THEN 1 ELSE 0)
                    ELSE IF b \in FloatKinds THEN 100 + CanonIdx(b, tok)
                    ELSE 100 + TokIdx[b][tok]

RECURSIVE FoldAcc(_, _, _)
FoldAcc(h, cs, i) == IF i > Len(cs) THEN h ELSE FoldAcc(Acc(h, cs[i]), cs, i + 1)

RECURSIVE HashImpl(_, _, _)
HashImpl(env, T, x) ==
  CASE T.k = "basic"  -> LeafBits(T.b, x.tok)
    [] T.k = "named"  -> HashImpl(env, T.u, x)
    [] T.k = "self"   -> HashImpl(env, env[T.name], x)
    [] T.k = "ptr"    -> IF x.nil THEN 0
                         ELSE IF T.e.k \in {"struct", "self"} THEN HashImpl(env, T.e, x.v)   \* the struct's fields, seed 17
                         ELSE Acc(17, HashImpl(env, T.e, x.v))
    [] T.k = "slice"  -> IF x.nil THEN 0
                         ELSE FoldAcc(17, [i \in DOMAIN x.es |-> HashImpl(env, T.e, x.es[i])], 1)
    [] T.k = "array"  -> FoldAcc(17, [i \in 1..T.len |-> HashImpl(env, T.e, x.es[i])], 1)
    [] T.k = "map"    ->
         IF x.nil THEN 0
         ELSE LET lt(a, b) == CmpImpl(env, T.key, a.k, b.k, "field") < 0
                  xs == SortSeq(x.kv, lt) IN
              FoldAcc(17, FlatSeq([i \in DOMAIN xs |-> <<HashImpl(env, T.key, xs[i].k), HashImpl(env, T.e, xs[i].v)>>]), 1)
    [] T.k = "struct" ->
         LET e2 == Bind(env, T)
             \* (a user Hash() uint64 method is NOT honoured by the template: structural hash)
             \* unexported fields of imported structs are skipped by the template
             idx == SelectSeq([i \in DOMAIN T.fields |-> i],
                              LAMBDA i : ~(T.pkg = "ext" /\ ~Exported(T.fields[i].name))) IN
         FoldAcc(17, [j \in DOMAIN idx |-> HashImpl(e2, T.fields[idx[j]].t, x.fs[idx[j]])], 1)
=============================================================================
