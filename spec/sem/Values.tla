------------------------------- MODULE Values ------------------------------
(***************************************************************************)
(* Engine S: the abstract VALUE universe.                                  *)
(*                                                                         *)
(* A value of type T is a tree with explicit allocation labels:            *)
(*   basic / named : [tok |-> "pz"]            opaque leaf token           *)
(*   ptr           : [nil |-> TRUE]  |  [nil |-> FALSE, lbl, v]            *)
(*   slice         : [nil |-> TRUE]  |  [nil |-> FALSE, lbl, cap, es]      *)
(*   array         : [es |-> <<v1, v2>>]                                   *)
(*   map           : [nil |-> TRUE]  |  [nil |-> FALSE, lbl, kv]           *)
(*                   kv = << [k |-> key, v |-> value], ... >> in INSERTION *)
(*                   ORDER                                                 *)
(*   struct        : [fs |-> <<v1, ..., vn>>]   one value per field        *)
(* Two nodes with the same label are the same allocation.  Labels are      *)
(* strings (the path from the root, prefixed per pool entry).              *)
(*                                                                         *)
(* Leaves are opaque tokens; their equality class and order rank are       *)
(* DEFINED HERE (LeafTab).  The Go harness owns token -> Go literal and    *)
(* checks at start-up that Go's == and < agree with rank.                  *)
(***************************************************************************)
EXTENDS Types

L(tok, rank)  == [tok |-> tok, rank |-> rank, twin |-> FALSE]
Tw(tok, rank) == [tok |-> tok, rank |-> rank, twin |-> TRUE]   \* same class as another token, other representation

(* index 1 is the zero value of the kind; twins come last.  Equal rank <=> *)
(* Go's ==; smaller rank <=> natural order (false<true, numeric <,         *)
(* bytewise strings, real part before imaginary part).                     *)
SignedTab == << L("0", 2), L("1", 3), L("m1", 1), L("max", 4), L("min", 0) >>
\* 64-bit kinds: "hi1" = 1<<40 + 1 has the LOW BYTES of 1 (a narrower read cannot tell them apart)
WideTab   == << L("0", 2), L("1", 3), L("m1", 1), L("max", 5), L("min", 0), L("hi1", 4) >>
FloatTab  == << L("pz", 2), L("1", 4), L("m1.5", 0), L("max", 5), L("half", 3), L("msmall", 1), Tw("nz", 2) >>
LeafTab == [
  bool       |-> << L("false", 0), L("true", 1) >>,
  int        |-> WideTab,
  int8       |-> SignedTab,
  int64      |-> WideTab,
  uint8      |-> << L("0", 0), L("1", 1), L("97", 2), L("255", 3) >>,
  uint64     |-> << L("0", 0), L("1", 1), L("big", 2), L("max", 3) >>,
  float32    |-> FloatTab,
  float64    |-> FloatTab,
  \* complex tokens: z=(0,0) a=(1,2) b=(1,3) c=(2,0) d=(-1.5,5) zni=(0,-0) znr=(-0,0)
  complex64  |-> << L("z", 1), L("a", 2), L("c", 4), L("b", 3), L("d", 0), Tw("zni", 1), Tw("znr", 1) >>,
  \* table order: the first two typical tokens a=(1,2), c=(2,0) have their real and imaginary parts
  \* ordered in OPPOSITE directions (a comparison that is not real-then-imaginary is not a strict order on them)
  complex128 |-> << L("z", 1), L("a", 2), L("c", 4), L("b", 3), L("d", 0), Tw("zni", 1), Tw("znr", 1) >>,
  \* "" < "%%d" < "100%" < "Aa" < "BB" < "a" < "a\"\n" < "a%sb" < "b" < "é" < "\xff"   (bytewise)
  \* the typical token (index 2) contains a '%': text pasted into a format string is mangled
  string     |-> << L("empty", 0), L("pfmt", 7), L("a", 5), L("b", 8), L("Aa", 3), L("BB", 4), L("quote", 6), L("eacute", 9), L("xff", 10),
                    L("pct", 2), L("ppd", 1) >>
]

Toks(b) == {LeafTab[b][i].tok : i \in DOMAIN LeafTab[b]}
TokIdx == [b \in BasicSet |-> [t \in Toks(b) |-> CHOOSE i \in DOMAIN LeafTab[b] : LeafTab[b][i].tok = t]]
RankOf == [b \in BasicSet |-> [t \in Toks(b) |-> LeafTab[b][TokIdx[b][t]].rank]]
Rank(b, tok) == RankOf[b][tok]
Canon(b) == SelectSeq(LeafTab[b], LAMBDA e : ~e.twin)
ZeroTok(b) == LeafTab[b][1].tok
HasTwin(b) == \E i \in DOMAIN LeafTab[b] : LeafTab[b][i].twin
TwinsOf(b, tok) == SelectSeq(LeafTab[b], LAMBDA e : e.twin /\ e.rank = Rank(b, tok) /\ e.tok # tok)
ZeroTwin(b) == TwinsOf(b, ZeroTok(b))[1].tok

(* the table as a flat sequence, exported to the harness for its sanity check *)
LeafExport ==
  [i \in DOMAIN AllBasics |-> [kind |-> AllBasics[i], toks |-> LeafTab[AllBasics[i]]]]

\* the s-th "typical" (non-zero, canonical) token of a kind
BaseTok(b, s) == LET c == Canon(b) IN c[2 + (s % (Len(c) - 1))].tok

\* canonical neighbours by rank (single-leaf mutations)
UpTok(b, tok) ==
  LET c == Canon(b) r == Rank(b, tok)
      above == {i \in DOMAIN c : c[i].rank > r} IN
  IF above = {} THEN <<>>
  ELSE <<c[CHOOSE i \in above : \A j \in above : c[i].rank <= c[j].rank].tok>>
DownTok(b, tok) ==
  LET c == Canon(b) r == Rank(b, tok)
      below == {i \in DOMAIN c : c[i].rank < r} IN
  IF below = {} THEN <<>>
  ELSE <<c[CHOOSE i \in below : \A j \in below : c[i].rank >= c[j].rank].tok>>

-----------------------------------------------------------------------------
Leaf(tok)            == [tok |-> tok]
NilV                 == [nil |-> TRUE]
PtrV(lbl, v)         == [nil |-> FALSE, lbl |-> lbl, v |-> v]
SliceV(lbl, cap, es) == [nil |-> FALSE, lbl |-> lbl, cap |-> cap, es |-> es]
ArrayV(es)           == [es |-> es]
MapV(lbl, kv)        == [nil |-> FALSE, lbl |-> lbl, kv |-> kv]
StructV(fs)          == [fs |-> fs]

IsNil(v) == v.nil

-----------------------------------------------------------------------------
(* Zero value.                                                             *)
RECURSIVE Zero(_, _)
Zero(env, T) ==
  CASE T.k = "basic"  -> Leaf(ZeroTok(T.b))
    [] T.k = "named"  -> Zero(env, T.u)
    [] T.k = "self"   -> Zero(env, env[T.name])
    [] T.k \in {"ptr", "slice", "map"} -> NilV
    [] T.k = "array"  -> ArrayV([i \in 1..T.len |-> Zero(env, T.e)])
    [] T.k = "struct" -> LET e2 == Bind(env, T) IN
                         StructV([i \in DOMAIN T.fields |-> Zero(e2, T.fields[i].t)])

Stops(T, fuel) == T.k = "self" /\ fuel = 0

(* Empty value: every container non-nil and empty, every pointer non-nil.  *)
RECURSIVE Empty(_, _, _, _)
Empty(env, T, p, fuel) ==
  CASE T.k = "basic"  -> Leaf(ZeroTok(T.b))
    [] T.k = "named"  -> Empty(env, T.u, p, fuel)
    [] T.k = "self"   -> Empty(env, env[T.name], p, fuel - 1)
    [] T.k = "ptr"    -> IF Stops(T.e, fuel) THEN NilV ELSE PtrV(p, Empty(env, T.e, p \o "*", fuel))
    [] T.k = "slice"  -> SliceV(p, 0, <<>>)
    [] T.k = "map"    -> MapV(p, <<>>)
    [] T.k = "array"  -> ArrayV([i \in 1..T.len |-> Empty(env, T.e, p \o "/" \o ToString(i), fuel)])
    [] T.k = "struct" -> LET e2 == Bind(env, T) IN
                         StructV([i \in DOMAIN T.fields |-> Empty(e2, T.fields[i].t, p \o "." \o ToString(i), fuel)])

(* Rich value.  m: mode record                                             *)
(*   extra : spare capacity of every slice                                 *)
(*   rev   : maps are populated in reverse order                           *)
(*   fz    : "" or the token every float/complex leaf takes ("z" = the     *)
(*           zero token, "t" = the zero's twin, e.g. -0)                   *)
(*   uni   : sibling elements have equal contents (distinct allocations)   *)
(*   share : sibling elements are ONE allocation (identical labels)        *)
Mode0 == [extra |-> 0, rev |-> FALSE, fz |-> "", uni |-> FALSE, share |-> FALSE]

Rev(s) == [i \in DOMAIN s |-> s[Len(s) + 1 - i]]

RECURSIVE Base(_, _, _, _, _, _)
Base(env, T, m, p, s, fuel) ==
  CASE T.k = "basic"  ->
         IF m.fz # "" /\ T.b \in FloatKinds
         THEN Leaf(IF m.fz = "z" THEN ZeroTok(T.b) ELSE ZeroTwin(T.b))
         ELSE Leaf(BaseTok(T.b, s))
    [] T.k = "named"  -> Base(env, T.u, m, p, s, fuel)
    [] T.k = "self"   -> Base(env, env[T.name], m, p, s + 1, fuel - 1)
    [] T.k = "ptr"    -> IF Stops(T.e, fuel) THEN NilV ELSE PtrV(p, Base(env, T.e, m, p \o "*", s, fuel))
    [] T.k = "slice"  ->
         IF Stops(T.e, fuel) THEN SliceV(p, m.extra, <<>>)
         ELSE LET p1 == p \o "/1"
                  p2 == IF m.share THEN p1 ELSE p \o "/2"
                  s2 == IF m.uni \/ m.share THEN s ELSE s + 1 IN
              SliceV(p, 2 + m.extra, <<Base(env, T.e, m, p1, s, fuel), Base(env, T.e, m, p2, s2, fuel)>>)
    [] T.k = "array"  ->
         LET p1 == p \o "/1"
             p2 == IF m.share THEN p1 ELSE p \o "/2"
             s2 == IF m.uni \/ m.share THEN s ELSE s + 1 IN
         ArrayV(<<Base(env, T.e, m, p1, s, fuel), Base(env, T.e, m, p2, s2, fuel)>>)
    [] T.k = "map"    ->
         IF Stops(T.e, fuel) THEN NilV
         ELSE LET p1 == p \o "/1"
                  p2 == IF m.share THEN p1 ELSE p \o "/2"
                  s2 == IF m.uni \/ m.share THEN s ELSE s + 1
                  mk == [m EXCEPT !.fz = ""]     \* keys keep their tokens (all-zero keys would collapse into one)
                  kv == << [k |-> Base(env, T.key, mk, p \o "k1", s, fuel),     v |-> Base(env, T.e, m, p1, s, fuel)],
                           [k |-> Base(env, T.key, mk, p \o "k2", s + 1, fuel), v |-> Base(env, T.e, m, p2, s2, fuel)] >> IN
              MapV(p, IF m.rev THEN Rev(kv) ELSE kv)
    [] T.k = "struct" -> LET e2 == Bind(env, T) IN
         StructV([i \in DOMAIN T.fields |-> Base(e2, T.fields[i].t, m, p \o "." \o ToString(i), s + i - 1, fuel)])

-----------------------------------------------------------------------------
(* Prefix every label of a value (each pool entry lives in its own label   *)
(* namespace unless sharing is intended).                                  *)
RECURSIVE Relabel(_, _)
Relabel(v, pre) ==
  LET D == DOMAIN v IN
  IF "tok" \in D THEN v
  ELSE IF "fs" \in D THEN [v EXCEPT !.fs = [i \in DOMAIN v.fs |-> Relabel(v.fs[i], pre)]]
  ELSE IF "nil" \notin D THEN [v EXCEPT !.es = [i \in DOMAIN v.es |-> Relabel(v.es[i], pre)]]   \* array
  ELSE IF v.nil THEN v
  ELSE IF "v" \in D THEN [v EXCEPT !.lbl = pre \o @, !.v = Relabel(@, pre)]
  ELSE IF "es" \in D THEN [v EXCEPT !.lbl = pre \o @, !.es = [i \in DOMAIN v.es |-> Relabel(v.es[i], pre)]]
  ELSE [v EXCEPT !.lbl = pre \o @,
                 !.kv = [i \in DOMAIN v.kv |-> [k |-> Relabel(v.kv[i].k, pre), v |-> Relabel(v.kv[i].v, pre)]]]

(* The same value with a fresh ROOT allocation; everything below keeps its  *)
(* labels, i.e. is shared with the original (cross-value sharing).          *)
ShareInner(v) ==
  IF "lbl" \in DOMAIN v THEN [v EXCEPT !.lbl = "h:" \o @] ELSE v

-----------------------------------------------------------------------------
(* Single-position mutations of a value.  Result: sequence of              *)
(*   [v |-> mutated value, kind |-> "leaf"|"nil"|"len"|"key"|"nil+len"|    *)
(*    "ign" (a change the user's Equal method ignores: still equal),       *)
(*    dir |-> "lt"|"gt"|"none"]                                            *)
(* dir is the direction the ORIGINAL stands to the MUTATED value where the *)
(* property prescribes one ("lt": original < mutated).                     *)
Mut(v, kind, dir) == [v |-> v, kind |-> kind, dir |-> dir]

\* apply F to the value of every mutation
LiftM(ms, F(_)) == [i \in DOMAIN ms |-> [ms[i] EXCEPT !.v = F(ms[i].v)]]
\* mutations at a map key carry no prescribed direction
AsKey(ms) == [i \in DOMAIN ms |-> [ms[i] EXCEPT !.kind = "key", !.dir = "none"]]

RECURSIVE FlatFrom(_, _)
FlatFrom(ss, i) == IF i > Len(ss) THEN <<>> ELSE ss[i] \o FlatFrom(ss, i + 1)
FlatSeq(ss) == FlatFrom(ss, 1)
Seq1(n, F(_)) == IF n = 0 THEN <<>> ELSE [i \in 1..n |-> F(i)]

LeafMuts(b, tok, tw) ==
  IF tw THEN LET ts == TwinsOf(b, tok) IN Seq1(Len(ts), LAMBDA i : Mut(Leaf(ts[i].tok), "twin", "none"))
  ELSE LET up == UpTok(b, tok) dn == DownTok(b, tok) IN
       (IF up = <<>> THEN <<>> ELSE << Mut(Leaf(up[1]), "leaf", "lt") >>) \o
       (IF dn = <<>> THEN <<>> ELSE << Mut(Leaf(dn[1]), "leaf", "gt") >>)

\* tw = TRUE: only the class-preserving leaf rewrites (+0 -> -0), no structural mutation
NotTw(tw, ms) == IF tw THEN <<>> ELSE ms

(* Map keys of the universe contain neither allocations nor twin tokens,   *)
(* so two keys are the same key iff their value trees are equal.           *)
SameKey(a, b) == a = b

RECURSIVE Muts(_, _, _, _, _)
Muts(env, T, v, p, tw) ==
  CASE T.k = "basic"  -> LeafMuts(T.b, v.tok, tw)
    [] T.k = "named"  -> Muts(env, T.u, v, p, tw)
    [] T.k = "self"   -> Muts(env, env[T.name], v, p, tw)
    [] T.k = "ptr"    ->
         IF v.nil THEN NotTw(tw, << Mut(PtrV(p \o "+", Zero(env, T.e)), "nil", "lt") >>)
         ELSE NotTw(tw, << Mut(NilV, "nil", "gt") >>) \o
              LiftM(Muts(env, T.e, v.v, p \o "*", tw), LAMBDA w : [v EXCEPT !.v = w])
    [] T.k = "slice"  ->
         IF v.nil THEN NotTw(tw, << Mut(SliceV(p \o "+", 0, <<>>), "nil", "lt") >>)
         ELSE IF Len(v.es) = 0 THEN NotTw(tw,
              << Mut(NilV, "nil", "gt"),
                 Mut([v EXCEPT !.es = <<Zero(env, T.e)>>, !.cap = @ + 1], "len", "none") >>)
         ELSE NotTw(tw,
              << Mut(NilV, "nil+len", "none"),
                 Mut([v EXCEPT !.es = SubSeq(@, 1, Len(@) - 1)], "len", "none"),
                 Mut([v EXCEPT !.es = Append(@, Zero(env, T.e)), !.cap = @ + 1], "len", "none") >>) \o
              FlatSeq(Seq1(Len(v.es), LAMBDA i :
                 LiftM(Muts(env, T.e, v.es[i], p \o "/" \o ToString(i), tw), LAMBDA w : [v EXCEPT !.es[i] = w])))
    [] T.k = "array"  ->
         FlatSeq(Seq1(Len(v.es), LAMBDA i :
            LiftM(Muts(env, T.e, v.es[i], p \o "/" \o ToString(i), tw), LAMBDA w : [v EXCEPT !.es[i] = w])))
    [] T.k = "map"    ->
         IF v.nil THEN NotTw(tw, << Mut(MapV(p \o "+", <<>>), "nil", "lt") >>)
         ELSE IF Len(v.kv) = 0 THEN NotTw(tw,
              << Mut(NilV, "nil", "gt"),
                 Mut([v EXCEPT !.kv = << [k |-> Base(env, T.key, Mode0, p \o "k+", 2, 0), v |-> Zero(env, T.e)] >>], "len", "none") >>)
         ELSE NotTw(tw,
              << Mut(NilV, "nil+len", "none"),
                 Mut([v EXCEPT !.kv = SubSeq(@, 1, Len(@) - 1)], "len", "none") >> \o
              (LET nk == Base(env, T.key, Mode0, p \o "k+", 2, 0) IN
               IF \E j \in DOMAIN v.kv : SameKey(v.kv[j].k, nk) THEN <<>>
               ELSE << Mut([v EXCEPT !.kv = Append(@, [k |-> nk, v |-> Zero(env, T.e)])], "len", "none") >>)) \o
              FlatSeq(Seq1(Len(v.kv), LAMBDA i :
                 LiftM(Muts(env, T.e, v.kv[i].v, p \o "/" \o ToString(i), tw), LAMBDA w : [v EXCEPT !.kv[i].v = w]) \o
                 LiftM(SelectSeq(AsKey(Muts(env, T.key, v.kv[i].k, p \o "k" \o ToString(i), tw)),
                                 LAMBDA mm : ~\E j \in DOMAIN v.kv : j # i /\ SameKey(v.kv[j].k, mm.v)),
                       LAMBDA w : [v EXCEPT !.kv[i].k = w])))
    [] T.k = "struct" -> LET e2 == Bind(env, T) IN
         FlatSeq(Seq1(Len(T.fields), LAMBDA i :
            LET ms == LiftM(Muts(e2, T.fields[i].t, v.fs[i], p \o "." \o ToString(i), tw), LAMBDA w : [v EXCEPT !.fs[i] = w]) IN
            \* the user's methods look at the first field only: a change elsewhere is IGNORED by them
            IF HasMeth(T) /\ i > 1 /\ ~tw THEN [q \in DOMAIN ms |-> [ms[q] EXCEPT !.kind = "ign", !.dir = "none"]] ELSE ms))

-----------------------------------------------------------------------------
(* Pool(T): the bounded, boundary-biased sequence of values of T.  Entry:  *)
(*   [tag, of, kind, dir, v]   of = index of the entry this one was        *)
(*   derived from (0 = none); kind "same"/"twin" = structurally equal to    *)
(*   entry `of`; kinds leaf/nil/len/key/nil+len = one mutation of `of`.    *)
Entry(tag, of, kind, dir, v) == [tag |-> tag, of |-> of, kind |-> kind, dir |-> dir, v |-> v]

MutEntries(ms, of, pre) ==
  Seq1(Len(ms), LAMBDA i : Entry(pre \o ToString(i), of, ms[i].kind, ms[i].dir, Relabel(ms[i].v, pre \o ToString(i) \o ":")))

Pool(T) ==
  LET B0   == Base(NoEnv, T, Mode0, "r", 0, 1)
      E0   == Empty(NoEnv, T, "r", 1)
      head == << Entry("zero", 0, "", "none", Zero(NoEnv, T)),
                 Entry("empty", 0, "", "none", Relabel(E0, "e:")),
                 Entry("base", 0, "", "none", Relabel(B0, "b:")) >>
      bm   == MutEntries(Muts(NoEnv, T, B0, "r", FALSE), 3, "m")
      em   == MutEntries(SelectSeq(Muts(NoEnv, T, E0, "r", FALSE), LAMBDA x : x.kind = "nil"), 2, "n")
      same == << Entry("rebuilt", 3, "same", "none", Relabel(B0, "q:")) >> \o
              (IF HasSlice(T) THEN << Entry("cap", 3, "same", "none",
                    Relabel(Base(NoEnv, T, [Mode0 EXCEPT !.extra = 2], "r", 0, 1), "c:")) >> ELSE <<>>) \o
              (IF HasMap(T) THEN << Entry("perm", 3, "same", "none",
                    Relabel(Base(NoEnv, T, [Mode0 EXCEPT !.rev = TRUE], "r", 0, 1), "p:")) >> ELSE <<>>) \o
              \* cross-value sharing: a fresh root allocation whose inner allocations ARE the base's
              (IF Allocates(T) THEN << Entry("xshare", 3, "same", "none", ShareInner(Relabel(B0, "b:"))) >> ELSE <<>>)
      n1   == Len(head) + Len(bm) + Len(em) + Len(same)
      FZ0  == Base(NoEnv, T, [Mode0 EXCEPT !.fz = "z"], "r", 0, 1)
      fz   == IF HasFloat(T) THEN
                << Entry("fzp", 0, "", "none", Relabel(FZ0, "fz:")),
                   Entry("fzn", n1 + 1, "same", "none", Relabel(Base(NoEnv, T, [Mode0 EXCEPT !.fz = "t"], "r", 0, 1), "ft:")) >> \o
                \* one float leaf at a time rewritten to its twin (+0 -> -0)
                MutEntries(Muts(NoEnv, T, FZ0, "r", TRUE), n1 + 1, "t")
              ELSE <<>>
      n2   == n1 + Len(fz)
      sh   == IF HasSharable(T) THEN
                << Entry("uni", 0, "", "none", Relabel(Base(NoEnv, T, [Mode0 EXCEPT !.uni = TRUE], "r", 0, 1), "u:")),
                   Entry("share", n2 + 1, "same", "none", Relabel(Base(NoEnv, T, [Mode0 EXCEPT !.share = TRUE], "r", 0, 1), "s:")) >>
              ELSE <<>>
  IN head \o bm \o em \o same \o fz \o sh
=============================================================================
