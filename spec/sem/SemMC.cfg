SPECIFICATION Spec
INVARIANTS
  PoolOK
  EqEquivalence
  EqInsensitive
  MutationsDiffer
  TopEqualsField
  DiffConsistent
  CmpImplLaws
  EqImplEquivalence
  HashImplFunction
  Leads
CHECK_DEADLOCK FALSE
