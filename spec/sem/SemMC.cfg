SPECIFICATION Spec
INVARIANTS
  PoolOK
  EqEquivalence
  EqInsensitive
  MutationsDiffer
  TopEqualsField
  DiffConsistent
  HashImplFunction
  Leads
CHECK_DEADLOCK FALSE
