------------------------------ MODULE SemTrace ------------------------------
(***************************************************************************)
(* Validation of OBSERVATIONS recorded from the REAL generated code        *)
(* (deriveEqual / deriveCompare / deriveHash emitted by the real goderive  *)
(* binary, compiled and executed by the driver) against the abstract layer *)
(* of DeriveSem.                                                           *)
(*                                                                         *)
(* VERIF_TRACE is NDJSON.  Per type, in this order:                        *)
(*   {"k":"case","id","t","wf","pool"}   the line SemCases exported        *)
(*   {"k":"eq",  "id","form":"bin"|"cur","m":[[..]]}  "T" | "F" | "P"anic  *)
(*   {"k":"cmp", "id","form":"bin"|"cur","m":[[..]]}  -1 | 0 | 1 | 99=panic*)
(*        (-2 / +2: a result below -1 / above +1)                          *)
(*   {"k":"hash","id","h":[..],"h2":[..],"hx":[..],"same":[..]}            *)
(*        h, h2: two calls in one process, hx: a second process (decimal   *)
(*        strings or "P"); same[i]: argument snapshot unchanged by the call*)
(* m[i][j] is the result for (pool[i].v, pool[j].v).                       *)
(*                                                                         *)
(* Every line is consumed (l' = l + 1).  What the reference semantics does *)
(* not allow is RECORDED in bad, classified by law and by HOW the two      *)
(* values differ (Diff), one record per minimal difference class; the      *)
(* verdict is the exported bad sequence (VERIF_OUT).                       *)
(* To add an observation kind: add an action here (see README.md).         *)
(***************************************************************************)
EXTENDS DeriveSem, Json, IOUtils

Trace == ndJsonDeserialize(IOEnv.VERIF_TRACE)
NL == Len(Trace)

VARIABLES
  l,      \* next line
  cur,    \* the current case line
  ref,    \* reference matrix: ref[i][j] = Eq(pool[i], pool[j])
  eqm,    \* observed binary Equal matrix of the current type (<<>> if not yet seen)
  cmpm,   \* observed binary Compare matrix of the current type
  bad     \* sequence of rejected-observation records

vars == <<l, cur, ref, eqm, cmpm, bad>>

NoCase == [id |-> "", t |-> [k |-> "basic", b |-> "int"], wf |-> FALSE, pool |-> <<>>]

Init == l = 1 /\ cur = NoCase /\ ref = <<>> /\ eqm = <<>> /\ cmpm = <<>> /\ bad = <<>>

Ev == Trace[l]
IsObs(k) == l <= NL /\ Ev.k = k /\ l' = l + 1

T == cur.t
P == cur.pool
N == DOMAIN P
X(a) == P[a].v
D2(a, b) == Diff(NoEnv, T, X(a), X(b))

(* one record per minimal (by inclusion) difference class of the offending *)
(* pairs S of one law                                                      *)
Classes(law, form, S) ==
  IF S = {} THEN {}
  ELSE LET D   == [p \in S |-> D2(p[1], p[2])]
           DS  == {D[p] : p \in S}
           MinD == {d \in DS : ~\E d2 \in DS : d2 # d /\ d2 \subseteq d} IN
       {[l |-> l, id |-> cur.id, k |-> Ev.k, form |-> form, law |-> law, diff |-> d,
         i |-> (CHOOSE p \in S : D[p] = d)[1], j |-> (CHOOSE p \in S : D[p] = d)[2],
         n |-> Cardinality({p \in S : D[p] = d})] : d \in MinD}

Plain(law, form) == {[l |-> l, id |-> cur.id, k |-> Ev.k, form |-> form, law |-> law, diff |-> {}, i |-> 0, j |-> 0, n |-> 1]}

Fail(recs) == bad' = bad \o SetToSeq(recs)

Square(m) == Len(m) = Len(P) /\ \A a \in DOMAIN m : Len(m[a]) = Len(P)
RightType == Ev.id = cur.id /\ cur.wf

-----------------------------------------------------------------------------
Case ==
  /\ IsObs("case")
  /\ eqm' = <<>> /\ cmpm' = <<>>
  /\ IF Ev.wf /\ WellFormed(Ev.t) /\ Ev.pool = Pool(Ev.t)
     THEN /\ cur' = Ev
          /\ ref' = [a \in DOMAIN Ev.pool |-> [b \in DOMAIN Ev.pool |-> Eq(NoEnv, Ev.t, Ev.pool[a].v, Ev.pool[b].v)]]
          /\ UNCHANGED bad
     ELSE /\ ref' = <<>>
          /\ cur' = [Ev EXCEPT !.wf = FALSE]
          /\ bad' = Append(bad, [l |-> l, id |-> Ev.id, k |-> "case", form |-> "", law |-> "case: not the specification's Pool(t)",
                                 diff |-> {}, i |-> 0, j |-> 0, n |-> 1])

(* C02: derived Equal is exactly Eq (so it is reflexive, symmetric,        *)
(* transitive, nil-safe, the same at top level and as a field).            *)
EqObs ==
  /\ IsObs("eq")
  /\ IF ~RightType \/ ~Square(Ev.m)
     THEN Fail(Plain("eq: observation does not belong to the current case", Ev.form)) /\ UNCHANGED <<eqm>>
     ELSE LET m == Ev.m
              NN == N \X N
              panics == {p \in NN : m[p[1]][p[2]] \notin {"T", "F"}}
              ftrue  == {p \in NN : m[p[1]][p[2]] = "T" /\ ~ref[p[1]][p[2]]}
              ffalse == {p \in NN : m[p[1]][p[2]] = "F" /\ ref[p[1]][p[2]]}
              curbad == IF Ev.form = "cur" /\ eqm # <<>>     \* (panics are reported by their own law)
                        THEN {p \in NN : m[p[1]][p[2]] # eqm[p[1]][p[2]] /\ m[p[1]][p[2]] \in {"T", "F"} /\ eqm[p[1]][p[2]] \in {"T", "F"}} ELSE {} IN
          /\ Fail(Classes("Equal panicked", Ev.form, panics)
                  \cup Classes("Equal returned true for structurally different values", Ev.form, ftrue)
                  \cup Classes("Equal returned false for structurally identical values", Ev.form, ffalse)
                  \cup Classes("curried Equal disagrees with the two-argument form", Ev.form, curbad))
          /\ eqm' = IF Ev.form = "bin" THEN m ELSE eqm
  /\ UNCHANGED <<cur, ref, cmpm>>

(* C03: order laws over the observed matrix.                               *)
CmpObs ==
  /\ IsObs("cmp")
  /\ IF ~RightType \/ ~Square(Ev.m) \/ eqm = <<>>
     THEN Fail(Plain("cmp: observation does not belong to the current case (or no Equal observation precedes it)", Ev.form)) /\ UNCHANGED cmpm
     ELSE LET \* a component whose USER Compare method returns a difference makes the derived Compare return
              \* values beyond -1/+1 (driver: -2 / +2); the statement's range is about derived code, so for such
              \* types only the sign is judged
              m == IF Unclamped(T)
                   THEN [a \in DOMAIN Ev.m |-> [b \in DOMAIN Ev.m[a] |->
                           IF Ev.m[a][b] = 2 THEN 1 ELSE IF Ev.m[a][b] = -2 THEN -1 ELSE Ev.m[a][b]]]
                   ELSE Ev.m
              tr == CmpTransBad(m, N)
              curbad == IF Ev.form = "cur" /\ cmpm # <<>>
                        THEN {p \in N \X N : m[p[1]][p[2]] # cmpm[p[1]][p[2]] /\ m[p[1]][p[2]] \in {-1, 0, 1} /\ cmpm[p[1]][p[2]] \in {-1, 0, 1}} ELSE {}
              \* not a verdict: where today's template (implementation-shaped layer) would have answered differently
              drift  == IF Ev.form = "bin"
                        THEN {p \in N \X N : m[p[1]][p[2]] \in {-1, 0, 1} /\ m[p[1]][p[2]] # CmpImpl(NoEnv, T, X(p[1]), X(p[2]), "top")}
                        ELSE {} IN
          /\ Fail(Classes("DRIFT: Compare differs from the implementation-shaped model (not a verdict)", Ev.form, drift)
                  \cup Classes("Compare panicked or returned a value other than -1, 0, +1", Ev.form, CmpRangeBad(m, N))
                  \cup Classes("Compare is not antisymmetric", Ev.form, CmpAntiSymBad(m, N))
                  \cup Classes("Compare is not transitive", Ev.form, {<<t[1], t[3]>> : t \in tr})
                  \cup Classes("Compare returns 0 although derived Equal is false, or non-zero although it is true", Ev.form, CmpZeroIffBad(m, eqm, N))
                  \cup Classes("Compare orders a single-position difference against the natural direction", Ev.form, CmpDirBad(m, eqm, P))
                  \cup Classes("curried Compare disagrees with the two-argument form", Ev.form, curbad))
          /\ cmpm' = IF Ev.form = "bin" THEN m ELSE cmpm
  /\ UNCHANGED <<cur, ref, eqm>>

(* C04: hash respects derived Equal and structural identity, is            *)
(* repeatable in and across processes, does not modify its argument.       *)
HashObs ==
  /\ IsObs("hash")
  /\ IF ~RightType \/ Len(Ev.h) # Len(P) \/ Len(Ev.h2) # Len(P) \/ Len(Ev.hx) # Len(P) \/ Len(Ev.same) # Len(P) \/ eqm = <<>>
     THEN Fail(Plain("hash: observation does not belong to the current case (or no Equal observation precedes it)", ""))
     ELSE LET h == Ev.h
              byEqual == [a \in N |-> [b \in N |-> eqm[a][b] = "T"]]
              eqbad  == HashRespectsBad(h, byEqual, N)
              refbad == HashRespectsBad(h, ref, N) \ eqbad
              diag(S) == {<<a, a>> : a \in S} IN
          Fail(Classes("Hash panicked", "", diag({a \in N : h[a] = "P" \/ Ev.h2[a] = "P" \/ Ev.hx[a] = "P"}))
               \cup Classes("Hash differs although derived Equal holds", "", eqbad)
               \cup Classes("Hash differs on structurally identical values", "", refbad)
               \cup Classes("Hash of the same value differs between two calls in one process", "", diag({a \in N : h[a] # Ev.h2[a]}))
               \cup Classes("Hash of the same value differs between two processes", "", diag({a \in N : h[a] # Ev.hx[a]}))
               \cup Classes("Hash modified its argument", "", diag({a \in N : ~Ev.same[a]})))
  /\ UNCHANGED <<cur, ref, eqm, cmpm>>

Next == Case \/ EqObs \/ CmpObs \/ HashObs

Spec == Init /\ [][Next]_vars

\* export the verdict when the whole file has been consumed
Export == l = NL + 1 => ndJsonSerialize(IOEnv.VERIF_OUT, bad)

\* all lines consumed: the trace specification never got stuck
TraceAccepted == TLCGet("stats").diameter - 1 = NL
=============================================================================
