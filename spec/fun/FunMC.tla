------------------------------- MODULE FunMC -------------------------------
(***************************************************************************)
(* Bounded, exhaustive exploration of the call-history machines of         *)
(* FuncSem.  One TLC run per family (CONSTANT Fam).  The initial states    *)
(* are ALL configurations of the family within the bounds (signature       *)
(* shape: arities, kinds of every value position, parameter naming; and    *)
(* the concrete tokens every instrumented function hands out); Next runs   *)
(* the family's machine with a FREE environment (any stage may fail, any   *)
(* call may come next).  TLC checks on every state that the machine        *)
(* satisfies the property's declarative clauses, and EXPORTS every         *)
(* terminal state (configuration + environment choices + history) as one   *)
(* test case for the real generated code - one implementation test per     *)
(* behaviour of the specification.                                         *)
(***************************************************************************)
EXTENDS FuncSem, Json, CSV, IOUtils

CONSTANTS
  Fam,        \* family explored by this run
  MaxN,       \* compose: stages 2..MaxN
  MaxAr,      \* boundary arities / parameter and result counts 0..MaxAr
  Rots2, Rots3, Rots4,  \* compose: kind rotations explored for chains of 2, 3, 4 stages
  Rots,       \* kind rotations of the other families
  MaxLen,     \* traverse / fmap: list lengths 0..MaxLen; fmapstr: groups 0..MaxLen
  MaxParams,  \* plumb: parameters 2..MaxParams
  MaxOuter,   \* join: outer length 0..MaxOuter (inner lists: nil / empty / spare capacity shapes)
  MaxOuterLen, LenRots,  \* join: outer length 0..MaxOuterLen with independent inner lengths 0..3, for these kind rotations
  MaxSeq,     \* mem: length of the call sequences
  MaxSeqDep,  \* mem: length of the call sequences when f re-enters the memoized function
  MemDeps,    \* mem: which dependency functions: "none", "few", "all"
  MemRots     \* mem: parameter kind rotations

VARIABLES cfg, s
vars == <<cfg, s>>

-----------------------------------------------------------------------------
\* kinds of values: basic (three zero-value spellings), named basic, struct, array, pointer, slice, map, interface
Kinds == <<"int", "str", "bool", "nint", "st", "ar", "pt", "sl", "mp", "if">>
NK == Len(Kinds)
\* rotation rot < 100: consecutive positions get consecutive kinds (mixed types);
\* rot = 100 + k: every position has kind k+1 (same-typed values: only the tokens tell them apart)
\* rot = 200 + k: rotation over the exotic kinds: tg = anonymous struct whose field tag contains %5d %s %%,
\* uni = named type with a non-ASCII identifier, fn = func-typed value
XKinds == <<"tg", "uni", "fn">>
KindAt(rot, p) == IF rot >= 200 THEN XKinds[((rot - 200 + p) % Len(XKinds)) + 1]
                  ELSE IF rot >= 100 THEN Kinds[rot - 99] ELSE Kinds[((rot + p) % NK) + 1]
\* a bool can carry only one non-zero token
Tok(kind, t) == IF kind = "bool" THEN 1 ELSE t
Toks(kinds, base) == [j \in DOMAIN kinds |-> Tok(kinds[j], base + j)]

RECURSIVE SumTo(_, _)
SumTo(ar, b) == IF b = 0 THEN 0 ELSE ar[b] + SumTo(ar, b - 1)

\* ---- C16 compose ----------------------------------------------------------
\* boundary b = 1 are the wrapper's parameters, boundary i+1 the non-error results of stage i
ComposeCfg(n, ar, rot) ==
  LET kinds == [b \in 1..(n+1) |-> [j \in 1..ar[b] |-> KindAt(rot, SumTo(ar, b - 1) + j)]] IN
  [n |-> n, ar |-> ar, rot |-> rot, kinds |-> kinds,
   args   |-> Toks(kinds[1], 0),
   stages |-> [i \in 1..n |-> [res  |-> Toks(kinds[i+1], 10 * i),
                               part |-> Toks(kinds[i+1], 10 * i + 5),
                               err  |-> i, canfail |-> TRUE]],
   nres |-> ar[n+1], thunk |-> FALSE]
RotsFor(n) == CASE n = 2 -> Rots2 [] n = 3 -> Rots3 [] OTHER -> Rots4
ComposeCfgs(x) == UNION {{ComposeCfg(n, ar, rot) : ar \in [1..(n+1) -> 0..MaxAr], rot \in RotsFor(n)} : n \in 2..MaxN}

\* ---- C16 fmap, error form: deriveFmap(f func(A) (R...), g func() (A, error)) ----
FmapErrCfg(r, rot) ==
  LET ka == KindAt(rot, 0)
      kr == [j \in 1..r |-> KindAt(rot, j)] IN
  [n |-> 2, r |-> r, rot |-> rot, kinds |-> <<<<>>, <<ka>>, kr>>,
   args   |-> <<>>,
   stages |-> << [res |-> <<Tok(ka, 11)>>, part |-> <<Tok(ka, 16)>>, err |-> 1, canfail |-> TRUE],
                 [res |-> Toks(kr, 20), part |-> <<>>, err |-> 0, canfail |-> FALSE] >>,
   nres |-> r, thunk |-> r >= 2]
FmapErrCfgs(x) == {FmapErrCfg(r, rot) : r \in 0..MaxAr, rot \in Rots}

\* ---- C16 join, error form: deriveJoin(f func() (T..., error), err error), also as deriveJoin(g()) ----
JoinErrCfg(t, rot, form) ==
  LET kt == [j \in 1..t |-> KindAt(rot, j - 1)] IN
  [t |-> t, rot |-> rot, form |-> form, kinds |-> kt,
   fres |-> Toks(kt, 10), fpart |-> Toks(kt, 15), ferr |-> 1]
JoinErrCfgs(x) == {JoinErrCfg(t, rot, form) : t \in 0..MaxAr, rot \in Rots, form \in {"args", "tuple"}}
JoinErrEnv == {[outer |-> o, ffail |-> b] : o \in {0, 9}, b \in BOOLEAN}

\* ---- C16 traverse ---------------------------------------------------------
TraverseCfg(len, nilin, rot) ==
  LET ka == KindAt(rot, 0)
      kb == KindAt(rot, 1) IN
  [len |-> len, rot |-> rot, kinds |-> <<ka, kb>>,
   elems |-> [i \in 1..len |-> Tok(ka, i)],
   outs  |-> [i \in 1..len |-> Tok(kb, 10 + i)],
   parts |-> [i \in 1..len |-> Tok(kb, 20 + i)],
   errs  |-> [i \in 1..len |-> i],
   input |-> [nil |-> nilin, es |-> [i \in 1..len |-> Tok(ka, i)]]]
TraverseCfgs(x) == {TraverseCfg(len, FALSE, rot) : len \in 0..MaxLen, rot \in Rots}
                \cup {TraverseCfg(0, TRUE, rot) : rot \in Rots}

\* ---- parameter naming variants (C15, ToError) ------------------------------
\* per parameter: "n" an ordinary name, "b" the blank identifier, names the templates use themselves
\* ("f" the function, "e" = err the error), and user names that EQUAL a name the blank-renaming mints:
\* "p" = the name minted for the nearest LATER blank parameter (param_<its index>; for uncurry innerParam_<..> when that
\*       blank is a parameter of the returned function), or a merely prefixed name (param_7) when no blank follows;
\* "q" = the name minted for the nearest EARLIER blank parameter;
\* or no names at all.  At most one such special name, at most two blanks per signature.
Special == {"f", "e", "p", "q"}
NameVecs(n, letters) ==
  {v \in [1..n -> letters] :
       /\ Cardinality({i \in 1..n : v[i] \in Special}) <= 1
       /\ Cardinality({i \in 1..n : v[i] = "b"}) <= 2
       /\ (\E i \in 1..n : v[i] = "b") => ~(\E i \in 1..n : v[i] \in {"f", "e"})
       /\ \A i \in 1..n : v[i] = "q" => \E j \in 1..(i-1) : v[j] = "b"}
Namings(n, letters) ==
  IF n = 0 THEN {[style |-> "named", v |-> <<>>]}
  ELSE {[style |-> "named", v |-> v] : v \in NameVecs(n, letters)} \cup {[style |-> "unnamed", v |-> [i \in 1..n |-> "u"]]}
PlumbLetters   == {"n", "b", "f", "p", "q"}
ToErrorLetters == {"n", "b", "f", "p", "q", "e"}

\* ---- C16 toerror: deriveToError(err, f func(P...) (R..., bool)) ----------
ToErrorCfg(p, r, rot, naming) ==
  LET kp == [j \in 1..p |-> KindAt(rot, j - 1)]
      kr == [j \in 1..r |-> KindAt(rot, p + j - 1)] IN
  [p |-> p, r |-> r, rot |-> rot, naming |-> naming, kinds |-> <<kp, kr>>,
   args |-> Toks(kp, 0), res |-> Toks(kr, 10), errtok |-> 9]
ToErrorCfgs(x) == UNION {{ToErrorCfg(p, r, rot, nm) : r \in 0..MaxAr, rot \in Rots, nm \in Namings(p, ToErrorLetters)} : p \in 0..MaxAr}

\* ---- C15 plumb -------------------------------------------------------------
\* uncurry: the outer function takes parameter 1, the returned function parameters 2..n;
\* naming.v[1] names the outer parameter; "same" = the inner function reuses the outer parameter's name
PlumbCfg(kind, n, r, rot, naming) ==
  LET kp == [j \in 1..n |-> KindAt(rot, j - 1)]
      kr == IF kind = "tuple" THEN kp ELSE [j \in 1..r |-> KindAt(rot, n + j - 1)] IN
  [kind |-> kind, n |-> n, r |-> r, rot |-> rot, naming |-> naming, kinds |-> <<kp, kr>>,
   \* the j-th value the test supplies has the kind of the parameter it must end up in
   wargs |-> CASE kind = "apply" -> <<Tok(kp[n], n)>> \o [j \in 1..(n-1) |-> Tok(kp[j], j)]
               [] kind = "flip"  -> <<Tok(kp[2], 1), Tok(kp[1], 2)>> \o [j \in 1..(n-2) |-> Tok(kp[j+2], j+2)]
               [] OTHER          -> Toks(kp, 0),
   fres |-> Toks(kr, 10)]
PlumbMinParams(kind) == IF kind \in {"apply", "tuple"} THEN 1 ELSE 2
PlumbCfgs(x) ==
  UNION {UNION {{PlumbCfg(kind, n, r, rot, nm) :
             r \in (IF kind = "tuple" THEN {n} ELSE 0..MaxAr), rot \in Rots,
             nm \in (IF kind = "tuple" THEN {[style |-> "named", v |-> [i \in 1..n |-> "n"]]}
                    ELSE Namings(n, PlumbLetters) \cup
                         \* uncurry: the returned function reuses the name of the outer function's parameter
                         (IF kind = "uncurry" THEN {[style |-> "same", v |-> [i \in 1..n |-> "n"]]} ELSE {}))}
         : n \in PlumbMinParams(kind)..MaxParams} : kind \in PlumbKinds}
PlumbOK(c) == c.n >= PlumbMinParams(c.kind)

\* ---- C17 fmap over slices and strings ---------------------------------------
FmapCfg(len, nilin, rot) ==
  LET ka == KindAt(rot, 0)
      kb == KindAt(rot, 1)
      es == [i \in 1..len |-> Tok(ka, i)] IN
  [src |-> "slice", len |-> len, rot |-> rot, kinds |-> <<ka, kb>>,
   elems |-> es, outs |-> [i \in 1..len |-> Tok(kb, 10 + i)], input |-> [nil |-> nilin, es |-> es]]
FmapCfgs(x) == {FmapCfg(len, FALSE, rot) : len \in 0..MaxLen, rot \in Rots} \cup {FmapCfg(0, TRUE, rot) : rot \in Rots}

GroupSeqs(x) == UNION {[1..n -> Groups] : n \in 0..MaxLen}
FmapStrCfg(gs, rot) ==
  LET kb == KindAt(rot, 0) IN
  [src |-> "string", groups |-> gs, rot |-> rot, kinds |-> <<"rune", kb>>,
   elems |-> RunesOf(gs), outs |-> [i \in DOMAIN gs |-> Tok(kb, 10 + i)], input |-> BytesOf(gs)]
FmapStrCfgs(x) == {FmapStrCfg(gs, rot) : gs \in {g \in GroupSeqs(0) : WellGrouped(g)}, rot \in Rots}

\* ---- C17 join of slices and of strings ---------------------------------------
\* an inner list: nil, empty, or 1..2 elements, optionally with spare capacity holding a sentinel
InnerShapes == {[nil |-> TRUE, n |-> 0, spare |-> 0], [nil |-> FALSE, n |-> 0, spare |-> 0], [nil |-> FALSE, n |-> 0, spare |-> 1],
                [nil |-> FALSE, n |-> 1, spare |-> 0], [nil |-> FALSE, n |-> 1, spare |-> 1], [nil |-> FALSE, n |-> 2, spare |-> 0]}
JoinCfg(shapes, nilin, rot) ==
  LET k == KindAt(rot, 0) IN
  [str |-> FALSE, rot |-> rot, kinds |-> <<k>>,
   input |-> [nil |-> nilin,
              ls |-> [i \in DOMAIN shapes |->
                        [nil |-> shapes[i].nil,
                         es |-> [j \in 1..shapes[i].n |-> Tok(k, 10 * i + j)],
                         spare |-> [j \in 1..shapes[i].spare |-> Tok(k, 10 * i + 5 + j)]]]]]
JoinCfgs(x) == {JoinCfg(sh, FALSE, rot) : sh \in UNION {[1..n -> InnerShapes] : n \in 0..MaxOuter}, rot \in Rots}
            \cup {JoinCfg(<<>>, TRUE, rot) : rot \in Rots}

\* second universe: outer length up to MaxOuterLen, every inner list independently nil or of length 0..3
InnerLens == {[nil |-> TRUE, n |-> 0, spare |-> 0]} \cup {[nil |-> FALSE, n |-> k, spare |-> 0] : k \in 0..3}
JoinLenCfgs(x) == {JoinCfg(sh, FALSE, rot) : sh \in UNION {[1..n -> InnerLens] : n \in 0..MaxOuterLen}, rot \in LenRots}

StrChoices == {<<>>, <<"a">>, <<"e2", "a">>, <<"xff">>, <<"e4">>}
JoinStrCfg(strs, nilin) ==
  [str |-> TRUE, groups |-> strs, input |-> [nil |-> nilin, ls |-> [i \in DOMAIN strs |-> BytesOf(strs[i])]]]
JoinStrCfgs(x) == {JoinStrCfg(ss, FALSE) : ss \in UNION {[1..n -> StrChoices] : n \in 0..MaxOuter}} \cup {JoinStrCfg(<<>>, TRUE)}

\* ---- C18 mem ------------------------------------------------------------------
\* parameter kinds: ==-comparable (int, str, st, ar) and not: pt = *St, ssl = []string, mp = map[string]int whose string
\* contents "Aa" / "BB" collide under the derived 31-polynomial hash, and isl = []int, ip2 = *struct{A, B int},
\* sp2 = []struct{A, B int}, mpi = map[int]int whose integer contents {1,0} / {0,31} collide; result kinds: all
\* ap = [2]*St, sp = struct{P *St}, asp = [2]struct{P *St}: ==-comparable in Go, but Equal is structural (pointees)
MemKinds == <<"int", "ssl", "str", "pt", "isl", "ap", "st", "mp", "ip2", "sp", "ar", "sp2", "mpi", "asp">>
MemKindAt(rot, p) == MemKinds[((rot + p) % Len(MemKinds)) + 1]
Classes(p) == IF p = 0 THEN {1} ELSE {1, 2, 3}
\* class c as a tuple of per-parameter tokens: the classes differ in one position only
\* (tokens 1 and 2 of every non-comparable kind hash alike, so do the tuples)
ClassArgs(p, c) ==
  IF p = 1 THEN <<c>>
  ELSE [j \in 1..p |-> IF (c = 2 /\ j = p) \/ (c = 3 /\ j = 1) THEN 2 ELSE 1]
\* re-entrancy: f(c) calls the memoized function on dep[c]; acyclic, so nesting depth <= 2
DepStep(d, c) == IF c = 0 THEN 0 ELSE d[c]
Acyclic(d) == \A c \in DOMAIN d : DepStep(d, DepStep(d, DepStep(d, c))) = 0
NoDep(p) == [c \in Classes(p) |-> 0]
FewDeps == {<<2, 0, 0>>, <<2, 3, 0>>, <<0, 1, 1>>, <<3, 0, 2>>}
Deps(p) ==
  IF p = 0 \/ MemDeps = "none" THEN {NoDep(p)}
  ELSE IF MemDeps = "few" THEN {NoDep(p)} \cup FewDeps
  ELSE {d \in [Classes(p) -> 0..3] : Acyclic(d)}
MemCfg(p, r, rot, dep) ==
  LET kp == [j \in 1..p |-> MemKindAt(rot, j - 1)]
      kr == [j \in 1..r |-> KindAt(rot, j - 1)] IN
  [p |-> p, r |-> r, rot |-> rot, kinds |-> <<kp, kr>>, dep |-> dep,
   A |-> [c \in Classes(p) |-> ClassArgs(p, c)],
   F |-> [c \in Classes(p) |-> Toks(kr, 10 * c)]]
MemCfgs(x) == UNION {{MemCfg(p, r, rot, dep) : r \in 0..MaxAr, rot \in (IF p = 0 THEN {0} ELSE MemRots), dep \in Deps(p)} : p \in 0..MaxAr}
\* plain sequences up to MaxSeq calls; with re-entrancy (each call may nest two more) MaxSeqDep
MemFreeEnv(c, st) ==
  IF Len(st.script) >= (IF c.dep = NoDep(c.p) THEN MaxSeq ELSE MaxSeqDep) THEN {}
  ELSE {[c |-> cl, rep |-> rp] : cl \in DOMAIN c.A, rp \in (IF c.p = 0 THEN {1} ELSE {1, 2})}

-----------------------------------------------------------------------------
\* (the per-family sets take a dummy parameter so that TLC does not pre-compute all of them)
Configs ==
  CASE Fam = "compose"  -> ComposeCfgs(0)
    [] Fam = "fmaperr"  -> FmapErrCfgs(0)
    [] Fam = "joinerr"  -> JoinErrCfgs(0)
    [] Fam = "traverse" -> TraverseCfgs(0)
    [] Fam = "toerror"  -> ToErrorCfgs(0)
    [] Fam = "plumb"    -> {c \in PlumbCfgs(0) : PlumbOK(c)}
    [] Fam = "fmap"     -> FmapCfgs(0)
    [] Fam = "fmapstr"  -> FmapStrCfgs(0)
    [] Fam = "join"     -> JoinCfgs(0) \cup JoinLenCfgs(0)
    [] Fam = "joinstr"  -> JoinStrCfgs(0)
    [] Fam = "mem"      -> MemCfgs(0)

\* the free environment: everything the environment may choose
FreeEnv(c, st) ==
  CASE Fam = "compose"  -> 0..c.n
    [] Fam = "fmaperr"  -> 0..c.n
    [] Fam = "joinerr"  -> JoinErrEnv
    [] Fam = "traverse" -> 0..c.len
    [] Fam = "toerror"  -> BOOLEAN
    [] Fam = "mem"      -> MemFreeEnv(c, st)
    [] OTHER            -> {}

Init == cfg \in Configs /\ s = MInit(Fam, cfg)
Next == s' \in MNext(Fam, cfg, s, FreeEnv(cfg, s)) /\ UNCHANGED cfg
Spec == Init /\ [][Next]_vars

Terminal == MNext(Fam, cfg, s, FreeEnv(cfg, s)) = {}
H  == MHist(Fam, cfg, s)
In == MIn(Fam, s)

-----------------------------------------------------------------------------
\* (a) |= (b): every behaviour of the machine satisfies every clause of the property
ClausesHold == Terminal => (Failing(MProps(Fam, cfg, In, H)) = {} /\ MBinding(Fam, cfg, In, H))

\* the pinned environment reproduces exactly this behaviour (what FunTrace relies on)
Replayable == Terminal => IsBehaviour(Fam, cfg, In, H)

\* machine-level invariants, on every (also non-terminal) state
CallsOf == IF Fam = "mem" THEN <<>> ELSE IF Fam \in ConcatFams THEN <<>> ELSE s.calls
NoCallAfterFailure == \A i \in FailedIn(CallsOf) : i = Len(CallsOf)
StagesInOrderOnce ==
  Fam \in ChainFams => FsOf(s.calls) = Iota(Len(s.calls))
ErrorOnlyFromFailure ==
  (Fam \in ChainFams \cup {"traverse"} /\ s.done) => ((s.err # 0) <=> (FailedIn(s.calls) # {}))
MemInvariants ==
  Fam = "mem" => (MemAtMostOnce(cfg, s) /\ MemObservationallyF(cfg, s) /\ MemSeenIsEvaluated(cfg, s))
PlumbInvariants ==
  (Fam = "plumb" /\ s.done) => UncurryCurryIsF(cfg, H)
StringInvariants ==
  Fam = "fmapstr" => (Len(cfg.elems) = Len(cfg.groups) /\ Len(cfg.input) >= Len(cfg.elems))

\* one JSON line per terminal state = one test case
Export ==
  Terminal => CSVWrite("%1$s", <<ToJson([fam |-> Fam, cfg |-> cfg, in |-> In, exp |-> H])>>, IOEnv.VERIF_OUT)
=============================================================================
