------------------------------ MODULE FuncSem ------------------------------
(***************************************************************************)
(* Call-history semantics of goderive's functional helper families         *)
(* (properties C15..C18).                                                  *)
(*                                                                         *)
(* A derived wrapper is called by a test; while it runs it calls           *)
(* instrumented user functions ("inner calls"); then it returns.  What is  *)
(* observable is a HISTORY: the sequence of inner calls, each with its     *)
(* projected arguments and results, and the wrapper's return vector.       *)
(*                                                                         *)
(* Values are projected to integers: 0 is the zero value of the value's    *)
(* type (nil pointer/slice/map/interface/error, 0, "", false, S{}, [2]T{}),*)
(* k > 0 is "token k" (the k-th distinct non-zero value of that type, with *)
(* identity for pointers, slices, maps and errors), k < 0 is anything      *)
(* else (a value that is neither zero nor a token handed out by the        *)
(* harness).  A call is [f, args, res, err]: f is the id of the            *)
(* instrumented function, err its error result (0 = nil / none).           *)
(*                                                                         *)
(* For every family this module gives two things:                          *)
(*  (a) a small STATE MACHINE  XInit(cfg), XNext(cfg, s, env)  whose       *)
(*      behaviours are the histories the property allows.  env restricts   *)
(*      the environment's choices (which stage fails, which call comes     *)
(*      next): FunMC leaves it free and explores every behaviour,          *)
(*      FunTrace pins it to the choices of the executed case.              *)
(*  (b) the property's clauses as DECLARATIVE predicates XProps(cfg,in,h)  *)
(*      over an arbitrary observed history h: a set of <<name, holds>>.    *)
(* FunMC checks (a) |= (b) and exports every behaviour as a test case;     *)
(* FunTrace judges histories of the real generated code by (b) and by      *)
(* membership in (a).                                                      *)
(***************************************************************************)
EXTENDS Integers, Sequences, FiniteSets, TLC

Zeros(n)     == [i \in 1..n |-> 0]
Iota(n)      == [i \in 1..n |-> i]
FsOf(calls)  == [i \in DOMAIN calls |-> calls[i].f]
ArgsOf(calls) == [i \in DOMAIN calls |-> calls[i].args]
FailedIn(calls) == {i \in DOMAIN calls : calls[i].err # 0}
MinOf(S)     == CHOOSE x \in S : \A y \in S : x <= y
FrontOf(s)   == SubSeq(s, 1, Len(s) - 1)
LastOf(s)    == s[Len(s)]
Failing(ps)  == {p[1] : p \in {q \in ps : ~q[2]}}      \* names of the clauses that do not hold

RECURSIVE FlattenSeq(_)
FlattenSeq(ss) == IF ss = <<>> THEN <<>> ELSE Head(ss) \o FlattenSeq(Tail(ss))

Call(f, args, res, err) == [f |-> f, args |-> args, res |-> res, err |-> err]

-----------------------------------------------------------------------------
(***************************************************************************)
(* C16  Chain: Compose(n stages, arities, failAt) and the error form of    *)
(* Fmap (two stages g;f where only g can fail).                            *)
(*   cfg.n       number of stages                                          *)
(*   cfg.args    the wrapper's arguments = stage 1's arguments             *)
(*   cfg.stages  [res, part, err, canfail] per stage: results on success,  *)
(*               (non-zero) partial results and error token on failure     *)
(*   cfg.nres    number of non-error results of the wrapper                *)
(*   cfg.thunk   the results come back inside a func() (Fmap, >= 2 results)*)
(*   in.fail     which stage fails (0 = none)                              *)
(***************************************************************************)
ChainInit(cfg) ==
  [pc |-> 1, cur |-> cfg.args, calls |-> <<>>, fail |-> 0, done |-> FALSE,
   ret |-> <<>>, err |-> 0, thunknil |-> FALSE]

\* env = set of permitted values of "the stage that fails"
ChainNext(cfg, s, env) ==
  IF s.done THEN {}
  ELSE IF s.fail # 0 THEN
       \* the wrapper stops: zero values and exactly that stage's error
       {[s EXCEPT !.done = TRUE, !.ret = Zeros(cfg.nres), !.err = cfg.stages[s.fail].err,
                  !.thunknil = cfg.thunk]}
  ELSE IF s.pc > cfg.n THEN
       \* all stages succeeded: the last results, nil error
       {[s EXCEPT !.done = TRUE, !.ret = s.cur, !.err = 0]}
  ELSE LET g  == cfg.stages[s.pc]
           ok == [s EXCEPT !.pc = @ + 1, !.cur = g.res,
                           !.calls = Append(@, Call(s.pc, s.cur, g.res, 0))]
           ko == [s EXCEPT !.fail = s.pc,
                           !.calls = Append(@, Call(s.pc, s.cur, g.part, g.err))]
       IN  (IF \E c \in env : c = 0 \/ c > s.pc THEN {ok} ELSE {})
           \cup (IF g.canfail /\ s.pc \in env THEN {ko} ELSE {})

\* pre: the call log at the moment the wrapper returned, BEFORE any returned function value is touched;
\* ret / ret2: what the returned function yields when invoked a first and a second time (the returned values
\* themselves when the wrapper returns no function); calls: the log after all that.  The stages are evaluated
\* when the wrapper runs, each exactly once: a returned function only hands out the stored results.
ChainHist(s) == [calls |-> s.calls, ret |-> s.ret, err |-> s.err, thunknil |-> s.thunknil,
                 pre |-> s.calls, ret2 |-> s.ret]

\* the hand-written sequential composition: feed the arguments through the stages
RECURSIVE Feed(_, _, _)
Feed(cfg, i, vals) == IF i > cfg.n THEN vals ELSE Feed(cfg, i + 1, cfg.stages[i].res)
SeqComp(cfg) == Feed(cfg, 1, cfg.args)

ChainProps(cfg, in, h) ==
  LET k      == Len(h.calls)
      failed == FailedIn(h.calls)
  IN {
   <<"stages are not evaluated left to right, each exactly once",
       FsOf(h.calls) = Iota(k) /\ k <= cfg.n /\ (failed = {} => k = cfg.n)>>,
   <<"a stage is called after an earlier stage has failed",
       \A i \in failed : i = k>>,
   <<"a stage does not receive the previous results unchanged",
       \A i \in 1..k : h.calls[i].args = (IF i = 1 THEN cfg.args ELSE h.calls[i-1].res)>>,
   <<"the error returned is not exactly the first failing stage's error",
       h.err = (IF failed = {} THEN 0 ELSE h.calls[MinOf(failed)].err)>>,
   <<"non-error results are not zero values after a failure",
       failed # {} => (h.ret = Zeros(cfg.nres) /\ (cfg.thunk => h.thunknil))>>,
   <<"the result differs from the sequential composition",
       (failed = {} /\ k = cfg.n) => (h.ret = SeqComp(cfg) /\ ~h.thunknil)>>,
   <<"a stage is evaluated by the returned function instead of exactly once when the wrapper runs",
       h.pre = h.calls /\ h.ret2 = h.ret>> }

\* did the instrumented functions do what the case prescribes? (harness binding, not a verdict on goderive)
ChainBinding(cfg, in, h) ==
  \A i \in DOMAIN h.calls :
     LET c == h.calls[i] IN
     /\ c.f \in 1..cfg.n
     /\ (c.f = in.fail) <=> (c.err # 0)
     /\ c.err # 0 => (c.err = cfg.stages[c.f].err /\ c.res = cfg.stages[c.f].part)
     /\ c.err = 0 => c.res = cfg.stages[c.f].res

-----------------------------------------------------------------------------
(***************************************************************************)
(* C16  error form of Join:  deriveJoin(f func() (T..., error), err error)  *)
(*   in.outer   the error argument (0 = nil)                               *)
(*   in.ffail   whether f fails                                            *)
(* The two "stages" are the already evaluated error argument and f.        *)
(* When f itself - the LAST stage - fails, the statement's clauses         *)
(* "results are passed on unchanged" and "non-error results are zero"      *)
(* both apply to what f returned next to its error; either is accepted.    *)
(***************************************************************************)
JoinErrInit(cfg) == [done |-> FALSE, calls |-> <<>>, ret |-> <<>>, err |-> 0, e |-> [outer |-> 0, ffail |-> FALSE]]

\* env = set of permitted [outer, ffail]
JoinErrNext(cfg, s, env) ==
  IF s.done THEN {}
  ELSE UNION {
    IF e.outer # 0
    THEN {[s EXCEPT !.done = TRUE, !.e = e, !.ret = Zeros(cfg.t), !.err = e.outer]}
    ELSE IF e.ffail
    THEN {[s EXCEPT !.done = TRUE, !.e = e, !.calls = <<Call(1, <<>>, cfg.fpart, cfg.ferr)>>, !.ret = r, !.err = cfg.ferr]
            : r \in {cfg.fpart, Zeros(cfg.t)}}
    ELSE {[s EXCEPT !.done = TRUE, !.e = e, !.calls = <<Call(1, <<>>, cfg.fres, 0)>>, !.ret = cfg.fres, !.err = 0]}
    : e \in env }

JoinErrHist(s) == [calls |-> s.calls, ret |-> s.ret, err |-> s.err]

JoinErrProps(cfg, in, h) ==
  LET k == Len(h.calls) IN {
   <<"f is called although the error argument is not nil", in.outer # 0 => k = 0>>,
   <<"stages are not evaluated left to right, each exactly once", in.outer = 0 => k = 1>>,
   <<"the error returned is not exactly the first failing stage's error",
       h.err = (IF in.outer # 0 THEN in.outer ELSE IF k >= 1 THEN h.calls[1].err ELSE 0)>>,
   <<"non-error results are not zero values after a failure", in.outer # 0 => h.ret = Zeros(cfg.t)>>,
   <<"the results of f are not passed on unchanged",
       (in.outer = 0 /\ k = 1) =>
           (IF h.calls[1].err = 0 THEN h.ret = h.calls[1].res
            ELSE h.ret \in {h.calls[1].res, Zeros(cfg.t)})>> }

JoinErrBinding(cfg, in, h) ==
  \A i \in DOMAIN h.calls :
     LET c == h.calls[i] IN
     /\ c.f = 1 /\ c.args = <<>>
     /\ IF in.ffail THEN c.err = cfg.ferr /\ c.res = cfg.fpart ELSE c.err = 0 /\ c.res = cfg.fres

-----------------------------------------------------------------------------
(***************************************************************************)
(* C16  Traverse(len, failAt): f over the elements in order, stop at the   *)
(* first failure with a NIL slice and exactly that error.                  *)
(*   cfg.elems, cfg.outs, cfg.parts, cfg.errs   per index                  *)
(*   cfg.input  the projected input list [nil, es]                         *)
(*   in.fail    index of the failing element (0 = none)                    *)
(* A slice is projected as [nil, es].  For an empty input the statement    *)
(* does not say whether the (empty) result is nil: both are behaviours.    *)
(***************************************************************************)
NilSl == [nil |-> TRUE, es |-> <<>>]
Sl(es) == [nil |-> FALSE, es |-> es]

TraverseInit(cfg) == [i |-> 1, calls |-> <<>>, fail |-> 0, done |-> FALSE, out |-> NilSl, err |-> 0]

TraverseNext(cfg, s, env) ==
  LET n == Len(cfg.elems) IN
  IF s.done THEN {}
  ELSE IF s.fail # 0 THEN {[s EXCEPT !.done = TRUE, !.out = NilSl, !.err = cfg.errs[s.fail]]}
  ELSE IF s.i > n THEN
       {[s EXCEPT !.done = TRUE, !.err = 0, !.out = [nil |-> b, es |-> [j \in 1..n |-> cfg.outs[j]]]]
          : b \in (IF n = 0 THEN BOOLEAN ELSE {FALSE})}
  ELSE LET ok == [s EXCEPT !.i = @ + 1, !.calls = Append(@, Call(1, <<cfg.elems[s.i]>>, <<cfg.outs[s.i]>>, 0))]
           ko == [s EXCEPT !.fail = s.i, !.calls = Append(@, Call(1, <<cfg.elems[s.i]>>, <<cfg.parts[s.i]>>, cfg.errs[s.i]))]
       IN  (IF \E c \in env : c = 0 \/ c > s.i THEN {ok} ELSE {})
           \cup (IF s.i \in env THEN {ko} ELSE {})

TraverseHist(s) == [calls |-> s.calls, out |-> s.out, err |-> s.err]

TraverseProps(cfg, in, h) ==
  LET k      == Len(h.calls)
      n      == Len(cfg.elems)
      failed == FailedIn(h.calls)
  IN {
   <<"stages are not evaluated left to right, each exactly once",
       k <= n /\ ArgsOf(h.calls) = [i \in 1..k |-> <<cfg.elems[i]>>] /\ (failed = {} => k = n)>>,
   <<"a stage is called after an earlier stage has failed", \A i \in failed : i = k>>,
   <<"the error returned is not exactly the first failing stage's error",
       h.err = (IF failed = {} THEN 0 ELSE h.calls[MinOf(failed)].err)>>,
   <<"the result is not a nil slice after a failure", failed # {} => h.out = NilSl>>,
   <<"the result differs from the sequential composition",
       (failed = {} /\ k = n) => h.out.es = [i \in 1..n |-> h.calls[i].res[1]]>> }

TraverseBinding(cfg, in, h) ==
  \A i \in DOMAIN h.calls :
     LET c == h.calls[i] IN
     /\ c.f = 1
     /\ i <= Len(cfg.elems) =>
          /\ (i = in.fail) <=> (c.err # 0)
          /\ c.err # 0 => (c.err = cfg.errs[i] /\ c.res = <<cfg.parts[i]>>)
          /\ c.err = 0 => c.res = <<cfg.outs[i]>>

-----------------------------------------------------------------------------
(***************************************************************************)
(* C16  ToError: f's other results pass through; nil iff f reports true,   *)
(* otherwise exactly the supplied error.  f's bool is the last entry of    *)
(* its logged results (1 = true, 0 = false).                               *)
(***************************************************************************)
ToErrorInit(cfg) == [done |-> FALSE, ok |-> TRUE, calls |-> <<>>, ret |-> <<>>, err |-> 0]

\* env = set of permitted outcomes of f (BOOLEAN)
ToErrorNext(cfg, s, env) ==
  IF s.done THEN {}
  ELSE {[s EXCEPT !.done = TRUE, !.ok = ok,
                  !.calls = <<Call(1, cfg.args, Append(cfg.res, IF ok THEN 1 ELSE 0), 0)>>,
                  !.ret = cfg.res, !.err = IF ok THEN 0 ELSE cfg.errtok] : ok \in env}

ToErrorHist(s) == [calls |-> s.calls, ret |-> s.ret, err |-> s.err]

ToErrorProps(cfg, in, h) ==
  LET k == Len(h.calls) IN {
   <<"f is not called exactly once", k = 1>>,
   <<"an argument does not arrive in its proper position", k >= 1 => h.calls[1].args = cfg.args>>,
   <<"the other results of f are not passed through unchanged", k = 1 => h.ret = FrontOf(h.calls[1].res)>>,
   <<"the error is not nil although f reported true", (k = 1 /\ LastOf(h.calls[1].res) = 1) => h.err = 0>>,
   <<"the error is not exactly the supplied error although f reported false",
       (k = 1 /\ LastOf(h.calls[1].res) = 0) => h.err = cfg.errtok>> }

ToErrorBinding(cfg, in, h) ==
  \A i \in DOMAIN h.calls :
     h.calls[i].f = 1 /\ h.calls[i].res = Append(cfg.res, IF in.ok THEN 1 ELSE 0) /\ h.calls[i].err = 0

-----------------------------------------------------------------------------
(***************************************************************************)
(* C15  Plumb(kind, n): Curry, Uncurry, Flip, Apply, Tuple only re-plumb.  *)
(*   cfg.wargs  the arguments in the order the test supplies them:         *)
(*      curry   w(x1)(x2..xn)              wargs = x1..xn                  *)
(*      flip    w(x1, x2, x3..xn)          wargs = x1..xn                  *)
(*      apply   deriveApply(f, b)(x1..)    wargs = b, x1..x(n-1)           *)
(*      uncurry w(x1..xn), g(x1)(x2..xn)   wargs = x1..xn                  *)
(*      unccur  Uncurry(Curry(f))(x1..xn)  wargs = x1..xn                  *)
(*      tuple   deriveTuple(x1..xn)()      wargs = x1..xn                  *)
(*   cfg.fres   what the original function returns                        *)
(* Function ids: 1 = f (or, for uncurry, the outer function g),            *)
(* 2 = the function returned by g.                                         *)
(***************************************************************************)
PlumbKinds == {"curry", "uncurry", "flip", "apply", "tuple", "unccur"}

\* the spec's permutation: what the original function must receive
PlumbArgs(kind, w) ==
  CASE kind = "flip"  -> <<w[2], w[1]>> \o SubSeq(w, 3, Len(w))
    [] kind = "apply" -> Tail(w) \o <<Head(w)>>
    [] OTHER          -> w

PlumbInit(cfg) == [pc |-> 1, done |-> FALSE, calls |-> <<>>, ret |-> <<>>]

PlumbNext(cfg, s, env) ==
  IF s.done THEN {}
  ELSE IF cfg.kind = "tuple" THEN {[s EXCEPT !.done = TRUE, !.ret = cfg.wargs]}
  ELSE IF cfg.kind = "uncurry" THEN
       IF s.pc = 1
       THEN {[s EXCEPT !.pc = 2, !.calls = <<Call(1, <<Head(cfg.wargs)>>, <<>>, 0)>>]}
       ELSE {[s EXCEPT !.done = TRUE, !.calls = Append(@, Call(2, Tail(cfg.wargs), cfg.fres, 0)), !.ret = cfg.fres]}
  ELSE {[s EXCEPT !.done = TRUE, !.calls = <<Call(1, PlumbArgs(cfg.kind, cfg.wargs), cfg.fres, 0)>>, !.ret = cfg.fres]}

\* early: number of calls logged before the returned function was called with its (last) arguments
PlumbHist(s) == [calls |-> s.calls, ret |-> s.ret, early |-> 0]

\* all arguments the original function(s) received, in order of receipt
Received(calls) == FlattenSeq(ArgsOf(calls))

PlumbProps(cfg, in, h) ==
  LET k == Len(h.calls) IN
  IF cfg.kind = "tuple"
  THEN { <<"Tuple calls a function", k = 0 /\ h.early = 0>>,
         <<"Tuple does not yield exactly its arguments", h.ret = cfg.wargs>> }
  ELSE {
   <<"the original function is not invoked exactly once",
       FsOf(h.calls) = (IF cfg.kind = "uncurry" THEN <<1, 2>> ELSE <<1>>)>>,
   <<"an argument does not arrive in its proper position",
       Received(h.calls) = PlumbArgs(cfg.kind, cfg.wargs)
       /\ (cfg.kind = "uncurry" /\ k >= 1 => Len(h.calls[1].args) = 1)>>,
   <<"the results are not returned unchanged", k >= 1 => h.ret = h.calls[k].res>>,
   <<"the original function is invoked before the returned function is called", h.early = 0>> }

PlumbBinding(cfg, in, h) ==
  \A i \in DOMAIN h.calls :
     LET c == h.calls[i] IN
     c.err = 0 /\ c.res = (IF cfg.kind = "uncurry" /\ c.f = 1 THEN <<>> ELSE cfg.fres)

\* Uncurry(Curry(f)) == f : the composite's history is f's own history
UncurryCurryIsF(cfg, h) ==
  cfg.kind = "unccur" => h = [calls |-> <<Call(1, cfg.wargs, cfg.fres, 0)>>, ret |-> cfg.fres, early |-> 0]

-----------------------------------------------------------------------------
(***************************************************************************)
(* C17  MapOver: Fmap over a slice, and over the RUNES of a string.        *)
(* A string is a sequence of byte groups; a group is a valid 1-4 byte      *)
(* encoding or a single invalid byte, so byte length # rune count.         *)
(***************************************************************************)
Groups == {"a", "e2", "e3", "e4", "xff", "xc3", "x80"}
BytesOfGroup(g) ==
  CASE g = "a"   -> <<97>>                      \* 'a'
    [] g = "e2"  -> <<195, 169>>                \* U+00E9
    [] g = "e3"  -> <<226, 130, 172>>           \* U+20AC
    [] g = "e4"  -> <<240, 159, 152, 128>>      \* U+1F600
    [] g = "xff" -> <<255>>                     \* never valid
    [] g = "xc3" -> <<195>>                     \* lead byte without continuation
    [] g = "x80" -> <<128>>                     \* stray continuation byte
RuneOfGroup(g) ==
  CASE g = "a"  -> 97
    [] g = "e2" -> 233
    [] g = "e3" -> 8364
    [] g = "e4" -> 128512
    [] OTHER    -> 65533                        \* utf8.RuneError

BytesOf(gs) == FlattenSeq([i \in DOMAIN gs |-> BytesOfGroup(gs[i])])
RunesOf(gs) == [i \in DOMAIN gs |-> RuneOfGroup(gs[i])]
\* a lead byte followed by a continuation byte would fuse into one rune: such strings are not
\* "sequences of groups" in the sense above
WellGrouped(gs) == \A i \in 1..(Len(gs) - 1) : ~(gs[i] = "xc3" /\ gs[i+1] = "x80")

\* cfg.elems: what f must see (slice elements, or RunesOf), cfg.outs: what f returns per call
\* cfg.input: the projected input ([nil, es] for a slice, the bytes for a string)
MapInit(cfg) == [i |-> 1, calls |-> <<>>, done |-> FALSE, out |-> NilSl]

MapNext(cfg, s, env) ==
  LET n == Len(cfg.elems) IN
  IF s.done THEN {}
  ELSE IF s.i > n THEN
       {[s EXCEPT !.done = TRUE, !.out = [nil |-> b, es |-> [j \in 1..n |-> cfg.outs[j]]]]
          : b \in (IF n = 0 THEN BOOLEAN ELSE {FALSE})}
  ELSE {[s EXCEPT !.i = @ + 1, !.calls = Append(@, Call(1, <<cfg.elems[s.i]>>, <<cfg.outs[s.i]>>, 0))]}

MapHist(cfg, s) == [calls |-> s.calls, out |-> s.out, inb |-> cfg.input, ina |-> cfg.input]

MapProps(cfg, in, h) ==
  LET k == Len(h.calls)
      n == Len(cfg.elems)
  IN {
   <<"the result does not have the length of the input", Len(h.out.es) = n /\ (n > 0 => ~h.out.nil)>>,
   <<"f is not called once per element, in order", ArgsOf(h.calls) = [i \in 1..n |-> <<cfg.elems[i]>>]>>,
   <<"the i-th result is not f of the i-th element",
       (k = n /\ Len(h.out.es) = n) => h.out.es = [i \in 1..n |-> h.calls[i].res[1]]>>,
   <<"the input is modified", h.ina = h.inb>> }

MapBinding(cfg, in, h) ==
  /\ h.inb = cfg.input
  /\ \A i \in DOMAIN h.calls : h.calls[i].f = 1 /\ h.calls[i].err = 0 /\ (i <= Len(cfg.outs) => h.calls[i].res = <<cfg.outs[i]>>)

-----------------------------------------------------------------------------
(***************************************************************************)
(* C17  Concat: Join of a slice of slices (nil for nil) and of strings.    *)
(*   cfg.input = [nil, ls] with ls a sequence of [nil, es, spare]          *)
(*   (spare = the elements between len and cap: part of the input's        *)
(*   memory, must not be written), or [nil, ls] with ls a sequence of      *)
(*   byte sequences for strings.                                           *)
(***************************************************************************)
ConcatOf(cfg) ==
  IF cfg.str THEN FlattenSeq(cfg.input.ls)
  ELSE FlattenSeq([i \in DOMAIN cfg.input.ls |-> cfg.input.ls[i].es])

ConcatInit(cfg) == [done |-> FALSE, out |-> NilSl]

ConcatNext(cfg, s, env) ==
  IF s.done THEN {}
  ELSE LET c == ConcatOf(cfg) IN
       {[s EXCEPT !.done = TRUE, !.out = [nil |-> b, es |-> c]]
          : b \in (IF cfg.str THEN {FALSE}                    \* a string is never nil
                   ELSE IF cfg.input.nil THEN {TRUE}           \* nil for nil
                   ELSE IF c = <<>> THEN BOOLEAN ELSE {FALSE})}

ConcatHist(cfg, s) == [out |-> s.out, inb |-> cfg.input, ina |-> cfg.input]

ConcatProps(cfg, in, h) == {
   <<"the result is not the concatenation in order", h.out.es = ConcatOf(cfg)>>,
   <<"the result is not nil for a nil input", (~cfg.str /\ cfg.input.nil) => h.out.nil>>,
   <<"the input is modified", h.ina = h.inb>> }

ConcatBinding(cfg, in, h) == h.inb = cfg.input

-----------------------------------------------------------------------------
(***************************************************************************)
(* C18  Mem: state = the set of argument Eq-classes already evaluated.     *)
(* Call(c) either invokes f exactly once (only if c is new) or replays     *)
(* the stored results without invoking f.                                  *)
(*   cfg.r      number of results                                          *)
(*   cfg.A[c]   projected argument tuple of class c (content, not          *)
(*              identity: representatives of a class project alike)        *)
(*   cfg.F[c]   what f returns for class c                                 *)
(*   cfg.dep[c] RE-ENTRANCY: while it runs, f(c) itself calls the          *)
(*              memoized function once on class dep[c] (0 = it does not);  *)
(*              dep is acyclic (recursive memoization, e.g. fib)           *)
(*   in.seq     the top-level call sequence: [c, rep]                      *)
(* The history of one top-level call is the flat log, in order of entry,   *)
(* of f = 1: an invocation of f, and f = 2: a call of the memoized         *)
(* function made from inside f (args = its arguments, res = what it        *)
(* returned to f).  The clauses range over the whole nested history.       *)
(* With no results there is nothing to replay: the statement then only     *)
(* demands at most one invocation per class.                               *)
(***************************************************************************)
MemInit(cfg) == [seen |-> {}, steps |-> <<>>, script |-> <<>>]

\* the possible outcomes [calls, seen] of calling the memoized function on class c
RECURSIVE MemEval(_, _, _)
MemEval(cfg, c, seen) ==
  (IF c \in seen \/ cfg.r = 0 THEN {[calls |-> <<>>, seen |-> seen]} ELSE {})        \* replay
  \cup
  (IF c \in seen THEN {}
   ELSE LET d  == cfg.dep[c]                                                          \* invoke f exactly once
            me == Call(1, cfg.A[c], cfg.F[c], 0) IN
        IF d = 0 THEN {[calls |-> <<me>>, seen |-> seen \cup {c}]}
        ELSE {[calls |-> <<me, Call(2, cfg.A[d], cfg.F[d], 0)>> \o n.calls, seen |-> n.seen]
                 : n \in MemEval(cfg, d, seen \cup {c})})

\* env = set of permitted next top-level calls [c, rep]  ({} = the test stops here)
MemNext(cfg, s, env) ==
  UNION {{[s EXCEPT !.seen = o.seen, !.script = Append(@, e),
                    !.steps = Append(@, [calls |-> o.calls, ret |-> cfg.F[e.c]])]
            : o \in MemEval(cfg, e.c, s.seen)} : e \in env}

MemHist(s) == [steps |-> s.steps]

\* class of a projected argument tuple (0 = none of the case's classes)
ClassOf(cfg, args) == LET S == {c \in DOMAIN cfg.A : cfg.A[c] = args} IN IF S = {} THEN 0 ELSE CHOOSE c \in S : TRUE
\* classes f was invoked for in the calls cs
InvokedIn(cfg, cs) == {ClassOf(cfg, cs[i].args) : i \in {x \in DOMAIN cs : cs[x].f = 1}}
\* classes f has been invoked for in steps 1..j-1 of an observed history
InvokedBefore(cfg, in, h, j) == UNION {InvokedIn(cfg, h.steps[i].calls) : i \in 1..(j-1)}
\* ... and before entry i of step j
InvokedUpTo(cfg, in, h, j, i) == InvokedBefore(cfg, in, h, j) \cup InvokedIn(cfg, SubSeq(h.steps[j].calls, 1, i - 1))

MemStepProps(cfg, in, h, j) ==
  LET st  == h.steps[j]
      c   == in.seq[j].c
      cs  == st.calls
      \* the class whose evaluation is requested right before entry i: the top-level class, or that of a nested call
      req(i) == IF i = 1 THEN c ELSE IF cs[i-1].f = 2 THEN ClassOf(cfg, cs[i-1].args) ELSE 0
  IN {
   <<"the memoized function returns something else than f for these arguments",
       st.ret = cfg.F[c] /\ \A i \in DOMAIN cs : cs[i].f = 2 =>
           (ClassOf(cfg, cs[i].args) # 0 /\ cs[i].res = cfg.F[ClassOf(cfg, cs[i].args)])>>,
   <<"f is invoked more than once for Equal arguments",
       \A i \in DOMAIN cs : cs[i].f = 1 => ClassOf(cfg, cs[i].args) \notin InvokedUpTo(cfg, in, h, j, i)>>,
   <<"f is not invoked although no Equal arguments were evaluated before (the results cannot be f's)",
       cfg.r > 0 =>
         /\ c \notin InvokedBefore(cfg, in, h, j) => (cs # <<>> /\ cs[1].f = 1)
         /\ \A i \in DOMAIN cs : (cs[i].f = 2 /\ ClassOf(cfg, cs[i].args) \notin InvokedUpTo(cfg, in, h, j, i))
                                   => (i < Len(cs) /\ cs[i+1].f = 1)>>,
   <<"f is invoked with other arguments than the memoized function received",
       \A i \in DOMAIN cs : cs[i].f = 1 => (req(i) # 0 /\ cs[i].args = cfg.A[req(i)])>> }

\* the instrumented f: returns F[class], and calls the memoized function on dep[class] right after it was entered
MemBinding(cfg, in, h) ==
  /\ Len(h.steps) <= Len(in.seq)
  /\ \A j \in DOMAIN h.steps :
       LET cs == h.steps[j].calls IN
       \A i \in DOMAIN cs :
          /\ cs[i].f \in {1, 2} /\ cs[i].err = 0
          /\ cs[i].f = 1 =>
               LET k == ClassOf(cfg, cs[i].args) IN
               k # 0 => /\ cs[i].res = cfg.F[k]
                        /\ cfg.dep[k] # 0 => (i < Len(cs) /\ cs[i+1].f = 2 /\ cs[i+1].args = cfg.A[cfg.dep[k]])
          /\ cs[i].f = 2 => (i > 1 /\ cs[i-1].f = 1)

\* invariants of the machine itself
AllCalls(s) == FlattenSeq([j \in DOMAIN s.steps |-> s.steps[j].calls])
MemAtMostOnce(cfg, s) ==
  LET cs == AllCalls(s) IN
  \A c \in DOMAIN cfg.A : Cardinality({i \in DOMAIN cs : cs[i].f = 1 /\ cs[i].args = cfg.A[c]}) <= 1
MemObservationallyF(cfg, s) ==
  /\ \A j \in DOMAIN s.steps : s.steps[j].ret = cfg.F[s.script[j].c]
  /\ LET cs == AllCalls(s) IN \A i \in DOMAIN cs : cs[i].f = 2 => cs[i].res = cfg.F[ClassOf(cfg, cs[i].args)]
MemSeenIsEvaluated(cfg, s) == s.seen = InvokedIn(cfg, AllCalls(s))

-----------------------------------------------------------------------------
(***************************************************************************)
(* Dispatch by family name (shared by FunMC and FunTrace).                 *)
(***************************************************************************)
ChainFams  == {"compose", "fmaperr"}
MapFams    == {"fmap", "fmapstr"}
ConcatFams == {"join", "joinstr"}
Families   == ChainFams \cup MapFams \cup ConcatFams \cup {"joinerr", "traverse", "toerror", "plumb", "mem"}

MInit(fam, cfg) ==
  CASE fam \in ChainFams  -> ChainInit(cfg)
    [] fam = "joinerr"    -> JoinErrInit(cfg)
    [] fam = "traverse"   -> TraverseInit(cfg)
    [] fam = "toerror"    -> ToErrorInit(cfg)
    [] fam = "plumb"      -> PlumbInit(cfg)
    [] fam \in MapFams    -> MapInit(cfg)
    [] fam \in ConcatFams -> ConcatInit(cfg)
    [] fam = "mem"        -> MemInit(cfg)

MNext(fam, cfg, s, env) ==
  CASE fam \in ChainFams  -> ChainNext(cfg, s, env)
    [] fam = "joinerr"    -> JoinErrNext(cfg, s, env)
    [] fam = "traverse"   -> TraverseNext(cfg, s, env)
    [] fam = "toerror"    -> ToErrorNext(cfg, s, env)
    [] fam = "plumb"      -> PlumbNext(cfg, s, env)
    [] fam \in MapFams    -> MapNext(cfg, s, env)
    [] fam \in ConcatFams -> ConcatNext(cfg, s, env)
    [] fam = "mem"        -> MemNext(cfg, s, env)

MHist(fam, cfg, s) ==
  CASE fam \in ChainFams  -> ChainHist(s)
    [] fam = "joinerr"    -> JoinErrHist(s)
    [] fam = "traverse"   -> TraverseHist(s)
    [] fam = "toerror"    -> ToErrorHist(s)
    [] fam = "plumb"      -> PlumbHist(s)
    [] fam \in MapFams    -> MapHist(cfg, s)
    [] fam \in ConcatFams -> ConcatHist(cfg, s)
    [] fam = "mem"        -> MemHist(s)

\* the environment's choices of a (terminal) state: the test input beyond cfg
NoIn == [none |-> 0]
MIn(fam, s) ==
  CASE fam \in ChainFams  -> [fail |-> s.fail]
    [] fam = "joinerr"    -> s.e
    [] fam = "traverse"   -> [fail |-> s.fail]
    [] fam = "toerror"    -> [ok |-> s.ok]
    [] fam = "mem"        -> [seq |-> s.script]
    [] OTHER              -> NoIn

\* the environment pinned to the choices of an executed case
ScriptEnv(fam, in, s) ==
  CASE fam \in ChainFams  -> {in.fail}
    [] fam = "joinerr"    -> {in}
    [] fam = "traverse"   -> {in.fail}
    [] fam = "toerror"    -> {in.ok}
    [] fam = "mem"        -> IF Len(s.script) < Len(in.seq) THEN {in.seq[Len(s.script) + 1]} ELSE {}
    [] OTHER              -> {}

MemAllProps(cfg, in, h) ==
  UNION {MemStepProps(cfg, in, h, j) : j \in 1..(IF Len(h.steps) <= Len(in.seq) THEN Len(h.steps) ELSE Len(in.seq))}

MProps(fam, cfg, in, h) ==
  CASE fam \in ChainFams  -> ChainProps(cfg, in, h)
    [] fam = "joinerr"    -> JoinErrProps(cfg, in, h)
    [] fam = "traverse"   -> TraverseProps(cfg, in, h)
    [] fam = "toerror"    -> ToErrorProps(cfg, in, h)
    [] fam = "plumb"      -> PlumbProps(cfg, in, h)
    [] fam \in MapFams    -> MapProps(cfg, in, h)
    [] fam \in ConcatFams -> ConcatProps(cfg, in, h)
    [] fam = "mem"        -> MemAllProps(cfg, in, h)

MBinding(fam, cfg, in, h) ==
  CASE fam \in ChainFams  -> ChainBinding(cfg, in, h)
    [] fam = "joinerr"    -> JoinErrBinding(cfg, in, h)
    [] fam = "traverse"   -> TraverseBinding(cfg, in, h)
    [] fam = "toerror"    -> ToErrorBinding(cfg, in, h)
    [] fam = "plumb"      -> PlumbBinding(cfg, in, h)
    [] fam \in MapFams    -> MapBinding(cfg, in, h)
    [] fam \in ConcatFams -> ConcatBinding(cfg, in, h)
    [] fam = "mem"        -> MemBinding(cfg, in, h)

\* first step of a Mem history at which a clause fails (0 = none / not a Mem history)
MAt(fam, cfg, in, h) ==
  IF fam # "mem" THEN 0
  ELSE LET n  == IF Len(h.steps) <= Len(in.seq) THEN Len(h.steps) ELSE Len(in.seq)
           bs == {j \in 1..n : Failing(MemStepProps(cfg, in, h, j)) # {}}
       IN IF bs = {} THEN 0 ELSE MinOf(bs)

\* all terminal states of the machine under the scripted environment
RECURSIVE Term(_, _, _, _)
Term(fam, cfg, in, S) ==
  LET nx(s) == MNext(fam, cfg, s, ScriptEnv(fam, in, s)) IN
  IF \A s \in S : nx(s) = {} THEN S
  ELSE Term(fam, cfg, in, UNION {IF nx(s) = {} THEN {s} ELSE nx(s) : s \in S})

\* is h a behaviour of the family's machine for this case?
IsBehaviour(fam, cfg, in, h) ==
  \E t \in Term(fam, cfg, in, {MInit(fam, cfg)}) : MHist(fam, cfg, t) = h

=============================================================================
