\* default configuration (the harness writes its own run.cfg with the tier's bounds)
SPECIFICATION Spec
CONSTANTS
  Fam = "compose"
  MaxN = 3
  MaxAr = 3
  Rots2 = {0, 1, 2, 3, 4, 5, 6, 7, 8, 9}
  Rots3 = {0, 5}
  Rots4 = {0}
  Rots = {0, 1, 2, 3, 4, 5, 6, 7, 8, 9}
  MaxLen = 3
  MaxParams = 4
  MaxOuter = 2
  MaxOuterLen = 3
  LenRots = {0, 6}
  MaxSeq = 3
  MaxSeqDep = 2
  MemDeps = "few"
  MemRots = {0, 1, 2, 3, 4, 5, 6, 7, 8, 9, 10, 11, 12, 13}
INVARIANTS ClausesHold Replayable NoCallAfterFailure StagesInOrderOnce ErrorOnlyFromFailure MemInvariants PlumbInvariants StringInvariants Export
CHECK_DEADLOCK FALSE
