------------------------------ MODULE FunTrace ------------------------------
(***************************************************************************)
(* Validation of observations recorded from the REAL generated code        *)
(* (goderive's output for the functional helper families, compiled and     *)
(* executed by the harness) against FuncSem.                               *)
(*                                                                         *)
(* The observation file is NDJSON, one line per executed case or per       *)
(* generated package:                                                      *)
(*   k = "run"      [id, fam, cfg, in, obs]  cfg/in: the case as FunMC     *)
(*                  exported it; obs = [panic, h]: h the observed history  *)
(*   k = "gen"      [id, fam, ok, err]  the real goderive on the package   *)
(*   k = "compile"  [id, fam, ok, err]  the Go compiler on its output      *)
(* One action per kind; every line is consumed (l' = l + 1); a line the    *)
(* specification rejects is RECORDED in bad (line, id, clause, step).      *)
(* The verdict is the exported bad set.                                    *)
(***************************************************************************)
EXTENDS FuncSem, Json, IOUtils

Trace == ndJsonDeserialize(IOEnv.VERIF_TRACE)
N == Len(Trace)

VARIABLES l, bad
vars == <<l, bad>>

Ev == Trace[l]

RECURSIVE SeqOfSet(_)
SeqOfSet(S) == IF S = {} THEN <<>> ELSE LET x == CHOOSE y \in S : TRUE IN <<x>> \o SeqOfSet(S \ {x})

Reject(whys, at) == bad' = bad \o SeqOfSet({[l |-> l, id |-> Ev.id, why |-> w, at |-> at] : w \in whys})

\* the clauses of the property that the observed history violates
Verdict(e) ==
  LET h == e.obs.h IN
  IF e.obs.panic # "" THEN {"the generated code panics"}
  ELSE IF ~MBinding(e.fam, e.cfg, e.in, h)
       THEN {"BINDING: the instrumented functions or the recorded input differ from what the case prescribes"}
  ELSE LET failing == Failing(MProps(e.fam, e.cfg, e.in, h)) IN
       IF failing # {} THEN failing
       ELSE IF ~IsBehaviour(e.fam, e.cfg, e.in, h)
            THEN {"the history is not a behaviour of the specification's machine"}
            ELSE {}

RunLine ==
  /\ l <= N /\ Ev.k = "run" /\ l' = l + 1
  /\ Reject(Verdict(Ev), IF Ev.obs.panic # "" THEN 0 ELSE MAt(Ev.fam, Ev.cfg, Ev.in, Ev.obs.h))

\* goderive must accept every call the property's grammar contains
GenLine ==
  /\ l <= N /\ Ev.k = "gen" /\ l' = l + 1
  /\ Reject(IF Ev.ok THEN {} ELSE {"goderive fails on a call within the property's grammar"}, 0)

\* "for every signature": code that does not compile cannot have the property
CompileLine ==
  /\ l <= N /\ Ev.k = "compile" /\ l' = l + 1
  /\ Reject(IF Ev.ok THEN {} ELSE {"the generated code does not compile"}, 0)

Init == l = 1 /\ bad = <<>>
Next == RunLine \/ GenLine \/ CompileLine
Spec == Init /\ [][Next]_vars

\* export the verdict when the whole file has been consumed
Export == l = N + 1 => ndJsonSerialize(IOEnv.VERIF_OUT, bad)

\* all lines consumed: the trace specification never got stuck
TraceAccepted == TLCGet("stats").diameter - 1 = N
=============================================================================
