#!/bin/bash
# run_harmless.sh <name-in-/verif/harmless-without-.diff> <property>...
# Applies a change that keeps every property (another output order, another naming scheme, another
# constant, another buffer size) in a scratch worktree and runs the given quick checks: all must exit 0.
# These are the probes for "never raise an alarm on code where the property holds".
set -u
name=$1; shift
wt=$(mktemp -d /tmp/harmless-XXXXXX); rmdir $wt
git -C /repo worktree add -q --detach $wt HEAD || exit 2
trap 'git -C /repo worktree remove --force $wt 2>/dev/null; rm -rf $wt $wt.ev' EXIT
(cd $wt && patch -s -p1 < /verif/harmless/$name.diff) || { echo "patch does not apply"; exit 2; }
cd /verif
for p in "$@"; do
  out=$(VERIF_REPO=$wt VERIF_DIR=/verif VERIF_EVIDENCE_DIR=$wt.ev ${VCHECK:-bin/vcheck} $p --tier quick 2>&1); rc=$?
  echo "$name $p exit=$rc violations=$(echo "$out" | grep -c '^VIOLATION') $(echo "$out" | grep -m1 'witness:\|INFRA-ERROR' | cut -c1-260)"
done
