#!/bin/bash
# retest_all.sh [glob]: re-runs every seeded change (default all) against its own property's quick check with
# the current bin/vcheck and rewrites seeded/<name>/detection.txt (history of earlier lines kept under "earlier:").
# Retired changes (meta.json has "retired") are skipped.
cd /verif
pat=${1:-*}
for d in seeded/$pat/; do
  name=$(basename $d); prop=${name%%-*}
  python3 -c "import json,sys;sys.exit(0 if 'retired' in json.load(open('$d/meta.json')) else 1)" && continue
  line=$(VCHECK=bin/vcheck tools/run_mutant.sh $name quick $prop 2>&1 | tail -1)
  case "$line" in
    *"exit=1"*) ;;
    *) # not reported at quick: try the thorough tier of the same check
       line2=$(VCHECK=bin/vcheck VERIF_THOROUGH_BUDGET=1 timeout 3000 tools/run_mutant.sh $name thorough $prop 2>&1 | tail -1); line="$line
$line2";;
  esac
  { [ -f $d/detection.txt ] && grep -v '^earlier:' $d/detection.txt | grep -v "^$name $prop tier=" | sed 's/^/earlier: /' | grep -v '^earlier: earlier' ; echo "$line"; } > $d/detection.new
  mv $d/detection.new $d/detection.txt
  echo "$line" | cut -c1-200
done
