#!/bin/bash
# confirm_mutant.sh <agent-worktree-with-MUTANT-dir> <seeded-name>
# Re-confirms an independently produced mutant in a fresh scratch worktree of /repo:
# original builds and demo passes; with the patch: builds, the pinned tests pass, demo fails.
# On success stores it as /verif/seeded/<name>/ (patch.diff, demo.sh, meta.json).
set -u
src=$1; name=$2
export GO=/root/go/pkg/mod/golang.org/toolchain@v0.0.1-go1.24.0.linux-amd64/bin/go GOTOOLCHAIN=local GOFLAGS=-mod=mod GOPROXY=off GOSUMDB=off
export PATH=$(dirname $GO):$PATH
wt=$(mktemp -d /tmp/confirm-XXXXXX); rmdir $wt
git -C /repo worktree add -q --detach $wt HEAD || exit 2
cleanup() { git -C /repo worktree remove --force $wt 2>/dev/null; rm -rf $wt $wt.bin; }
trap cleanup EXIT
mkdir -p $wt.bin
(cd $wt && $GO build -o $wt.bin/orig .) || { echo "CONFIRM-FAIL original does not build"; exit 1; }
bash $src/MUTANT/demo.sh $wt.bin/orig >/dev/null 2>&1; r0=$?
git -C $wt apply $src/MUTANT/patch.diff || { echo "CONFIRM-FAIL patch does not apply to /repo HEAD"; exit 1; }
(cd $wt && $GO build -o $wt.bin/mut .) || { echo "CONFIRM-FAIL mutant does not build"; exit 1; }
(cd $wt && $GO vet ./derive/ ./plugin/... >/dev/null 2>&1) || echo "note: go vet complains on the mutant"
tests=$(cd $wt && $GO test -vet=off -count=1 ./test/normal/ ./example/... ./test/gopaths/gopath1/... 2>&1 | grep -v 'no test files')
echo "$tests" | grep -q -E '^(FAIL|---)' && { echo "CONFIRM-FAIL pinned tests fail on the mutant"; echo "$tests" | tail -5; exit 1; }
bash $src/MUTANT/demo.sh $wt.bin/mut >/dev/null 2>&1; r1=$?
echo "demo on original: exit $r0; demo on mutant: exit $r1"
if [ $r0 -ne 0 ] || [ $r1 -eq 0 ]; then echo "CONFIRM-FAIL demo does not discriminate"; exit 1; fi
d=/verif/seeded/$name; mkdir -p $d
cp $src/MUTANT/patch.diff $src/MUTANT/demo.sh $d/
python3 - "$src/MUTANT/meta.json" "$d/meta.json" "$r0" "$r1" <<'PY'
import json,sys
m=json.load(open(sys.argv[1]))
m['confirmed_by_lead']={'fresh_worktree_of':'/repo HEAD','original_builds':True,'mutant_builds':True,
  'pinned_tests_pass_on_mutant':'go test -vet=off -count=1 ./test/normal/ ./example/... ./test/gopaths/gopath1/...',
  'demo_exit_original':int(sys.argv[3]),'demo_exit_mutant':int(sys.argv[4])}
json.dump(m,open(sys.argv[2],'w'),indent=1)
PY
echo "CONFIRMED stored in $d"
