#!/usr/bin/env python3
"""Regenerates /verif/MANIFEST.json from the table below (one entry per claimed property)."""
import json, subprocess

G = 'TLC model checking of the bounded design model + TLC validation (GoderiveTrace.tla) of hook traces and observations recorded from the real goderive'
CLAIMED = {
 'C01': dict(engine='G', ref='DESIGN.md 3 (C01), 11.2', technique='TLC enumeration of the type/plugin/call-site universe (GenCases.tla) + TLC validation (GoderiveTrace.tla) of hook traces and go/types observations of the real goderive on every case',
   text='TLC enumerates every type term of constructor depth <= 2 over 16 leaves (basics, three type aliases, named basics, local / imported / same-named-import / recursive / embedded structs, unexported fields) x 15 plugins x 16 call-site forms (one per branch of Visit in find.go for the enclosing call: builtin, conversion, declared type, qualified callee, function literal, ...) restricted to Supported(plugin, T); the leaf-type core is run in every form and again under -prefix/-pluginprefix configurations (classic names kept; overlapping plugin prefixes), checks WellFormed, and exports the cases; each is a real package on which the real goderive runs; TLC validates the trace (every requested helper generated exactly once, name tables and import-alias table consistent, functions in the file = generated names) and the observations (exit 0, go/types type-check incl. unused/missing imports, no unresolved call). Also every package of 2-3 calls over assignability-related types (type I1 []int, type I2 []int, []int, struct{F []int}) with distinct names and types must generate. Quick = all depth<=1 body cases + 2000 sampled of the ~190k; thorough = all depth<=2 body cases + 30000 sampled.',
   note='go/types with a source importer defines "type-checks". Signature-directed plugins (fmap, compose, curry ...) are covered by engine F, not here. Known findings are keyed by shrunk (plugin, type, form, failure class).'),
 'C09': dict(engine='G', ref='DESIGN.md 3 (C09), 11.2', technique='TLC enumeration of negative cases (GenCases.tla WithBad) + argument-shape matrix and broken packages run on the real goderive; TLC validation of traces and observations',
   text='TLC enumerates type terms with exactly one chan/func/interface/unsafe.Pointer constituent at every position x 15 plugins x call-site forms; plus all 33 plugin prefixes x 90 argument-list templates (incl. untyped-constant arguments, arity mismatches between compose stages) (arity, mismatches, non-functions, variadic/curried signatures, unordered elements, asymmetric assignability) and 10 broken packages. TLC judges each real run: no panic or hang, exit 0 => derived.gen.go parses and type-checks, non-zero exit => a diagnostic, Add/Generate errors reach the exit status (PkgExit/RunEnd).',
   note='"Names the call or type" is recorded as a warning only. Exit 0 with a correct file for a shape listed as unsupported is not a violation. 10 open findings remain (untyped nil arguments, deriveDup of a channel of receive-only channels, a struct with a *interface{} field); 20 others were repaired in /repo.'),
 'C07': dict(engine='G', ref='DESIGN.md 3 (C07)', technique='TLC enumeration of edit/crash histories (Regen.tla) and of nested-call chains with the pass loop (RegenChain.tla, stop-rule sensitivity) replayed on the real generator; TLC trace validation of each regeneration run (RegenObs)',
   text='TLC explores Regen.tla: every version of a 5-call-site package (incl. the inner call of the nested one on its own; an external test package in the directory) x up to 2 edits (add/remove call, retype field / argument / the map feeding a nested derive call) x one interrupted write in 5 truncation classes, and exports each history. The harness realises v1, edits to v2, truncates derived.gen.go at byte offsets of the class (all offsets in the thorough tier), runs the real generator once and compares with a scratch run; a second family replays v1->v2 edits over the packages of GoderiveMC under -autoname/-dedup and compares derived.gen.go and the rewritten user files with a scratch run; TLC judges every run trace and the RegenObs observation (exit, bytes, type-check, file removed).',
   note='Trusted: TLC, go/types, hooks. Histories are sampled from the exported set (all single-edit ones always); the model package has 5 call sites; part (B) replays flagged (-autoname/-dedup) histories over GoderiveMC packages, part (C) all 42 chain histories of RegenChain.tla with predicted pass counts compared to the recorded trace. Genuine defects found are listed in KNOWN_FINDINGS.jsonl by minimal failing sub-history.'),
 'C08': dict(engine='G', ref='DESIGN.md 3 (C08)', technique='TLC self-composition of name registration under map-order nondeterminism (Determinism.tla) + repeated real runs directed by model and trace (DetObs/CtxObs validated by TLC)',
   text='TLC explores the self-composition of registration and helper lookup over mutually assignable argument types with nameOf\'s map-order choice resolved independently in two copies; every scenario is run repeatedly on the real binary (60/400 runs where the model or the recorded trace shows a lookup with several matches), plus a 9-plugin package, packages under overlapping -pluginprefix configurations, a package with derive calls in seven files (with and without -autoname) and 11 ways of addressing/grouping packages on the command line; TLC decides DetObs/CtxObs (one distinct outcome).',
   note='"On every run" is statistical on the real binary (a 10% event is missed with probability 0.9^60); exhaustive only in the model. Import-path patterns (m/...) are not expanded by the gotool dependency in module mode and are not part of the variants.'),
 'C10': dict(engine='G', ref='DESIGN.md 3 (C10)', technique='TLC model checking of the file-rewrite model (UserFiles.tla) + TLC validation of directory snapshots and token-level FileObs observations of real runs',
   text='UserFiles.tla models user files as token sequences with renames and truncating/overlay writes (the overlay variant must violate FilesIntact, so the model is sensitive). Real runs over the C11 universe x 16 file layouts, a rename matrix (new name shorter/equal/longer, -dedup/-autoname/both) and failing runs (generator, syntax, type error) x 4 flag combinations are snapshotted before/after; every user file is tokenised and TLC checks: changed only if the trace renamed a call in it and a flag is set, tokens = original with exactly the renamed identifiers substituted, parses, bytes = gofmt of the substituted original.',
   note='Trusted: go/scanner, go/format, hooks (Rename/Rewrite events), directory snapshot code.'),
 'C11': dict(engine='G', ref='DESIGN.md 2.3, 3 (C11)', technique='TLC model checking of GoderiveMC.tla (exhaustive bounded scenarios) + TLC validation of traces recorded from the real goderive against GoderiveTrace.tla',
   text='TLC exhaustively explores the bounded design model of name registration (all packages of <=3-4 derive calls x names x keys x files x 4 flag combinations x reserved sets) and checks the C11 exit-status table, table bijection and call-site soundness on it; every terminal state is concretised into a real package and run through the real generator, whose hook trace and go/types observations TLC validates against the abstract SetFuncName/NewName relations and the exit table.',
   note='Trusted: TLC, go/types, the hook sites in derive/ (add-only, build tag verif), the concretisation of abstract keys to pairwise non-assignable pointer-to-struct types. Acceptance by a single flag is asserted only where the statement is literal.'),
 'C12': dict(engine='G', ref='DESIGN.md 3 (C12)', technique='TLC model checking of Dispatch.tla (prefix maps x call names; sort+first-match refines longest match) + real runs with permuted plugin registration compared with default-named twins (PrefixObs validated by TLC)',
   text='TLC checks for every -prefix/-pluginprefix map over a pool with nested prefixes and every call name that sortPlugins+first-match selects the longest matching prefix, and exports (call, plugin, default-named twin). Each case runs on the real goderive (real main.go flag handling; the registration list permuted through go build -overlay) and on the twin package with default prefixes; TLC checks Dispatch events against LongestMatch and that the canonicalised function sets are equal (textual identity for a global -prefix).',
   note='Function bodies are compared as token sequences with generated names canonicalised to plugin(param types). Three plugins (equal, compare, deepcopy) carry the nested prefixes; all 33 are registered.'),
}

def main():
    props = [json.loads(l) for l in open('/verif/properties.jsonl')]
    try:
        extra = json.load(open('/verif/tools/manifest_extra.json'))
    except FileNotFoundError:
        extra = {}
    CLAIMED.update(extra)
    checks = []
    for p in props:
        pid = p['id']
        if pid not in CLAIMED:
            continue
        c = CLAIMED[pid]
        checks.append({
            'property_id': pid,
            'quick_cmd': f'bin/vcheck {pid} --tier quick',
            'thorough_cmd': f'bin/vcheck {pid} --tier thorough',
            'evidence_file': f'/verif/evidence/{pid}.json',
            'replay_cmd_template': 'cat {path}',
            'engine': c['engine'],
            'level_claimed': {'category': 'model_checking', 'text': c['text'], 'design_ref': c['ref']},
            'level_note': c['note'],
            'technique': c['technique'],
        })
    na = [{'property_id': p['id'], 'reason': 'check not built yet (construction in progress, DESIGN.md section 10); not claimed until its TLA+ spec and conformance harness exist'}
          for p in props if p['id'] not in CLAIMED]
    hooks = subprocess.run(['git', '-C', '/repo', 'log', '--format=%h %s'], capture_output=True, text=True).stdout.splitlines()
    hook_commits = [l.split()[0] for l in hooks if l.split(' ', 1)[1].startswith('verif hooks')]
    engines = {}
    for pid, c in CLAIMED.items():
        engines.setdefault(c['engine'], []).append(pid)
    paths = {'G': 'spec/gen + harness/internal/engg', 'S': 'spec/sem + harness/internal/engs', 'F': 'spec/fun + harness/internal/engf', 'K': 'spec/conc + harness/internal/engk', 'H': 'spec/heap + harness/internal/engh', 'L': 'spec/list + harness/internal/engl'}
    kinds = {'G': 'TLA+ state machine of the generator driver (name tables, dispatch, pass loop, files); TLC model checking + trace validation of hook traces from the real binary',
             'S': 'TLA+ reference semantics of generated pure functions over an abstract type/value universe; TLC validates observations of real generated code',
             'F': 'TLA+ call-history state machines of the functional helpers; TLC-exported cases executed against real generated code and validated',
             'H': 'TLA+ heap model of copying and a printer/evaluator model of GoString, on engine S\'s type/value universe',
             'L': 'TLA+ list/set algebra parameterised by observed Equal/Compare, on engine S\'s type/value universe',
             'K': 'TLA+ model of Go channels/goroutines per combinator; controlled scheduler over the rewritten real generated code; TLC trace validation and replay'}
    m = {'version': 1,
         'setup_cmd': 'sh /verif/setup.sh',
         'hooks': {'guard': 'verif (Go build tag)',
                   'enable': "go build -tags verif (done by bin/vcheck from /repo's working tree into a scratch dir)",
                   'baseline_off_cmd': 'for m in $(cat /w/out/gomods.txt); do MF=$(cd /repo/$m && . /w/out/goenv.sh && gomodflag); (cd /repo/$m && go test $MF -json -vet=off -count=1 -timeout 25m ./...); done',
                   'source_commits': hook_commits, 'add_only': True},
         'engines': [{'name': e, 'path': paths[e], 'serves_properties': sorted(ps), 'kind_free_text': kinds[e]} for e, ps in sorted(engines.items())],
         'checks': checks, 'not_applicable': na,
         'notes': 'All checks: bin/vcheck <id> --tier quick|thorough; VERIF_SEED honoured. Exit 0 held / 1 violation / 2 machinery could not conclude. Known findings: KNOWN_FINDINGS.jsonl.'}
    json.dump(m, open('/verif/MANIFEST.json', 'w'), indent=1)
    print('claimed:', sorted(CLAIMED), 'not claimed:', [x['property_id'] for x in na])

main()
