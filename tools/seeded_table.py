#!/usr/bin/env python3
"""Prints a markdown table of /verif/seeded/*: property, what is needed to manifest, and what the checks reported."""
import json, glob, os, re
print("| seeded change | property | needs to manifest | last recorded result |")
print("|---|---|---|---|")
for d in sorted(glob.glob('/verif/seeded/*')):
    name = os.path.basename(d)
    try:
        m = json.load(open(d + '/meta.json'))
    except Exception:
        continue
    det = ''
    if os.path.exists(d + '/detection.txt'):
        lines = [l.strip() for l in open(d + '/detection.txt') if l.strip() and not l.startswith('earlier:')]
        if lines:
            l = lines[-1]
            mm = re.search(r'(C\d+) tier=(\w+) exit=(\d+) (\d+) violations; first:\s*(?:witness: )?(.*)', l)
            if mm:
                prop, tier, ex, nv, w = mm.groups()
                det = ('caught by %s (%s): %s' % (prop, tier, w[:140].replace('|', '/'))) if ex == '1' else ('NOT reported by %s (%s)' % (prop, tier))
            else:
                det = l[:160].replace('|', '/')
    if 'retired' in m:
        det = 'retired: ' + m['retired'][:200]
    needs = m.get('needs', '')[:220].replace('|', '/').replace('\n', ' ')
    print("| `%s` | %s | %s | %s |" % (name, m.get('property', ''), needs, det))
