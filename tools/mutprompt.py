#!/usr/bin/env python3
"""Prints the prompt for an independent mutation agent: only the property text and a worktree path."""
import json, sys
pid, wt = sys.argv[1], sys.argv[2]
p = {json.loads(l)['id']: json.loads(l) for l in open('/verif/properties.jsonl')}[pid]
print(f"""You are testing how well a verification effort can detect regressions in the Go code generator goderive (github.com/awalterschulze/goderive). You work ONLY in the scratch git worktree {wt} (a checkout of the repository). Do not read or touch /verif or /repo, and do not look for other people's tests or tooling outside your worktree.

PROPERTY {pid}: {p['title']}
Statement: {p['statement']}
Quantified over: {p['quantifier']['text']}
Code it is anchored in: {', '.join(p['anchors']['files'])}

YOUR TASK: make ONE realistic change to the repository's Go source (derive/, plugin/*, main.go — not tests, not the files derive/verif_on.go / derive/verif_off.go, and do not remove the `if vOn {{ ... }}` trace lines you will see in derive/*.go; they are inert instrumentation) that BREAKS this property while
  (a) the repository still compiles, and
  (b) the existing test suite still passes: run `cd {wt} && $GO test -vet=off -count=1 ./test/normal/ ./example/... ./test/gopaths/gopath1/...` (all must be ok; the suite never runs the generator, it only exercises committed derived.gen.go files, so most generator changes pass), and
  (c) the change is the kind of bug a developer could plausibly introduce (a refactoring slip, an off-by-one, a wrong condition, a dropped case, a reordered statement, two edits that each look fine alone) — not sabotage like deleting a feature, and
  (d) it needs something SPECIFIC to manifest: a particular combination of inputs/flags, an unusual but legal input shape, a multi-step history of runs/edits, a particular position or length, a rare schedule — ordinary use on a simple package should still work. Prefer a subtle change over a blatant one.
Toolchain: export GO=/root/go/pkg/mod/golang.org/toolchain@v0.0.1-go1.24.0.linux-amd64/bin/go GOTOOLCHAIN=local GOFLAGS=-mod=mod GOPROXY=off GOSUMDB=off PATH=$(dirname $GO):$PATH (no network). Build the generator with `cd {wt} && $GO build -o /tmp/mut/{pid.lower()}-goderive .`; run it with cwd = a package directory inside a scratch Go module (a go.mod with `module m` and `go 1.24`) and argument `.`; flags are -autoname -dedup -prefix -pluginprefix. The generator writes derived.gen.go next to the user's files.

DELIVER, inside {wt}/MUTANT/ (create the directory):
  - patch.diff : `git -C {wt} diff -- . ':!MUTANT'` of your change (source only).
  - demo.sh : a self-contained shell script (uses $GO as above; creates its own scratch module under a mktemp dir and removes it) that exits 0 when the property holds for its scenario and non-zero when it is violated; it takes the path of a built goderive binary as $1. It must FAIL with your change and PASS on the unchanged code (verify both. To build the unchanged code do NOT use `git stash` (the stash is shared between worktrees and other testers work in parallel): save your change with `git -C {wt} diff > /tmp/mut/{pid.lower()}-my.patch`, `git -C {wt} checkout -- .`, build the original binary, then `git -C {wt} apply /tmp/mut/{pid.lower()}-my.patch`).
  - meta.json : {{"property": "{pid}", "summary": "<one sentence: what you changed>", "needs": "<what specific input/flags/history/schedule is needed for the bug to manifest>", "why_tests_pass": "<one sentence>", "verified": "<the commands you ran and what you observed for unchanged vs changed>"}}
Keep the change small (a few lines). Do not commit. When done, reply with a short summary (what you changed, how it manifests, confirmation that build + tests pass and that demo.sh passes on the original and fails on the mutant). Keep each of your responses short (never more than ~300 lines in one file write).""")
