#!/bin/bash
# run_mutant.sh <seeded-name> <tier> <property>...  : applies seeded/<name>/patch.diff in a scratch
# worktree of /repo and runs the given checks against it (VERIF_REPO); prints one line per check.
set -u
name=$1; tier=$2; shift 2
wt=$(mktemp -d /tmp/mutrun-XXXXXX); rmdir $wt
git -C /repo worktree add -q --detach $wt HEAD || exit 2
trap 'git -C /repo worktree remove --force $wt 2>/dev/null; rm -rf $wt $wt.ev' EXIT
git -C $wt apply /verif/seeded/$name/patch.diff 2>/dev/null || (cd $wt && patch -s -p1 -F3 < /verif/seeded/$name/patch.diff) || { echo "patch does not apply"; exit 2; }
cd /verif
for p in "$@"; do
  out=$(VERIF_REPO=$wt VERIF_DIR=/verif VERIF_EVIDENCE_DIR=$wt.ev ${VCHECK:-bin/vcheck} $p --tier $tier 2>&1); rc=$?
  # keep the unchanged tree's evidence: checks against a mutant must not overwrite committed evidence
  echo "$name $p tier=$tier exit=$rc $(echo "$out" | grep -c '^VIOLATION') violations; first: $(echo "$out" | grep -m1 'witness:' | cut -c1-220)$(echo "$out" | grep -m1 'INFRA-ERROR' | cut -c1-400)"
done
