#!/bin/bash
# process_mutant.sh <agent-worktree> <seeded-name> <property> [tier]: confirm, store, run the property's check against it.
src=$1; name=$2; prop=$3; tier=${4:-quick}
bash /verif/tools/confirm_mutant.sh $src $name 2>&1 | tail -1
[ -d /verif/seeded/$name ] || exit 1
python3 -c "import json;m=json.load(open('/verif/seeded/$name/meta.json'));print('SUMMARY:',m['summary'][:300]);print('NEEDS:',m['needs'][:300])"
VCHECK=${VCHECK:-bin/vcheck-g} bash /verif/tools/run_mutant.sh $name $tier $prop | tee /verif/seeded/$name/detection.txt | cut -c1-360
