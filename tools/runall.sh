#!/bin/bash
# runall.sh [tier] [seed]: runs every check claimed in MANIFEST.json and prints one line per check.
tier=${1:-quick}; seed=${2:-1}
cd /verif
for p in $(python3 -c "import json;print(' '.join(c['property_id'] for c in json.load(open('MANIFEST.json'))['checks']))"); do
  s=$(date +%s); out=$(VERIF_PAR=${VERIF_PAR:-8} bin/vcheck $p --tier $tier --seed $seed 2>&1); rc=$?
  echo "$p exit=$rc wall=$(( $(date +%s)-s ))s known=$(echo "$out" | grep -c '^KNOWN-FINDING') viol=$(echo "$out" | grep -c '^VIOLATION') $(echo "$out" | grep -m1 -E 'INFRA|VIOLATION' | cut -c1-160)"
done
