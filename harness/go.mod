module verif/harness

go 1.24
