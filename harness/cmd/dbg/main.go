package main

import (
	"fmt"
	"os"

	"verif/harness/internal/core"
	"verif/harness/internal/engg"
)

func main() {
	c, err := core.NewCtx("DBG", "quick", 1)
	if err != nil {
		panic(err)
	}
	defer c.Cleanup()
	chk := engg.NewChecker()
	obs := chk.Check(os.Args[1], nil)
	fmt.Printf("%+v\n", obs)
}
