// vcheck-l runs the checks of package engl only (development binary).
package main

import (
	"verif/harness/internal/core"
	_ "verif/harness/internal/engl"
)

func main() { core.Main() }
