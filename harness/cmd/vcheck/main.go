// vcheck runs one property check: vcheck <Cxx> [--tier quick|thorough] [--seed N]
package main

import (
	"verif/harness/internal/core"
	_ "verif/harness/internal/engf"
	_ "verif/harness/internal/engg"
	_ "verif/harness/internal/engh"
	_ "verif/harness/internal/engk"
	_ "verif/harness/internal/engl"
	_ "verif/harness/internal/engs"
)

func main() { core.Main() }
