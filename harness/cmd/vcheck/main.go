// vcheck runs one property check: vcheck <Cxx> [--tier quick|thorough] [--seed N]
package main

import (
	"fmt"
	"os"
	"strconv"

	"verif/harness/internal/core"
	_ "verif/harness/internal/engg"
)

func main() {
	if len(os.Args) < 2 {
		fmt.Fprintf(os.Stderr, "usage: vcheck <property> [--tier quick|thorough] [--seed N]\nregistered: %v\n", core.Registered())
		os.Exit(2)
	}
	prop := os.Args[1]
	tier := os.Getenv("VERIF_TIER")
	if tier == "" {
		tier = "quick"
	}
	seed := core.SeedFromEnv()
	for i := 2; i < len(os.Args); i++ {
		switch os.Args[i] {
		case "--tier":
			i++
			tier = os.Args[i]
		case "--seed":
			i++
			n, err := strconv.ParseInt(os.Args[i], 10, 64)
			if err != nil {
				fmt.Fprintln(os.Stderr, "bad seed")
				os.Exit(2)
			}
			seed = n
		}
	}
	f, ok := core.Lookup(prop)
	if !ok {
		fmt.Fprintf(os.Stderr, "unknown property %s; registered: %v\n", prop, core.Registered())
		os.Exit(2)
	}
	c, err := core.NewCtx(prop, tier, seed)
	if err != nil {
		fmt.Fprintln(os.Stderr, err)
		os.Exit(2)
	}
	var runErr error
	func() {
		defer func() {
			if r := recover(); r != nil {
				runErr = fmt.Errorf("harness panic: %v", r)
			}
		}()
		runErr = f(c)
	}()
	code := c.Finish(runErr)
	c.Cleanup()
	os.Exit(code)
}
