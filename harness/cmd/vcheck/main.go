// vcheck runs one property check: vcheck <Cxx> [--tier quick|thorough] [--seed N]
package main

import (
	"verif/harness/internal/core"
	_ "verif/harness/internal/engf"
	_ "verif/harness/internal/engg"
	_ "verif/harness/internal/engs"
	// engines K, H and L are linked in once their checks are registered in MANIFEST.json
)

func main() { core.Main() }
