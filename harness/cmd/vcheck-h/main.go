// vcheck-h runs the checks of package engh only (development binary).
package main

import (
	"verif/harness/internal/core"
	_ "verif/harness/internal/engh"
)

func main() { core.Main() }
