// vcheck runs one property check: vcheck <Cxx> [--tier quick|thorough] [--seed N]
package main

import (
	"verif/harness/internal/core"
	_ "verif/harness/internal/engg"
)

func main() { core.Main() }
