// vcheck runs one property check: vcheck <Cxx> [--tier quick|thorough] [--seed N]
package main

import (
	"verif/harness/internal/core"
	_ "verif/harness/internal/engs"
)

func main() { core.Main() }
