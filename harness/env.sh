# source this for manual work in /verif/harness
export GO=/root/go/pkg/mod/golang.org/toolchain@v0.0.1-go1.24.0.linux-amd64/bin/go
export GOTOOLCHAIN=local GOFLAGS=-mod=mod GOPROXY=off GOSUMDB=off GOWORK=off
