// Package gd builds goderive from /repo's current working tree (hooks on) and runs it.
package gd

import (
	"bufio"
	"bytes"
	"context"
	"encoding/json"
	"fmt"
	"os"
	"os/exec"
	"path/filepath"
	"runtime"
	"time"

	"verif/harness/internal/core"
)

// Build compiles /repo with -tags verif into <work>/bin/goderive.
func Build(c *core.Ctx) (string, error) {
	bin := filepath.Join(c.Work, "bin", "goderive")
	if _, err := os.Stat(bin); err == nil {
		return bin, nil
	}
	os.MkdirAll(filepath.Dir(bin), 0755)
	cmd := exec.Command(c.GoBin, "build", "-tags", "verif", "-o", bin, ".")
	cmd.Dir = c.Repo
	cmd.Env = c.GoEnv()
	out, err := cmd.CombinedOutput()
	if err != nil {
		return "", fmt.Errorf("building goderive from %s failed: %v\n%s", c.Repo, err, out)
	}
	return bin, nil
}

type RunResult struct {
	Exit     int
	Stdout   string
	Stderr   string
	TimedOut bool
	Events   []map[string]interface{}
	Wall     time.Duration
}

// Run executes goderive in dir with args; if trace != "" the hook events are
// recorded there and parsed into Events.
func Run(c *core.Ctx, bin, dir string, args []string, trace string, timeout time.Duration) (*RunResult, error) {
	if timeout == 0 {
		timeout = 20 * time.Second
	}
	if timeout < 0 {
		timeout = -timeout // exact limit requested
	} else {
		timeout = scaleByLoad(timeout)
	}
	ctx, cancel := context.WithTimeout(context.Background(), timeout)
	defer cancel()
	cmd := exec.CommandContext(ctx, bin, args...)
	cmd.Dir = dir
	extra := []string{}
	if trace != "" {
		os.Remove(trace)
		extra = append(extra, "GODERIVE_VERIF_TRACE="+trace)
	}
	cmd.Env = c.GoEnv(extra...)
	var so, se bytes.Buffer
	cmd.Stdout, cmd.Stderr = &so, &se
	start := time.Now()
	err := cmd.Run()
	r := &RunResult{Stdout: so.String(), Stderr: se.String(), Wall: time.Since(start)}
	if ctx.Err() != nil {
		r.TimedOut = true
		r.Exit = -1
	} else if err != nil {
		if ee, ok := err.(*exec.ExitError); ok {
			r.Exit = ee.ExitCode()
		} else {
			return nil, fmt.Errorf("cannot run goderive: %v", err)
		}
	}
	if trace != "" {
		evs, err := ReadTrace(trace)
		if err != nil {
			return r, err
		}
		r.Events = evs
	}
	return r, nil
}

// scaleByLoad stretches a wall-clock limit by the machine's load per CPU (at most 6x): a limit exists to
// catch a goderive that hangs, and on a starved machine a correct run must not be mistaken for one.
func scaleByLoad(d time.Duration) time.Duration {
	data, err := os.ReadFile("/proc/loadavg")
	if err != nil {
		return d
	}
	var l1 float64
	if _, err := fmt.Sscanf(string(data), "%f", &l1); err != nil {
		return d
	}
	f := l1 / float64(runtime.NumCPU())
	if f < 1 {
		return d
	}
	if f > 6 {
		f = 6
	}
	return time.Duration(float64(d) * f)
}

func ReadTrace(path string) ([]map[string]interface{}, error) {
	f, err := os.Open(path)
	if err != nil {
		if os.IsNotExist(err) {
			return nil, nil
		}
		return nil, err
	}
	defer f.Close()
	var evs []map[string]interface{}
	sc := bufio.NewScanner(f)
	sc.Buffer(make([]byte, 1<<20), 1<<26)
	for sc.Scan() {
		var m map[string]interface{}
		if err := json.Unmarshal(sc.Bytes(), &m); err != nil {
			return evs, fmt.Errorf("trace %s: %v", path, err)
		}
		evs = append(evs, m)
	}
	return evs, sc.Err()
}
