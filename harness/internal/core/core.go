// Package core holds what every check shares: the run context (tier, seed,
// work directory, resolved Go binary), evidence writing, known-findings
// matching and the VIOLATION / KNOWN-FINDING reporting contract.
package core

import (
	"bufio"
	"encoding/json"
	"fmt"
	"math/rand"
	"os"
	"os/exec"
	"path/filepath"
	"sort"
	"strconv"
	"strings"
	"sync"
	"time"
)

// Exit codes: 0 held, 1 violation, 2 machinery could not conclude.
const (
	ExitOK        = 0
	ExitViolation = 1
	ExitInfra     = 2
)

type Finding struct {
	Status   string `json:"status"` // open | fixed
	Property string `json:"property"`
	Witness  string `json:"witness"`
	What     string `json:"what"`
	Commit   string `json:"commit,omitempty"`
}

type Violation struct {
	Property string      `json:"property"`
	Witness  string      `json:"witness"`
	Detail   string      `json:"detail"`
	Replay   interface{} `json:"replay,omitempty"`
	Path     string      `json:"-"`
}

type Coverage map[string]interface{}

type Evidence struct {
	PropertyID  string   `json:"property_id"`
	Tier        string   `json:"tier"`
	Seed        int64    `json:"seed"`
	Level       string   `json:"level"`
	Coverage    Coverage `json:"coverage"`
	Assumptions []string `json:"assumptions,omitempty"`
	WallS       float64  `json:"wall_s"`
	Violations  int      `json:"violations"`
}

type Ctx struct {
	Prop  string
	Tier  string // quick | thorough
	Seed  int64
	Verif string // /verif
	Repo  string // /repo
	Work  string // scratch dir, removed at the end
	GoBin string
	Start time.Time

	mu         sync.Mutex
	Ev         *Evidence
	findings   []Finding
	violations []Violation
	known      map[string]int
	drift      []string
	warnings   []string
	samples    []interface{}
}

type CheckFunc func(c *Ctx) error

var registry = map[string]CheckFunc{}

func Register(prop string, f CheckFunc) { registry[prop] = f }

func Registered() []string {
	var ps []string
	for p := range registry {
		ps = append(ps, p)
	}
	sort.Strings(ps)
	return ps
}

func Lookup(prop string) (CheckFunc, bool) { f, ok := registry[prop]; return f, ok }

func getenv(k, d string) string {
	if v := os.Getenv(k); v != "" {
		return v
	}
	return d
}

// ResolveGo finds the Go binary every sub-process uses: the cached go1.24.0
// toolchain (the version /repo's go.mod asks for), else go1.26.
func ResolveGo() (string, error) {
	if g := os.Getenv("VERIF_GO"); g != "" {
		return g, nil
	}
	cands := []string{
		"/root/go/pkg/mod/golang.org/toolchain@v0.0.1-go1.24.0.linux-amd64/bin/go",
	}
	if home, err := os.UserHomeDir(); err == nil {
		cands = append(cands, filepath.Join(home, "go/pkg/mod/golang.org/toolchain@v0.0.1-go1.24.0.linux-amd64/bin/go"))
	}
	for _, c := range cands {
		if _, err := os.Stat(c); err == nil {
			return c, nil
		}
	}
	for _, n := range []string{"go1.26", "go1.26.8"} {
		if p, err := exec.LookPath(n); err == nil {
			// these are wrappers around a toolchain; resolve GOROOT/bin/go
			out, err := exec.Command(p, "env", "GOROOT").Output()
			if err == nil {
				g := filepath.Join(strings.TrimSpace(string(out)), "bin", "go")
				if _, err := os.Stat(g); err == nil {
					return g, nil
				}
			}
			return p, nil
		}
	}
	return "", fmt.Errorf("no usable Go toolchain found")
}

// GoEnv is the environment for every go / goderive sub-process.
func (c *Ctx) GoEnv(extra ...string) []string {
	env := []string{}
	for _, kv := range os.Environ() {
		k := kv
		if i := strings.IndexByte(kv, '='); i >= 0 {
			k = kv[:i]
		}
		switch k {
		case "GOTOOLCHAIN", "GOFLAGS", "GOPROXY", "GOSUMDB", "PATH", "GO111MODULE", "GOWORK", "GODERIVE_VERIF_TRACE":
			continue
		}
		env = append(env, kv)
	}
	env = append(env,
		"PATH="+filepath.Dir(c.GoBin)+":"+os.Getenv("PATH"),
		"GOTOOLCHAIN=local", "GOFLAGS=-mod=mod", "GOPROXY=off", "GOSUMDB=off", "GOWORK=off",
		"GOCACHE="+GoCacheDir(),
	)
	return append(env, extra...)
}

func NewCtx(prop, tier string, seed int64) (*Ctx, error) {
	gobin, err := ResolveGo()
	if err != nil {
		return nil, err
	}
	// the harness process itself uses go/build and go/types (source importer): same toolchain
	os.Setenv("PATH", filepath.Dir(gobin)+":"+os.Getenv("PATH"))
	os.Setenv("GOROOT", filepath.Dir(filepath.Dir(gobin)))
	os.Setenv("GOTOOLCHAIN", "local")
	os.Setenv("GOFLAGS", "-mod=mod")
	os.Setenv("GOPROXY", "off")
	os.Setenv("GOSUMDB", "off")
	os.Setenv("GOWORK", "off")
	verif := getenv("VERIF_DIR", "/verif")
	work, err := os.MkdirTemp(getenv("VERIF_TMP", ""), "vcheck-"+prop+"-")
	if err != nil {
		return nil, err
	}
	c := &Ctx{Prop: prop, Tier: tier, Seed: seed, Verif: verif, Repo: getenv("VERIF_REPO", "/repo"),
		Work: work, GoBin: gobin, Start: time.Now(), known: map[string]int{}}
	c.Ev = &Evidence{PropertyID: prop, Tier: tier, Seed: seed, Level: "model_checking", Coverage: Coverage{}}
	if err := c.loadFindings(); err != nil {
		return nil, err
	}
	return c, nil
}

func (c *Ctx) Quick() bool { return c.Tier != "thorough" }

func (c *Ctx) Cleanup() {
	if os.Getenv("VERIF_KEEP") != "" {
		fmt.Fprintf(os.Stderr, "keeping work dir %s\n", c.Work)
		return
	}
	os.RemoveAll(c.Work)
}

func (c *Ctx) loadFindings() error {
	f, err := os.Open(filepath.Join(c.Verif, "KNOWN_FINDINGS.jsonl"))
	if err != nil {
		if os.IsNotExist(err) {
			return nil
		}
		return err
	}
	defer f.Close()
	sc := bufio.NewScanner(f)
	sc.Buffer(make([]byte, 1<<20), 1<<24)
	for sc.Scan() {
		line := strings.TrimSpace(sc.Text())
		if line == "" || strings.HasPrefix(line, "#") {
			continue
		}
		var fd Finding
		if err := json.Unmarshal([]byte(line), &fd); err != nil {
			return fmt.Errorf("KNOWN_FINDINGS.jsonl: %v", err)
		}
		c.findings = append(c.findings, fd)
	}
	return sc.Err()
}

// Report records a failing case of the real code. witness is the canonical
// (shrunk) form identifying the defect. If it is an open known finding of this
// property it is only counted; otherwise it is a violation.
func (c *Ctx) Report(witness, detail string, replay interface{}) {
	c.ReportFor(c.Prop, witness, detail, replay)
}

func (c *Ctx) ReportFor(prop, witness, detail string, replay interface{}) {
	c.mu.Lock()
	defer c.mu.Unlock()
	for _, fd := range c.findings {
		if fd.Status == "open" && fd.Property == prop && fd.Witness == witness {
			c.known[witness]++
			return
		}
	}
	for _, v := range c.violations {
		if v.Witness == witness && v.Property == prop {
			return // one report per witness
		}
	}
	c.violations = append(c.violations, Violation{Property: prop, Witness: witness, Detail: detail, Replay: replay})
}

func (c *Ctx) Drift(msg string)   { c.mu.Lock(); c.drift = append(c.drift, msg); c.mu.Unlock() }
func (c *Ctx) Warn(msg string)    { c.mu.Lock(); c.warnings = append(c.warnings, msg); c.mu.Unlock() }
func (c *Ctx) NumViolations() int { c.mu.Lock(); defer c.mu.Unlock(); return len(c.violations) }

// Sample keeps up to 8 written-out cases for the evidence file.
func (c *Ctx) Sample(s interface{}) {
	c.mu.Lock()
	if len(c.samples) < 8 {
		c.samples = append(c.samples, s)
	}
	c.mu.Unlock()
}

// Add adds n to an integer coverage counter.
func (c *Ctx) Add(key string, n int) {
	c.mu.Lock()
	cur, _ := c.Ev.Coverage[key].(int)
	c.Ev.Coverage[key] = cur + n
	c.mu.Unlock()
}

func (c *Ctx) Set(key string, v interface{}) {
	c.mu.Lock()
	c.Ev.Coverage[key] = v
	c.mu.Unlock()
}

func (c *Ctx) Assume(s string) {
	c.mu.Lock()
	c.Ev.Assumptions = append(c.Ev.Assumptions, s)
	c.mu.Unlock()
}

// Finish prints the verdict lines, writes evidence and returns the exit code.
func (c *Ctx) Finish(runErr error) int {
	c.mu.Lock()
	defer c.mu.Unlock()
	wits := make([]string, 0, len(c.known))
	for w := range c.known {
		wits = append(wits, w)
	}
	sort.Strings(wits)
	for _, w := range wits {
		fmt.Printf("KNOWN-FINDING: property=%s %s (cases=%d)\n", c.Prop, w, c.known[w])
	}
	evDir := getenv("VERIF_EVIDENCE_DIR", filepath.Join(c.Verif, "evidence"))
	replayDir := filepath.Join(evDir, "replay")
	for i := range c.violations {
		v := &c.violations[i]
		os.MkdirAll(replayDir, 0755)
		v.Path = filepath.Join(replayDir, fmt.Sprintf("%s-%s-%d-%d.json", v.Property, c.Tier, c.Seed, i))
		data, _ := json.MarshalIndent(v, "", " ")
		os.WriteFile(v.Path, data, 0644)
		fmt.Printf("VIOLATION property=%s replay=%s\n", v.Property, v.Path)
		fmt.Printf("  witness: %s\n  detail: %s\n", v.Witness, firstLines(v.Detail, 12))
	}
	for _, d := range c.drift {
		fmt.Printf("DRIFT: %s\n", d)
	}
	cov := c.Ev.Coverage
	if len(c.samples) > 0 {
		cov["samples"] = c.samples
	}
	if len(c.drift) > 0 {
		cov["drift"] = c.drift
	}
	if len(c.warnings) > 0 {
		if len(c.warnings) > 50 {
			cov["warnings_total"] = len(c.warnings)
			c.warnings = c.warnings[:50]
		}
		cov["warnings"] = c.warnings
	}
	if len(wits) > 0 {
		cov["known_findings_seen"] = wits
	}
	c.Ev.Violations = len(c.violations)
	c.Ev.WallS = float64(int(time.Since(c.Start).Seconds()*100)) / 100
	code := ExitOK
	if len(c.violations) > 0 {
		code = ExitViolation
	}
	if runErr != nil {
		fmt.Printf("INFRA-ERROR property=%s: %v\n", c.Prop, runErr)
		cov["infra_error"] = runErr.Error()
		if code == ExitOK {
			code = ExitInfra
		}
	}
	os.MkdirAll(evDir, 0755)
	data, _ := json.MarshalIndent(c.Ev, "", " ")
	if err := os.WriteFile(filepath.Join(evDir, c.Prop+".json"), append(data, '\n'), 0644); err != nil {
		fmt.Printf("INFRA-ERROR cannot write evidence: %v\n", err)
		if code == ExitOK {
			code = ExitInfra
		}
	}
	TrimGoCache(6000)
	if code == ExitOK {
		fmt.Printf("OK property=%s tier=%s seed=%d wall=%.1fs\n", c.Prop, c.Tier, c.Seed, c.Ev.WallS)
	}
	return code
}

func firstLines(s string, n int) string {
	ls := strings.Split(s, "\n")
	if len(ls) > n {
		ls = append(ls[:n], "...")
	}
	return strings.Join(ls, "\n    ")
}

func SeedFromEnv() int64 {
	if s := os.Getenv("VERIF_SEED"); s != "" {
		if n, err := strconv.ParseInt(s, 10, 64); err == nil {
			return n
		}
	}
	return 1
}

// GoCacheDir is the build cache shared by all checks (thousands of generated driver packages are compiled per
// run; the default cache grew to tens of GB). It is only a cache: TrimGoCache empties it when it gets large.
func GoCacheDir() string {
	return getenv("VERIF_GOCACHE", filepath.Join(os.TempDir(), "verif-gocache"))
}

// TrimGoCache removes the shared build cache when it exceeds limitMB.
func TrimGoCache(limitMB int64) {
	var total int64
	filepath.Walk(GoCacheDir(), func(_ string, info os.FileInfo, err error) error {
		if err == nil && !info.IsDir() {
			total += info.Size()
		}
		return nil
	})
	if total > limitMB<<20 {
		os.RemoveAll(GoCacheDir())
	}
}

// NewRand returns a deterministic PRNG for the given seed.
func NewRand(seed int64) *rand.Rand { return rand.New(rand.NewSource(seed)) }

// Main is the body of every vcheck binary: vcheck <Cxx> [--tier quick|thorough] [--seed N]
func Main() {
	if len(os.Args) < 2 {
		fmt.Fprintf(os.Stderr, "usage: vcheck <property> [--tier quick|thorough] [--seed N]\nregistered: %v\n", Registered())
		os.Exit(2)
	}
	prop := os.Args[1]
	tier := os.Getenv("VERIF_TIER")
	if tier == "" {
		tier = "quick"
	}
	seed := SeedFromEnv()
	for i := 2; i < len(os.Args); i++ {
		switch os.Args[i] {
		case "--tier":
			i++
			tier = os.Args[i]
		case "--seed":
			i++
			n, err := strconv.ParseInt(os.Args[i], 10, 64)
			if err != nil {
				fmt.Fprintln(os.Stderr, "bad seed")
				os.Exit(2)
			}
			seed = n
		}
	}
	f, ok := Lookup(prop)
	if !ok {
		fmt.Fprintf(os.Stderr, "unknown property %s; registered: %v\n", prop, Registered())
		os.Exit(2)
	}
	c, err := NewCtx(prop, tier, seed)
	if err != nil {
		fmt.Fprintln(os.Stderr, err)
		os.Exit(2)
	}
	var runErr error
	func() {
		defer func() {
			if r := recover(); r != nil {
				runErr = fmt.Errorf("harness panic: %v", r)
			}
		}()
		runErr = f(c)
	}()
	code := c.Finish(runErr)
	c.Cleanup()
	os.Exit(code)
}
