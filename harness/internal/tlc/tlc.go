// Package tlc runs TLC in a scratch directory and parses its counters.
package tlc

import (
	"bytes"
	"context"
	"fmt"
	"os"
	"os/exec"
	"path/filepath"
	"regexp"
	"strconv"
	"strings"
	"time"
)

const jar = "/opt/veriftools/tla/tla2tools.jar:/opt/veriftools/tla/CommunityModules-deps.jar"

type Opts struct {
	SpecDirs []string          // directories whose *.tla / *.cfg are copied into the scratch dir
	Module   string            // root module (without .tla)
	Config   string            // cfg file name (in the scratch dir after copying)
	Workers  int               // 0 -> 1
	Timeout  time.Duration     // 0 -> 10 min
	Env      map[string]string // read in specs through IOEnv
	Extra    []string          // extra TLC args (e.g. -simulate ...)
	HeapMB   int               // 0 -> 4096
	Scratch  string            // parent for the scratch dir
	DFS      bool              // depth-first state queue (trace validation with branching)
	Files    map[string]string // extra files to write into the scratch dir (name -> content)
}

type Result struct {
	Generated int // states generated (TLC's transition count)
	Distinct  int // distinct states
	Diameter  int
	Output    string
	OK        bool // finished, no error/violation reported
	Violation bool // invariant/property/postcondition violated
	ErrText   string
	Dir       string
	Wall      time.Duration
}

var (
	reStates = regexp.MustCompile(`(\d+) states generated, (\d+) distinct states found`)
	reDepth  = regexp.MustCompile(`depth of the complete state graph search is (\d+)`)
)

func copyDir(src, dst string) error {
	ents, err := os.ReadDir(src)
	if err != nil {
		return err
	}
	for _, e := range ents {
		if e.IsDir() {
			continue
		}
		n := e.Name()
		if !(strings.HasSuffix(n, ".tla") || strings.HasSuffix(n, ".cfg")) {
			continue
		}
		data, err := os.ReadFile(filepath.Join(src, n))
		if err != nil {
			return err
		}
		if err := os.WriteFile(filepath.Join(dst, n), data, 0644); err != nil {
			return err
		}
	}
	return nil
}

// Run executes TLC. An error is returned only when TLC could not be run or
// did not reach a verdict (crash, timeout, parse error): infrastructure.
func Run(o Opts) (*Result, error) {
	if o.Workers <= 0 {
		o.Workers = 1
	}
	if o.Timeout == 0 {
		o.Timeout = 10 * time.Minute
	}
	if o.HeapMB == 0 {
		o.HeapMB = 4096
	}
	dir, err := os.MkdirTemp(o.Scratch, "tlc-")
	if err != nil {
		return nil, err
	}
	for _, d := range o.SpecDirs {
		if err := copyDir(d, dir); err != nil {
			return nil, err
		}
	}
	for n, content := range o.Files {
		if err := os.WriteFile(filepath.Join(dir, n), []byte(content), 0644); err != nil {
			return nil, err
		}
	}
	// TLC unpacks its standard modules into java.io.tmpdir on every run: keep that inside the scratch directory
	jtmp := filepath.Join(dir, "jtmp")
	os.MkdirAll(jtmp, 0755)
	args := []string{"-XX:+UseParallelGC", fmt.Sprintf("-Xmx%dm", o.HeapMB), "-Xss64m", "-Djava.io.tmpdir=" + jtmp}
	if o.DFS {
		args = append(args, "-Dtlc2.tool.queue.IStateQueue=StateDeque")
	}
	args = append(args, "-cp", jar, "tlc2.TLC", "-metadir", filepath.Join(dir, "meta"), "-workers", strconv.Itoa(o.Workers), "-noGenerateSpecTE")
	if o.Config != "" {
		args = append(args, "-config", o.Config)
	}
	args = append(args, o.Extra...)
	args = append(args, o.Module)
	ctx, cancel := context.WithTimeout(context.Background(), o.Timeout)
	defer cancel()
	cmd := exec.CommandContext(ctx, "java", args...)
	cmd.Dir = dir
	env := os.Environ()
	for k, v := range o.Env {
		env = append(env, k+"="+v)
	}
	cmd.Env = env
	var buf bytes.Buffer
	cmd.Stdout = &buf
	cmd.Stderr = &buf
	start := time.Now()
	runErr := cmd.Run()
	res := &Result{Output: buf.String(), Dir: dir, Wall: time.Since(start)}
	if ctx.Err() != nil {
		return res, fmt.Errorf("TLC timed out after %v (%s %s)", o.Timeout, o.Module, o.Config)
	}
	// take the last occurrence of the counters
	if ms := reStates.FindAllStringSubmatch(res.Output, -1); len(ms) > 0 {
		m := ms[len(ms)-1]
		res.Generated, _ = strconv.Atoi(m[1])
		res.Distinct, _ = strconv.Atoi(m[2])
	}
	if m := reDepth.FindStringSubmatch(res.Output); m != nil {
		res.Diameter, _ = strconv.Atoi(m[1])
	}
	out := res.Output
	switch {
	case strings.Contains(out, "Model checking completed. No error has been found.") ||
		(strings.Contains(out, "Finished in") && runErr == nil && !strings.Contains(out, "Error:")):
		res.OK = true
	case strings.Contains(out, "is violated") || strings.Contains(out, "Deadlock reached") ||
		strings.Contains(out, "Temporal properties were violated"):
		res.Violation = true
		res.ErrText = excerpt(out)
	default:
		res.ErrText = excerpt(out)
		return res, fmt.Errorf("TLC did not reach a verdict (%s %s): %s", o.Module, o.Config, res.ErrText)
	}
	return res, nil
}

func excerpt(out string) string {
	i := strings.Index(out, "Error:")
	if i < 0 {
		if len(out) > 2000 {
			return out[len(out)-2000:]
		}
		return out
	}
	e := out[i:]
	if len(e) > 3000 {
		e = e[:3000]
	}
	return e
}

// Lines returns the stdout lines that contain marker, with everything before
// the marker dropped (used for PrintT-exported verdict lines).
func (r *Result) Lines(marker string) []string {
	var ls []string
	for _, l := range strings.Split(r.Output, "\n") {
		if i := strings.Index(l, marker); i >= 0 {
			ls = append(ls, l[i:])
		}
	}
	return ls
}
