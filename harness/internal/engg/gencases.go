package engg

import (
	"bufio"
	"encoding/json"
	"fmt"
	"os"
	"sort"
	"strings"
)

// TypeTerm is a type of the GenCases.tla universe.
type TypeTerm struct {
	K   string    `json:"k"` // basic | leaf | ptr | slice | array | map | wrap | named | bad
	N   string    `json:"n,omitempty"`
	E   *TypeTerm `json:"e,omitempty"`
	Key *TypeTerm `json:"key,omitempty"`
}

type GenCase struct {
	T TypeTerm `json:"t"`
	P string   `json:"p"`
	F string   `json:"f"`
	// Flagged: run with a non-default global -prefix while every plugin the user's files call keeps its
	// classic name through -pluginprefix (so the sources are unchanged and only internal helpers are renamed)
	Flagged bool `json:"flagged,omitempty"`
	// Overlap: the case's plugin gets the prefix "same<Plugin>" and another, uncalled plugin with a LONGER default
	// prefix gets the proper prefix "same": the longest effective prefix must win the call
	Overlap bool `json:"overlap,omitempty"`
}

func (t *TypeTerm) String() string {
	switch t.K {
	case "basic", "leaf", "bad":
		return t.N
	case "ptr":
		return "*" + t.E.String()
	case "slice":
		return "[]" + t.E.String()
	case "array":
		return "[2]" + t.E.String()
	case "map":
		return "map[" + t.Key.String() + "]" + t.E.String()
	case "wrap":
		return "struct{F " + t.E.String() + "; G int}"
	case "named":
		return "named(" + t.E.String() + ")"
	}
	return "?"
}

func (t *TypeTerm) Size() int {
	n := 1
	if t.E != nil {
		n += t.E.Size()
	}
	if t.Key != nil {
		n += t.Key.Size()
	}
	return n
}

func (g *GenCase) String() string {
	if g.Flagged {
		return fmt.Sprintf("%s(%s) form=%s flags=-prefix=gen,-pluginprefix=<called plugins keep derive*>", g.P, g.T.String(), g.F)
	}
	if g.Overlap {
		return fmt.Sprintf("%s(%s) form=%s flags=-pluginprefix=<plugin>=same<Plugin>,takewhile=same", g.P, g.T.String(), g.F)
	}
	return fmt.Sprintf("%s(%s) form=%s", g.P, g.T.String(), g.F)
}

func readGenCases(path string) ([]GenCase, error) {
	f, err := os.Open(path)
	if err != nil {
		return nil, err
	}
	defer f.Close()
	var out []GenCase
	sc := bufio.NewScanner(f)
	sc.Buffer(make([]byte, 1<<20), 1<<24)
	for sc.Scan() {
		line := strings.TrimSpace(sc.Text())
		if line == "" {
			continue
		}
		var inner string
		if err := json.Unmarshal([]byte(line), &inner); err != nil {
			return nil, err
		}
		var g GenCase
		if err := json.Unmarshal([]byte(inner), &g); err != nil {
			return nil, fmt.Errorf("%v in %s", err, inner)
		}
		out = append(out, g)
	}
	return out, sc.Err()
}

// Fixture: the declared leaves of the universe.
const fixtureLocal = `package p

import (
	"m/ext"
	ext2 "m/other/ext"
)

// Both has fields from two imported packages that are both called ext.
type Both struct {
	A ext.SE
	B *ext2.SE2
	C []ext2.SE2
}

type MyInt int

type MyString string

// aliases: identical to the type they stand for, but their own node in go/types
type AliasSL = SL

type AliasInt = int

type AliasExt = ext.SE

// SL is a local struct with an unexported field.
type SL struct {
	A int
	B string
	c bool
}

// KeyStruct is a struct of basics, usable as a map key.
type KeyStruct struct {
	K1 string
	K2 int
}

// Rec is recursive through a pointer, a slice and a map.
type Rec struct {
	V int
	N *Rec
	L []Rec
	M map[string]*Rec
}

// Emb embeds a struct and a pointer to a struct.
type Emb struct {
	SL
	*Rec
	Z int
}
`

const fixtureExt = `package ext

// SE has unexported fields; other packages reach them only through reflection.
type SE struct {
	A int
	b string
	C []int
	d *int
	// unexported although it does not start with a lower-case letter
	_u uint32
	E bool
}

func NewSE(a int, b string) SE { return SE{A: a, b: b} }
`

const fixtureExt2 = `package ext

// SE2 lives in a second package that is also called ext.
type SE2 struct {
	X float64
	y []string
}

func NewSE2(x float64) SE2 { return SE2{X: x} }
`

type rendered struct {
	expr    string
	decls   []string
	imports map[string]string // alias -> path
	n       int
}

func (r *rendered) render(t *TypeTerm) string {
	switch t.K {
	case "basic", "bad":
		if strings.HasPrefix(t.N, "unsafe.") {
			r.imports["unsafe"] = "unsafe"
		}
		return t.N
	case "leaf":
		if strings.HasPrefix(t.N, "time.") {
			r.imports["time"] = "time"
		} else if strings.HasPrefix(t.N, "ext2.") {
			r.imports["ext2"] = "m/other/ext"
		} else if strings.HasPrefix(t.N, "ext.") {
			r.imports["ext"] = "m/ext"
		}
		return t.N
	case "ptr":
		return "*" + r.render(t.E)
	case "slice":
		return "[]" + r.render(t.E)
	case "array":
		return "[2]" + r.render(t.E)
	case "map":
		return "map[" + r.render(t.Key) + "]" + r.render(t.E)
	case "wrap":
		inner := r.render(t.E)
		r.n++
		name := fmt.Sprintf("W%d", r.n)
		r.decls = append(r.decls, fmt.Sprintf("type %s struct {\n\tF %s\n\tG int\n}\n", name, inner))
		return name
	case "named":
		inner := r.render(t.E)
		r.n++
		name := fmt.Sprintf("N%d", r.n)
		r.decls = append(r.decls, fmt.Sprintf("type %s %s\n", name, inner))
		return name
	}
	return "INVALID"
}

func importBlock(imps map[string]string) string {
	if len(imps) == 0 {
		return ""
	}
	var as []string
	for a := range imps {
		as = append(as, a)
	}
	sort.Strings(as)
	var b strings.Builder
	b.WriteString("import (\n")
	for _, a := range as {
		if a == imps[a] || strings.HasSuffix(imps[a], "/"+a) {
			fmt.Fprintf(&b, "\t%q\n", imps[a])
		} else {
			fmt.Fprintf(&b, "\t%s %q\n", a, imps[a])
		}
	}
	b.WriteString(")\n\n")
	return b.String()
}

// callText returns parameter list, result type and call expression of plugin p on subject type X.
func callText(p, X string, t *TypeTerm, form string) (params, result, expr string) {
	ptrlike := t.K == "ptr" || t.K == "slice" || t.K == "map"
	switch p {
	case "equal":
		params, result, expr = "a, b "+X, "bool", "deriveEqual(a, b)"
		if form == "nested" {
			expr = "deriveEqual(deriveClone(a), b)"
		}
		if form == "curried" {
			expr = "deriveEqual(a)(b)"
		}
	case "compare":
		params, result, expr = "a, b "+X, "int", "deriveCompare(a, b)"
		if form == "nested" {
			expr = "deriveCompare(deriveClone(a), b)"
		}
		if form == "curried" {
			expr = "deriveCompare(a)(b)"
		}
	case "hash":
		params, result, expr = "a "+X, "uint64", "deriveHash(a)"
		if form == "nested" {
			expr = "deriveHash(deriveClone(a))"
		}
	case "deepcopy":
		if ptrlike {
			params, result, expr = "a, b "+X, "", "deriveDeepCopy(a, b)"
		} else {
			params, result, expr = "a, b *"+X, "", "deriveDeepCopy(a, b)"
		}
	case "clone":
		params, result, expr = "a "+X, X, "deriveClone(a)"
	case "gostring":
		params, result, expr = "a "+X, "string", "deriveGoString(a)"
	case "sort":
		params, result, expr = "a []"+X, "[]"+X, "deriveSort(a)"
		if form == "nested" {
			expr = "deriveSort(deriveUnique(a))"
		}
	case "keys":
		params, result, expr = "m map["+X+"]int", "[]"+X, "deriveKeys(m)"
		if form == "nested" {
			expr = "deriveSort(deriveKeys(m))"
		}
	case "min":
		params, result, expr = "a []"+X+", d "+X, X, "deriveMin(a, d)"
		if form == "nested" {
			expr = "deriveMin(deriveSort(a), d)"
		}
	case "max":
		params, result, expr = "a []"+X+", d "+X, X, "deriveMax(a, d)"
		if form == "nested" {
			expr = "deriveMax(deriveSort(a), d)"
		}
	case "contains":
		params, result, expr = "a []"+X+", x "+X, "bool", "deriveContains(a, x)"
		if form == "nested" {
			expr = "deriveContains(deriveUnique(a), x)"
		}
	case "unique":
		params, result, expr = "a []"+X, "[]"+X, "deriveUnique(a)"
		if form == "nested" {
			expr = "deriveUnique(deriveSort(a))"
		}
	case "set":
		params, result, expr = "a []"+X, "map["+X+"]struct{}", "deriveSet(a)"
	case "union":
		params, result, expr = "a, b []"+X, "[]"+X, "deriveUnion(a, b)"
	case "intersect":
		params, result, expr = "a, b []"+X, "[]"+X, "deriveIntersect(a, b)"
	}
	return
}

// genCaseFiles renders one case as the files of package m/<dir> (fixture packages live in the module).
func genCaseFiles(g *GenCase, dir string) map[string]string {
	r := &rendered{imports: map[string]string{}}
	X := r.render(&g.T)
	params, result, expr := callText(g.P, X, &g.T, g.F)
	files := map[string]string{dir + "/fixture.go": fixtureLocal}
	withImports := func(body string) string {
		imps := map[string]string{}
		for a, p := range r.imports {
			if strings.Contains(body, a+".") {
				imps[a] = p
			}
		}
		return "package p\n\n" + importBlock(imps) + body
	}
	var tb strings.Builder
	for _, d := range r.decls {
		tb.WriteString(d + "\n")
	}
	var cb strings.Builder
	ret := ""
	if result != "" {
		ret = "return "
	}
	switch g.F {
	case "pkgvar":
		// package-level variables and a package-level var initialised by the call
		cb.WriteString("var (\n")
		for _, decl := range splitParams(params) {
			fmt.Fprintf(&cb, "\t%s\n", decl)
		}
		cb.WriteString(")\n\n")
		if result != "" {
			fmt.Fprintf(&cb, "var v = %s\n", expr)
		} else {
			fmt.Fprintf(&cb, "func init() {\n\t%s\n}\n", expr)
		}
	case "closure":
		fmt.Fprintf(&cb, "var fn = func(%s) %s {\n\t%s%s\n}\n", params, result, ret, expr)
	case "builtinarg":
		fmt.Fprintf(&cb, "func use(%s) int {\n\treturn len(append([]%s(nil), %s))\n}\n", params, result, expr)
	case "funcarg":
		fmt.Fprintf(&cb, "func id(x %s) %s { return x }\n\nfunc use(%s) %s {\n\treturn id(%s)\n}\n", result, result, params, result, expr)
	case "composite":
		fmt.Fprintf(&cb, "type holder struct {\n\tV %s\n}\n\nfunc use(%s) []holder {\n\treturn []holder{{V: %s}}\n}\n", result, params, expr)
	case "convarg":
		fmt.Fprintf(&cb, "func use(%s) %s {\n\treturn %s(%s)\n}\n", params, result, result, expr)
	case "namedconv":
		fmt.Fprintf(&cb, "type resT %s\n\nfunc use(%s) resT {\n\treturn resT(%s)\n}\n", result, params, expr)
	case "selectorarg":
		r.imports["fmt"] = "fmt"
		fmt.Fprintf(&cb, "func use(%s) string {\n\treturn fmt.Sprint(%s)\n}\n", params, expr)
	case "litcall":
		fmt.Fprintf(&cb, "func use(%s) %s {\n\treturn func(x %s) %s { return x }(%s)\n}\n", params, result, result, result, expr)
	case "method":
		fmt.Fprintf(&cb, "type recv struct{}\n\nfunc (r *recv) use(%s) %s {\n\t%s%s\n}\n", params, result, ret, expr)
	case "goroutine":
		if result != "" {
			fmt.Fprintf(&cb, "func use(%s) {\n\tgo func() {\n\t\t_ = %s\n\t}()\n}\n", params, expr)
		} else {
			fmt.Fprintf(&cb, "func use(%s) {\n\tgo func() {\n\t\t%s\n\t}()\n}\n", params, expr)
		}
	case "deferred":
		if result != "" {
			fmt.Fprintf(&cb, "func use(%s) {\n\tdefer func() {\n\t\t_ = %s\n\t}()\n}\n", params, expr)
		} else {
			fmt.Fprintf(&cb, "func use(%s) {\n\tdefer %s\n}\n", params, expr)
		}
	default:
		fmt.Fprintf(&cb, "func use(%s) %s {\n\t%s%s\n}\n", params, result, ret, expr)
	}
	if g.F == "nested" || g.F == "method" {
		// an external test package next to the package (the loader creates both); the nested form needs two passes
		files[dir+"/ext_test.go"] = "package p_test\n\nvar X = 1\n"
	}
	files[dir+"/types.go"] = withImports(tb.String())
	if g.F == "testfile" {
		files[dir+"/calls_test.go"] = withImports(cb.String())
	} else {
		files[dir+"/calls.go"] = withImports(cb.String())
	}
	return files
}

// splitParams turns "a, b X, d Y" into ["a, b X", "d Y"] declarations usable inside var ( ... ).
func splitParams(params string) []string {
	parts := strings.Split(params, ", ")
	var out []string
	cur := ""
	for _, p := range parts {
		if cur != "" {
			cur += ", "
		}
		cur += p
		if strings.Contains(p, " ") {
			out = append(out, cur)
			cur = ""
		}
	}
	if cur != "" {
		out = append(out, cur)
	}
	return out
}

func moduleFixture() map[string]string {
	return map[string]string{
		"go.mod":           "module m\n\ngo 1.24\n",
		"ext/ext.go":       fixtureExt,
		"other/ext/ext.go": fixtureExt2,
	}
}

// subTerms lists candidate simplifications of t (each strictly smaller), for witness minimisation.
func subTerms(t *TypeTerm) []*TypeTerm {
	var out []*TypeTerm
	add := func(x *TypeTerm) {
		if x != nil {
			out = append(out, x)
		}
	}
	if t.E != nil {
		add(t.E) // drop the constructor
		for _, s := range subTerms(t.E) {
			c := *t
			c.E = s
			add(&c)
		}
	}
	if t.K == "map" && !(t.Key.K == "basic" && t.Key.N == "string") {
		c := *t
		c.Key = &TypeTerm{K: "basic", N: "string"}
		add(&c)
	}
	if (t.K == "leaf" || t.K == "basic") && t.N != "int" {
		add(&TypeTerm{K: "basic", N: "int"})
	}
	if t.K == "leaf" && t.N != "SL" && t.N != "MyInt" && t.N != "MyString" && t.N != "time.Duration" && !strings.HasPrefix(t.N, "Alias") {
		add(&TypeTerm{K: "leaf", N: "SL"}) // the plainest struct leaf
	}
	if t.K == "leaf" || (t.K != "basic" && t.Size() > 2) {
		// the smallest type that still holds a pointer
		add(&TypeTerm{K: "ptr", E: &TypeTerm{K: "basic", N: "int"}})
	}
	return out
}
