package engg

import (
	"bytes"
	"go/format"
	"go/parser"
	"go/scanner"
	"go/token"
	"path/filepath"
	"sort"
)

type tok struct {
	text  string
	off   int
	ident bool
}

// scanToks tokenises Go source (comments included, automatic semicolons dropped).
func scanToks(src []byte) []tok {
	fset := token.NewFileSet()
	f := fset.AddFile("", fset.Base(), len(src))
	var s scanner.Scanner
	s.Init(f, src, nil, scanner.ScanComments)
	var ts []tok
	for {
		pos, t, lit := s.Scan()
		if t == token.EOF {
			break
		}
		if t == token.SEMICOLON && lit == "\n" {
			continue
		}
		text := lit
		if text == "" {
			text = t.String()
		}
		ts = append(ts, tok{text: text, off: f.Offset(pos), ident: t == token.IDENT})
	}
	return ts
}

func texts(ts []tok) []string {
	out := make([]string, len(ts))
	for i, t := range ts {
		out[i] = t.text
	}
	return out
}

// fileObs builds the FileObs record of one user file: orig and now are its
// bytes before and after the run; renames are the trace's Rename events for it.
func fileObs(abs string, orig, now []byte, existsNow bool, renames []map[string]interface{}, single bool) map[string]interface{} {
	obs := map[string]interface{}{"ev": "FileObs", "file": abs, "changed": !existsNow || !bytes.Equal(orig, now), "single": single,
		"before": []string{}, "after": []string{}, "rens": []interface{}{}, "parses": false, "exact": false}
	if !existsNow {
		return obs
	}
	_, perr := parser.ParseFile(token.NewFileSet(), abs, now, parser.ParseComments)
	obs["parses"] = perr == nil
	fmtOrig, err := format.Source(orig)
	if err != nil {
		// the original does not parse: only the coarse obligations apply
		obs["single"] = false
		obs["before"], obs["after"] = texts(scanToks(orig)), texts(scanToks(now))
		return obs
	}
	origToks := scanToks(orig)
	fmtToks := scanToks(fmtOrig)
	// ordinal of each identifier token in the original; gofmt keeps identifier order
	var origIdents, fmtIdents []int
	for i, t := range origToks {
		if t.ident {
			origIdents = append(origIdents, i)
		}
	}
	for i, t := range fmtToks {
		if t.ident {
			fmtIdents = append(fmtIdents, i)
		}
	}
	sameIdents := len(origIdents) == len(fmtIdents)
	rens := []interface{}{}
	subst := append([]byte{}, orig...)
	type edit struct {
		off      int
		from, to string
	}
	var edits []edit
	for _, r := range renames {
		off := int(r["offset"].(float64))
		from, to := r["from"].(string), r["to"].(string)
		idx := -1
		for k, oi := range origIdents {
			if origToks[oi].off == off && origToks[oi].text == from && sameIdents {
				idx = fmtIdents[k] + 1 // TLA+ sequences are 1-based
			}
		}
		rens = append(rens, map[string]interface{}{"i": idx, "from": from, "to": to, "offset": off})
		edits = append(edits, edit{off, from, to})
	}
	sort.Slice(edits, func(a, b int) bool { return edits[a].off > edits[b].off })
	okEdits := true
	for _, e := range edits {
		if e.off < 0 || e.off+len(e.from) > len(subst) || string(subst[e.off:e.off+len(e.from)]) != e.from {
			okEdits = false
			continue
		}
		subst = append(append(append([]byte{}, subst[:e.off]...), e.to...), subst[e.off+len(e.from):]...)
	}
	expected, err := format.Source(subst)
	obs["exact"] = okEdits && err == nil && bytes.Equal(expected, now)
	obs["before"] = texts(fmtToks)
	obs["after"] = texts(scanToks(now))
	obs["rens"] = rens
	return obs
}

func isUserGo(rel string) bool {
	return filepath.Ext(rel) == ".go" && filepath.Base(rel) != "derived.gen.go"
}
