package engg

import (
	"bufio"
	"encoding/json"
	"fmt"
	"os"
	"path/filepath"
	"sync"
	"time"

	"verif/harness/internal/core"
	"verif/harness/internal/tlc"
)

// Bad is one trace line the specification rejected.
type Bad struct {
	L   int    `json:"l"`
	Run string `json:"run"`
	Why string `json:"why"`
}

type ValStats struct {
	Traces int
	Events int
	States int
	Bad    []Bad
}

// ValidateTraces lets TLC check every recorded run against GoderiveTrace.tla.
// It returns the rejected lines; an error means TLC could not judge the trace
// (machinery problem, never a violation).
func ValidateTraces(c *core.Ctx, outs []*RunOut) (*ValStats, error) {
	chunks := 16
	if len(outs) < 64 {
		chunks = 1
	}
	dir := filepath.Join(c.Work, "traces")
	paths, groups, err := WriteTraceChunks(dir, outs, chunks)
	if err != nil {
		return nil, err
	}
	st := &ValStats{}
	var mu sync.Mutex
	var wg sync.WaitGroup
	var firstErr error
	sem := make(chan struct{}, 8)
	for gi := range paths {
		wg.Add(1)
		go func(gi int) {
			defer wg.Done()
			sem <- struct{}{}
			defer func() { <-sem }()
			nlines := 0
			for _, o := range groups[gi] {
				nlines += len(o.Lines)
			}
			outp := paths[gi] + ".bad"
			res, err := tlc.Run(tlc.Opts{
				SpecDirs: []string{filepath.Join(c.Verif, "spec", "gen")},
				Module:   "GoderiveTrace", Config: "GoderiveTrace.cfg",
				Workers: 1, Timeout: 20 * time.Minute, HeapMB: 3000, Scratch: c.Work,
				Env: map[string]string{"VERIF_TRACE": paths[gi], "VERIF_OUT": outp},
			})
			mu.Lock()
			defer mu.Unlock()
			if err != nil {
				if firstErr == nil {
					firstErr = fmt.Errorf("trace validation (chunk %d): %v", gi, err)
				}
				return
			}
			if res.Violation {
				if firstErr == nil {
					firstErr = fmt.Errorf("trace validation (chunk %d): specification got stuck after %d of %d lines: %s", gi, res.Diameter-1, nlines, res.ErrText)
				}
				return
			}
			bads, err := readBad(outp)
			if err != nil {
				if firstErr == nil {
					firstErr = err
				}
				return
			}
			st.Bad = append(st.Bad, bads...)
			st.Traces += len(groups[gi])
			st.Events += nlines
			st.States += res.Distinct
		}(gi)
	}
	wg.Wait()
	if firstErr != nil {
		return nil, firstErr
	}
	return st, nil
}

func readBad(p string) ([]Bad, error) {
	f, err := os.Open(p)
	if err != nil {
		return nil, fmt.Errorf("trace validation wrote no verdict file: %v", err)
	}
	defer f.Close()
	var bads []Bad
	sc := bufio.NewScanner(f)
	sc.Buffer(make([]byte, 1<<20), 1<<24)
	for sc.Scan() {
		if len(sc.Bytes()) == 0 {
			continue
		}
		var b Bad
		if err := json.Unmarshal(sc.Bytes(), &b); err != nil {
			return nil, err
		}
		bads = append(bads, b)
	}
	return bads, sc.Err()
}

// FirstBad returns, per run, the reasons TLC recorded at the first rejected line of that run
// (later rejections of the same run may be consequences of the first).
func FirstBad(st *ValStats, mine ...func(string) bool) map[string][]string {
	keep := func(w string) bool { return len(mine) == 0 || mine[0] == nil || mine[0](w) }
	first := map[string]int{}
	for _, b := range st.Bad {
		if !keep(b.Why) {
			continue
		}
		if l, ok := first[b.Run]; !ok || b.L < l {
			first[b.Run] = b.L
		}
	}
	out := map[string][]string{}
	for _, b := range st.Bad {
		if !keep(b.Why) {
			continue
		}
		if b.L == first[b.Run] {
			dup := false
			for _, w := range out[b.Run] {
				dup = dup || w == b.Why
			}
			if !dup {
				out[b.Run] = append(out[b.Run], b.Why)
			}
		}
	}
	return out
}
