package engg

import (
	"bytes"
	"encoding/json"
	"fmt"
	"os"
	"path/filepath"
	"sort"
	"strings"
	"sync"
	"sync/atomic"
	"time"

	"verif/harness/internal/core"
	"verif/harness/internal/gd"
)

// RunOut is what one real goderive run on one scenario produced.
type RunOut struct {
	Sc        *Scenario
	Exit      int
	Stderr    string
	TimedOut  bool
	Panicked  bool
	Changed   []string // user files (absolute) created/modified/removed, derived.gen.go excluded
	Derived   string   // bytes of derived.gen.go after the run ("" if absent)
	HasDer    bool
	Post      PostObs
	Events    []map[string]interface{}
	Lines     [][]byte // RunStart + events + RunEnd, as NDJSON lines
	Dir       string
	Prefixes  map[string]string // plugin -> prefix as registered in this run (from PkgStart)
	UserAfter map[string]string // contents of changed user files after the run
}

type RunOpts struct {
	Post     bool // type-check observations after successful runs
	FileObs  bool // token-level observation of every user file of the package (C10)
	KeepDirs bool
	Timeout  time.Duration
	NoScale  bool // do not stretch the limit by the machine load
	Workers  int
}

func marshal(v interface{}) []byte {
	b, err := json.Marshal(v)
	if err != nil {
		panic(err)
	}
	return b
}

func defaultPrefixes(evs []map[string]interface{}) map[string]string {
	m := map[string]string{}
	for _, e := range evs {
		if e["ev"] == "PkgStart" {
			if ps, ok := e["plugins"].([]interface{}); ok {
				for _, p := range ps {
					pm := p.(map[string]interface{})
					m[pm["name"].(string)] = pm["prefix"].(string)
				}
			}
			break
		}
	}
	return m
}

// compress drops from PkgStart.plugins every plugin that can play no role in
// this run: its prefix is neither a prefix of a call name nor mentioned by any
// other event. Dispatch candidates and table domains are unaffected.
func compress(evs []map[string]interface{}) {
	used := map[string]bool{}
	var names []string
	for _, e := range evs {
		if p, ok := e["prefix"].(string); ok {
			used[p] = true
		}
		if e["ev"] == "Call" || e["ev"] == "NoPlugin" || e["ev"] == "Dispatch" {
			names = append(names, e["name"].(string))
		}
	}
	for _, e := range evs {
		if e["ev"] != "PkgStart" {
			continue
		}
		ps, _ := e["plugins"].([]interface{})
		var keep []interface{}
		for _, p := range ps {
			pm := p.(map[string]interface{})
			pre := pm["prefix"].(string)
			k := used[pre]
			for _, n := range names {
				if strings.HasPrefix(n, pre) {
					k = true
				}
			}
			if k {
				keep = append(keep, p)
			}
		}
		if keep == nil {
			keep = []interface{}{}
		}
		e["plugins"] = keep
	}
}

// runJudged runs goderive for a check whose verdict is not about termination (C07, C08). A run that exceeds the
// load-scaled limit is repeated once with three times the limit after prepare() has restored the directory
// (nil: the run cannot be repeated faithfully); a run that still does not finish is an infrastructure error:
// whether goderive terminates is C09's question, and a starved machine must not turn into a C07/C08 verdict.
func runJudged(c *core.Ctx, bin, dir string, args []string, trace string, prepare func() error) (*gd.RunResult, error) {
	r, err := gd.Run(c, bin, dir, args, trace, 0)
	if err != nil || !r.TimedOut {
		return r, err
	}
	if prepare != nil {
		if err := prepare(); err != nil {
			return nil, err
		}
		r, err = gd.Run(c, bin, dir, args, trace, 60*time.Second)
		if err != nil || !r.TimedOut {
			if err == nil {
				c.Warn("a goderive run exceeded the time limit and finished when repeated with a longer one (machine load): " + dir)
			}
			return r, err
		}
	}
	return nil, fmt.Errorf("goderive did not finish within the load-scaled time limit in %s: this check does not judge termination (C09 does); rerun on a quieter machine", dir)
}

// timeoutRetries bounds how many timed-out runs are repeated per process (a genuine hang costs the long timeout once more)
var timeoutRetries int32 = 6

// confirmedHangs counts runs that exceeded the limit also when repeated
var confirmedHangs int32

// RunOne realises the scenario under root, runs goderive and collects observations. A run that exceeds the
// time limit is repeated once from a clean directory with a three times longer limit before it is called a
// hang: on a heavily loaded machine a correct goderive can need more than 20 s, and a verdict must not
// depend on the load.
func RunOne(c *core.Ctx, bin string, sc *Scenario, root string, chk *Checker, o RunOpts) (*RunOut, error) {
	if atomic.LoadInt32(&confirmedHangs) >= 8 && o.Timeout == 0 {
		// goderive demonstrably hangs on this tree: do not let every further hanging case cost minutes
		o.Timeout = 10 * time.Second
		o.NoScale = true
	}
	out, err := runOneAttempt(c, bin, sc, root, chk, o)
	if err != nil || !out.TimedOut {
		return out, err
	}
	if o.NoScale || atomic.AddInt32(&timeoutRetries, -1) < 0 {
		atomic.AddInt32(&confirmedHangs, 1)
		return out, err
	}
	os.RemoveAll(root)
	o2 := o
	if o2.Timeout == 0 {
		o2.Timeout = 20 * time.Second
	}
	o2.Timeout *= 3
	out2, err := runOneAttempt(c, bin, sc, root, chk, o2)
	if err != nil {
		return nil, err
	}
	if out2.TimedOut {
		atomic.AddInt32(&confirmedHangs, 1)
	}
	if !out2.TimedOut {
		c.Warn(fmt.Sprintf("a goderive run exceeded the time limit and finished when repeated with a longer one (machine load): %s", sc.ID))
	}
	return out2, nil
}

func runOneAttempt(c *core.Ctx, bin string, sc *Scenario, root string, chk *Checker, o RunOpts) (*RunOut, error) {
	if err := os.MkdirAll(root, 0755); err != nil {
		return nil, err
	}
	if err := sc.Write(root); err != nil {
		return nil, err
	}
	pkgdir := filepath.Join(root, sc.PkgDir)
	der := filepath.Join(pkgdir, "derived.gen.go")
	if sc.PreDerived != "" {
		if err := os.WriteFile(der, []byte(sc.PreDerived), 0644); err != nil {
			return nil, err
		}
	}
	before, err := Snapshot(root)
	if err != nil {
		return nil, err
	}
	trace := filepath.Join(root, ".trace.ndjson")
	args := append(append([]string{}, sc.Flags...), sc.Args...)
	if len(sc.Args) == 0 {
		args = append(args, ".")
	}
	to := o.Timeout
	if o.NoScale {
		to = -to // gd.Run: negative = exact
	}
	r, err := gd.Run(c, bin, pkgdir, args, trace, to)
	if err != nil {
		return nil, err
	}
	os.Remove(trace)
	after, err := Snapshot(root)
	if err != nil {
		return nil, err
	}
	out := &RunOut{Sc: sc, Exit: r.Exit, Stderr: r.Stderr, TimedOut: r.TimedOut, Events: r.Events, Dir: root, UserAfter: map[string]string{}}
	out.Panicked = strings.Contains(r.Stderr, "panic:") || strings.Contains(r.Stderr, "goroutine ") || strings.Contains(r.Stderr, "fatal error:")
	out.Changed = []string{}
	for _, p := range DiffSnap(before, after) {
		if p == filepath.Join(sc.PkgDir, "derived.gen.go") {
			continue // the one file a run may create, modify or delete
		}
		abs := filepath.Join(root, p)
		out.Changed = append(out.Changed, abs)
		if data, err := os.ReadFile(abs); err == nil {
			out.UserAfter[p] = string(data)
		}
	}
	if data, err := os.ReadFile(der); err == nil {
		out.Derived, out.HasDer = string(data), true
	}
	prefixes := defaultPrefixes(r.Events)
	out.Prefixes = prefixes
	if o.Post && r.Exit == 0 && chk != nil {
		out.Post = chk.Check(pkgdir, prefixes)
	} else {
		out.Post = PostObs{Errors: []string{}, Sites: []SiteObs{}, Funcs: []FuncObs{}, Reserved: []string{}, Unresolved: []string{}}
	}
	compress(r.Events)
	out.Lines = append(out.Lines, runStartLine(sc))
	for _, e := range r.Events {
		out.Lines = append(out.Lines, marshal(e))
	}
	if o.FileObs {
		// pass index of every event (a pass = one newPackage call = one PkgStart)
		passOf := make([]int, len(r.Events))
		pass := 0
		for i, e := range r.Events {
			if e["ev"] == "PkgStart" {
				pass++
			}
			passOf[i] = pass
		}
		var rels []string
		for rel := range sc.Files {
			if isUserGo(rel) && filepath.Dir(rel) == filepath.Clean(sc.PkgDir) {
				rels = append(rels, rel)
			}
		}
		sort.Strings(rels)
		for _, rel := range rels {
			abs := filepath.Join(root, rel)
			now, err := os.ReadFile(abs)
			var rens []map[string]interface{}
			renPasses := map[int]bool{}
			firstRewrite := 0
			for i, e := range r.Events {
				if e["ev"] == "Rename" && e["file"] == abs {
					rens = append(rens, e)
					renPasses[passOf[i]] = true
				}
				if e["ev"] == "Rewrite" && e["file"] == abs && firstRewrite == 0 {
					firstRewrite = passOf[i]
				}
			}
			// the rename offsets refer to the original text as long as the file was not rewritten in an earlier pass
			single := len(renPasses) <= 1 && (firstRewrite == 0 || renPasses[firstRewrite])
			out.Lines = append(out.Lines, marshal(fileObs(abs, []byte(sc.Files[rel]), now, err == nil, rens, single)))
		}
	}
	out.Lines = append(out.Lines, marshal(map[string]interface{}{
		"ev": "RunEnd", "id": sc.ID, "exit": r.Exit, "timedout": r.TimedOut, "panicked": out.Panicked, "diagnostic": strings.TrimSpace(r.Stderr) != "",
		"changedFiles": out.Changed, "post": out.Post,
	}))
	if !o.KeepDirs {
		os.RemoveAll(root)
	}
	return out, nil
}

// runStartLine is the RunStart record the harness puts in front of a run's events.
func runStartLine(sc *Scenario) []byte {
	calls := sc.Calls
	if calls == nil {
		calls = []CallSpec{}
	}
	return marshal(map[string]interface{}{
		"ev": "RunStart", "id": sc.ID, "ident": sc.Ident, "calls": calls, "assertExit": sc.AssertExit,
		"autoname": sc.Autoname, "dedup": sc.Dedup, "mustSucceed": sc.MustSucceed, "wellTyped": sc.WellTyped,
	})
}

// RunAll runs every scenario on the real generator, in parallel, order preserved.
func RunAll(c *core.Ctx, bin string, scs []*Scenario, o RunOpts) ([]*RunOut, error) {
	if o.Workers <= 0 {
		o.Workers = 16
	}
	outs := make([]*RunOut, len(scs))
	errs := make([]error, o.Workers)
	var wg sync.WaitGroup
	next := make(chan int, len(scs))
	for i := range scs {
		next <- i
	}
	close(next)
	base := filepath.Join(c.Work, "scn")
	for w := 0; w < o.Workers; w++ {
		wg.Add(1)
		go func(w int) {
			defer wg.Done()
			var chk *Checker
			if o.Post {
				chk = NewChecker()
			}
			for i := range next {
				root := filepath.Join(base, fmt.Sprintf("w%d", w), fmt.Sprintf("s%06d", i))
				out, err := RunOne(c, bin, scs[i], root, chk, o)
				if err != nil {
					errs[w] = err
					return
				}
				outs[i] = out
			}
		}(w)
	}
	wg.Wait()
	for _, e := range errs {
		if e != nil {
			return nil, e
		}
	}
	return outs, nil
}

// WriteTraceChunks splits the runs into n NDJSON files (whole runs per file).
func WriteTraceChunks(dir string, outs []*RunOut, n int) ([]string, [][]*RunOut, error) {
	if n < 1 {
		n = 1
	}
	if n > len(outs) {
		n = len(outs)
	}
	if n == 0 {
		return nil, nil, nil
	}
	os.MkdirAll(dir, 0755)
	var paths []string
	var groups [][]*RunOut
	per := (len(outs) + n - 1) / n
	for g := 0; g*per < len(outs); g++ {
		lo, hi := g*per, (g+1)*per
		if hi > len(outs) {
			hi = len(outs)
		}
		var buf bytes.Buffer
		for _, o := range outs[lo:hi] {
			for _, l := range o.Lines {
				buf.Write(l)
				buf.WriteByte('\n')
			}
		}
		p := filepath.Join(dir, fmt.Sprintf("trace%02d.ndjson", g))
		if err := os.WriteFile(p, buf.Bytes(), 0644); err != nil {
			return nil, nil, err
		}
		paths = append(paths, p)
		groups = append(groups, outs[lo:hi])
	}
	return paths, groups, nil
}
