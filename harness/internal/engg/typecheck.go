package engg

import (
	"fmt"
	"go/ast"
	"go/build"
	"go/importer"
	"go/parser"
	"go/token"
	"go/types"
	"os"
	"path/filepath"
	"sort"
	"strings"
)

// SiteObs: one user call site that resolves into derived.gen.go.
type SiteObs struct {
	Name  string   `json:"name"`
	Arg   []string `json:"arg"`
	Param []string `json:"param"`
}

// FuncObs: one top-level function of derived.gen.go.
type FuncObs struct {
	Name   string   `json:"name"`
	Plugin string   `json:"plugin"`
	Param  []string `json:"param"`
	Top    bool     `json:"top"`
}

// PostObs is what go/types says about a package after a goderive run.
type PostObs struct {
	Present       bool      `json:"present"`
	Typechecks    bool      `json:"typechecks"`
	Errors        []string  `json:"errors"`
	Sites         []SiteObs `json:"sites"`
	Funcs         []FuncObs `json:"funcs"`
	Reserved      []string  `json:"reserved"`
	Unresolved    []string  `json:"unresolved"`    // derive-prefixed calls that resolve to nothing
	DerivedParses bool      `json:"derivedParses"` // derived.gen.go is absent or a syntactically valid Go file
}

// Checker type-checks package directories with a source importer (stdlib and
// module-local packages from source). Not safe for concurrent use: one per worker.
type Checker struct {
	fset *token.FileSet
	imp  types.ImporterFrom
}

func NewChecker() *Checker {
	fset := token.NewFileSet()
	ctx := build.Default
	_ = ctx
	imp := importer.ForCompiler(fset, "source", nil).(types.ImporterFrom)
	return &Checker{fset: fset, imp: imp}
}

// dirImporter resolves imports of the module that contains dir from that module's
// directories (go/build would ask `go list` in the process's working directory, which
// is not the scenario's module), and everything else through the source importer.
type dirImporter struct {
	c      *Checker
	dir    string
	root   string // module root ("" if none)
	module string
	local  map[string]*types.Package
}

func newDirImporter(c *Checker, dir string) *dirImporter {
	d := &dirImporter{c: c, dir: dir, local: map[string]*types.Package{}}
	for p := dir; ; p = filepath.Dir(p) {
		if data, err := os.ReadFile(filepath.Join(p, "go.mod")); err == nil {
			for _, l := range strings.Split(string(data), "\n") {
				if strings.HasPrefix(l, "module ") {
					d.root, d.module = p, strings.TrimSpace(strings.TrimPrefix(l, "module "))
				}
			}
			break
		}
		if p == filepath.Dir(p) {
			break
		}
	}
	return d
}

func (d *dirImporter) Import(path string) (*types.Package, error) {
	if d.module != "" && (path == d.module || strings.HasPrefix(path, d.module+"/")) {
		if p, ok := d.local[path]; ok {
			if p == nil {
				return nil, fmt.Errorf("import cycle through %s", path)
			}
			return p, nil
		}
		d.local[path] = nil // in progress
		pdir := filepath.Join(d.root, strings.TrimPrefix(strings.TrimPrefix(path, d.module), "/"))
		ents, err := os.ReadDir(pdir)
		if err != nil {
			return nil, err
		}
		var files []*ast.File
		for _, e := range ents {
			n := e.Name()
			if e.IsDir() || !strings.HasSuffix(n, ".go") || strings.HasSuffix(n, "_test.go") {
				continue
			}
			f, err := parser.ParseFile(d.c.fset, filepath.Join(pdir, n), nil, 0)
			if err != nil {
				return nil, err
			}
			files = append(files, f)
		}
		if len(files) == 0 {
			return nil, fmt.Errorf("no Go files in %s", pdir)
		}
		conf := types.Config{Importer: d, Error: func(error) {}}
		pkg, _ := conf.Check(path, d.c.fset, files, nil)
		d.local[path] = pkg
		return pkg, nil
	}
	return d.c.imp.ImportFrom(path, d.dir, 0)
}

func typeKey(t types.Type) string {
	if t == nil {
		return "<nil>"
	}
	return types.TypeString(types.Default(t), nil)
}

// Check parses and type-checks the package in dir (files of the primary
// package name, including in-package _test files) and reports observations.
// prefixes: plugin name -> prefix (to attribute generated functions).
func (c *Checker) Check(dir string, prefixes map[string]string) PostObs {
	obs := PostObs{Present: true, DerivedParses: true, Errors: []string{}, Sites: []SiteObs{}, Funcs: []FuncObs{}, Reserved: []string{}, Unresolved: []string{}}
	ents, err := os.ReadDir(dir)
	if err != nil {
		obs.Errors = append(obs.Errors, err.Error())
		return obs
	}
	var files []*ast.File
	fnames := map[*ast.File]string{}
	pkgName := ""
	var parsed []*ast.File
	for _, e := range ents {
		n := e.Name()
		if e.IsDir() || !strings.HasSuffix(n, ".go") {
			continue
		}
		f, err := parser.ParseFile(c.fset, filepath.Join(dir, n), nil, parser.ParseComments)
		if err != nil {
			if n == "derived.gen.go" {
				obs.DerivedParses = false
			}
			obs.Errors = append(obs.Errors, err.Error())
			if f == nil {
				continue
			}
		}
		fnames[f] = n
		parsed = append(parsed, f)
		if !strings.HasSuffix(n, "_test.go") && pkgName == "" {
			pkgName = f.Name.Name
		}
	}
	for _, f := range parsed {
		if pkgName == "" || f.Name.Name == pkgName {
			files = append(files, f)
		}
	}
	info := &types.Info{Uses: map[*ast.Ident]types.Object{}, Types: map[ast.Expr]types.TypeAndValue{}, Defs: map[*ast.Ident]types.Object{}}
	conf := types.Config{Importer: newDirImporter(c, dir), Error: func(err error) {
		if len(obs.Errors) < 20 {
			obs.Errors = append(obs.Errors, err.Error())
		}
	}}
	conf.Check(pkgName, c.fset, files, info)
	obs.Typechecks = len(obs.Errors) == 0
	pluginOf := func(name string) string {
		best, bl := "", -1
		for p, pre := range prefixes {
			if strings.HasPrefix(name, pre) && len(pre) > bl {
				best, bl = p, len(pre)
			}
		}
		return best
	}
	sigKey := func(sig *types.Signature) []string {
		ps := make([]string, sig.Params().Len())
		for i := range ps {
			ps[i] = typeKey(sig.Params().At(i).Type())
		}
		return ps
	}
	reserved := map[string]bool{}
	called := map[string]bool{}
	for _, f := range files {
		if fnames[f] == "derived.gen.go" {
			for _, d := range f.Decls {
				if fd, ok := d.(*ast.FuncDecl); ok && fd.Recv == nil {
					fo := FuncObs{Name: fd.Name.Name, Plugin: pluginOf(fd.Name.Name), Param: []string{}, Top: true}
					if o, ok := info.Defs[fd.Name].(*types.Func); ok {
						fo.Param = sigKey(o.Type().(*types.Signature))
					}
					obs.Funcs = append(obs.Funcs, fo)
				}
			}
			continue
		}
		ast.Inspect(f, func(n ast.Node) bool {
			call, ok := n.(*ast.CallExpr)
			if !ok {
				return true
			}
			id, ok := call.Fun.(*ast.Ident)
			if !ok {
				return true
			}
			o, ok := info.Uses[id]
			if !ok {
				if pluginOf(id.Name) != "" {
					obs.Unresolved = append(obs.Unresolved, id.Name)
				}
				return true
			}
			fn, ok := o.(*types.Func)
			if !ok {
				return true
			}
			pos := c.fset.Position(fn.Pos())
			if filepath.Base(pos.Filename) != "derived.gen.go" {
				reserved[id.Name] = true
				return true
			}
			called[id.Name] = true
			sig := fn.Type().(*types.Signature)
			so := SiteObs{Name: id.Name, Param: sigKey(sig), Arg: make([]string, len(call.Args))}
			for i, a := range call.Args {
				t := info.TypeOf(a)
				if b, ok := t.(*types.Basic); ok && b.Kind() == types.UntypedNil && i < len(so.Param) {
					so.Arg[i] = so.Param[i]
					continue
				}
				so.Arg[i] = typeKey(t)
			}
			obs.Sites = append(obs.Sites, so)
			return true
		})
	}
	for n := range reserved {
		obs.Reserved = append(obs.Reserved, n)
	}
	sort.Strings(obs.Reserved)
	return obs
}
