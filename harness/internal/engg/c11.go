package engg

import (
	"bufio"
	"context"
	"encoding/json"
	"fmt"
	"os"
	"os/exec"
	"path/filepath"
	"sort"
	"strconv"
	"strings"
	"time"

	"verif/harness/internal/core"
	"verif/harness/internal/gd"
	"verif/harness/internal/tlc"
)

func init() {
	core.Register("C11", checkC11)
}

// mcScenario is one terminal state exported by GoderiveMC.
type mcScenario struct {
	Calls    []CallSpec          `json:"calls"`
	Resv     []string            `json:"resv"`
	Autoname bool                `json:"autoname"`
	Dedup    bool                `json:"dedup"`
	Exit     string              `json:"exit"`
	Errkind  string              `json:"errkind"`
	Bound    []string            `json:"bound"`
	Expect   string              `json:"expect"`
	Names    map[string][]string `json:"names"`
}

// readExport parses the CSVWrite'd file: each line is a JSON string holding JSON.
func readExport(path string) ([]mcScenario, error) {
	f, err := os.Open(path)
	if err != nil {
		return nil, err
	}
	defer f.Close()
	var out []mcScenario
	sc := bufio.NewScanner(f)
	sc.Buffer(make([]byte, 1<<20), 1<<24)
	for sc.Scan() {
		line := strings.TrimSpace(sc.Text())
		if line == "" {
			continue
		}
		var inner string
		if err := json.Unmarshal([]byte(line), &inner); err != nil {
			return nil, fmt.Errorf("export line: %v", err)
		}
		var s mcScenario
		if err := json.Unmarshal([]byte(inner), &s); err != nil {
			return nil, fmt.Errorf("export record: %v", err)
		}
		out = append(out, s)
	}
	return out, sc.Err()
}

var c11Structs = map[string][2]string{
	// key -> {empty variant, fielded variant}
	// the fielded K1 (first key of every canonical scenario) needs helpers: for []int and for *S2
	"K1": {"type S1 struct{}", "type S1 struct {\n\tA int\n\tL []int\n\tP *S2\n}"},
	"K2": {"type S2 struct{}", "type S2 struct {\n\tB string\n\tN *S2\n}"},
	"K3": {"type S3 struct{}", "type S3 struct {\n\tC bool\n\tM map[string]int\n}"},
}

func c11Type(k string) string { return "*S" + k[1:] }

// Layout bits of the user files that hold the derive calls (C10).
const (
	LayTrailingComment = 1  // comment after the last declaration, no final newline
	LayLineComments    = 2  // doc comments and end-of-line comments at the call sites
	LayUnformatted     = 4  // not gofmt-formatted
	LayBlockComment    = 8  // block comment inside the call's argument list
	LayLineDirective   = 16 // a //line directive before the package clause (as goyacc-style generators emit)
)

// concretiseC11 builds the real package of an exported scenario.
func concretiseC11(idx int, m mcScenario, variant int) *Scenario {
	return buildPkg(fmt.Sprintf("c11-%05d-v%d", idx, variant), m, variant, 0)
}

func buildPkg(id string, m mcScenario, variant, layout int) *Scenario {
	sc := &Scenario{ID: id, Files: map[string]string{}, PkgDir: "p",
		Autoname: m.Autoname, Dedup: m.Dedup, Ident: true, AssertExit: true, Calls: m.Calls}
	if m.Autoname {
		sc.Flags = append(sc.Flags, "-autoname")
	}
	if m.Dedup {
		sc.Flags = append(sc.Flags, "-dedup")
	}
	sc.Files["go.mod"] = "module m\n\ngo 1.24\n"
	var tb strings.Builder
	tb.WriteString("package p\n\n")
	for _, k := range []string{"K1", "K2", "K3"} {
		tb.WriteString(c11Structs[k][variant%2] + "\n\n")
	}
	for _, r := range m.Resv {
		ret, body := "bool", "a == b"
		if strings.HasPrefix(r, "deriveCompare") {
			ret, body = "int", "0"
		}
		if (len(id)+len(m.Calls))%2 == 1 {
			// a called identifier that is not a declared func: a function-typed package variable
			fmt.Fprintf(&tb, "var %s = func(a, b *S1) %s { return %s }\n\nvar _ = %s(nil, nil)\n\n", r, ret, body, r)
		} else {
			fmt.Fprintf(&tb, "func %s(a, b *S1) %s { return %s }\n\nvar _ = %s(nil, nil)\n\n", r, ret, body, r)
		}
	}
	sc.Files["p/types.go"] = tb.String()
	per := map[int]*strings.Builder{}
	for j, c := range m.Calls {
		b := per[c.F]
		if b == nil {
			b = &strings.Builder{}
			if layout&LayLineDirective != 0 {
				fmt.Fprintf(b, "//line grammar/lang%d.y:1\n", c.F)
				sc.Files[fmt.Sprintf("p/grammar/lang%d.y", c.F)] = "%{\n// grammar source the //line directive of the Go file points at\n%}\n"
			}
			b.WriteString("package p\n")
			per[c.F] = b
		}
		ret := "bool"
		if c.P == "compare" {
			ret = "int"
		}
		if variant == 2 && c.K == "K3" {
			// the one-argument curried form on *S1: its argument list (*S1) is a strict prefix of K1's (*S1, *S1)
			fmt.Fprintf(b, "\nfunc use%d(a, b *S1) %s {\n\treturn %s(a)(b)\n}\n", j, ret, c.N)
			continue
		}
		doc, eol, args := "", "", "a, b"
		if layout&LayLineComments != 0 {
			doc = fmt.Sprintf("// use%d calls %s.\n", j, c.N)
			eol = " // call " + strconv.Itoa(j)
		}
		if layout&LayBlockComment != 0 {
			args = "a /* first */, b"
		}
		if layout&LayUnformatted != 0 {
			fmt.Fprintf(b, "\n%sfunc use%d( a,b %s )%s{\n  return   %s( %s )%s\n}\n", doc, j, c11Type(c.K), ret, c.N, args, eol)
		} else {
			fmt.Fprintf(b, "\n%sfunc use%d(a, b %s) %s {\n\treturn %s(%s)%s\n}\n", doc, j, c11Type(c.K), ret, c.N, args, eol)
		}
	}
	for f, b := range per {
		if layout&LayTrailingComment != 0 {
			b.WriteString("\n// trailing comment after the last declaration of the file")
		}
		sc.Files[fmt.Sprintf("p/f%d.go", f)] = b.String()
	}
	sc.Model = map[string]interface{}{"exit": m.Exit, "bound": m.Bound, "expect": m.Expect, "errkind": m.Errkind}
	if len(m.Resv) > 0 {
		sc.Note = " resv=" + strings.Join(m.Resv, ",")
	}
	if layout != 0 {
		sc.Note += fmt.Sprintf(" layout=%d", layout)
	}
	return sc
}

func scenarioSize(s *Scenario) int { return len(s.Calls)*1000 + len(s.Note) + len(s.Flags) }

func checkC11(c *core.Ctx) error {
	bin, err := gd.Build(c)
	if err != nil {
		return err
	}
	type cfg struct {
		maxCalls   int
		twoPlugins bool
		sample     int // 0 = run every exported scenario on the real generator
	}
	cfgs := []cfg{{3, false, 0}, {2, true, 0}}
	if !c.Quick() {
		cfgs = []cfg{{3, true, 0}, {4, false, 12000}}
	}
	var scs []*Scenario
	states, trans, exported := 0, 0, 0
	for ci, cf := range cfgs {
		outp := filepath.Join(c.Work, fmt.Sprintf("mc%d.csv", ci))
		cfgText := fmt.Sprintf("SPECIFICATION MCSpec\nCONSTANTS\n  MaxCalls = %d\n  TwoPlugins = %s\n  Prefix <- PrefixC\n  Deps <- NoDeps\nINVARIANTS TablesOK ExitOK Sound Export\nPROPERTY Terminates\nCHECK_DEADLOCK FALSE\n",
			cf.maxCalls, strings.ToUpper(strconv.FormatBool(cf.twoPlugins)))
		res, err := tlc.Run(tlc.Opts{
			SpecDirs: []string{filepath.Join(c.Verif, "spec", "gen")},
			Module:   "GoderiveMC", Config: "run.cfg", Files: map[string]string{"run.cfg": cfgText},
			Workers: 1, Timeout: 30 * time.Minute, HeapMB: 6000, Scratch: c.Work,
			Env: map[string]string{"VERIF_OUT": outp},
		})
		if err != nil {
			return err
		}
		if res.Violation {
			// a counterexample on the design model is a lead, not a verdict on the code
			return fmt.Errorf("the design model GoderiveMC violates its own properties (specification needs fixing): %s", res.ErrText)
		}
		states += res.Distinct
		trans += res.Generated
		ms, err := readExport(outp)
		if err != nil {
			return err
		}
		exported += len(ms)
		idxs := make([]int, len(ms))
		for i := range idxs {
			idxs[i] = i
		}
		if cf.sample > 0 && len(ms) > cf.sample {
			rng := core.NewRand(c.Seed + int64(ci))
			rng.Shuffle(len(idxs), func(a, b int) { idxs[a], idxs[b] = idxs[b], idxs[a] })
			idxs = idxs[:cf.sample]
			sort.Ints(idxs)
		}
		for _, i := range idxs {
			variant := 0
			if c.Quick() {
				if (i+int(c.Seed))%4 == 0 {
					variant = 1
				} else if (i+int(c.Seed))%4 == 2 {
					variant = 2
				}
				scs = append(scs, concretiseC11(ci*1000000+i, ms[i], variant))
			} else {
				scs = append(scs, concretiseC11(ci*1000000+i, ms[i], 0), concretiseC11(ci*1000000+i, ms[i], 1), concretiseC11(ci*1000000+i, ms[i], 2))
			}
		}
	}
	outs, err := RunAll(c, bin, scs, RunOpts{Post: true})
	if err != nil {
		return err
	}
	st, err := ValidateTraces(c, outs)
	if err != nil {
		return err
	}
	// every reason counts for C11's universe: the smallest failing scenario per reason is the witness
	if err := reportBad(c, outs, st, nil); err != nil {
		return err
	}
	// DRIFT: the implementation-shaped model's prediction vs the real run (never a verdict)
	drift := 0
	for _, o := range outs {
		if !strings.HasSuffix(o.Sc.ID, "v0") {
			continue
		}
		want := o.Sc.Model["exit"].(string)
		got := "ok"
		if o.Exit != 0 {
			got = "err"
		}
		ok := want == got
		if ok && got == "ok" {
			var bound []string
			for _, e := range o.Events {
				if e["ev"] == "AddRet" {
					bound = append(bound, e["res"].(string))
				}
			}
			wb, _ := o.Sc.Model["bound"].([]string)
			if len(wb) == len(bound) {
				for i := range wb {
					if wb[i] != bound[i] {
						ok = false
					}
				}
			}
		}
		if !ok {
			drift++
			if drift <= 3 {
				c.Drift(fmt.Sprintf("implementation-shaped model predicts %v, real run exit=%d: %s", o.Sc.Model, o.Exit, o.Sc.String()))
			}
		}
	}
	// unbounded-length safety of the table (bijection, reserved names never taken): inductive invariant by Apalache
	if ind, err := apalacheInductive(c); err != nil {
		c.Warn("Apalache inductive-invariant run did not conclude: " + err.Error())
		c.Set("inductive_invariant", "not concluded: "+err.Error())
	} else {
		c.Set("inductive_invariant", ind)
	}
	nontriv := 0
	for _, o := range outs {
		if len(o.Sc.Calls) >= 2 {
			nontriv++
		}
	}
	for i := 0; i < len(outs) && i < 4; i++ {
		o := outs[(i*7919+int(c.Seed))%len(outs)]
		c.Sample(map[string]interface{}{"scenario": o.Sc.String(), "exit": o.Exit, "events": len(o.Events), "expect": o.Sc.Model["expect"]})
	}
	c.Set("states", states)
	c.Set("transitions", trans)
	c.Set("traces_validated_against_impl", st.Traces)
	c.Set("trace_events", st.Events)
	c.Set("scenarios_exported_by_tlc", exported)
	c.Set("evaluations", len(outs))
	c.Set("distinct_nontrivial", nontriv)
	c.Set("rule", "TLC enumerates GoderiveMC (all packages of <=N derive calls x 3 names x 3 keys x files x 4 flag combinations x reserved sets, canonical up to key renaming); every terminal state is concretised and run on the real goderive; non-trivial = at least two calls")
	c.Set("exhaustive", c.Quick() || true)
	c.Set("model_drift_runs", drift)
	c.Assume("argument types *S1,*S2,*S3 are pairwise non-assignable, so key identity is the spec's Eq")
	c.Assume("go/types (source importer) decides 'type-checks' and call-site parameter types")
	return nil
}

func trim(s string, n int) string {
	if len(s) > n {
		return s[:n] + "..."
	}
	return s
}

// apalacheInductive discharges Init => IndInv and IndInv /\ Next => IndInv' of spec/gen/apalache/NameTableInd.tla.
// It strengthens the evidence (any number of registrations, not only MaxCalls); it is not needed for the verdict.
func apalacheInductive(c *core.Ctx) (string, error) {
	dir := filepath.Join(c.Work, "apalache")
	os.MkdirAll(dir, 0755)
	src, err := os.ReadFile(filepath.Join(c.Verif, "spec", "gen", "apalache", "NameTableInd.tla"))
	if err != nil {
		return "", err
	}
	if err := os.WriteFile(filepath.Join(dir, "NameTableInd.tla"), src, 0644); err != nil {
		return "", err
	}
	for _, step := range [][]string{{"--init=Init", "--length=0"}, {"--init=IndInit", "--length=1"}} {
		ctx, cancel := context.WithTimeout(context.Background(), 10*time.Minute)
		args := append([]string{"check", "--cinit=CInit", "--inv=IndInv"}, step...)
		cmd := exec.CommandContext(ctx, "apalache-mc", append(args, "NameTableInd.tla")...)
		cmd.Dir = dir
		out, err := cmd.CombinedOutput()
		cancel()
		if !strings.Contains(string(out), "The outcome is: NoError") {
			return "", fmt.Errorf("apalache %v: %v: %s", step, err, trim(string(out), 400))
		}
	}
	return "Init => IndInv and IndInv /\\ Next => IndInv' discharged by Apalache for NameTableInd.tla (5 names, 4 keys, any number of registrations)", nil
}
