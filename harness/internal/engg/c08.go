package engg

import (
	"bufio"
	"encoding/json"
	"fmt"
	"os"
	"path/filepath"
	"sort"
	"strings"
	"sync"
	"time"

	"verif/harness/internal/core"
	"verif/harness/internal/gd"
	"verif/harness/internal/tlc"
)

func init() {
	core.Register("C08", checkC08)
}

type detCall struct {
	K string `json:"k"`
	N string `json:"n"`
}

type detCase struct {
	Calls  []detCall `json:"calls"`
	Differ bool      `json:"differ"`
}

func detString(cs []detCall) string {
	var ss []string
	for _, c := range cs {
		ss = append(ss, c.N+"("+c.K+")")
	}
	return "calls=[" + strings.Join(ss, " ") + "]"
}

// canonical form: names in first-occurrence order, I1 before I2
func detCanon(cs []detCall) []detCall {
	names := map[string]string{}
	keys := map[string]string{}
	out := make([]detCall, len(cs))
	for i, c := range cs {
		if _, ok := names[c.N]; !ok {
			// names of different lengths whose length order and alphabetical order disagree for the first two
			names[c.N] = []string{"deriveEqualB", "deriveEqualAA", "deriveEqualCCC"}[len(names)]
		}
		k := c.K
		if k == "I1" || k == "I2" {
			if _, ok := keys[k]; !ok {
				keys[k] = []string{"I1", "I2"}[len(keys)]
			}
			k = keys[k]
		}
		out[i] = detCall{K: k, N: names[c.N]}
	}
	return out
}

var detGoType = map[string]string{"I1": "I1", "I2": "I2", "U": "[]int", "S": "*S"}

func detFiles(cs []detCall) map[string]string {
	fs := map[string]string{"go.mod": "module m\n\ngo 1.24\n"}
	fs["p/types.go"] = "package p\n\ntype I1 []int\n\ntype I2 []int\n\ntype S struct {\n\tF []int\n}\n"
	var b strings.Builder
	b.WriteString("package p\n")
	for i, c := range cs {
		fmt.Fprintf(&b, "\nfunc use%d(a, b %s) bool {\n\treturn %s(a, b)\n}\n", i, detGoType[c.K], c.N)
	}
	fs["p/f1.go"] = b.String()
	return fs
}

type outcome struct {
	Exit  int    `json:"exit"`
	Sha   string `json:"sha"`
	Count int    `json:"count"`
}

// repeatRuns runs goderive n times on fresh copies of the same files and returns the distinct outcomes.
func repeatRuns(c *core.Ctx, bin, root string, files map[string]string, n int, flags ...string) ([]outcome, []map[string]interface{}, bool, error) {
	args := append(append([]string{}, flags...), ".")
	seen := map[string]*outcome{}
	var first []map[string]interface{}
	ambiguous := false
	for k := 0; k < n; k++ {
		os.RemoveAll(root)
		if err := writeFiles(root, files); err != nil {
			return nil, nil, false, err
		}
		trace := ""
		if k == 0 {
			trace = filepath.Join(root, ".trace")
		}
		r, err := runJudged(c, bin, filepath.Join(root, "p"), args, trace, func() error {
			os.RemoveAll(root)
			return writeFiles(root, files)
		})
		if err != nil {
			return nil, nil, false, err
		}
		if k == 0 {
			first = r.Events
			for _, e := range r.Events {
				if ms, ok := e["matches"].([]interface{}); ok && len(ms) > 1 {
					ambiguous = true
				}
			}
			if ambiguous && n < 60 {
				n = 60 // directed by the trace: a lookup with several matching entries was observed
			}
		}
		data, _ := os.ReadFile(filepath.Join(root, "p", "derived.gen.go"))
		key := fmt.Sprintf("%d/%s", r.Exit, sha(data))
		if seen[key] == nil {
			seen[key] = &outcome{Exit: r.Exit, Sha: sha(data)}
		}
		seen[key].Count++
		if k%8 == 0 && r.Exit == 0 {
			// "on every run": also the run that finds the previous run's own output in place
			r2, err := runJudged(c, bin, filepath.Join(root, "p"), args, "", nil)
			if err != nil {
				return nil, nil, false, err
			}
			data2, _ := os.ReadFile(filepath.Join(root, "p", "derived.gen.go"))
			key2 := fmt.Sprintf("%d/%s", r2.Exit, sha(data2))
			if seen[key2] == nil {
				seen[key2] = &outcome{Exit: r2.Exit, Sha: sha(data2)}
			}
			seen[key2].Count++
		}
	}
	os.RemoveAll(root)
	var outs []outcome
	for _, o := range seen {
		outs = append(outs, *o)
	}
	sort.Slice(outs, func(a, b int) bool {
		return outs[a].Sha+fmt.Sprint(outs[a].Exit) < outs[b].Sha+fmt.Sprint(outs[b].Exit)
	})
	return outs, first, ambiguous, nil
}

// A package that requests many helpers from several plugins (the other place map order could leak).
const richTypes = `package p

import "time"

type Rich struct {
	A int
	B []string
	C map[string]*Rich
	D *Inner
	E [2]Inner
	F map[int][]float64
	G time.Duration
	H []*Inner
	I map[Key]bool
}

type Inner struct {
	X float64
	Y []byte
	Z map[string][]int
}

type Key struct {
	K1 string
	K2 int
}
`

const richCalls = `package p

func eq(a, b *Rich) bool  { return deriveEqual(a, b) }
func cmp(a, b *Rich) int  { return deriveCompare(a, b) }
func hash(a *Rich) uint64 { return deriveHash(a) }
func cp(a, b *Rich)       { deriveDeepCopy(a, b) }
func clone(a *Rich) *Rich { return deriveClone(a) }
func gostr(a *Rich) string { return deriveGoString(a) }
func keys(m map[string]*Rich) []string { return deriveSort(deriveKeys(m)) }
func uniq(l []*Inner) []*Inner { return deriveUnique(l) }
func cont(l []*Inner, i *Inner) bool { return deriveContains(l, i) }

// two calls of one plugin on one source line, the second typed only after the first generation pass
func mix(a, b *Inner, m map[string]*Rich, ks []string) bool { return deriveEqualI(a, b) && deriveEqualK(deriveKeys(m), ks) }
`

// call names that start with two configured plugin prefixes at once
const overlapCalls = `package p

func h(a *Rich) uint64                { return Hash(a) }
func hi(a *Inner) uint64              { return HashInner(a) }
func has(l []*Inner, i *Inner) bool   { return Has(l, i) }
func hass(l []string, s string) bool  { return HasStr(l, s) }
func uniq(l []*Inner) []*Inner        { return SortUniq(l) }
func srt(l []string) []string         { return Sort(l) }
func srti(l []int) []int              { return SortInts(l) }
`

const overlapCalls2 = `package p

func e(a, b *Rich) bool                 { return dE(a, b) }
func c(a, b *Rich) int                  { return dEq(a, b) }
func k(m map[string]*Rich) []string     { return dEqK(m) }
func ci(a, b *Inner) int                { return dEqInner(a, b) }
func ei(a, b *Inner) bool               { return dEInner(a, b) }
`

func siblingFiles(name string) map[string]string {
	return map[string]string{
		name + "/t.go": "package " + name + "\n\ntype T struct {\n\tA []int\n\tB map[string]*T\n}\n\nfunc eq(a, b *T) bool { return deriveEqual(a, b) }\n\nfunc h(a *T) uint64 { return deriveHash(a) }\n\n" +
			"// a nested derive call: typeable only after a first generation pass and a reload\nfunc ks(m map[string]*T) []string { return deriveSort(deriveKeys(m)) }\n",
	}
}

// exportDetScenarios runs Determinism.tla and returns its scenarios in canonical form, and which of
// them have two resolutions of the map-order choice that disagree.
func exportDetScenarios(c *core.Ctx) (map[string][]detCall, map[string]bool, *tlc.Result, error) {
	outp := filepath.Join(c.Work, "det.csv")
	maxCalls := 3
	res, err := tlc.Run(tlc.Opts{SpecDirs: []string{filepath.Join(c.Verif, "spec", "gen")}, Module: "Determinism", Config: "run.cfg",
		Files:   map[string]string{"run.cfg": fmt.Sprintf("SPECIFICATION Spec\nCONSTANTS MaxCallsD = %d\nINVARIANT Export\nCHECK_DEADLOCK FALSE\n", maxCalls)},
		Workers: 1, Timeout: 20 * time.Minute, Scratch: c.Work, Env: map[string]string{"VERIF_OUT": outp}})
	if err != nil {
		return nil, nil, nil, err
	}
	if res.Violation {
		return nil, nil, nil, fmt.Errorf("Determinism.tla export failed: %s", res.ErrText)
	}
	f, err := os.Open(outp)
	if err != nil {
		return nil, nil, nil, err
	}
	defer f.Close()
	modelAmb := map[string]bool{}
	scen := map[string][]detCall{}
	sc := bufio.NewScanner(f)
	sc.Buffer(make([]byte, 1<<20), 1<<24)
	for sc.Scan() {
		var inner string
		if json.Unmarshal(sc.Bytes(), &inner) != nil {
			continue
		}
		var d detCase
		if err := json.Unmarshal([]byte(inner), &d); err != nil {
			return nil, nil, nil, err
		}
		cs := detCanon(d.Calls)
		k := detString(cs)
		scen[k] = cs
		modelAmb[k] = modelAmb[k] || d.Differ
	}
	return scen, modelAmb, res, nil
}

func checkC08(c *core.Ctx) error {
	bin, err := gd.Build(c)
	if err != nil {
		return err
	}
	scen, modelAmb, res, err := exportDetScenarios(c)
	if err != nil {
		return err
	}
	keys := make([]string, 0, len(scen))
	for k := range scen {
		keys = append(keys, k)
	}
	sort.Strings(keys)
	nAmb, nPlain := 60, 3
	if !c.Quick() {
		nAmb, nPlain = 400, 10
	}
	type result struct {
		key      string
		outcomes []outcome
		events   []map[string]interface{}
		ambTrace bool
		n        int
	}
	results := make([]*result, len(keys))
	var wg sync.WaitGroup
	var mu sync.Mutex
	var firstErr error
	jobs := make(chan int, len(keys))
	for i := range keys {
		jobs <- i
	}
	close(jobs)
	for w := 0; w < 16; w++ {
		wg.Add(1)
		go func(w int) {
			defer wg.Done()
			for i := range jobs {
				k := keys[i]
				n := nPlain
				if modelAmb[k] {
					n = nAmb
				}
				root := filepath.Join(c.Work, "det", fmt.Sprintf("w%d", w))
				outs, evs, amb, err := repeatRuns(c, bin, root, detFiles(scen[k]), n)
				if err != nil {
					mu.Lock()
					if firstErr == nil {
						firstErr = err
					}
					mu.Unlock()
					return
				}
				if amb && n < nAmb {
					outs2, _, _, err := repeatRuns(c, bin, root, detFiles(scen[k]), nAmb)
					if err == nil {
						outs = mergeOutcomes(outs, outs2)
					}
					n += nAmb
				}
				results[i] = &result{k, outs, evs, amb, n}
			}
		}(w)
	}
	wg.Wait()
	if firstErr != nil {
		return firstErr
	}
	var outs []*RunOut
	byID := map[string]*result{}
	runsTotal, ambTrace := 0, 0
	mkRun := func(id string, evs []map[string]interface{}, obs map[string]interface{}) *RunOut {
		compress(evs)
		var lines [][]byte
		lines = append(lines, runStartLine(&Scenario{ID: id}))
		for _, e := range evs {
			lines = append(lines, marshal(e))
		}
		lines = append(lines, marshal(obs))
		return &RunOut{Sc: &Scenario{ID: id}, Lines: lines}
	}
	for i, r := range results {
		id := fmt.Sprintf("c08-%04d", i)
		byID[id] = r
		runsTotal += r.n
		if r.ambTrace {
			ambTrace++
		}
		outs = append(outs, mkRun(id, r.events, map[string]interface{}{"ev": "DetObs", "n": r.n, "outcomes": r.outcomes, "ambiguousTrace": r.ambTrace, "ambiguousModel": modelAmb[r.key]}))
	}
	// rich package: many helpers from several plugins, repeated runs
	richFiles := map[string]string{"go.mod": "module m\n\ngo 1.24\n", "p/types.go": richTypes, "p/calls.go": richCalls}
	nRich := 40
	if !c.Quick() {
		nRich = 300
	}
	ro, revs, _, err := repeatRuns(c, bin, filepath.Join(c.Work, "det", "rich"), richFiles, nRich)
	if err != nil {
		return err
	}
	if len(ro) == 1 && ro[0].Exit != 0 {
		return fmt.Errorf("the rich determinism package does not generate (harness scenario broken)")
	}
	byID["c08-rich"] = &result{key: "rich package (9 plugins, nested helpers)", outcomes: ro, n: nRich}
	outs = append(outs, mkRun("c08-rich", revs, map[string]interface{}{"ev": "DetObs", "n": nRich, "outcomes": ro, "ambiguousTrace": false, "ambiguousModel": false}))
	runsTotal += nRich
	// plugin prefixes where one is a proper prefix of another: the dispatch order among matching plugins must not vary
	overlapFiles := map[string]string{"go.mod": "module m\n\ngo 1.24\n", "p/types.go": richTypes, "p/calls.go": overlapCalls}
	for oi, fl := range [][]string{
		{"-pluginprefix=contains=Has,hash=Hash,sort=Sort,unique=SortUniq"},
		{"-prefix=d", "-pluginprefix=equal=dE,compare=dEq,keys=dEqK"},
	} {
		files := overlapFiles
		if oi == 1 {
			files = map[string]string{"go.mod": overlapFiles["go.mod"], "p/types.go": richTypes, "p/calls.go": overlapCalls2}
		}
		oo, oevs, _, err := repeatRuns(c, bin, filepath.Join(c.Work, "det", "overlap"), files, nRich, fl...)
		if err != nil {
			return err
		}
		if len(oo) == 1 && oo[0].Exit != 0 {
			return fmt.Errorf("the overlapping-prefix determinism package %d does not generate (harness scenario broken)", oi)
		}
		id := fmt.Sprintf("c08-overlap%d", oi)
		byID[id] = &result{key: "overlapping plugin prefixes " + strings.Join(fl, " "), outcomes: oo, n: nRich}
		outs = append(outs, mkRun(id, oevs, map[string]interface{}{"ev": "DetObs", "n": nRich, "outcomes": oo, "ambiguousTrace": false, "ambiguousModel": false}))
		runsTotal += nRich
	}
	// derive calls spread over several files: the order in which files are processed must not depend on the parse schedule
	multiTypes := []string{"*Rich", "*Inner", "Key", "[]string", "map[string]int", "[]*Inner", "*[]int"}
	for mi, fl := range [][]string{nil, {"-autoname"}} {
		// plain: every call has its own name; -autoname: all calls share one name per plugin and are renamed in file order
		multiFiles := map[string]string{"go.mod": "module m\n\ngo 1.24\n", "p/types.go": richTypes}
		for fi, typ := range multiTypes {
			sfx := string(rune('A' + fi))
			if mi == 1 {
				sfx = ""
			}
			multiFiles[fmt.Sprintf("p/f%d.go", fi)] = fmt.Sprintf("package p\n\nfunc eq%d(a, b %s) bool { return deriveEqual%s(a, b) }\n\nfunc h%d(a %s) uint64 { return deriveHash%s(a) }\n", fi, typ, sfx, fi, typ, sfx)
		}
		mo, mevs, _, err := repeatRuns(c, bin, filepath.Join(c.Work, "det", "multi"), multiFiles, nRich, fl...)
		if err != nil {
			return err
		}
		if len(mo) == 1 && mo[0].Exit != 0 {
			return fmt.Errorf("the multi-file determinism package %d does not generate (harness scenario broken)", mi)
		}
		id := fmt.Sprintf("c08-multi%d", mi)
		byID[id] = &result{key: "seven files with derive calls " + strings.Join(fl, " "), outcomes: mo, n: nRich}
		outs = append(outs, mkRun(id, mevs, map[string]interface{}{"ev": "DetObs", "n": nRich, "outcomes": mo, "ambiguousTrace": false, "ambiguousModel": false}))
		runsTotal += nRich
	}
	// invocation context: addressing and grouping variants of package p in a module with siblings
	ctxOut, nVariants, err := contextVariants(c, bin, richFiles)
	if err != nil {
		return err
	}
	byID["c08-ctx"] = &result{key: "invocation variants of m/p with siblings m/q, m/r", outcomes: ctxOut, n: nVariants}
	outs = append(outs, mkRun("c08-ctx", nil, map[string]interface{}{"ev": "CtxObs", "n": nVariants, "outcomes": ctxOut}))
	st, err := ValidateTraces(c, outs)
	if err != nil {
		return err
	}
	// witnesses: for the assignability scenarios the smallest sub-scenario that still disagrees (re-run many times)
	reported := map[string]bool{}
	for _, b := range st.Bad {
		r := byID[b.Run]
		if r == nil {
			return fmt.Errorf("validator reported unknown run %q", b.Run)
		}
		if !strings.Contains(b.Why, "C08") {
			c.Warn(fmt.Sprintf("rejected for a reason owned by another property: %s :: %s", b.Why, r.key))
			continue
		}
		wit := r.key
		if cs, ok := scen[r.key]; ok {
			wit = minimalNondet(c, bin, cs)
		}
		if reported[b.Why+wit] {
			continue
		}
		reported[b.Why+wit] = true
		c.Report(b.Why+" :: "+wit, fmt.Sprintf("outcomes over %d runs: %+v (first seen on %s)", r.n, r.outcomes, r.key), map[string]interface{}{"scenario": r.key, "outcomes": r.outcomes})
	}
	c.Sample(map[string]interface{}{"scenario": keys[len(keys)/2], "runs": results[len(keys)/2].n, "outcomes": results[len(keys)/2].outcomes})
	c.Sample(map[string]interface{}{"scenario": "rich package", "runs": nRich, "outcomes": ro})
	c.Sample(map[string]interface{}{"scenario": "invocation variants", "variants": nVariants, "outcomes": ctxOut})
	c.Set("states", res.Distinct)
	c.Set("transitions", res.Generated)
	c.Set("traces_validated_against_impl", st.Traces)
	c.Set("evaluations", runsTotal+nVariants)
	c.Set("distinct_nontrivial", len(keys))
	c.Set("scenarios_ambiguous_in_model", countTrue(modelAmb))
	c.Set("scenarios_ambiguous_in_trace", ambTrace)
	c.Set("rule", "TLC explores Determinism.tla (self-composition of name registration over mutually assignable argument types, every pair of map-order resolutions); every scenario is run repeatedly on the real generator (60/400 times where the model or the recorded trace shows a lookup with several matches, else 3/10), plus a 9-plugin package, a package whose derive calls are spread over seven files (own names without flags; shared names renamed in file order with -autoname), two packages under -pluginprefix configurations where one plugin prefix is a proper prefix of another, and 10+ ways of addressing/grouping packages; non-trivial = distinct scenarios")
	c.Set("exhaustive", false)
	c.Assume("'on every run' is statistical on the real binary (map order is re-randomised per run); exhaustive only in the model")
	return nil
}

func countTrue(m map[string]bool) int {
	n := 0
	for _, v := range m {
		if v {
			n++
		}
	}
	return n
}

func mergeOutcomes(a, b []outcome) []outcome {
	m := map[string]*outcome{}
	for _, o := range append(append([]outcome{}, a...), b...) {
		k := fmt.Sprintf("%d/%s", o.Exit, o.Sha)
		if m[k] == nil {
			oo := o
			oo.Count = 0
			m[k] = &oo
		}
		m[k].Count += o.Count
	}
	var out []outcome
	for _, o := range m {
		out = append(out, *o)
	}
	sort.Slice(out, func(x, y int) bool { return out[x].Sha+fmt.Sprint(out[x].Exit) < out[y].Sha+fmt.Sprint(out[y].Exit) })
	return out
}

// minimalNondet returns the smallest sub-sequence of calls (fixed order) whose output still varies over 300 runs.
func minimalNondet(c *core.Ctx, bin string, cs []detCall) string {
	type cand struct {
		cs []detCall
	}
	var cands []cand
	for mask := 1; mask < 1<<len(cs); mask++ {
		var sub []detCall
		for i := range cs {
			if mask&(1<<i) != 0 {
				sub = append(sub, cs[i])
			}
		}
		cands = append(cands, cand{detCanon(sub)})
	}
	sort.SliceStable(cands, func(a, b int) bool {
		if len(cands[a].cs) != len(cands[b].cs) {
			return len(cands[a].cs) < len(cands[b].cs)
		}
		return detString(cands[a].cs) < detString(cands[b].cs)
	})
	for _, cd := range cands {
		outs, _, _, err := repeatRuns(c, bin, filepath.Join(c.Work, "det", "min"), detFiles(cd.cs), 300)
		if err == nil && len(outs) > 1 {
			return detString(cd.cs)
		}
	}
	return detString(cs)
}

// contextVariants runs goderive on package m/p addressed and grouped in different ways and returns the
// distinct outcomes for p's derived.gen.go.
func contextVariants(c *core.Ctx, bin string, pfiles map[string]string) ([]outcome, int, error) {
	files := map[string]string{}
	for k, v := range pfiles {
		files[k] = v
	}
	for _, s := range []string{"q", "r"} {
		for k, v := range siblingFiles(s) {
			files[k] = v
		}
	}
	type variant struct {
		cwd  string
		args []string
	}
	vs := []variant{
		{"p", []string{"."}}, {"", []string{"./p"}}, {"", []string{"./..."}}, {"", []string{"m/p"}},
		{"", []string{"./p", "./q"}}, {"", []string{"./q", "./p"}}, {"", []string{"./r", "./q", "./p"}},
		{"", []string{"m/q", "m/p"}}, {"q", []string{"../p"}}, {"p", []string{"./..."}},
		{"", []string{"./p", "./p"}},
	}
	seen := map[string]*outcome{}
	// every package a variant names must come out as when it is processed alone: the outcome of a variant
	// is its exit status plus, for each of p, q, r that it names, whether derived.gen.go equals the alone-run
	alone := map[string]string{}
	for _, pk := range []string{"p", "q", "r"} {
		root := filepath.Join(c.Work, "ctx", "alone-"+pk)
		if err := writeFiles(root, files); err != nil {
			return nil, 0, err
		}
		if _, err := runJudged(c, bin, filepath.Join(root, pk), []string{"."}, "", nil); err != nil {
			return nil, 0, err
		}
		data, _ := os.ReadFile(filepath.Join(root, pk, "derived.gen.go"))
		alone[pk] = sha(data)
		os.RemoveAll(root)
	}
	for i, v := range vs {
		root := filepath.Join(c.Work, "ctx", fmt.Sprintf("v%d", i))
		if err := writeFiles(root, files); err != nil {
			return nil, 0, err
		}
		r, err := runJudged(c, bin, filepath.Join(root, v.cwd), v.args, "", nil)
		if err != nil {
			return nil, 0, err
		}
		sig := ""
		for _, pk := range []string{"p", "q", "r"} {
			named := false
			for _, a := range v.args {
				named = named || (strings.HasSuffix(a, "...") && v.cwd == "") || strings.HasSuffix(a, "/"+pk) || (a == "." && v.cwd == pk) || (strings.HasSuffix(a, "...") && v.cwd == pk)
			}
			if !named {
				continue
			}
			data, _ := os.ReadFile(filepath.Join(root, pk, "derived.gen.go"))
			if sha(data) != alone[pk] {
				sig += pk + ":" + sha(data) + " "
				c.Warn(fmt.Sprintf("invocation variant cwd=%q args=%v: derived.gen.go of package %s differs from processing it alone", v.cwd, v.args, pk))
			}
		}
		key := fmt.Sprintf("%d/%s", r.Exit, sig)
		if seen[key] == nil {
			seen[key] = &outcome{Exit: r.Exit, Sha: "differs-from-alone[" + strings.TrimSpace(sig) + "]"}
		}
		seen[key].Count++
		if r.Exit != 0 {
			c.Warn(fmt.Sprintf("invocation variant cwd=%q args=%v exits %d: %s", v.cwd, v.args, r.Exit, trim(r.Stderr, 200)))
		}
		os.RemoveAll(root)
	}
	var outs []outcome
	for _, o := range seen {
		outs = append(outs, *o)
	}
	sort.Slice(outs, func(a, b int) bool {
		return outs[a].Sha+fmt.Sprint(outs[a].Exit) < outs[b].Sha+fmt.Sprint(outs[b].Exit)
	})
	return outs, len(vs), nil
}
