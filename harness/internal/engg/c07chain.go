package engg

import (
	"bufio"
	"encoding/json"
	"fmt"
	"os"
	"path/filepath"
	"sort"
	"strings"

	"verif/harness/internal/core"
	"verif/harness/internal/tlc"
)

// Part (C) of C07: chains of nested derive calls (spec/gen/RegenChain.tla). The number of passes a run needs
// depends on what the old derived.gen.go declares; the output must not. TLC checks the pass loop of the
// pinned code (StopRule "text") against C07Chain, must refute the "count" rule (sensitivity), and exports
// every history v1 -> v2; each is realised on the real generator and judged by RegenObs in GoderiveTrace.

type chainCase struct {
	V1     []string `json:"v1"`
	V2     []string `json:"v2"`
	Passes int      `json:"passes"`
	OK     bool     `json:"ok"`
}

func (cc chainCase) String() string {
	return fmt.Sprintf("chain %s -> %s", chainExpr(cc.V1), chainExpr(cc.V2))
}

// chainExpr renders a chain as the call expression it stands for.
func chainExpr(v []string) string {
	expr := "xs"
	if len(v) > 0 && v[0] == "keys" {
		expr = "m"
	}
	for _, p := range v {
		switch p {
		case "keys":
			expr = "deriveKeys(" + expr + ")"
		case "sort":
			expr = "deriveSort(" + expr + ")"
		case "equal":
			expr = "deriveEqual(" + expr + ", ys)"
		}
	}
	return expr
}

func chainFiles(v []string) map[string]string {
	res := "[]string"
	if v[len(v)-1] == "equal" {
		res = "bool"
	}
	return map[string]string{
		"go.mod":   "module m\n\ngo 1.24\n",
		"p/use.go": fmt.Sprintf("package p\n\nfunc use(m map[string]int, xs, ys []string) %s {\n\treturn %s\n}\n", res, chainExpr(v)),
	}
}

func c07Chains(c *core.Ctx, bin string) (int, error) {
	dir := filepath.Join(c.Verif, "spec", "gen")
	outp := filepath.Join(c.Work, "regenchain.ndjson")
	res, err := tlc.Run(tlc.Opts{SpecDirs: []string{dir}, Module: "RegenChain", Config: "RegenChain.cfg", Workers: 1, Env: map[string]string{"VERIF_OUT": outp}})
	if err != nil {
		return 0, err
	}
	if res.Violation || !res.OK {
		return 0, fmt.Errorf("RegenChain.tla: the pass loop of the pinned code violates C07Chain on the model (specification needs fixing): %s", res.ErrText)
	}
	// sensitivity: the 'not fewer undefined calls' stop rule must be refuted by TLC
	res2, err := tlc.Run(tlc.Opts{SpecDirs: []string{dir}, Module: "RegenChain", Config: "RegenChainCount.cfg", Workers: 1, Env: map[string]string{"VERIF_OUT": outp + ".count"}})
	if err != nil {
		return 0, err
	}
	if !res2.Violation {
		return 0, fmt.Errorf("RegenChain.tla no longer refutes the count-based stop rule: the model lost its sensitivity")
	}
	f, err := os.Open(outp)
	if err != nil {
		return 0, err
	}
	defer f.Close()
	var cases []chainCase
	sc := bufio.NewScanner(f)
	for sc.Scan() {
		line := strings.TrimSpace(sc.Text())
		if line == "" {
			continue
		}
		var inner string
		if err := json.Unmarshal([]byte(line), &inner); err != nil {
			return 0, err
		}
		var cc chainCase
		if err := json.Unmarshal([]byte(inner), &cc); err != nil {
			return 0, err
		}
		cases = append(cases, cc)
	}
	if len(cases) < 40 {
		return 0, fmt.Errorf("RegenChain.tla exported only %d histories", len(cases))
	}
	sort.Slice(cases, func(a, b int) bool { return cases[a].String() < cases[b].String() })
	chk := NewChecker()
	var outs []*RunOut
	byID := map[string]chainCase{}
	drift := 0
	for i, cc := range cases {
		root := filepath.Join(c.Work, "chain", fmt.Sprintf("h%03d", i))
		dirR, dirS := filepath.Join(root, "r"), filepath.Join(root, "s")
		if err := writeFiles(dirR, chainFiles(cc.V1)); err != nil {
			return 0, err
		}
		r1, err := runJudged(c, bin, filepath.Join(dirR, "p"), []string{"."}, "", nil)
		if err != nil {
			return 0, err
		}
		if r1.Exit != 0 {
			return 0, fmt.Errorf("%s: v1 does not generate from scratch: %s", cc.String(), trim(r1.Stderr, 200))
		}
		if err := writeFiles(dirR, chainFiles(cc.V2)); err != nil {
			return 0, err
		}
		if err := writeFiles(dirS, chainFiles(cc.V2)); err != nil {
			return 0, err
		}
		rs, err := runJudged(c, bin, filepath.Join(dirS, "p"), []string{"."}, "", nil)
		if err != nil {
			return 0, err
		}
		trace := filepath.Join(root, "trace.ndjson")
		r2, err := runJudged(c, bin, filepath.Join(dirR, "p"), []string{"."}, trace, nil)
		if err != nil {
			return 0, err
		}
		got, errR := os.ReadFile(filepath.Join(dirR, "p", "derived.gen.go"))
		scratch, errS := os.ReadFile(filepath.Join(dirS, "p", "derived.gen.go"))
		tcS := chk.Check(filepath.Join(dirS, "p"), nil).Typechecks
		tcR := true
		if r2.Exit == 0 {
			tcR = chk.Check(filepath.Join(dirR, "p"), nil).Typechecks
		}
		passes := 0
		for _, e := range r2.Events {
			if e["ev"] == "PassEnd" {
				passes++
			}
		}
		if passes != cc.Passes && drift < 3 {
			drift++
			c.Drift(fmt.Sprintf("RegenChain.tla predicts %d passes, the recorded trace has %d: %s", cc.Passes, passes, cc.String()))
		}
		compress(r2.Events)
		id := fmt.Sprintf("c07c-%03d", i)
		byID[id] = cc
		var lines [][]byte
		lines = append(lines, runStartLine(&Scenario{ID: id}))
		for _, e := range r2.Events {
			lines = append(lines, marshal(e))
		}
		lines = append(lines, marshal(map[string]interface{}{"ev": "RegenObs", "exitR": r2.Exit, "exitS": rs.Exit, "existsR": errR == nil, "existsS": errS == nil,
			"shaR": sha(got), "shaS": sha(scratch), "typechecksR": tcR, "scratchTypechecks": tcS, "callsRemain": true, "offset": -1}))
		outs = append(outs, &RunOut{Sc: &Scenario{ID: id}, Lines: lines})
		os.RemoveAll(root)
	}
	st, err := ValidateTraces(c, outs)
	if err != nil {
		return 0, err
	}
	fb := FirstBad(st)
	runs := make([]string, 0, len(fb))
	for r := range fb {
		runs = append(runs, r)
	}
	sort.Strings(runs)
	for _, run := range runs {
		cc, ok := byID[run]
		if !ok {
			return 0, fmt.Errorf("validator reported unknown run %q", run)
		}
		for _, why := range fb[run] {
			if !strings.Contains(why, "C07") {
				c.Warn(fmt.Sprintf("rejected for a reason owned by another property: %s :: %s", why, cc.String()))
				continue
			}
			c.Report(why+" :: "+cc.String(), "old derived.gen.go generated for the first expression, sources changed to the second, one run compared with a run from scratch",
				map[string]interface{}{"v1_files": chainFiles(cc.V1), "v2_files": chainFiles(cc.V2)})
		}
	}
	c.Set("chain_histories", len(cases))
	return len(cases), nil
}
