package engg

import (
	"bufio"
	"crypto/sha256"
	"encoding/hex"
	"encoding/json"
	"fmt"
	"go/ast"
	"go/parser"
	"go/token"
	"go/types"
	"os"
	"os/exec"
	"path/filepath"
	"regexp"
	"sort"
	"strings"
	"time"

	"verif/harness/internal/core"
	"verif/harness/internal/gd"
	"verif/harness/internal/tlc"
)

func init() {
	core.Register("C12", checkC12)
}

type dispatchCase struct {
	Override map[string]string `json:"override"`
	Global   string            `json:"global"`
	Eff      map[string]string `json:"eff"`
	Call     string            `json:"call"`
	Plugin   string            `json:"plugin"`
	Twin     string            `json:"twin"`
}

func readDispatchExport(path string) ([]dispatchCase, error) {
	f, err := os.Open(path)
	if err != nil {
		return nil, err
	}
	defer f.Close()
	var out []dispatchCase
	sc := bufio.NewScanner(f)
	sc.Buffer(make([]byte, 1<<20), 1<<24)
	for sc.Scan() {
		line := strings.TrimSpace(sc.Text())
		if line == "" {
			continue
		}
		var inner string
		if err := json.Unmarshal([]byte(line), &inner); err != nil {
			return nil, err
		}
		var d dispatchCase
		// an empty override record is exported as [] by ToJson
		inner = strings.Replace(inner, `"override":[]`, `"override":{}`, 1)
		if err := json.Unmarshal([]byte(inner), &d); err != nil {
			return nil, fmt.Errorf("%v in %s", err, inner)
		}
		out = append(out, d)
	}
	return out, sc.Err()
}

// permutedBuild builds goderive from /repo with main.go's plugin registration
// list reordered (go build -overlay: the real main.go, only the order of the
// slice literal's lines changes).
func permutedBuild(c *core.Ctx, tag string, perm func(lines []string)) (string, error) {
	src, err := os.ReadFile(filepath.Join(c.Repo, "main.go"))
	if err != nil {
		return "", err
	}
	lines := strings.Split(string(src), "\n")
	start, end := -1, -1
	for i, l := range lines {
		if strings.Contains(l, "[]derive.Plugin{") {
			start = i + 1
		}
		if start >= 0 && end < 0 && i >= start && strings.TrimSpace(l) == "}" {
			end = i
		}
	}
	if start < 0 || end < 0 || end-start < 2 {
		return "", fmt.Errorf("cannot locate the plugin registration list in main.go")
	}
	for _, l := range lines[start:end] {
		if !strings.HasSuffix(strings.TrimSpace(l), ".NewPlugin(),") {
			return "", fmt.Errorf("unexpected line in the plugin registration list: %q", l)
		}
	}
	perm(lines[start:end])
	dir := filepath.Join(c.Work, "perm-"+tag)
	os.MkdirAll(dir, 0755)
	pm := filepath.Join(dir, "main.go")
	if err := os.WriteFile(pm, []byte(strings.Join(lines, "\n")), 0644); err != nil {
		return "", err
	}
	ov, _ := json.Marshal(map[string]interface{}{"Replace": map[string]string{filepath.Join(c.Repo, "main.go"): pm}})
	ovf := filepath.Join(dir, "overlay.json")
	os.WriteFile(ovf, ov, 0644)
	bin := filepath.Join(dir, "goderive")
	cmd := exec.Command(c.GoBin, "build", "-tags", "verif", "-overlay", ovf, "-o", bin, ".")
	cmd.Dir = c.Repo
	cmd.Env = c.GoEnv()
	if out, err := cmd.CombinedOutput(); err != nil {
		return "", fmt.Errorf("building goderive with permuted plugin registration failed: %v\n%s", err, out)
	}
	return bin, nil
}

// canonFuncs names every top-level function of a derived.gen.go after its plugin and
// parameter/result types and hashes its tokens with generated names replaced by those keys.
func canonFuncs(src string, eff map[string]string) ([]string, map[string]string, error) {
	fset := token.NewFileSet()
	f, err := parser.ParseFile(fset, "derived.gen.go", src, 0)
	if err != nil {
		return nil, nil, err
	}
	pluginOf := func(name string) string {
		best, bl := "?", -1
		for p, pre := range eff {
			if strings.HasPrefix(name, pre) && len(pre) > bl {
				best, bl = p, len(pre)
			}
		}
		return best
	}
	keyOf := map[string]string{}
	for _, d := range f.Decls {
		fd, ok := d.(*ast.FuncDecl)
		if !ok || fd.Recv != nil {
			continue
		}
		var ps []string
		for _, fl := range fd.Type.Params.List {
			n := len(fl.Names)
			if n == 0 {
				n = 1
			}
			for i := 0; i < n; i++ {
				ps = append(ps, types.ExprString(fl.Type))
			}
		}
		res := ""
		if fd.Type.Results != nil {
			for _, fl := range fd.Type.Results.List {
				res += " " + types.ExprString(fl.Type)
			}
		}
		keyOf[fd.Name.Name] = pluginOf(fd.Name.Name) + "(" + strings.Join(ps, ",") + ")" + res
	}
	var canon []string
	for _, d := range f.Decls {
		fd, ok := d.(*ast.FuncDecl)
		if !ok || fd.Recv != nil {
			continue
		}
		start, end := fset.Position(fd.Pos()).Offset, fset.Position(fd.End()).Offset
		h := sha256.New()
		for _, t := range scanToks([]byte(src[start:end])) {
			txt := t.text
			if strings.HasPrefix(txt, "//") || strings.HasPrefix(txt, "/*") {
				continue
			}
			if t.ident {
				if k, ok := keyOf[txt]; ok {
					txt = "<" + k + ">"
				}
			}
			h.Write([]byte(txt))
			h.Write([]byte{0})
		}
		canon = append(canon, keyOf[fd.Name.Name]+"#"+hex.EncodeToString(h.Sum(nil))[:16])
	}
	sort.Strings(canon)
	return canon, keyOf, nil
}

func checkC12(c *core.Ctx) error {
	bin, err := gd.Build(c)
	if err != nil {
		return err
	}
	specDir := filepath.Join(c.Verif, "spec", "gen")
	res, err := tlc.Run(tlc.Opts{SpecDirs: []string{specDir}, Module: "DispatchMC", Config: "DispatchMC.cfg", Workers: 8, Timeout: 15 * time.Minute, Scratch: c.Work})
	if err != nil {
		return err
	}
	if res.Violation {
		return fmt.Errorf("DispatchMC violates its own properties (specification needs fixing): %s", res.ErrText)
	}
	outp := filepath.Join(c.Work, "dispatch.csv")
	res2, err := tlc.Run(tlc.Opts{SpecDirs: []string{specDir}, Module: "DispatchMC", Config: "DispatchExport.cfg", Workers: 1, Timeout: 15 * time.Minute, Scratch: c.Work,
		Env: map[string]string{"VERIF_OUT": outp}})
	if err != nil {
		return err
	}
	if res2.Violation {
		return fmt.Errorf("DispatchMC export run failed: %s", res2.ErrText)
	}
	cases, err := readDispatchExport(outp)
	if err != nil {
		return err
	}
	// plugin registration permutations of the real main.go
	rng := core.NewRand(c.Seed)
	bins := []string{bin}
	nperm := 2
	if !c.Quick() {
		nperm = 5
	}
	rb, err := permutedBuild(c, "rev", func(ls []string) {
		for i, j := 0, len(ls)-1; i < j; i, j = i+1, j-1 {
			ls[i], ls[j] = ls[j], ls[i]
		}
	})
	if err != nil {
		return err
	}
	bins = append(bins, rb)
	for k := 0; k < nperm; k++ {
		pb, err := permutedBuild(c, fmt.Sprintf("shuf%d", k), func(ls []string) {
			rng.Shuffle(len(ls), func(a, b int) { ls[a], ls[b] = ls[b], ls[a] })
		})
		if err != nil {
			return err
		}
		bins = append(bins, pb)
	}
	idxs := make([]int, len(cases))
	for i := range idxs {
		idxs[i] = i
	}
	if c.Quick() && len(idxs) > 1200 {
		rng.Shuffle(len(idxs), func(a, b int) { idxs[a], idxs[b] = idxs[b], idxs[a] })
		idxs = idxs[:1200]
		sort.Ints(idxs)
	}
	defaults := map[string]string{"equal": "deriveEqual", "compare": "deriveCompare", "deepcopy": "deriveDeepCopy"}
	// oneArg: the main call passes a single argument: the curried form for equal and compare, an arity error for
	// deepcopy (then both the renamed and the default run must fail, and no other plugin may pick the call up)
	mkPkg := func(id string, names map[string]string, flags []string, oneArg bool) *Scenario {
		sc := &Scenario{ID: id, Files: map[string]string{}, PkgDir: "p", Flags: flags}
		sc.Files["go.mod"] = "module m\n\ngo 1.24\n"
		sc.Files["p/types.go"] = "package p\n\ntype S1 struct {\n\tA int\n\tB []string\n\tN *S1\n\tM map[string]*S1\n}\n\ntype S2 struct {\n\tC float64\n\tD map[int][]bool\n\tE *S1\n}\n"
		var b strings.Builder
		b.WriteString("package p\n")
		keys := make([]string, 0, len(names))
		for k := range names {
			keys = append(keys, k)
		}
		sort.Strings(keys)
		for _, k := range keys {
			if k == "__nest" {
				// typeable only after a first generation pass and a reload; sort and keys keep the (global) default-derived prefix
				fmt.Fprintf(&b, "\nfunc nest(m map[string]*S1) []string {\n\treturn %sSort(%sKeys(m))\n}\n", names[k], names[k])
				continue
			}
			typ := "*S2"
			if k == "main" {
				typ = "*S1"
			}
			args := "a, b"
			if oneArg && k == "main" {
				args = "a"
			}
			fmt.Fprintf(&b, "\nfunc use_%s(a, b %s) {\n\t%s(%s)\n}\n", k, typ, names[k], args)
		}
		if nestPfx := names["__nest"]; nestPfx != "" {
			_ = nestPfx
		}
		sc.Files["p/calls.go"] = b.String()
		return sc
	}
	type pair struct {
		d    dispatchCase
		r, t int
		want map[string]string // call name -> plugin
	}
	var scs []*Scenario
	var pairs []pair
	binOf := map[string]string{}
	for n, i := range idxs {
		d := cases[i]
		namesR := map[string]string{"main": d.Call}
		namesD := map[string]string{"main": d.Twin}
		if i%2 == 0 {
			namesR["__nest"], namesD["__nest"] = d.Global, "derive"
		}
		want := map[string]string{d.Call: d.Plugin}
		for p, pre := range d.Eff {
			namesR["x"+p] = pre + "Z"
			namesD["x"+p] = defaults[p] + "Z"
			if _, dup := want[pre+"Z"]; !dup {
				want[pre+"Z"] = p
			}
		}
		var flags []string
		if d.Global != "derive" {
			flags = append(flags, "-prefix="+d.Global)
		}
		if len(d.Override) > 0 {
			var kv []string
			for p, pre := range d.Override {
				kv = append(kv, p+"="+pre)
			}
			sort.Strings(kv)
			flags = append(flags, "-pluginprefix="+strings.Join(kv, ","))
		}
		oneArg := i%3 == 1
		r := mkPkg(fmt.Sprintf("c12-%05d-R", i), namesR, flags, oneArg)
		r.Note = fmt.Sprintf(" call=%s eff=%v", d.Call, d.Eff)
		t := mkPkg(fmt.Sprintf("c12-%05d-D", i), namesD, nil, oneArg)
		if oneArg {
			r.Note += " one-argument call"
		}
		binOf[r.ID] = bins[n%len(bins)]
		binOf[t.ID] = bins[0]
		pairs = append(pairs, pair{d, len(scs), len(scs) + 1, want})
		scs = append(scs, r, t)
	}
	// run: scenarios are grouped per binary
	outs := make([]*RunOut, len(scs))
	for _, b := range bins {
		var sub []*Scenario
		var pos []int
		for i, s := range scs {
			if binOf[s.ID] == b {
				sub = append(sub, s)
				pos = append(pos, i)
			}
		}
		so, err := RunAll(c, b, sub, RunOpts{})
		if err != nil {
			return err
		}
		for k, o := range so {
			outs[pos[k]] = o
		}
	}
	nested, bothOK, dOK := 0, 0, 0
	for _, p := range pairs {
		r, t := outs[p.r], outs[p.t]
		obs := map[string]interface{}{"ev": "PrefixObs", "exitR": r.Exit, "exitD": t.Exit, "globalOnly": len(p.d.Override) == 0,
			"canonR": []string{}, "canonD": []string{}, "textual": false, "handled": []interface{}{}}
		var handled []interface{}
		for _, e := range r.Events {
			if e["ev"] == "Dispatch" {
				if w, ok := p.want[e["name"].(string)]; ok {
					handled = append(handled, map[string]interface{}{"call": e["name"], "got": e["plugin"], "want": w})
				}
			}
		}
		if handled != nil {
			obs["handled"] = handled
		}
		if t.Exit == 0 || (p.d.Plugin == "deepcopy" && strings.Contains(scs[p.r].Note, "one-argument")) {
			dOK++ // a one-argument deriveDeepCopy is an arity error by construction
		}
		if r.Exit == 0 && t.Exit == 0 {
			bothOK++
			cr, _, err1 := canonFuncs(r.Derived, r.Prefixes)
			cd, keysD, err2 := canonFuncs(t.Derived, t.Prefixes)
			if err1 != nil || err2 != nil {
				cr, cd = []string{"unparsable-R"}, []string{"unparsable-D"}
			}
			obs["canonR"], obs["canonD"] = cr, cd
			if len(p.d.Override) == 0 {
				// textual identity: default output with every generated name's "derive" replaced by the global prefix
				txt := t.Derived
				var names []string
				for n := range keysD {
					names = append(names, n)
				}
				sort.Slice(names, func(a, b int) bool { return len(names[a]) > len(names[b]) })
				for _, n := range names {
					re := regexp.MustCompile(`\b` + regexp.QuoteMeta(n) + `\b`)
					txt = re.ReplaceAllString(txt, "\x00"+strings.Replace(n, "derive", p.d.Global, 1)+"\x00")
				}
				txt = strings.ReplaceAll(txt, "\x00", "")
				obs["textual"] = txt == r.Derived
			}
		}
		for q, pre := range p.d.Eff {
			for q2, pre2 := range p.d.Eff {
				if q != q2 && strings.HasPrefix(pre2, pre) && strings.HasPrefix(p.d.Call, pre2) {
					nested++
				}
			}
		}
		last := r.Lines[len(r.Lines)-1]
		r.Lines = append(append(r.Lines[:len(r.Lines)-1:len(r.Lines)-1], marshal(obs)), last)
	}
	if dOK*10 < len(pairs)*9 {
		return fmt.Errorf("only %d of %d default-named twin packages generate successfully: the comparison would be vacuous (e.g. %s)", dOK, len(pairs), trim(outs[pairs[0].t].Stderr, 200))
	}
	c.Set("pairs_compared", bothOK)
	st, err := ValidateTraces(c, outs)
	if err != nil {
		return err
	}
	if err := reportBad(c, outs, st, func(why string) bool { return strings.Contains(why, "C12") }); err != nil {
		return err
	}
	for i := 0; i < len(pairs) && i < 4; i++ {
		p := pairs[(i*7919+int(c.Seed))%len(pairs)]
		c.Sample(map[string]interface{}{"eff": p.d.Eff, "global": p.d.Global, "call": p.d.Call, "plugin": p.d.Plugin, "twin": p.d.Twin, "flags": scs[p.r].Flags, "exitR": outs[p.r].Exit})
	}
	c.Set("states", res.Distinct+res2.Distinct)
	c.Set("transitions", res.Generated+res2.Generated)
	c.Set("traces_validated_against_impl", st.Traces)
	c.Set("trace_events", st.Events)
	c.Set("cases_exported_by_tlc", len(cases))
	c.Set("evaluations", len(pairs))
	c.Set("distinct_nontrivial", nested)
	c.Set("registration_orders", len(bins))
	c.Set("rule", "TLC enumerates Dispatch.tla (every -prefix/-pluginprefix map over a pool with nested prefixes x every call name prefix+suffix) and exports (call, plugin by longest match, default-named twin); each case is run on the real goderive (real main.go flag handling; main.go's registration list permuted via go build -overlay) and on the default twin; outputs canonicalised and compared; non-trivial = the call matches two different plugins' prefixes")
	c.Set("exhaustive", !c.Quick())
	c.Assume("function bodies are compared as token sequences with generated names canonicalised to plugin(param types); comments are ignored except for the global -prefix textual check")
	return nil
}
