// Package engg is engine G: the generator as a state machine. It concretises
// TLC-exported scenarios into real packages, runs the real goderive (hooks on),
// and lets TLC validate the recorded traces against spec/gen.
package engg

import (
	"crypto/sha256"
	"encoding/hex"
	"fmt"
	"os"
	"path/filepath"
	"sort"
	"strings"
)

// CallSpec is one derive call of a scenario, in abstract terms.
type CallSpec struct {
	P string `json:"p"` // plugin
	N string `json:"n"` // function name used at the call site
	K string `json:"k"` // abstract key (argument type list id)
	F int    `json:"f"` // file index (1-based)
}

// Scenario is a concrete package plus how to run goderive on it.
type Scenario struct {
	ID          string                 `json:"id"`
	Files       map[string]string      `json:"files"` // path relative to the module root
	PkgDir      string                 `json:"pkgdir"`
	Flags       []string               `json:"flags"`
	Args        []string               `json:"args"`
	Calls       []CallSpec             `json:"calls"`
	Autoname    bool                   `json:"autoname"`
	Dedup       bool                   `json:"dedup"`
	Ident       bool                   `json:"ident"`       // keys pairwise non-assignable: spec may use exact key equality
	AssertExit  bool                   `json:"assertExit"`  // C11's exit-status table applies
	MustSucceed bool                   `json:"mustSucceed"` // C01: every call is inside the supported grammar
	WellTyped   bool                   `json:"wellTyped"`   // the user files type-check apart from the undefined derive calls
	PreDerived  string                 `json:"prederived,omitempty"`
	Note        string                 `json:"note,omitempty"`
	Model       map[string]interface{} `json:"model,omitempty"` // prediction of the implementation-shaped model
}

func (s *Scenario) Write(root string) error {
	names := make([]string, 0, len(s.Files))
	for n := range s.Files {
		names = append(names, n)
	}
	sort.Strings(names)
	for _, n := range names {
		p := filepath.Join(root, n)
		if err := os.MkdirAll(filepath.Dir(p), 0755); err != nil {
			return err
		}
		if err := os.WriteFile(p, []byte(s.Files[n]), 0644); err != nil {
			return err
		}
	}
	return nil
}

// Snapshot maps every regular file under root to mode+sha256.
func Snapshot(root string) (map[string]string, error) {
	snap := map[string]string{}
	err := filepath.Walk(root, func(p string, info os.FileInfo, err error) error {
		if err != nil {
			return err
		}
		if info.IsDir() {
			rel, _ := filepath.Rel(root, p)
			snap[rel+"/"] = info.Mode().String()
			return nil
		}
		data, err := os.ReadFile(p)
		if err != nil {
			return err
		}
		h := sha256.Sum256(data)
		rel, _ := filepath.Rel(root, p)
		snap[rel] = info.Mode().String() + ":" + hex.EncodeToString(h[:])
		return nil
	})
	return snap, err
}

// DiffSnap lists paths created, removed or modified between two snapshots.
func DiffSnap(a, b map[string]string) (changed []string) {
	for k, v := range a {
		if w, ok := b[k]; !ok || w != v {
			changed = append(changed, k)
		}
	}
	for k := range b {
		if _, ok := a[k]; !ok {
			changed = append(changed, k)
		}
	}
	sort.Strings(changed)
	return
}

func (s *Scenario) String() string {
	var cs []string
	for _, c := range s.Calls {
		cs = append(cs, fmt.Sprintf("%s(%s)@f%d", c.N, c.K, c.F))
	}
	return fmt.Sprintf("flags=%v calls=[%s]%s", s.Flags, strings.Join(cs, " "), s.Note)
}
