package engg

import (
	"fmt"
	"sort"
	"strings"

	"verif/harness/internal/core"
	"verif/harness/internal/gd"
)

func init() {
	core.Register("C09", checkC09)
}

var allPrefixes = []string{"deriveAll", "deriveAny", "deriveApply", "deriveClone", "deriveCompare", "deriveCompose", "deriveContains",
	"deriveCurry", "deriveDeepCopy", "deriveDo", "deriveDup", "deriveEqual", "deriveFilter", "deriveFlip", "deriveFmap", "deriveGoString",
	"deriveHash", "deriveIntersect", "deriveJoin", "deriveKeys", "deriveMax", "deriveMem", "deriveMin", "derivePipeline", "deriveSet",
	"deriveSort", "deriveTakeWhile", "deriveToError", "deriveTraverse", "deriveTuple", "deriveUncurry", "deriveUnion", "deriveUnique"}

const argVars = `package p

type S struct {
	A int
	B []string
}

// asymmetric assignability: an implementation is assignable to its interface, a bidirectional
// channel to a directional one, not the other way round
type Shape interface{ Area() int }

type Square struct{ W int }

func (s *Square) Area() int { return s.W * s.W }

var (
	fRetIface  func(int) Shape
	fTakesImpl func(*Square) int
	fRetImpl   func(int) *Square
	fTakesIfc  func(Shape) int
	fRetRecv   func(int) <-chan int
	fTakesChan func(chan int) int
	fRetErrIfc func(int) (Shape, error)
	// arity mismatches between adjacent stages, in both directions, with assignable leading types
	f3r  func(string) (string, string, error)
	fp1  func(string) (int, error)
	fp2  func(string, string) (int, error)
	f1r  func(string) (string, error)
	fp3  func(string, string, string) (int, error)
	fTakesImpE func(*Square) (int, error)
	slShapes   []Shape
	slSquares  []*Square
	sq         *Square
	shp        Shape
)

const (
	c1 = 8080
	c2 = 9090
	cs = "localhost"
	cf = 1.5
)

var (
	i     int
	s     string
	b     bool
	cx    complex128
	sl    []int
	sl2   []string
	slb   []bool
	slc   []complex128
	m     map[string]int
	fn    func(int) int
	fn2   func(int, string) (int, error)
	fnv   func(a int, b ...int) int
	fnv3  func(scale int, label string, xs ...float64) float64
	fnvs  func(xs ...string) string
	fb    func(int) bool
	ffe   func(int) (int, error)
	fcur  func(int) func(string) bool
	f0    func()
	fs    func(string) int
	ch    chan int
	chch  chan (<-chan int)
	iface interface{}
	st    S
	pst   *S
	err   error
)
`

var argTemplates = []string{"", "i", "i, i", "i, s", "i, i, i", "s, s", "b, b", "cx, cx", "sl", "sl, sl", "sl, sl2", "sl, i", "sl, s", "slb, b", "slc, cx", "slb", "slc",
	"m", "m, m", "fn", "fn, sl", "fn, sl2", "fn, i", "fn, s", "fb, sl", "fb, sl2", "fn2", "fn2, i", "fnv", "fnv, i", "fnv3", "fnv3, i", "fnv3, s", "fnvs", "fnvs, sl2", "fcur", "f0", "f0, f0", "fs, s", "fn, fs",
	"fRetIface, fTakesImpl", "fRetImpl, fTakesIfc", "fRetRecv, fTakesChan", "fRetErrIfc, fTakesImpE", "f3r, fp1", "f3r, fp2", "f1r, fp2", "f3r, fp3", "f1r, fp1", "f1r, f3r, fp2", "f1r, f3r, fp1", "fTakesImpl, slShapes", "fTakesIfc, slSquares",
	"slShapes, sq", "slSquares, shp", "slShapes, slSquares", "sq, shp", "shp, sq", "fTakesImpl, shp", "fTakesIfc, sq",
	"1, 2", "1, \"a\"", "1.5, 2.5", "true, false", "c1, c2", "c1, cs", "cf, cf", "sl, 0", "sl, c1", "\"a\", \"b\"", "c1", "'x', 'y'",
	"ch", "ch, ch", "fn, ch", "chch", "iface", "iface, iface", "st, st", "pst, pst", "pst", "nil", "nil, nil", "err, fb", "ffe, sl", "fn, fn", "fn2, fn", "i, fn", "ffe, ffe", "sl, fn"}

func templateScenario(id, prefix, args string) *Scenario {
	sc := &Scenario{ID: id, Files: map[string]string{"go.mod": "module m\n\ngo 1.24\n"}, PkgDir: "p", WellTyped: true,
		Note: fmt.Sprintf("%s(%s)", prefix, args)}
	sc.Files["p/vars.go"] = argVars
	sc.Files["p/call.go"] = fmt.Sprintf("package p\n\nfunc use() {\n\t%s(%s)\n}\n", prefix, args)
	return sc
}

func brokenScenarios() []*Scenario {
	mk := func(id, note string, files map[string]string) *Scenario {
		sc := &Scenario{ID: id, Files: map[string]string{"go.mod": "module m\n\ngo 1.24\n"}, PkgDir: "p", WellTyped: false, Note: note}
		for k, v := range files {
			sc.Files[k] = v
		}
		return sc
	}
	ok := "package p\n\ntype S struct{ A int }\n\nfunc eq(a, b *S) bool { return deriveEqual(a, b) }\n"
	return []*Scenario{
		mk("c09-broken-0", "user file truncated mid-function", map[string]string{"p/a.go": ok, "p/b.go": "package p\n\nfunc f() {\n\tx := 1\n\tif x > "}),
		mk("c09-broken-1", "undefined identifiers and types", map[string]string{"p/a.go": ok, "p/b.go": "package p\n\nfunc g(a Undefined) int { return undefinedVar + deriveHash(a) }\n"}),
		mk("c09-broken-2", "import cycle", map[string]string{"p/a.go": "package p\n\nimport \"m/q\"\n\ntype S struct{ A q.T }\n\nfunc eq(a, b *S) bool { return deriveEqual(a, b) }\n",
			"q/q.go": "package q\n\nimport \"m/p\"\n\ntype T struct{ X *p.S }\n"}),
		mk("c09-broken-3", "import of a package that does not exist", map[string]string{"p/a.go": "package p\n\nimport \"m/missing\"\n\nfunc eq(a, b *missing.T) bool { return deriveEqual(a, b) }\n"}),
		mk("c09-broken-4", "two package names in one directory", map[string]string{"p/a.go": ok, "p/b.go": "package other\n"}),
		mk("c09-broken-5", "empty file", map[string]string{"p/a.go": ok, "p/b.go": ""}),
		mk("c09-broken-6", "derive call with an argument that does not type-check", map[string]string{"p/a.go": "package p\n\nfunc f() bool { return deriveEqual(1+\"a\", nope) }\n"}),
		mk("c09-broken-7", "derive call whose nested argument never becomes typeable", map[string]string{"p/a.go": "package p\n\nfunc f(m map[string]int) []string { return deriveSort(deriveKeys(undefinedMap)) }\n"}),
		mk("c09-broken-10", "undeclared type inside a map argument", map[string]string{"p/a.go": "package p\n\nfunc f(xs, ys map[string]Undefined) bool { return deriveEqual(xs, ys) }\n"}),
		mk("c09-broken-11", "undeclared type inside a slice inside a map argument", map[string]string{"p/a.go": "package p\n\nfunc f(m map[string][]Undefined) []string { return deriveKeys(m) }\n"}),
		mk("c09-broken-12", "undeclared type behind a pointer and in a struct field", map[string]string{"p/a.go": "package p\n\ntype S struct{ F *Undefined }\n\nfunc f(a, b *S) bool { return deriveEqual(a, b) }\n\nfunc g(a *Undefined) uint64 { return deriveHash(a) }\n"}),
		mk("c09-broken-13", "undeclared type as function parameter of a function argument", map[string]string{"p/a.go": "package p\n\nfunc f(fn func(Undefined) int, l []Undefined) []int { return deriveFmap(fn, l) }\n"}),
		mk("c09-broken-8", "no Go files", map[string]string{"p/readme.txt": "nothing"}),
		mk("c09-broken-9", "method value and conversion calls named like derive functions", map[string]string{"p/a.go": "package p\n\ntype deriveT int\n\nfunc f(x int) deriveT { return deriveT(x) }\n\nfunc g(a, b *deriveT) bool { return deriveEqual(a, b) }\n"}),
	}
}

func checkC09(c *core.Ctx) error {
	bin, err := gd.Build(c)
	if err != nil {
		return err
	}
	mine := func(why string) bool { return strings.Contains(why, "(C09)") }
	// (1) one unsupported constituent at every position of every type shape, every plugin
	depth := 1
	if !c.Quick() {
		depth = 2
	}
	bad, res, err := exportGenCases(c, depth, true)
	if err != nil {
		return err
	}
	totalBad := len(bad)
	if c.Quick() && len(bad) > 2500 {
		rng := core.NewRand(c.Seed)
		rng.Shuffle(len(bad), func(a, b int) { bad[a], bad[b] = bad[b], bad[a] })
		bad = bad[:2500]
	}
	st1, outs1, err := judgeGenCases(c, bin, bad, false, mine, "c09a")
	if err != nil {
		return err
	}
	// (2) argument-shape matrix: every plugin prefix x every argument template; (3) broken user files
	var scs []*Scenario
	n := 0
	for _, pre := range allPrefixes {
		for _, args := range argTemplates {
			scs = append(scs, templateScenario(fmt.Sprintf("c09b-%05d", n), pre, args))
			n++
		}
	}
	scs = append(scs, brokenScenarios()...)
	outs2, err := RunAll(c, bin, scs, RunOpts{Post: true})
	if err != nil {
		return err
	}
	st2, err := ValidateTraces(c, outs2)
	if err != nil {
		return err
	}
	byID := map[string]*RunOut{}
	for _, o := range outs2 {
		byID[o.Sc.ID] = o
	}
	type rep struct {
		wit, detail string
		replay      interface{}
	}
	var reps []rep
	for run, whys := range FirstBad(st2, mine) {
		o := byID[run]
		if o == nil {
			return fmt.Errorf("validator reported unknown run %q", run)
		}
		for _, why := range whys {
			if !mine(why) {
				c.Warn(fmt.Sprintf("rejected for a reason owned by another property: %s :: %s", why, o.Sc.Note))
				continue
			}
			reps = append(reps, rep{fmt.Sprintf("%s :: %s :: %s", why, o.Sc.Note, failureClass(o)),
				fmt.Sprintf("exit=%d stderr=%q type errors=%v", o.Exit, trim(o.Stderr, 300), o.Post.Errors),
				map[string]interface{}{"files": o.Sc.Files, "derived": o.Derived, "stderr": o.Stderr}})
		}
	}
	sort.Slice(reps, func(a, b int) bool { return reps[a].wit < reps[b].wit })
	for _, r := range reps {
		c.Report(r.wit, r.detail, r.replay)
	}
	// diagnostics that do not name the call, the plugin or the type: a warning, never a verdict
	rejected, unnamed := 0, 0
	for _, o := range append(append([]*RunOut{}, outs1...), outs2...) {
		if o.Exit == 0 {
			continue
		}
		rejected++
		msg := strings.ToLower(o.Stderr)
		named := false
		for _, w := range strings.FieldsFunc(o.Sc.Note, func(r rune) bool { return strings.ContainsRune("()[]*, =", r) }) {
			if len(w) > 2 && strings.Contains(msg, strings.ToLower(w)) {
				named = true
			}
		}
		if !named {
			unnamed++
			if unnamed <= 10 {
				c.Warn(fmt.Sprintf("diagnostic does not name the call or type: %s -> %q", o.Sc.Note, trim(o.Stderr, 120)))
			}
		}
	}
	for i := 0; i < 3; i++ {
		o := outs2[(i*7919+int(c.Seed)*13)%len(outs2)]
		c.Sample(map[string]interface{}{"case": o.Sc.Note, "exit": o.Exit, "stderr": trim(o.Stderr, 120)})
	}
	if len(outs1) > 0 {
		o := outs1[int(c.Seed)%len(outs1)]
		c.Sample(map[string]interface{}{"case": o.Sc.Note, "exit": o.Exit, "stderr": trim(o.Stderr, 120)})
	}
	c.Set("states", res.Distinct)
	c.Set("transitions", res.Generated)
	c.Set("cases_in_universe", totalBad+len(scs))
	c.Set("traces_validated_against_impl", st1.Traces+st2.Traces)
	c.Set("trace_events", st1.Events+st2.Events)
	c.Set("evaluations", len(outs1)+len(outs2))
	c.Set("distinct_nontrivial", rejected)
	c.Set("runs_rejected_with_diagnostic", rejected)
	c.Set("diagnostics_not_naming_call_or_type", unnamed)
	c.Set("rule", fmt.Sprintf("TLC enumerates GenCases.tla with WithBad (type terms of depth <= %d with exactly one chan/func/interface/unsafe.Pointer constituent at some position) x 15 plugins x call-site forms; plus every plugin prefix x %d argument-list templates (wrong arity, mismatched types, non-functions, variadic and curried signatures, unordered element types) and %d broken packages; TLC judges each run: no panic/hang, exit 0 => derived.gen.go type-checks, non-zero exit => a diagnostic, errors from Add/Generate reach the exit status; non-trivial = runs that goderive rejected", depth, len(argTemplates), len(brokenScenarios())))
	c.Set("exhaustive", !c.Quick())
	c.Assume("'names the call or type' is judged leniently and only recorded (the wording of diagnostics is not specified tightly enough to alarm on)")
	return nil
}
