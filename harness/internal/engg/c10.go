package engg

import (
	"fmt"
	"path/filepath"
	"strings"
	"time"

	"verif/harness/internal/core"
	"verif/harness/internal/gd"
	"verif/harness/internal/tlc"
)

func init() {
	core.Register("C10", checkC10)
}

// runMC runs GoderiveMC with the given constants and returns its exported scenarios.
func runMC(c *core.Ctx, tag string, maxCalls int, twoPlugins bool) ([]mcScenario, *tlc.Result, error) {
	outp := filepath.Join(c.Work, "mc-"+tag+".csv")
	tp := "FALSE"
	if twoPlugins {
		tp = "TRUE"
	}
	cfgText := fmt.Sprintf("SPECIFICATION MCSpec\nCONSTANTS\n  MaxCalls = %d\n  TwoPlugins = %s\n  Prefix <- PrefixC\n  Deps <- NoDeps\nINVARIANTS TablesOK ExitOK Sound Export\nPROPERTY Terminates\nCHECK_DEADLOCK FALSE\n", maxCalls, tp)
	res, err := tlc.Run(tlc.Opts{
		SpecDirs: []string{filepath.Join(c.Verif, "spec", "gen")},
		Module:   "GoderiveMC", Config: "run.cfg", Files: map[string]string{"run.cfg": cfgText},
		Workers: 1, Timeout: 30 * time.Minute, HeapMB: 6000, Scratch: c.Work,
		Env: map[string]string{"VERIF_OUT": outp},
	})
	if err != nil {
		return nil, nil, err
	}
	if res.Violation {
		return nil, res, fmt.Errorf("the design model GoderiveMC violates its own properties (specification needs fixing): %s", res.ErrText)
	}
	ms, err := readExport(outp)
	return ms, res, err
}

// Names of different lengths for the rename matrix: the name a call is renamed
// to is shorter than, as long as, or longer than the name it had.
var c10Names = []string{"deriveEqual", "deriveEqualA", "deriveEqualB", "deriveEqualLongerName", "deriveEqual_"}

func checkC10(c *core.Ctx) error {
	bin, err := gd.Build(c)
	if err != nil {
		return err
	}
	// design model of the file rewrite (token sequences; truncating write)
	states, trans := 0, 0
	res, err := tlc.Run(tlc.Opts{SpecDirs: []string{filepath.Join(c.Verif, "spec", "gen")}, Module: "UserFilesMC", Config: "UserFilesMC.cfg",
		Workers: 4, Timeout: 10 * time.Minute, Scratch: c.Work})
	if err != nil {
		return err
	}
	if res.Violation {
		return fmt.Errorf("UserFilesMC violates FilesIntact (specification needs fixing): %s", res.ErrText)
	}
	states, trans = res.Distinct, res.Generated
	// the overlay (non-truncating) variant must violate it: the model can see the defect class at all
	res2, err := tlc.Run(tlc.Opts{SpecDirs: []string{filepath.Join(c.Verif, "spec", "gen")}, Module: "UserFilesMC", Config: "UserFilesOverlay.cfg",
		Workers: 4, Timeout: 10 * time.Minute, Scratch: c.Work})
	if err != nil {
		return err
	}
	if !res2.Violation {
		return fmt.Errorf("UserFilesOverlay.cfg no longer violates FilesIntact: the file model lost its sensitivity")
	}
	var scs []*Scenario
	// (A) the C11 universe (every flag combination and outcome), layouts cycling
	maxCalls := 2
	if !c.Quick() {
		maxCalls = 3
	}
	ms, mres, err := runMC(c, "a", maxCalls, true)
	if err != nil {
		return err
	}
	states += mres.Distinct
	trans += mres.Generated
	for i, m := range ms {
		if !c.Quick() || (i+int(c.Seed))%2 == 0 || len(m.Calls) >= 2 {
			scs = append(scs, buildPkg(fmt.Sprintf("c10a-%05d", i), m, i%2, (i+int(c.Seed))%32))
		}
	}
	// (B) rename matrix: old/new name lengths x flags x every layout x file split
	n := 0
	for _, first := range c10Names {
		for _, second := range c10Names {
			if first == second {
				continue
			}
			for layout := 0; layout < 32; layout++ {
				for split := 1; split <= 2; split++ {
					// -dedup: second name folded onto the first (same key)
					m := mcScenario{Calls: []CallSpec{{"equal", first, "K1", 1}, {"equal", second, "K1", split}, {"equal", second, "K1", 2}}, Dedup: true}
					scs = append(scs, buildPkg(fmt.Sprintf("c10b-%05d", n), m, n%2, layout))
					n++
					// -autoname: same name for two keys, the later one gets a minted name
					m2 := mcScenario{Calls: []CallSpec{{"equal", first, "K1", 1}, {"equal", first, "K2", split}, {"equal", second, "K3", 2}}, Autoname: true}
					scs = append(scs, buildPkg(fmt.Sprintf("c10b-%05d", n), m2, n%2, layout))
					n++
					// both flags
					m3 := mcScenario{Calls: []CallSpec{{"equal", first, "K1", 1}, {"equal", first, "K2", 1}, {"equal", second, "K1", split}}, Autoname: true, Dedup: true}
					scs = append(scs, buildPkg(fmt.Sprintf("c10b-%05d", n), m3, n%2, layout))
					n++
				}
			}
		}
	}
	for _, s := range scs[len(scs)-n:] {
		s.AssertExit = false
	}
	// (C) failing runs: generator error and load error, under every flag combination
	for fl := 0; fl < 4; fl++ {
		for layout := 0; layout < 32; layout += 5 {
			base := mcScenario{Calls: []CallSpec{{"equal", "deriveEqual", "K1", 1}, {"equal", "deriveEqualA", "K1", 1}, {"equal", "deriveEqualA", "K2", 2}},
				Autoname: fl&1 != 0, Dedup: fl&2 != 0}
			g := buildPkg(fmt.Sprintf("c10c-gen-%d-%d", fl, layout), base, 0, layout)
			g.Files["p/zerr.go"] = "package p\n\nfunc bad(a, b []int) []int {\n\treturn deriveSort(a, b)\n}\n"
			g.AssertExit, g.Note = false, g.Note+" +generator-error"
			l := buildPkg(fmt.Sprintf("c10c-load-%d-%d", fl, layout), base, 0, layout)
			l.Files["p/zerr.go"] = "package p\n\nfunc broken( {\n"
			l.AssertExit, l.Note = false, l.Note+" +syntax-error"
			t := buildPkg(fmt.Sprintf("c10c-type-%d-%d", fl, layout), base, 0, layout)
			t.Files["p/zerr.go"] = "package p\n\nvar x int = \"s\"\n\nfunc y() { undefinedFunction() }\n"
			t.AssertExit, t.Note = false, t.Note+" +type-error"
			scs = append(scs, g, l, t)
		}
	}
	// (D) renames that are only decided in a LATER pass: a call whose argument is the result of another derive
	// call is typed after the first generation pass and the reload; it then clashes with an earlier call
	for layout := 0; layout < 4; layout++ {
		for kind := 0; kind < 3; kind++ {
			sc := &Scenario{ID: fmt.Sprintf("c10d-%d-%d", kind, layout), Files: map[string]string{"go.mod": "module m\n\ngo 1.24\n"}, PkgDir: "p",
				Note: fmt.Sprintf(" late-rename kind=%d layout=%d", kind, layout)}
			sc.Files["p/types.go"] = "package p\n\n// S1 is a struct.\ntype S1 struct {\n\tA int // field comment\n\tN *S1\n}\n"
			doc, eol, tail := "", "", ""
			if layout&1 != 0 {
				doc, eol = "// late compares the keys of m with ks.\n", " // typed only after the first pass"
			}
			if layout&2 != 0 {
				tail = "\n// trailing comment after the last declaration"
			}
			var body string
			switch kind {
			case 0: // -autoname: the same name for two argument type lists, one of them known late
				sc.Flags, sc.Autoname = []string{"-autoname"}, true
				body = "\tgot := deriveKeys(m)" + eol + "\n\treturn deriveEqual(got, ks) && deriveEqual(a, b)\n"
			case 1: // -dedup: two names for one argument type list, one of them known late
				sc.Flags, sc.Dedup = []string{"-dedup"}, true
				body = "\tgot := deriveKeys(m)" + eol + "\n\treturn deriveEqualLate(got, ks) && deriveEqualB(ks, ks) && deriveEqual(a, b)\n"
			case 2: // both flags
				sc.Flags, sc.Autoname, sc.Dedup = []string{"-autoname", "-dedup"}, true, true
				body = "\tgot := deriveKeys(m)" + eol + "\n\treturn deriveEqual(got, ks) && deriveEqualB(ks, ks) && deriveEqual(a, b)\n"
			}
			sc.Files["p/f1.go"] = "package p\n\n" + doc + "func late(m map[string]int, ks []string, a, b *S1) bool {\n" + body + "}\n\n// other is untouched.\nfunc other() int { return 1 } // eol comment" + tail + "\n"
			sc.Files["p/f2.go"] = "package p\n\n// f2 has no derive call.\nfunc  f2( ) int{ return 2 }\n"
			scs = append(scs, sc)
		}
	}
	outs, err := RunAll(c, bin, scs, RunOpts{Post: false, FileObs: true})
	if err != nil {
		return err
	}
	st, err := ValidateTraces(c, outs)
	if err != nil {
		return err
	}
	if err := reportBad(c, outs, st, func(why string) bool {
		return strings.Contains(why, "C10") || strings.HasPrefix(why, "Rewrite") || strings.HasPrefix(why, "Rename") || strings.HasPrefix(why, "FileObs")
	}); err != nil {
		return err
	}
	rewritten, failed := 0, 0
	for _, o := range outs {
		if len(o.Changed) > 0 {
			rewritten++
		}
		if o.Exit != 0 {
			failed++
		}
	}
	for i := 0; i < len(outs) && i < 4; i++ {
		o := outs[(i*7919+int(c.Seed)*31+len(outs)/2)%len(outs)]
		c.Sample(map[string]interface{}{"scenario": o.Sc.String(), "exit": o.Exit, "user_files_changed": len(o.Changed)})
	}
	c.Set("states", states)
	c.Set("transitions", trans)
	c.Set("traces_validated_against_impl", st.Traces)
	c.Set("trace_events", st.Events)
	c.Set("evaluations", len(outs))
	c.Set("distinct_nontrivial", rewritten+failed)
	c.Set("runs_that_rewrote_user_files", rewritten)
	c.Set("runs_that_failed", failed)
	c.Set("rule", "scenarios = TLC-exported C11 universe x 16 file layouts, a rename matrix (new name shorter/equal/longer x -dedup/-autoname/both x 16 layouts x file split) and failing runs (generator, syntax, type error) x 4 flag combinations; every run's directory is snapshotted before/after and every user file is tokenised; non-trivial = a user file was rewritten or the run failed")
	c.Set("exhaustive", false)
	c.Assume("go/scanner tokenisation and go/format are the reference for 'gofmt formatting of the original with the identifiers substituted'")
	return nil
}

// reportBad groups TLC's rejected lines by reason and reports the smallest failing scenario per reason.
// mine selects the reasons that belong to the calling property; other reasons are reported too (they are
// real disagreements between code and spec) but attributed in the witness text.
func reportBad(c *core.Ctx, outs []*RunOut, st *ValStats, mine func(why string) bool) error {
	byID := map[string]*RunOut{}
	for _, o := range outs {
		byID[o.Sc.ID] = o
	}
	type grp struct {
		best *RunOut
		n    int
	}
	groups := map[string]*grp{}
	for run, whys := range FirstBad(st, mine) {
		o := byID[run]
		if o == nil {
			return fmt.Errorf("validator reported unknown run %q", run)
		}
		for _, why := range whys {
			g := groups[why]
			if g == nil {
				g = &grp{}
				groups[why] = g
			}
			g.n++
			if g.best == nil || scenarioSize(o.Sc) < scenarioSize(g.best.Sc) || (scenarioSize(o.Sc) == scenarioSize(g.best.Sc) && o.Sc.String() < g.best.Sc.String()) {
				g.best = o
			}
		}
	}
	for why, g := range groups {
		o := g.best
		if mine != nil && !mine(why) {
			c.Warn(fmt.Sprintf("rejected for a reason owned by another property: %s :: %s", why, o.Sc.String()))
			continue
		}
		c.Report(fmt.Sprintf("%s :: %s", why, o.Sc.String()),
			fmt.Sprintf("%d runs rejected for this reason; smallest: exit=%d stderr=%q", g.n, o.Exit, trim(o.Stderr, 300)),
			map[string]interface{}{"scenario": o.Sc, "exit": o.Exit, "stderr": o.Stderr, "derived": o.Derived, "post": o.Post, "user_after": o.UserAfter})
	}
	return nil
}
