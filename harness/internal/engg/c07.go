package engg

import (
	"bufio"
	"crypto/sha256"
	"encoding/hex"
	"encoding/json"
	"fmt"
	"os"
	"path/filepath"
	"sort"
	"strings"
	"sync"
	"time"

	"verif/harness/internal/core"
	"verif/harness/internal/gd"
	"verif/harness/internal/tlc"
)

func init() {
	core.Register("C07", checkC07)
}

type regenVersion struct {
	Present []string `json:"present"`
	Fty     string   `json:"fty"`
	Vty     string   `json:"vty"`
	Mty     string   `json:"mty"`
}

type regenCase struct {
	V1          regenVersion        `json:"v1"`
	V2          regenVersion        `json:"v2"`
	Ops         []map[string]string `json:"ops"`
	Disk        string              `json:"disk"`
	Class       string              `json:"class"`
	TruncOfNew  bool                `json:"truncOfNew"`
	PredictOK   bool                `json:"predictOK"`
	PredictSame bool                `json:"predictSame"`
	SameLine    bool                `json:"sameLine"` // concretisation: the eqA and eqB call sites share one source line
}

func (v regenVersion) has(s string) bool {
	for _, p := range v.Present {
		if p == s {
			return true
		}
	}
	return false
}

func (v regenVersion) String() string {
	ps := append([]string{}, v.Present...)
	sort.Strings(ps)
	return fmt.Sprintf("{%s F:%s V:%s M:%s}", strings.Join(ps, ","), v.Fty, v.Vty, v.Mty)
}

func opsString(ops []map[string]string) string {
	var ss []string
	for _, o := range ops {
		switch o["k"] {
		case "toggle":
			ss = append(ss, "toggle("+o["s"]+")")
		case "crash":
			ss = append(ss, "crash("+o["c"]+")")
		default:
			ss = append(ss, "retype("+o["k"]+")")
		}
	}
	return strings.Join(ss, ";")
}

func (rc *regenCase) String() string {
	d := rc.Disk
	if rc.Disk == "trunc" {
		d = "trunc(" + rc.Class
		if rc.TruncOfNew {
			d += ",of-new-output"
		} else {
			d += ",of-old-output"
		}
		d += ")"
	}
	sl := ""
	if rc.SameLine {
		sl = " layout=eqA-and-eqB-on-one-line"
	}
	return fmt.Sprintf("v1=%s ops=[%s] disk=%s%s", rc.V1, opsString(rc.Ops), d, sl)
}

var regenGoType = map[string]string{"int": "int", "strs": "[]string", "ints": "[]int", "mapSI": "map[string]int", "mapII": "map[int]int"}
var regenKeyType = map[string]string{"mapSI": "[]string", "mapII": "[]int"}

// regenFiles are the user sources of a version (call sites in the model's source order).
func regenFiles(v regenVersion, sameLine ...bool) map[string]string {
	if len(sameLine) > 0 && sameLine[0] && v.has("eqA") && v.has("eqB") {
		fs := regenFiles(regenVersion{Present: without(v.Present, "eqA", "eqB"), Fty: v.Fty, Vty: v.Vty, Mty: v.Mty})
		body := strings.TrimPrefix(fs["p/f1.go"], "package p\n")
		fs["p/f1.go"] = fmt.Sprintf("package p\n\nfunc useEqAB(a, b *T1, x, y %s) bool {\n\treturn deriveEqualA(a, b) && deriveEqualB(x, y)\n}\n", regenGoType[v.Vty]) + body
		return fs
	}
	return regenFilesPlain(v)
}

func without(ss []string, drop ...string) []string {
	var out []string
	for _, s := range ss {
		keep := true
		for _, d := range drop {
			keep = keep && s != d
		}
		if keep {
			out = append(out, s)
		}
	}
	return out
}

func regenFilesPlain(v regenVersion) map[string]string {
	fs := map[string]string{"go.mod": "module m\n\ngo 1.24\n"}
	fs["p/types.go"] = fmt.Sprintf("package p\n\ntype T1 struct {\n\tF %s\n\tN *T1\n}\n", regenGoType[v.Fty])
	var b strings.Builder
	b.WriteString("package p\n")
	if v.has("eqA") {
		b.WriteString("\nfunc useEqA(a, b *T1) bool {\n\treturn deriveEqualA(a, b)\n}\n")
	}
	if v.has("eqB") {
		fmt.Fprintf(&b, "\nfunc useEqB(x, y %s) bool {\n\treturn deriveEqualB(x, y)\n}\n", regenGoType[v.Vty])
	}
	if v.has("keys") {
		fmt.Fprintf(&b, "\nfunc useKeys(m %s) %s {\n\treturn deriveKeys(m)\n}\n", regenGoType[v.Mty], regenKeyType[v.Mty])
	}
	if v.has("nest") {
		fmt.Fprintf(&b, "\nfunc useNest(m %s) %s {\n\treturn deriveSort(deriveKeys(m))\n}\n", regenGoType[v.Mty], regenKeyType[v.Mty])
	}
	if v.has("cmp") {
		b.WriteString("\nfunc useCmp(c, d *T1) int {\n\treturn deriveCompare(c, d)\n}\n")
	}
	fs["p/f1.go"] = b.String()
	// an external test package in the same directory (the loader creates it next to p)
	fs["p/x_test.go"] = "package p_test\n\nvar X = 1\n"
	return fs
}

func writeFiles(root string, fs map[string]string) error {
	for n, content := range fs {
		p := filepath.Join(root, n)
		if err := os.MkdirAll(filepath.Dir(p), 0755); err != nil {
			return err
		}
		if err := os.WriteFile(p, []byte(content), 0644); err != nil {
			return err
		}
	}
	return nil
}

func sha(b []byte) string { h := sha256.Sum256(b); return hex.EncodeToString(h[:8]) }

// truncOffsets lists the byte offsets of base that realise a truncation class.
func truncOffsets(base []byte, class string) []int {
	s := string(base)
	pkgEnd := strings.Index(s, "package p") + len("package p")
	impStart := strings.Index(s, "import (")
	impEnd := -1
	if impStart >= 0 {
		impEnd = impStart + strings.Index(s[impStart:], ")\n")
	}
	var offs []int
	switch class {
	case "empty":
		offs = []int{0}
	case "inPackageClause":
		for i := 1; i < pkgEnd && i < len(base); i++ {
			offs = append(offs, i)
		}
	case "inImports":
		if impStart >= 0 {
			for i := impStart + 1; i <= impEnd; i++ {
				offs = append(offs, i)
			}
		}
	case "afterSomeFuncs":
		for i := 0; i+2 < len(s); i++ {
			if s[i] == '\n' && s[i+1] == '}' && s[i+2] == '\n' {
				offs = append(offs, i+3)
			}
		}
		if len(offs) > 0 && offs[len(offs)-1] >= len(base) {
			offs = offs[:len(offs)-1] // the complete file is not a truncation
		}
	case "midFunc":
		first := strings.Index(s, "\nfunc ")
		if first >= 0 {
			for i := first + 2; i < len(base)-1; i++ {
				if !(s[i-1] == '}' && s[i] == '\n') {
					offs = append(offs, i)
				}
			}
		}
	}
	return offs
}

// probeOffsets is the deterministic offset set used when a failing history is minimised
// (the witness must not depend on which offsets a seed sampled): the whole class for the small
// header classes; for the others every function-end, every byte of signature lines and the second
// byte of every other line.
func probeOffsets(base []byte, class string) []int {
	all := truncOffsets(base, class)
	if class != "midFunc" {
		return all
	}
	ok := map[int]bool{}
	s := string(base)
	lineStart := 0
	for lineStart < len(s) {
		end := strings.IndexByte(s[lineStart:], '\n')
		if end < 0 {
			end = len(s) - lineStart
		}
		line := s[lineStart : lineStart+end]
		if strings.HasPrefix(line, "func ") {
			for i := lineStart + 1; i <= lineStart+end; i++ {
				ok[i] = true
			}
		} else {
			ok[lineStart+1] = true
		}
		lineStart += end + 1
	}
	var sel []int
	for _, o := range all {
		if ok[o] {
			sel = append(sel, o)
		}
	}
	return sel
}

type regenResult struct {
	rc    *regenCase
	id    string
	lines [][]byte
	valid bool // v1 and scratch(v2) generate; otherwise the history says nothing about C07
	note  string
	exitR int
	same  bool
}

// regenRunner evaluates histories on the real generator.
type regenRunner struct {
	c    *core.Ctx
	bin  string
	mu   sync.Mutex
	seq  int
	memo map[string]string // canonical case (+offset policy) -> failure reason ("" = holds) for witness minimisation
}

// eval realises one history. offsetsPer: how many truncation offsets to try per class (0 = all).
func (rr *regenRunner) eval(rc *regenCase, id string, chk *Checker, offsetsPer int, rng func(n int) int) (*regenResult, error) {
	c := rr.c
	rr.mu.Lock()
	rr.seq++
	root := filepath.Join(c.Work, "regen", fmt.Sprintf("h%07d", rr.seq))
	rr.mu.Unlock()
	defer os.RemoveAll(root)
	dirR, dirS := filepath.Join(root, "r"), filepath.Join(root, "s")
	res := &regenResult{rc: rc, id: id}
	if err := writeFiles(dirR, regenFiles(rc.V1, rc.SameLine)); err != nil {
		return nil, err
	}
	r1, err := runJudged(c, rr.bin, filepath.Join(dirR, "p"), []string{"."}, "", func() error { os.Remove(filepath.Join(dirR, "p", "derived.gen.go")); return nil })
	if err != nil {
		return nil, err
	}
	if r1.Exit != 0 {
		res.note = "v1 does not generate: " + trim(r1.Stderr, 200)
		return res, nil
	}
	derR := filepath.Join(dirR, "p", "derived.gen.go")
	old, _ := os.ReadFile(derR)
	if err := writeFiles(dirR, regenFiles(rc.V2, rc.SameLine)); err != nil {
		return nil, err
	}
	if err := writeFiles(dirS, regenFiles(rc.V2, rc.SameLine)); err != nil {
		return nil, err
	}
	rs, err := runJudged(c, rr.bin, filepath.Join(dirS, "p"), []string{"."}, "", func() error { os.Remove(filepath.Join(dirS, "p", "derived.gen.go")); return nil })
	if err != nil {
		return nil, err
	}
	if rs.Exit != 0 {
		res.note = "scratch run of v2 fails: " + trim(rs.Stderr, 200)
		return res, nil
	}
	res.valid = true
	scratch, errS := os.ReadFile(filepath.Join(dirS, "p", "derived.gen.go"))
	existsS := errS == nil
	scratchTC := true
	if chk != nil {
		scratchTC = chk.Check(filepath.Join(dirS, "p"), nil).Typechecks
	}
	type variant struct {
		content []byte
		absent  bool
		off     int
	}
	var variants []variant
	switch rc.Disk {
	case "absent":
		variants = []variant{{absent: true, off: -1}}
	case "output":
		variants = []variant{{content: old, absent: old == nil, off: -1}}
	case "trunc":
		base := old
		if rc.TruncOfNew {
			base = scratch
		}
		offs := truncOffsets(base, rc.Class)
		if offsetsPer < 0 {
			offs = probeOffsets(base, rc.Class)
		}
		if offsetsPer > 0 && len(offs) > offsetsPer {
			pick := map[int]bool{0: true, len(offs) - 1: true}
			for len(pick) < offsetsPer {
				pick[rng(len(offs))] = true
			}
			var sel []int
			for i := range offs {
				if pick[i] {
					sel = append(sel, offs[i])
				}
			}
			offs = sel
		}
		for _, o := range offs {
			variants = append(variants, variant{content: base[:o], off: o})
		}
		if len(variants) == 0 {
			res.valid = false
			res.note = "no offset realises class " + rc.Class
			return res, nil
		}
	}
	res.same = true
	for vi, v := range variants {
		if v.absent {
			os.Remove(derR)
		} else {
			if err := os.WriteFile(derR, v.content, 0644); err != nil {
				return nil, err
			}
		}
		trace := filepath.Join(root, "trace.ndjson")
		r2, err := runJudged(c, rr.bin, filepath.Join(dirR, "p"), []string{"."}, trace, func() error {
			if v.absent {
				os.Remove(derR)
				return nil
			}
			return os.WriteFile(derR, v.content, 0644)
		})
		if err != nil {
			return nil, err
		}
		got, errR := os.ReadFile(derR)
		existsR := errR == nil
		tc := true
		if chk != nil && r2.Exit == 0 {
			tc = chk.Check(filepath.Join(dirR, "p"), nil).Typechecks
		}
		compress(r2.Events)
		rid := fmt.Sprintf("%s#%d", id, vi)
		res.lines = append(res.lines, runStartLine(&Scenario{ID: rid}))
		for _, e := range r2.Events {
			res.lines = append(res.lines, marshal(e))
		}
		res.lines = append(res.lines, marshal(map[string]interface{}{"ev": "RegenObs", "exitR": r2.Exit, "exitS": rs.Exit, "existsR": existsR, "existsS": existsS,
			"shaR": sha(got), "shaS": sha(scratch), "typechecksR": tc, "scratchTypechecks": scratchTC, "callsRemain": len(rc.V2.Present) > 0, "offset": v.off}))
		panicked := strings.Contains(r2.Stderr, "panic:") || strings.Contains(r2.Stderr, "goroutine ")
		res.lines = append(res.lines, marshal(map[string]interface{}{"ev": "RunEnd", "id": rid, "exit": r2.Exit, "timedout": r2.TimedOut, "panicked": panicked, "diagnostic": strings.TrimSpace(r2.Stderr) != "",
			"changedFiles": []string{}, "post": PostObs{Errors: []string{}, Sites: []SiteObs{}, Funcs: []FuncObs{}, Reserved: []string{}, Unresolved: []string{}}}))
		if r2.Exit != 0 || existsR != existsS || string(got) != string(scratch) {
			res.same = false
			res.exitR = r2.Exit
			if res.note == "" {
				res.note = trim(r2.Stderr, 200)
			}
		}
		// restore the user files for the next variant (a run never changes them without flags)
	}
	return res, nil
}

func readRegenExport(path string) ([]regenCase, error) {
	f, err := os.Open(path)
	if err != nil {
		return nil, err
	}
	defer f.Close()
	var out []regenCase
	sc := bufio.NewScanner(f)
	sc.Buffer(make([]byte, 1<<20), 1<<24)
	for sc.Scan() {
		line := strings.TrimSpace(sc.Text())
		if line == "" {
			continue
		}
		var inner string
		if err := json.Unmarshal([]byte(line), &inner); err != nil {
			return nil, err
		}
		var rc regenCase
		if err := json.Unmarshal([]byte(inner), &rc); err != nil {
			return nil, fmt.Errorf("%v in %s", err, inner)
		}
		out = append(out, rc)
	}
	return out, sc.Err()
}

// staleNest is Regen.tla's StaleNest on a realised history: the run is made over the complete output of sources
// that declared deriveKeys (through the nested call or through the plain one) for another map type than the
// current sources use in deriveSort(deriveKeys(m)). The implementation-shaped layer of the specification predicts
// the defect for exactly these histories; the finding is keyed by this class, not by one sampled history.
func staleNest(rc *regenCase) bool {
	return rc.Disk == "output" && rc.V2.has("nest") && (rc.V1.has("nest") || rc.V1.has("keys")) && rc.V1.Mty != rc.V2.Mty
}

func staleReason(why string) bool {
	return strings.Contains(why, "differs from the one generated from scratch") || strings.Contains(why, "does not type-check after one regeneration run")
}

const staleNestClass = "sources with deriveSort(deriveKeys(m)) after m was retyped, disk=output of sources that declared deriveKeys for the old map type (StaleNest of Regen.tla): outer call typed from the stale declaration"

// subCases enumerates the sub-histories of rc (fewer call sites in v1, fewer edits), smallest first.
func subCases(rc *regenCase) []*regenCase {
	apply := func(v regenVersion, ops []map[string]string) (regenVersion, bool) {
		present := map[string]bool{}
		for _, p := range v.Present {
			present[p] = true
		}
		for _, o := range ops {
			switch o["k"] {
			case "toggle":
				present[o["s"]] = !present[o["s"]]
			case "fty":
				v.Fty = map[string]string{"int": "strs", "strs": "int"}[v.Fty]
			case "vty":
				v.Vty = map[string]string{"ints": "strs", "strs": "ints"}[v.Vty]
			case "mty":
				v.Mty = map[string]string{"mapSI": "mapII", "mapII": "mapSI"}[v.Mty]
			}
		}
		v.Present = nil
		for _, s := range []string{"eqA", "eqB", "keys", "nest", "cmp"} {
			if present[s] {
				v.Present = append(v.Present, s)
			}
		}
		return v, true
	}
	var subs []*regenCase
	n := len(rc.V1.Present)
	// type variants: the history's own, and each of them reset to the default where that keeps the history meaningful
	type tv struct{ f, v, m string }
	tvs := []tv{}
	for _, f := range []string{"int", rc.V1.Fty} {
		for _, v := range []string{"ints", rc.V1.Vty} {
			for _, m := range []string{"mapSI", rc.V1.Mty} {
				t := tv{f, v, m}
				dup := false
				for _, x := range tvs {
					dup = dup || x == t
				}
				if !dup {
					tvs = append(tvs, t)
				}
			}
		}
	}
	for mask := 0; mask < 1<<n; mask++ {
		var pres []string
		for i, s := range rc.V1.Present {
			if mask&(1<<i) != 0 {
				pres = append(pres, s)
			}
		}
		m := len(rc.Ops)
		for om := 0; om < 1<<m; om++ {
			var ops []map[string]string
			crash := false
			for i, o := range rc.Ops {
				if om&(1<<i) != 0 {
					ops = append(ops, o)
					crash = crash || o["k"] == "crash"
				}
			}
			for _, t := range tvs {
				v1 := regenVersion{Present: pres, Fty: t.f, Vty: t.v, Mty: t.m}
				v2, _ := apply(v1, ops)
				sub := &regenCase{V1: v1, V2: v2, Ops: ops, Disk: rc.Disk, Class: rc.Class, TruncOfNew: rc.TruncOfNew, SameLine: rc.SameLine}
				sub.SameLine = rc.SameLine && ((v1.has("eqA") && v1.has("eqB")) || (v2.has("eqA") && v2.has("eqB")))
				if !crash {
					sub.Disk, sub.Class, sub.TruncOfNew = "output", "", false
					if len(pres) == 0 {
						sub.Disk = "absent"
					}
				} else if len(pres) == 0 {
					continue // no old output to truncate
				}
				edits := 0
				for _, o := range ops {
					if o["k"] != "crash" {
						edits++
					}
				}
				if edits == 0 {
					sub.TruncOfNew = false // same bytes as the old output
				}
				subs = append(subs, sub)
			}
		}
	}
	size := func(r *regenCase) int {
		n := 4*len(r.V1.Present) + 8*len(r.Ops)
		if r.V1.Fty != "int" {
			n++
		}
		if r.V1.Vty != "ints" {
			n++
		}
		if r.V1.Mty != "mapSI" {
			n++
		}
		return n
	}
	sort.SliceStable(subs, func(a, b int) bool {
		if size(subs[a]) != size(subs[b]) {
			return size(subs[a]) < size(subs[b])
		}
		return subs[a].String() < subs[b].String()
	})
	return subs
}

func checkC07(c *core.Ctx) error {
	bin, err := gd.Build(c)
	if err != nil {
		return err
	}
	outp := filepath.Join(c.Work, "regen.csv")
	res, err := tlc.Run(tlc.Opts{SpecDirs: []string{filepath.Join(c.Verif, "spec", "gen")}, Module: "Regen", Config: "RegenMC.cfg",
		Workers: 1, Timeout: 20 * time.Minute, HeapMB: 6000, Scratch: c.Work, Env: map[string]string{"VERIF_OUT": outp}})
	if err != nil {
		return err
	}
	if res.Violation {
		return fmt.Errorf("Regen.tla violates its own design obligations (specification needs fixing): %s", res.ErrText)
	}
	cases, err := readRegenExport(outp)
	if err != nil {
		return err
	}
	rng := core.NewRand(c.Seed)
	nSample, offsetsPer := 200, 3
	if !c.Quick() {
		nSample, offsetsPer = 1500, 24
	}
	// always: every single-edit history without crash (fixed core), then a seeded sample of the rest
	var chosen []int
	var rest []int
	for i := range cases {
		if len(cases[i].Ops) == 1 && cases[i].Disk == "output" && (!c.Quick() || (cases[i].V1.Fty == "int" && cases[i].V1.Vty == "ints")) {
			chosen = append(chosen, i)
		} else {
			rest = append(rest, i)
		}
	}
	rng.Shuffle(len(rest), func(a, b int) { rest[a], rest[b] = rest[b], rest[a] })
	if len(rest) > nSample {
		rest = rest[:nSample]
	}
	chosen = append(chosen, rest...)
	sort.Ints(chosen)
	rr := &regenRunner{c: c, bin: bin, memo: map[string]string{}}
	results := make([]*regenResult, len(chosen))
	var wg sync.WaitGroup
	var firstErr error
	var emu sync.Mutex
	jobs := make(chan int, len(chosen))
	for k := range chosen {
		jobs <- k
	}
	close(jobs)
	for w := 0; w < 16; w++ {
		wg.Add(1)
		wrng := core.NewRand(c.Seed*1000 + int64(w))
		go func() {
			defer wg.Done()
			chk := NewChecker()
			for k := range jobs {
				rc := cases[chosen[k]]
				rc.SameLine = (chosen[k]+int(c.Seed))%2 == 1 && ((rc.V1.has("eqA") && rc.V1.has("eqB")) || (rc.V2.has("eqA") && rc.V2.has("eqB")))
				r, err := rr.eval(&rc, fmt.Sprintf("c07-%06d", chosen[k]), chk, offsetsPer, wrng.Intn)
				if err != nil {
					emu.Lock()
					if firstErr == nil {
						firstErr = err
					}
					emu.Unlock()
					return
				}
				results[k] = r
			}
		}()
	}
	wg.Wait()
	if firstErr != nil {
		return firstErr
	}
	// hand every run to TLC
	var outs []*RunOut
	byRun := map[string]*regenResult{}
	valid := 0
	for _, r := range results {
		if !r.valid {
			continue
		}
		valid++
		// one RunOut per history (several runs inside when offsets were enumerated)
		outs = append(outs, &RunOut{Sc: &Scenario{ID: r.id}, Lines: r.lines})
		for vi := 0; vi*1 < len(r.lines); vi++ {
			byRun[fmt.Sprintf("%s#%d", r.id, vi)] = r
		}
	}
	if valid*10 < len(results)*8 {
		note := ""
		for _, r := range results {
			if !r.valid {
				note = r.rc.String() + ": " + r.note
				break
			}
		}
		return fmt.Errorf("only %d of %d histories are realisable (v1 and scratch(v2) must generate): %s", valid, len(results), note)
	}
	st, err := ValidateTraces(c, outs)
	if err != nil {
		return err
	}
	// group by reason; the witness is the smallest failing sub-history (fixed order), found by re-running
	failing := map[string][]*regenResult{}
	seen := map[string]bool{}
	for _, b := range st.Bad {
		r := byRun[b.Run]
		if r == nil {
			return fmt.Errorf("validator reported unknown run %q", b.Run)
		}
		key := b.Why + "|" + r.id
		if seen[key] || seen["first|"+b.Run] {
			continue
		}
		seen[key], seen["first|"+b.Run] = true, true
		failing[b.Why] = append(failing[b.Why], r)
	}
	var cacheMu sync.Mutex
	minCache := map[string]string{} // sub-history -> reasons it is rejected for (same predicates as RegenObs; used only to name the witness)
	failsWith := func(chk *Checker, sub *regenCase, why string) (bool, error) {
		k := sub.String()
		cacheMu.Lock()
		v, ok := minCache[k]
		cacheMu.Unlock()
		if ok {
			return strings.Contains(v, why), nil
		}
		r, err := rr.eval(sub, "min", chk, -1, core.NewRand(7).Intn) // deterministic probe offsets: the witness must not depend on sampling
		if err != nil {
			return false, err
		}
		reasons := ""
		if r.valid {
			for _, l := range r.lines {
				var e map[string]interface{}
				json.Unmarshal(l, &e)
				if e["ev"] != "RegenObs" {
					continue
				}
				exitR, exitS := int(e["exitR"].(float64)), int(e["exitS"].(float64))
				if exitS == 0 && exitR != 0 {
					reasons += "RegenObs: run over the old derived.gen.go fails although the run from scratch succeeds (C07);"
				}
				if exitS == 0 && exitR == 0 && (e["existsR"] != e["existsS"] || e["shaR"] != e["shaS"]) {
					reasons += "RegenObs: derived.gen.go differs from the one generated from scratch (C07);"
				}
				if exitS == 0 && exitR == 0 && e["scratchTypechecks"] == true && e["typechecksR"] != true {
					reasons += "RegenObs: package does not type-check after one regeneration run (C07);"
				}
				if exitR == 0 && e["callsRemain"] != true && e["existsR"] == true {
					reasons += "RegenObs: derived.gen.go not removed although no derive calls remain (C07);"
				}
			}
		}
		cacheMu.Lock()
		minCache[k] = reasons
		cacheMu.Unlock()
		return strings.Contains(reasons, why), nil
	}
	type job struct {
		why string
		r   *regenResult
	}
	type done struct {
		why, wit string
		r        *regenResult
	}
	var jobsMin []job
	for why, rs := range failing {
		seenCase := map[string]bool{}
		for _, r := range rs {
			if !seenCase[r.rc.String()] {
				seenCase[r.rc.String()] = true
				jobsMin = append(jobsMin, job{why, r})
			}
		}
	}
	sort.Slice(jobsMin, func(a, b int) bool {
		return jobsMin[a].why+jobsMin[a].r.rc.String() < jobsMin[b].why+jobsMin[b].r.rc.String()
	})
	jch := make(chan job, len(jobsMin))
	for _, j := range jobsMin {
		jch <- j
	}
	close(jch)
	dch := make(chan done, len(jobsMin))
	var wg2 sync.WaitGroup
	for w := 0; w < 16; w++ {
		wg2.Add(1)
		go func() {
			defer wg2.Done()
			chk := NewChecker()
			for j := range jch {
				wit := j.r.rc.String() + " (not reproduced at the probe offsets)"
				if hdr := map[string]bool{"empty": true, "inPackageClause": true, "inImports": true}; strings.Contains(j.why, "fails although") && j.r.rc.Disk == "trunc" && hdr[j.r.rc.Class] && strings.Contains(j.r.note, "no initial packages were loaded") {
					// a remnant cut inside its header makes the loader reject the package whatever the sources are:
					// the truncation class IS the failing input; the call sites play no role
					dch <- done{j.why, "any sources, disk=trunc(" + j.r.rc.Class + "): no initial packages were loaded", j.r}
					continue
				}
				if strings.Contains(j.why, "fails although") && j.r.rc.Disk == "trunc" && j.r.rc.Class == "midFunc" && j.r.rc.V2.has("nest") && strings.Contains(j.r.note, "the first argument, (), is not of type slice") {
					// a remnant cut inside the declaration of deriveKeys still parses in part; the outer call of
					// deriveSort(deriveKeys(m)) is typed from that broken declaration ('()') and Add rejects it.
					// The failing input is: nested call + that truncation class; the other call sites and edits play no role
					dch <- done{j.why, "sources with deriveSort(deriveKeys(m)), disk=trunc(midFunc) cut inside the old declaration of the inner function: outer call typed '()'", j.r}
					continue
				}
				if staleNest(j.r.rc) && staleReason(j.why) {
					dch <- done{j.why, staleNestClass, j.r}
					continue
				}
				for _, sub := range subCases(j.r.rc) {
					f, err := failsWith(chk, sub, j.why)
					if err != nil {
						emu.Lock()
						if firstErr == nil {
							firstErr = err
						}
						emu.Unlock()
						return
					}
					if f {
						wit = sub.String()
						if staleNest(sub) && staleReason(j.why) {
							wit = staleNestClass
						}
						break
					}
				}
				dch <- done{j.why, wit, j.r}
			}
		}()
	}
	wg2.Wait()
	close(dch)
	if firstErr != nil {
		return firstErr
	}
	type agg struct {
		n  int
		ex *regenResult
	}
	wits := map[string]*agg{}
	for d := range dch {
		k := d.why + " :: " + d.wit
		if wits[k] == nil {
			wits[k] = &agg{ex: d.r}
		}
		wits[k].n++
		if d.r.rc.String() < wits[k].ex.rc.String() {
			wits[k].ex = d.r
		}
	}
	for k, a := range wits {
		r := a.ex
		c.Report(k, fmt.Sprintf("%d sampled histories reduce to this one; e.g. %s (exit=%d) %s", a.n, r.rc.String(), r.exitR, r.note),
			map[string]interface{}{"history": r.rc, "v1_files": regenFiles(r.rc.V1, r.rc.SameLine), "v2_files": regenFiles(r.rc.V2, r.rc.SameLine)})
	}
	// (B) histories under -autoname / -dedup: the C11 universe (names that coincide with the helper names newName
	// mints, structs whose fields need helpers), one call edited between two runs with the same flags
	flagRuns, flagStates, err := c07Flagged(c, bin)
	if err != nil {
		return err
	}
	c.Set("flagged_histories", flagRuns)
	// (C) chains of nested derive calls: pass count depends on the old file, the output must not (RegenChain.tla)
	if _, err := c07Chains(c, bin); err != nil {
		return err
	}
	// DRIFT: prediction of the implementation-shaped model
	drift := 0
	for _, r := range results {
		if r.valid && r.rc.Disk != "trunc" && r.rc.PredictSame != r.same {
			drift++
			if drift <= 3 {
				c.Drift(fmt.Sprintf("Regen.tla predicts same=%v, real run same=%v: %s", r.rc.PredictSame, r.same, r.rc.String()))
			}
		}
	}
	nontriv := 0
	for _, r := range results {
		if r.valid && (len(r.rc.Ops) >= 2 || r.rc.Disk == "trunc") {
			nontriv++
		}
	}
	for i := 0; i < 4 && i < len(results); i++ {
		r := results[(i*7919+int(c.Seed))%len(results)]
		c.Sample(map[string]interface{}{"history": r.rc.String(), "same_as_scratch": r.same, "valid": r.valid})
	}
	c.Set("states", res.Distinct+flagStates)
	c.Set("transitions", res.Generated+flagStates)
	c.Set("histories_exported_by_tlc", len(cases))
	c.Set("traces_validated_against_impl", st.Traces)
	c.Set("trace_events", st.Events)
	c.Set("evaluations", len(results))
	c.Set("distinct_nontrivial", nontriv)
	c.Set("model_drift_runs", drift)
	c.Set("rule", "TLC enumerates Regen.tla (all versions of a 5-call-site package (incl. the inner call of the nested one on its own and an external test package in the directory) x <=2 edits (add/remove call, retype field, retype argument, retype the map feeding a nested derive call) x one interrupted write of the old or new output in 5 truncation classes); all single-edit histories plus a seeded sample are realised: v1 generated, edited to v2, derived.gen.go truncated at byte offsets of the class, one real run compared with a scratch run; non-trivial = two edits or a truncated file")
	c.Set("exhaustive", false)
	c.Assume("truncation offsets: quick samples 3 per class (first, last, random), thorough 24; witness minimisation re-runs sub-histories at a deterministic probe set (every offset of the header classes, every byte of signature lines)")
	return nil
}

// c07Flagged: v1 -> v2 histories over GoderiveMC's packages, both runs with v2's flags; the result of the second
// run (derived.gen.go AND the possibly rewritten user files, exit status) must equal a scratch run of v2.
func c07Flagged(c *core.Ctx, bin string) (int, int, error) {
	maxCalls, nPairs := 2, 1200
	if !c.Quick() {
		maxCalls, nPairs = 3, 4000
	}
	ms, res, err := runMC(c, "c07flags", maxCalls, false)
	if err != nil {
		return 0, 0, err
	}
	rng := core.NewRand(c.Seed + 77)
	type pair struct{ v1, v2 mcScenario }
	var pairs []pair
	sfx := []string{"", "_", "A"}
	keys := []string{"K1", "K2", "K3"}
	for _, m := range ms {
		if len(m.Calls) < 2 || (!m.Autoname && !m.Dedup) {
			continue
		}
		// flags only act on packages with a clash: two calls sharing a name or a key
		clash := false
		for a := range m.Calls {
			for b := range m.Calls {
				if a != b && (m.Calls[a].N == m.Calls[b].N || m.Calls[a].K == m.Calls[b].K) {
					clash = true
				}
			}
		}
		if !clash {
			continue
		}
		for j := range m.Calls {
			// v1 = v2 with call j removed / retyped / renamed
			rm := m
			rm.Calls = append(append([]CallSpec{}, m.Calls[:j]...), m.Calls[j+1:]...)
			pairs = append(pairs, pair{rm, m})
			for _, k := range keys {
				if k != m.Calls[j].K {
					v := m
					v.Calls = append([]CallSpec{}, m.Calls...)
					v.Calls[j].K = k
					pairs = append(pairs, pair{v, m})
				}
			}
			for _, sx := range sfx {
				n := "deriveEqual" + sx
				if n != m.Calls[j].N {
					ok := true
					for _, r := range m.Resv {
						ok = ok && r != n
					}
					if ok {
						v := m
						v.Calls = append([]CallSpec{}, m.Calls...)
						v.Calls[j].N = n
						pairs = append(pairs, pair{v, m})
					}
				}
			}
		}
	}
	c.Set("flagged_history_pairs_in_universe", len(pairs))
	rng.Shuffle(len(pairs), func(a, b int) { pairs[a], pairs[b] = pairs[b], pairs[a] })
	if len(pairs) > nPairs {
		pairs = pairs[:nPairs]
	}
	type result struct {
		lines [][]byte
		desc  string
		size  int
	}
	results := make([]*result, len(pairs))
	var wg sync.WaitGroup
	var mu sync.Mutex
	var firstErr error
	jobs := make(chan int, len(pairs))
	for i := range pairs {
		jobs <- i
	}
	close(jobs)
	for w := 0; w < 16; w++ {
		wg.Add(1)
		go func(w int) {
			defer wg.Done()
			for i := range jobs {
				p := pairs[i]
				s1 := buildPkg("v1", p.v1, 1, 0)
				s2 := buildPkg("v2", p.v2, 1, 0)
				root := filepath.Join(c.Work, "flagged", fmt.Sprintf("w%d", w))
				os.RemoveAll(root)
				dirR, dirS := filepath.Join(root, "r"), filepath.Join(root, "s")
				fail := func(err error) {
					mu.Lock()
					if firstErr == nil {
						firstErr = err
					}
					mu.Unlock()
				}
				if err := writeFiles(dirR, s1.Files); err != nil {
					fail(err)
					return
				}
				args := append(append([]string{}, s2.Flags...), ".")
				if _, err := runJudged(c, bin, filepath.Join(dirR, "p"), args, "", nil); err != nil {
					fail(err)
					return
				}
				// the edit: v2's user files replace v1's (a file v2 no longer has is removed)
				for f := range s1.Files {
					if _, ok := s2.Files[f]; !ok {
						os.Remove(filepath.Join(dirR, f))
					}
				}
				if err := writeFiles(dirR, s2.Files); err != nil {
					fail(err)
					return
				}
				if err := writeFiles(dirS, s2.Files); err != nil {
					fail(err)
					return
				}
				trace := filepath.Join(root, "trace.ndjson")
				r2, err := runJudged(c, bin, filepath.Join(dirR, "p"), args, trace, nil)
				if err != nil {
					fail(err)
					return
				}
				rs, err := runJudged(c, bin, filepath.Join(dirS, "p"), args, "", nil)
				if err != nil {
					fail(err)
					return
				}
				snapR, _ := Snapshot(filepath.Join(dirR, "p"))
				snapS, _ := Snapshot(filepath.Join(dirS, "p"))
				_, errR := os.Stat(filepath.Join(dirR, "p", "derived.gen.go"))
				_, errS := os.Stat(filepath.Join(dirS, "p", "derived.gen.go"))
				same := len(DiffSnap(snapR, snapS)) == 0
				shaR, shaS := "same", "same"
				if !same {
					shaR, shaS = "r:"+strings.Join(DiffSnap(snapR, snapS), ","), "s"
				}
				compress(r2.Events)
				id := fmt.Sprintf("c07f-%05d", i)
				var lines [][]byte
				lines = append(lines, runStartLine(&Scenario{ID: id, Autoname: p.v2.Autoname, Dedup: p.v2.Dedup}))
				for _, e := range r2.Events {
					lines = append(lines, marshal(e))
				}
				lines = append(lines, marshal(map[string]interface{}{"ev": "RegenObs", "exitR": r2.Exit, "exitS": rs.Exit, "existsR": errR == nil, "existsS": errS == nil,
					"shaR": shaR, "shaS": shaS, "typechecksR": true, "scratchTypechecks": false, "callsRemain": true, "offset": -1}))
				results[i] = &result{lines: lines, size: len(p.v1.Calls) + len(p.v2.Calls),
					desc: fmt.Sprintf("v1=%s -> v2=%s", buildPkg("", p.v1, 1, 0).String(), s2.String())}
				os.RemoveAll(root)
			}
		}(w)
	}
	wg.Wait()
	if firstErr != nil {
		return 0, 0, firstErr
	}
	var outs []*RunOut
	byID := map[string]*result{}
	for i, r := range results {
		id := fmt.Sprintf("c07f-%05d", i)
		byID[id] = r
		outs = append(outs, &RunOut{Sc: &Scenario{ID: id}, Lines: r.lines})
	}
	st, err := ValidateTraces(c, outs)
	if err != nil {
		return 0, 0, err
	}
	best := map[string]*result{}
	for run, whys := range FirstBad(st) {
		r := byID[run]
		for _, why := range whys {
			if !strings.Contains(why, "C07") {
				continue
			}
			if b := best[why]; b == nil || r.size < b.size || (r.size == b.size && r.desc < b.desc) {
				best[why] = r
			}
		}
	}
	for why, r := range best {
		c.Report(why+" :: flagged history "+r.desc, "smallest failing flagged history of this run", map[string]interface{}{"history": r.desc})
	}
	return len(results), res.Distinct, nil
}
