package engg

import (
	"fmt"
	"os"
	"path/filepath"
	"regexp"
	"sort"
	"strings"
	"sync"
	"time"

	"verif/harness/internal/core"
	"verif/harness/internal/gd"
	"verif/harness/internal/tlc"
)

func init() {
	core.Register("C01", checkC01)
}

// exportGenCases runs GenCases.tla and returns the exported universe.
func exportGenCases(c *core.Ctx, depth int, withBad bool) ([]GenCase, *tlc.Result, error) {
	outp := filepath.Join(c.Work, fmt.Sprintf("gencases-%d-%v.csv", depth, withBad))
	cfg := fmt.Sprintf("SPECIFICATION Spec\nCONSTANTS\n  Depth = %d\n  WithBad = %s\nINVARIANTS WellFormed Export\nCHECK_DEADLOCK FALSE\n", depth, strings.ToUpper(fmt.Sprint(withBad)))
	res, err := tlc.Run(tlc.Opts{SpecDirs: []string{filepath.Join(c.Verif, "spec", "gen")}, Module: "GenCases", Config: "run.cfg",
		Files: map[string]string{"run.cfg": cfg}, Workers: 1, Timeout: 30 * time.Minute, HeapMB: 6000, Scratch: c.Work,
		Env: map[string]string{"VERIF_OUT": outp}})
	if err != nil {
		return nil, nil, err
	}
	if res.Violation {
		return nil, res, fmt.Errorf("GenCases.tla violates WellFormed (specification needs fixing): %s", res.ErrText)
	}
	cases, err := readGenCases(outp)
	return cases, res, err
}

func genScenario(id string, g *GenCase, mustSucceed bool) *Scenario {
	sc := &Scenario{ID: id, Files: moduleFixture(), PkgDir: "c", MustSucceed: mustSucceed, WellTyped: true, Note: g.String()}
	called := map[string]bool{}
	for k, v := range genCaseFiles(g, "c") {
		sc.Files[k] = v
		for _, n := range reDeriveName.FindAllString(v, -1) {
			called[n] = true
		}
	}
	if g.Overlap {
		// the case's own plugin is called as same<Plugin>; takewhile (default prefix deriveTakeWhile, longer than
		// any of the 15 plugins' and never called here) listens on the proper prefix "same"
		own := ""
		for n := range called {
			if strings.ToLower(strings.TrimPrefix(n, "derive")) == g.P {
				own = n
			}
		}
		if own != "" {
			renamed := "same" + strings.TrimPrefix(own, "derive")
			for k, v := range sc.Files {
				if strings.HasPrefix(k, "c/") {
					sc.Files[k] = regexp.MustCompile(`\b`+own+`\b`).ReplaceAllString(v, renamed)
				}
			}
			sc.Flags = []string{"-pluginprefix=" + g.P + "=" + renamed + ",takewhile=same"}
		}
	}
	if g.Flagged {
		var ov []string
		for n := range called {
			ov = append(ov, strings.ToLower(strings.TrimPrefix(n, "derive"))+"="+n)
		}
		sort.Strings(ov)
		sc.Flags = []string{"-prefix=gen", "-pluginprefix=" + strings.Join(ov, ",")}
	}
	return sc
}

var reDeriveName = regexp.MustCompile(`\bderive[A-Z][A-Za-z]*\b`)

var rePos = regexp.MustCompile(`^[^ ]*\.go:\d+:\d+: `)
var reTmp = regexp.MustCompile(`/tmp/[^ :]*`)

func normMsg(s string) string {
	s = strings.TrimSpace(s)
	if i := strings.IndexByte(s, '\n'); i >= 0 {
		s = s[:i]
	}
	s = reTmp.ReplaceAllString(s, "<dir>")
	s = rePos.ReplaceAllString(s, "")
	s = reAndMore.ReplaceAllString(s, "")
	// keep the wording, blank out everything that names a concrete type, variable or position
	words := strings.Fields(s)
	for i, w := range words {
		if strings.ContainsAny(w, ".[]*(){}<>:/0123456789_\"'`&") || blankWords[w] || (len(w) <= 2 && !keepShort[w]) {
			words[i] = "_"
		}
	}
	s = strings.Join(words, " ")
	for strings.Contains(s, "_ _") {
		s = strings.ReplaceAll(s, "_ _", "_")
	}
	if len(s) > 160 {
		s = s[:160]
	}
	return s
}

var blankWords = map[string]bool{"object": true, "this": true, "that": true, "list": true, "dst": true, "src": true, "variable": true,
	"value": true, "map": true, "index": true, "expression": true, "constant": true, "int": true, "bool": true, "string": true, "chan": true}
var keepShort = map[string]bool{"on": true, "to": true, "of": true, "in": true, "as": true, "no": true, "or": true, "is": true}

var reAndMore = regexp.MustCompile(` \(and \d+ more errors\)`)

// failureClass names how a run failed, independent of positions and generated identifiers.
func failureClass(o *RunOut) string {
	switch {
	case o.TimedOut:
		return "timeout"
	case o.Panicked:
		return "panic: " + normMsg(o.Stderr[strings.Index(o.Stderr, "panic:")+len("panic:"):])
	case o.Exit != 0:
		return "exit " + fmt.Sprint(o.Exit) + ": " + normMsg(o.Stderr)
	case o.Post.Present && !o.Post.Typechecks && len(o.Post.Errors) > 0:
		return "type error: " + normMsg(o.Post.Errors[0])
	case len(o.Post.Unresolved) > 0:
		return "unresolved derive call"
	}
	return ""
}

// genMinimiser finds, for a failing case, the smallest simplification of its type that fails the same way.
type genMinimiser struct {
	c     *core.Ctx
	bin   string
	must  bool
	mu    sync.Mutex
	cache map[string]string
	seq   int
}

func (m *genMinimiser) class(g *GenCase, chk *Checker) (string, error) {
	k := g.String()
	m.mu.Lock()
	v, ok := m.cache[k]
	m.seq++
	n := m.seq
	m.mu.Unlock()
	if ok {
		return v, nil
	}
	o, err := RunOne(m.c, m.bin, genScenario("min", g, m.must), filepath.Join(m.c.Work, "min", fmt.Sprintf("m%07d", n)), chk, RunOpts{Post: true})
	if err != nil {
		return "", err
	}
	cl := failureClass(o)
	m.mu.Lock()
	m.cache[k] = cl
	m.mu.Unlock()
	return cl, nil
}

func (m *genMinimiser) minimise(g *GenCase, cls string, chk *Checker) (*GenCase, error) {
	cur := *g
	if cur.Flagged || cur.Overlap {
		// the flags are part of the witness only if the failure needs them
		plain := cur
		plain.Flagged, plain.Overlap = false, false
		if got, err := m.class(&plain, chk); err != nil {
			return nil, err
		} else if got == cls {
			cur = plain
		}
	}
	for round := 0; round < 4; round++ {
		before := cur.String()
		if err := m.shrinkType(&cur, cls, chk); err != nil {
			return nil, err
		}
		m.shrinkPlugin(&cur, cls, chk)
		if cur.String() == before {
			break
		}
	}
	return &cur, nil
}

func (m *genMinimiser) shrinkType(cur *GenCase, cls string, chk *Checker) error {
	for {
		cands := subTerms(&cur.T)
		sort.SliceStable(cands, func(a, b int) bool {
			if cands[a].Size() != cands[b].Size() {
				return cands[a].Size() < cands[b].Size()
			}
			return cands[a].String() < cands[b].String()
		})
		progressed := false
		for _, t := range cands {
			cand := GenCase{T: *t, P: cur.P, F: cur.F}
			got, err := m.class(&cand, chk)
			if err != nil {
				return err
			}
			if got == cls {
				*cur = cand
				progressed = true
				break
			}
		}
		if !progressed {
			return nil
		}
	}
}

func (m *genMinimiser) shrinkPlugin(curp *GenCase, cls string, chk *Checker) {
	cur := *curp
	defer func() { *curp = cur }()
	// the plugin at the root of the failure: the first of the plain one-type plugins that fails the same way on this type
	for _, p := range []string{"equal", "compare", "hash", "deepcopy", "clone", "gostring", "sort"} {
		if p == cur.P && cur.F == "body" {
			break
		}
		cand := GenCase{T: cur.T, P: p, F: "body"}
		if got, err := m.class(&cand, chk); err == nil && got == cls {
			cur = cand
			break
		}
	}
	// the plainest call-site form that still fails the same way
	if cur.F != "body" {
		cand := cur
		cand.F = "body"
		if got, err := m.class(&cand, chk); err == nil && got == cls {
			cur = cand
		}
	}
}

// judgeGenCases runs the cases, lets TLC validate the traces and reports rejected runs by minimal witness.
func judgeGenCases(c *core.Ctx, bin string, cases []GenCase, must bool, mine func(string) bool, idp string) (*ValStats, []*RunOut, error) {
	scs := make([]*Scenario, len(cases))
	for i := range cases {
		scs[i] = genScenario(fmt.Sprintf("%s-%06d", idp, i), &cases[i], must)
	}
	outs, err := RunAll(c, bin, scs, RunOpts{Post: true})
	if err != nil {
		return nil, nil, err
	}
	st, err := ValidateTraces(c, outs)
	if err != nil {
		return nil, nil, err
	}
	idx := map[string]int{}
	for i, o := range outs {
		idx[o.Sc.ID] = i
	}
	type job struct {
		why string
		i   int
	}
	var jobs []job
	fb := FirstBad(st, mine)
	runs := make([]string, 0, len(fb))
	for r := range fb {
		runs = append(runs, r)
	}
	sort.Strings(runs)
	for _, run := range runs {
		i, ok := idx[run]
		if !ok {
			return nil, nil, fmt.Errorf("validator reported unknown run %q", run)
		}
		for _, why := range fb[run] {
			if mine != nil && !mine(why) {
				c.Warn(fmt.Sprintf("rejected for a reason owned by another property: %s :: %s", why, cases[i].String()))
				continue
			}
			jobs = append(jobs, job{why, i})
		}
	}
	m := &genMinimiser{c: c, bin: bin, must: must, cache: map[string]string{}}
	type fin struct {
		wit, detail string
		replay      interface{}
	}
	results := make([]fin, len(jobs))
	jch := make(chan int, len(jobs))
	for k := range jobs {
		jch <- k
	}
	close(jch)
	var wg sync.WaitGroup
	var emu sync.Mutex
	var firstErr error
	for w := 0; w < 16; w++ {
		wg.Add(1)
		go func() {
			defer wg.Done()
			chk := NewChecker()
			for k := range jch {
				j := jobs[k]
				o := outs[j.i]
				cls := failureClass(o)
				min, err := m.minimise(&cases[j.i], cls, chk)
				if err != nil {
					emu.Lock()
					if firstErr == nil {
						firstErr = err
					}
					emu.Unlock()
					return
				}
				if os.Getenv("VERIF_DEBUG") != "" {
					fmt.Fprintf(os.Stderr, "minimised %s => %s\n", cases[j.i].String(), min.String())
				}
				results[k] = fin{
					wit:    fmt.Sprintf("%s :: %s :: %s", j.why, min.String(), cls),
					detail: fmt.Sprintf("first seen on %s; stderr=%q; type errors=%v", cases[j.i].String(), trim(o.Stderr, 300), o.Post.Errors),
					replay: map[string]interface{}{"case": cases[j.i], "minimal": min, "files": genCaseFiles(min, "c"), "derived": o.Derived, "stderr": o.Stderr},
				}
			}
		}()
	}
	wg.Wait()
	if firstErr != nil {
		return nil, nil, firstErr
	}
	sort.Slice(results, func(a, b int) bool { return results[a].wit < results[b].wit })
	for _, r := range results {
		c.Report(r.wit, r.detail, r.replay)
	}
	return st, outs, nil
}

func checkC01(c *core.Ctx) error {
	bin, err := gd.Build(c)
	if err != nil {
		return err
	}
	depth := 2
	cases, res, err := exportGenCases(c, depth, false)
	if err != nil {
		return err
	}
	total := len(cases)
	{
		// fixed core: every body-form case whose type has at most one constructor (quick) / two (thorough), every
		// leaf-type case in every call-site form;
		// plus a seeded sample of the rest (the universe has >150k cases since the call-site forms were widened)
		maxCore, nRest := 2, 2000
		if !c.Quick() {
			maxCore, nRest = 3, 30000
		}
		var core_, rest []GenCase
		for _, g := range cases {
			if (g.T.Size() <= maxCore && g.F == "body") || g.T.Size() <= 1 {
				core_ = append(core_, g)
			} else {
				rest = append(rest, g)
			}
		}
		rng := core.NewRand(c.Seed)
		rng.Shuffle(len(rest), func(a, b int) { rest[a], rest[b] = rest[b], rest[a] })
		if len(rest) > nRest {
			rest = rest[:nRest]
		}
		cases = append(core_, rest...)
	}
	st, outs, err := judgeGenCases(c, bin, cases, true, func(why string) bool { return !strings.Contains(why, "(C09)") }, "c01")
	if err != nil {
		return err
	}
	// (a') the fixed core again under a non-default global prefix with the called plugins kept on their classic names
	var flagged []GenCase
	for _, g := range cases {
		if g.T.Size() <= 1 && (g.F == "body" || g.F == "nested") {
			g.Flagged = true
			flagged = append(flagged, g)
			if g.F == "body" {
				g.Flagged, g.Overlap = false, true
				flagged = append(flagged, g)
			}
		}
	}
	stF, outsF, err := judgeGenCases(c, bin, flagged, true, func(why string) bool { return !strings.Contains(why, "(C09)") }, "c01f")
	if err != nil {
		return err
	}
	okF := 0
	for _, o := range outsF {
		if o.Exit == 0 && o.Post.Typechecks {
			okF++
		}
	}
	if okF*2 < len(outsF) {
		return fmt.Errorf("only %d of %d flagged in-grammar cases generate and type-check: the flagged scenario is probably broken (e.g. %s: %s)", okF, len(outsF), flagged[0].String(), failureClass(outsF[0]))
	}
	c.Set("flagged_cases", len(outsF))
	c.Set("flagged_cases_ok", okF)
	st.Traces += stF.Traces
	st.Events += stF.Events
	// (b) packages with two or three calls of one plugin whose argument types are RELATED by assignability
	// (type I1 []int, type I2 []int, []int, struct{F []int}): all supported, all names and types distinct,
	// so generation must succeed (universe: the scenarios of Determinism.tla)
	relRuns, relOK, err := c01Related(c, bin)
	if err != nil {
		return err
	}
	c.Set("related_type_packages", relRuns)
	c.Set("related_type_packages_ok", relOK)
	ok := 0
	for _, o := range outs {
		if o.Exit == 0 && o.Post.Typechecks {
			ok++
		}
	}
	if ok*2 < len(outs) {
		return fmt.Errorf("only %d of %d in-grammar cases generate and type-check: the case generator is probably broken (e.g. %s: %s)", ok, len(outs), cases[0].String(), failureClass(outs[0]))
	}
	for i := 0; i < 4 && i < len(outs); i++ {
		o := outs[(i*7919+int(c.Seed))%len(outs)]
		c.Sample(map[string]interface{}{"case": o.Sc.Note, "exit": o.Exit, "typechecks": o.Post.Typechecks, "events": len(o.Events)})
	}
	c.Set("states", res.Distinct)
	c.Set("transitions", res.Generated)
	c.Set("cases_in_universe", total)
	c.Set("traces_validated_against_impl", st.Traces)
	c.Set("trace_events", st.Events)
	c.Set("evaluations", len(outs))
	c.Set("distinct_nontrivial", ok)
	c.Set("rule", fmt.Sprintf("TLC enumerates GenCases.tla: every type term of constructor depth <= %d over 16 leaves (basics, three type aliases, named basics, local/imported/same-named-import/recursive/embedded structs) x 15 plugins (argument shape per plugin) x 6 call-site forms, restricted to Supported(plugin, T); each case is a real package on which the real goderive runs; TLC validates the hook trace (every helper requested was generated exactly once, tables consistent) and the go/types observations (exit 0, type-checks, no unresolved call); non-trivial = generated and type-checked", depth))
	c.Set("exhaustive", len(cases) == total)
	c.Assume("go/types with a source importer is the definition of 'type-checks' and of 'imports exactly what it uses'")
	return nil
}

func c01Related(c *core.Ctx, bin string) (int, int, error) {
	scen, _, _, err := exportDetScenarios(c)
	if err != nil {
		return 0, 0, err
	}
	keys := make([]string, 0, len(scen))
	for k, cs := range scen {
		names, types := map[string]bool{}, map[string]bool{}
		for _, x := range cs {
			names[x.N], types[x.K] = true, true
		}
		if len(names) == len(cs) && len(types) == len(cs) {
			keys = append(keys, k) // no conflict and no duplicate in C11's sense
		}
	}
	sort.Strings(keys)
	var scs []*Scenario
	for i, k := range keys {
		scs = append(scs, &Scenario{ID: fmt.Sprintf("c01rel-%04d", i), Files: detFiles(scen[k]), PkgDir: "p", MustSucceed: true, WellTyped: true, Note: k})
	}
	outs, err := RunAll(c, bin, scs, RunOpts{Post: true})
	if err != nil {
		return 0, 0, err
	}
	st, err := ValidateTraces(c, outs)
	if err != nil {
		return 0, 0, err
	}
	byID := map[string]int{}
	for i, o := range outs {
		byID[o.Sc.ID] = i
	}
	// witness: the smallest sub-sequence of the calls that is rejected for the same reason and failure class
	cache := map[string]string{}
	classOf := func(cs []detCall, chk *Checker) (string, error) {
		k := detString(cs)
		if v, ok := cache[k]; ok {
			return v, nil
		}
		o, err := RunOne(c, bin, &Scenario{ID: "min", Files: detFiles(cs), PkgDir: "p", MustSucceed: true, WellTyped: true}, filepath.Join(c.Work, "relmin", fmt.Sprintf("m%05d", len(cache))), chk, RunOpts{Post: true})
		if err != nil {
			return "", err
		}
		cache[k] = failureClass(o)
		return cache[k], nil
	}
	chk := NewChecker()
	reported := map[string]bool{}
	fb := FirstBad(st)
	runs := make([]string, 0, len(fb))
	for r := range fb {
		runs = append(runs, r)
	}
	sort.Strings(runs)
	for _, run := range runs {
		i := byID[run]
		for _, why := range fb[run] {
			if strings.Contains(why, "(C09)") {
				continue
			}
			cls := failureClass(outs[i])
			cs := scen[keys[i]]
			best := cs
			for mask := 1; mask < 1<<len(cs); mask++ {
				var sub []detCall
				for j := range cs {
					if mask&(1<<j) != 0 {
						sub = append(sub, cs[j])
					}
				}
				sub = detCanon(sub)
				if len(sub) > len(best) || (len(sub) == len(best) && detString(sub) >= detString(best)) {
					continue
				}
				got, err := classOf(sub, chk)
				if err != nil {
					return 0, 0, err
				}
				if got == cls {
					best = sub
				}
			}
			wit := fmt.Sprintf("%s :: equal %s :: %s", why, detString(best), cls)
			if !reported[wit] {
				reported[wit] = true
				c.Report(wit, fmt.Sprintf("first seen on %s; stderr=%q", keys[i], trim(outs[i].Stderr, 200)), map[string]interface{}{"files": detFiles(best)})
			}
		}
	}
	okN := 0
	for _, o := range outs {
		if o.Exit == 0 && o.Post.Typechecks {
			okN++
		}
	}
	return len(outs), okN, nil
}
