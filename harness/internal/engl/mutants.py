#!/usr/bin/env python3
"""Detection demo for C13 / C14 (CONVENTIONS rule 8): seeded template changes in a
scratch worktree of /repo; each compiles, passes `go test ./test/normal/ ./example/...`
(the pinned suite never runs goderive) and must be reported as VIOLATION.

usage: mutants.py [name ...]      (default: all)   env: VERIF_PAR (default 6), TIER (quick)
Creates /tmp/wt-L (git worktree of /repo), removes it at the end. Never edits /repo.
"""
import os, subprocess, sys, time

GO = "/root/go/pkg/mod/golang.org/toolchain@v0.0.1-go1.24.0.linux-amd64/bin/go"
ENV = dict(os.environ, GOTOOLCHAIN="local", GOFLAGS="-mod=mod", GOPROXY="off", GOSUMDB="off")
WT = "/tmp/wt-L"
CMP_GT = 'p.P("if %s(v, m) > 0 {", g.compare.GetFuncName(etyp, etyp))\n\t}'
CMP_LT = 'p.P("if %s(v, m) < 0 {", g.compare.GetFuncName(etyp, etyp))\n\t}'

# name: (property, file, old, new, what)
M = {
 "max-lt-in-compare-branch": ("C13", "plugin/max/max.go", CMP_GT, CMP_LT,
     "max.go list form: `<` for `>` in the derived-Compare (struct, pointer ...) branch"),
 "min-skips-index-1": ("C13", "plugin/min/min.go", 'p.P("for i, v := range list {")\n\tp.In()',
     'p.P("for i, v := range list {")\n\tp.In()\n\tp.P("if i == 0 { continue }")', "min.go: the scan starts after list[1]"),
 "min-ignores-default": ("C13", "plugin/min/min.go", 'p.P("return def")', 'p.P("var zero %s", typeStr)\n\tp.P("return zero")',
     "min.go: zero value instead of the default for an empty list"),
 "keys-break": ("C13", "plugin/keys/keys.go", 'p.P("keys = append(keys, key)")', 'p.P("keys = append(keys, key)")\n\tp.P("break")',
     "keys.go: break after the first key"),
 "sort-named-dropped": ("C13", "plugin/sort/sort.go",
     'default:\n\t\t\tp.P(g.sortPkg() + ".Slice(list, func(i, j int) bool { return list[i] < list[j] })")',
     'default:\n\t\t\tif _, named := etyp.(*types.Named); named {\n\t\t\t\treturn nil\n\t\t\t}\n\t\t\tp.P(g.sortPkg() + ".Slice(list, func(i, j int) bool { return list[i] < list[j] })")',
     "sort.go: no sort emitted for named element types"),
 "unique-index-of-input": ("C14", "plugin/unique/unique.go", 'p.P("table[hash] = append(table[hash], u)")', 'p.P("table[hash] = append(table[hash], i)")',
     "unique.go: the hash table remembers the position in the input (list[i]) instead of the compacted prefix"),
 "unique-no-equal-in-bucket": ("C14", "plugin/unique/unique.go",
     'p.P("if %s(list[index], list[i]) {", g.equal.GetFuncName(typ.Elem(), typ.Elem()))', 'p.P("if index >= 0 {")',
     "unique.go: same hash bucket taken as Equal (no derived Equal scan)"),
 "intersect-wrong-list": ("C14", "plugin/intersect/intersect.go", 'p.P("if %s(that, v) {", g.contains.GetFuncName(typ))', 'p.P("if %s(this, v) {", g.contains.GetFuncName(typ))',
     "intersect.go: membership tested in the first list"),
 "union-appends-present": ("C14", "plugin/union/union.go", 'p.P("if !%s(this, v) {", g.contains.GetFuncName(typ))', 'p.P("if %s(this, v) || true {", g.contains.GetFuncName(typ))',
     "union.go: items already present are appended too"),
 "contains-pointer-identity": ("C14", "plugin/contains/contains.go", 'case *types.Array:\n\t\treturn canEqual(typ.Elem())\n\t}\n\treturn false',
     'case *types.Array:\n\t\treturn canEqual(typ.Elem())\n\tcase *types.Pointer:\n\t\treturn true\n\t}\n\treturn false',
     "contains.go: == on pointers instead of derived Equal"),
 "filter-no-shift": ("C14", "plugin/filter/filter.go", 'p.P("list[j] = list[i]")', 'p.P("_ = list[i]")', "filter.go: kept elements are not shifted"),
 "takewhile-continues": ("C14", "plugin/takewhile/takewhile.go", 'p.P("break")', 'p.P("continue")', "takewhile.go: continues after the first failing element"),
 "all-swapped": ("C14", "plugin/all/all.go", 'p.P("return false")\n\tp.Out()\n\tp.P("}")\n\tp.Out()\n\tp.P("}")\n\tp.P("return true")',
     'p.P("return true")\n\tp.Out()\n\tp.P("}")\n\tp.Out()\n\tp.P("}")\n\tp.P("return false")', "all.go: swapped short-circuit value"),
 "any-swapped": ("C14", "plugin/any/any.go", 'p.P("return true")\n\tp.Out()\n\tp.P("}")\n\tp.Out()\n\tp.P("}")\n\tp.P("return false")',
     'p.P("return false")\n\tp.Out()\n\tp.P("}")\n\tp.Out()\n\tp.P("}")\n\tp.P("return true")', "any.go: swapped short-circuit value"),
}

def sh(cmd, cwd=None, env=ENV, timeout=3600):
    r = subprocess.run(cmd, cwd=cwd, env=env, stdout=subprocess.PIPE, stderr=subprocess.STDOUT, text=True, timeout=timeout)
    return r.returncode, r.stdout

def main():
    names = sys.argv[1:] or list(M)
    tier = os.environ.get("TIER", "quick")
    sh(["git", "-C", "/repo", "worktree", "remove", "--force", WT])
    rc, out = sh(["git", "-C", "/repo", "worktree", "add", "--detach", WT, "HEAD"])
    if rc != 0:
        sys.exit("worktree: " + out)
    summary = []
    try:
        for n in names:
            prop, path, old, new, what = M[n]
            sh(["git", "-C", WT, "checkout", "--", "."])
            src = open(os.path.join(WT, path)).read()
            if src.count(old) < 1:
                summary.append((n, prop, "PATTERN-NOT-FOUND", "")); continue
            # the list form is the LAST occurrence in min.go / max.go
            i = src.rfind(old)
            open(os.path.join(WT, path), "w").write(src[:i] + new + src[i + len(old):])
            rc, out = sh([GO, "build", ".", "./derive/...", "./plugin/..."], cwd=WT)
            if rc != 0:
                summary.append((n, prop, "DOES-NOT-COMPILE", out[-300:])); continue
            rc, out = sh([GO, "test", "./test/normal/", "./example/..."], cwd=WT)
            suite = "suite-green" if rc == 0 else "SUITE-RED"
            if rc != 0:
                print("    go test output:", "\n".join(l for l in out.splitlines() if not l.startswith("ok") and "no test files" not in l)[-800:])
            t0 = time.time()
            env = dict(ENV, VERIF_REPO=WT, VERIF_EVIDENCE_DIR="/tmp/wt-L-ev", VERIF_PAR=os.environ.get("VERIF_PAR", "6"))
            rc, out = sh(["/verif/bin/vcheck-l", prop, "--tier", tier], cwd="/verif", env=env)
            wits = [l.strip()[9:] for l in out.splitlines() if l.strip().startswith("witness:")]
            verdict = {0: "MISSED (exit 0)", 1: "VIOLATION", 2: "INFRA-ERROR"}.get(rc, "exit %d" % rc)
            summary.append((n, prop, "%s %s %.0fs" % (suite, verdict, time.time() - t0), " || ".join(wits)[:900] if rc != 2 else out[-600:]))
            print("%-28s %s %s\n    %s\n    %s" % (n, prop, summary[-1][2], what, summary[-1][3]), flush=True)
    finally:
        sh(["git", "-C", "/repo", "worktree", "remove", "--force", WT])
    print("\nSUMMARY")
    for s in summary:
        print("%-28s %s %s" % s[:3])

if __name__ == "__main__":
    main()
