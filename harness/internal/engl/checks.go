package engl

import (
	"fmt"
	"math/rand"
	"os"
	"sort"
	"strconv"
	"strings"

	"verif/harness/internal/core"
	"verif/harness/internal/engs"
	"verif/harness/internal/gd"
)

func init() {
	core.Register("C13", func(c *core.Ctx) error { return checkLists(c, "C13") })
	core.Register("C14", func(c *core.Ctx) error { return checkLists(c, "C14") })
}

type tierSizes struct {
	depth2, depth3 int // seed-drawn element types beyond the exhaustive depth <= 1 core
	nRand, nPairs  int // seed-drawn longer lists / pairs of lists
	full           bool
	mcBound        int
}

func sizes(c *core.Ctx) tierSizes {
	if c.Quick() {
		return tierSizes{depth2: 24, depth3: 4, nRand: 30, nPairs: 60, mcBound: 2}
	}
	return tierSizes{depth2: 400, depth3: 60, nRand: 120, nPairs: 300, full: true, mcBound: 3}
}

// elemUniverse: every type term of constructor depth <= 1 (TLC's enumeration)
// as element / key type -- seed independent -- plus seed-drawn deeper terms.
func elemUniverse(c *core.Ctx, ts tierSizes) (ids []string, types []*engs.Type, ncore int, err error) {
	all, err := engs.EnumerateTypes(c, 2)
	if err != nil {
		return nil, nil, 0, err
	}
	var rest []*engs.Type
	ex := map[string]bool{}
	for _, t := range all {
		ex[t.Canon()] = true
		if t.Depth() <= 1 {
			types = append(types, t)
		} else {
			rest = append(rest, t)
		}
	}
	sort.SliceStable(types, func(a, b int) bool { return types[a].Less(types[b]) })
	types = append(types, extraTypes()...)
	ncore = len(types)
	if v, e := strconv.Atoi(os.Getenv("VERIF_L_MAX")); e == nil && v > 0 && v < len(types) { // development only
		types, ncore = types[:v], v
	}
	rng := rand.New(rand.NewSource(c.Seed))
	idx := rng.Perm(len(rest))
	if ts.depth2 < len(idx) {
		idx = idx[:ts.depth2]
	}
	sort.Ints(idx)
	for _, i := range idx {
		types = append(types, rest[i])
	}
	types = append(types, engs.RandomTypes(c.Seed*7919+17, ts.depth3, 3, ex)...)
	for i := range types {
		ids = append(ids, fmt.Sprintf("T%d", i+1))
	}
	return ids, types, ncore, nil
}

// extraTypes: hand-picked element types of the fixed core. *struct{A, B, C
// string}: its pool holds two values that are not Equal although the derived
// hashes collide ("Aa" / "BB" under the 31-polynomial string hash).
func extraTypes() []*engs.Type {
	str := func() *engs.Type { return engs.Basic("string") }
	c64 := func() *engs.Type { return engs.Basic("complex64") }
	// complex64 is no leaf of TypesUpTo: as element / key type, in a struct, behind a pointer
	return []*engs.Type{engs.Ptr(engs.Struct("S1", "local", engs.F("A", str()), engs.F("B", str()), engs.F("C", str()))),
		c64(), engs.Struct("S1", "local", engs.F("A", c64())), engs.Ptr(c64())}
}

func checkLists(c *core.Ctx, prop string) error {
	bin, err := gd.Build(c)
	if err != nil {
		return err
	}
	ts := sizes(c)
	// the design, model-checked; the same run exports the abstract list cases
	mcWorkers := engs.Par() / 2
	if mcWorkers < 2 {
		mcWorkers = 2
	}
	mc, err := runListMC(c, ts.mcBound, mcWorkers)
	if err != nil {
		return err
	}
	sel, err := selectLists(mc, c.Seed, ts.nRand, ts.nPairs, ts.full, prop == "C14")
	if err != nil {
		return err
	}
	ids, types, ncore, err := elemUniverse(c, ts)
	if err != nil {
		return err
	}
	o, err := runTypes(c, bin, prop, "main", ids, types, sel, false)
	if err != nil {
		return err
	}
	r := o.R
	if n := len(r.Build.Skipped); n*4 > len(r.Cases) {
		return fmt.Errorf("%d of %d element types could not be generated/compiled (more than 25%%): the harness's own package is probably broken; first reasons: %s",
			n, len(r.Cases), strings.Join(r.Build.Reasons, " | "))
	}
	sh := newShrinker(c, bin, prop, mc)
	sh.seed(o)
	wits, err := sh.shrinkAll(o.Fails)
	if err != nil {
		return err
	}
	for _, w := range wits {
		c.Report(w.Witness, w.Detail, w.Replay)
	}

	built := 0
	for _, b := range r.Built {
		built += len(b.Cases)
	}
	laws := map[string]int{}
	for _, f := range o.Fails {
		laws[f.Law]++
	}
	c.Set("states", mc.States)
	c.Set("transitions", mc.Transitions)
	c.Set("model_check_wall_s", int(mc.Wall.Seconds()))
	c.Set("model_universe_lists", len(mc.Lists))
	c.Set("traces_validated_against_impl", o.Files)
	c.Set("observation_lines_validated", o.Lines)
	c.Set("trace_validation_states", o.ValStates)
	c.Set("evaluations", o.Evals)
	c.Set("distinct_nontrivial", built)
	c.Set("types_total", len(r.Cases))
	c.Set("types_core_depth_le_1", ncore)
	c.Set("types_seeded_deeper", len(r.Cases)-ncore)
	c.Set("lists_per_type", len(sel.Singles))
	c.Set("list_pairs_per_type", len(sel.Pairs))
	c.Set("skipped_not_generated", len(r.Build.Skipped))
	c.Set("skipped_reasons", r.Build.Kinds)
	c.Set("goderive_runs", r.Build.Goderive+sh.goderive)
	c.Set("rejected_law_type_pairs", len(o.Fails))
	c.Set("rejected_laws", laws)
	c.Set("shrink_rounds", sh.rounds)
	c.Set("shrink_candidates_run", sh.ran)
	c.Set("calls_that_modified_their_input_list", o.InputsMod)
	c.Set("exhaustive", false)
	c.Set("phase_seconds", o.Times)
	c.Set("rule", "evaluations = executions of real generated list helpers (one per (element type, operation, list(s), item/default/predicate)); "+
		"distinct_nontrivial = distinct element type terms (every TLC-enumerated term of depth <= 1, plus seed-drawn depth-2/3 terms) whose generated helpers compiled and all of whose recorded calls TLC (ListTrace) judged; "+
		"traces_validated_against_impl = observation files (one per generated package) TLC consumed completely; "+
		"states/transitions = TLC model check (ListMC) of the transcribed templates against the same laws on the bounded list universe the lists are drawn from")
	for _, reason := range r.Build.Reasons {
		c.Warn("skipped (C01/C09's business): " + reason)
	}
	for i := 0; i < 3 && i < len(r.Cases); i++ {
		cs := r.Cases[(i*997+int(c.Seed)*31)%len(r.Cases)]
		c.Sample(map[string]interface{}{"id": cs.ID, "element_type": cs.T.String(), "pool_size": len(cs.Pool), "slots": o.Data.Slots[cs.ID],
			"lists": []string{renderList(sel.Singles[len(sel.Singles)/3]), renderList(sel.Singles[len(sel.Singles)-1])}})
	}
	c.Assume("TLC, the Go compiler and runtime, reflect materialisation in the driver (engs: materialise->project is the identity on every pool value in every run)")
	c.Assume("element identity = same Go value (same pointer / same bits); ListTrace checks that the driver's identity classes never merge values the specification can tell apart")
	c.Assume("Equal is the OBSERVED derived Equal and the order the OBSERVED derived Compare of the same generated package (natural < for ordered basic kinds); their own correctness is C02/C03's business")
	c.Assume("map forms and Keys: key equality is Go's == (GoEq in ListTrace.tla); NaN is outside the universe")
	return nil
}
