package engl

import "verif/harness/internal/engs"

// laterals: size-preserving rewrites of one position of t towards a canonical
// representative of the kinds that behave alike for the list helpers: the
// float-like leaves -> float64, slice / map -> pointer. The shrinker takes
// such a step only if the same law is still rejected, so that one root cause
// (e.g. "+0 and -0 are Equal but hash differently") ends in ONE witness
// instead of one per float kind and container kind.
func laterals(t *engs.Type) []*engs.Type {
	var out []*engs.Type
	var walk func(cur *engs.Type, rebuild func(*engs.Type) *engs.Type)
	walk = func(cur *engs.Type, rebuild func(*engs.Type) *engs.Type) {
		switch cur.K {
		case "basic":
			if cur.B == "float32" || cur.B == "complex128" {
				out = append(out, rebuild(engs.Basic("float64")))
			}
		case "named":
			if cur.U.B == "float64" {
				out = append(out, rebuild(engs.Basic("float64")))
			}
		case "slice":
			out = append(out, rebuild(engs.Ptr(cur.E.Clone())))
		case "map":
			out = append(out, rebuild(engs.Ptr(cur.E.Clone())))
		}
		switch cur.K {
		case "ptr", "slice", "array":
			walk(cur.E, func(n *engs.Type) *engs.Type {
				c := cur.Clone()
				c.E = n
				return rebuild(c)
			})
		case "map":
			walk(cur.E, func(n *engs.Type) *engs.Type {
				c := cur.Clone()
				c.E = n
				return rebuild(c)
			})
		case "struct":
			for i := range cur.Fields {
				i := i
				if cur.Fields[i].Emb {
					continue
				}
				walk(cur.Fields[i].T, func(n *engs.Type) *engs.Type {
					c := cur.Clone()
					c.Fields[i].T = n
					return rebuild(c)
				})
			}
		}
	}
	walk(t, func(n *engs.Type) *engs.Type { return n })
	return out
}

// candidates of one shrinking step: the one-step simplifications (smallest
// first), then the lateral rewrites.
func candidates(t *engs.Type, visited map[string]bool) []*engs.Type {
	cs := engs.Reductions(t)
	for _, l := range laterals(t) {
		if !visited[l.NormKey()] {
			cs = append(cs, l)
		}
	}
	return cs
}
