package engl

import (
	"bufio"
	"bytes"
	"encoding/json"
	"fmt"
	"os"
	"path/filepath"
	"sort"
	"strings"
	"sync"
	"time"

	"verif/harness/internal/core"
	"verif/harness/internal/engs"
	"verif/harness/internal/tlc"
)

// lbad is one rejected class of records of one "lop" line (ListTrace.tla).
type lbad struct {
	L     int    `json:"l"`
	ID    string `json:"id"`
	Op    string `json:"op"`
	Law   string `json:"law"`
	Fails []int  `json:"fails"` // 1-based record numbers within the line
}

// failure: a rejected law on one type, with its minimal failing input.
type failure struct {
	ID    string
	T     *engs.Type
	Op    string
	Law   string
	N     int    // rejected records
	Input string // rendering of the smallest failing input
	Size  int    // its size (shrinking measure)
	Rec   map[string]interface{}
	Lists []lList // the abstract lists of that input
}

type runOut struct {
	R         *engs.Result
	Data      *listData
	Fails     []*failure
	Evals     int
	Lines     int
	Files     int
	ValStates int
	InputsMod map[string]int     // op -> calls that modified their input list (not judged)
	Dyn       map[string][][]int // case id -> lists the driver chose at run time (pool indices)
	Times     map[string]float64
}

// runSlots lets TLC bind the abstract slots to the pool of every exported type.
func runSlots(c *core.Ctx, casesFile, tag string) (map[string][]int, map[string][]json.RawMessage, error) {
	out := filepath.Join(c.Work, tag+"-slots.ndjson")
	os.Remove(out)
	res, err := runTLC(tlc.Opts{SpecDirs: listSpecDirs(c), Module: "ListCases", Config: "ListCases.cfg", Workers: 1,
		Timeout: 10 * time.Minute, HeapMB: 4000, Scratch: c.Work,
		Env: map[string]string{"VERIF_CASES": casesFile, "VERIF_OUT": out}})
	if err != nil {
		return nil, nil, err
	}
	if res.Violation {
		return nil, nil, fmt.Errorf("ListCases: %s", res.ErrText)
	}
	data, err := os.ReadFile(out)
	if err != nil {
		return nil, nil, err
	}
	slots := map[string][]int{}
	extras := map[string][]json.RawMessage{}
	for _, l := range strings.Split(strings.TrimSpace(string(data)), "\n") {
		var r struct {
			ID    string            `json:"id"`
			Slots []int             `json:"slots"`
			Extra []json.RawMessage `json:"extra"`
		}
		if err := json.Unmarshal([]byte(l), &r); err != nil {
			return nil, nil, fmt.Errorf("slots line: %v", err)
		}
		if len(r.Slots) == 6 {
			slots[r.ID] = r.Slots
		}
		if len(r.Extra) > 0 {
			extras[r.ID] = r.Extra
		}
	}
	return slots, extras, nil
}

// runTypes: TLC exports the pools (SemCases) and binds the slots (ListCases);
// the REAL goderive generates the helpers for every type; the driver executes
// them on the selected lists; TLC (ListTrace) judges every record.
func runTypes(c *core.Ctx, bin, prop, tag string, ids []string, types []*engs.Type, sel *selection, lenient bool) (*runOut, error) {
	var r *engs.Result
	var err error
	if lenient {
		r, err = engs.ExportLenient(c, tag, ids, types)
	} else {
		r, err = engs.ExportOnly(c, tag, ids, types)
	}
	if err != nil {
		return nil, err
	}
	o := &runOut{R: r, InputsMod: map[string]int{}, Dyn: map[string][][]int{}, Times: r.Times}
	if len(r.Cases) == 0 {
		return o, nil
	}
	t0 := time.Now()
	slots, extras, err := runSlots(c, r.CasesFile, tag)
	if err != nil {
		return nil, err
	}
	// leaf-like element types run on XPool(T) = Pool(T) + the leaf tokens it lacks (ListPool.tla)
	for _, cs := range r.Cases {
		if err := extendPool(cs, extras[cs.ID]); err != nil {
			return nil, err
		}
	}
	o.Times["slots"] = time.Since(t0).Seconds()
	byID := map[string]*engs.Type{}
	for _, cs := range r.Cases {
		byID[cs.ID] = cs.T
		if len(slots[cs.ID]) != 6 {
			return nil, fmt.Errorf("no slot binding for %s %s", cs.ID, cs.T.String())
		}
	}
	o.Data = &listData{Slots: slots, Singles: sel.Singles, Pairs: sel.Pairs, Defs: defSlots, Preds: predSlots}
	po, err := pkgOpts(prop, byID, o.Data)
	if err != nil {
		return nil, err
	}
	t0 = time.Now()
	if err := r.BuildAndRun(c, bin, tag, po, 24); err != nil {
		return nil, err
	}
	o.Times["build+run"] = time.Since(t0).Seconds()
	t0 = time.Now()
	if err := o.validate(c); err != nil {
		return nil, err
	}
	o.Times["validate"] = time.Since(t0).Seconds()
	return o, nil
}

// validate: one ListTrace run per observation file (= per built package).
func (o *runOut) validate(c *core.Ctx) error {
	par := engs.Par() / 2
	if engs.Par() <= 8 || par < 1 {
		par = 1
	}
	var mu sync.Mutex
	var wg sync.WaitGroup
	var firstErr error
	sem := make(chan struct{}, par)
	for _, ob := range o.R.Obs {
		wg.Add(1)
		go func(ob *engs.Obs) {
			defer wg.Done()
			sem <- struct{}{}
			defer func() { <-sem }()
			fails, states, err := o.validateOne(c, ob)
			mu.Lock()
			defer mu.Unlock()
			if err != nil {
				if firstErr == nil {
					firstErr = err
				}
				return
			}
			o.Fails = append(o.Fails, fails...)
			o.Files++
			o.Lines += ob.Lines
			o.ValStates += states
		}(ob)
	}
	wg.Wait()
	if firstErr != nil {
		return firstErr
	}
	sort.Slice(o.Fails, func(a, b int) bool {
		x, y := o.Fails[a], o.Fails[b]
		if x.Law != y.Law {
			return x.Law < y.Law
		}
		if x.T.Canon() != y.T.Canon() {
			return x.T.Less(y.T)
		}
		return x.ID < y.ID
	})
	return nil
}

func (o *runOut) validateOne(c *core.Ctx, ob *engs.Obs) ([]*failure, int, error) {
	outp := ob.Trace + ".bad"
	res, err := runTLC(tlc.Opts{SpecDirs: listSpecDirs(c), Module: "ListTrace", Config: "ListTrace.cfg", Workers: 1,
		Timeout: 25 * time.Minute, HeapMB: 4000, Scratch: c.Work,
		Env: map[string]string{"VERIF_TRACE": ob.Trace, "VERIF_OUT": outp}})
	if err == nil && res.Violation {
		err = fmt.Errorf("specification got stuck after %d of %d lines: %s", res.Diameter-1, ob.Lines, res.ErrText)
	}
	if err != nil {
		return nil, 0, fmt.Errorf("ListTrace on %s: %v", ob.Trace, err)
	}
	// the observation lines, by number (only read again when something was rejected)
	f, err := os.Open(ob.Trace)
	if err != nil {
		return nil, 0, err
	}
	defer f.Close()
	var lines [][]byte
	sc := bufio.NewScanner(f)
	sc.Buffer(make([]byte, 1<<20), 1<<28)
	for sc.Scan() {
		b := sc.Bytes()
		if bytes.Contains(b, []byte(`"k":"lstat"`)) {
			var st struct{ Evals int }
			if json.Unmarshal(b, &st) == nil {
				o.addEvals(st.Evals)
			}
		}
		if bytes.Contains(b, []byte(`"im":true`)) {
			o.countMod(b)
		}
		if bytes.Contains(b, []byte(`"k":"ldyn"`)) {
			var d struct {
				ID string  `json:"id"`
				Ls [][]int `json:"ls"`
			}
			if json.Unmarshal(b, &d) == nil {
				statMu.Lock()
				o.Dyn[d.ID] = d.Ls
				statMu.Unlock()
			}
		}
		lines = append(lines, append([]byte(nil), b...))
	}
	if err := sc.Err(); err != nil {
		return nil, 0, err
	}
	data, err := os.ReadFile(outp)
	if err != nil {
		return nil, 0, fmt.Errorf("ListTrace wrote no verdict file: %v", err)
	}
	var fails []*failure
	for _, l := range bytes.Split(bytes.TrimSpace(data), []byte("\n")) {
		if len(bytes.TrimSpace(l)) == 0 {
			continue
		}
		var b lbad
		if err := json.Unmarshal(l, &b); err != nil {
			return nil, 0, fmt.Errorf("verdict line: %v", err)
		}
		if strings.HasPrefix(b.Law, "MALFORMED") {
			return nil, 0, fmt.Errorf("observation file %s rejected at line %d (%s): %s", ob.Trace, b.L, b.ID, b.Law)
		}
		if b.L < 1 || b.L > len(lines) {
			return nil, 0, fmt.Errorf("verdict refers to line %d of %d", b.L, len(lines))
		}
		fl, err := o.describe(&b, lines[b.L-1])
		if err != nil {
			return nil, 0, err
		}
		fails = append(fails, fl)
	}
	return fails, res.Distinct, nil
}

var statMu sync.Mutex

func (o *runOut) addEvals(n int) { statMu.Lock(); o.Evals += n; statMu.Unlock() }

func (o *runOut) countMod(line []byte) {
	var h struct {
		Op string                   `json:"op"`
		Rs []map[string]interface{} `json:"rs"`
	}
	if json.Unmarshal(line, &h) != nil {
		return
	}
	n := 0
	for _, r := range h.Rs {
		if im, _ := r["im"].(bool); im {
			n++
		}
	}
	statMu.Lock()
	o.InputsMod[h.Op] += n
	statMu.Unlock()
}

// extendPool appends TLC's extra pool entries to the case line the driver
// materialises and ListTrace re-derives (Ev.pool = XPool(Ev.t)).
func extendPool(cs *engs.Case, extra []json.RawMessage) error {
	if len(extra) == 0 {
		return nil
	}
	var line map[string]json.RawMessage
	if err := json.Unmarshal(cs.Raw, &line); err != nil {
		return err
	}
	var pool []json.RawMessage
	if err := json.Unmarshal(line["pool"], &pool); err != nil {
		return err
	}
	for _, e := range extra {
		var pe engs.PoolEntry
		if err := json.Unmarshal(e, &pe); err != nil {
			return err
		}
		pool = append(pool, e)
		cs.Pool = append(cs.Pool, pe)
	}
	np, err := json.Marshal(pool)
	if err != nil {
		return err
	}
	line["pool"] = np
	raw, err := json.Marshal(line)
	if err != nil {
		return err
	}
	cs.Raw = raw
	return nil
}
