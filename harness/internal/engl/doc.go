// Package engl is engine S, ordering and set/list helpers (spec/list): C13, C14.
package engl
