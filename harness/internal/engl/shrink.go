package engl

import (
	"fmt"
	"sort"

	"verif/harness/internal/core"
	"verif/harness/internal/engs"
)

type lwitness struct {
	Witness, Detail string
	Replay          interface{}
}

// evalRes: what is known about one element type term.
type evalRes struct {
	T         *engs.Type
	wf, built bool
	fails     map[string]*failure // law -> smallest failing input seen
	canonical bool                // run on the shrinker's fixed list selection
	slots     []int
}

// shrinker reduces every failing (element type, law) to a minimal element
// type with the same rejected law (engs.Reductions: one-step simplifications,
// lazy exact greedy descent, memoised by NormKey), re-running the whole
// pipeline (TLC export, REAL goderive, real generated code, TLC validation) on
// the candidates of each round; the input reported is the smallest failing
// one of a seed-independent list selection.
type shrinker struct {
	c                     *core.Ctx
	bin, prop             string
	mc                    *mcResult
	cache                 map[string]*evalRes
	sel                   *selection
	rounds, ran, goderive int
}

func newShrinker(c *core.Ctx, bin, prop string, mc *mcResult) *shrinker {
	return &shrinker{c: c, bin: bin, prop: prop, mc: mc, cache: map[string]*evalRes{}}
}

func (s *shrinker) record(o *runOut, canonical bool) {
	built := map[string]bool{}
	for _, b := range o.R.Built {
		for _, cs := range b.Cases {
			built[cs.ID] = true
		}
	}
	for _, cs := range o.R.Cases {
		k := cs.T.NormKey()
		old := s.cache[k]
		e := &evalRes{T: cs.T, wf: true, built: built[cs.ID], fails: map[string]*failure{}, canonical: canonical}
		if o.Data != nil {
			e.slots = o.Data.Slots[cs.ID]
		}
		if old != nil && !canonical {
			continue
		}
		s.cache[k] = e
	}
	for _, t := range o.R.Rejected {
		s.cache[t.NormKey()] = &evalRes{T: t, fails: map[string]*failure{}, canonical: true}
	}
	for _, f := range o.Fails {
		e := s.cache[f.T.NormKey()]
		if e == nil || e.canonical != canonical {
			continue
		}
		if old, ok := e.fails[f.Law]; !ok || f.Size < old.Size {
			e.fails[f.Law] = f
		}
	}
}

func (s *shrinker) seed(o *runOut) { s.record(o, false) }

func (s *shrinker) evaluate(types []*engs.Type) error {
	if len(types) == 0 {
		return nil
	}
	s.rounds++
	s.ran += len(types)
	ids := make([]string, len(types))
	for i := range types {
		ids[i] = fmt.Sprintf("X%dx%d", s.rounds, i+1)
	}
	o, err := runTypes(s.c, s.bin, s.prop, fmt.Sprintf("shr%d", s.rounds), ids, types, s.sel, true)
	if err != nil {
		return err
	}
	s.goderive += o.R.Build.Goderive
	s.record(o, true)
	return nil
}

type shrinkItem struct {
	cur     *engs.Type
	law     string
	done    bool
	visited map[string]bool
}

func (s *shrinker) shrinkAll(fails []*failure) ([]lwitness, error) {
	if len(fails) == 0 {
		return nil, nil
	}
	// the fixed selection, plus the smallest failing input of every law of the main run
	sel, err := selectLists(s.mc, 0, 0, 0, false, s.prop == "C14")
	if err != nil {
		return nil, err
	}
	smallest := map[string]*failure{}
	for _, f := range fails {
		if old, ok := smallest[f.Law]; !ok || f.Size < old.Size {
			smallest[f.Law] = f
		}
	}
	var laws []string
	for l := range smallest {
		laws = append(laws, l)
	}
	sort.Strings(laws)
	for _, l := range laws {
		ls := smallest[l].Lists
		if len(ls) > 0 && (ls[0].Pool || ls[len(ls)-1].Pool) {
			continue // chosen by the driver at run time: every run derives them again
		}
		switch len(ls) {
		case 1:
			sel.add(ls[0])
		case 2:
			sel.addPair(ls[0], ls[1])
		}
	}
	s.sel = sel
	var items []*shrinkItem
	seen := map[string]bool{}
	for _, f := range fails {
		k := f.T.NormKey() + "|" + f.Law
		if !seen[k] {
			seen[k] = true
			items = append(items, &shrinkItem{cur: f.T, law: f.Law, visited: map[string]bool{f.T.NormKey(): true}})
		}
	}
	const perRound = 6
	for round := 0; round < 60; round++ {
		need := map[string]*engs.Type{}
		active := 0
		for _, it := range items {
			if it.done {
				continue
			}
			active++
			for moved := true; moved; {
				moved = false
				unknown := 0
				var best *engs.Type
				for _, cd := range candidates(it.cur, it.visited) { // smallest first
					e, ok := s.cache[cd.NormKey()]
					if !ok {
						need[cd.NormKey()] = cd
						unknown++
						if unknown >= perRound {
							break
						}
						continue
					}
					if !e.wf || !e.built {
						continue
					}
					if _, bad := e.fails[it.law]; bad {
						best = cd
						break
					}
				}
				switch {
				case unknown > 0:
				case best != nil:
					it.cur, moved = best, true
					it.visited[best.NormKey()] = true
				default:
					it.done = true
				}
			}
		}
		if active == 0 {
			break
		}
		var batch []*engs.Type
		for _, t := range need {
			batch = append(batch, t)
		}
		sort.Slice(batch, func(a, b int) bool { return batch[a].Less(batch[b]) })
		if err := s.evaluate(batch); err != nil {
			return nil, err
		}
	}
	// the minimal types on the fixed selection: a seed-independent smallest input
	var again []*engs.Type
	dup := map[string]bool{}
	for _, it := range items {
		k := it.cur.NormKey()
		if e := s.cache[k]; e != nil && !e.canonical && !dup[k] {
			dup[k] = true
			again = append(again, it.cur)
		}
	}
	sort.Slice(again, func(a, b int) bool { return again[a].Less(again[b]) })
	prev := map[string]*evalRes{}
	for _, t := range again {
		prev[t.NormKey()] = s.cache[t.NormKey()]
	}
	if err := s.evaluate(again); err != nil {
		return nil, err
	}
	byWit := map[string]*lwitness{}
	count := map[string]int{}
	var keys []string
	for _, it := range items {
		k := it.cur.NormKey()
		f := s.cache[k].fails[it.law]
		if f == nil && prev[k] != nil { // not reproduced on the fixed selection: keep the main run's input
			f = prev[k].fails[it.law]
		}
		if f == nil {
			return nil, fmt.Errorf("shrinker lost the failure %q of %s", it.law, it.cur.String())
		}
		w := f.witness()
		count[w]++
		if _, ok := byWit[w]; ok {
			continue
		}
		keys = append(keys, w)
		byWit[w] = &lwitness{Witness: w,
			Detail: fmt.Sprintf("minimal element type %s (abstract term %s); operation %s; smallest rejected input: %s; slots a,a',b,b',c,c' = pool%v; record %v; %d rejected records on this type",
				f.T.String(), f.T.Canon(), f.Op, f.Input, s.cache[k].slots, f.Rec, f.N),
			Replay: map[string]interface{}{"element_type": f.T, "law": f.Law, "operation": f.Op, "input": f.Input, "slots": s.cache[k].slots, "record": f.Rec}}
	}
	sort.Strings(keys)
	var out []lwitness
	for _, k := range keys {
		w := byWit[k]
		w.Detail = fmt.Sprintf("%d failing (element type, law) cases shrink to this witness; %s", count[k], w.Detail)
		out = append(out, *w)
	}
	return out, nil
}
