package engl

import (
	_ "embed"
	"encoding/json"
	"fmt"
	"strings"

	"verif/harness/internal/engs"
)

//go:embed drv/ltypes.go.txt
var ltypesSrc string

//go:embed drv/lrun.go.txt
var lrunSrc string

//go:embed drv/lops.go.txt
var lopsSrc string

// goComparable: the Go type of t may be a map key / compared with ==.
func goComparable(t *engs.Type) bool {
	switch t.K {
	case "basic", "named", "ptr":
		return true
	case "array":
		return goComparable(t.E)
	case "struct":
		for _, f := range t.Fields {
			if !goComparable(f.T) {
				return false
			}
		}
		return true
	}
	return false
}

// Only the two-argument forms of Equal / Compare are observed here (the
// curried forms are C02 / C03's business).
var (
	callEqBin = engs.Call{Name: "eq", Site: func(id, x string) string {
		return fmt.Sprintf("\tregistry[%[1]q].eq = func(a, b interface{}) bool { return deriveEqual%[1]s(a.(%[2]s), b.(%[2]s)) }\n", id, x)
	}}
	callCmpBin = engs.Call{Name: "cmp", Site: func(id, x string) string {
		return fmt.Sprintf("\tregistry[%[1]q].cmp = func(a, b interface{}) int { return deriveCompare%[1]s(a.(%[2]s), b.(%[2]s)) }\n", id, x)
	}}
)

type siteDef struct {
	field, tmpl string
	needCmp     bool // only for Go-comparable element types (map keys)
}

// %[1]s = case id, %[2]s = Go type expression of the element type.
var c13Sites = []siteDef{
	{"sort", "func(l interface{}) interface{} { return deriveSort%[1]s(l.([]%[2]s)) }", false},
	{"keys", "func(m interface{}) interface{} { return deriveKeys%[1]s(m.(map[%[2]s]bool)) }", true},
	{"minl", "func(l, d interface{}) interface{} { return deriveMinL%[1]s(l.([]%[2]s), d.(%[2]s)) }", false},
	{"maxl", "func(l, d interface{}) interface{} { return deriveMaxL%[1]s(l.([]%[2]s), d.(%[2]s)) }", false},
	{"min2", "func(a, b interface{}) interface{} { return deriveMinV%[1]s(a.(%[2]s), b.(%[2]s)) }", false},
	{"max2", "func(a, b interface{}) interface{} { return deriveMaxV%[1]s(a.(%[2]s), b.(%[2]s)) }", false},
}

var c14Sites = []siteDef{
	{"contains", "func(l, it interface{}) bool { return deriveContains%[1]s(l.([]%[2]s), it.(%[2]s)) }", false},
	{"unique", "func(l interface{}) interface{} { return deriveUnique%[1]s(l.([]%[2]s)) }", false},
	{"set", "func(l interface{}) interface{} { return deriveSet%[1]s(l.([]%[2]s)) }", true},
	{"union", "func(a, b interface{}) interface{} { return deriveUnion%[1]s(a.([]%[2]s), b.([]%[2]s)) }", false},
	{"intersect", "func(a, b interface{}) interface{} { return deriveIntersect%[1]s(a.([]%[2]s), b.([]%[2]s)) }", false},
	{"unionm", "func(a, b interface{}) interface{} { return deriveUnionM%[1]s(a.(map[%[2]s]struct{}), b.(map[%[2]s]struct{})) }", true},
	{"intersectm", "func(a, b interface{}) interface{} { return deriveIntersectM%[1]s(a.(map[%[2]s]struct{}), b.(map[%[2]s]struct{})) }", true},
	{"filter", "func(p func(interface{}) bool, l interface{}) interface{} { return deriveFilter%[1]s(func(x %[2]s) bool { return p(x) }, l.([]%[2]s)) }", false},
	{"takewhile", "func(p func(interface{}) bool, l interface{}) interface{} { return deriveTakeWhile%[1]s(func(x %[2]s) bool { return p(x) }, l.([]%[2]s)) }", false},
	{"all", "func(p func(interface{}) bool, l interface{}) bool { return deriveAll%[1]s(func(x %[2]s) bool { return p(x) }, l.([]%[2]s)) }", false},
	{"any", "func(p func(interface{}) bool, l interface{}) bool { return deriveAny%[1]s(func(x %[2]s) bool { return p(x) }, l.([]%[2]s)) }", false},
}

// listCall builds the engs.Call emitting the derive call sites of one
// property for the cases of one pipeline run (byID: case id -> element type;
// only selects which sites make sense for the Go type).
func listCall(prop string, byID map[string]*engs.Type) engs.Call {
	sites := c13Sites
	if prop == "C14" {
		sites = c14Sites
	}
	return engs.Call{Name: strings.ToLower(prop), Site: func(id, x string) string {
		var b strings.Builder
		t := byID[id]
		for _, s := range sites {
			if s.needCmp && (t == nil || !goComparable(t)) {
				continue
			}
			fmt.Fprintf(&b, "\tlfns(%q).%s = %s\n", id, s.field, fmt.Sprintf(s.tmpl, id, x))
		}
		return b.String()
	}}
}

func propCalls(prop string, byID map[string]*engs.Type) []engs.Call {
	if prop == "C13" {
		return []engs.Call{callCmpBin, listCall(prop, byID)}
	}
	// derived Hash: only lets the driver pick hash-colliding, non-Equal values as extra Unique inputs
	return []engs.Call{callEqBin, engs.CallHash, listCall(prop, byID)}
}

// pkgOpts: the call sites plus the runner sources and the run's list data
// (abstract lists, pairs, per-type slot binding) as a Go string constant.
func pkgOpts(prop string, byID map[string]*engs.Type, d *listData) (engs.PkgOpts, error) {
	js, err := json.Marshal(d)
	if err != nil {
		return engs.PkgOpts{}, err
	}
	if strings.Contains(string(js), "`") {
		return engs.PkgOpts{}, fmt.Errorf("list data contains a back quote")
	}
	return engs.PkgOpts{
		Calls: propCalls(prop, byID),
		Extra: map[string]string{
			"ltypes.go":   ltypesSrc,
			"zz_lrun.go":  lrunSrc,
			"zz_lops.go":  lopsSrc,
			"zz_ldata.go": "package main\n\nconst lDataJSON = `" + string(js) + "`\n",
		},
		ScreenExtra: map[string]string{"ltypes.go": ltypesSrc},
	}, nil
}
