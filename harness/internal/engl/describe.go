package engl

import (
	"encoding/json"
	"fmt"
	"strings"
)

func num(v interface{}) int {
	f, _ := v.(float64)
	return int(f)
}

// describe picks the smallest rejected record of a "lop" line (shortest
// lists, then first in the fixed execution order) and renders its input in
// terms of the abstract slots: a, b, c = Equal-classes (a: zero / nil, b: the
// rich base value, c: a third class), x' = a second, Equal but not identical
// representative.
func (o *runOut) describe(b *lbad, line []byte) (*failure, error) {
	var h struct {
		Op string                   `json:"op"`
		ID string                   `json:"id"`
		Rs []map[string]interface{} `json:"rs"`
	}
	if err := json.Unmarshal(line, &h); err != nil {
		return nil, fmt.Errorf("observation line %d: %v", b.L, err)
	}
	if h.ID != b.ID || h.Op != b.Op || len(b.Fails) == 0 {
		return nil, fmt.Errorf("verdict %+v does not match observation line %d (%s %s)", *b, b.L, h.ID, h.Op)
	}
	cs := o.R.ByID[b.ID]
	if cs == nil {
		return nil, fmt.Errorf("verdict for unknown case %s", b.ID)
	}
	slots := o.Data.Slots[b.ID]
	slotOf := func(pool int) string {
		for i, p := range slots {
			if p == pool {
				return slotNames[i]
			}
		}
		return fmt.Sprintf("pool[%d]", pool)
	}
	statMu.Lock()
	dyn := o.Dyn[b.ID]
	statMu.Unlock()
	list := func(r map[string]interface{}, f string) (lList, bool) {
		v, ok := r[f]
		if !ok {
			return lList{}, false
		}
		i := num(v) - 1
		if i >= len(o.Data.Singles) && i-len(o.Data.Singles) < len(dyn) {
			return lList{Es: dyn[i-len(o.Data.Singles)], Pool: true}, true
		}
		if i < 0 || i >= len(o.Data.Singles) {
			return lList{}, false
		}
		return o.Data.Singles[i], true
	}
	best, bestSize := -1, 0
	for _, n := range b.Fails {
		if n < 1 || n > len(h.Rs) {
			return nil, fmt.Errorf("verdict refers to record %d of %d (line %d)", n, len(h.Rs), b.L)
		}
		size := 0
		for _, f := range []string{"a", "b"} {
			if l, ok := list(h.Rs[n-1], f); ok {
				size += 2*len(l.Es) + l.Extra
				if l.Nl {
					size++
				}
			}
		}
		if best < 0 || size < bestSize {
			best, bestSize = n, size
		}
	}
	r := h.Rs[best-1]
	fl := &failure{ID: b.ID, T: cs.T, Op: b.Op, Law: b.Law, N: len(b.Fails), Size: bestSize, Rec: r}
	show := func(l lList) string {
		if l.Pool {
			names := make([]string, len(l.Es))
			for i, e := range l.Es {
				names[i] = slotOf(e)
			}
			return "[" + strings.Join(names, " ") + "]"
		}
		s := renderList(l)
		if l.Extra > 0 {
			s += fmt.Sprintf("(cap+%d)", l.Extra)
		}
		return s
	}
	la, okA := list(r, "a")
	lb, okB := list(r, "b")
	if okA {
		fl.Lists = append(fl.Lists, la)
	}
	if okB {
		fl.Lists = append(fl.Lists, lb)
	}
	switch b.Op {
	case "min", "max":
		fl.Input = "list " + show(la) + " default " + slotOf(num(r["d"]))
	case "min2", "max2":
		fl.Input = "arguments " + slotOf(num(r["x"])) + " " + slotOf(num(r["y"]))
	case "contains":
		fl.Input = "list " + show(la) + " item " + slotOf(num(r["it"]))
	case "union", "intersect":
		fl.Input = "lists " + show(la) + " " + show(lb)
	case "unionm", "intersectm":
		fl.Input = "key lists " + show(la) + " " + show(lb)
	case "keys":
		fl.Input = "key list " + show(la)
	case "filter", "takewhile", "all", "any":
		pn := "?"
		if pi := num(r["pi"]); pi >= 1 && pi <= len(predNames) {
			pn = predNames[pi-1]
		}
		fl.Input = "list " + show(la) + " predicate " + pn
	default:
		fl.Input = "list " + show(la)
	}
	return fl, nil
}

func (f *failure) witness() string {
	return f.Law + " :: element type " + f.T.String() + " :: " + f.Input
}
