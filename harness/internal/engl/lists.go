package engl

import (
	"encoding/json"
	"fmt"
	"math/rand"
	"os"
	"path/filepath"
	"sort"
	"strings"
	"time"

	"verif/harness/internal/core"
	"verif/harness/internal/engs"
	"verif/harness/internal/tlc"
)

// runTLC: tlc.Run, retried when the copied specification does not parse --
// spec/sem belongs to another engine and may be caught in the middle of an edit.
func runTLC(o tlc.Opts) (*tlc.Result, error) {
	var res *tlc.Result
	var err error
	for try := 0; try < 4; try++ {
		res, err = tlc.Run(o)
		if err == nil || !strings.Contains(err.Error(), "Parsing or semantic analysis failed") {
			return res, err
		}
		time.Sleep(10 * time.Second)
	}
	return res, err
}

func listSpecDirs(c *core.Ctx) []string {
	return []string{engs.SpecDir(c), filepath.Join(c.Verif, "spec", "list")}
}

// lList is one abstract list over the slots 1..6 (= 2*(class-1)+rep) of
// ListMC, plus how it is materialised (nil slice, spare capacity).
type lList struct {
	Nl    bool  `json:"nl"`
	Extra int   `json:"extra"`
	Es    []int `json:"es"`
	Pool  bool  `json:"-"` // Es are pool indices (a list the driver chose at run time), not slots
}

// listData is what the driver package gets compiled in (zz_ldata.go).
type listData struct {
	Slots   map[string][]int `json:"slots"` // case id -> pool indices of the 6 slots
	Singles []lList          `json:"singles"`
	Pairs   [][2]int         `json:"pairs"` // 0-based indices into Singles
	Defs    []int            `json:"defs"`  // slots used as Min/Max defaults
	Preds   [][]int          `json:"preds"` // per predicate: slots on which it is true
}

var (
	predNames = []string{"always", "never", "class-b", "first-representatives"}
	predSlots = [][]int{{1, 2, 3, 4, 5, 6}, {}, {3, 4}, {1, 3, 5}}
	defSlots  = []int{2, 3, 6}
	slotNames = []string{"a", "a'", "b", "b'", "c", "c'"}
)

// mcResult: the TLC model check of the design (ListMC) and its exported lists.
type mcResult struct {
	States, Transitions int
	Wall                time.Duration
	Lists               [][]int // canonical order: by length, then lexicographic
}

func lessList(a, b []int) bool {
	if len(a) != len(b) {
		return len(a) < len(b)
	}
	for i := range a {
		if a[i] != b[i] {
			return a[i] < b[i]
		}
	}
	return false
}

// runListMC model-checks the implementation-shaped transcriptions of the
// templates against ListSem on the bounded universe and reads the list cases
// TLC exported. A violated invariant is a specification error (or a lead).
func runListMC(c *core.Ctx, bound, workers int) (*mcResult, error) {
	out := filepath.Join(c.Work, "lists.ndjson")
	os.Remove(out)
	res, err := runTLC(tlc.Opts{SpecDirs: listSpecDirs(c), Module: "ListMC", Config: "ListMC.cfg", Workers: workers,
		Timeout: 20 * time.Minute, HeapMB: 4000, Scratch: c.Work,
		Env: map[string]string{"VERIF_OUT": out, "VERIF_MCB": fmt.Sprint(bound)}})
	if err != nil {
		return nil, err
	}
	if res.Violation {
		return nil, fmt.Errorf("ListMC: the transcribed templates violate a law of ListSem on the bounded universe (lead or specification error): %s", res.ErrText)
	}
	data, err := os.ReadFile(out)
	if err != nil {
		return nil, err
	}
	mc := &mcResult{States: res.Distinct, Transitions: res.Generated, Wall: res.Wall}
	for _, l := range strings.Split(strings.TrimSpace(string(data)), "\n") {
		var r struct {
			Es []int `json:"es"`
		}
		if err := json.Unmarshal([]byte(l), &r); err != nil {
			return nil, fmt.Errorf("list case line: %v", err)
		}
		if r.Es == nil {
			r.Es = []int{}
		}
		mc.Lists = append(mc.Lists, r.Es)
	}
	sort.Slice(mc.Lists, func(a, b int) bool { return lessList(mc.Lists[a], mc.Lists[b]) })
	return mc, nil
}

// fixed patterns beyond length 2: sorted, reversed, rotated, duplicates,
// Equal-but-not-identical neighbours, duplicates after a gap (a position that
// an in-place compaction has overwritten), all six slots.
var patternLists = [][]int{
	{1, 3, 5}, {5, 3, 1}, {3, 1, 5}, {3, 4, 3}, {4, 3, 3}, {5, 6, 5}, {1, 2, 1},
	{5, 5, 1, 1}, {1, 3, 5, 3}, {3, 5, 6, 4}, {1, 3, 4, 6}, {6, 4, 2, 1},
	{1, 1, 3, 5, 3}, {3, 3, 1, 5, 1}, {5, 3, 1, 3, 5}, {5, 5, 3, 1, 3}, {1, 3, 5, 1, 3, 5}, {5, 5, 3, 3, 1, 1},
}

var patternPairs = [][2][]int{
	{{3}, {4}}, {{3, 5}, {4, 1}}, {{3, 3}, {3}}, {{1, 3}, {3, 5, 5}}, {{3}, {5, 5}}, {{3}, {5, 6}}, {{3, 4}, {5, 6, 5}},
	{{1, 3, 5}, {5, 3, 1}}, {{3, 5}, {1}}, {{5}, {3, 5, 1}}, {{4, 6}, {3, 5}}, {{3, 5, 1}, {6, 6}}, {{1, 3}, {}}, {{}, {3, 3, 4}},
}

// selection of the lists one pipeline run executes.
type selection struct {
	Singles []lList
	Pairs   [][2]int
	index   map[string]int
}

func key(l lList) string { return fmt.Sprint(l.Nl, l.Extra, l.Es) }

func (s *selection) add(l lList) int {
	if i, ok := s.index[key(l)]; ok {
		return i
	}
	if l.Es == nil {
		l.Es = []int{}
	}
	s.index[key(l)] = len(s.Singles)
	s.Singles = append(s.Singles, l)
	return len(s.Singles) - 1
}

func (s *selection) addPair(a, b lList) {
	i, j := s.add(a), s.add(b)
	for _, p := range s.Pairs {
		if p == [2]int{i, j} {
			return
		}
	}
	s.Pairs = append(s.Pairs, [2]int{i, j})
}

// selectLists: the seed-independent core (every list of length <= 2, nil and
// empty, spare capacity, the fixed patterns; every pair of lists of length
// <= 1 and the fixed pattern pairs), plus -- seeded -- nRand longer lists
// drawn from TLC's exported universe and nPairs pairs. full (thorough tier):
// every list of length <= 3 and every pair of lists of length <= 2 one of
// which has length <= 1.
func selectLists(mc *mcResult, seed int64, nRand, nPairs int, full, withPairs bool) (*selection, error) {
	s := &selection{index: map[string]int{}}
	known := map[string]bool{}
	for _, l := range mc.Lists {
		known[fmt.Sprint(l)] = true
	}
	s.add(lList{Nl: true})
	maxLen := 2
	if full {
		maxLen = 3
	}
	var short [][]int
	for _, l := range mc.Lists {
		if len(l) <= maxLen {
			s.add(lList{Es: l})
		}
		if len(l) <= 1 {
			s.add(lList{Es: l, Extra: 2})
		}
		if len(l) <= 2 {
			short = append(short, l)
		}
	}
	for _, p := range patternLists {
		if !known[fmt.Sprint(p)] {
			return nil, fmt.Errorf("pattern list %v is not in the universe TLC model-checked", p)
		}
		s.add(lList{Es: p})
	}
	rng := rand.New(rand.NewSource(seed*104729 + 7))
	var long [][]int
	for _, l := range mc.Lists {
		if len(l) > maxLen {
			long = append(long, l)
		}
	}
	for i := 0; i < nRand && len(long) > 0; i++ {
		s.add(lList{Es: long[rng.Intn(len(long))], Extra: 2 * rng.Intn(2)})
	}
	if !withPairs {
		return s, nil
	}
	for _, a := range short {
		for _, b := range short {
			if (full && (len(a) <= 1 || len(b) <= 1)) || (len(a) <= 1 && len(b) <= 1) {
				s.addPair(lList{Es: a}, lList{Es: b})
			}
		}
	}
	s.addPair(lList{Nl: true}, lList{Es: []int{3}})
	s.addPair(lList{Es: []int{3}}, lList{Nl: true})
	s.addPair(lList{Nl: true}, lList{Nl: true})
	for _, p := range patternPairs {
		if !known[fmt.Sprint(p[0])] || !known[fmt.Sprint(p[1])] {
			return nil, fmt.Errorf("pattern pair %v is not in the universe TLC model-checked", p)
		}
		s.addPair(lList{Es: p[0]}, lList{Es: p[1]})
	}
	// seeded pairs among the lists already selected (no further single lists)
	var have []lList
	for _, l := range s.Singles {
		if len(l.Es) <= 4 {
			have = append(have, l)
		}
	}
	for i := 0; i < nPairs; i++ {
		s.addPair(have[rng.Intn(len(have))], have[rng.Intn(len(have))])
	}
	return s, nil
}

func renderList(l lList) string {
	if l.Nl {
		return "nil"
	}
	names := make([]string, len(l.Es))
	for i, e := range l.Es {
		names[i] = slotNames[e-1]
	}
	return "[" + strings.Join(names, " ") + "]"
}
