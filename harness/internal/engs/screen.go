package engs

import (
	"fmt"
	"go/ast"
	"go/importer"
	"go/parser"
	"go/token"
	"go/types"
	"os"
	"path/filepath"
	"strings"
	"sync"
	"time"

	"verif/harness/internal/core"
	"verif/harness/internal/gd"
)

// screener type-checks single-case packages in process (go/types, source
// importer for the standard library). One per worker: not concurrency safe.
type screener struct {
	fset *token.FileSet
	imp  types.Importer
}

type extImporter struct {
	base types.Importer
	ext  *types.Package
}

func (e extImporter) Import(path string) (*types.Package, error) {
	if path == "m/ext" {
		if e.ext == nil {
			return nil, fmt.Errorf("package m/ext does not exist")
		}
		return e.ext, nil
	}
	return e.base.Import(path)
}

func (s *screener) checkDir(dir, name string, imp types.Importer) (*types.Package, error) {
	ents, err := os.ReadDir(dir)
	if err != nil {
		return nil, err
	}
	var files []*ast.File
	for _, e := range ents {
		if e.IsDir() || !strings.HasSuffix(e.Name(), ".go") {
			continue
		}
		f, err := parser.ParseFile(s.fset, filepath.Join(dir, e.Name()), nil, 0)
		if err != nil {
			return nil, err
		}
		files = append(files, f)
	}
	var first error
	conf := types.Config{Importer: imp, Error: func(err error) {
		if first == nil {
			first = err
		}
	}}
	pkg, _ := conf.Check(name, s.fset, files, nil)
	return pkg, first
}

// Screen runs the real goderive on a one-case package for every case and
// type-checks the result (go/types). Cases for which goderive fails or whose
// generated code does not type-check are C01's business: they are returned in
// st.Skipped with the diagnostic, the others are returned for batching.
func Screen(c *core.Ctx, bin, tag string, cases []*Case, o PkgOpts, st *BuildStats) ([]*Case, error) {
	ok := make([]bool, len(cases))
	next := make(chan int, len(cases))
	for i := range cases {
		next <- i
	}
	close(next)
	workers := parOf(1, 2)
	errs := make([]error, workers)
	var wg sync.WaitGroup
	for w := 0; w < workers; w++ {
		wg.Add(1)
		go func(w int) {
			defer wg.Done()
			fset := token.NewFileSet()
			sc := &screener{fset: fset, imp: importer.ForCompiler(fset, "source", nil)}
			for i := range next {
				cs := cases[i]
				dir := filepath.Join(c.Work, "screen", fmt.Sprintf("%s-w%d", tag, w), cs.ID)
				if err := GenPackage(dir, []*Case{cs}, o, true); err != nil {
					errs[w] = err
					return
				}
				st.mu.Lock()
				st.Goderive++
				st.mu.Unlock()
				r, err := gd.Run(c, bin, dir, []string{"."}, "", 60*time.Second)
				if err != nil {
					errs[w] = err
					return
				}
				if r.Exit != 0 {
					st.skip(cs, fmt.Sprintf("goderive exit %d: %s", r.Exit, r.Stderr+r.Stdout))
					os.RemoveAll(dir)
					continue
				}
				var extPkg *types.Package
				if _, err := os.Stat(filepath.Join(dir, "ext")); err == nil {
					extPkg, err = sc.checkDir(filepath.Join(dir, "ext"), "m/ext", sc.imp)
					if err != nil {
						errs[w] = fmt.Errorf("the harness's own package m/ext of %s does not type-check: %v", cs.ID, err)
						return
					}
				}
				if _, err := sc.checkDir(dir, "main", extImporter{sc.imp, extPkg}); err != nil {
					if !strings.Contains(err.Error(), "derived.gen.go") && !strings.Contains(err.Error(), "undefined: derive") {
						errs[w] = fmt.Errorf("the harness's own generated package for %s %s does not type-check: %v", cs.ID, cs.T.String(), err)
						return
					}
					st.skip(cs, "generated code does not type-check: "+err.Error())
					os.RemoveAll(dir)
					continue
				}
				ok[i] = true
				os.RemoveAll(dir)
			}
		}(w)
	}
	wg.Wait()
	for _, e := range errs {
		if e != nil {
			return nil, e
		}
	}
	var good []*Case
	for i, cs := range cases {
		if ok[i] {
			good = append(good, cs)
		}
	}
	return good, nil
}
