package engs

import "encoding/json"

func jsonUnmarshal(b []byte, v interface{}) error { return json.Unmarshal(b, v) }
