package engs

import (
	"fmt"
	"sort"
	"strings"

	"verif/harness/internal/core"
	"verif/harness/internal/gd"
)

func init() {
	core.Register("C02", func(c *core.Ctx) error {
		return checkSem(c, semProp{obsKind: "eq", calls: []Call{CallEq}, fn: "Equal"})
	})
	core.Register("C03", func(c *core.Ctx) error {
		return checkSem(c, semProp{obsKind: "cmp", calls: []Call{CallEq, CallCmp}, fn: "Compare"})
	})
	core.Register("C04", func(c *core.Ctx) error {
		return checkSem(c, semProp{obsKind: "hash", calls: []Call{CallEq, CallHash}, fn: "Hash"})
	})
}

// semProp: which observation kind carries the property's verdicts and which
// call families the generated packages need (Equal is always observed: the
// laws of Compare and Hash refer to the observed derived Equal).
type semProp struct {
	obsKind string
	calls   []Call
	fn      string
}

func tierSizes(c *core.Ctx) (nQuick, nDeep int) {
	if c.Quick() {
		return 80, 12
	}
	return 0, 150
}

func checkSem(c *core.Ctx, sp semProp) error {
	bin, err := gd.Build(c)
	if err != nil {
		return err
	}
	all, err := EnumerateTypes(c, 2)
	if err != nil {
		return err
	}
	nq, nd := tierSizes(c)
	u := SelectUniverse(all, c.Quick(), c.Seed, nq, nd)
	meth, err := EnumerateMethodTypes(c, 2)
	if err != nil {
		return err
	}
	u.AddMethodTypes(meth, c.Quick(), c.Seed, 12)
	o := PkgOpts{Calls: sp.calls}
	r, err := ExportOnly(c, "main", u.IDs, u.Types)
	if err != nil {
		return err
	}
	// model check the reference semantics on exactly the exported universe, concurrently with the real runs
	type mcOut struct {
		mc  *MCResult
		err error
	}
	mcCh := make(chan mcOut, 1)
	runMC := func() {
		mc, err := ModelCheck(c, r.CasesFile, parOf(2, 1))
		mcCh <- mcOut{mc, err}
	}
	serial := Par() <= 8 // small budget: one TLC at a time
	if !serial {
		go runMC()
	}
	if err := r.Conform(c, bin, "main", o, "SemTrace", 64); err != nil {
		if !serial {
			<-mcCh
		}
		return err
	}
	if serial {
		runMC()
	}
	m := <-mcCh
	if m.err != nil {
		return m.err
	}
	if n := len(r.Build.Skipped); n*4 > len(r.Cases) {
		return fmt.Errorf("%d of %d types could not be generated/compiled (more than 25%%): the harness's own package is probably broken; first reasons: %s",
			n, len(r.Cases), strings.Join(r.Build.Reasons, " | "))
	}
	// verdicts
	sh := NewShrinker(c, bin, o, "SemTrace", sp.obsKind)
	sh.Seed(r)
	var mine []Bad
	ndrift := 0
	for _, b := range r.Val.Bad {
		if b.K == "case" {
			return fmt.Errorf("observation file rejected: %s (%s)", b.Law, b.ID)
		}
		if strings.Contains(b.Law, "does not belong to the current case") {
			return fmt.Errorf("observation file malformed: %s (%s line %d)", b.Law, b.ID, b.L)
		}
		if strings.HasPrefix(b.Law, "DRIFT") {
			if b.K == sp.obsKind {
				ndrift++
				if ndrift <= 3 {
					c.Drift(fmt.Sprintf("%s %s: %s; e.g. pool[%d] vs pool[%d], differing in %v", b.ID, r.ByID[b.ID].T.String(), strings.TrimPrefix(b.Law, "DRIFT: "), b.I, b.J, b.Diff))
				}
			}
			continue
		}
		if b.K == sp.obsKind {
			mine = append(mine, b)
		}
	}
	wits, err := sh.ShrinkAll()
	if err != nil {
		return err
	}
	for _, w := range wits {
		for i := 0; i < w.Count; i++ { // one report per failing (type, class) case that shrinks to this witness
			c.Report(w.Witness, w.Detail, w.Replay)
		}
	}
	// drift of the implementation-shaped layer (never a verdict)
	reportDrift(c, sp, r, m.mc, mine)

	evals := 0
	for _, ob := range r.Obs {
		evals += ob.Evals
	}
	built := 0
	for _, b := range r.Built {
		built += len(b.Cases)
	}
	c.Set("states", m.mc.States)
	c.Set("transitions", m.mc.Transitions)
	c.Set("model_check_wall_s", int(m.mc.Wall.Seconds()))
	c.Set("model_leads_types", len(m.mc.Leads))
	c.Set("traces_validated_against_impl", built)
	c.Set("trace_files", r.Val.Files)
	c.Set("observation_lines_validated", r.Val.Lines)
	c.Set("trace_validation_states", r.Val.States)
	c.Set("evaluations", evals)
	c.Set("distinct_nontrivial", built)
	c.Set("types_total", len(r.Cases))
	c.Set("types_core", u.Core)
	c.Set("types_sampled_depth2", u.Sampled)
	c.Set("types_random_depth3", u.Random)
	c.Set("types_with_user_methods", u.Method)
	c.Set("skipped_not_generated", len(r.Build.Skipped))
	c.Set("skipped_reasons", r.Build.Kinds)
	c.Set("goderive_runs", r.Build.Goderive+sh.Build.Goderive)
	c.Set("shrink_rounds", sh.Rounds)
	c.Set("shrink_candidates_run", sh.Ran)
	c.Set("rejected_observation_classes", len(mine))
	c.Set("observation_drift_classes", ndrift)
	c.Set("exhaustive", u.Exhaustive)
	c.Set("phase_seconds", r.Times)
	c.Set("rule", "evaluations = executions of real generated derive"+sp.fn+"/deriveEqual functions on (type, pool[i], pool[j]); "+
		"distinct_nontrivial = distinct type terms (TLC-enumerated TypesUpTo(2), seed-sampled in the quick tier, plus seed-drawn depth-3 terms) whose generated code compiled and whose complete result matrices over Pool(T) TLC validated; "+
		"states/transitions = TLC model check (SemMC) of the reference semantics on the same exported types and pools")
	for _, reason := range r.Build.Reasons {
		c.Warn("skipped (C01's business): " + reason)
	}
	for i := 0; i < 3 && i < len(r.Cases); i++ {
		cs := r.Cases[(i*997+int(c.Seed)*31)%len(r.Cases)]
		c.Sample(map[string]interface{}{"id": cs.ID, "type": cs.T.String(), "pool_size": len(cs.Pool), "first_values": sampleVals(cs, 4)})
	}
	c.Assume("TLC, the Go compiler and runtime, reflect/unsafe materialisation in the driver (self-checked: materialise->project is the identity on every pool value in every run)")
	c.Assume("leaf tokens: Go's == and < on the concrete literals agree with the TLA+ rank table (checked at start-up with plain Go comparisons)")
	c.Assume("NaN and cyclic values are outside the statement; user-declared methods: one fixture family (Equal/Compare/Hash look at the first field only; every receiver x argument form), as components only; where a component's user Compare returns a difference (fixture kind pd) derived Compare legitimately leaves {-1,0,1}: only its sign is judged there")
	return nil
}

func sampleVals(cs *Case, n int) []string {
	var out []string
	for i := 0; i < n && i < len(cs.Pool); i++ {
		out = append(out, cs.Pool[i].Tag+"="+string(cs.Pool[i].V))
	}
	return out
}

// reportDrift compares what the implementation-shaped TLA+ layer predicts
// (leads) with what the real code did. Disagreement is DRIFT, never a verdict.
func reportDrift(c *core.Ctx, sp semProp, r *Result, mc *MCResult, mine []Bad) {
	leadFor := map[string]string{"eq": "EqImpl#Eq", "hash": "HashImpl-differs", "cmp": ""}[sp.obsKind]
	if leadFor == "" {
		return
	}
	real := map[string]bool{}
	for _, b := range mine {
		real[b.ID] = true
	}
	builtIDs := map[string]bool{}
	for _, b := range r.Built {
		for _, cs := range b.Cases {
			builtIDs[cs.ID] = true
		}
	}
	var ids []string
	for id := range builtIDs {
		ids = append(ids, id)
	}
	sort.Strings(ids)
	n := 0
	for _, id := range ids {
		pred := false
		for _, k := range mc.Leads[id] {
			if strings.Contains(k, leadFor) {
				pred = true
			}
		}
		if pred != real[id] {
			n++
			if n <= 3 {
				c.Drift(fmt.Sprintf("%s %s: implementation-shaped model predicts failing=%v, real code failing=%v", id, r.ByID[id].T.String(), pred, real[id]))
			}
		}
	}
	c.Set("model_drift_types", n)
}
