// Package engs is engine S: reference semantics of generated pure functions (spec/sem).
package engs
