package engs

import (
	"bytes"
	"context"
	"encoding/json"
	"fmt"
	"os"
	"os/exec"
	"path/filepath"
	"sort"
	"sync"
	"time"

	"verif/harness/internal/core"
	"verif/harness/internal/tlc"
)

// Obs is the observation file of one built package: per case, the case line
// followed by the observation lines of the driver, ready for a Trace module.
type Obs struct {
	Built *Built
	Trace string // NDJSON path
	Lines int
	Evals int // executions of generated functions
}

func runDriver(c *core.Ctx, b *Built, cases, out, mode string) error {
	ctx, cancel := context.WithTimeout(context.Background(), 5*time.Minute)
	defer cancel()
	cmd := exec.CommandContext(ctx, b.Drv, cases, out, mode)
	cmd.Dir = b.Dir
	cmd.Env = c.GoEnv()
	outb, err := cmd.CombinedOutput()
	if ctx.Err() != nil {
		return fmt.Errorf("driver %s timed out", b.Dir)
	}
	if err != nil {
		return fmt.Errorf("driver %s failed: %v\n%s", b.Dir, err, outb)
	}
	return nil
}

// RunDriver executes the compiled driver of a package twice (the second
// process only re-hashes: cross-process repeatability) and assembles the
// observation file.
func RunDriver(c *core.Ctx, b *Built) (*Obs, error) {
	casesPath := filepath.Join(b.Dir, "cases.ndjson")
	var buf bytes.Buffer
	for _, cs := range b.Cases {
		buf.Write(cs.Raw)
		buf.WriteByte('\n')
	}
	if err := os.WriteFile(casesPath, buf.Bytes(), 0644); err != nil {
		return nil, err
	}
	o1, o2 := filepath.Join(b.Dir, "obs1.ndjson"), filepath.Join(b.Dir, "obs2.ndjson")
	if err := runDriver(c, b, casesPath, o1, "full"); err != nil {
		return nil, err
	}
	if err := runDriver(c, b, casesPath, o2, "hash"); err != nil {
		return nil, err
	}
	l1, err := readLines(o1)
	if err != nil {
		return nil, err
	}
	l2, err := readLines(o2)
	if err != nil {
		return nil, err
	}
	type hdr struct {
		K  string   `json:"k"`
		ID string   `json:"id"`
		H  []string `json:"h"`
	}
	hx := map[string][]string{}
	for _, l := range l2 {
		var h hdr
		if err := json.Unmarshal(l, &h); err != nil {
			return nil, err
		}
		if h.K == "hash" {
			hx[h.ID] = h.H
		}
	}
	type obsLine struct {
		k    string
		line []byte
	}
	byID := map[string][]obsLine{}
	evals := 0
	for _, l := range l1 {
		var h hdr
		if err := json.Unmarshal(l, &h); err != nil {
			return nil, err
		}
		if h.K == "hash" {
			var m map[string]interface{}
			if err := json.Unmarshal(l, &m); err != nil {
				return nil, err
			}
			x, ok := hx[h.ID]
			if !ok {
				return nil, fmt.Errorf("second driver process produced no hash line for %s", h.ID)
			}
			m["hx"] = x
			l, _ = json.Marshal(m)
			evals += 3 * len(h.H)
		}
		byID[h.ID] = append(byID[h.ID], obsLine{h.K, l})
	}
	var tr bytes.Buffer
	n := 0
	for _, cs := range b.Cases {
		obs := byID[cs.ID]
		if len(obs) == 0 {
			return nil, fmt.Errorf("driver produced no observation for %s", cs.ID)
		}
		tr.Write(cs.Raw)
		tr.WriteByte('\n')
		n++
		for _, l := range obs {
			tr.Write(l.line)
			tr.WriteByte('\n')
			n++
			if l.k != "hash" {
				evals += len(cs.Pool) * len(cs.Pool)
			}
		}
	}
	p := filepath.Join(b.Dir, "trace.ndjson")
	if err := os.WriteFile(p, tr.Bytes(), 0644); err != nil {
		return nil, err
	}
	return &Obs{Built: b, Trace: p, Lines: n, Evals: evals}, nil
}

// Bad is one rejected observation class exported by a Trace module.
type Bad struct {
	L    int      `json:"l"`
	ID   string   `json:"id"`
	K    string   `json:"k"`
	Form string   `json:"form"`
	Law  string   `json:"law"`
	Diff []string `json:"diff"`
	I    int      `json:"i"`
	J    int      `json:"j"`
	N    int      `json:"n"`
}

// Class is the failure class: the law and how the two values differ.
func (b *Bad) Class() string {
	d := append([]string(nil), b.Diff...)
	sort.Strings(d)
	return b.Law + " :: differing in {" + joinStr(d, ", ") + "}"
}

func joinStr(ss []string, sep string) string {
	var b bytes.Buffer
	for i, s := range ss {
		if i > 0 {
			b.WriteString(sep)
		}
		b.WriteString(s)
	}
	return b.String()
}

type ValStats struct {
	Files  int
	Lines  int
	States int
	Bad    []Bad
}

// Validate lets TLC judge every observation file against a Trace module of
// spec/sem (module "SemTrace" for C02-C04). An error means TLC could not judge
// (machinery), never a violation.
func Validate(c *core.Ctx, module string, obs []*Obs) (*ValStats, error) {
	obs, err := mergeObs(c, obs, parOf(2, 1))
	if err != nil {
		return nil, err
	}
	st := &ValStats{}
	var mu sync.Mutex
	var wg sync.WaitGroup
	var firstErr error
	sem := make(chan struct{}, parOf(2, 1))
	for _, o := range obs {
		wg.Add(1)
		go func(o *Obs) {
			defer wg.Done()
			sem <- struct{}{}
			defer func() { <-sem }()
			outp := o.Trace + ".bad"
			res, err := tlc.Run(tlc.Opts{SpecDirs: []string{SpecDir(c)}, Module: module, Config: module + ".cfg",
				Workers: 1, Timeout: 20 * time.Minute, HeapMB: 3000, Scratch: c.Work,
				Env: map[string]string{"VERIF_TRACE": o.Trace, "VERIF_OUT": outp}})
			mu.Lock()
			defer mu.Unlock()
			if err == nil && res.Violation {
				err = fmt.Errorf("specification got stuck after %d of %d lines: %s", res.Diameter-1, o.Lines, res.ErrText)
			}
			if err != nil {
				if firstErr == nil {
					firstErr = fmt.Errorf("%s on %s: %v", module, o.Trace, err)
				}
				return
			}
			lines, err := readLines(outp)
			if err != nil {
				if firstErr == nil {
					firstErr = fmt.Errorf("%s wrote no verdict file: %v", module, err)
				}
				return
			}
			for _, l := range lines {
				var b Bad
				if err := json.Unmarshal(l, &b); err != nil {
					if firstErr == nil {
						firstErr = fmt.Errorf("verdict line: %v", err)
					}
					return
				}
				st.Bad = append(st.Bad, b)
			}
			st.Files++
			st.Lines += o.Lines
			st.States += res.Distinct
		}(o)
	}
	wg.Wait()
	if firstErr != nil {
		return nil, firstErr
	}
	sort.Slice(st.Bad, func(a, b int) bool {
		if st.Bad[a].ID != st.Bad[b].ID {
			return st.Bad[a].ID < st.Bad[b].ID
		}
		return st.Bad[a].L < st.Bad[b].L
	})
	return st, nil
}

var mergeSeq int
var mergeMu sync.Mutex

// mergeObs concatenates observation files into at most n chunks (a Trace
// module handles any number of cases per file; one JVM start per chunk).
func mergeObs(c *core.Ctx, obs []*Obs, n int) ([]*Obs, error) {
	if len(obs) <= n {
		return obs, nil
	}
	mergeMu.Lock()
	mergeSeq++
	seq := mergeSeq
	mergeMu.Unlock()
	dir := filepath.Join(c.Work, "val")
	if err := os.MkdirAll(dir, 0755); err != nil {
		return nil, err
	}
	sorted := append([]*Obs(nil), obs...)
	sort.SliceStable(sorted, func(a, b int) bool { return sorted[a].Lines > sorted[b].Lines })
	bufs := make([]bytes.Buffer, n)
	out := make([]*Obs, n)
	for i := range out {
		out[i] = &Obs{Trace: filepath.Join(dir, fmt.Sprintf("m%d-%02d.ndjson", seq, i))}
	}
	for _, o := range sorted {
		k := 0
		for i := range out {
			if out[i].Lines < out[k].Lines {
				k = i
			}
		}
		data, err := os.ReadFile(o.Trace)
		if err != nil {
			return nil, err
		}
		bufs[k].Write(data)
		out[k].Lines += o.Lines
		out[k].Evals += o.Evals
	}
	for i := range out {
		if err := os.WriteFile(out[i].Trace, bufs[i].Bytes(), 0644); err != nil {
			return nil, err
		}
	}
	return out, nil
}
