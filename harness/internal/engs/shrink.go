package engs

import (
	"fmt"
	"sort"
	"strings"

	"verif/harness/internal/core"
)

// evalRes is what is known about one type term after running it through the
// pipeline: was it admitted (well-formed), did its generated code compile, and
// which failure classes did the Trace module report for it.
type evalRes struct {
	T       *Type
	Case    *Case
	WF      bool
	Built   bool
	Classes map[string]Bad // class -> representative rejected observation
}

// Witness is a shrunk, stable description of one failure class.
type Witness struct {
	Witness string
	Detail  string
	Replay  interface{}
	Count   int // failing (type, class) cases of the run that shrink to this witness
}

// Shrinker reduces every failing (type, class) to a minimal type with the
// same class, re-running the whole pipeline (real goderive, real generated
// code, TLC validation) on the candidates of each round. Results are memoised
// by type term, so the types of the main run are never re-run.
type Shrinker struct {
	c       *core.Ctx
	bin     string
	o       PkgOpts
	module  string
	obsKind string
	cache   map[string]*evalRes
	Build   *BuildStats
	Rounds  int
	Ran     int
}

func NewShrinker(c *core.Ctx, bin string, o PkgOpts, module, obsKind string) *Shrinker {
	return &Shrinker{c: c, bin: bin, o: o, module: module, obsKind: obsKind, cache: map[string]*evalRes{}, Build: &BuildStats{}}
}

// Seed memoises the outcome of a finished pipeline run.
func (s *Shrinker) Seed(r *Result) {
	built := map[string]bool{}
	for _, b := range r.Built {
		for _, cs := range b.Cases {
			built[cs.ID] = true
		}
	}
	for _, cs := range r.Cases {
		s.cache[cs.T.NormKey()] = &evalRes{T: cs.T, Case: cs, WF: cs.WF, Built: built[cs.ID], Classes: map[string]Bad{}}
	}
	if r.Val == nil {
		return
	}
	for _, b := range r.Val.Bad {
		if b.K != s.obsKind || strings.HasPrefix(b.Law, "DRIFT") {
			continue
		}
		cs := r.ByID[b.ID]
		if cs == nil {
			continue
		}
		e := s.cache[cs.T.NormKey()]
		if _, ok := e.Classes[b.Class()]; !ok {
			e.Classes[b.Class()] = b
		}
	}
}

func (s *Shrinker) evaluate(types []*Type) error {
	if len(types) == 0 {
		return nil
	}
	s.Rounds++
	s.Ran += len(types)
	ids := make([]string, len(types))
	for i := range types {
		ids[i] = fmt.Sprintf("X%dx%d", s.Rounds, i+1)
	}
	tag := fmt.Sprintf("shr%d", s.Rounds)
	r, err := ExportLenient(s.c, tag, ids, types)
	if err != nil {
		return err
	}
	if err := r.Conform(s.c, s.bin, tag, s.o, s.module, 48); err != nil {
		return err
	}
	s.Build.Goderive += r.Build.Goderive
	s.Build.Builds += r.Build.Builds
	s.Seed(r)
	for _, t := range r.Rejected { // not well-formed: remember, never retry
		s.cache[t.NormKey()] = &evalRes{T: t, Classes: map[string]Bad{}}
	}
	return nil
}

type shrinkItem struct {
	cur   *Type
	class string
	orig  *Type
	done  bool
}

// ShrinkAll shrinks every (type, class) among the rejected observations and
// returns one witness per distinct minimal (type, class).
func (s *Shrinker) ShrinkAll() ([]Witness, error) {
	var items []*shrinkItem
	seen := map[string]bool{}
	origCount := map[string]int{}
	for _, e := range s.cache {
		for class := range e.Classes {
			k := e.T.NormKey() + "|" + class
			if !seen[k] {
				seen[k] = true
				items = append(items, &shrinkItem{cur: e.T, class: class, orig: e.T})
			}
		}
	}
	sort.Slice(items, func(a, b int) bool {
		if items[a].class != items[b].class {
			return items[a].class < items[b].class
		}
		return items[a].cur.Less(items[b].cur)
	})
	// Lazy, exact greedy descent: the candidates of an item are scanned in
	// increasing order; it moves to the first candidate known to fail with the
	// same class, but only once every smaller candidate is known not to.
	const perRound = 6
	for round := 0; round < 200; round++ {
		need := map[string]*Type{}
		active := 0
		for _, it := range items {
			if it.done {
				continue
			}
			active++
			for moved := true; moved; {
				moved = false
				unknown := 0
				var best *Type
				for _, cd := range Reductions(it.cur) { // sorted: smallest first
					e, ok := s.cache[cd.NormKey()]
					if !ok {
						need[cd.NormKey()] = cd
						unknown++
						if unknown >= perRound {
							break
						}
						continue
					}
					if !e.WF || !e.Built {
						continue
					}
					if _, fails := e.Classes[it.class]; fails {
						best = cd
						break
					}
				}
				switch {
				case unknown > 0: // wait for this round's evaluation
				case best != nil:
					it.cur = best
					moved = true
				default:
					it.done = true
				}
			}
		}
		if active == 0 {
			break
		}
		if len(need) == 0 {
			continue
		}
		var batch []*Type
		for _, t := range need {
			batch = append(batch, t)
		}
		sort.Slice(batch, func(a, b int) bool { return batch[a].Less(batch[b]) })
		if err := s.evaluate(batch); err != nil {
			return nil, err
		}
	}
	byWit := map[string]*Witness{}
	var keys []string
	for _, it := range items {
		w := it.class + " :: " + it.cur.String()
		origCount[w]++
		if _, ok := byWit[w]; ok {
			continue
		}
		e := s.cache[it.cur.NormKey()]
		b := e.Classes[it.class]
		detail, replay := describe(e, b)
		byWit[w] = &Witness{Witness: w, Detail: detail, Replay: replay}
		keys = append(keys, w)
	}
	sort.Strings(keys)
	var out []Witness
	for _, k := range keys {
		w := byWit[k]
		w.Count = origCount[k]
		w.Detail = fmt.Sprintf("%d failing (type, class) cases shrink to this witness; %s", origCount[k], w.Detail)
		out = append(out, *w)
	}
	return out, nil
}

func describe(e *evalRes, b Bad) (string, interface{}) {
	val := func(i int) string {
		if e.Case == nil || i < 1 || i > len(e.Case.Pool) {
			return "?"
		}
		return e.Case.Pool[i-1].Tag + "=" + string(e.Case.Pool[i-1].V)
	}
	d := fmt.Sprintf("minimal type %s (Go: generated for abstract term %s); observation kind=%s form=%q; pool[%d] %s vs pool[%d] %s; %d offending pairs in this class",
		e.T.String(), e.T.Canon(), b.K, b.Form, b.I, val(b.I), b.J, val(b.J), b.N)
	return d, map[string]interface{}{"type": e.T, "class": b.Class(), "x": val(b.I), "y": val(b.J), "observation": b}
}
