package engs

import (
	"bufio"
	"bytes"
	"encoding/json"
	"fmt"
	"os"
	"path/filepath"
	"strings"
	"time"

	"verif/harness/internal/core"
	"verif/harness/internal/tlc"
)

// PoolEntry is one value of Pool(T) as exported by TLC (spec/sem/Values.tla).
type PoolEntry struct {
	Tag  string          `json:"tag"`
	Of   int             `json:"of"`   // 1-based index of the entry this one derives from, 0 = none
	Kind string          `json:"kind"` // "", same, leaf, nil, len, key, nil+len
	Dir  string          `json:"dir"`  // lt, gt, none
	V    json.RawMessage `json:"v"`
}

// Case is one exported line: a type and its value pool.
type Case struct {
	ID   string      `json:"id"`
	T    *Type       `json:"t"`
	WF   bool        `json:"wf"`
	Pool []PoolEntry `json:"pool"`
	Raw  []byte      `json:"-"` // the line exactly as TLC wrote it (what SemTrace re-reads)
}

func SpecDir(c *core.Ctx) string { return filepath.Join(c.Verif, "spec", "sem") }

func readLines(path string) ([][]byte, error) {
	f, err := os.Open(path)
	if err != nil {
		return nil, err
	}
	defer f.Close()
	var out [][]byte
	sc := bufio.NewScanner(f)
	sc.Buffer(make([]byte, 1<<20), 1<<28)
	for sc.Scan() {
		if len(bytes.TrimSpace(sc.Bytes())) == 0 {
			continue
		}
		out = append(out, append([]byte(nil), sc.Bytes()...))
	}
	return out, sc.Err()
}

func runCases(c *core.Ctx, env map[string]string) error {
	res, err := tlc.Run(tlc.Opts{SpecDirs: []string{SpecDir(c)}, Module: "SemCases", Config: "SemCases.cfg",
		Workers: 1, Timeout: 10 * time.Minute, HeapMB: 6000, Scratch: c.Work, Env: env})
	if err != nil {
		return err
	}
	if res.Violation {
		return fmt.Errorf("SemCases: %s", res.ErrText)
	}
	return nil
}

// EnumerateTypes lets TLC enumerate TypesUpTo(depth).
func EnumerateTypes(c *core.Ctx, depth int) ([]*Type, error) {
	out := filepath.Join(c.Work, fmt.Sprintf("enum%d.ndjson", depth))
	if err := runCases(c, map[string]string{"VERIF_ENUM": fmt.Sprint(depth), "VERIF_OUT": out}); err != nil {
		return nil, err
	}
	lines, err := readLines(out)
	if err != nil {
		return nil, err
	}
	var ts []*Type
	for _, l := range lines {
		var r struct {
			T *Type `json:"t"`
		}
		if err := json.Unmarshal(l, &r); err != nil {
			return nil, fmt.Errorf("enumeration line: %v", err)
		}
		ts = append(ts, r.T)
	}
	return ts, nil
}

// EnumerateMethodTypes lets TLC enumerate MethTypes(depth): the types with a
// component that declares its own Equal / Compare / Hash methods.
func EnumerateMethodTypes(c *core.Ctx, depth int) ([]*Type, error) {
	out := filepath.Join(c.Work, fmt.Sprintf("enummeth%d.ndjson", depth))
	if err := runCases(c, map[string]string{"VERIF_ENUM_METH": fmt.Sprint(depth), "VERIF_OUT": out}); err != nil {
		return nil, err
	}
	lines, err := readLines(out)
	if err != nil {
		return nil, err
	}
	var ts []*Type
	for _, l := range lines {
		var r struct {
			T *Type `json:"t"`
		}
		if err := json.Unmarshal(l, &r); err != nil {
			return nil, fmt.Errorf("enumeration line: %v", err)
		}
		ts = append(ts, r.T)
	}
	return ts, nil
}

// ExportCases lets TLC compute Pool(t) for the given types (ids[i] names
// types[i]) and returns the cases, the leaf table and the path of the export.
// A type TLC does not accept as well-formed is an error of the harness.
func ExportCases(c *core.Ctx, tag string, ids []string, types []*Type) ([]*Case, []LeafKind, string, error) {
	return exportCases(c, tag, ids, types, false)
}

// exportCases: with lenient, terms TLC rejects come back with WF=false
// instead of an error (shrinking candidates are filtered this way).
func exportCases(c *core.Ctx, tag string, ids []string, types []*Type, lenient bool) ([]*Case, []LeafKind, string, error) {
	in := filepath.Join(c.Work, tag+"-types.ndjson")
	out := filepath.Join(c.Work, tag+"-cases.ndjson")
	lv := filepath.Join(c.Work, tag+"-leaves.ndjson")
	var buf bytes.Buffer
	for i, t := range types {
		fmt.Fprintf(&buf, "{\"id\":%q,\"t\":%s}\n", ids[i], t.Canon())
	}
	if err := os.WriteFile(in, buf.Bytes(), 0644); err != nil {
		return nil, nil, "", err
	}
	if err := runCases(c, map[string]string{"VERIF_TYPES": in, "VERIF_OUT": out, "VERIF_LEAVES": lv}); err != nil {
		return nil, nil, "", err
	}
	cases, err := ReadCases(out)
	if err != nil {
		return nil, nil, "", err
	}
	if len(cases) != len(types) {
		return nil, nil, "", fmt.Errorf("TLC exported %d cases for %d types", len(cases), len(types))
	}
	for i, cs := range cases {
		if !cs.WF && !lenient {
			return nil, nil, "", fmt.Errorf("TLC rejects type %s as not well-formed: %s", cs.ID, types[i].Canon())
		}
		if cs.ID != ids[i] || cs.T.Canon() != types[i].Canon() {
			return nil, nil, "", fmt.Errorf("export line %d is %s %s, expected %s %s", i+1, cs.ID, cs.T.Canon(), ids[i], types[i].Canon())
		}
	}
	lines, err := readLines(lv)
	if err != nil {
		return nil, nil, "", err
	}
	var leaves []LeafKind
	for _, l := range lines {
		var k LeafKind
		if err := json.Unmarshal(l, &k); err != nil {
			return nil, nil, "", err
		}
		leaves = append(leaves, k)
	}
	return cases, leaves, out, nil
}

func ReadCases(path string) ([]*Case, error) {
	lines, err := readLines(path)
	if err != nil {
		return nil, err
	}
	var cases []*Case
	for _, l := range lines {
		cs := &Case{Raw: l}
		if err := json.Unmarshal(l, cs); err != nil {
			return nil, fmt.Errorf("case line: %v", err)
		}
		cases = append(cases, cs)
	}
	return cases, nil
}

// MCResult is the outcome of the TLC model check of the reference semantics.
type MCResult struct {
	States, Transitions int
	Leads               map[string][]string // case id -> lead kinds of the implementation-shaped layer
	Wall                time.Duration
}

// ModelCheck runs SemMC on an exported cases file: TLC checks the reference
// laws on exactly the types and values the real code is run on. A violated
// invariant means the specification is wrong: an error, never a verdict.
func ModelCheck(c *core.Ctx, casesFile string, workers int) (*MCResult, error) {
	res, err := tlc.Run(tlc.Opts{SpecDirs: []string{SpecDir(c)}, Module: "SemMC", Config: "SemMC.cfg",
		Workers: workers, Timeout: 25 * time.Minute, HeapMB: 8000, Scratch: c.Work,
		Env: map[string]string{"VERIF_CASES": casesFile}})
	if err != nil {
		return nil, err
	}
	if res.Violation {
		return nil, fmt.Errorf("the reference semantics violates its own laws on the bounded universe (specification needs fixing): %s", res.ErrText)
	}
	mc := &MCResult{States: res.Distinct, Transitions: res.Generated, Leads: map[string][]string{}, Wall: res.Wall}
	for _, l := range res.Lines("LEAD ") {
		fs := strings.Fields(strings.Trim(l, "\" "))
		if len(fs) >= 3 {
			mc.Leads[fs[1]] = fs[2:]
		}
	}
	return mc, nil
}
