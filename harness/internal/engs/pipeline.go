package engs

import (
	"fmt"
	"os"
	"path/filepath"
	"strconv"
	"sync"
	"time"

	"verif/harness/internal/core"
)

// Par is the parallelism budget of engine S (cores it may keep busy):
// VERIF_PAR, default 16. Small values (<= 8) also serialise the TLC runs.
func Par() int {
	if v, err := strconv.Atoi(os.Getenv("VERIF_PAR")); err == nil && v >= 1 {
		return v
	}
	return 16
}

func parOf(div, min int) int {
	n := Par() / div
	if n < min {
		n = min
	}
	return n
}

// Result of running a set of types through the whole conformance pipeline.
type Result struct {
	Cases     []*Case
	CasesFile string
	Leaves    []LeafKind
	Built     []*Built
	Obs       []*Obs
	Val       *ValStats
	Build     *BuildStats
	ByID      map[string]*Case
	Rejected  []*Type // lenient export: terms TLC does not accept as well-formed
	Times     map[string]float64
}

// RunTypes is the reusable core: TLC exports Pool(t) for the types, the real
// goderive generates code for them (batched), the driver executes it, and the
// Trace module judges the observations.
func RunTypes(c *core.Ctx, bin, tag string, ids []string, types []*Type, o PkgOpts, module string, batch int) (*Result, error) {
	r, err := ExportOnly(c, tag, ids, types)
	if err != nil {
		return nil, err
	}
	if err := r.Conform(c, bin, tag, o, module, batch); err != nil {
		return nil, err
	}
	return r, nil
}

func export(c *core.Ctx, tag string, ids []string, types []*Type, lenient bool) (*Result, error) {
	r := &Result{ByID: map[string]*Case{}, Build: &BuildStats{}, Times: map[string]float64{}}
	t0 := time.Now()
	cases, leaves, file, err := exportCases(c, tag, ids, types, lenient)
	if err != nil {
		return nil, err
	}
	r.Leaves, r.CasesFile = leaves, file
	// binding check: Go's == and < on the concrete leaves agree with the TLA+ table
	if err := LeafSanity(leaves); err != nil {
		return nil, fmt.Errorf("leaf table of the specification and the Go concretisation disagree: %v", err)
	}
	for i, cs := range cases {
		if !cs.WF {
			r.Rejected = append(r.Rejected, types[i])
			continue
		}
		r.Cases = append(r.Cases, cs)
		r.ByID[cs.ID] = cs
	}
	r.Times["export"] = time.Since(t0).Seconds()
	return r, nil
}

// ExportOnly: TLC computes the pools (SemCases); every type must be well-formed.
func ExportOnly(c *core.Ctx, tag string, ids []string, types []*Type) (*Result, error) {
	return export(c, tag, ids, types, false)
}

// ExportLenient: as ExportOnly, but terms TLC rejects are returned in Rejected.
func ExportLenient(c *core.Ctx, tag string, ids []string, types []*Type) (*Result, error) {
	return export(c, tag, ids, types, true)
}

// Conform runs the real goderive and the real generated code on the exported
// cases and lets the Trace module judge the observations.
func (r *Result) Conform(c *core.Ctx, bin, tag string, o PkgOpts, module string, batch int) error {
	t0 := time.Now()
	if err := r.BuildAndRun(c, bin, tag, o, batch); err != nil {
		return err
	}
	r.Times["build+run"] = time.Since(t0).Seconds()
	t0 = time.Now()
	var err error
	r.Val, err = Validate(c, module, r.Obs)
	if err != nil {
		return err
	}
	r.Times["validate"] = time.Since(t0).Seconds()
	return nil
}

// BuildAndRun generates, derives, compiles and executes all cases of r.
func (r *Result) BuildAndRun(c *core.Ctx, bin, tag string, o PkgOpts, batch int) error {
	if batch <= 0 {
		batch = 64
	}
	// every case alone through the real goderive + go/types: what fails is C01's business
	t0 := time.Now()
	good, err := Screen(c, bin, tag, r.Cases, o, r.Build)
	if err != nil {
		return err
	}
	r.Times["screen"] = time.Since(t0).Seconds()
	var batches [][]*Case
	for i := 0; i < len(good); i += batch {
		j := i + batch
		if j > len(good) {
			j = len(good)
		}
		batches = append(batches, good[i:j])
	}
	built := make([][]*Built, len(batches))
	errs := make([]error, len(batches))
	var wg sync.WaitGroup
	sem := make(chan struct{}, parOf(1, 2)*3/4)
	for bi := range batches {
		wg.Add(1)
		go func(bi int) {
			defer wg.Done()
			sem <- struct{}{}
			defer func() { <-sem }()
			dir := filepath.Join(c.Work, "pkg", fmt.Sprintf("%s-b%03d", tag, bi))
			built[bi], errs[bi] = BuildBatch(c, bin, dir, batches[bi], o, r.Build)
		}(bi)
	}
	wg.Wait()
	for _, e := range errs {
		if e != nil {
			return e
		}
	}
	for _, bs := range built {
		r.Built = append(r.Built, bs...)
	}
	obs := make([]*Obs, len(r.Built))
	oerrs := make([]error, len(r.Built))
	for i := range r.Built {
		wg.Add(1)
		go func(i int) {
			defer wg.Done()
			sem <- struct{}{}
			defer func() { <-sem }()
			obs[i], oerrs[i] = RunDriver(c, r.Built[i])
		}(i)
	}
	wg.Wait()
	for _, e := range oerrs {
		if e != nil {
			return e
		}
	}
	r.Obs = obs
	return nil
}
