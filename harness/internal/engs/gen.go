package engs

import (
	"fmt"
	"math/rand"
	"sort"
)

// rgen draws random type terms deeper than the exhaustively enumerated
// universe. TLC (WellFormed in Types.tla) decides whether a term is admitted.
type rgen struct {
	rng     *rand.Rand
	nstruct int
}

func (g *rgen) leaf() *Type {
	if g.rng.Intn(5) == 0 {
		nl := NamedLeaves()
		return nl[g.rng.Intn(len(nl))]
	}
	return Basic(Basics[g.rng.Intn(len(Basics))])
}

// typ draws a term of constructor depth <= d. selfs: names of the enclosing
// structs; under: directly below ptr / slice / map value (self allowed).
func (g *rgen) typ(d int, inExt bool, selfs []string, under bool) *Type {
	if under && len(selfs) > 0 && g.rng.Intn(6) == 0 {
		return Self(selfs[len(selfs)-1])
	}
	if d <= 0 || g.rng.Intn(8) == 0 {
		return g.leaf()
	}
	switch g.rng.Intn(6) {
	case 0:
		return Ptr(g.typ(d-1, inExt, selfs, true))
	case 1:
		return Slice(g.typ(d-1, inExt, selfs, true))
	case 2:
		return Array(g.typ(d-1, inExt, selfs, false))
	case 3:
		ks := KeyTypes()
		if inExt {
			ks = ks[:4] // the struct key is a local type
		}
		return Map(ks[g.rng.Intn(len(ks))], g.typ(d-1, inExt, selfs, true))
	default:
		g.nstruct++
		name := fmt.Sprintf("S%d", g.nstruct)
		pkg := "local"
		if inExt || g.rng.Intn(4) == 0 {
			pkg = "ext"
		}
		names := []string{"A", "b", "C"}
		if g.rng.Intn(2) == 0 {
			names = []string{"a", "B", "c"}
		}
		n := 1 + g.rng.Intn(3)
		var fs []Field
		used := map[string]bool{}
		for i := 0; i < n; i++ {
			fd := d - 1
			if i > 0 && fd > 0 {
				fd = g.rng.Intn(fd + 1)
			}
			ft := g.typ(fd, pkg == "ext", append(append([]string{}, selfs...), name), false)
			f := Field{Name: names[i], T: ft}
			if (ft.K == "named" || ft.K == "struct") && g.rng.Intn(4) == 0 {
				en := ft.N
				if ft.K == "struct" {
					en = ft.Name
				}
				if !used[en] {
					f = Field{Name: en, T: ft, Emb: true}
				}
			}
			if used[f.Name] {
				continue
			}
			used[f.Name] = true
			fs = append(fs, f)
		}
		return Struct(name, pkg, fs...)
	}
}

// RandomTypes draws n distinct terms of depth exactly `depth` (by seed).
func RandomTypes(seed int64, n, depth int, exclude map[string]bool) []*Type {
	rng := rand.New(rand.NewSource(seed))
	var out []*Type
	seen := map[string]bool{}
	for tries := 0; len(out) < n && tries < n*200; tries++ {
		g := &rgen{rng: rng}
		t := g.typ(depth, false, nil, false)
		if t.Depth() != depth {
			continue
		}
		k := t.Canon()
		if seen[k] || exclude[k] {
			continue
		}
		seen[k] = true
		out = append(out, t)
	}
	return out
}

// Universe is the set of types a tier runs, in a seed-independent order for
// the exhaustive part.
type Universe struct {
	Types      []*Type
	IDs        []string
	Exhaustive bool // every term of TypesUpTo(2) is included
	Core       int  // size of the fixed core (all terms of depth <= 1)
	Sampled    int  // seed-chosen depth-2 terms
	Random     int  // seed-chosen deeper terms
	Method     int  // terms with a component that declares its own Equal/Compare/Hash methods
}

// onlyByteLeaves: every leaf is uint8 and every map is int-keyed. Byte slices
// are the one composite the templates special-case (bytes.Equal,
// bytes.Compare), in every position a component can occur in; the fixed core
// therefore contains every depth-2 term over the byte leaf.
func onlyByteLeaves(t *Type) bool {
	switch t.K {
	case "basic":
		return t.B == "uint8"
	case "named", "self":
		return false
	case "map":
		return t.Key.K == "basic" && t.Key.B == "int" && onlyByteLeaves(t.E)
	}
	for _, c := range t.Children() {
		if !onlyByteLeaves(c) {
			return false
		}
	}
	return true
}

// byteFamilyDeep: a pointer to a byte slice in every position a component can
// occur in (depth 3). In field position the Equal template dereferences
// pointers inline and keeps the bytes.Equal shortcut, while Compare and Hash go
// through helper functions: the one place where the three templates take
// structurally different routes. Part of the fixed core of both tiers.
func byteFamilyDeep() []*Type {
	pb := func() *Type { return Ptr(Slice(Basic("uint8"))) }
	return []*Type{
		Struct("S3", "local", F("A", pb())),
		Struct("S3", "ext", F("a", pb())),
		Slice(pb()), Array(pb()), Map(Basic("int"), pb()), Ptr(pb()),
	}
}

// nestedStringStruct: struct{A struct{A string}} (exported, local): a struct
// nested BY VALUE whose text (GoString) or leaves are handled by the outer
// struct's template; part of the fixed core.
func nestedStringStruct(t *Type) bool {
	one := func(t *Type) *Type {
		if t.K == "struct" && t.Meth == "" && t.Pkg == "local" && len(t.Fields) == 1 && exported(t.Fields[0].Name) && !t.Fields[0].Emb {
			return t.Fields[0].T
		}
		return nil
	}
	if in := one(t); in != nil {
		if leaf := one(in); leaf != nil {
			return leaf.K == "basic" && leaf.B == "string"
		}
	}
	return false
}

// SelectUniverse: quick = the fixed core (every term of depth <= 1: every
// constructor over every leaf; every depth-2 term over the byte leaf) +
// nQuick seed-chosen depth-2 terms + a few depth-3; thorough = all of
// TypesUpTo(2) + random depth-3 terms.
func SelectUniverse(all []*Type, quick bool, seed int64, nQuick, nDeep int) *Universe {
	u := &Universe{}
	var core, rest []*Type
	for _, t := range all {
		if t.Depth() <= 1 || onlyByteLeaves(t) || nestedStringStruct(t) {
			core = append(core, t)
		} else {
			rest = append(rest, t)
		}
	}
	core = append(core, byteFamilyDeep()...)
	u.Core = len(core)
	u.Types = append(u.Types, core...)
	if quick {
		rng := rand.New(rand.NewSource(seed))
		idx := rng.Perm(len(rest))
		if nQuick > len(idx) {
			nQuick = len(idx)
		}
		idx = idx[:nQuick]
		sort.Ints(idx)
		for _, i := range idx {
			u.Types = append(u.Types, rest[i])
		}
		u.Sampled = nQuick
	} else {
		u.Types = append(u.Types, rest...)
		u.Exhaustive = true
	}
	ex := map[string]bool{}
	for _, t := range all {
		ex[t.Canon()] = true
	}
	for _, t := range core {
		ex[t.Canon()] = true
	}
	deep := RandomTypes(seed*7919+13, nDeep, 3, ex)
	u.Random = len(deep)
	u.Types = append(u.Types, deep...)
	for i := range u.Types {
		u.IDs = append(u.IDs, fmt.Sprintf("T%d", i+1))
	}
	return u
}

// AddMethodTypes appends the types with a method-bearing component (TLC's
// MethTypes) to a universe: thorough = all of them; quick = a fixed core (M and
// *M for every method kind under a slice, a map[int] and an exported field of a
// local struct) plus nSample seed-chosen others.
func (u *Universe) AddMethodTypes(meth []*Type, quick bool, seed int64, nSample int) {
	isCore := func(t *Type) bool {
		comp := func(c *Type) bool {
			return c.Meth != "" || (c.K == "ptr" && c.E.Meth != "")
		}
		switch t.K {
		case "slice":
			return comp(t.E)
		case "map":
			if t.Key.Meth != "" || (t.Key.K == "struct" && t.Key.Pkg == "ext") { // keyed by the unclamped-Compare fixture / an imported struct
				return true
			}
			return t.Key.K == "basic" && t.Key.B == "int" && comp(t.E)
		case "struct":
			if t.Meth == "" && t.Pkg == "ext" && len(t.Fields) >= 2 { // imported struct with several fields of different sizes
				return true
			}
			if t.Meth != "" || t.Pkg != "local" || len(t.Fields) != 1 || !exported(t.Fields[0].Name) {
				return false
			}
			f := t.Fields[0].T
			// directly, or nested in one more comparable local struct (compared with == as a whole)
			return comp(f) || (f.K == "struct" && f.Meth == "" && f.Pkg == "local" && len(f.Fields) == 1 &&
				exported(f.Fields[0].Name) && f.Fields[0].T.Meth != "")
		}
		return false
	}
	var hasC64 func(t *Type) bool
	hasC64 = func(t *Type) bool {
		if t.K == "basic" && t.B == "complex64" {
			return true
		}
		if t.K == "map" && t.Key.K == "basic" && (t.Key.B == "complex64" || t.Key.B == "complex128") { // complex-keyed map
			return true
		}
		for _, ch := range t.Children() {
			if hasC64(ch) {
				return true
			}
		}
		return false
	}
	var core, rest []*Type
	for _, t := range meth {
		if isCore(t) || hasC64(t) {
			core = append(core, t)
		} else {
			rest = append(rest, t)
		}
	}
	// fixed: a method-bearing struct nested in a comparable struct (compared with == as a whole)
	for _, mk := range methOrder {
		if mk != "pd" {
			core = append(core, Struct("S3", "local", F("A", Struct("S2", "local", F("A", MStruct(mk))))))
		}
	}
	add := core
	if quick {
		rng := rand.New(rand.NewSource(seed*31 + 7))
		idx := rng.Perm(len(rest))
		if nSample > len(idx) {
			nSample = len(idx)
		}
		idx = idx[:nSample]
		sort.Ints(idx)
		for _, i := range idx {
			add = append(add, rest[i])
		}
	} else {
		add = append(add, rest...)
	}
	u.Method = len(add)
	for _, t := range add {
		u.Types = append(u.Types, t)
		u.IDs = append(u.IDs, fmt.Sprintf("T%d", len(u.Types)))
	}
}
