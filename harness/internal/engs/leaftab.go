package engs

// THIS FILE IS COMPILED TWICE: into the harness (package engs) and, copied
// verbatim with the package clause rewritten, into every generated driver
// program (package main). It must only import the standard library and must
// not refer to anything else in package engs.
//
// It owns the CONCRETISATION of leaf tokens: (kind, token) -> Go value. The
// meaning of a token (its equality class and its rank in the natural order)
// is defined in spec/sem/Values.tla (LeafTab) and exported by TLC; LeafSanity
// checks with plain Go comparisons that Go's == and < on the concrete values
// agree with that table.

import (
	"fmt"
	"math"
)

// LeafTok is one row of the exported TLA+ leaf table.
type LeafTok struct {
	Tok  string `json:"tok"`
	Rank int    `json:"rank"`
	Twin bool   `json:"twin"`
}

// LeafKind is the exported table of one basic kind.
type LeafKind struct {
	Kind string    `json:"kind"`
	Toks []LeafTok `json:"toks"`
}

var negZero = math.Copysign(0, -1)

// LeafGo maps kind -> token -> Go value of exactly that basic type.
var LeafGo = map[string]map[string]interface{}{
	"bool":   {"false": false, "true": true},
	"int":    {"0": int(0), "1": int(1), "m1": int(-1), "max": int(math.MaxInt64), "min": int(math.MinInt64), "hi1": int(1)<<40 + 1},
	"int8":   {"0": int8(0), "1": int8(1), "m1": int8(-1), "max": int8(math.MaxInt8), "min": int8(math.MinInt8)},
	"int64":  {"0": int64(0), "1": int64(1), "m1": int64(-1), "max": int64(math.MaxInt64), "min": int64(math.MinInt64), "hi1": int64(1)<<40 + 1},
	"uint8":  {"0": uint8(0), "1": uint8(1), "97": uint8(97), "255": uint8(255)},
	"uint64": {"0": uint64(0), "1": uint64(1), "big": uint64(1) << 63, "max": uint64(math.MaxUint64)},
	"float32": {"pz": float32(0), "1": float32(1), "m1.5": float32(-1.5), "max": float32(math.MaxFloat32),
		"half": float32(0.5), "msmall": float32(-math.SmallestNonzeroFloat32), "nz": float32(negZero)},
	"float64": {"pz": float64(0), "1": float64(1), "m1.5": float64(-1.5), "max": float64(math.MaxFloat64),
		"half": float64(0.5), "msmall": float64(-math.SmallestNonzeroFloat64), "nz": negZero},
	"complex64": {"z": complex64(complex(0, 0)), "a": complex64(complex(1, 2)), "b": complex64(complex(1, 3)), "c": complex64(complex(2, 0)),
		"d": complex64(complex(-1.5, 5)), "zni": complex64(complex(0, negZero)), "znr": complex64(complex(negZero, 0))},
	"complex128": {"z": complex(0, 0), "a": complex(1, 2), "b": complex(1, 3), "c": complex(2, 0),
		"d": complex(-1.5, 5), "zni": complex(0, negZero), "znr": complex(negZero, 0)},
	"string": {"empty": "", "a": "a", "b": "b", "Aa": "Aa", "BB": "BB", "quote": "a\"\n", "eacute": "é", "xff": "\xff",
		"pfmt": "a%sb", "pct": "100%", "ppd": "%%d"},
}

// goEqLess applies Go's own == and the natural < of the kind (false<true for
// bool, real part before imaginary part for complex) to two concrete leaves.
func goEqLess(kind string, a, b interface{}) (eq, less bool, err error) {
	switch kind {
	case "bool":
		x, y := a.(bool), b.(bool)
		return x == y, !x && y, nil
	case "int":
		x, y := a.(int), b.(int)
		return x == y, x < y, nil
	case "int8":
		x, y := a.(int8), b.(int8)
		return x == y, x < y, nil
	case "int64":
		x, y := a.(int64), b.(int64)
		return x == y, x < y, nil
	case "uint8":
		x, y := a.(uint8), b.(uint8)
		return x == y, x < y, nil
	case "uint64":
		x, y := a.(uint64), b.(uint64)
		return x == y, x < y, nil
	case "float32":
		x, y := a.(float32), b.(float32)
		return x == y, x < y, nil
	case "float64":
		x, y := a.(float64), b.(float64)
		return x == y, x < y, nil
	case "complex64":
		x, y := a.(complex64), b.(complex64)
		return x == y, real(x) < real(y) || (real(x) == real(y) && imag(x) < imag(y)), nil
	case "complex128":
		x, y := a.(complex128), b.(complex128)
		return x == y, real(x) < real(y) || (real(x) == real(y) && imag(x) < imag(y)), nil
	case "string":
		x, y := a.(string), b.(string)
		return x == y, x < y, nil
	}
	return false, false, fmt.Errorf("unknown leaf kind %q", kind)
}

func sameBits(kind string, a, b interface{}) bool {
	switch kind {
	case "float32":
		return math.Float32bits(a.(float32)) == math.Float32bits(b.(float32))
	case "float64":
		return math.Float64bits(a.(float64)) == math.Float64bits(b.(float64))
	case "complex64":
		x, y := a.(complex64), b.(complex64)
		return math.Float32bits(real(x)) == math.Float32bits(real(y)) && math.Float32bits(imag(x)) == math.Float32bits(imag(y))
	case "complex128":
		x, y := a.(complex128), b.(complex128)
		return math.Float64bits(real(x)) == math.Float64bits(real(y)) && math.Float64bits(imag(x)) == math.Float64bits(imag(y))
	}
	return a == b
}

// LeafSanity is the binding check between the TLA+ leaf table and the Go
// literals: same token sets; index 1 is Go's zero value; equal rank <=> Go ==;
// smaller rank <=> Go <; distinct tokens are distinct representations; a twin
// shares its class with a canonical token.
func LeafSanity(tab []LeafKind) error {
	if len(tab) != len(LeafGo) {
		return fmt.Errorf("leaf table has %d kinds, Go concretisation has %d", len(tab), len(LeafGo))
	}
	for _, k := range tab {
		conc, ok := LeafGo[k.Kind]
		if !ok {
			return fmt.Errorf("no Go concretisation for kind %q", k.Kind)
		}
		if len(conc) != len(k.Toks) {
			return fmt.Errorf("kind %s: %d tokens in the specification, %d in Go", k.Kind, len(k.Toks), len(conc))
		}
		for i, a := range k.Toks {
			va, ok := conc[a.Tok]
			if !ok {
				return fmt.Errorf("kind %s: token %q has no Go value", k.Kind, a.Tok)
			}
			if fmt.Sprintf("%T", va) != k.Kind {
				return fmt.Errorf("kind %s: token %q is a %T", k.Kind, a.Tok, va)
			}
			if i == 0 {
				if z, _, _ := goEqLess(k.Kind, va, va); !z || fmt.Sprintf("%#v", va) != fmt.Sprintf("%#v", zeroOf(k.Kind)) {
					return fmt.Errorf("kind %s: first token %q is not Go's zero value", k.Kind, a.Tok)
				}
			}
			hasCanon := false
			for j, b := range k.Toks {
				vb := conc[b.Tok]
				eq, less, err := goEqLess(k.Kind, va, vb)
				if err != nil {
					return err
				}
				if eq != (a.Rank == b.Rank) {
					return fmt.Errorf("kind %s: Go == on (%s,%s) is %v but ranks are %d,%d", k.Kind, a.Tok, b.Tok, eq, a.Rank, b.Rank)
				}
				if less != (a.Rank < b.Rank) {
					return fmt.Errorf("kind %s: Go < on (%s,%s) is %v but ranks are %d,%d", k.Kind, a.Tok, b.Tok, less, a.Rank, b.Rank)
				}
				if i != j && sameBits(k.Kind, va, vb) {
					return fmt.Errorf("kind %s: tokens %s and %s are the same Go value", k.Kind, a.Tok, b.Tok)
				}
				if i != j && !b.Twin && a.Rank == b.Rank {
					hasCanon = true
				}
			}
			if a.Twin && !hasCanon {
				return fmt.Errorf("kind %s: twin token %s has no canonical token of its class", k.Kind, a.Tok)
			}
		}
	}
	return nil
}

func zeroOf(kind string) interface{} {
	switch kind {
	case "bool":
		return false
	case "int":
		return int(0)
	case "int8":
		return int8(0)
	case "int64":
		return int64(0)
	case "uint8":
		return uint8(0)
	case "uint64":
		return uint64(0)
	case "float32":
		return float32(0)
	case "float64":
		return float64(0)
	case "complex64":
		return complex64(0)
	case "complex128":
		return complex128(0)
	case "string":
		return ""
	}
	return nil
}
