package engs

import (
	"encoding/json"
	"fmt"
	"sort"
	"strings"
)

// Type is an abstract type term of spec/sem/Types.tla (same JSON shape).
type Type struct {
	K      string  `json:"k"`                // basic named ptr slice array map struct self
	B      string  `json:"b,omitempty"`      // basic: kind
	N      string  `json:"n,omitempty"`      // named: abstract name
	U      *Type   `json:"u,omitempty"`      // named: underlying basic
	E      *Type   `json:"e,omitempty"`      // ptr slice array map: element
	Len    int     `json:"len,omitempty"`    // array
	Key    *Type   `json:"key,omitempty"`    // map
	Name   string  `json:"name,omitempty"`   // struct, self
	Pkg    string  `json:"pkg,omitempty"`    // struct: local | ext
	Fields []Field `json:"fields,omitempty"` // struct
	Meth   string  `json:"meth,omitempty"`   // struct: declares Equal/Compare/Hash methods; receiver (v|p) + argument (v|p|i)
}

type Field struct {
	Name string `json:"name"`
	T    *Type  `json:"t"`
	Emb  bool   `json:"emb"`
}

// constructors mirroring Types.tla
func Basic(b string) *Type          { return &Type{K: "basic", B: b} }
func Named(n string, u *Type) *Type { return &Type{K: "named", N: n, U: u} }
func Ptr(e *Type) *Type             { return &Type{K: "ptr", E: e} }
func Slice(e *Type) *Type           { return &Type{K: "slice", E: e} }
func Array(e *Type) *Type           { return &Type{K: "array", Len: 2, E: e} }
func Map(k, e *Type) *Type          { return &Type{K: "map", Key: k, E: e} }
func Self(name string) *Type        { return &Type{K: "self", Name: name} }
func Struct(name, pkg string, fs ...Field) *Type {
	return &Type{K: "struct", Name: name, Pkg: pkg, Fields: fs}
}
func F(name string, t *Type) Field { return Field{Name: name, T: t} }

var Basics = []string{"bool", "int", "int8", "int64", "uint8", "uint64", "float32", "float64", "complex128", "string"}

func KeyTypes() []*Type {
	return []*Type{Basic("int"), Basic("string"), Named("NS", Basic("string")), Array(Basic("int")),
		Struct("K", "local", F("A", Basic("int")), F("B", Basic("string")))}
}

func NamedLeaves() []*Type {
	return []*Type{Named("NI", Basic("int")), Named("NS", Basic("string")), Named("NF", Basic("float64"))}
}

// Canon is the canonical JSON of the term (fixed field order): identity of a type.
func (t *Type) Canon() string {
	b, err := json.Marshal(t)
	if err != nil {
		panic(err)
	}
	return string(b)
}

func (t *Type) Clone() *Type {
	var c Type
	if err := json.Unmarshal([]byte(t.Canon()), &c); err != nil {
		panic(err)
	}
	return &c
}

func ParseType(raw []byte) (*Type, error) {
	var t Type
	if err := json.Unmarshal(raw, &t); err != nil {
		return nil, err
	}
	return &t, nil
}

// Children returns the direct component types.
func (t *Type) Children() []*Type {
	switch t.K {
	case "named":
		return []*Type{t.U}
	case "ptr", "slice", "array":
		return []*Type{t.E}
	case "map":
		return []*Type{t.Key, t.E}
	case "struct":
		var cs []*Type
		for i := range t.Fields {
			cs = append(cs, t.Fields[i].T)
		}
		return cs
	}
	return nil
}

// Size counts constructor nodes and fields (the shrinking measure).
func (t *Type) Size() int {
	n := 1
	if t.K == "struct" {
		n += len(t.Fields)
	}
	for _, c := range t.Children() {
		n += c.Size()
	}
	return n
}

func (t *Type) Depth() int {
	d := 0
	for _, c := range t.Children() {
		if cd := c.Depth(); cd > d {
			d = cd
		}
	}
	if t.K == "basic" || t.K == "self" || t.K == "named" {
		return d
	}
	return d + 1
}

// String is the stable, name-free rendering used in witnesses.
func (t *Type) String() string {
	switch t.K {
	case "basic":
		return t.B
	case "named":
		return "named(" + t.U.String() + ")"
	case "ptr":
		return "*" + t.E.String()
	case "slice":
		return "[]" + t.E.String()
	case "array":
		return fmt.Sprintf("[%d]%s", t.Len, t.E.String())
	case "map":
		return "map[" + t.Key.String() + "]" + t.E.String()
	case "self":
		return "self"
	case "struct":
		var fs []string
		for _, f := range t.Fields {
			switch {
			case f.Emb:
				fs = append(fs, "embedded "+f.T.String())
			case exported(f.Name):
				fs = append(fs, "Exported "+f.T.String())
			default:
				fs = append(fs, "unexported "+f.T.String())
			}
		}
		p := "struct"
		if t.Pkg == "ext" {
			p = "imported struct"
		}
		if t.Meth != "" {
			p += "[own Equal/Compare/Hash methods: receiver " + methWord(t.Meth[0]) + ", argument " + methWord(t.Meth[1]) + "]"
		}
		return p + "{" + strings.Join(fs, "; ") + "}"
	}
	return "?" + t.K
}

func methWord(c byte) string {
	switch c {
	case 'v':
		return "by value"
	case 'p':
		return "by pointer"
	case 'd':
		return "by pointer, Compare returns the difference"
	}
	return "interface{}"
}

// MStruct mirrors Types.tla MStruct: the fixture struct whose own Equal /
// Compare / Hash methods look at the first field K only.
func MStruct(mk string) *Type {
	if mk == "pd" { // Types.tla KDStruct: Compare returns the (unclamped) difference; comparable, also a map key
		t := Struct("KD", "local", F("K", Basic("int8")))
		t.Meth = mk
		return t
	}
	t := Struct("M"+mk, "local", F("K", Basic("int")), F("V", Basic("int")))
	t.Meth = mk
	return t
}

// methodDecls renders the fixture methods of a method-bearing struct: they
// consider the first field only, are nil-safe, and accept the argument forms
// the plugins pass (value, pointer, or either inside interface{}).
func methodDecls(name, first, mk string) string {
	recv, arg := "a "+name, "b "+name
	pre := ""
	if mk[0] == 'p' {
		recv = "a *" + name
	}
	switch mk[1] {
	case 'p', 'd':
		arg = "b *" + name
	case 'i':
		arg = "bi interface{}"
		pre = "\tvar b *" + name + "\n\tswitch x := bi.(type) {\n\tcase *" + name + ":\n\t\tb = x\n\tcase " + name + ":\n\t\tb = &x\n\t}\n"
	}
	nilEq, nilCmp := "", ""
	if mk[0] == 'p' && mk[1] != 'v' {
		nilEq = "\tif a == nil || b == nil {\n\t\treturn a == nil && b == nil\n\t}\n"
		nilCmp = "\tif a == nil {\n\t\tif b == nil {\n\t\t\treturn 0\n\t\t}\n\t\treturn -1\n\t}\n\tif b == nil {\n\t\treturn 1\n\t}\n"
	} else if mk[1] != 'v' {
		nilEq = "\tif b == nil {\n\t\treturn false\n\t}\n"
		nilCmp = "\tif b == nil {\n\t\treturn 1\n\t}\n"
	}
	f := first
	if mk[1] == 'd' { // the usual hand-written convention: negative / zero / positive, not clamped
		return fmt.Sprintf("func (%[1]s) Equal(%[2]s) bool {\n%[3]s\treturn a.%[5]s == b.%[5]s\n}\n\n"+
			"func (%[1]s) Compare(%[2]s) int {\n%[4]s\treturn int(a.%[5]s) - int(b.%[5]s)\n}\n\n"+
			"func (a %[6]s) Hash() uint64 { return uint64(a.%[5]s) }", recv, arg, nilEq, nilCmp, f, name)
	}
	return fmt.Sprintf("func (%[1]s) Equal(%[2]s) bool {\n%[3]s%[4]s\treturn a.%[6]s == b.%[6]s\n}\n\n"+
		"func (%[1]s) Compare(%[2]s) int {\n%[3]s%[5]s\tif a.%[6]s < b.%[6]s {\n\t\treturn -1\n\t}\n\tif a.%[6]s > b.%[6]s {\n\t\treturn 1\n\t}\n\treturn 0\n}\n\n"+
		"func (a %[7]s) Hash() uint64 { return uint64(a.%[6]s) }",
		recv, arg, pre, nilEq, nilCmp, f, name)
}

func exported(name string) bool { return name != "" && name[0] >= 'A' && name[0] <= 'Z' }

// ---------------------------------------------------------------------------
// Concretisation into Go source.

// GoGen renders the Go declarations of one case (type id = name prefix).
type GoGen struct {
	ID    string
	local map[string]string // Go name -> declaration text, package main
	ext   map[string]string // package ext
}

func NewGoGen(id string) *GoGen {
	return &GoGen{ID: id, local: map[string]string{}, ext: map[string]string{}}
}

// Expr returns the Go type expression of t as written in package `from`
// ("main" or "ext"), registering the declarations it needs. inExt: t occurs
// inside an imported struct (its named types are declared in package ext).
func (g *GoGen) Expr(t *Type, from string, inExt bool) string {
	q := func(name string, isExt bool) string {
		if isExt && from != "ext" {
			return "ext." + name
		}
		return name
	}
	switch t.K {
	case "basic":
		return t.B
	case "named":
		name := g.ID + "N" + t.N
		decl := "type " + name + " " + t.U.B
		if inExt {
			g.ext[name] = decl
		} else {
			g.local[name] = decl
		}
		return q(name, inExt)
	case "ptr":
		return "*" + g.Expr(t.E, from, inExt)
	case "slice":
		return "[]" + g.Expr(t.E, from, inExt)
	case "array":
		return fmt.Sprintf("[%d]%s", t.Len, g.Expr(t.E, from, inExt))
	case "map":
		return "map[" + g.Expr(t.Key, from, inExt) + "]" + g.Expr(t.E, from, inExt)
	case "self":
		return q(g.ID+t.Name, inExt)
	case "struct":
		isExt := t.Pkg == "ext"
		name := g.ID + t.Name
		pkg := "main"
		if isExt {
			pkg = "ext"
		}
		var b strings.Builder
		fmt.Fprintf(&b, "type %s struct {\n", name)
		for _, f := range t.Fields {
			fe := g.Expr(f.T, pkg, isExt)
			if f.Emb {
				fmt.Fprintf(&b, "\t%s\n", fe)
			} else {
				fmt.Fprintf(&b, "\t%s %s\n", f.Name, fe)
			}
		}
		b.WriteString("}")
		if t.Meth != "" {
			b.WriteString("\n\n" + methodDecls(name, t.Fields[0].Name, t.Meth))
		}
		if isExt {
			g.ext[name] = b.String()
		} else {
			g.local[name] = b.String()
		}
		return q(name, isExt)
	}
	panic("unknown type kind " + t.K)
}

func sortedDecls(m map[string]string) string {
	var ks []string
	for k := range m {
		ks = append(ks, k)
	}
	sort.Strings(ks)
	var b strings.Builder
	for _, k := range ks {
		b.WriteString(m[k] + "\n\n")
	}
	return b.String()
}

func (g *GoGen) LocalDecls() string { return sortedDecls(g.local) }
func (g *GoGen) ExtDecls() string   { return sortedDecls(g.ext) }
func (g *GoGen) UsesExt() bool      { return len(g.ext) > 0 }

// NormKey is the identity of a term up to the names of its structs and
// fields (only exportedness and embedding of a field matter): two terms with
// one NormKey generate the same Go code up to identifiers.
func (t *Type) NormKey() string {
	c := t.Clone()
	ren := map[string]string{}
	var walk func(t *Type)
	walk = func(t *Type) {
		switch t.K {
		case "struct":
			if _, ok := ren[t.Name]; !ok {
				ren[t.Name] = fmt.Sprintf("S%d", len(ren)+1)
			}
			t.Name = ren[t.Name]
			for i := range t.Fields {
				f := &t.Fields[i]
				switch {
				case f.Emb:
					f.Name = "E"
				case exported(f.Name):
					f.Name = fmt.Sprintf("F%d", i)
				default:
					f.Name = fmt.Sprintf("f%d", i)
				}
			}
		case "self":
			if n, ok := ren[t.Name]; ok {
				t.Name = n
			}
		}
		for _, ch := range t.Children() {
			walk(ch)
		}
	}
	walk(c)
	return c.Canon()
}
