package engs

import (
	"fmt"
	"os"
	"strconv"
	"testing"
)

// go test -run TestPrintType with DBG_ENUM=<enum file> DBG_SEED DBG_IDX: which type is T<idx> of the thorough universe
func TestPrintType(t *testing.T) {
	f := os.Getenv("DBG_ENUM")
	if f == "" {
		t.Skip()
	}
	lines, err := readLines(f)
	if err != nil {
		t.Fatal(err)
	}
	var all []*Type
	for _, l := range lines {
		i := 0
		for ; l[i] != ':'; i++ {
		}
		_ = i
		var r struct {
			T *Type `json:"t"`
		}
		if err := jsonUnmarshal(l, &r); err != nil {
			t.Fatal(err)
		}
		all = append(all, r.T)
	}
	seed, _ := strconv.ParseInt(os.Getenv("DBG_SEED"), 10, 64)
	idx, _ := strconv.Atoi(os.Getenv("DBG_IDX"))
	u := SelectUniverse(all, false, seed, 0, 150)
	fmt.Println(u.IDs[idx-1], u.Types[idx-1].String())
	fmt.Println(u.Types[idx-1].Canon())
}
