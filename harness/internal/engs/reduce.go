package engs

import (
	"fmt"
	"sort"
	"strings"
)

var methOrder = []string{"vv", "pv", "vp", "pp", "vi", "pi", "pd"}

// ShrinkSize is the first component of the shrinking measure: constructor
// nodes plus struct fields beyond the first.
func (t *Type) ShrinkSize() int {
	n := 1
	if t.K == "struct" {
		n += len(t.Fields) - 1
	}
	for _, c := range t.Children() {
		n += c.ShrinkSize()
	}
	return n
}

// rankString is the second component: a preorder string in which more
// canonical constructors / attributes / leaf kinds sort first.
func (t *Type) rankString() string {
	var b strings.Builder
	var walk func(t *Type)
	walk = func(t *Type) {
		switch t.K {
		case "struct":
			b.WriteString("1")
			if t.Pkg == "ext" {
				b.WriteString("x")
			} else {
				b.WriteString("l")
			}
			for i, mk := range methOrder {
				if mk == t.Meth && i > 0 {
					b.WriteString(fmt.Sprintf("m%d", i))
				}
			}
			for _, f := range t.Fields {
				switch {
				case f.Emb:
					b.WriteString("e")
				case exported(f.Name):
					b.WriteString("A")
				default:
					b.WriteString("a")
				}
			}
		case "ptr":
			b.WriteString("2")
		case "slice":
			b.WriteString("3")
		case "array":
			b.WriteString("4")
		case "map":
			b.WriteString("5")
		case "named":
			b.WriteString("6")
		case "self":
			b.WriteString("7")
		case "basic":
			if t.B == "int" {
				b.WriteString("8")
			} else {
				b.WriteString("9" + t.B)
			}
		}
		b.WriteString(",")
		for _, c := range t.Children() {
			walk(c)
		}
	}
	walk(t)
	return b.String()
}

// Less is the well-founded shrinking order.
func (t *Type) Less(u *Type) bool {
	if a, b := t.ShrinkSize(), u.ShrinkSize(); a != b {
		return a < b
	}
	if a, b := t.rankString(), u.rankString(); a != b {
		return a < b
	}
	return t.Canon() < u.Canon()
}

// positions enumerates pointers to every sub-term slot of a cloned term.
func slots(root **Type) []**Type {
	out := []**Type{root}
	t := *root
	switch t.K {
	case "named":
		out = append(out, slots(&t.U)...)
	case "ptr", "slice", "array":
		out = append(out, slots(&t.E)...)
	case "map":
		out = append(out, slots(&t.Key)...)
		out = append(out, slots(&t.E)...)
	case "struct":
		for i := range t.Fields {
			out = append(out, slots(&t.Fields[i].T)...)
		}
	}
	return out
}

func freshName(root *Type, base string) string {
	used := map[string]bool{}
	var walk func(t *Type)
	walk = func(t *Type) {
		if t.K == "struct" {
			used[t.Name] = true
		}
		for _, c := range t.Children() {
			walk(c)
		}
	}
	walk(root)
	for i := 1; ; i++ {
		n := fmt.Sprintf("%s%d", base, i)
		if !used[n] {
			return n
		}
	}
}

// replacements lists the one-step simplifications of the sub-term s (root is
// the whole term, for fresh names).
func replacements(root, s *Type) []*Type {
	var out []*Type
	// R1 hoist a component
	for _, ch := range s.Children() {
		out = append(out, ch.Clone())
	}
	switch s.K {
	case "basic":
		if s.B != "int" {
			out = append(out, Basic("int"))
		}
	case "self":
		out = append(out, Basic("int"))
	case "ptr", "slice", "array":
		out = append(out, Struct(freshName(root, "W"), "local", F("A", s.E.Clone())))
	case "map":
		out = append(out, Struct(freshName(root, "W"), "local", F("A", s.E.Clone())))
		if !(s.Key.K == "basic" && s.Key.B == "int") {
			out = append(out, Map(Basic("int"), s.E.Clone()))
		}
	case "struct":
		if len(s.Fields) > 1 {
			for i := range s.Fields {
				c := s.Clone()
				c.Fields = append(c.Fields[:i:i], c.Fields[i+1:]...)
				out = append(out, c)
			}
		}
		if s.Pkg == "ext" {
			c := s.Clone()
			c.Pkg = "local"
			out = append(out, c)
		}
		if s.Meth != "" { // towards the canonical method kind: value receiver, value argument
			for _, mk := range methOrder {
				if mk == s.Meth {
					break
				}
				c := s.Clone()
				c.Meth = mk
				out = append(out, c)
			}
		}
		for i, f := range s.Fields {
			if f.Emb {
				c := s.Clone()
				c.Fields[i].Emb = false
				c.Fields[i].Name = "E" + c.Fields[i].Name
				out = append(out, c)
			} else if !exported(f.Name) {
				c := s.Clone()
				c.Fields[i].Name = "X" + f.Name
				out = append(out, c)
			}
		}
	}
	return out
}

// Reductions returns every one-step simplification of t that is smaller in
// the shrinking order (TLC later decides which are well-formed).
func Reductions(t *Type) []*Type {
	seen := map[string]bool{t.Canon(): true}
	var out []*Type
	probe := t.Clone()
	n := len(slots(&probe))
	for i := 0; i < n; i++ {
		base := t.Clone()
		sl := slots(&base)
		sub := *sl[i]
		for _, rep := range replacements(base, sub) {
			c := t.Clone()
			cs := slots(&c)
			*cs[i] = rep
			if !c.Less(t) {
				continue
			}
			k := c.Canon()
			if seen[k] {
				continue
			}
			seen[k] = true
			out = append(out, c)
		}
	}
	sort.Slice(out, func(a, b int) bool { return out[a].Less(out[b]) })
	return out
}
