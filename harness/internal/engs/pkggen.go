package engs

import (
	_ "embed"
	"fmt"
	"os"
	"os/exec"
	"path/filepath"
	"regexp"
	"strings"
	"sync"
	"time"

	"verif/harness/internal/core"
	"verif/harness/internal/gd"
)

//go:embed leaftab.go
var leaftabSrc string

//go:embed drv/driver.go.txt
var driverSrc string

//go:embed drv/run.go.txt
var runSrc string

// Call describes one family of derive call sites generated per case, and how
// the driver reaches it. Other builders add families of their own (README.md).
type Call struct {
	Name string // e.g. "eq"
	// Site returns Go statements (placed in an init function) that contain the
	// derive call sites of the case: id is the case id, x the Go type
	// expression of the case type. registry[id] exists when they run.
	Site func(id, x string) string
}

var (
	CallEq = Call{"eq", func(id, x string) string {
		return fmt.Sprintf("\tregistry[%[1]q].eq = func(a, b interface{}) bool { return deriveEqual%[1]s(a.(%[2]s), b.(%[2]s)) }\n"+
			"\tregistry[%[1]q].eqc = func(a, b interface{}) bool { return deriveEqualC%[1]s(a.(%[2]s))(b.(%[2]s)) }\n", id, x)
	}}
	CallCmp = Call{"cmp", func(id, x string) string {
		return fmt.Sprintf("\tregistry[%[1]q].cmp = func(a, b interface{}) int { return deriveCompare%[1]s(a.(%[2]s), b.(%[2]s)) }\n"+
			"\tregistry[%[1]q].cmpc = func(a, b interface{}) int { return deriveCompareC%[1]s(a.(%[2]s))(b.(%[2]s)) }\n", id, x)
	}}
	CallHash = Call{"hash", func(id, x string) string {
		return fmt.Sprintf("\tregistry[%[1]q].hash = func(a interface{}) uint64 { return deriveHash%[1]s(a.(%[2]s)) }\n", id, x)
	}}
)

// screenStub replaces the driver in screening packages (no imports: the real
// goderive loads such a package in ~20 ms instead of ~600 ms).
const screenStub = `package main

type caseFns struct {
	eq, eqc   func(a, b interface{}) bool
	cmp, cmpc func(a, b interface{}) int
	hash      func(a interface{}) uint64
}

var registry = map[string]*caseFns{}

func main() {}
`

// PkgOpts: which call families a generated package contains, plus extra Go
// files (name -> content) compiled into the driver package (Extra) or into the
// import-free screening package (ScreenExtra).
type PkgOpts struct {
	Calls       []Call
	Extra       map[string]string
	ScreenExtra map[string]string
}

// GenPackage writes the module `m` for one batch of cases into dir:
// go.mod, ext/ext.go (imported structs), types.go, calls.go (the derive call
// sites, one registry entry per case) and either the driver + leaf table or,
// with screen, an import-free stub.
func GenPackage(dir string, cases []*Case, o PkgOpts, screen bool) error {
	if err := os.MkdirAll(dir, 0755); err != nil {
		return err
	}
	var local, ext, body strings.Builder
	for _, cs := range cases {
		g := NewGoGen(cs.ID)
		x := g.Expr(cs.T, "main", false)
		local.WriteString(g.LocalDecls())
		ext.WriteString(g.ExtDecls())
		if screen {
			fmt.Fprintf(&body, "\tregistry[%q] = &caseFns{}\n", cs.ID)
		} else {
			fmt.Fprintf(&body, "\tregistry[%q] = &caseFns{typ: reflect.TypeOf((*%s)(nil)).Elem()}\n", cs.ID, x)
		}
		for _, cl := range o.Calls {
			body.WriteString(cl.Site(cs.ID, x))
		}
	}
	files := map[string]string{"go.mod": "module m\n\ngo 1.24\n"}
	extra := o.Extra
	refl := "\t\"reflect\"\n"
	if screen {
		files["stub.go"] = screenStub
		extra = o.ScreenExtra
		refl = ""
	} else {
		files["driver.go"] = driverSrc
		files["run.go"] = runSrc
		files["leaftab.go"] = strings.Replace(leaftabSrc, "package engs", "package main", 1)
	}
	imp := func(text string) string {
		if strings.Contains(text, "ext.") {
			return "\t\"m/ext\"\n"
		}
		return ""
	}
	if ext.Len() > 0 {
		if err := os.MkdirAll(filepath.Join(dir, "ext"), 0755); err != nil {
			return err
		}
		files["ext/ext.go"] = "// Package ext holds the imported structs of the generated cases.\npackage ext\n\n" + ext.String()
	}
	files["calls.go"] = "package main\n\nimport (\n" + refl + imp(body.String()) + ")\n\nfunc init() {\n" + body.String() + "}\n"
	files["types.go"] = "package main\n\nimport (\n" + imp(local.String()) + ")\n\n" + local.String()
	for n, content := range extra {
		files[n] = content
	}
	for n, content := range files {
		if err := os.WriteFile(filepath.Join(dir, n), []byte(content), 0644); err != nil {
			return err
		}
	}
	return nil
}

// Built is a generated, derived and compiled package.
type Built struct {
	Dir   string
	Cases []*Case
	Drv   string // driver binary
}

type BuildStats struct {
	mu       sync.Mutex
	Skipped  []*Case        // goderive failed or its output does not compile: C01's business
	Reasons  []string       // first lines of the diagnostics for skipped cases
	Kinds    map[string]int // normalised diagnostic -> number of skipped cases
	Goderive int            // goderive runs
	Builds   int            // go build runs
}

func (s *BuildStats) skip(cs *Case, why string) {
	s.mu.Lock()
	s.Skipped = append(s.Skipped, cs)
	if s.Kinds == nil {
		s.Kinds = map[string]int{}
	}
	s.Kinds[normReason(firstLine(why))]++
	if len(s.Reasons) < 20 {
		s.Reasons = append(s.Reasons, cs.ID+" "+cs.T.String()+": "+firstLine(why))
	}
	s.mu.Unlock()
}

func firstLine(s string) string {
	s = strings.TrimSpace(s)
	for _, l := range strings.Split(s, "\n") {
		if strings.HasPrefix(l, "#") || strings.TrimSpace(l) == "" || strings.HasPrefix(l, "go build: #") {
			continue
		}
		if len(l) > 240 {
			l = l[:240]
		}
		return l
	}
	return s
}

// BuildBatch generates the package for cases, runs the REAL goderive on it and
// compiles the driver. When goderive fails or its output does not compile the
// batch is bisected; single cases that still fail are recorded as skipped.
func BuildBatch(c *core.Ctx, bin, dir string, cases []*Case, o PkgOpts, st *BuildStats) ([]*Built, error) {
	if len(cases) == 0 {
		return nil, nil
	}
	if err := GenPackage(dir, cases, o, false); err != nil {
		return nil, err
	}
	st.mu.Lock()
	st.Goderive++
	st.mu.Unlock()
	r, err := gd.Run(c, bin, dir, []string{"."}, "", 120*time.Second)
	if err != nil {
		return nil, err
	}
	why := ""
	if r.Exit != 0 {
		why = fmt.Sprintf("goderive exit %d: %s", r.Exit, r.Stderr+r.Stdout)
	} else {
		st.mu.Lock()
		st.Builds++
		st.mu.Unlock()
		cmd := exec.Command(c.GoBin, "build", "-o", "drv", ".")
		cmd.Dir = dir
		cmd.Env = c.GoEnv()
		out, err := cmd.CombinedOutput()
		if err == nil {
			return []*Built{{Dir: dir, Cases: cases, Drv: filepath.Join(dir, "drv")}}, nil
		}
		why = "go build: " + string(out)
	}
	if len(cases) == 1 {
		st.skip(cases[0], why)
		return nil, nil
	}
	mid := len(cases) / 2
	var res [2][]*Built
	var errs [2]error
	var wg sync.WaitGroup
	for h, part := range [][]*Case{cases[:mid], cases[mid:]} {
		wg.Add(1)
		go func(h int, part []*Case) {
			defer wg.Done()
			res[h], errs[h] = BuildBatch(c, bin, fmt.Sprintf("%s_%d", dir, h), part, o, st)
		}(h, part)
	}
	wg.Wait()
	for _, e := range errs {
		if e != nil {
			return nil, e
		}
	}
	return append(res[0], res[1]...), nil
}

var (
	rePos   = regexp.MustCompile(`\S*derived\.gen\.go:\d+:\d+: `)
	reIdent = regexp.MustCompile(`\b[TX]\d+(x\d+)?[A-Za-z0-9_]*`)
)

// normReason strips positions and case-specific identifiers from a diagnostic.
func normReason(s string) string {
	s = rePos.ReplaceAllString(s, "")
	s = reIdent.ReplaceAllString(s, "T")
	if len(s) > 160 {
		s = s[:160]
	}
	return s
}
