package engk

import (
	"fmt"
	"go/ast"
	"go/token"
	"go/types"
)

func simpleArg(e ast.Expr) bool {
	switch x := e.(type) {
	case *ast.Ident, *ast.BasicLit:
		return true
	case *ast.SelectorExpr:
		return simpleArg(x.X)
	}
	return false
}

func (r *rewriter) stmt(s ast.Stmt) ast.Stmt {
	switch x := s.(type) {
	case *ast.SendStmt:
		return &ast.ExprStmt{X: call(sel(r.expr(x.Chan), "Send"), r.expr(x.Value))}
	case *ast.GoStmt:
		c, ok := r.expr(x.Call).(*ast.CallExpr)
		if !ok {
			r.errf(x.Pos(), "go statement rewritten to a non-call")
			return s
		}
		if fl, ok := c.Fun.(*ast.FuncLit); ok && len(c.Args) == 0 {
			return &ast.ExprStmt{X: call(r.vs("Go"), fl)}
		}
		for _, a := range c.Args {
			if !simpleArg(a) {
				r.errf(x.Pos(), "go statement with computed arguments is not supported")
			}
		}
		if !simpleArg(c.Fun) {
			r.errf(x.Pos(), "go statement with a computed function is not supported")
		}
		body := &ast.BlockStmt{List: []ast.Stmt{&ast.ExprStmt{X: c}}}
		return &ast.ExprStmt{X: call(r.vs("Go"), &ast.FuncLit{Type: &ast.FuncType{Params: &ast.FieldList{}}, Body: body})}
	case *ast.LabeledStmt:
		if rs, ok := x.Stmt.(*ast.RangeStmt); ok && r.pre122 && r.isChan(rs.X) {
			r.errf(x.Pos(), "labeled range over a channel in a pre-go1.22 file is not supported")
		}
	case *ast.RangeStmt:
		isCh := r.isChan(x.X)
		var elem types.Type
		if isCh {
			elem = r.info.TypeOf(x.X).Underlying().(*types.Chan).Elem()
		}
		r.children(x)
		if isCh && r.pre122 {
			return r.rangePre122(x, elem)
		}
		if isCh {
			x.X = sel(x.X, "Range")
		}
		return x
	case *ast.AssignStmt:
		if len(x.Lhs) == 2 && len(x.Rhs) == 1 {
			if u, ok := ast.Unparen(x.Rhs[0]).(*ast.UnaryExpr); ok && u.Op == token.ARROW {
				for i := range x.Lhs {
					x.Lhs[i] = r.expr(x.Lhs[i])
				}
				x.Rhs[0] = call(sel(r.expr(u.X), "Recv2"))
				return x
			}
		}
	case *ast.DeclStmt:
		if gd, ok := x.Decl.(*ast.GenDecl); ok {
			for _, sp := range gd.Specs {
				if vs, ok := sp.(*ast.ValueSpec); ok && len(vs.Names) == 2 && len(vs.Values) == 1 {
					if u, ok := ast.Unparen(vs.Values[0]).(*ast.UnaryExpr); ok && u.Op == token.ARROW {
						r.errf(x.Pos(), "var v, ok = <-c is not supported")
					}
				}
			}
		}
	case *ast.SelectStmt:
		return r.selectStmt(x)
	}
	r.children(s)
	return s
}

func addr(e ast.Expr) ast.Expr {
	if id, ok := e.(*ast.Ident); ok && id.Name == "_" {
		return ast.NewIdent("nil")
	}
	return &ast.UnaryExpr{Op: token.AND, X: e}
}

func varDecl(name string, typ ast.Expr) ast.Stmt {
	return &ast.DeclStmt{Decl: &ast.GenDecl{Tok: token.VAR, Specs: []ast.Spec{
		&ast.ValueSpec{Names: []*ast.Ident{ast.NewIdent(name)}, Type: typ}}}}
}

// selectStmt rewrites a select over receive cases into
//
//	{ var v T; var ok bool; switch vsched.Select(c.CaseRecv(&v, &ok), ...) { case 0: ... } }
func (r *rewriter) selectStmt(s *ast.SelectStmt) ast.Stmt {
	var decls []ast.Stmt
	var cases []ast.Expr
	sw := &ast.SwitchStmt{Body: &ast.BlockStmt{}}
	for i, cl := range s.Body.List {
		cc := cl.(*ast.CommClause)
		var recv *ast.UnaryExpr
		var lhs []ast.Expr
		define := false
		switch c := cc.Comm.(type) {
		case nil:
			r.errf(cc.Pos(), "select with a default case is not supported")
			return s
		case *ast.SendStmt:
			r.errf(cc.Pos(), "select with a send case is not supported")
			return s
		case *ast.ExprStmt:
			recv, _ = ast.Unparen(c.X).(*ast.UnaryExpr)
		case *ast.AssignStmt:
			recv, _ = ast.Unparen(c.Rhs[0]).(*ast.UnaryExpr)
			lhs, define = c.Lhs, c.Tok == token.DEFINE
		}
		if recv == nil || recv.Op != token.ARROW {
			r.errf(cc.Pos(), "unrecognised select case")
			return s
		}
		ct, _ := r.info.TypeOf(recv.X).Underlying().(*types.Chan)
		args := []ast.Expr{ast.NewIdent("nil"), ast.NewIdent("nil")}
		for k, l := range lhs {
			id, isID := l.(*ast.Ident)
			if isID && id.Name == "_" {
				continue
			}
			if define {
				var typ ast.Expr = ast.NewIdent("bool")
				if k == 0 {
					typ = r.typeExpr(ct.Elem(), cc.Pos())
				}
				decls = append(decls, varDecl(id.Name, typ))
				args[k] = addr(ast.NewIdent(id.Name))
			} else {
				args[k] = addr(r.expr(l))
			}
		}
		cases = append(cases, call(sel(r.expr(recv.X), "CaseRecv"), args...))
		body := make([]ast.Stmt, len(cc.Body))
		for k, b := range cc.Body {
			body[k] = r.stmt(b)
		}
		sw.Body.List = append(sw.Body.List, &ast.CaseClause{List: []ast.Expr{intLit(i)}, Body: body})
	}
	sw.Tag = call(r.vs("Select"), cases...)
	return &ast.BlockStmt{List: append(decls, sw)}
}

// typeExpr prints a type as an expression of the rewritten program.
func (r *rewriter) typeExpr(t types.Type, pos token.Pos) ast.Expr {
	switch x := t.(type) {
	case *types.Basic:
		return ast.NewIdent(x.Name())
	case *types.Chan:
		return r.chanOf(r.typeExpr(x.Elem(), pos))
	case *types.Pointer:
		return &ast.StarExpr{X: r.typeExpr(x.Elem(), pos)}
	case *types.Slice:
		return &ast.ArrayType{Elt: r.typeExpr(x.Elem(), pos)}
	case *types.Named:
		if x.Obj().Pkg() == nil {
			return ast.NewIdent(x.Obj().Name()) // error
		}
		if x.TypeArgs().Len() == 0 {
			// same package: bare name; other packages: their (unaliased) package name
			return ast.NewIdent(x.Obj().Name())
		}
	}
	r.errf(pos, "cannot print type %s", fmt.Sprint(t))
	return ast.NewIdent("any")
}

// rangePre122 rewrites `for v := range c { body }` for files below go1.22, where range-over-func
// does not exist and v is ONE variable shared by all iterations; c is evaluated once, as Go does:
//
//	{ vschedCh := c; var v T; for { var vschedOk bool; v, vschedOk = vschedCh.Recv2(); if !vschedOk { break }; body } }
func (r *rewriter) rangePre122(x *ast.RangeStmt, elem types.Type) ast.Stmt {
	ch, ok := ast.NewIdent("vschedCh"), ast.NewIdent("vschedOk")
	var pre []ast.Stmt
	pre = append(pre, &ast.AssignStmt{Lhs: []ast.Expr{ch}, Tok: token.DEFINE, Rhs: []ast.Expr{x.X}})
	var lhs ast.Expr = ast.NewIdent("_")
	if x.Key != nil {
		lhs = x.Key
		if id, isID := x.Key.(*ast.Ident); isID && x.Tok == token.DEFINE && id.Name != "_" {
			pre = append(pre, varDecl(id.Name, r.typeExpr(elem, x.Pos())))
			lhs = ast.NewIdent(id.Name)
		}
	}
	body := []ast.Stmt{
		varDecl("vschedOk", ast.NewIdent("bool")),
		&ast.AssignStmt{Lhs: []ast.Expr{lhs, ok}, Tok: token.ASSIGN, Rhs: []ast.Expr{call(sel(ast.NewIdent("vschedCh"), "Recv2"))}},
		&ast.IfStmt{Cond: &ast.UnaryExpr{Op: token.NOT, X: ast.NewIdent("vschedOk")}, Body: &ast.BlockStmt{List: []ast.Stmt{&ast.BranchStmt{Tok: token.BREAK}}}},
	}
	body = append(body, x.Body.List...)
	return &ast.BlockStmt{List: append(pre, &ast.ForStmt{Body: &ast.BlockStmt{List: body}})}
}
