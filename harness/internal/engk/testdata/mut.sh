#!/bin/sh
# usage: mut.sh <name> <prop> ; applies mutant <name> to /tmp/wt-k (after resetting), verifies build+tests, runs check
. /tmp/goenv.sh
name=$1; prop=${2:-C19}
git -C /tmp/wt-k checkout -q -- . ; git -C /tmp/wt-k clean -fdxq
python3 /verif/harness/internal/engk/testdata/mutants.py $name || exit 3
(cd /tmp/wt-k && $GO build -o /dev/null . ) || { echo "MUTANT $name: does not build"; exit 4; }
for try in 1 2 3 4; do
  git -C /tmp/wt-k clean -fdxq
  (cd /tmp/wt-k && $GO test -vet=off -count=1 ./... > /tmp/k-tlc/mut-$name.test 2>&1)
  # TestGoString is randomised and flaky on the unchanged tree too (generates a file with an unused import): retry
  grep -q "gostring_gen_test.go" /tmp/k-tlc/mut-$name.test || break
done
git -C /tmp/wt-k clean -fdxq
if grep -E "^(FAIL|---)" /tmp/k-tlc/mut-$name.test | grep -v "gopath2/src/package2" | grep -qv "^FAIL$"; then echo "MUTANT $name: tests fail"; grep -E "^(FAIL|---)" /tmp/k-tlc/mut-$name.test; exit 4; fi
cd /verif && VERIF_PROCS=6 VERIF_REPO=/tmp/wt-k timeout 1500 bin/vcheck-k $prop --tier quick > /tmp/k-tlc/mut-$name.log 2>&1
echo "MUTANT $name: exit=$? $(grep -c '^VIOLATION' /tmp/k-tlc/mut-$name.log) violations"
grep -E "witness:|INFRA" /tmp/k-tlc/mut-$name.log | cut -c1-220
