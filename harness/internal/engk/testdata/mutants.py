import sys,re
W='/tmp/wt-k/plugin/'
def sub(path, old, new, count=1):
    s=open(W+path).read()
    assert s.count(old)>=1, (path, old)
    s=s.replace(old,new,count)
    open(W+path,'w').write(s)
m=sys.argv[1]
J='join/join.go'
if m=='join-add-inside':      # wait.Add(1) moved inside the forwarder goroutine (genChan)
    sub(J,'\tp.P("wait.Add(1)")\n\tp.P("res := c")\n\tp.P("go func() {")\n\tp.In()\n','\tp.P("res := c")\n\tp.P("go func() {")\n\tp.In()\n\tp.P("wait.Add(1)")\n',1)
elif m=='join-close-before-wait':
    sub(J,'\tp.P("wait.Wait()")\n\tp.P("close(out)")','\tp.P("close(out)")\n\tp.P("wait.Wait()")',1)
elif m=='joinslice-close-before-wait':
    s=open(W+J).read(); i=s.rindex('\tp.P("wait.Wait()")\n\tp.P("close(out)")'); s=s[:i]+'\tp.P("close(out)")\n\tp.P("wait.Wait()")'+s[i+len('\tp.P("wait.Wait()")\n\tp.P("close(out)")'):]; open(W+J,'w').write(s)
elif m=='joinvar-no-nil':     # variadic join not nil-ing a closed input
    sub(J,'\t\tp.P("c%d = nil", i)\n','\t\tp.P("_ = c%d", i)\n')
elif m=='join-drop-last':     # forwarder drops the last item of its input (sends the previous one when the next arrives)
    sub(J,'\tp.P("for r := range res {")\n\tp.In()\n\tp.P("out <- r")\n\tp.Out()\n\tp.P("}")\n\tp.P("wait.Done()")',
          '\tp.P("var prev *%s", typStr)\n\tp.P("for r := range res {")\n\tp.In()\n\tp.P("if prev != nil {")\n\tp.In()\n\tp.P("out <- *prev")\n\tp.Out()\n\tp.P("}")\n\tp.P("rr := r")\n\tp.P("prev = &rr")\n\tp.Out()\n\tp.P("}")\n\tp.P("wait.Done()")',1)
elif m=='dup-close-in-loop':  # closing one output inside the loop
    sub('dup/dup.go','\tp.P("cc2 <- v")\n','\tp.P("cc2 <- v")\n\tp.P("if len(cc1) == cap(cc1) {")\n\tp.In()\n\tp.P("close(cc1)")\n\tp.P("cc1 = nil")\n\tp.Out()\n\tp.P("}")\n')
    sub('dup/dup.go','\tp.P("close(cc1)")\n\tp.P("close(cc2)")','\tp.P("if cc1 != nil {")\n\tp.In()\n\tp.P("close(cc1)")\n\tp.Out()\n\tp.P("}")\n\tp.P("close(cc2)")')
elif m=='dup-first-only-one': # first item sent to only one output
    sub('dup/dup.go','\tp.P("for v := range c {")\n\tp.In()\n\tp.P("cc1 <- v")\n\tp.P("cc2 <- v")','\tp.P("first := true")\n\tp.P("for v := range c {")\n\tp.In()\n\tp.P("cc1 <- v")\n\tp.P("if !first {")\n\tp.In()\n\tp.P("cc2 <- v")\n\tp.Out()\n\tp.P("}")\n\tp.P("first = false")')
elif m=='fmap-close-early':   # close before the loop ends: closes after the first item
    sub('fmap/fmap.go','\tp.P("out <- b")\n\tp.Out()\n\tp.P("}")\n\tp.P("close(out)")','\tp.P("out <- b")\n\tp.P("break")\n\tp.Out()\n\tp.P("}")\n\tp.P("close(out)")')
elif m=='fmap-two-workers':   # two goroutines range over in: order no longer preserved, double close
    sub('fmap/fmap.go','\tp.P("go func() {")\n\tp.In()\n\tp.P("for a := range in {")','\tp.P("for w := 0; w < 2; w++ {")\n\tp.P("go func() {")\n\tp.In()\n\tp.P("for a := range in {")')
    sub('fmap/fmap.go','\tp.P("close(out)")\n\tp.Out()\n\tp.P("}()")\n\tp.P("return out")','\tp.P("if w == 1 {")\n\tp.P("close(out)")\n\tp.P("}")\n\tp.Out()\n\tp.P("}()")\n\tp.P("}")\n\tp.P("return out")')
elif m=='pipeline-double':    # pipeline feeds f's channel to two fmaps? -> breaks exactly-once: g applied twice per item
    sub('pipeline/pipeline.go','p.P("return %s(%s(g, b))", ccstr, fmapFunc)','p.P("return %s(%s(func(x %s) <-chan %s { g(x); return g(x) }, b))", ccstr, fmapFunc, g.TypeString(b1), cstr)')
elif m=='do-recv-in-spawn-loop':  # receive right after each spawn: serialises the functions
    sub('do/do.go','\t\tp.P("}()")\n\t}\n\tp.P("var err error")\n\tp.P("for i := 0; i < %d; i++ {", len(typs))\n\tp.In()\n\tp.P("errc := <-errChan")',
        '\t\tp.P("}()")\n\t\tp.P("errs = append(errs, <-errChan)")\n\t}\n\tp.P("var err error")\n\tp.P("for i := 0; i < %d; i++ {", len(typs))\n\tp.In()\n\tp.P("errc := errs[i]")')
    sub('do/do.go','\tp.P("errChan := make(chan error)")','\tp.P("errChan := make(chan error)")\n\tp.P("var errs []error")')
elif m=='do-n-1-receives':
    sub('do/do.go','p.P("for i := 0; i < %d; i++ {", len(typs))','p.P("for i := 0; i < %d; i++ {", len(typs)-1)')
elif m=='do-read-before-recv':   # buffered errChan, results read before the receives
    sub('do/do.go','p.P("errChan := make(chan error)")','p.P("errChan := make(chan error, %d)", len(typs))')
    sub('do/do.go','\tp.P("var err error")\n','\tfor i := range typs {\n\t\tp.P("r%d := v%d", i, i)\n\t}\n\tp.P("var err error")\n')
    sub('do/do.go','p.P("return %s, err", strings.Join(vars, ", "))','p.P("return %s, err", strings.ReplaceAll(strings.Join(vars, ", "), "v", "r"))')
elif m=='refactor-fmap-unbuffered':   # legitimate: output channel unbuffered instead of cap(in)
    sub('fmap/fmap.go','p.P("out := make(chan %s, cap(in))", outerStr)','p.P("out := make(chan %s)", outerStr)')
elif m=='refactor-join-buffered-out': # legitimate: join output buffered, Add(1) hoisted as one Add(len) is NOT done; only buffer
    sub('join/join.go','p.P("out := make(chan %s)", typStr)','p.P("out := make(chan %s, 1)", typStr)',3)
else:
    sys.exit("unknown mutant "+m)
