package engk

import (
	"fmt"
	"os"
	"sort"
	"strconv"
	"strings"
	"sync"
	"time"

	"verif/harness/internal/core"
	"verif/harness/internal/engk/drv/obs"
	"verif/harness/internal/tlc"
)

// plan is what one property check explores.
type plan struct {
	prop     string
	cfgs     []obs.Cfg // exhaustive search of the real code
	mc       []mcRun   // TLC model checking of the combinator modules
	simCfg   string    // ConcSim configuration
	nSim     int       // TLC-simulated behaviours replayed into the real code
	stress   float64   // seconds of race-detector stress
	realCfgs []obs.Cfg // unrewritten code: cross-check + stress
	procs    int
	logRuns  int
	logLines int
	// language-version variant (generated file compiled as go1.21, goroutine starts are scheduling points)
	langCfgs    []obs.Cfg
	langStress  float64
	startPoints bool
	tag         string
	evSuffix    string
}

type mcRun struct {
	name    string
	cfgText string
	workers int
}

// nprocs is the parallelism of the check (16 cores by default; VERIF_PROCS overrides).
func nprocs() int {
	if n, err := strconv.Atoi(os.Getenv("VERIF_PROCS")); err == nil && n > 0 {
		return n
	}
	return 16
}

func dedup(cs []obs.Cfg) []obs.Cfg {
	seen := map[string]bool{}
	var out []obs.Cfg
	for _, c := range cs {
		if !seen[c.ID()] {
			seen[c.ID()] = true
			out = append(out, c)
		}
	}
	return out
}

func cfgSize(c obs.Cfg) int {
	n := len(c.Items)*3 + c.Cap + len(c.Fail)*3
	for _, k := range c.Items {
		n += 10 * k
	}
	for _, f := range c.Fail {
		if f != 0 {
			n++
		}
	}
	if c.Rv {
		n += 2
	}
	if c.Ring {
		n += 4
	}
	if c.Form == "s" {
		n++
	}
	return n
}

func cfgLess(a, b obs.Cfg) bool {
	if cfgSize(a) != cfgSize(b) {
		return cfgSize(a) < cfgSize(b)
	}
	return a.ID() < b.ID()
}

// finding groups the failing runs of one (combinator, reason).
type finding struct {
	comb, why string
	cfg       obs.Cfg
	detail    string
	replay    map[string]interface{}
	n         int
}

type findings struct {
	mark string // appended to every reason (e.g. " lang=go1.21")
	mu   sync.Mutex
	m    map[string]*finding
}

func (fs *findings) add(cfg obs.Cfg, why, detail string, replay map[string]interface{}) {
	fs.mu.Lock()
	defer fs.mu.Unlock()
	if fs.m == nil {
		fs.m = map[string]*finding{}
	}
	why += fs.mark
	key := cfg.Comb + "|" + why
	f := fs.m[key]
	if f == nil {
		f = &finding{comb: cfg.Comb, why: why, cfg: cfg, detail: detail, replay: replay}
		fs.m[key] = f
	} else if cfgLess(cfg, f.cfg) {
		f.cfg, f.detail, f.replay = cfg, detail, replay
	}
	f.n++
}

func (fs *findings) report(c *core.Ctx) {
	var keys []string
	for k := range fs.m {
		keys = append(keys, k)
	}
	sort.Strings(keys)
	for _, k := range keys {
		f := fs.m[k]
		c.Report(fmt.Sprintf("%s %s: %s :: %s", c.Prop, f.comb, f.why, f.cfg.ID()),
			fmt.Sprintf("%d failing configurations/runs for this reason; smallest: %s", f.n, f.detail), f.replay)
	}
}

// chaosMC: the misuse scripts of Chaos.tla must each end in exactly their runtime panic.
func chaosMC() mcRun {
	return mcRun{name: "chaos: every runtime panic of GoChan is reached by its misuse script", workers: 1,
		cfgText: "SPECIFICATION MCSpec\nCONSTANTS\n  Combs = {\"chaos\"}\n  MaxInputs = 0\n  MaxItems = 0\n  MaxCap = 0\nINVARIANTS ChaosPanics ChaosNoEarlyPanic CanStepIsEnabled\nCHECK_DEADLOCK FALSE\n"}
}

// runMC model-checks the combinator modules.
func runMC(c *core.Ctx, runs []mcRun) (states, trans int, details []map[string]interface{}, err error) {
	type out struct {
		res *tlc.Result
		err error
	}
	outs := make([]out, len(runs))
	var wg sync.WaitGroup
	sem := make(chan struct{}, max(2, nprocs()/4))
	for i, r := range runs {
		wg.Add(1)
		go func(i int, r mcRun) {
			defer wg.Done()
			sem <- struct{}{}
			defer func() { <-sem }()
			w := r.workers
			if w == 0 {
				w = 1
			}
			// TLC was seen to hang once (30 min, 2.6k-state model, 4 workers, machine at load 140):
			// bounded timeout and one retry with a single worker
			for attempt := 0; attempt < 2; attempt++ {
				outs[i].res, outs[i].err = tlc.Run(tlc.Opts{
					SpecDirs: []string{specDir(c)}, Module: "ConcMC", Config: "mc.cfg",
					Files:   map[string]string{"mc.cfg": r.cfgText},
					Workers: w, Timeout: 14 * time.Minute, HeapMB: 6000, Scratch: c.Work,
				})
				if outs[i].err == nil || !strings.Contains(outs[i].err.Error(), "timed out") {
					break
				}
				c.Warn(fmt.Sprintf("ConcMC %s: TLC timed out, retrying with one worker", r.name))
				w = 1
			}
		}(i, r)
	}
	wg.Wait()
	for i, o := range outs {
		if o.err != nil {
			return 0, 0, nil, fmt.Errorf("ConcMC %s: %v", runs[i].name, o.err)
		}
		if o.res.Violation {
			// a counterexample on the model is a lead, not a verdict on the code
			return 0, 0, nil, fmt.Errorf("the combinator model ConcMC (%s) violates its own properties (specification needs fixing): %s", runs[i].name, o.res.ErrText)
		}
		states += o.res.Distinct
		trans += o.res.Generated
		details = append(details, map[string]interface{}{"config": runs[i].name, "states": o.res.Distinct, "transitions": o.res.Generated, "wall_s": int(o.res.Wall.Seconds()*10) / 10.0})
	}
	return states, trans, details, nil
}

// spread distributes configurations over procs jobs, big ones first.
func spread(cfgs []obs.Cfg, procs int) [][]obs.Cfg {
	s := append([]obs.Cfg(nil), cfgs...)
	sort.SliceStable(s, func(i, j int) bool { return cfgLess(s[j], s[i]) })
	if procs > len(s) {
		procs = len(s)
	}
	parts := make([][]obs.Cfg, procs)
	for i, c := range s {
		parts[i%procs] = append(parts[i%procs], c)
	}
	return parts
}

// explore runs the exhaustive search of the real rewritten code.
func explore(c *core.Ctx, b *Built, p *plan) ([]VsResult, []string, error) {
	parts := spread(p.cfgs, p.procs)
	type out struct {
		o   *VsOut
		err error
	}
	outs := make([]out, len(parts))
	var wg sync.WaitGroup
	for i := range parts {
		wg.Add(1)
		go func(i int) {
			defer wg.Done()
			job := VsJob{Mode: "dfs", Cfgs: parts[i], POR: true, MaxSteps: 600, LogRuns: p.logRuns, LogLines: p.logLines, Tag: fmt.Sprintf("%sd%d.", p.tag, i), StartPoints: p.startPoints}
			outs[i].o, outs[i].err = RunVs(c, b, job, fmt.Sprintf("%sdfs%d", p.tag, i), 40*time.Minute)
		}(i)
	}
	wg.Wait()
	var rs []VsResult
	var traces []string
	for _, o := range outs {
		if o.err != nil {
			return nil, nil, o.err
		}
		rs = append(rs, o.o.Results...)
		traces = append(traces, o.o.Trace)
	}
	sort.Slice(rs, func(i, j int) bool { return cfgLess(rs[i].Cfg, rs[j].Cfg) })
	return rs, traces, nil
}

func short(s string, n int) string {
	s = strings.TrimSpace(s)
	if len(s) > n {
		return s[:n] + "..."
	}
	return s
}
