package engk

import (
	"bytes"
	"fmt"
	"go/ast"
	"go/format"
	"go/importer"
	"go/parser"
	"go/token"
	"go/types"
	"go/version"
	"os"
	"path/filepath"
	"sort"
	"strconv"
	"strings"
)

// modImporter resolves the scratch module's own packages from source and
// everything else through the standard source importer.
type modImporter struct {
	fset   *token.FileSet
	module string // module path, e.g. "m"
	root   string // module root directory
	std    types.Importer
	cache  map[string]*types.Package
}

func (m *modImporter) Import(path string) (*types.Package, error) {
	if p, ok := m.cache[path]; ok {
		return p, nil
	}
	if path != m.module && !strings.HasPrefix(path, m.module+"/") {
		return m.std.Import(path)
	}
	dir := filepath.Join(m.root, strings.TrimPrefix(strings.TrimPrefix(path, m.module), "/"))
	files, err := parseDir(m.fset, dir)
	if err != nil {
		return nil, err
	}
	conf := types.Config{Importer: m}
	p, err := conf.Check(path, m.fset, files, nil)
	if err != nil {
		return nil, err
	}
	m.cache[path] = p
	return p, nil
}

func parseDir(fset *token.FileSet, dir string) ([]*ast.File, error) {
	ents, err := os.ReadDir(dir)
	if err != nil {
		return nil, err
	}
	var names []string
	for _, e := range ents {
		if !e.IsDir() && strings.HasSuffix(e.Name(), ".go") && !strings.HasSuffix(e.Name(), "_test.go") {
			names = append(names, e.Name())
		}
	}
	sort.Strings(names)
	var files []*ast.File
	for _, n := range names {
		f, err := parser.ParseFile(fset, filepath.Join(dir, n), nil, parser.ParseComments)
		if err != nil {
			return nil, err
		}
		files = append(files, f)
	}
	return files, nil
}

// RewritePackage type-checks the package in srcDir (import path srcPath of
// module `module` rooted at root) and writes the rewritten files to dstDir.
// Returns the number of rewritten operations' sites is not needed: an error
// lists every construct the rewriter refuses.
func RewritePackage(root, module, srcPath, srcDir, dstDir, vschedPath string) error {
	fset := token.NewFileSet()
	files, err := parseDir(fset, srcDir)
	if err != nil {
		return err
	}
	imp := &modImporter{fset: fset, module: module, root: root,
		std: importer.ForCompiler(fset, "source", nil), cache: map[string]*types.Package{}}
	info := &types.Info{Types: map[ast.Expr]types.TypeAndValue{}, Uses: map[*ast.Ident]types.Object{}, Defs: map[*ast.Ident]types.Object{}}
	conf := types.Config{Importer: imp}
	if _, err := conf.Check(srcPath, fset, files, info); err != nil {
		return fmt.Errorf("generated package does not type-check: %v", err)
	}
	if err := os.MkdirAll(dstDir, 0755); err != nil {
		return err
	}
	r := &rewriter{info: info}
	for _, f := range files {
		r.used = false
		r.pre122 = f.GoVersion != "" && version.Compare(f.GoVersion, "go1.22") < 0
		for _, d := range f.Decls {
			r.children(d)
		}
		fixImports(f, r.used, vschedPath)
		// positions of synthesised nodes are zero: drop comments so that format does not misplace them
		f.Comments = nil
		var buf bytes.Buffer
		if err := format.Node(&buf, fset, f); err != nil {
			return fmt.Errorf("printing rewritten %s: %v", fset.File(f.Pos()).Name(), err)
		}
		name := filepath.Base(fset.File(f.Pos()).Name())
		out := buf.Bytes()
		if f.GoVersion != "" { // comments were dropped: put the file's language version back
			out = append([]byte("//go:build "+f.GoVersion+"\n\n"), out...)
		}
		if err := os.WriteFile(filepath.Join(dstDir, name), out, 0644); err != nil {
			return err
		}
	}
	if len(r.errs) > 0 {
		return fmt.Errorf("rewriter: unsupported constructs:\n  %s", strings.Join(r.errs, "\n  "))
	}
	return nil
}

// fixImports drops "sync" when nothing refers to it any more and adds vsched.
func fixImports(f *ast.File, used bool, vschedPath string) {
	syncUsed := false
	ast.Inspect(f, func(n ast.Node) bool {
		if s, ok := n.(*ast.SelectorExpr); ok {
			if id, ok := s.X.(*ast.Ident); ok && id.Name == "sync" {
				syncUsed = true
			}
		}
		return true
	})
	var decls []ast.Decl
	done := false
	for _, d := range f.Decls {
		gd, ok := d.(*ast.GenDecl)
		if !ok || gd.Tok != token.IMPORT {
			decls = append(decls, d)
			continue
		}
		var specs []ast.Spec
		for _, s := range gd.Specs {
			is := s.(*ast.ImportSpec)
			if p, _ := strconv.Unquote(is.Path.Value); p == "sync" && !syncUsed {
				continue
			}
			specs = append(specs, s)
		}
		if used && !done {
			specs = append(specs, &ast.ImportSpec{Name: ast.NewIdent(vsName), Path: &ast.BasicLit{Kind: token.STRING, Value: strconv.Quote(vschedPath)}})
			done = true
		}
		gd.Specs = specs
		if len(specs) > 0 {
			gd.Lparen = 1 // force the parenthesised form
			decls = append(decls, gd)
		}
	}
	if used && !done {
		gd := &ast.GenDecl{Tok: token.IMPORT, Specs: []ast.Spec{
			&ast.ImportSpec{Name: ast.NewIdent(vsName), Path: &ast.BasicLit{Kind: token.STRING, Value: strconv.Quote(vschedPath)}}}}
		decls = append([]ast.Decl{gd}, decls...)
	}
	f.Decls = decls
	f.Imports = nil
}
