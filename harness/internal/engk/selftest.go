package engk

import (
	"bufio"
	"encoding/json"
	"fmt"
	"os"
	"path/filepath"

	"verif/harness/internal/core"
)

// bindingSelfTest demonstrates on every run that trace validation is not
// vacuous: one recorded step of a real schedule is corrupted by hand (the
// capacity of a channel in the logged state is changed) and both trace
// specifications must reject exactly that line.
func bindingSelfTest(c *core.Ctx, trace string) error {
	f, err := os.Open(trace)
	if err != nil {
		return err
	}
	defer f.Close()
	var run []map[string]interface{}
	sc := bufio.NewScanner(f)
	sc.Buffer(make([]byte, 1<<20), 1<<28)
	for sc.Scan() {
		var m map[string]interface{}
		if err := json.Unmarshal(sc.Bytes(), &m); err != nil {
			return err
		}
		if m["ev"] == "start" {
			if len(run) >= 8 {
				break
			}
			run = nil
		}
		run = append(run, m)
	}
	if len(run) < 8 {
		return fmt.Errorf("binding self-test: no recorded schedule with at least 6 steps")
	}
	target := len(run) / 2
	st := run[target]["st"].(map[string]interface{})
	chs := st["ch"].([]interface{})
	if len(chs) == 0 {
		return fmt.Errorf("binding self-test: no channel in the chosen state")
	}
	ch0 := chs[0].(map[string]interface{})
	ch0["cap"] = ch0["cap"].(float64) + 1
	p := filepath.Join(c.Work, "selftest.ndjson")
	of, err := os.Create(p)
	if err != nil {
		return err
	}
	w := bufio.NewWriter(of)
	for _, m := range run {
		m["run"] = "selftest-corrupt"
		ev := m["ev"].(string)
		delete(m, "ev")
		b, _ := json.Marshal(m)
		fmt.Fprintf(w, `{"ev":%q,%s`+"\n", ev, b[1:]) // the splitter recognises runs by the leading "ev"

	}
	w.Flush()
	of.Close()
	st2, err := Validate(c, []string{p}, "selftest")
	if err != nil {
		return err
	}
	okA := len(st2.Bad) == 1 && st2.Bad[0].Kind == "infra" && st2.Bad[0].L == target+1
	// ConcConform rejects there too, unless the uncorrupted schedule already left the module earlier (drift)
	okB := len(st2.Drift) == 1 && st2.Drift[0].L <= target+1
	if !okA || !okB {
		return fmt.Errorf("binding self-test failed: a hand-corrupted step (line %d) was not rejected exactly there: ConcTrace %v, ConcConform %v", target+1, st2.Bad, st2.Drift)
	}
	c.Set("binding_selftest", fmt.Sprintf("corrupted channel capacity in the logged state of step %d of a real schedule: rejected at that line by ConcTrace and ConcConform", target))
	return nil
}
