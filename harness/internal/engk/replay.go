package engk

import (
	"fmt"
	"sync"
	"time"

	"verif/harness/internal/core"
)

// ReplayStats summarises mode (b): TLC behaviours forced onto the real code.
type ReplayStats struct {
	Behaviours int
	Steps      int
	Matched    int      // behaviours reproduced step by step with identical projected states
	Diverged   []string // descriptions of behaviours the real code did not follow (DRIFT)
	Traces     []string // schedule files of the replays (validated by ConcTrace as well)
	Failures   []VsFailure
	FailCfg    []string
	Wall       time.Duration
}

// ReplayAll replays every behaviour into the rewritten real code: each TLC
// step must be enabled, and after each step the projected state of the real
// execution must equal TLC's state.
func ReplayAll(c *core.Ctx, b *Built, bs []Behaviour, name string, procs int) (*ReplayStats, error) {
	start := time.Now()
	st := &ReplayStats{Behaviours: len(bs)}
	if len(bs) == 0 {
		return st, nil
	}
	if procs < 1 {
		procs = 1
	}
	if procs > len(bs) {
		procs = len(bs)
	}
	type part struct {
		lo, hi int
		out    *VsOut
		err    error
	}
	parts := make([]part, procs)
	per := (len(bs) + procs - 1) / procs
	var wg sync.WaitGroup
	for p := 0; p < procs; p++ {
		lo, hi := p*per, (p+1)*per
		if hi > len(bs) {
			hi = len(bs)
		}
		parts[p].lo, parts[p].hi = lo, hi
		if lo >= hi {
			continue
		}
		wg.Add(1)
		go func(p int) {
			defer wg.Done()
			job := VsJob{Mode: "replay"}
			for i := parts[p].lo; i < parts[p].hi; i++ {
				cfg := bs[i].Cfg
				switch cfg.Comb { // the model does not distinguish the directional variants
				case "dup", "joinchan", "joinslice", "joinvar":
					cfg.Form = []string{"r", "s"}[i%2]
				}
				job.Replays = append(job.Replays, Replay{ID: fmt.Sprintf("%s%d", name, i), Cfg: cfg, Keys: bs[i].Keys()})
			}
			parts[p].out, parts[p].err = RunVs(c, b, job, fmt.Sprintf("replay-%s-%d", name, p), 20*time.Minute)
		}(p)
	}
	wg.Wait()
	for p := range parts {
		if parts[p].lo >= parts[p].hi {
			continue
		}
		if parts[p].err != nil {
			return nil, parts[p].err
		}
		out := parts[p].out
		st.Traces = append(st.Traces, out.Trace)
		runs, err := readTraceRuns(out.Trace)
		if err != nil {
			return nil, err
		}
		for k, ro := range out.Replays {
			i := parts[p].lo + k
			beh := &bs[i]
			lines := runs[ro.ID]
			st.Steps += ro.Steps
			if ro.Class != "" {
				st.Failures = append(st.Failures, VsFailure{Class: ro.Class, Detail: ro.Detail, Keys: beh.Keys(), Run: ro.ID})
				st.FailCfg = append(st.FailCfg, beh.Cfg.ID())
			}
			why := ""
			switch {
			case ro.Diverged != "":
				why = fmt.Sprintf("step %d of the model (%s) is not enabled in the real code", ro.Steps+1, ro.Diverged)
			case len(lines) != len(beh.Hist)+2:
				why = fmt.Sprintf("real run has %d steps, model behaviour %d", len(lines)-2, len(beh.Hist))
			default:
				for j, h := range beh.Hist {
					rst, _ := lines[j+1]["st"].(map[string]interface{})
					if !sameState(rst, h.St) {
						why = fmt.Sprintf("projected state after step %d (%v of %v) differs from the model's", j+1, h.S["k"], h.S["g"])
						break
					}
				}
				if why == "" {
					want := "stuck"
					if beh.Terminated {
						want = "done"
					}
					if len(beh.Hist) > 0 && beh.Hist[len(beh.Hist)-1].St["panic"] != "no" {
						want = "panic"
					}
					if ro.Outcome != want {
						why = fmt.Sprintf("real run ends %s, model behaviour ends %s", ro.Outcome, want)
					}
				}
			}
			if why == "" {
				st.Matched++
			} else if len(st.Diverged) < 20 {
				st.Diverged = append(st.Diverged, fmt.Sprintf("%s: %s", beh.Cfg.ID(), why))
			} else {
				st.Diverged = append(st.Diverged, "")
			}
		}
	}
	st.Wall = time.Since(start)
	return st, nil
}
