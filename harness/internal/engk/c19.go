package engk

import (
	"fmt"

	"verif/harness/internal/core"
	"verif/harness/internal/engk/drv/obs"
)

func init() {
	core.Register("C19", checkC19)
}

func linearCfgs(maxItems, maxCap int) []obs.Cfg {
	var cs []obs.Cfg
	for _, comb := range []string{"dup", "fmap"} {
		forms := []string{""}
		if comb == "dup" {
			forms = []string{"r", "s"}
		}
		for _, f := range forms {
			for n := 0; n <= maxItems; n++ {
				for k := 0; k <= maxCap; k++ {
					cs = append(cs, obs.Cfg{Comb: comb, Form: f, Items: []int{n}, Cap: k})
				}
			}
		}
	}
	return cs
}

func itemSeqs(n, maxItems int) [][]int {
	if n == 0 {
		return [][]int{{}}
	}
	var out [][]int
	for _, pre := range itemSeqs(n-1, maxItems) {
		for k := 0; k <= maxItems; k++ {
			out = append(out, append(append([]int{}, pre...), k))
		}
	}
	return out
}

// joinCfgs: every channel form of Join the plugin accepts.
func joinCfgs(maxIn, maxItems, maxCap int) []obs.Cfg {
	var cs []obs.Cfg
	for _, comb := range []string{"joinchan", "joinslice", "joinvar"} {
		lo := 0
		if comb == "joinvar" {
			lo = 2
		}
		for n := lo; n <= maxIn; n++ {
			for _, it := range itemSeqs(n, maxItems) {
				for k := 0; k <= maxCap; k++ {
					for _, f := range []string{"r", "s"} {
						cs = append(cs, obs.Cfg{Comb: comb, Form: f, Items: it, Cap: k})
					}
				}
			}
		}
	}
	return cs
}

// threeInputCfgs: a small fixed set of 3-input configurations for the quick tier (every join form, both
// directions, capacity 0; all close orders are the schedules) and the 3-item pipeline: defects that only
// show with a third channel (e.g. a loop condition or case list that forgets the last one) need them.
func threeInputCfgs() []obs.Cfg {
	var cs []obs.Cfg
	for _, comb := range []string{"joinchan", "joinslice", "joinvar"} {
		for _, it := range [][]int{{0, 0, 1}, {1, 0, 0}, {0, 1, 0}, {1, 1, 1}} {
			for _, f := range []string{"r", "s"} {
				cs = append(cs, obs.Cfg{Comb: comb, Form: f, Items: it, Cap: 0})
			}
		}
	}
	cs = append(cs, obs.Cfg{Comb: "pipeline", Items: []int{3, 0}, Cap: 0}, obs.Cfg{Comb: "pipeline", Items: []int{3, 1}, Cap: 0})
	return cs
}

// langCfgsQuick: join of a slice / chan of channels and variadic join with >= 2 inputs, dup, pipeline
// (every place where the generated text spawns goroutines from a loop or closes over loop state).
func langCfgsQuick() []obs.Cfg {
	var cs []obs.Cfg
	for _, comb := range []string{"joinslice", "joinchan", "joinvar"} {
		for _, it := range [][]int{{1, 1}, {0, 1}, {2, 1}, {1, 1, 1}} {
			for _, f := range []string{"r", "s"} {
				for k := 0; k <= 1; k++ {
					if len(it) == 3 && k == 1 {
						continue
					}
					cs = append(cs, obs.Cfg{Comb: comb, Form: f, Items: it, Cap: k})
				}
			}
		}
	}
	for _, f := range []string{"r", "s"} {
		cs = append(cs, obs.Cfg{Comb: "dup", Form: f, Items: []int{2}, Cap: 0}, obs.Cfg{Comb: "dup", Form: f, Items: []int{2}, Cap: 1})
	}
	cs = append(cs, obs.Cfg{Comb: "fmap", Items: []int{2}, Cap: 1})
	for _, it := range [][]int{{1, 1}, {2, 1}, {2, 2}} {
		cs = append(cs, obs.Cfg{Comb: "pipeline", Items: it, Cap: 0})
	}
	return cs
}

func pipeCfgs(maxM, maxK, maxCap int) []obs.Cfg {
	var cs []obs.Cfg
	for m := 0; m <= maxM; m++ {
		for k := 0; k <= maxK; k++ {
			for c := 0; c <= maxCap; c++ {
				cs = append(cs, obs.Cfg{Comb: "pipeline", Items: []int{m, k}, Cap: c})
			}
		}
	}
	return cs
}

func mcCfg(combs string, maxIn, maxItems, maxCap int, liveness bool) string {
	s := fmt.Sprintf("SPECIFICATION MCSpec\nCONSTANTS\n  Combs = {%s}\n  MaxInputs = %d\n  MaxItems = %d\n  MaxCap = %d\nINVARIANTS NoPanic DeliveredPrefix DeliveredAll CloseAfterDrain OutputsClosed NoDeadlock CanStepIsEnabled\nCHECK_DEADLOCK TRUE\n",
		combs, maxIn, maxItems, maxCap)
	if liveness {
		s += "PROPERTY EventuallyDone\n"
	}
	return s
}

func simCfg(combs string, maxIn, maxItems, maxCap int) string {
	return fmt.Sprintf("SPECIFICATION SimSpec\nCONSTANTS\n  Combs = {%s}\n  MaxInputs = %d\n  MaxItems = %d\n  MaxCap = %d\nINVARIANT SimExport\nCHECK_DEADLOCK FALSE\n",
		combs, maxIn, maxItems, maxCap)
}

func checkC19(c *core.Ctx) error {
	all := `"dup", "fmap", "joinchan", "joinslice", "joinvar", "pipeline"`
	p := &plan{prop: "C19", procs: nprocs(), logRuns: 8, logLines: 120}
	p.cfgs = append(append(append(linearCfgs(2, 2), joinCfgs(2, 2, 2)...), pipeCfgs(2, 2, 2)...), threeInputCfgs()...)
	p.mc = []mcRun{
		{name: "dup,fmap: 0..2 items x cap 0..2", cfgText: mcCfg(`"dup", "fmap"`, 1, 2, 2, true)},
		{name: "joinchan: 0..2 inputs x 0..2 items x cap 0..2", cfgText: mcCfg(`"joinchan"`, 2, 2, 2, true), workers: 4},
		{name: "joinslice: 0..2 inputs x 0..2 items x cap 0..2", cfgText: mcCfg(`"joinslice"`, 2, 2, 2, true)},
		{name: "joinvar: 2 inputs x 0..2 items x cap 0..2", cfgText: mcCfg(`"joinvar"`, 2, 2, 2, true)},
		{name: "pipeline: 0..2 x 0..2 items x cap 0..2", cfgText: mcCfg(`"pipeline"`, 2, 2, 2, true), workers: 4},
	}
	p.simCfg = simCfg(all, 2, 2, 2)
	p.nSim = 400
	p.stress = 4
	if !c.Quick() {
		// 3 inputs x 2 items and 2 inputs x 3 items (pipeline: 3x2 and 2x3), all capacities
		p.cfgs = dedup(append(append(append(append(linearCfgs(3, 2), joinCfgs(3, 2, 2)...), joinCfgs(2, 3, 2)...), pipeCfgs(3, 2, 2)...), pipeCfgs(2, 3, 2)...))
		// measured: the 3-input chan/slice joins with capacity 2 cost ~90 s each and add no new shape over capacity 1
		var keep []obs.Cfg
		for _, cf := range p.cfgs {
			if len(cf.Items) == 3 && cf.Cap == 2 && (cf.Comb == "joinchan" || cf.Comb == "joinslice") {
				continue
			}
			keep = append(keep, cf)
		}
		p.cfgs = keep
		p.mc = []mcRun{
			{name: "dup,fmap: 0..3 items x cap 0..2", cfgText: mcCfg(`"dup", "fmap"`, 1, 3, 2, true), workers: 1},
			{name: "joinchan: 0..3 inputs x 0..2 items x cap 0", cfgText: mcCfg(`"joinchan"`, 3, 2, 0, true), workers: 4},
			{name: "joinslice: 0..3 inputs x 0..2 items x cap 0..1", cfgText: mcCfg(`"joinslice"`, 3, 2, 1, true), workers: 4},
			{name: "joinvar: 2..3 inputs x 0..2 items x cap 0..2", cfgText: mcCfg(`"joinvar"`, 3, 2, 2, true), workers: 4},
			{name: "joins: 0..2 inputs x 0..3 items x cap 0..2", cfgText: mcCfg(`"joinchan", "joinslice", "joinvar"`, 2, 3, 2, true), workers: 4},
			{name: "pipeline: 0..3 x 0..2 items x cap 0", cfgText: mcCfg(`"pipeline"`, 3, 2, 0, true), workers: 4},
			{name: "pipeline: 0..2 x 0..3 items x cap 0..2", cfgText: mcCfg(`"pipeline"`, 2, 3, 2, true), workers: 4},
		}
		p.simCfg = simCfg(all, 3, 2, 2)
		p.nSim = 20000
		p.stress = 60
		p.logRuns, p.logLines = 8, 150
	}
	p.mc = append(p.mc, chaosMC())
	p.realCfgs = p.cfgs
	// language-version variant: the configurations where generated code starts goroutines inside a loop
	p.langCfgs, p.langStress = langCfgsQuick(), 2
	if !c.Quick() {
		p.langCfgs, p.langStress = dedup(append(append(append(linearCfgs(2, 2), joinCfgs(2, 2, 1)...), pipeCfgs(2, 2, 1)...), threeInputCfgs()...)), 15
	}
	if err := runPlan(c, p); err != nil {
		return err
	}
	c.Set("rule", "every interleaving (at the grain of spec/conc/GoChan.tla) of the real generated code, mechanically rewritten onto the controlled scheduler, for every listed configuration; non-trivial = configurations with more than 30 distinct abstract states")
	c.Assume("the AST rewriter (channel/go/WaitGroup operations -> vsched calls) preserves the generated code's behaviour; cross-checked against the unrewritten program on the real runtime")
	c.Assume("goroutines are deterministic between operations, so goroutine id + received history + operation count determines the local state (state caching)")
	c.Assume("data-race freedom is delegated to the Go race detector on the unrewritten code (the Go memory model is below the specification's grain)")
	return nil
}
