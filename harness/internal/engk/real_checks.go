package engk

import (
	"fmt"
	"reflect"
	"sync"
	"time"

	"verif/harness/internal/core"
	"verif/harness/internal/engk/drv/obs"
)

// realChecks runs the UNREWRITTEN generated code on the real Go runtime:
// (a) cross-check of the rewriter (trusted base): the rewritten program under
// the sequentialising schedule and the unrewritten program must deliver the
// same multisets / results; (b) randomised stress under the race detector.
func realChecks(c *core.Ctx, b *Built, p *plan, rs []VsResult, fs *findings) error {
	if len(p.realCfgs) == 0 {
		return nil
	}
	first := map[string]VsResult{}
	for _, r := range rs {
		first[r.ID] = r
	}
	out, err := RunReal(c, b.RealBin, RealJob{Cfgs: p.realCfgs, Iters: 3, Seed: c.Seed}, p.tag+"cross", 20*time.Minute)
	if err != nil {
		return err
	}
	realRuns := out.Runs
	if out.Crash != "" {
		fs.add(cfgByID(p, out.CrashAt), out.Crash+" (unrewritten code, real runtime)", short(out.Stderr, 1500),
			map[string]interface{}{"cfg": out.CrashAt, "where": "unrewritten generated code on the real Go runtime", "stderr": out.Stderr})
	}
	checked := 0
	for _, r := range out.Results {
		if r.Starved != "" {
			noteStarved(b.RealBin, r, fs, "unrewritten code, real runtime")
			continue
		}
		for _, f := range r.Failures {
			fs.add(r.Cfg, f.Class+" (unrewritten code, real runtime)", f.Detail, map[string]interface{}{"cfg": r.Cfg, "where": "unrewritten generated code on the real Go runtime"})
		}
		v, ok := first[r.ID]
		if !ok || v.Complete == 0 || len(r.Failures) > 0 || r.Runs == 0 {
			continue
		}
		checked++
		if !reflect.DeepEqual(sortedCopy(v.FirstGot), sortedCopy(r.Got)) || !reflect.DeepEqual(append([]int{}, v.FirstRes...), append([]int{}, r.Results...)) || v.FirstErr != r.ErrCode && r.Cfg.Comb != "do" {
			return fmt.Errorf("rewriter cross-check failed for %s: rewritten program delivered %v %v, unrewritten %v %v", r.ID, v.FirstGot, v.FirstRes, r.Got, r.Results)
		}
	}
	c.Set("rewriter_crosscheck_configurations"+p.evSuffix, checked)
	if p.stress > 0 {
		n := p.procs / 2
		if n < 1 {
			n = 1
		}
		outs := make([]*RealOut, n)
		errs := make([]error, n)
		var wg sync.WaitGroup
		for i := 0; i < n; i++ {
			wg.Add(1)
			go func(i int) {
				defer wg.Done()
				outs[i], errs[i] = RunReal(c, b.RaceBin, RealJob{Cfgs: p.realCfgs, Seconds: p.stress, Seed: c.Seed*100 + int64(i), Jitter: true},
					fmt.Sprintf("%srace%d", p.tag, i), time.Duration(p.stress*4+900)*time.Second)
			}(i)
		}
		wg.Wait()
		raceRuns := 0
		for i := 0; i < n; i++ {
			if errs[i] != nil {
				return errs[i]
			}
			o := outs[i]
			raceRuns += o.Runs
			if o.Crash != "" {
				fs.add(cfgByID(p, o.CrashAt), o.Crash+" (unrewritten code, real runtime, -race)", short(o.Stderr, 1500),
					map[string]interface{}{"cfg": o.CrashAt, "where": "unrewritten generated code, go build -race, randomised stress", "stderr": o.Stderr})
			}
			for _, r := range o.Results {
				if r.Starved != "" {
					noteStarved(b.RaceBin, r, fs, "unrewritten code, real runtime, -race")
					continue
				}
				for _, f := range r.Failures {
					fs.add(r.Cfg, f.Class+" (unrewritten code, real runtime, -race)", f.Detail, map[string]interface{}{"cfg": r.Cfg, "where": "unrewritten generated code, go build -race, randomised stress"})
				}
			}
		}
		c.Set("race_detector_runs"+p.evSuffix, raceRuns)
		c.Set("race_detector_stress_s"+p.evSuffix, p.stress)
	}
	c.Set("real_runtime_runs"+p.evSuffix, realRuns)
	return nil
}

func cfgByID(p *plan, id string) obs.Cfg {
	for _, c := range p.realCfgs {
		if c.ID() == id {
			return c
		}
	}
	return obs.Cfg{Comb: "unknown"}
}

// A run the real-runtime driver could not judge in time (its goroutines were
// not all blocked: starved machine or a spinning goroutine) is NOT a finding.
// It is re-run alone at the end of the check with ten times the patience.
type starvedRun struct {
	bin, where string
	res        RealResult
	fs         *findings
}

var (
	starvedMu   sync.Mutex
	starvedRuns []starvedRun
)

func noteStarved(bin string, r RealResult, fs *findings, where string) {
	starvedMu.Lock()
	defer starvedMu.Unlock()
	for _, s := range starvedRuns {
		if s.bin == bin && s.res.ID == r.ID {
			return
		}
	}
	starvedRuns = append(starvedRuns, starvedRun{bin, where, r, fs})
}

// resolveStarved runs when nothing else of this check is running any more.
func resolveStarved(c *core.Ctx) error {
	starvedMu.Lock()
	runs := starvedRuns
	starvedRuns = nil
	starvedMu.Unlock()
	for i, s := range runs {
		if i >= 8 {
			return fmt.Errorf("%d configurations could not be judged on the real runtime in time (machine too loaded)", len(runs))
		}
		out, err := RunReal(c, s.bin, RealJob{Cfgs: []obs.Cfg{s.res.Cfg}, Iters: 1, Seed: c.Seed, LimitS: 100}, fmt.Sprintf("alone%d", i), 12*time.Minute)
		if err != nil {
			return err
		}
		if out.Crash != "" {
			s.fs.add(s.res.Cfg, out.Crash+" ("+s.where+")", short(out.Stderr, 1500), map[string]interface{}{"cfg": s.res.Cfg, "where": s.where, "stderr": out.Stderr})
			continue
		}
		for _, r := range out.Results {
			if r.Starved != "" {
				return fmt.Errorf("%s did not finish on the real runtime (%s) even alone with 10x the time limit, and its goroutines are not all blocked, so this is not a deadlock verdict: %s", r.ID, s.where, r.Starved)
			}
			for _, f := range r.Failures {
				s.fs.add(r.Cfg, f.Class+" ("+s.where+")", f.Detail, map[string]interface{}{"cfg": r.Cfg, "where": s.where})
			}
			if len(r.Failures) == 0 {
				c.Warn(fmt.Sprintf("%s (%s) was too slow to judge under load (%s); re-run alone it finished correctly", r.ID, s.where, short(s.res.Starved, 160)))
			}
		}
		s.fs.report(c)
	}
	c.Set("real_runtime_starved_reruns", len(runs))
	return nil
}
