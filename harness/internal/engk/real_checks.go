package engk

import (
	"fmt"
	"reflect"
	"sync"
	"time"

	"verif/harness/internal/core"
	"verif/harness/internal/engk/drv/obs"
)

// realChecks runs the UNREWRITTEN generated code on the real Go runtime:
// (a) cross-check of the rewriter (trusted base): the rewritten program under
// the sequentialising schedule and the unrewritten program must deliver the
// same multisets / results; (b) randomised stress under the race detector.
func realChecks(c *core.Ctx, b *Built, p *plan, rs []VsResult, fs *findings) error {
	if len(p.realCfgs) == 0 {
		return nil
	}
	first := map[string]VsResult{}
	for _, r := range rs {
		first[r.ID] = r
	}
	out, err := RunReal(c, b.RealBin, RealJob{Cfgs: p.realCfgs, Iters: 3, Seed: c.Seed}, p.tag+"cross", 5*time.Minute)
	if err != nil {
		return err
	}
	realRuns := out.Runs
	if out.Crash != "" {
		fs.add(cfgByID(p, out.CrashAt), out.Crash+" (unrewritten code, real runtime)", short(out.Stderr, 1500),
			map[string]interface{}{"cfg": out.CrashAt, "where": "unrewritten generated code on the real Go runtime", "stderr": out.Stderr})
	}
	checked := 0
	for _, r := range out.Results {
		for _, f := range r.Failures {
			fs.add(r.Cfg, f.Class+" (unrewritten code, real runtime)", f.Detail, map[string]interface{}{"cfg": r.Cfg, "where": "unrewritten generated code on the real Go runtime"})
		}
		v, ok := first[r.ID]
		if !ok || v.Complete == 0 || len(r.Failures) > 0 || r.Runs == 0 {
			continue
		}
		checked++
		if !reflect.DeepEqual(sortedCopy(v.FirstGot), sortedCopy(r.Got)) || !reflect.DeepEqual(append([]int{}, v.FirstRes...), append([]int{}, r.Results...)) || v.FirstErr != r.ErrCode && r.Cfg.Comb != "do" {
			return fmt.Errorf("rewriter cross-check failed for %s: rewritten program delivered %v %v, unrewritten %v %v", r.ID, v.FirstGot, v.FirstRes, r.Got, r.Results)
		}
	}
	c.Set("rewriter_crosscheck_configurations"+p.evSuffix, checked)
	if p.stress > 0 {
		n := p.procs / 2
		if n < 1 {
			n = 1
		}
		outs := make([]*RealOut, n)
		errs := make([]error, n)
		var wg sync.WaitGroup
		for i := 0; i < n; i++ {
			wg.Add(1)
			go func(i int) {
				defer wg.Done()
				outs[i], errs[i] = RunReal(c, b.RaceBin, RealJob{Cfgs: p.realCfgs, Seconds: p.stress, Seed: c.Seed*100 + int64(i), Jitter: true},
					fmt.Sprintf("%srace%d", p.tag, i), time.Duration(p.stress*4+120)*time.Second)
			}(i)
		}
		wg.Wait()
		raceRuns := 0
		for i := 0; i < n; i++ {
			if errs[i] != nil {
				return errs[i]
			}
			o := outs[i]
			raceRuns += o.Runs
			if o.Crash != "" {
				fs.add(cfgByID(p, o.CrashAt), o.Crash+" (unrewritten code, real runtime, -race)", short(o.Stderr, 1500),
					map[string]interface{}{"cfg": o.CrashAt, "where": "unrewritten generated code, go build -race, randomised stress", "stderr": o.Stderr})
			}
			for _, r := range o.Results {
				for _, f := range r.Failures {
					fs.add(r.Cfg, f.Class+" (unrewritten code, real runtime, -race)", f.Detail, map[string]interface{}{"cfg": r.Cfg, "where": "unrewritten generated code, go build -race, randomised stress"})
				}
			}
		}
		c.Set("race_detector_runs"+p.evSuffix, raceRuns)
		c.Set("race_detector_stress_s"+p.evSuffix, p.stress)
	}
	c.Set("real_runtime_runs"+p.evSuffix, realRuns)
	return nil
}

func cfgByID(p *plan, id string) obs.Cfg {
	for _, c := range p.realCfgs {
		if c.ID() == id {
			return c
		}
	}
	return obs.Cfg{Comb: "unknown"}
}
