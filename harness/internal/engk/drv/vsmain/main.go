//go:build kdriver

// Command vs drives the REWRITTEN generated code under the controlled
// scheduler: exhaustive search with state caching, replay of TLC behaviours,
// random schedules. It writes one result record per configuration and the
// NDJSON schedules that TLC validates (ConcTrace / ConcConform).
package main

import (
	"bufio"
	"encoding/json"
	"fmt"
	"math/rand"
	"sort"
	"strings"
	"time"

	k "m/kv"
	"verif/harness/internal/engk/drv/obs"
	"verif/harness/internal/engk/vsched"
)

type Replay struct {
	ID   string   `json:"id"`
	Cfg  obs.Cfg  `json:"cfg"`
	Keys []string `json:"keys"`
}

type Job struct {
	Mode        string    `json:"mode"` // dfs | replay | random
	Cfgs        []obs.Cfg `json:"cfgs"`
	POR         bool      `json:"por"`
	MaxSteps    int       `json:"max_steps"`
	LogRuns     int       `json:"log_runs"`  // dfs/random: runs logged per configuration
	LogLines    int       `json:"log_lines"` // ... and lines
	Seed        int64     `json:"seed"`
	N           int       `json:"n"` // random: runs per configuration
	Replays     []Replay  `json:"replays"`
	Tag         string    `json:"tag"`
	StartPoints bool      `json:"start_points"` // goroutine starts are scheduling points (language-version variant)
}

type Failure struct {
	Class   string   `json:"class"`
	Detail  string   `json:"detail"`
	Choices []int    `json:"choices"`
	Keys    []string `json:"keys"`
	Run     string   `json:"run"`
}

type Result struct {
	Cfg       obs.Cfg        `json:"cfg"`
	ID        string         `json:"id"`
	States    int            `json:"states"`
	Runs      int            `json:"runs"`
	Edges     int            `json:"edges"`
	Complete  int            `json:"complete"`
	Outcomes  map[string]int `json:"outcomes"`
	Failures  []Failure      `json:"failures"`
	Logged    int            `json:"logged"`
	Lines     int            `json:"lines"`
	WallMs    int64          `json:"wall_ms"`
	FirstGot  [][]int        `json:"first_got"` // sequentialising schedule: what the consumers received
	FirstRes  []int          `json:"first_res"`
	FirstErr  int            `json:"first_err"`
	Exhausted bool           `json:"exhausted"`
}

var envLabels = map[string]bool{"main": true, "producer": true, "consumer": true, "caller": true}

// early is set by the step hook: an output was closed before all inputs were closed and drained.
var early string

// hookFor watches "an output is closed only after all inputs are closed and
// drained" on every run, by role: outputs are the channels consumers receive
// from, inputs the channels producers send on and close.
func hookFor(cfg obs.Cfg) func(*vsched.Sched, vsched.StepRec) {
	ins, outs := map[string]string{}, map[string]string{} // goroutine -> channel
	return func(s *vsched.Sched, rec vsched.StepRec) {
		if s.Steps == 1 {
			ins, outs = map[string]string{}, map[string]string{}
		}
		for _, p := range s.Pendings() {
			switch {
			case p.Label == "consumer" && p.Op == "recv":
				outs[p.ID] = p.Ch
			case p.Label == "producer" && (p.Op == "send" || p.Op == "close"):
				ins[p.ID] = p.Ch
			}
		}
		if early != "" {
			return
		}
		for _, o := range outs {
			if _, closed, ok := s.ChanState(o); !ok || !closed {
				continue
			}
			for _, in := range ins {
				n, closed, ok := s.ChanState(in)
				if ok && (!closed || n > 0) {
					early = fmt.Sprintf("output %s is closed while input %s has closed=%v, %d buffered", o, in, closed, n)
					return
				}
			}
		}
	}
}

// judge classifies one finished run; "" = nothing wrong.
func judge(cfg obs.Cfg, r *vsched.RunResult, o *obs.Obs) (class, detail string) {
	if early != "" {
		return "output closed before all inputs were closed and drained", early
	}
	switch r.Outcome {
	case "panic":
		return "panic: " + r.Panic, "goroutine " + r.PanicG
	case "usererr":
		return "runtime panic", r.UserErr
	case "steplimit":
		return "no termination within the step bound", fmt.Sprintf("%d steps", r.Steps)
	case "stuck":
		envBlocked := false
		var bs []string
		for _, b := range r.Blocked {
			if envLabels[b.Label] {
				envBlocked = true
			}
			bs = append(bs, fmt.Sprintf("%s(%s) at %s %s", b.ID, b.Label, b.Op, b.Ch))
		}
		if c, d := obs.Check(cfg, o.Snapshot(), false); c != "" {
			return c, d
		}
		if envBlocked {
			return "deadlock", strings.Join(bs, "; ")
		}
		return "goroutines left blocked after the combinator finished", strings.Join(bs, "; ")
	case "done":
		return obs.Check(cfg, o.Snapshot(), true)
	}
	return "", ""
}

var traceW *bufio.Writer

func logRun(id string, cfg obs.Cfg, r *vsched.RunResult, class string, sn obs.Snap) int {
	if cfg.Fail == nil {
		cfg.Fail = []int{}
	}
	if cfg.Items == nil {
		cfg.Items = []int{}
	}
	cj, _ := json.Marshal(cfg)
	fmt.Fprintf(traceW, `{"ev":"start","run":%q,"cfg":%s,"all":%s,"st":%s}`+"\n", id, cj, r.Inv, r.Init)
	for i, l := range r.Lines {
		fmt.Fprintf(traceW, `{"ev":"step","run":%q,"i":%d,%s}`+"\n", id, i+1, l)
	}
	ints := func(xs []int) string {
		if xs == nil {
			xs = []int{}
		}
		b, _ := json.Marshal(xs)
		return string(b)
	}
	bools := func(xs []bool) string {
		if xs == nil {
			xs = []bool{}
		}
		b, _ := json.Marshal(xs)
		return string(b)
	}
	fmt.Fprintf(traceW, `{"ev":"end","run":%q,"outcome":%q,"class":%q,"returned":%v,"results":%s,"err":%d,"atreturn":%s}`+"\n",
		id, r.Outcome, class, sn.Returned, ints(sn.Results), sn.ErrCode, bools(sn.AtReturn))
	return len(r.Lines) + 2
}

func mainFor(cfg obs.Cfg) (func(), *obs.Obs) {
	o := k.NewObs(cfg)
	return func() { k.Run(cfg, o) }, o
}

func better(a, b Failure) bool { // shorter schedule, then lexicographically smaller choices
	if len(a.Choices) != len(b.Choices) {
		return len(a.Choices) < len(b.Choices)
	}
	for i := range a.Choices {
		if a.Choices[i] != b.Choices[i] {
			return a.Choices[i] < b.Choices[i]
		}
	}
	return false
}

func runCfg(ci int, cfg obs.Cfg, job *Job) Result {
	start := time.Now()
	res := Result{Cfg: cfg, ID: cfg.ID(), Outcomes: map[string]int{}}
	vsched.StepHook = hookFor(cfg)
	fails := map[string]Failure{}
	nfail := 0
	var logged, loggedPart [][]int // complete schedules first, then prefixes abandoned at a visited state
	ex := vsched.NewExplorer(job.POR, job.MaxSteps)
	rng := rand.New(rand.NewSource(job.Seed + int64(ci)*7919))
	for n := 0; ; n++ {
		m, o := mainFor(cfg)
		early = ""
		var r *vsched.RunResult
		if job.Mode == "random" {
			if n >= job.N {
				break
			}
			r = vsched.RunRandom(m, rng, false, job.MaxSteps)
		} else {
			var ok bool
			if r, ok = ex.Next(m); !ok {
				res.Exhausted = true
				break
			}
		}
		res.Runs++
		res.Outcomes[r.Outcome]++
		if r.Outcome == "done" {
			if res.Complete == 0 {
				sn := o.Snapshot()
				res.FirstGot, res.FirstRes, res.FirstErr = sn.Got, sn.Results, sn.ErrCode
			}
			res.Complete++
		}
		if class, detail := judge(cfg, r, o); class != "" {
			f := Failure{Class: class, Detail: detail, Choices: r.Choices, Keys: r.Keys}
			if old, ok := fails[class]; !ok || better(f, old) {
				fails[class] = f
			}
			nfail++
			// a run that does not end can not be cached (its history keeps growing): the
			// configuration has its verdict, give up the rest of its space
			if r.Outcome == "steplimit" || nfail > 2000 {
				break
			}
		}
		if r.Outcome == "done" && len(logged) < job.LogRuns {
			logged = append(logged, r.Choices)
		} else if r.Outcome != "done" && len(loggedPart) < (job.LogRuns+1)/2 {
			loggedPart = append(loggedPart, r.Choices)
		}
	}
	res.States, res.Edges = ex.States, ex.Edges
	// re-execute with logging: the failing witnesses first, then the first runs of the search
	var classes []string
	for c := range fails {
		classes = append(classes, c)
	}
	sort.Strings(classes)
	emit := func(id string, choices []int) string {
		m, o := mainFor(cfg)
		early = ""
		r := vsched.ReplayChoices(m, choices, true, job.MaxSteps)
		class, _ := judge(cfg, r, o)
		res.Lines += logRun(id, cfg, r, class, o.Snapshot())
		res.Logged++
		return class
	}
	for i, c := range classes {
		f := fails[c]
		f.Run = fmt.Sprintf("%s%d-f%d", job.Tag, ci, i)
		emit(f.Run, f.Choices)
		res.Failures = append(res.Failures, f)
	}
	for i, ch := range append(logged, loggedPart...) {
		if res.Lines >= job.LogLines {
			break
		}
		emit(fmt.Sprintf("%s%d-%d", job.Tag, ci, i), ch)
	}
	res.WallMs = time.Since(start).Milliseconds()
	return res
}
