//go:build kdriver

package main

import (
	"bufio"
	"encoding/json"
	"fmt"
	"os"

	"verif/harness/internal/engk/drv/obs"
	"verif/harness/internal/engk/vsched"
)

// ReplayOut is the outcome of replaying one TLC behaviour into the real code.
type ReplayOut struct {
	ID       string `json:"id"`
	Outcome  string `json:"outcome"`
	Steps    int    `json:"steps"`
	Want     int    `json:"want"`
	Class    string `json:"class"`
	Detail   string `json:"detail"`
	Diverged string `json:"diverged"` // the key TLC took that was not enabled in the real code
}

func runReplay(i int, rp Replay) ReplayOut {
	vsched.StepHook = hookFor(rp.Cfg)
	early = ""
	m, o := mainFor(rp.Cfg)
	r := vsched.ReplayKeys(m, rp.Keys, true)
	out := ReplayOut{ID: rp.ID, Outcome: r.Outcome, Steps: r.Steps, Want: len(rp.Keys)}
	if r.Outcome == "replaydiverged" && r.Steps < len(rp.Keys) {
		out.Diverged = rp.Keys[r.Steps]
	}
	out.Class, out.Detail = judge(rp.Cfg, r, o)
	logRun(rp.ID, rp.Cfg, r, out.Class, o.Snapshot())
	return out
}

func main() {
	if len(os.Args) != 4 {
		fmt.Fprintln(os.Stderr, "usage: vs job.json results.ndjson trace.ndjson")
		os.Exit(2)
	}
	data, err := os.ReadFile(os.Args[1])
	if err != nil {
		fmt.Fprintln(os.Stderr, err)
		os.Exit(2)
	}
	var job Job
	if err := json.Unmarshal(data, &job); err != nil {
		fmt.Fprintln(os.Stderr, err)
		os.Exit(2)
	}
	if job.MaxSteps == 0 {
		job.MaxSteps = 600
	}
	obs.LabelHook = vsched.SetLabel
	vsched.StartPoints = job.StartPoints
	rf, err := os.Create(os.Args[2])
	if err != nil {
		fmt.Fprintln(os.Stderr, err)
		os.Exit(2)
	}
	tf, err := os.Create(os.Args[3])
	if err != nil {
		fmt.Fprintln(os.Stderr, err)
		os.Exit(2)
	}
	rw := bufio.NewWriter(rf)
	traceW = bufio.NewWriterSize(tf, 1<<20)
	enc := json.NewEncoder(rw)
	if job.Mode == "replay" {
		for i, rp := range job.Replays {
			enc.Encode(runReplay(i, rp))
		}
	} else {
		for ci, cfg := range job.Cfgs {
			enc.Encode(runCfg(ci, cfg, &job))
		}
	}
	traceW.Flush()
	rw.Flush()
	tf.Close()
	rf.Close()
}
