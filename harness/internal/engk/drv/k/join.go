//go:build kdriver

package k

import "verif/harness/internal/engk/drv/obs"

func feeder[T ~int](in chan<- (<-chan T), cs []chan T) {
	obs.Label("producer")
	for _, c := range cs {
		obs.Yield()
		in <- c
	}
	obs.Yield()
	close(in)
}

// channels: in 0#0, inner 0#1..0#n, out 0#(n+1); goroutines: 0.0 join, 0.1 feeder, producers, consumer
func runJoinChan[T ~int](cfg obs.Cfg, o *obs.Obs, join func(chan (<-chan T)) <-chan T) {
	in := make(chan (<-chan T), cfg.Cap)
	cs := make([]chan T, len(cfg.Items))
	for j := range cs {
		cs[j] = make(chan T, cfg.Cap)
	}
	out := join(in)
	go func() { feeder(in, cs) }()
	for j := range cs {
		go func() { producer(cs[j], j+1, cfg.Items[j]) }()
	}
	go func() { consumer(o, 0, out) }()
}

// channels: inputs 0#0..0#(n-1), out 0#n; goroutines: 0.0 join, producers, consumer
func runJoinN[T ~int](cfg obs.Cfg, o *obs.Obs, join func([]chan T) <-chan T) {
	cs := make([]chan T, len(cfg.Items))
	for j := range cs {
		cs[j] = make(chan T, cfg.Cap)
	}
	out := join(cs)
	for j := range cs {
		go func() { producer(cs[j], j+1, cfg.Items[j]) }()
	}
	go func() { consumer(o, 0, out) }()
}

func runJoin(cfg obs.Cfg, o *obs.Obs) {
	switch cfg.Comb + "/" + cfg.Form {
	case "joinchan/r":
		runJoinChan(cfg, o, func(in chan (<-chan int)) <-chan int {
			var r <-chan (<-chan int) = in
			return deriveJoinChanR(r)
		})
	case "joinchan/s":
		runJoinChan(cfg, o, func(in chan (<-chan S)) <-chan S { return deriveJoinChanS(in) })
	case "joinslice/r":
		runJoinN(cfg, o, func(cs []chan int) <-chan int {
			rs := make([]<-chan int, len(cs))
			for i := range cs {
				rs[i] = cs[i]
			}
			return deriveJoinSliceR(rs)
		})
	case "joinslice/s":
		runJoinN(cfg, o, func(cs []chan S) <-chan S { return deriveJoinSliceS(cs) })
	case "joinvar/r":
		runJoinN(cfg, o, func(cs []chan int) <-chan int {
			if len(cs) == 3 {
				var c0, c1, c2 <-chan int = cs[0], cs[1], cs[2]
				return deriveJoinVarR3(c0, c1, c2)
			}
			var c0, c1 <-chan int = cs[0], cs[1]
			return deriveJoinVarR2(c0, c1)
		})
	case "joinvar/s":
		runJoinN(cfg, o, func(cs []chan S) <-chan S {
			if len(cs) == 3 {
				return deriveJoinVarS3(cs[0], cs[1], cs[2])
			}
			return deriveJoinVarS2(cs[0], cs[1])
		})
	default:
		panic("unknown join variant " + cfg.Comb + "/" + cfg.Form)
	}
}

// P1 and P2 keep the helper instances the pipeline requests (fmap, join)
// apart from the package's own derive calls.
type P1 int
type P2 int

// channels: f's 0#0, fmap's 0#1, join's 0#2, g's 0.1#i; goroutines: 0.0 f's producer, 0.1 fmap, 0.2 join, 0.3 consumer
func runPipeline(cfg obs.Cfg, o *obs.Obs) {
	f := func(a int) <-chan P1 {
		c := make(chan P1, cfg.Cap)
		go func() { producer(c, 1, a) }()
		return c
	}
	g := func(b P1) <-chan P2 {
		c := make(chan P2, cfg.Cap)
		go func() {
			obs.Label("producer")
			for i := 1; i <= cfg.Items[1]; i++ {
				obs.Yield()
				c <- P2(10*int(b) + i)
			}
			obs.Yield()
			close(c)
		}()
		return c
	}
	cc := derivePipeline(f, g)
	out := cc(cfg.Items[0])
	go func() { consumer(o, 0, out) }()
}
