//go:build kdriver

// Package k holds the derive calls under test and their environment:
// producers that send distinct tokens and close, consumers that keep
// receiving. It is plain Go: it runs unchanged on the real runtime (cross
// check, race stress) and, mechanically rewritten together with
// derived.gen.go, under the controlled scheduler.  The spawn order in every
// Run* function is part of the contract with spec/conc (goroutine ids).
package k

import "verif/harness/internal/engk/drv/obs"

func tok(j, k int) int { return 10*j + k }

// F is the function mapped by fmap (injective on tokens).
func F(v int) int { return v + 100 }

// S is the element type of the send/receive (`chan T`) variants: goderive
// looks up a function for given argument types with AssignableTo in map order
// (known finding of C08), so `chan int` next to `<-chan int` in one package
// makes its output nondeterministic; distinct element types keep this package
// out of that defect's way.
type S int

func producer[T ~int](c chan<- T, j, n int) {
	obs.Label("producer")
	for i := 1; i <= n; i++ {
		obs.Yield()
		c <- T(tok(j, i))
	}
	obs.Yield()
	close(c)
}

func consumer[T ~int](o *obs.Obs, idx int, c <-chan T) {
	obs.Label("consumer")
	for v := range c {
		o.Deliver(idx, int(v))
		obs.Yield()
	}
	o.SawClosed(idx)
	o.EnvDone()
}

// Run starts the configuration and returns; the caller waits on o (real
// runtime) or lets the scheduler run every goroutine (vsched).
func Run(cfg obs.Cfg, o *obs.Obs) {
	obs.Label("main")
	switch cfg.Comb {
	case "dup":
		runDup(cfg, o)
	case "fmap":
		runFmap(cfg, o)
	case "joinchan", "joinslice", "joinvar":
		runJoin(cfg, o)
	case "pipeline":
		runPipeline(cfg, o)
	case "do":
		runDo(cfg, o)
	default:
		panic("unknown combinator " + cfg.Comb)
	}
}

// NewObs sizes the observation record for a configuration.
func NewObs(cfg obs.Cfg) *obs.Obs {
	switch cfg.Comb {
	case "dup":
		o := obs.New(2, 0)
		o.Expect(2)
		return o
	case "do":
		o := obs.New(0, len(cfg.Fail))
		o.Expect(1)
		return o
	}
	o := obs.New(1, 0)
	o.Expect(1)
	return o
}

func runDup(cfg obs.Cfg, o *obs.Obs) {
	if cfg.Form == "s" {
		c := make(chan S, cfg.Cap)
		c1, c2 := deriveDupS(c)
		go func() { producer(c, 1, cfg.Items[0]) }()
		go func() { consumer(o, 0, c1) }()
		go func() { consumer(o, 1, c2) }()
		return
	}
	c := make(chan int, cfg.Cap)
	var rc <-chan int = c
	c1, c2 := deriveDupR(rc)
	go func() { producer(c, 1, cfg.Items[0]) }()
	go func() { consumer(o, 0, c1) }()
	go func() { consumer(o, 1, c2) }()
}

func runFmap(cfg obs.Cfg, o *obs.Obs) {
	c := make(chan int, cfg.Cap)
	out := deriveFmapChan(F, c)
	go func() { producer(c, 1, cfg.Items[0]) }()
	go func() { consumer(o, 0, out) }()
}
