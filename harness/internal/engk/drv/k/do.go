//go:build kdriver

package k

import "verif/harness/internal/engk/drv/obs"

// runDo: main 0 spawns the caller 0.0 which calls deriveDo (errChan 0.0#0,
// workers 0.0.0 ..). With cfg.Rv the functions rendezvous over the unbuffered
// channel 0#0: f0 receives one token from every other function, so each
// function waits for another one and Do must have started them all.
func runDo(cfg obs.Cfg, o *obs.Obs) {
	n := len(cfg.Fail)
	var b chan int
	if cfg.Rv {
		b = make(chan int)
	}
	// ring: unbuffered channels 0#0..0#(n-1); f0 sends on ring[0] then waits for f(n-1) on ring[n-1];
	// f_i waits for f(i-1) on ring[i-1] then sends on ring[i]: a token goes round once, so every
	// function waits for its predecessor and f0 for the LAST one.
	var ring []chan int
	if cfg.Ring {
		ring = make([]chan int, n)
		for i := range ring {
			ring[i] = make(chan int)
		}
	}
	fn := func(i int) func() (int, error) {
		return func() (int, error) {
			o.Start(i)
			if cfg.Rv {
				if i == 0 {
					for k := 1; k < n; k++ {
						<-b
					}
				} else {
					b <- i
				}
			}
			if cfg.Ring {
				if i == 0 {
					ring[0] <- 0
					<-ring[n-1]
				} else {
					<-ring[i-1]
					ring[i] <- i
				}
			}
			obs.Yield()
			o.Finish(i)
			if cfg.Fail[i] != 0 {
				return 100 + i, &obs.Err{K: cfg.Fail[i]}
			}
			return 100 + i, nil
		}
	}
	go func() {
		obs.Label("caller")
		switch n {
		case 2:
			v0, v1, err := deriveDo2(fn(0), fn(1))
			o.Return([]int{v0, v1}, err)
		case 3:
			v0, v1, v2, err := deriveDo3(fn(0), fn(1), fn(2))
			o.Return([]int{v0, v1, v2}, err)
		case 4:
			v0, v1, v2, v3, err := deriveDo4(fn(0), fn(1), fn(2), fn(3))
			o.Return([]int{v0, v1, v2, v3}, err)
		default:
			panic("do: unsupported number of functions")
		}
		o.EnvDone()
	}()
}
