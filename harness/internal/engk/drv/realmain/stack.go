//go:build kdriver

package main

import (
	"fmt"
	"regexp"
	"runtime"
	"sort"
	"strings"
	"time"
)

// A wall-clock limit alone never yields a verdict: when it expires the driver
// looks at its own goroutines. User goroutines are those with a frame of
// package m/k (the environment and the generated combinators).

var reHdr = regexp.MustCompile(`^goroutine (\d+) \[([^\],]+)`)

// userGoroutines returns id -> scheduler state of every user goroutine.
func userGoroutines() map[string]string {
	buf := make([]byte, 1<<20)
	for {
		n := runtime.Stack(buf, true)
		if n < len(buf) {
			buf = buf[:n]
			break
		}
		buf = make([]byte, 2*len(buf))
	}
	gs := map[string]string{}
	for _, blk := range strings.Split(string(buf), "\n\n") {
		m := reHdr.FindStringSubmatch(blk)
		if m == nil || !strings.Contains(blk, "m/k.") {
			continue
		}
		gs[m[1]] = m[2]
	}
	return gs
}

func blockedState(st string) bool {
	for _, p := range []string{"chan send", "chan receive", "select", "sync.WaitGroup.Wait", "semacquire"} {
		if strings.HasPrefix(st, p) {
			return true
		}
	}
	return false
}

// classify takes two goroutine dumps one second apart. blocked is true only
// if both show the same non-empty set of user goroutines, every one of them
// blocked in a channel operation, select or WaitGroup.Wait: then nothing can
// ever wake them (all other user goroutines are gone) - a deadlock or leak.
// Anything running, runnable, sleeping or changing means the process is
// merely slow (starved machine, or a goroutine that spins).
func classify() (blocked bool, picture string) {
	d1 := userGoroutines()
	time.Sleep(time.Second)
	d2 := userGoroutines()
	var desc []string
	blocked = len(d1) > 0 && len(d1) == len(d2)
	for id, st := range d2 {
		desc = append(desc, fmt.Sprintf("g%s[%s]", id, st))
		if st1, ok := d1[id]; !ok || st1 != st || !blockedState(st) {
			blocked = false
		}
	}
	sort.Strings(desc)
	return blocked, strings.Join(desc, " ")
}
