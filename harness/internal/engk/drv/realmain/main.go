//go:build kdriver

// Command real runs the UNREWRITTEN generated code on the real Go runtime
// (optionally built with -race): cross-check of the rewriter and randomised
// stress. A runtime panic or a race report ends the process; the harness
// attributes it to the configuration announced last.
package main

import (
	"encoding/json"
	"fmt"
	"os"
	"runtime"
	"time"

	"m/k"
	"verif/harness/internal/engk/drv/obs"
)

type Job struct {
	Cfgs    []obs.Cfg `json:"cfgs"`
	Iters   int       `json:"iters"`   // runs per configuration (0: use Seconds)
	Seconds float64   `json:"seconds"` // total stress time over all configurations
	Seed    int64     `json:"seed"`
	Jitter  bool      `json:"jitter"`
	LimitS  float64   `json:"limit_s"` // wall-clock patience per wait (default 30)
}

type Failure struct {
	Class  string `json:"class"`
	Detail string `json:"detail"`
}

type Result struct {
	Cfg      obs.Cfg   `json:"cfg"`
	ID       string    `json:"id"`
	Runs     int       `json:"runs"`
	Failures []Failure `json:"failures"`
	Got      [][]int   `json:"got"` // first run: what each consumer received
	Results  []int     `json:"results"`
	ErrCode  int       `json:"err_code"`
	Starved  string    `json:"starved"` // not a finding: the run was too slow to judge (see runOnce)
}

// limit is the wall-clock patience per wait (Job.LimitS, default 30 s). Its expiry is never a verdict.
var limit = 30 * time.Second

// runOnce runs one configuration. class "starved" is not a finding: the
// environment did not finish in time but its goroutines are not all blocked.
func runOnce(cfg obs.Cfg, base int) (obs.Snap, string, string) {
	o := k.NewObs(cfg)
	k.Run(cfg, o)
	done := make(chan struct{})
	go func() { o.Wait(); close(done) }()
	for round := 0; ; round++ {
		finished := false
		select {
		case <-done:
			finished = true
		case <-time.After(limit):
		}
		if finished {
			break
		}
		blocked, pic := classify()
		if blocked {
			return o.Snapshot(), "deadlock", "every goroutine of the environment and the combinator is blocked (two dumps 1 s apart, unrewritten code, real runtime): " + pic
		}
		if round >= 2 {
			return o.Snapshot(), "starved", fmt.Sprintf("environment did not finish within %v but its goroutines are not all blocked: %s", 3*limit, pic)
		}
	}
	s := o.Snapshot()
	if c, d := obs.Check(cfg, s, true); c != "" {
		return s, c, d
	}
	// every goroutine of the combinator must be gone
	start := time.Now()
	for i := 0; runtime.NumGoroutine() > base; i++ {
		if i < 50 {
			runtime.Gosched()
			continue
		}
		time.Sleep(time.Millisecond)
		if time.Since(start) > limit/10 {
			blocked, pic := classify()
			if len(userGoroutines()) == 0 {
				break // what is left is not ours (runtime helpers)
			}
			if blocked {
				return s, "goroutines left blocked after the combinator finished", "still blocked after completion (two dumps 1 s apart): " + pic
			}
			if time.Since(start) > 3*limit {
				return s, "starved", "goroutines of the combinator still running after completion: " + pic
			}
		}
	}
	return s, "", ""
}

func main() {
	data, err := os.ReadFile(os.Args[1])
	if err != nil {
		fmt.Fprintln(os.Stderr, err)
		os.Exit(2)
	}
	var job Job
	if err := json.Unmarshal(data, &job); err != nil {
		fmt.Fprintln(os.Stderr, err)
		os.Exit(2)
	}
	if job.Jitter {
		obs.SetJitter(job.Seed)
	}
	enc := json.NewEncoder(os.Stdout)
	results := make([]Result, len(job.Cfgs))
	for i, c := range job.Cfgs {
		results[i] = Result{Cfg: c, ID: c.ID()}
	}
	base := runtime.NumGoroutine()
	nfail, nstarved := 0, 0
	if job.LimitS > 0 {
		limit = time.Duration(job.LimitS * float64(time.Second))
	}
	deadline := time.Now().Add(time.Duration(job.Seconds * float64(time.Second)))
	for round := 0; ; round++ {
		if job.Iters > 0 && round >= job.Iters {
			break
		}
		if job.Iters == 0 && time.Now().After(deadline) {
			break
		}
		for i, c := range job.Cfgs {
			fmt.Fprintf(os.Stderr, "BEGIN %s\n", c.ID())
			s, class, detail := runOnce(c, base)
			r := &results[i]
			r.Runs++
			if round == 0 {
				r.Got, r.Results, r.ErrCode = s.Got, s.Results, s.ErrCode
			}
			if class == "starved" {
				// no verdict: the harness re-runs this configuration alone with ten times the patience
				r.Starved, class = detail, ""
				base = runtime.NumGoroutine()
				if nstarved++; nstarved >= 2 { // slow goroutines pile up: stop this job
					for _, r := range results {
						enc.Encode(r)
					}
					os.Exit(0)
				}
			}
			if class != "" && len(r.Failures) < 3 {
				r.Failures = append(r.Failures, Failure{class, detail})
				nfail++
			}
			if nfail > 12 { // enough evidence; failing runs cost seconds each
				for _, r := range results {
					enc.Encode(r)
				}
				os.Exit(0)
			}
			if class != "" {
				base = runtime.NumGoroutine() // goroutines a failing run left behind must not be blamed on the next one
			}
			if class == "deadlock" {
				// blocked or spinning goroutines stay behind and poison everything after: stop here
				for _, r := range results {
					enc.Encode(r)
				}
				os.Exit(0)
			}
		}
	}
	for _, r := range results {
		enc.Encode(r)
	}
}
