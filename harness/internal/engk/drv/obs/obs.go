// Package obs collects what the environment of a combinator observed. It is
// NOT rewritten: under vsched its methods are called by one goroutine at a
// time, on the real runtime the mutex and the real WaitGroup order them.
package obs

import (
	"fmt"
	"math/rand"
	"runtime"
	"sync"
	"time"
)

// LabelHook is set by the controlled driver to vsched.SetLabel.
var LabelHook func(string)

// Label names the role of the calling goroutine (bookkeeping only).
func Label(role string) {
	if LabelHook != nil {
		LabelHook(role)
	}
}

var (
	jitMu  sync.Mutex
	jitRng *rand.Rand
)

// SetJitter makes Yield perturb the real-runtime schedule (stress driver only).
func SetJitter(seed int64) { jitMu.Lock(); jitRng = rand.New(rand.NewSource(seed)); jitMu.Unlock() }

// Yield is called by the environment before every operation.
func Yield() {
	jitMu.Lock()
	if jitRng == nil {
		jitMu.Unlock()
		return
	}
	n, d := jitRng.Intn(8), jitRng.Intn(20)
	jitMu.Unlock()
	switch n {
	case 0:
		runtime.Gosched()
	case 1:
		time.Sleep(time.Duration(d) * time.Microsecond)
	}
}

// Err is the error type the Do functions return; VCode is its projection.
type Err struct{ K int }

func (e *Err) Error() string { return fmt.Sprintf("err%d", e.K) }
func (e *Err) VCode() int    { return e.K }

// Obs is one run's observations.
type Obs struct {
	mu       sync.Mutex
	wg       sync.WaitGroup
	Got      [][]int // per consumer: received items in order
	Closed   []bool  // per consumer: saw its channel closed
	Results  []int   // Do: returned values
	ErrCode  int     // Do: returned error code (0 = nil)
	Returned bool
	Started  []bool // Do: function i was started
	Fin      []bool // Do: function i returned
	AtReturn []bool // Do: Fin at the moment Do returned
}

// New expects n environment goroutines (consumers / the Do caller) to finish.
func New(consumers, funcs int) *Obs {
	o := &Obs{Got: make([][]int, consumers), Closed: make([]bool, consumers),
		Started: make([]bool, funcs), Fin: make([]bool, funcs)}
	return o
}

func (o *Obs) Expect(n int) { o.wg.Add(n) }
func (o *Obs) Wait()        { o.wg.Wait() }
func (o *Obs) EnvDone()     { o.wg.Done() }

func (o *Obs) Deliver(i, v int) {
	o.mu.Lock()
	o.Got[i] = append(o.Got[i], v)
	o.mu.Unlock()
}

func (o *Obs) SawClosed(i int) {
	o.mu.Lock()
	o.Closed[i] = true
	o.mu.Unlock()
}

func (o *Obs) Start(i int)  { o.mu.Lock(); o.Started[i] = true; o.mu.Unlock() }
func (o *Obs) Finish(i int) { o.mu.Lock(); o.Fin[i] = true; o.mu.Unlock() }

func (o *Obs) Return(vals []int, err error) {
	o.mu.Lock()
	o.Results = vals
	o.ErrCode = 0
	if e, ok := err.(*Err); ok && e != nil {
		o.ErrCode = e.K
	} else if err != nil {
		o.ErrCode = -1
	}
	o.Returned = true
	o.AtReturn = append([]bool(nil), o.Fin...)
	o.mu.Unlock()
}

// Snap is a plain copy of the observations.
type Snap struct {
	Got      [][]int
	Closed   []bool
	Results  []int
	ErrCode  int
	Returned bool
	Started  []bool
	Fin      []bool
	AtReturn []bool
}

// Snapshot copies the observations under the lock.
func (o *Obs) Snapshot() Snap {
	o.mu.Lock()
	defer o.mu.Unlock()
	c := Snap{Closed: append([]bool(nil), o.Closed...), Results: append([]int(nil), o.Results...),
		ErrCode: o.ErrCode, Returned: o.Returned, Started: append([]bool(nil), o.Started...),
		Fin: append([]bool(nil), o.Fin...), AtReturn: append([]bool(nil), o.AtReturn...)}
	for _, g := range o.Got {
		c.Got = append(c.Got, append([]int(nil), g...))
	}
	return c
}

// Cfg is one configuration of a combinator run (mirrors cfg of spec/conc).
type Cfg struct {
	Comb  string `json:"comb"`  // dup fmap joinchan joinslice joinvar pipeline do
	Form  string `json:"form"`  // channel direction variant of the derive call: "r" (<-chan) or "s" (chan)
	Items []int  `json:"items"` // items per input channel
	Cap   int    `json:"cap"`   // capacity of the input channels
	Fail  []int  `json:"fail"`  // do: error code returned by function i (0 = nil)
	Rv    bool   `json:"rv"`    // do: star: f0 receives one token from every later function
	Ring  bool   `json:"ring"`  // do: ring: f0 sends to f1 ... f(n-1) sends back to f0 (f0 waits for the LAST function)
}

// ID is a stable name of the configuration.
func (c Cfg) ID() string {
	s := c.Comb
	if c.Form != "" {
		s += "/" + c.Form
	}
	s += fmt.Sprintf(" items=%v cap=%d", c.Items, c.Cap)
	if c.Comb == "do" {
		s = fmt.Sprintf("do fail=%v rv=%v", c.Fail, c.Rv)
		if c.Ring {
			s += " ring"
		}
	}
	return s
}
