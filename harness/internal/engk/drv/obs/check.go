package obs

import "fmt"

func tok(j, k int) int { return 10*j + k }

func toks(j, n int, f func(int) int) []int {
	var s []int
	for k := 1; k <= n; k++ {
		s = append(s, f(tok(j, k)))
	}
	return s
}

func id(v int) int { return v }

// Expect gives, per consumer, the input sequences whose interleaving it must
// receive (one sequence: total order). Mirrors Expect of spec/conc/Conc.tla.
func Expect(c Cfg) [][][]int {
	switch c.Comb {
	case "dup":
		s := toks(1, c.Items[0], id)
		return [][][]int{{s}, {s}}
	case "fmap":
		return [][][]int{{toks(1, c.Items[0], func(v int) int { return v + 100 })}}
	case "joinchan", "joinslice", "joinvar":
		var ss [][]int
		for j := range c.Items {
			ss = append(ss, toks(j+1, c.Items[j], id))
		}
		return [][][]int{ss}
	case "pipeline":
		// input j of the join is g(token k of f's channel): items[0] tokens, each mapped to items[1] items
		var ss [][]int
		for k := 1; k <= c.Items[0]; k++ {
			ss = append(ss, toks(tok(1, k), c.Items[1], id))
		}
		return [][][]int{ss}
	}
	return nil
}

// CheckDelivered compares what the consumers received with Expect. final
// says the run terminated (then every item must have arrived). The returned
// strings are failure classes (stable), details go to detail.
func CheckDelivered(c Cfg, s Snap, final bool) (class, detail string) {
	ex := Expect(c)
	for ci, seqs := range ex {
		if ci >= len(s.Got) {
			break
		}
		got := s.Got[ci]
		owner, pos := map[int]int{}, map[int]int{}
		for j, sq := range seqs {
			for k, v := range sq {
				owner[v], pos[v] = j, k
			}
		}
		next := make([]int, len(seqs))
		lastPos := make([]int, len(seqs))
		for j := range lastPos {
			lastPos[j] = -1
		}
		seen := map[int]bool{}
		for _, v := range got {
			j, ok := owner[v]
			if !ok {
				return "foreign item delivered", fmt.Sprintf("consumer %d received %d which was never sent; got %v", ci, v, got)
			}
			if seen[v] {
				return "item delivered twice", fmt.Sprintf("consumer %d received %d twice; got %v", ci, v, got)
			}
			seen[v] = true
			if pos[v] < lastPos[j] {
				return "order of an input not preserved", fmt.Sprintf("consumer %d got %v, input %d sent %v", ci, got, j, seqs[j])
			}
			lastPos[j] = pos[v]
			next[j]++
		}
		if final {
			for j := range seqs {
				if next[j] != len(seqs[j]) {
					return "item lost", fmt.Sprintf("consumer %d got %v, input %d sent %v", ci, got, j, seqs[j])
				}
			}
			if !s.Closed[ci] {
				return "output not closed", fmt.Sprintf("consumer %d finished without seeing its channel closed", ci)
			}
		}
	}
	return "", ""
}

// Check judges the observations of one run of configuration c.
func Check(c Cfg, s Snap, final bool) (class, detail string) {
	if c.Comb == "do" {
		return CheckDo(c, s, final)
	}
	return CheckDelivered(c, s, final)
}

// CheckDo judges what Do returned (mirrors the End checks of ConcTrace.tla).
func CheckDo(c Cfg, s Snap, final bool) (class, detail string) {
	if !s.Returned {
		if final {
			return "Do did not return", "every goroutine finished but the caller recorded no result"
		}
		return "", ""
	}
	for i, f := range s.AtReturn {
		if !f {
			return "Do returned before every function had returned", fmt.Sprintf("function %d had not returned; finished=%v", i, s.AtReturn)
		}
	}
	for i, v := range s.Results {
		if v != 100+i {
			return "Do: a value is not in its position", fmt.Sprintf("result %d is %d, function %d returned %d; results=%v", i, v, i, 100+i, s.Results)
		}
	}
	anyFail, isOne := false, false
	for _, f := range c.Fail {
		if f != 0 {
			anyFail = true
			if f == s.ErrCode {
				isOne = true
			}
		}
	}
	if anyFail != (s.ErrCode != 0) || (s.ErrCode != 0 && !isOne) {
		return "Do: error is not nil exactly when a function failed, or is none of the returned errors", fmt.Sprintf("returned error code %d, functions returned %v", s.ErrCode, c.Fail)
	}
	return "", ""
}

// IO gives the canonical ids of the combinator's input and output channels
// (mirrors Inputs/Outputs of spec/conc/Conc.tla).
func IO(c Cfg) (ins, outs []string) {
	switch c.Comb {
	case "dup":
		return []string{"0#0"}, []string{"0#1", "0#2"}
	case "fmap":
		return []string{"0#0"}, []string{"0#1"}
	case "joinchan":
		n := len(c.Items)
		for k := 0; k <= n; k++ {
			ins = append(ins, fmt.Sprintf("0#%d", k))
		}
		return ins, []string{fmt.Sprintf("0#%d", n+1)}
	case "joinslice", "joinvar":
		n := len(c.Items)
		for k := 0; k < n; k++ {
			ins = append(ins, fmt.Sprintf("0#%d", k))
		}
		return ins, []string{fmt.Sprintf("0#%d", n)}
	case "pipeline":
		ins = []string{"0#0", "0#1"}
		for k := 0; k < c.Items[0]; k++ {
			ins = append(ins, fmt.Sprintf("0.1#%d", k))
		}
		return ins, []string{"0#2"}
	}
	return nil, nil
}
