package engk

import (
	"bufio"
	"bytes"
	"encoding/json"
	"fmt"
	"os"
	"path/filepath"
	"strings"
	"sync"
	"time"

	"verif/harness/internal/core"
	"verif/harness/internal/tlc"
)

// Bad is one trace line a trace specification rejected.
type Bad struct {
	L    int    `json:"l"`
	Run  string `json:"run"`
	Kind string `json:"kind"` // ConcTrace: violation | infra ; ConcConform: ""
	Why  string `json:"why"`
}

type ValStats struct {
	Runs   int
	Lines  int
	States int
	Bad    []Bad // ConcTrace (property level)
	Drift  []Bad // ConcConform (implementation-shaped modules)
	Wall   time.Duration
}

func specDir(c *core.Ctx) string { return filepath.Join(c.Verif, "spec", "conc") }

// splitTrace cuts NDJSON schedules into chunks at run boundaries.
func splitTrace(paths []string, dir string, maxLines int) (chunks []string, runs, lines int, err error) {
	os.MkdirAll(dir, 0755)
	var cur *bufio.Writer
	var curF *os.File
	n := 0
	open := func() error {
		p := filepath.Join(dir, fmt.Sprintf("chunk%03d.ndjson", len(chunks)))
		f, err := os.Create(p)
		if err != nil {
			return err
		}
		chunks = append(chunks, p)
		curF, cur, n = f, bufio.NewWriterSize(f, 1<<20), 0
		return nil
	}
	closeCur := func() {
		if cur != nil {
			cur.Flush()
			curF.Close()
			cur = nil
		}
	}
	for _, p := range paths {
		f, err := os.Open(p)
		if err != nil {
			return nil, 0, 0, err
		}
		sc := bufio.NewScanner(f)
		sc.Buffer(make([]byte, 1<<20), 1<<28)
		for sc.Scan() {
			b := sc.Bytes()
			if len(b) == 0 {
				continue
			}
			if bytes.HasPrefix(b, []byte(`{"ev":"start"`)) {
				runs++
				if cur == nil || n >= maxLines {
					closeCur()
					if err := open(); err != nil {
						return nil, 0, 0, err
					}
				}
			}
			if cur == nil {
				return nil, 0, 0, fmt.Errorf("trace %s does not begin with a start line", p)
			}
			cur.Write(b)
			cur.WriteByte('\n')
			n++
			lines++
		}
		f.Close()
		if err := sc.Err(); err != nil {
			return nil, 0, 0, err
		}
	}
	closeCur()
	return chunks, runs, lines, nil
}

func readBad(p string) ([]Bad, error) {
	f, err := os.Open(p)
	if err != nil {
		return nil, fmt.Errorf("trace validation wrote no verdict file: %v", err)
	}
	defer f.Close()
	var bads []Bad
	sc := bufio.NewScanner(f)
	sc.Buffer(make([]byte, 1<<20), 1<<24)
	for sc.Scan() {
		if len(sc.Bytes()) == 0 {
			continue
		}
		var b Bad
		if err := json.Unmarshal(sc.Bytes(), &b); err != nil {
			return nil, err
		}
		bads = append(bads, b)
	}
	return bads, sc.Err()
}

// Validate lets TLC judge the recorded schedules: ConcTrace (GoChan semantics
// + properties: verdicts) and ConcConform (combinator modules: drift).
func Validate(c *core.Ctx, traces []string, name string) (*ValStats, error) {
	return ValidateOpt(c, traces, name, true)
}

// ValidateOpt: conform=false skips ConcConform (schedules of a variant the modules do not describe).
func ValidateOpt(c *core.Ctx, traces []string, name string, conform bool) (*ValStats, error) {
	start := time.Now()
	chunks, runs, lines, err := splitTrace(traces, filepath.Join(c.Work, "val-"+name), 4000)
	if err != nil {
		return nil, err
	}
	st := &ValStats{Runs: runs, Lines: lines}
	type task struct {
		chunk  string
		module string
	}
	var tasks []task
	for _, ch := range chunks {
		tasks = append(tasks, task{ch, "ConcTrace"})
		if conform {
			tasks = append(tasks, task{ch, "ConcConform"})
		}
	}
	var mu sync.Mutex
	var wg sync.WaitGroup
	var firstErr error
	sem := make(chan struct{}, max(2, nprocs()*3/4))
	for _, t := range tasks {
		wg.Add(1)
		go func(t task) {
			defer wg.Done()
			sem <- struct{}{}
			defer func() { <-sem }()
			outp := t.chunk + "." + t.module + ".bad"
			res, err := runTLC(c, tlc.Opts{
				SpecDirs: []string{specDir(c)}, Module: t.module, Config: t.module + ".cfg",
				Workers: 1, Timeout: 8 * time.Minute, HeapMB: 3000, Scratch: c.Work,
				Env: map[string]string{"VERIF_TRACE": t.chunk, "VERIF_OUT": outp, "JAVA_TOOL_OPTIONS": "-XX:ActiveProcessorCount=2"},
			})
			mu.Lock()
			defer mu.Unlock()
			if err == nil && res.Violation {
				err = fmt.Errorf("the trace specification got stuck after %d lines: %s", res.Diameter-1, res.ErrText)
			}
			if err != nil {
				if firstErr == nil {
					firstErr = fmt.Errorf("%s on %s: %v", t.module, filepath.Base(t.chunk), err)
				}
				return
			}
			bads, err := readBad(outp)
			if err != nil {
				if firstErr == nil {
					firstErr = err
				}
				return
			}
			if t.module == "ConcTrace" {
				st.Bad = append(st.Bad, bads...)
				st.States += res.Distinct
			} else {
				st.Drift = append(st.Drift, bads...)
			}
		}(t)
	}
	wg.Wait()
	st.Wall = time.Since(start)
	return st, firstErr
}

// runTLC runs TLC and retries once when it times out (a JVM was seen to hang
// once on an overloaded machine; a second hang is reported as infrastructure error).
func runTLC(c *core.Ctx, o tlc.Opts) (*tlc.Result, error) {
	res, err := tlc.Run(o)
	if err != nil && strings.Contains(err.Error(), "timed out") {
		c.Warn(fmt.Sprintf("TLC %s timed out after %v, retrying once", o.Module, o.Timeout))
		return tlc.Run(o)
	}
	return res, err
}
