package engk

import (
	"bufio"
	"encoding/json"
	"fmt"
	"os"
	"path/filepath"
	"sort"
	"time"

	"verif/harness/internal/core"
	"verif/harness/internal/engk/drv/obs"
)

func sortedCopy(g [][]int) [][]int {
	out := make([][]int, len(g))
	for i := range g {
		out[i] = append([]int{}, g[i]...)
		sort.Ints(out[i])
	}
	return out
}

// judgeTraces turns TLC's verdict on recorded schedules into findings.
func judgeTraces(c *core.Ctx, st *ValStats, runCfg map[string]obs.Cfg, runKeys map[string][]string, runFail map[string]VsFailure, fs *findings, what string) error {
	for _, b := range st.Bad {
		if b.Kind == "infra" {
			return fmt.Errorf("%s: TLC rejects a recorded schedule at the level of Go semantics (scheduler/harness defect, not a verdict): run %s line %d: %s", what, b.Run, b.L, b.Why)
		}
	}
	// the first rejected line of a run is the cause (later ones may be consequences);
	// every reason given for that line is reported
	firstL := map[string]int{}
	for _, b := range st.Bad {
		if l, ok := firstL[b.Run]; !ok || b.L < l {
			firstL[b.Run] = b.L
		}
	}
	seen := map[string]bool{}
	for _, b := range st.Bad {
		if b.L != firstL[b.Run] {
			continue
		}
		seen[b.Run] = true
		cfg, ok := runCfg[b.Run]
		if !ok {
			return fmt.Errorf("%s: validator reported unknown run %q", what, b.Run)
		}
		f := runFail[b.Run]
		fs.add(cfg, b.Why, short(f.Detail, 300), map[string]interface{}{
			"cfg": cfg, "schedule_keys": runKeys[b.Run], "schedule_choices": f.Choices, "rejected_line": b.L, "judged_by": "ConcTrace.tla on the recorded schedule of the real (rewritten) generated code",
			"how": "vs.bin replay job: {\"mode\":\"replay\",\"replays\":[{\"cfg\":cfg,\"keys\":schedule_keys}]}"})
	}
	// every failure the Go-side detector flagged must have been confirmed by TLC
	for run, f := range runFail {
		if !seen[run] {
			return fmt.Errorf("%s: the detector flagged run %s (%s) but ConcTrace accepts it: detector and specification disagree", what, run, f.Class)
		}
	}
	return nil
}

func runPlan(c *core.Ctx, p *plan) error {
	t0 := time.Now()
	lap := func(k string) { c.Set("wall_"+k+"_s", int(time.Since(t0).Seconds()*10)/10.0); t0 = time.Now() }
	fs := &findings{}
	b, err := Prepare(c, p.stress > 0)
	if err != nil {
		return err
	}
	lap("prepare")
	// the language-version variant is independent of everything below: it runs alongside
	langCh := make(chan error, 1)
	go func() { langCh <- langVariant(c, b, p) }()

	// 1. TLC: model checking of the combinator modules (concurrently with the search)
	type mcOut struct {
		states, trans int
		details       []map[string]interface{}
		err           error
	}
	mcCh := make(chan mcOut, 1)
	go func() {
		s, t, d, err := runMC(c, p.mc)
		mcCh <- mcOut{s, t, d, err}
	}()

	// 2. exhaustive search of the real rewritten code
	rs, traces, err := explore(c, b, p)
	if err != nil {
		return err
	}
	lap("search")
	type rpOut struct {
		rp  *ReplayStats
		err error
	}
	rpCh := make(chan rpOut, 1)
	if p.nSim > 0 { // simulation + replay overlap with the validation of the search's schedules
		go func() {
			bs, err := Simulate(c, p.simCfg, p.nSim, min(p.procs, 8), "s")
			if err != nil {
				rpCh <- rpOut{nil, err}
				return
			}
			rp, err := ReplayAll(c, b, bs, "r", p.procs)
			rpCh <- rpOut{rp, err}
		}()
	}
	runCfg := map[string]obs.Cfg{}
	runKeys := map[string][]string{}
	runFail := map[string]VsFailure{}
	states, runs, edges, complete, logged, nontriv := 0, 0, 0, 0, 0, 0
	exhaustive := true
	for _, r := range rs {
		states += r.States
		runs += r.Runs
		edges += r.Edges
		complete += r.Complete
		logged += r.Logged
		exhaustive = exhaustive && r.Exhausted
		if r.States > 30 {
			nontriv++
		}
		for _, f := range r.Failures {
			runFail[f.Run] = f
		}
	}
	for _, tp := range traces {
		rr, err := readTraceRuns(tp)
		if err != nil {
			return err
		}
		for id := range rr {
			runCfg[id], runKeys[id] = cfgOfRun(rr[id]), keysOfRun(rr[id])
		}
	}
	st, err := Validate(c, traces, "dfs")
	if err != nil {
		return err
	}
	if err := judgeTraces(c, st, runCfg, runKeys, runFail, fs, "search"); err != nil {
		return err
	}
	if err := bindingSelfTest(c, traces[0]); err != nil {
		// the self-test needs one long correct schedule; when the code under test is broken so badly that none
		// exists, the violations already judged on the recorded schedules are the result, not an infrastructure error
		fs.mu.Lock()
		nf := len(fs.m)
		fs.mu.Unlock()
		if nf == 0 {
			return err
		}
		c.Warn("binding self-test not run: " + err.Error())
	}
	lap("validate")

	// 3. TLC-simulated behaviours replayed into the real code (started right after the search, see above)
	var rp *ReplayStats
	replayValidated := 0
	if p.nSim > 0 {
		ro := <-rpCh
		if ro.err != nil {
			return ro.err
		}
		rp = ro.rp
		// the replayed runs are real executions too: TLC judges them (a sample, they are long)
		maxT := 2
		if len(rp.Traces) < maxT {
			maxT = len(rp.Traces)
		}
		vtraces := append([]string{}, rp.Traces[:maxT]...)
		if len(rp.Failures) > 0 && len(rp.Traces) > maxT { // failing replays elsewhere are judged too
			want := map[string]bool{}
			for i, f := range rp.Failures {
				if i < 40 {
					want[f.Run] = true
				}
			}
			fp := filepath.Join(c.Work, "replay-failing.ndjson")
			n, err := extractRuns(rp.Traces[maxT:], want, fp)
			if err != nil {
				return err
			}
			if n > 0 {
				vtraces = append(vtraces, fp)
			}
		}
		rst, err := Validate(c, vtraces, "replay")
		if err != nil {
			return err
		}
		rcfg := map[string]obs.Cfg{}
		rkeys := map[string][]string{}
		for _, tp := range vtraces {
			rr, err := readTraceRuns(tp)
			if err != nil {
				return err
			}
			for id := range rr {
				rcfg[id], rkeys[id] = cfgOfRun(rr[id]), keysOfRun(rr[id])
			}
		}
		rfail := map[string]VsFailure{}
		for _, f := range rp.Failures {
			if _, ok := rcfg[f.Run]; ok {
				rfail[f.Run] = f
			}
		}
		if err := judgeTraces(c, rst, rcfg, rkeys, rfail, fs, "replay"); err != nil {
			return err
		}
		replayValidated = rst.Runs
		st.Drift = append(st.Drift, rst.Drift...)
		for _, d := range rp.Diverged {
			if d != "" {
				c.Drift("TLC behaviour not reproduced by the real code: " + d)
			}
		}
		lap("replay")
	}

	// 4. the unrewritten program on the real runtime: rewriter cross-check, then race stress
	if err := realChecks(c, b, p, rs, fs); err != nil {
		return err
	}
	lap("real")
	langErr := <-langCh
	lap("lang_variant_wait")

	mc := <-mcCh
	// nothing of this check runs any more: judge what was too slow under load, alone
	starvedErr := resolveStarved(c)
	for _, e := range []error{langErr, mc.err, starvedErr} {
		if e != nil {
			fs.report(c) // findings made so far stay visible next to the infrastructure error
			return e
		}
	}
	driftRuns := map[string]bool{}
	for _, d := range st.Drift {
		if !driftRuns[d.Run] && len(driftRuns) < 3 {
			c.Drift(fmt.Sprintf("recorded schedule %s is not a behaviour of the combinator module: line %d: %s", d.Run, d.L, d.Why))
		}
		driftRuns[d.Run] = true
	}
	fs.report(c)

	c.Set("states", mc.states)
	c.Set("transitions", mc.trans)
	c.Set("tlc_model_checking", mc.details)
	c.Set("traces_validated_against_impl", st.Runs+replayValidated)
	c.Set("trace_lines_validated", st.Lines)
	c.Set("real_code_states", states)
	c.Set("real_code_schedules", runs)
	c.Set("real_code_steps", edges)
	c.Set("real_code_complete_schedules", complete)
	c.Set("configurations", len(rs))
	c.Set("evaluations", runs)
	c.Set("distinct_nontrivial", nontriv)
	c.Set("exhaustive", exhaustive)
	c.Set("conformance_drift_runs", len(driftRuns))
	if rp != nil {
		c.Set("tlc_behaviours_replayed", rp.Behaviours)
		c.Set("tlc_behaviours_reproduced", rp.Matched)
		c.Set("tlc_replay_steps", rp.Steps)
	}
	var ids []string
	for id, ks := range runKeys {
		if len(ks) >= 8 {
			ids = append(ids, id)
		}
	}
	sort.Strings(ids)
	for i := 0; i < len(ids) && i < 2; i++ {
		id := ids[(i*len(ids))/2]
		c.Sample(map[string]interface{}{"configuration": runCfg[id].ID(), "recorded_schedule_of_real_code": runKeys[id], "format": "transition|goroutine|partner-or-child|select-case"})
	}
	for i := 0; i < len(rs) && i < 4; i++ {
		r := rs[(i*7+len(rs)/2)%len(rs)]
		c.Sample(map[string]interface{}{"configuration": r.ID, "states_of_real_code": r.States, "schedules": r.Runs, "complete": r.Complete, "outcomes": r.Outcomes, "first_delivery": r.FirstGot})
	}
	return nil
}

func cfgOfRun(lines []map[string]interface{}) obs.Cfg {
	var cfg obs.Cfg
	if len(lines) == 0 {
		return cfg
	}
	m, _ := lines[0]["cfg"].(map[string]interface{})
	cfg.Comb, _ = m["comb"].(string)
	cfg.Form, _ = m["form"].(string)
	if f, ok := m["cap"].(float64); ok {
		cfg.Cap = int(f)
	}
	cfg.Rv, _ = m["rv"].(bool)
	cfg.Ring, _ = m["ring"].(bool)
	for _, k := range []string{"items", "fail"} {
		arr, _ := m[k].([]interface{})
		var xs []int
		for _, a := range arr {
			xs = append(xs, int(a.(float64)))
		}
		if k == "items" {
			cfg.Items = xs
		} else {
			cfg.Fail = xs
		}
	}
	return cfg
}

func keysOfRun(lines []map[string]interface{}) []string {
	var ks []string
	for _, l := range lines {
		if l["ev"] == "step" {
			ks = append(ks, fmt.Sprintf("%v|%v|%v|%d", l["k"], l["g"], l["q"], int(l["case"].(float64))))
		}
	}
	return ks
}

// extractRuns copies the lines of the wanted runs into one schedule file.
func extractRuns(paths []string, want map[string]bool, out string) (int, error) {
	of, err := os.Create(out)
	if err != nil {
		return 0, err
	}
	defer of.Close()
	w := bufio.NewWriter(of)
	defer w.Flush()
	n := 0
	for _, p := range paths {
		f, err := os.Open(p)
		if err != nil {
			return 0, err
		}
		sc := bufio.NewScanner(f)
		sc.Buffer(make([]byte, 1<<20), 1<<28)
		for sc.Scan() {
			var hdr struct {
				Ev  string `json:"ev"`
				Run string `json:"run"`
			}
			if json.Unmarshal(sc.Bytes(), &hdr) != nil || !want[hdr.Run] {
				continue
			}
			if hdr.Ev == "start" {
				n++
			}
			w.Write(sc.Bytes())
			w.WriteByte('\n')
		}
		f.Close()
	}
	return n, nil
}
