package engk

import (
	"bufio"
	"bytes"
	"context"
	"encoding/json"
	"fmt"
	"os"
	"os/exec"
	"path/filepath"
	"time"

	"verif/harness/internal/core"
	"verif/harness/internal/engk/drv/obs"
)

// mirrors of the records of drv/vsmain and drv/realmain
type Replay struct {
	ID   string   `json:"id"`
	Cfg  obs.Cfg  `json:"cfg"`
	Keys []string `json:"keys"`
}

type VsJob struct {
	Mode        string    `json:"mode"`
	Cfgs        []obs.Cfg `json:"cfgs"`
	POR         bool      `json:"por"`
	MaxSteps    int       `json:"max_steps"`
	LogRuns     int       `json:"log_runs"`
	LogLines    int       `json:"log_lines"`
	Seed        int64     `json:"seed"`
	N           int       `json:"n"`
	Replays     []Replay  `json:"replays"`
	Tag         string    `json:"tag"`
	StartPoints bool      `json:"start_points"`
}

type VsFailure struct {
	Class   string   `json:"class"`
	Detail  string   `json:"detail"`
	Choices []int    `json:"choices"`
	Keys    []string `json:"keys"`
	Run     string   `json:"run"`
}

type VsResult struct {
	Cfg       obs.Cfg        `json:"cfg"`
	ID        string         `json:"id"`
	States    int            `json:"states"`
	Runs      int            `json:"runs"`
	Edges     int            `json:"edges"`
	Complete  int            `json:"complete"`
	Outcomes  map[string]int `json:"outcomes"`
	Failures  []VsFailure    `json:"failures"`
	Logged    int            `json:"logged"`
	Lines     int            `json:"lines"`
	WallMs    int64          `json:"wall_ms"`
	Exhausted bool           `json:"exhausted"`
	FirstGot  [][]int        `json:"first_got"`
	FirstRes  []int          `json:"first_res"`
	FirstErr  int            `json:"first_err"`
}

type ReplayOut struct {
	ID       string `json:"id"`
	Outcome  string `json:"outcome"`
	Steps    int    `json:"steps"`
	Want     int    `json:"want"`
	Class    string `json:"class"`
	Detail   string `json:"detail"`
	Diverged string `json:"diverged"`
}

type VsOut struct {
	Results []VsResult
	Replays []ReplayOut
	Trace   string // NDJSON schedules
	Wall    time.Duration
}

var jobSeq int

// RunVs executes one job of the controlled driver in a sub-process.
func RunVs(c *core.Ctx, b *Built, job VsJob, name string, timeout time.Duration) (*VsOut, error) {
	dir := filepath.Join(c.Work, "jobs")
	os.MkdirAll(dir, 0755)
	jp := filepath.Join(dir, name+".job.json")
	rp := filepath.Join(dir, name+".res.ndjson")
	tp := filepath.Join(dir, name+".trace.ndjson")
	data, _ := json.Marshal(job)
	if err := os.WriteFile(jp, data, 0644); err != nil {
		return nil, err
	}
	ctx, cancel := context.WithTimeout(context.Background(), timeout)
	defer cancel()
	cmd := exec.CommandContext(ctx, b.VsBin, jp, rp, tp)
	var se bytes.Buffer
	cmd.Stderr = &se
	start := time.Now()
	err := cmd.Run()
	if ctx.Err() != nil {
		return nil, fmt.Errorf("controlled driver job %s timed out after %v", name, timeout)
	}
	if err != nil {
		return nil, fmt.Errorf("controlled driver job %s failed: %v\n%s", name, err, tail(se.String(), 2000))
	}
	out := &VsOut{Trace: tp, Wall: time.Since(start)}
	f, err := os.Open(rp)
	if err != nil {
		return nil, err
	}
	defer f.Close()
	sc := bufio.NewScanner(f)
	sc.Buffer(make([]byte, 1<<20), 1<<28)
	for sc.Scan() {
		if job.Mode == "replay" {
			var r ReplayOut
			if err := json.Unmarshal(sc.Bytes(), &r); err != nil {
				return nil, err
			}
			out.Replays = append(out.Replays, r)
		} else {
			var r VsResult
			if err := json.Unmarshal(sc.Bytes(), &r); err != nil {
				return nil, err
			}
			out.Results = append(out.Results, r)
		}
	}
	return out, sc.Err()
}

func tail(s string, n int) string {
	if len(s) > n {
		return "..." + s[len(s)-n:]
	}
	return s
}
