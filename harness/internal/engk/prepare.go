package engk

import (
	"embed"
	"fmt"
	"os"
	"os/exec"
	"path/filepath"
	"strings"
	"time"

	"verif/harness/internal/core"
	"verif/harness/internal/gd"
)

//go:embed vsched/*.go drv/obs/*.go drv/k/*.go drv/vsmain/*.go drv/realmain/*.go
var srcFS embed.FS

// Built is the scratch module holding the real generated code in both forms.
type Built struct {
	Root    string // module root (module m)
	VsBin   string // rewritten code + vsched + controlled driver
	RealBin string // unrewritten code, real runtime
	RaceBin string // unrewritten code, -race
	Derived string // the text goderive generated
}

var importRepl = strings.NewReplacer(
	"verif/harness/internal/engk/vsched", "m/vsched",
	"verif/harness/internal/engk/drv/obs", "m/obs",
	"//go:build kdriver\n", "",
)

func copyEmbedded(srcDir, dstDir string) error {
	ents, err := srcFS.ReadDir(srcDir)
	if err != nil {
		return err
	}
	if err := os.MkdirAll(dstDir, 0755); err != nil {
		return err
	}
	for _, e := range ents {
		if e.IsDir() || strings.HasSuffix(e.Name(), "_test.go") {
			continue
		}
		data, err := srcFS.ReadFile(srcDir + "/" + e.Name())
		if err != nil {
			return err
		}
		if err := os.WriteFile(filepath.Join(dstDir, e.Name()), []byte(importRepl.Replace(string(data))), 0644); err != nil {
			return err
		}
	}
	return nil
}

func (b *Built) goBuild(c *core.Ctx, out, pkg string, flags ...string) error {
	args := append([]string{"build"}, flags...)
	args = append(args, "-o", out, pkg)
	cmd := exec.Command(c.GoBin, args...)
	cmd.Dir = b.Root
	cmd.Env = c.GoEnv()
	if o, err := cmd.CombinedOutput(); err != nil {
		return fmt.Errorf("go %s: %v\n%s", strings.Join(args, " "), err, o)
	}
	return nil
}

// GenError is returned when the real goderive, or the compiler on its
// output, rejects the driver package: that is goderive's behaviour, not an
// infrastructure problem.
type GenError struct{ Msg string }

func (e *GenError) Error() string { return e.Msg }

// Prepare generates the combinator instances with the real goderive,
// rewrites them and builds the drivers.
func Prepare(c *core.Ctx, race bool) (*Built, error) {
	bin, err := gd.Build(c)
	if err != nil {
		return nil, err
	}
	root := filepath.Join(c.Work, "m")
	b := &Built{Root: root, VsBin: filepath.Join(root, "vs.bin"), RealBin: filepath.Join(root, "real.bin"), RaceBin: filepath.Join(root, "race.bin")}
	for _, p := range [][2]string{{"vsched", "vsched"}, {"drv/obs", "obs"}, {"drv/k", "k"}, {"drv/vsmain", "cmd/vs"}, {"drv/realmain", "cmd/real"}} {
		if err := copyEmbedded(p[0], filepath.Join(root, p[1])); err != nil {
			return nil, err
		}
	}
	if err := os.WriteFile(filepath.Join(root, "go.mod"), []byte("module m\n\ngo 1.24\n"), 0644); err != nil {
		return nil, err
	}
	kdir := filepath.Join(root, "k")
	res, err := gd.Run(c, bin, kdir, []string{"."}, "", 60*time.Second)
	if err != nil {
		return nil, err
	}
	if res.Exit != 0 || res.TimedOut {
		return nil, &GenError{fmt.Sprintf("goderive failed on the combinator package: exit=%d timedout=%v\n%s", res.Exit, res.TimedOut, res.Stderr)}
	}
	der, err := os.ReadFile(filepath.Join(kdir, "derived.gen.go"))
	if err != nil {
		return nil, &GenError{"goderive exited 0 without writing derived.gen.go"}
	}
	b.Derived = string(der)
	if err := RewritePackage(root, "m", "m/k", kdir, filepath.Join(root, "kv"), "m/vsched"); err != nil {
		if strings.Contains(err.Error(), "does not type-check") {
			return nil, &GenError{err.Error()}
		}
		return nil, err
	}
	if err := b.goBuild(c, b.VsBin, "./cmd/vs"); err != nil {
		return nil, fmt.Errorf("rewritten program does not build: %v", err)
	}
	if err := b.goBuild(c, b.RealBin, "./cmd/real"); err != nil {
		return nil, err
	}
	if race {
		if err := b.goBuild(c, b.RaceBin, "./cmd/real", "-race"); err != nil {
			return nil, err
		}
	}
	return b, nil
}

// PrepareLang builds a second variant of the program in which the GENERATED
// file is compiled under an older Go language version: k/derived.gen.go (and
// therefore its rewritten copy) starts with `//go:build <lang>`, which Go
// honours as that file's language version. Below go1.22 a range variable is
// one variable for the whole loop, so generated goroutine closures that
// capture it directly behave differently. The driver's own files stay at the
// module's go 1.24.
func PrepareLang(c *core.Ctx, base *Built, lang string, race bool) (*Built, error) {
	root := filepath.Join(c.Work, "m-"+lang)
	b := &Built{Root: root, VsBin: filepath.Join(root, "vs.bin"), RealBin: filepath.Join(root, "real.bin"), RaceBin: filepath.Join(root, "race.bin"), Derived: base.Derived}
	for _, d := range []string{"vsched", "obs", "k", "cmd/vs", "cmd/real"} {
		ents, err := os.ReadDir(filepath.Join(base.Root, d))
		if err != nil {
			return nil, err
		}
		if err := os.MkdirAll(filepath.Join(root, d), 0755); err != nil {
			return nil, err
		}
		for _, e := range ents {
			if e.IsDir() || !strings.HasSuffix(e.Name(), ".go") {
				continue
			}
			data, err := os.ReadFile(filepath.Join(base.Root, d, e.Name()))
			if err != nil {
				return nil, err
			}
			if d == "k" && e.Name() == "derived.gen.go" {
				data = append([]byte("//go:build "+lang+"\n\n"), data...)
			}
			if err := os.WriteFile(filepath.Join(root, d, e.Name()), data, 0644); err != nil {
				return nil, err
			}
		}
	}
	if err := os.WriteFile(filepath.Join(root, "go.mod"), []byte("module m\n\ngo 1.24\n"), 0644); err != nil {
		return nil, err
	}
	if err := RewritePackage(root, "m", "m/k", filepath.Join(root, "k"), filepath.Join(root, "kv"), "m/vsched"); err != nil {
		if strings.Contains(err.Error(), "does not type-check") {
			return nil, &GenError{lang + " variant: " + err.Error()}
		}
		return nil, err
	}
	if err := b.goBuild(c, b.VsBin, "./cmd/vs"); err != nil {
		return nil, fmt.Errorf("%s variant: rewritten program does not build: %v", lang, err)
	}
	if err := b.goBuild(c, b.RealBin, "./cmd/real"); err != nil {
		return nil, fmt.Errorf("%s variant: %v", lang, err)
	}
	if race {
		if err := b.goBuild(c, b.RaceBin, "./cmd/real", "-race"); err != nil {
			return nil, err
		}
	}
	return b, nil
}
