package engk

import (
	"fmt"

	"verif/harness/internal/core"
	"verif/harness/internal/engk/drv/obs"
)

func init() {
	core.Register("C20", checkC20)
}

// doCfgs: n functions x every failing subset (function i fails with error
// code i+1) x with/without rendezvous; the completion orders are the schedules.
func doCfgs(minN, maxN int) []obs.Cfg {
	var cs []obs.Cfg
	for n := minN; n <= maxN; n++ {
		for mask := 0; mask < 1<<n; mask++ {
			fail := make([]int, n)
			for i := 0; i < n; i++ {
				if mask&(1<<i) != 0 {
					fail[i] = i + 1
				}
			}
			for _, rv := range []bool{false, true} {
				cs = append(cs, obs.Cfg{Comb: "do", Items: []int{}, Fail: fail, Rv: rv})
			}
			if n >= 3 { // ring of n: f0 waits for the last function, everyone for its predecessor
				cs = append(cs, obs.Cfg{Comb: "do", Items: []int{}, Fail: append([]int{}, fail...), Ring: true})
			}
		}
	}
	return cs
}

func doMC(maxN int) string {
	return fmt.Sprintf("SPECIFICATION MCSpec\nCONSTANTS\n  Combs = {\"do\"}\n  MaxInputs = %d\n  MaxItems = 0\n  MaxCap = 0\nINVARIANTS NoPanic NoDeadlock DoHappensBefore DoSpawnAllFirst DoResult DoReturns CanStepIsEnabled\nPROPERTY EventuallyDone\nCHECK_DEADLOCK TRUE\n", maxN)
}

func checkC20(c *core.Ctx) error {
	p := &plan{prop: "C20", procs: nprocs(), logRuns: 40, logLines: 700}
	maxN := 4
	p.cfgs = doCfgs(2, maxN)
	p.mc = []mcRun{{name: fmt.Sprintf("do: 2..%d functions x every failing subset x {independent, star rendezvous, ring}", maxN), cfgText: doMC(maxN), workers: 1}}
	p.simCfg = simCfg(`"do"`, maxN, 0, 0)
	p.nSim = 300
	p.stress = 4
	if !c.Quick() {
		p.nSim = 5000
		p.stress = 60
		p.logRuns, p.logLines = 200, 4000
	}
	p.mc = append(p.mc, chaosMC())
	p.realCfgs = p.cfgs
	if err := runPlan(c, p); err != nil {
		return err
	}
	c.Set("rule", "every interleaving (at the grain of spec/conc/GoChan.tla) of the real generated deriveDo with 2..4 functions, every failing subset, functions independent, in a star rendezvous (f0 waits for every later function) or in a ring (f0 waits for the last); non-trivial = configurations with more than 30 distinct abstract states")
	c.Assume("the AST rewriter (channel/go/WaitGroup operations -> vsched calls) preserves the generated code's behaviour; cross-checked against the unrewritten program on the real runtime")
	c.Assume("reads and writes of the result variables v_i are not scheduling points: their ordering is checked through the values Do returns under every schedule, the happens-before invariant of Do.tla, and the Go race detector on the unrewritten code")
	return nil
}
