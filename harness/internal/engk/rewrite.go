package engk

import (
	"fmt"
	"go/ast"
	"go/token"
	"go/types"
	"reflect"
	"strconv"
)

// rewriter turns every channel / goroutine / WaitGroup operation of a
// type-checked package into a call into vsched. Everything else (loop
// structure, order of operations, which goroutine does what) is left exactly
// as the generator printed it.
type rewriter struct {
	info   *types.Info
	errs   []string
	used   bool // the current file references vsched
	pre122 bool // the current file's language version is below go1.22 (//go:build go1.21): no range-over-func, per-loop range variables
}

const vsName = "vsched"

func (r *rewriter) errf(pos token.Pos, f string, a ...interface{}) {
	r.errs = append(r.errs, fmt.Sprintf("pos %d: ", pos)+fmt.Sprintf(f, a...))
}

func (r *rewriter) vs(name string) ast.Expr {
	r.used = true
	return &ast.SelectorExpr{X: ast.NewIdent(vsName), Sel: ast.NewIdent(name)}
}

func sel(x ast.Expr, name string) ast.Expr {
	switch x.(type) {
	case *ast.Ident, *ast.SelectorExpr, *ast.CallExpr, *ast.IndexExpr, *ast.ParenExpr:
	default:
		x = &ast.ParenExpr{X: x}
	}
	return &ast.SelectorExpr{X: x, Sel: ast.NewIdent(name)}
}

func call(fun ast.Expr, args ...ast.Expr) *ast.CallExpr { return &ast.CallExpr{Fun: fun, Args: args} }

func (r *rewriter) chanOf(elem ast.Expr) ast.Expr {
	return &ast.StarExpr{X: &ast.IndexExpr{X: r.vs("Chan"), Index: elem}}
}

func (r *rewriter) isChan(e ast.Expr) bool {
	t := r.info.TypeOf(e)
	if t == nil {
		return false
	}
	_, ok := t.Underlying().(*types.Chan)
	return ok
}

func (r *rewriter) builtin(c *ast.CallExpr) string {
	id, ok := c.Fun.(*ast.Ident)
	if !ok {
		return ""
	}
	if _, ok := r.info.Uses[id].(*types.Builtin); !ok {
		return ""
	}
	return id.Name
}

func (r *rewriter) isSyncPkg(e ast.Expr) bool {
	id, ok := e.(*ast.Ident)
	if !ok {
		return false
	}
	pn, ok := r.info.Uses[id].(*types.PkgName)
	return ok && pn.Imported().Path() == "sync"
}

func isWaitGroup(t types.Type) bool {
	n, ok := t.(*types.Named)
	return ok && n.Obj().Pkg() != nil && n.Obj().Pkg().Path() == "sync" && n.Obj().Name() == "WaitGroup"
}

var (
	exprT  = reflect.TypeOf((*ast.Expr)(nil)).Elem()
	stmtT  = reflect.TypeOf((*ast.Stmt)(nil)).Elem()
	nodeT  = reflect.TypeOf((*ast.Node)(nil)).Elem()
	objT   = reflect.TypeOf((*ast.Object)(nil))
	scopeT = reflect.TypeOf((*ast.Scope)(nil))
)

// children rewrites every child expression / statement of n in place.
func (r *rewriter) children(n ast.Node) {
	v := reflect.ValueOf(n)
	if v.Kind() != reflect.Ptr || v.IsNil() {
		return
	}
	v = v.Elem()
	if v.Kind() != reflect.Struct {
		return
	}
	for i := 0; i < v.NumField(); i++ {
		r.field(v.Field(i))
	}
}

func (r *rewriter) field(f reflect.Value) {
	switch {
	case f.Type() == objT || f.Type() == scopeT || !f.CanSet():
		return
	case f.Kind() == reflect.Slice:
		for i := 0; i < f.Len(); i++ {
			r.field(f.Index(i))
		}
	case f.Type() == exprT:
		if !f.IsNil() {
			f.Set(reflect.ValueOf(r.expr(f.Interface().(ast.Expr))))
		}
	case f.Type() == stmtT:
		if !f.IsNil() {
			f.Set(reflect.ValueOf(r.stmt(f.Interface().(ast.Stmt))))
		}
	case f.Kind() == reflect.Ptr && f.Type().Implements(nodeT):
		if f.IsNil() {
			return
		}
		switch n := f.Interface().(type) {
		case *ast.CallExpr: // defer f(x) / go f(x): the field is typed *ast.CallExpr
			if c, ok := r.expr(n).(*ast.CallExpr); ok {
				f.Set(reflect.ValueOf(c))
			} else {
				r.errf(n.Pos(), "call position rewritten to a non-call")
			}
		case *ast.Ident, *ast.BasicLit:
		case ast.Stmt:
			res := r.stmt(n)
			if reflect.TypeOf(res) == f.Type() {
				f.Set(reflect.ValueOf(res))
			} else {
				r.errf(n.Pos(), "statement of type %T rewritten to %T in a typed position", n, res)
			}
		default:
			r.children(n.(ast.Node))
		}
	case f.Kind() == reflect.Interface && f.Type().Implements(nodeT): // ast.Decl, ast.Spec
		if !f.IsNil() {
			r.children(f.Interface().(ast.Node))
		}
	}
}

// expr rewrites one expression (children first, decisions from the ORIGINAL types).
func (r *rewriter) expr(e ast.Expr) ast.Expr {
	switch x := e.(type) {
	case *ast.ChanType:
		return r.chanOf(r.expr(x.Value))
	case *ast.UnaryExpr:
		if x.Op == token.ARROW {
			return call(sel(r.expr(x.X), "Recv"))
		}
	case *ast.CallExpr:
		if b := r.builtin(x); b != "" && len(x.Args) > 0 && r.isChan(x.Args[0]) {
			switch b {
			case "make":
				ct, ok := ast.Unparen(x.Args[0]).(*ast.ChanType)
				if !ok {
					r.errf(x.Pos(), "make of a named channel type is not supported")
					return e
				}
				var n ast.Expr = &ast.BasicLit{Kind: token.INT, Value: "0"}
				if len(x.Args) > 1 {
					n = r.expr(x.Args[1])
				}
				return call(&ast.IndexExpr{X: r.vs("Make"), Index: r.expr(ct.Value)}, n)
			case "close":
				return call(sel(r.expr(x.Args[0]), "Close"))
			case "cap":
				return call(sel(r.expr(x.Args[0]), "Cap"))
			case "len":
				return call(sel(r.expr(x.Args[0]), "Len"))
			}
		}
	case *ast.CompositeLit:
		if t := r.info.TypeOf(x); t != nil && isWaitGroup(t) {
			if len(x.Elts) != 0 {
				r.errf(x.Pos(), "sync.WaitGroup literal with fields")
			}
			return call(r.vs("MakeWaitGroup"))
		}
	case *ast.SelectorExpr:
		if r.isSyncPkg(x.X) {
			if x.Sel.Name != "WaitGroup" {
				r.errf(x.Pos(), "sync.%s is not supported by the controlled scheduler", x.Sel.Name)
				return e
			}
			return r.vs("WaitGroup")
		}
	}
	r.children(e)
	return e
}

func intLit(i int) ast.Expr { return &ast.BasicLit{Kind: token.INT, Value: strconv.Itoa(i)} }
