package engk

import (
	"bufio"
	"encoding/json"
	"fmt"
	"os"
	"path/filepath"
	"reflect"
	"sort"
	"strings"
	"sync"
	"time"

	"verif/harness/internal/core"
	"verif/harness/internal/engk/drv/obs"
	"verif/harness/internal/tlc"
)

type simStep struct {
	S  map[string]interface{} `json:"s"`
	St map[string]interface{} `json:"st"`
}

// Behaviour is one TLC-simulated behaviour of a combinator module.
type Behaviour struct {
	Cfg        obs.Cfg   `json:"cfg"`
	Hist       []simStep `json:"hist"`
	Terminated bool      `json:"terminated"`
}

func (b *Behaviour) Keys() []string {
	var ks []string
	for _, h := range b.Hist {
		ks = append(ks, fmt.Sprintf("%v|%v|%v|%d", h.S["k"], h.S["g"], h.S["q"], int(h.S["case"].(float64))))
	}
	return ks
}

// Simulate runs TLC -simulate on ConcSim (workers parallel TLC processes with
// different seeds) and returns the exported behaviours.
func Simulate(c *core.Ctx, cfgText string, total, workers int, name string) ([]Behaviour, error) {
	if workers < 1 {
		workers = 1
	}
	per := (total + workers - 1) / workers
	var mu sync.Mutex
	var wg sync.WaitGroup
	var firstErr error
	outs := make([][]Behaviour, workers)
	for w := 0; w < workers; w++ {
		wg.Add(1)
		go func(w int) {
			defer wg.Done()
			outp := filepath.Join(c.Work, fmt.Sprintf("sim-%s-%d.csv", name, w))
			var res *tlc.Result
			var err error
			for attempt := 0; attempt < 2; attempt++ { // a JVM was seen to hang under load: one retry, export file reset
				os.Remove(outp)
				res, err = tlc.Run(tlc.Opts{
					SpecDirs: []string{specDir(c)}, Module: "ConcSim", Config: "sim.cfg",
					Files:   map[string]string{"sim.cfg": cfgText},
					Workers: 1, Timeout: 6 * time.Minute, HeapMB: 2000, Scratch: c.Work,
					Env:   map[string]string{"VERIF_OUT": outp},
					Extra: []string{"-simulate", fmt.Sprintf("num=%d", per), "-depth", "400", "-seed", fmt.Sprint(c.Seed*1000 + int64(w) + 1)},
				})
				if err == nil || !strings.Contains(err.Error(), "timed out") {
					break
				}
				c.Warn("TLC ConcSim timed out, retrying once")
			}
			if err == nil && res.Violation {
				err = fmt.Errorf("ConcSim reported a violation: %s", res.ErrText)
			}
			var bs []Behaviour
			if err == nil {
				bs, err = readBehaviours(outp)
			}
			mu.Lock()
			defer mu.Unlock()
			if err != nil && firstErr == nil {
				firstErr = err
			}
			outs[w] = bs
		}(w)
	}
	wg.Wait()
	if firstErr != nil {
		return nil, firstErr
	}
	var all []Behaviour
	for _, bs := range outs {
		all = append(all, bs...)
	}
	return all, nil
}

func readBehaviours(path string) ([]Behaviour, error) {
	f, err := os.Open(path)
	if err != nil {
		return nil, err
	}
	defer f.Close()
	var out []Behaviour
	sc := bufio.NewScanner(f)
	sc.Buffer(make([]byte, 1<<20), 1<<28)
	for sc.Scan() {
		line := strings.TrimSpace(sc.Text())
		if line == "" {
			continue
		}
		var inner string
		if err := json.Unmarshal([]byte(line), &inner); err != nil {
			return nil, fmt.Errorf("simulation export line: %v", err)
		}
		var b Behaviour
		if err := json.Unmarshal([]byte(inner), &b); err != nil {
			return nil, fmt.Errorf("simulation export record: %v", err)
		}
		out = append(out, b)
	}
	return out, sc.Err()
}

// normState makes a projected state comparable: the arrays ch / wg / pend are sets.
func normState(st map[string]interface{}) map[string]interface{} {
	out := map[string]interface{}{"panic": st["panic"]}
	for _, k := range []string{"ch", "wg", "pend"} {
		arr, _ := st[k].([]interface{})
		items := append([]interface{}(nil), arr...)
		key := "id"
		if k == "pend" {
			key = "g"
		}
		sort.Slice(items, func(i, j int) bool {
			return fmt.Sprint(items[i].(map[string]interface{})[key]) < fmt.Sprint(items[j].(map[string]interface{})[key])
		})
		if items == nil {
			items = []interface{}{}
		}
		out[k] = items
	}
	return out
}

func sameState(a, b map[string]interface{}) bool {
	return reflect.DeepEqual(normState(a), normState(b))
}

// readTraceRuns groups a schedule file by run id.
func readTraceRuns(path string) (map[string][]map[string]interface{}, error) {
	f, err := os.Open(path)
	if err != nil {
		return nil, err
	}
	defer f.Close()
	runs := map[string][]map[string]interface{}{}
	sc := bufio.NewScanner(f)
	sc.Buffer(make([]byte, 1<<20), 1<<28)
	for sc.Scan() {
		var m map[string]interface{}
		if err := json.Unmarshal(sc.Bytes(), &m); err != nil {
			return nil, err
		}
		id, _ := m["run"].(string)
		runs[id] = append(runs[id], m)
	}
	return runs, sc.Err()
}
