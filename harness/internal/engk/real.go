package engk

import (
	"bytes"
	"context"
	"encoding/json"
	"fmt"
	"os"
	"os/exec"
	"path/filepath"
	"regexp"
	"strconv"
	"strings"
	"time"

	"verif/harness/internal/core"
	"verif/harness/internal/engk/drv/obs"
)

type RealJob struct {
	Cfgs    []obs.Cfg `json:"cfgs"`
	Iters   int       `json:"iters"`
	Seconds float64   `json:"seconds"`
	Seed    int64     `json:"seed"`
	Jitter  bool      `json:"jitter"`
	LimitS  float64   `json:"limit_s"`
}

type RealFailure struct {
	Class  string `json:"class"`
	Detail string `json:"detail"`
}

type RealResult struct {
	Cfg      obs.Cfg       `json:"cfg"`
	ID       string        `json:"id"`
	Runs     int           `json:"runs"`
	Failures []RealFailure `json:"failures"`
	Got      [][]int       `json:"got"`
	Results  []int         `json:"results"`
	ErrCode  int           `json:"err_code"`
	Starved  string        `json:"starved"`
}

// RealOut is one execution of the unrewritten program on the real runtime.
type RealOut struct {
	Results []RealResult
	Crash   string // class of a process-level failure: data race, runtime panic, fatal error
	CrashAt string // configuration announced last
	Stderr  string
	Runs    int
	Wall    time.Duration
}

var reBegin = regexp.MustCompile(`(?m)^BEGIN (.*)$`)

// RunReal runs the unrewritten generated code (bin = real or race binary).
func RunReal(c *core.Ctx, bin string, job RealJob, name string, timeout time.Duration) (*RealOut, error) {
	dir := filepath.Join(c.Work, "jobs")
	os.MkdirAll(dir, 0755)
	jp := filepath.Join(dir, name+".real.json")
	if job.LimitS == 0 { // VERIF_K_LIMIT_S: test hook to provoke the "too slow to judge" path without a loaded machine
		if v, err := strconv.ParseFloat(os.Getenv("VERIF_K_LIMIT_S"), 64); err == nil && v > 0 {
			job.LimitS = v
		}
	}
	data, _ := json.Marshal(job)
	if err := os.WriteFile(jp, data, 0644); err != nil {
		return nil, err
	}
	ctx, cancel := context.WithTimeout(context.Background(), timeout)
	defer cancel()
	cmd := exec.CommandContext(ctx, bin, jp)
	cmd.Env = append(os.Environ(), "GORACE=halt_on_error=1 exitcode=66")
	var so, se bytes.Buffer
	cmd.Stdout, cmd.Stderr = &so, &se
	start := time.Now()
	err := cmd.Run()
	out := &RealOut{Wall: time.Since(start)}
	stderr := se.String()
	if ms := reBegin.FindAllStringSubmatch(stderr, -1); len(ms) > 0 {
		out.CrashAt = ms[len(ms)-1][1]
		out.Runs = len(ms)
	}
	// keep only what is not the BEGIN chatter
	var keep []string
	for _, l := range strings.Split(stderr, "\n") {
		if !strings.HasPrefix(l, "BEGIN ") && l != "" {
			keep = append(keep, l)
		}
	}
	out.Stderr = tail(strings.Join(keep, "\n"), 4000)
	if ctx.Err() != nil {
		return nil, fmt.Errorf("real-runtime driver %s timed out after %v", name, timeout)
	}
	if err != nil {
		switch {
		case strings.Contains(stderr, "WARNING: DATA RACE"):
			out.Crash = "data race reported by the Go race detector"
		case strings.Contains(stderr, "all goroutines are asleep - deadlock"):
			out.Crash = "deadlock"
		case strings.Contains(stderr, "panic: send on closed channel"):
			out.Crash = "panic: send on closed channel"
		case strings.Contains(stderr, "panic: close of closed channel"):
			out.Crash = "panic: close of closed channel"
		case strings.Contains(stderr, "negative WaitGroup counter"):
			out.Crash = "panic: sync: negative WaitGroup counter"
		case strings.Contains(stderr, "panic:") || strings.Contains(stderr, "fatal error:"):
			out.Crash = "runtime panic"
		default:
			return nil, fmt.Errorf("real-runtime driver %s failed: %v\n%s", name, err, out.Stderr)
		}
		return out, nil
	}
	dec := json.NewDecoder(&so)
	for dec.More() {
		var r RealResult
		if err := dec.Decode(&r); err != nil {
			return nil, err
		}
		out.Results = append(out.Results, r)
	}
	out.Runs = 0
	for _, r := range out.Results {
		out.Runs += r.Runs
	}
	return out, nil
}
