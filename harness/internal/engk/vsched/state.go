package vsched

import (
	"fmt"
	"reflect"
	"sort"
	"strconv"
	"strings"
)

// toVal projects a value sent through a channel.
func toVal(v interface{}) Val {
	switch x := v.(type) {
	case nil:
		return Val{Kind: 'i'}
	case interface{ VschedChanID() string }:
		return Val{Kind: 'c', S: x.VschedChanID()}
	case interface{ VCode() int }:
		if rv := reflect.ValueOf(v); rv.Kind() == reflect.Ptr && rv.IsNil() {
			return Val{Kind: 'i'}
		}
		return Val{Kind: 'i', I: int64(x.VCode())}
	case string:
		return Val{Kind: 's', S: x}
	case bool:
		if x {
			return Val{Kind: 'i', I: 1}
		}
		return Val{Kind: 'i'}
	}
	rv := reflect.ValueOf(v)
	switch rv.Kind() {
	case reflect.Int, reflect.Int8, reflect.Int16, reflect.Int32, reflect.Int64:
		return Val{Kind: 'i', I: rv.Int()}
	case reflect.Uint, reflect.Uint8, reflect.Uint16, reflect.Uint32, reflect.Uint64:
		return Val{Kind: 'i', I: int64(rv.Uint())}
	}
	return Val{Kind: 's', S: fmt.Sprintf("%v", v)}
}

type hasher [2]uint64

func newHasher() hasher { return hasher{14695981039346656037, 0x9e3779b97f4a7c15} }

func (h *hasher) str(s string) {
	for i := 0; i < len(s); i++ {
		h[0] = (h[0] ^ uint64(s[i])) * 1099511628211
		h[1] = (h[1] + uint64(s[i]) + 1) * 0xff51afd7ed558ccd
		h[1] ^= h[1] >> 29
	}
	h[0] = (h[0] ^ 0xff) * 1099511628211
	h[1] = (h[1] + 0x1ff) * 0xff51afd7ed558ccd
}

func (h *hasher) num(n int64) { h.str(strconv.FormatInt(n, 10)) }

func (h *hasher) val(v Val) {
	h.str(string(v.Kind))
	if v.Kind == 'i' {
		h.num(v.I)
	} else {
		h.str(v.S)
	}
}

// mix folds a received result into the goroutine's history hash: goroutines
// are deterministic, so id + history determines the local state.
func (g *G) mix(v Val, ok bool, idx int) {
	h := hasher(g.hist)
	h.val(v)
	if ok {
		h.str("t")
	} else {
		h.str("f")
	}
	h.num(int64(idx))
	g.hist = h
}

func (s *Sched) sortedChans() []*chanCore {
	cs := append([]*chanCore(nil), s.chans...)
	sort.Slice(cs, func(i, j int) bool { return cs[i].id < cs[j].id })
	return cs
}

func (s *Sched) sortedGs() []*G {
	var gs []*G
	for _, g := range s.gs {
		if g.live {
			gs = append(gs, g)
		}
	}
	sort.Slice(gs, func(i, j int) bool { return gs[i].ID < gs[j].ID })
	return gs
}

// Hash is the fingerprint of the abstract state used for state caching.
func (s *Sched) Hash() [2]uint64 {
	h := newHasher()
	for _, c := range s.sortedChans() {
		h.str(c.id)
		h.num(int64(c.cap))
		if c.closed {
			h.str("C")
		}
		for _, v := range c.buf {
			h.val(toVal(v))
		}
		h.str(";")
	}
	ws := append([]*wgCore(nil), s.wgs...)
	sort.Slice(ws, func(i, j int) bool { return ws[i].id < ws[j].id })
	for _, w := range ws {
		h.str(w.id)
		h.num(int64(w.n))
	}
	for _, g := range s.sortedGs() {
		h.str(g.ID)
		h.num(int64(g.nops))
		h.num(int64(g.hist[0]))
		h.num(int64(g.hist[1]))
		p := g.pend
		h.str(p.Kind)
		h.str(chID(p.Ch))
		h.val(p.Val)
		for _, c := range p.Cases {
			h.str(chID(c))
		}
		if p.Wg != nil {
			h.str(p.Wg.id)
			h.num(int64(p.N))
		}
		h.str(";")
	}
	h.str(s.Panic)
	return h
}

func jstr(s string) string { return strconv.Quote(s) }

func (v Val) JSON() string {
	switch v.Kind {
	case 'i':
		return `{"i":` + strconv.FormatInt(v.I, 10) + `}`
	case 'c':
		return `{"c":` + jstr(v.S) + `}`
	case 's':
		return `{"s":` + jstr(v.S) + `}`
	}
	return `{"n":0}`
}

func pendJSON(g *G) string {
	p := g.pend
	var cs []string
	for _, c := range p.Cases {
		cs = append(cs, jstr(chID(c)))
	}
	c, w, child := "", "", ""
	if p.Kind == "send" || p.Kind == "recv" || p.Kind == "close" {
		c = chID(p.Ch)
	}
	if p.Wg != nil {
		w = p.Wg.id
	}
	if p.child != nil {
		child = p.child.ID
	}
	v := Val{}
	if p.Kind == "send" {
		v = p.Val
	}
	return fmt.Sprintf(`{"g":%s,"op":%s,"c":%s,"v":%s,"cs":[%s],"w":%s,"n":%d,"child":%s}`,
		jstr(g.ID), jstr(p.Kind), jstr(c), v.JSON(), strings.Join(cs, ","), jstr(w), p.N, jstr(child))
}

// StateJSON is the projected abstract state compared with the TLA+ state.
func (s *Sched) StateJSON() string {
	var b strings.Builder
	b.WriteString(`{"ch":[`)
	for i, c := range s.sortedChans() {
		if i > 0 {
			b.WriteByte(',')
		}
		var vs []string
		for _, v := range c.buf {
			vs = append(vs, toVal(v).JSON())
		}
		fmt.Fprintf(&b, `{"id":%s,"buf":[%s],"cap":%d,"closed":%v}`, jstr(c.id), strings.Join(vs, ","), c.cap, c.closed)
	}
	b.WriteString(`],"wg":[`)
	for i, w := range s.wgs {
		if i > 0 {
			b.WriteByte(',')
		}
		fmt.Fprintf(&b, `{"id":%s,"n":%d}`, jstr(w.id), w.n)
	}
	b.WriteString(`],"pend":[`)
	for i, g := range s.sortedGs() {
		if i > 0 {
			b.WriteByte(',')
		}
		b.WriteString(pendJSON(g))
	}
	pan := s.Panic
	if pan == "" {
		pan = "no"
	}
	fmt.Fprintf(&b, `],"panic":%s}`, jstr(pan))
	return b.String()
}

func (r StepRec) JSON() string {
	v := Val{}
	if r.HasV {
		v = r.Val
	}
	return fmt.Sprintf(`"g":%s,"k":%s,"q":%s,"c":%s,"w":%s,"case":%d,"v":%s,"ok":%v`,
		jstr(r.G), jstr(r.Kind), jstr(r.Q), jstr(r.Ch), jstr(r.Wg), r.Case, v.JSON(), r.Ok)
}

// inventoryJSON lists every channel, WaitGroup and goroutine the run created
// (the trace specification fixes its domains from it).
func (s *Sched) inventoryJSON() string {
	var cs, ws, gs []string
	for _, c := range s.sortedChans() {
		cs = append(cs, fmt.Sprintf(`{"id":%s,"cap":%d}`, jstr(c.id), c.cap))
	}
	for _, w := range s.wgs {
		ws = append(ws, jstr(w.id))
	}
	for _, g := range s.gs {
		gs = append(gs, fmt.Sprintf(`{"g":%s,"label":%s}`, jstr(g.ID), jstr(g.Label)))
	}
	return fmt.Sprintf(`{"ch":[%s],"wg":[%s],"g":[%s]}`, strings.Join(cs, ","), strings.Join(ws, ","), strings.Join(gs, ","))
}
