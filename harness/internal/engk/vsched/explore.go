package vsched

import "math/rand"

type frame struct {
	n      int
	choice int
}

// Explorer enumerates every interleaving of a deterministic program by
// depth-first search with re-execution and state caching: model checking of
// the real code at the grain of GoChan.tla.
type Explorer struct {
	Visited  map[[2]uint64]struct{}
	POR      bool // `go` is local, always enabled and invisible: give it priority
	MaxSteps int
	path     []frame
	States   int
	Runs     int
	Edges    int
	finished bool
}

func NewExplorer(por bool, maxSteps int) *Explorer {
	return &Explorer{Visited: map[[2]uint64]struct{}{}, POR: por, MaxSteps: maxSteps}
}

// reduce returns the indexes (into en) the search branches over.
func (e *Explorer) reduce(en []Trans) []int {
	if e.POR {
		for i, t := range en {
			if t.Kind == "go" {
				return []int{i}
			}
		}
	}
	idx := make([]int, len(en))
	for i := range en {
		idx[i] = i
	}
	return idx
}

// Next executes the next run of the search. ok is false when the space is exhausted.
func (e *Explorer) Next(main func()) (res *RunResult, ok bool) {
	if e.finished {
		return nil, false
	}
	var last *Sched
	choose := func(s *Sched, en []Trans, step int) int {
		last = s
		red := e.reduce(en)
		if step < len(e.path) {
			f := e.path[step]
			if f.choice >= len(red) {
				return -2 // nondeterministic program: the prefix does not replay
			}
			return red[f.choice]
		}
		h := s.Hash()
		if _, seen := e.Visited[h]; seen {
			return -1
		}
		e.Visited[h] = struct{}{}
		e.States++
		e.path = append(e.path, frame{n: len(red)})
		return red[0]
	}
	res = RunOnce(main, choose, false, e.MaxSteps)
	e.Runs++
	e.Edges += len(res.Choices)
	_ = last
	if res.Outcome == "done" || res.Outcome == "stuck" || res.Outcome == "panic" {
		e.NoteTerminal(res.Final)
	}
	// backtrack
	for len(e.path) > 0 && e.path[len(e.path)-1].choice+1 >= e.path[len(e.path)-1].n {
		e.path = e.path[:len(e.path)-1]
	}
	if len(e.path) == 0 {
		e.finished = true
	} else {
		e.path[len(e.path)-1].choice++
	}
	return res, true
}

// NoteTerminal counts a terminal state (no chooser call happens there).
func (e *Explorer) NoteTerminal(h [2]uint64) {
	if _, seen := e.Visited[h]; !seen {
		e.Visited[h] = struct{}{}
		e.States++
	}
}

// ReplayChoices re-executes a recorded run (indexes into the full enabled list).
func ReplayChoices(main func(), choices []int, log bool, maxSteps int) *RunResult {
	return RunOnce(main, func(s *Sched, en []Trans, step int) int {
		if step >= len(choices) {
			return -1
		}
		return choices[step]
	}, log, maxSteps)
}

// ReplayKeys follows a behaviour given as transition keys (TLC replay): the
// step must be enabled, otherwise the run ends as replaydiverged.
func ReplayKeys(main func(), keys []string, log bool) *RunResult {
	return RunOnce(main, func(s *Sched, en []Trans, step int) int {
		if step >= len(keys) {
			return -1
		}
		for i, t := range en {
			if t.Key() == keys[step] {
				return i
			}
		}
		return -2
	}, log, len(keys)+1)
}

// RunRandom picks uniformly among the enabled transitions.
func RunRandom(main func(), rng *rand.Rand, log bool, maxSteps int) *RunResult {
	return RunOnce(main, func(s *Sched, en []Trans, step int) int { return rng.Intn(len(en)) }, log, maxSteps)
}

// StepHook, when set, is called after every applied transition of every run
// (also the unlogged runs of the search) with the scheduler and the step.
var StepHook func(s *Sched, rec StepRec)

// ChanState reports a channel's buffer length and closed flag by id.
func (s *Sched) ChanState(id string) (n int, closed, ok bool) {
	for _, c := range s.chans {
		if c.id == id {
			return len(c.buf), c.closed, true
		}
	}
	return 0, false, false
}

// PendInfo is the pending operation of one live goroutine (for step hooks).
type PendInfo struct {
	ID, Label, Op, Ch string
}

// Pendings lists the live goroutines with their pending operations.
func (s *Sched) Pendings() []PendInfo {
	var ps []PendInfo
	for _, g := range s.gs {
		if g.live {
			ps = append(ps, PendInfo{g.ID, g.Label, g.pend.Kind, chID(g.pend.Ch)})
		}
	}
	return ps
}
