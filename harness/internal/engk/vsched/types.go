// Package vsched is a controlled cooperative scheduler for Go channel,
// goroutine and WaitGroup operations. Real goroutines run the code under
// test, but exactly one runs at a time: at every operation - BEFORE it takes
// effect - the goroutine parks with its pending operation, and the scheduler
// computes the enabled transitions exactly as spec/conc/GoChan.tla defines
// them and picks one (exhaustively, from a TLC behaviour, or at random).
//
// Standard library only: the package is copied verbatim into the scratch
// module that holds the rewritten generated code.
package vsched

import "fmt"

// Val is the projected form of a value travelling through a channel. The
// field name encodes the kind (TLC cannot compare values of different kinds).
type Val struct {
	Kind byte   // 'i' integer token, 'c' channel id, 's' string
	I    int64  // Kind 'i'
	S    string // Kind 'c' / 's'
}

func (v Val) String() string {
	if v.Kind == 'i' {
		return fmt.Sprintf("%d", v.I)
	}
	return v.S
}

// Op is the pending operation of a goroutine.
type Op struct {
	Kind  string // send recv close select go add wait exit
	Ch    *chanCore
	Val   Val
	raw   interface{} // the value being sent
	Cases []*chanCore // select: receive cases (nil entry = nil channel)
	Wg    *wgCore
	N     int // add: delta
	child *G  // go
	fn    func()
}

type result struct {
	raw  interface{}
	ok   bool
	idx  int // chosen select case
	kill bool
}

// G is one goroutine of the program under test.
type G struct {
	ID     string // spawn-tree id: "0", "0.1", "0.1.0"
	Label  string // optional role label set by the environment
	pend   Op
	wake   chan result
	nchild int
	nchan  int
	nwg    int
	hist   [2]uint64 // rolling hash of everything received so far
	nops   int
	done   bool
	live   bool // spawned
}

type chanCore struct {
	id     string // creator-goroutine#n
	cap    int
	buf    []interface{}
	closed bool
}

type wgCore struct {
	id string // creator-goroutine#wN
	n  int
}

// Trans is one enabled transition.
type Trans struct {
	Kind string // sendbuf recvbuf recvclosed rv close go add wait + panics: sendclosed closeclosed closenil negwg
	G    *G     // acting goroutine (sender for rv)
	Q    *G     // rv: receiver
	Case int    // select case index taken by the receiver side (-1: plain recv)
}

// Key identifies a transition independently of pointers: used for replay.
func (t Trans) Key() string {
	q := ""
	if t.Q != nil {
		q = t.Q.ID
	} else if t.Kind == "go" && t.G.pend.child != nil {
		q = t.G.pend.child.ID // same as the logged step: q is the spawned goroutine
	}
	return fmt.Sprintf("%s|%s|%s|%d", t.Kind, t.G.ID, q, t.Case)
}

// killed is the sentinel panic that unwinds parked goroutines at run end.
type killed struct{}
