package vsched

// Blocked describes a goroutine left parked at the end of a run.
type BlockedG struct {
	ID    string
	Label string
	Op    string
	Ch    string
}

// RunResult is what one controlled execution did.
type RunResult struct {
	Outcome string // done | stuck | panic | usererr | abandoned | steplimit | replaydiverged
	Panic   string
	PanicG  string
	UserErr string
	Blocked []BlockedG // stuck: goroutines that can never continue
	Choices []int      // index into the enabled list at every step
	Keys    []string   // transition keys at every step
	Init    string     // projected initial state (JSON)
	Lines   []string   // per step: `<step fields>,"st":<state>` (only when logging)
	Steps   int
	Labels  map[string]string // goroutine id -> label
	Note    string
	Final   [2]uint64 // fingerprint of the last state
	Inv     string    // inventory of everything created during the run (JSON)
}

// Chooser picks the next transition; it sees the state after the previous
// step. Return -1 to abandon the run.
type Chooser func(s *Sched, en []Trans, step int) int

// RunOnce executes main under the chooser.
func RunOnce(main func(), choose Chooser, log bool, maxSteps int) *RunResult {
	s := newSched()
	cur = s
	res := &RunResult{Labels: map[string]string{}}
	defer func() {
		s.kill()
		cur = nil
	}()
	g0 := s.newG(nil)
	s.start(g0, main)
	if log {
		res.Init = s.StateJSON()
	}
	for {
		if s.userErr != "" {
			res.Outcome, res.UserErr = "usererr", s.userErr
			break
		}
		if s.Panic != "" {
			res.Outcome, res.Panic, res.PanicG = "panic", s.Panic, s.PanicG
			break
		}
		en := s.Enabled()
		if len(en) == 0 {
			if s.Done() {
				res.Outcome = "done"
			} else {
				res.Outcome = "stuck"
				for _, g := range s.Blocked() {
					res.Blocked = append(res.Blocked, BlockedG{ID: g.ID, Label: g.Label, Op: g.pend.Kind, Ch: chID(g.pend.Ch)})
				}
			}
			break
		}
		if s.Steps >= maxSteps {
			res.Outcome = "steplimit"
			break
		}
		i := choose(s, en, s.Steps)
		if i == -1 {
			res.Outcome = "abandoned"
			break
		}
		if i < 0 || i >= len(en) {
			res.Outcome = "replaydiverged"
			break
		}
		res.Choices = append(res.Choices, i)
		res.Keys = append(res.Keys, en[i].Key())
		rec := s.Apply(en[i])
		if StepHook != nil {
			StepHook(s, rec)
		}
		if log {
			res.Lines = append(res.Lines, rec.JSON()+`,"st":`+s.StateJSON())
		}
	}
	res.Steps = s.Steps
	res.Final = s.Hash()
	if log {
		res.Inv = s.inventoryJSON()
	}
	for _, g := range s.gs {
		if g.Label != "" {
			res.Labels[g.ID] = g.Label
		}
	}
	return res
}
