package vsched

// StepRec describes one executed transition (one NDJSON line of a schedule).
type StepRec struct {
	Kind string
	G    string
	Q    string
	Ch   string
	Wg   string
	Case int
	Val  Val
	HasV bool
	Ok   bool
}

func chID(c *chanCore) string {
	if c == nil {
		return "nil"
	}
	return c.id
}

func (s *Sched) setPanic(g *G, msg string) {
	s.Panic = msg
	s.PanicG = g.ID
}

// recvFrom takes the head of c's buffer or the closed-channel zero.
func recvFrom(c *chanCore) (interface{}, bool) {
	if len(c.buf) > 0 {
		v := c.buf[0]
		c.buf = append([]interface{}(nil), c.buf[1:]...)
		return v, true
	}
	return nil, false
}

// Apply executes transition t: the effect on channels / WaitGroups exactly as
// GoChan.tla, then the goroutines whose operation completed run (one at a
// time) up to their next operation.
func (s *Sched) Apply(t Trans) StepRec {
	s.Steps++
	g := t.G
	op := g.pend
	rec := StepRec{Kind: t.Kind, G: g.ID, Case: t.Case}
	switch t.Kind {
	case "sendclosed":
		rec.Ch = chID(op.Ch)
		s.setPanic(g, "send on closed channel")
	case "closeclosed":
		rec.Ch = chID(op.Ch)
		s.setPanic(g, "close of closed channel")
	case "closenil":
		rec.Ch = "nil"
		s.setPanic(g, "close of nil channel")
	case "negwg":
		rec.Wg = op.Wg.id
		s.setPanic(g, "sync: negative WaitGroup counter")
	case "sendbuf":
		rec.Ch, rec.Val, rec.HasV = op.Ch.id, op.Val, true
		op.Ch.buf = append(op.Ch.buf, op.raw)
		s.resume(g, result{})
	case "recvbuf", "recvclosed":
		c := op.Ch
		if t.Case >= 0 {
			c = op.Cases[t.Case]
		}
		raw, ok := recvFrom(c)
		rec.Ch, rec.Ok = c.id, ok
		if ok {
			rec.Val, rec.HasV = toVal(raw), true
		}
		g.mix(rec.Val, ok, t.Case)
		s.resume(g, result{raw: raw, ok: ok, idx: t.Case})
	case "rv":
		q := t.Q
		rec.Q, rec.Ch, rec.Val, rec.HasV, rec.Ok = q.ID, op.Ch.id, op.Val, true, true
		q.mix(op.Val, true, t.Case)
		// sender first, then receiver: both only run local code up to their next operation
		s.resume(g, result{})
		s.resume(q, result{raw: op.raw, ok: true, idx: t.Case})
	case "close":
		rec.Ch = op.Ch.id
		op.Ch.closed = true
		s.resume(g, result{})
	case "go":
		child := op.child
		rec.Q = child.ID
		s.start(child, op.fn)
		s.resume(g, result{})
	case "start":
		s.resume(g, result{})
	case "add":
		rec.Wg = op.Wg.id
		rec.Val, rec.HasV = Val{Kind: 'i', I: int64(op.N)}, true
		op.Wg.n += op.N
		s.resume(g, result{})
	case "wait":
		rec.Wg = op.Wg.id
		s.resume(g, result{})
	default:
		panic("vsched: unknown transition " + t.Kind)
	}
	return rec
}

// Done reports whether every goroutine has exited.
func (s *Sched) Done() bool {
	for _, g := range s.gs {
		if g.live && !g.done {
			return false
		}
	}
	return true
}

// Blocked lists the goroutines that are parked (not exited).
func (s *Sched) Blocked() []*G {
	var bs []*G
	for _, g := range s.gs {
		if g.live && !g.done {
			bs = append(bs, g)
		}
	}
	return bs
}
