package vsched

import "fmt"

// Chan replaces chan T / <-chan T / chan<- T in rewritten code. A nil *Chan
// is the nil channel.
type Chan[T any] struct{ core *chanCore }

func (c *Chan[T]) c() *chanCore {
	if c == nil {
		return nil
	}
	return c.core
}

// VschedChanID lets a channel travel through another channel as a value.
func (c *Chan[T]) VschedChanID() string { return chID(c.c()) }

func mustSched() *Sched {
	if cur == nil || cur.cur == nil {
		panic("vsched: operation outside a controlled run")
	}
	return cur
}

// Make replaces make(chan T, n). Creating a channel is local: no scheduling point.
func Make[T any](n int) *Chan[T] {
	s := mustSched()
	g := s.cur
	cc := &chanCore{id: fmt.Sprintf("%s#%d", g.ID, g.nchan), cap: n}
	g.nchan++
	s.chans = append(s.chans, cc)
	return &Chan[T]{core: cc}
}

func (c *Chan[T]) Send(v T) {
	mustSched().park(Op{Kind: "send", Ch: c.c(), Val: toVal(v), raw: v})
}

func (c *Chan[T]) Recv2() (T, bool) {
	r := mustSched().park(Op{Kind: "recv", Ch: c.c()})
	var zero T
	if !r.ok {
		return zero, false
	}
	return cast[T](r.raw), true
}

// cast converts a transported value back; a nil interface value (e.g. a nil
// error sent on a chan error) has no dynamic type to assert.
func cast[T any](raw interface{}) T {
	if raw == nil {
		var zero T
		return zero
	}
	return raw.(T)
}

func (c *Chan[T]) Recv() T {
	v, _ := c.Recv2()
	return v
}

func (c *Chan[T]) Close() { mustSched().park(Op{Kind: "close", Ch: c.c()}) }

// Len and Cap only read: no scheduling point (the generated code uses cap(in)
// of a channel nobody resizes; len is racy by nature and not used by it).
func (c *Chan[T]) Len() int {
	if c == nil {
		return 0
	}
	return len(c.core.buf)
}

func (c *Chan[T]) Cap() int {
	if c == nil {
		return 0
	}
	return c.core.cap
}

// Range replaces `for v := range c` (as `for v := range c.Range`).
func (c *Chan[T]) Range(yield func(T) bool) {
	for {
		v, ok := c.Recv2()
		if !ok || !yield(v) {
			return
		}
	}
}

// Case is one receive case of a select.
type Case struct {
	ch  *chanCore
	set func(raw interface{}, ok bool)
}

// CaseRecv builds `case *v, *ok = <-c`; v and ok may be nil.
func (c *Chan[T]) CaseRecv(v *T, ok *bool) Case {
	return Case{ch: c.c(), set: func(raw interface{}, k bool) {
		if v != nil {
			var zero T
			*v = zero
			if k {
				*v = cast[T](raw)
			}
		}
		if ok != nil {
			*ok = k
		}
	}}
}

// Select replaces a select statement over receive cases (no default).
func Select(cases ...Case) int {
	op := Op{Kind: "select"}
	for _, c := range cases {
		op.Cases = append(op.Cases, c.ch)
	}
	r := mustSched().park(op)
	cases[r.idx].set(r.raw, r.ok)
	return r.idx
}

// Go replaces `go f()`.
func Go(fn func()) {
	s := mustSched()
	child := s.newG(s.cur)
	s.park(Op{Kind: "go", child: child, fn: fn})
}

// WaitGroup replaces sync.WaitGroup.
type WaitGroup struct{ core *wgCore }

func (w *WaitGroup) c() *wgCore {
	if w.core == nil {
		s := mustSched()
		g := s.cur
		w.core = &wgCore{id: fmt.Sprintf("%s#w%d", g.ID, g.nwg)}
		g.nwg++
		s.wgs = append(s.wgs, w.core)
	}
	return w.core
}

// MakeWaitGroup replaces the literal sync.WaitGroup{} (id fixed at creation).
func MakeWaitGroup() WaitGroup {
	var w WaitGroup
	w.c()
	return w
}

func (w *WaitGroup) Add(n int) { c := w.c(); mustSched().park(Op{Kind: "add", Wg: c, N: n}) }
func (w *WaitGroup) Done()     { c := w.c(); mustSched().park(Op{Kind: "add", Wg: c, N: -1}) }
func (w *WaitGroup) Wait()     { c := w.c(); mustSched().park(Op{Kind: "wait", Wg: c}) }

// SetLabel names the running goroutine's role (environment bookkeeping only).
func SetLabel(l string) {
	if cur != nil && cur.cur != nil {
		cur.cur.Label = l
	}
}
