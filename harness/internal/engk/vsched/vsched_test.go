package vsched

import "testing"

// hand-rewritten copy of the generated deriveDup
func dup(c *Chan[int]) (*Chan[int], *Chan[int]) {
	cc1, cc2 := Make[int](c.Cap()), Make[int](c.Cap())
	Go(func() {
		for v := range c.Range {
			cc1.Send(v)
			cc2.Send(v)
		}
		cc1.Close()
		cc2.Close()
	})
	return cc1, cc2
}

// hand-rewritten copy of the generated deriveJoin(<-chan <-chan T)
func join(in *Chan[*Chan[int]], addInside bool) *Chan[int] {
	out := Make[int](0)
	Go(func() {
		wait := MakeWaitGroup()
		for c := range in.Range {
			if !addInside {
				wait.Add(1)
			}
			res := c
			Go(func() {
				if addInside {
					wait.Add(1)
				}
				for r := range res.Range {
					out.Send(r)
				}
				wait.Done()
			})
		}
		wait.Wait()
		out.Close()
	})
	return out
}

func explore(t *testing.T, mk func() func(), por bool) (*Explorer, map[string]int) {
	e := NewExplorer(por, 10000)
	outcomes := map[string]int{}
	for {
		r, ok := e.Next(mk())
		if !ok {
			break
		}
		outcomes[r.Outcome+":"+r.Panic]++
	}
	return e, outcomes
}

func TestDup(t *testing.T) {
	for _, por := range []bool{false, true} {
		got := map[int][]int{}
		mk := func() func() {
			return func() {
				c := Make[int](0)
				c1, c2 := dup(c)
				Go(func() { c.Send(1); c.Send(2); c.Close() })
				Go(func() {
					for v := range c1.Range {
						got[1] = append(got[1], v)
					}
				})
				Go(func() {
					for v := range c2.Range {
						got[2] = append(got[2], v)
					}
				})
			}
		}
		e, out := explore(t, mk, por)
		t.Logf("dup por=%v states=%d runs=%d edges=%d outcomes=%v", por, e.States, e.Runs, e.Edges, out)
		if out["done:"] == 0 || len(out) != 2 && len(out) != 1 {
			t.Fatalf("unexpected outcomes %v", out)
		}
		for k := range out {
			if k != "done:" && k != "abandoned:" {
				t.Fatalf("unexpected outcome %s", k)
			}
		}
	}
}

func joinProg(n, items int, addInside bool) func() func() {
	return func() func() {
		return func() {
			in := Make[*Chan[int]](0)
			var cs []*Chan[int]
			for i := 0; i < n; i++ {
				cs = append(cs, Make[int](0))
			}
			out := join(in, addInside)
			Go(func() {
				for _, c := range cs {
					in.Send(c)
				}
				in.Close()
			})
			for i := range cs {
				c := cs[i]
				base := 10 * (i + 1)
				Go(func() {
					for k := 0; k < items; k++ {
						c.Send(base + k)
					}
					c.Close()
				})
			}
			Go(func() {
				for range out.Range {
				}
			})
		}
	}
}

func TestJoin(t *testing.T) {
	for _, cfg := range [][2]int{{2, 1}, {2, 2}} {
		e, out := explore(t, joinProg(cfg[0], cfg[1], false), true)
		t.Logf("join %dx%d states=%d runs=%d edges=%d outcomes=%v", cfg[0], cfg[1], e.States, e.Runs, e.Edges, out)
		for k := range out {
			if k != "done:" && k != "abandoned:" {
				t.Fatalf("unexpected outcome %s", k)
			}
		}
	}
}

func TestJoinMutantAddInside(t *testing.T) {
	e, out := explore(t, joinProg(2, 1, true), true)
	t.Logf("mutant states=%d runs=%d outcomes=%v", e.States, e.Runs, out)
	if out["panic:send on closed channel"] == 0 {
		t.Fatalf("mutant not detected: %v", out)
	}
}
