package vsched

import (
	"fmt"
	"sort"
)

// Sched is one controlled execution (one run of the program under test).
type Sched struct {
	gs      []*G // spawn order
	chans   []*chanCore
	wgs     []*wgCore
	cur     *G
	yield   chan struct{}
	Panic   string // "" or the Go runtime panic message this state stands for
	PanicG  string
	userErr string // a non-scheduler panic inside code under test
	killing bool
	Steps   int
}

// the scheduler of the run in progress (runs are sequential within a process)
var cur *Sched

func newSched() *Sched { return &Sched{yield: make(chan struct{})} }

func (s *Sched) newG(parent *G) *G {
	id := "0"
	if parent != nil {
		id = fmt.Sprintf("%s.%d", parent.ID, parent.nchild)
		parent.nchild++
	}
	g := &G{ID: id, wake: make(chan result)}
	s.gs = append(s.gs, g)
	return g
}

// start launches the real goroutine of g; it runs until its first park.
func (s *Sched) start(g *G, fn func()) {
	g.live = true
	s.cur = g
	go func() {
		defer func() {
			if r := recover(); r != nil {
				if _, ok := r.(killed); !ok && s.userErr == "" {
					s.userErr = fmt.Sprintf("goroutine %s: panic: %v", g.ID, r)
				}
			}
			g.done = true
			g.pend = Op{Kind: "exit"}
			s.yield <- struct{}{}
		}()
		if StartPoints && g.ID != "0" {
			s.park(Op{Kind: "start"})
		}
		fn()
	}()
	<-s.yield
}

// StartPoints makes the start of every spawned goroutine a scheduling point of
// its own (pending operation "start", always enabled): by default the code a
// new goroutine runs before its first operation executes atomically with the
// spawn, which is only sound when that code touches no shared variable. The
// language-version variant (generated code compiled as go1.21, where a range
// variable is shared by all iterations) needs the parent to be able to run on
// before the child reads what it captured.
var StartPoints bool

// park is called by the running goroutine before an operation takes effect.
func (s *Sched) park(op Op) result {
	g := s.cur
	if s.killing {
		panic(killed{})
	}
	g.pend = op
	s.yield <- struct{}{}
	r := <-g.wake
	if r.kill {
		panic(killed{})
	}
	return r
}

// resume lets g continue with the result of its completed operation until it
// parks again or exits.
func (s *Sched) resume(g *G, r result) {
	g.nops++
	s.cur = g
	g.wake <- r
	<-s.yield
}

// kill unwinds every parked goroutine (end of a run).
func (s *Sched) kill() {
	s.killing = true
	for i := 0; i < len(s.gs); i++ { // gs may grow while unwinding (deferred spawns are refused)
		g := s.gs[i]
		if g.live && !g.done {
			s.cur = g
			g.wake <- result{kill: true}
			<-s.yield
		}
	}
}

func recvReady(c *chanCore) bool { return c != nil && (len(c.buf) > 0 || c.closed) }

// receivers returns the (goroutine, case) pairs pending a receive on c.
func (s *Sched) receivers(c *chanCore, not *G) []Trans {
	var ts []Trans
	for _, q := range s.gs {
		if !q.live || q.done || q == not {
			continue
		}
		switch q.pend.Kind {
		case "recv":
			if q.pend.Ch == c {
				ts = append(ts, Trans{Q: q, Case: -1})
			}
		case "select":
			for i, cc := range q.pend.Cases {
				if cc == c {
					ts = append(ts, Trans{Q: q, Case: i})
				}
			}
		}
	}
	return ts
}

// Enabled computes the enabled transitions of the current state, exactly the
// actions of GoChan.tla, in a deterministic order.
func (s *Sched) Enabled() []Trans {
	var ts []Trans
	if s.Panic != "" || s.userErr != "" {
		return nil
	}
	gs := append([]*G(nil), s.gs...)
	sort.Slice(gs, func(i, j int) bool { return gs[i].ID < gs[j].ID })
	for _, g := range gs {
		if !g.live || g.done {
			continue
		}
		op := g.pend
		switch op.Kind {
		case "send":
			c := op.Ch
			switch {
			case c == nil: // send on nil channel blocks forever
			case c.closed:
				ts = append(ts, Trans{Kind: "sendclosed", G: g, Case: -1})
			case len(c.buf) < c.cap:
				ts = append(ts, Trans{Kind: "sendbuf", G: g, Case: -1})
			case c.cap == 0:
				for _, r := range s.receivers(c, g) {
					ts = append(ts, Trans{Kind: "rv", G: g, Q: r.Q, Case: r.Case})
				}
			}
		case "recv":
			c := op.Ch
			if c != nil && len(c.buf) > 0 {
				ts = append(ts, Trans{Kind: "recvbuf", G: g, Case: -1})
			} else if c != nil && c.closed {
				ts = append(ts, Trans{Kind: "recvclosed", G: g, Case: -1})
			}
		case "select":
			for i, c := range op.Cases {
				if c != nil && len(c.buf) > 0 {
					ts = append(ts, Trans{Kind: "recvbuf", G: g, Case: i})
				} else if c != nil && c.closed {
					ts = append(ts, Trans{Kind: "recvclosed", G: g, Case: i})
				}
			}
		case "close":
			switch {
			case op.Ch == nil:
				ts = append(ts, Trans{Kind: "closenil", G: g, Case: -1})
			case op.Ch.closed:
				ts = append(ts, Trans{Kind: "closeclosed", G: g, Case: -1})
			default:
				ts = append(ts, Trans{Kind: "close", G: g, Case: -1})
			}
		case "go":
			ts = append(ts, Trans{Kind: "go", G: g, Case: -1})
		case "start":
			ts = append(ts, Trans{Kind: "start", G: g, Case: -1})
		case "add":
			if op.Wg.n+op.N < 0 {
				ts = append(ts, Trans{Kind: "negwg", G: g, Case: -1})
			} else {
				ts = append(ts, Trans{Kind: "add", G: g, Case: -1})
			}
		case "wait":
			if op.Wg.n == 0 {
				ts = append(ts, Trans{Kind: "wait", G: g, Case: -1})
			}
		}
	}
	return ts
}
