// Package engk is engine K: concurrency (spec/conc).
package engk
