package engk

import (
	"fmt"

	"verif/harness/internal/core"
	"verif/harness/internal/engk/drv/obs"
)

const langOld = "go1.21"

// langVariant explores the configurations p.langCfgs on a second build of the
// program in which the generated file is compiled with language version
// go1.21 (a range variable is then shared by all iterations, as in every user
// module whose go.mod says go 1.21 or older). The start of every spawned
// goroutine is a scheduling point here: what a goroutine closure captured may
// have changed before it first runs. Verdicts again come from ConcTrace on
// the recorded schedules (the combinator modules do not describe this
// variant's extra "start" steps: no conformance run, no TLC replay), plus the
// unrewritten variant on the real runtime and under the race detector.
func langVariant(c *core.Ctx, base *Built, p *plan) error {
	if len(p.langCfgs) == 0 {
		return nil
	}
	fs := &findings{mark: " [lang=" + langOld + "]"}
	b, err := PrepareLang(c, base, langOld, p.langStress > 0)
	if err != nil {
		return err
	}
	pv := *p
	pv.cfgs, pv.realCfgs = p.langCfgs, p.langCfgs
	pv.startPoints, pv.tag, pv.evSuffix, pv.stress = true, "L", "_"+langOld, p.langStress
	rs, traces, err := explore(c, b, &pv)
	if err != nil {
		return err
	}
	runCfg := map[string]obs.Cfg{}
	runKeys := map[string][]string{}
	runFail := map[string]VsFailure{}
	states, runs := 0, 0
	for _, r := range rs {
		states += r.States
		runs += r.Runs
		for _, f := range r.Failures {
			runFail[f.Run] = f
		}
	}
	for _, tp := range traces {
		rr, err := readTraceRuns(tp)
		if err != nil {
			return err
		}
		for id := range rr {
			runCfg[id], runKeys[id] = cfgOfRun(rr[id]), keysOfRun(rr[id])
		}
	}
	st, err := ValidateOpt(c, traces, "lang", false)
	if err != nil {
		return err
	}
	if err := judgeTraces(c, st, runCfg, runKeys, runFail, fs, "search ("+langOld+" variant)"); err != nil {
		return err
	}
	if err := realChecks(c, b, &pv, rs, fs); err != nil {
		return err
	}
	fs.report(c)
	c.Set("lang_variants", []string{"go1.24", langOld})
	c.Set("configurations_"+langOld, len(rs))
	c.Set("real_code_states_"+langOld, states)
	c.Set("real_code_schedules_"+langOld, runs)
	c.Set("traces_validated_"+langOld, st.Runs)
	c.Set("lang_variant_note", fmt.Sprintf("generated file compiled with //go:build %s (per-loop range variables); goroutine starts are scheduling points; judged by ConcTrace.tla only", langOld))
	return nil
}
