package engh

import (
	_ "embed"
	"fmt"
	"os"
	"path/filepath"
	"regexp"
	"sort"
	"strings"

	"verif/harness/internal/core"
	"verif/harness/internal/engs"
)

//go:embed drv/gs_main.go.txt
var gsMainSrc string

// engsDriverSources reads the reusable pieces of engs's driver (materialise,
// project, leaf table) from the source tree: they are text templates there.
func engsDriverSources(c *core.Ctx) (driver, leaftab string, err error) {
	base := filepath.Join(c.Verif, "harness", "internal", "engs")
	d, err := os.ReadFile(filepath.Join(base, "drv", "driver.go.txt"))
	if err != nil {
		return "", "", err
	}
	l, err := os.ReadFile(filepath.Join(base, "leaftab.go"))
	if err != nil {
		return "", "", err
	}
	return string(d), strings.Replace(string(l), "package engs", "package main", 1), nil
}

// qualExpr renders the Go type expression of t as written OUTSIDE the type's
// package: local types are m/lib's, imported structs m/ext's.
func qualExpr(t *engs.Type, id string) string {
	switch t.K {
	case "basic":
		return t.B
	case "named":
		return "lib." + id + "N" + t.N
	case "ptr":
		return "*" + qualExpr(t.E, id)
	case "slice":
		return "[]" + qualExpr(t.E, id)
	case "array":
		return fmt.Sprintf("[%d]%s", t.Len, qualExpr(t.E, id))
	case "map":
		return "map[" + qualExpr(t.Key, id) + "]" + qualExpr(t.E, id)
	case "struct":
		if t.Pkg == "ext" {
			return "ext." + id + t.Name
		}
		return "lib." + id + t.Name
	}
	panic("qualExpr: " + t.K)
}

var (
	reLib = regexp.MustCompile(`\blib\.`)
	reExt = regexp.MustCompile(`\bext\.`)
)

func importsFor(body string, always ...string) string {
	imps := append([]string(nil), always...)
	if reLib.MatchString(body) {
		imps = append(imps, "m/lib")
	}
	if reExt.MatchString(body) {
		imps = append(imps, "m/ext")
	}
	if len(imps) == 0 {
		return ""
	}
	sort.Strings(imps)
	var b strings.Builder
	b.WriteString("import (\n")
	for k, i := range imps {
		if k > 0 && imps[k-1] == i {
			continue
		}
		fmt.Fprintf(&b, "\t%q\n", i)
	}
	b.WriteString(")\n\n")
	return b.String()
}

func writeFiles(dir string, files map[string]string) error {
	for n, content := range files {
		p := filepath.Join(dir, n)
		if err := os.MkdirAll(filepath.Dir(p), 0755); err != nil {
			return err
		}
		if err := os.WriteFile(p, []byte(content), 0644); err != nil {
			return err
		}
	}
	return nil
}

// genGsModule writes module m for one batch: the types and the derive call
// sites live in the importable package m/lib (imported structs in m/ext), the
// stage-1 driver in m/s1.
func genGsModule(c *core.Ctx, dir string, cases []*engs.Case) error {
	driver, leaftab, err := engsDriverSources(c)
	if err != nil {
		return err
	}
	var local, ext, calls, reg strings.Builder
	for _, cs := range cases {
		g := engs.NewGoGen(cs.ID)
		x := g.Expr(cs.T, "main", false) // as written inside m/lib
		local.WriteString(g.LocalDecls())
		ext.WriteString(g.ExtDecls())
		fmt.Fprintf(&calls, "func GoString%[1]s(v %[2]s) string { return deriveGoString%[1]s(v) }\n\n", cs.ID, x)
		q := qualExpr(cs.T, cs.ID)
		fmt.Fprintf(&reg, "\tgsReg[%[1]q] = gsEntry{reflect.TypeOf((*%[2]s)(nil)).Elem(), func(v interface{}) string { return lib.GoString%[1]s(v.(%[2]s)) }}\n", cs.ID, q)
	}
	libImp := func(body string) string {
		if reExt.MatchString(body) {
			return "import \"m/ext\"\n\n"
		}
		return ""
	}
	files := map[string]string{
		"go.mod":        "module m\n\ngo 1.24\n",
		"lib/types.go":  "// Package lib holds the types of the generated cases and their deriveGoString call sites.\npackage lib\n\n" + libImp(local.String()) + local.String(),
		"lib/calls.go":  "package lib\n\n" + libImp(calls.String()) + calls.String(),
		"s1/driver.go":  driver,
		"s1/leaftab.go": leaftab,
		"s1/proj.go":    projSrc,
		"s1/gs_main.go": gsMainSrc,
		"s1/gs1_reg.go": "package main\n\n" + importsFor(reg.String(), "reflect", "m/lib") + "func init() {\n" + reg.String() + "}\n",
	}
	if ext.Len() > 0 {
		files["ext/ext.go"] = "// Package ext holds the imported structs of the generated cases.\npackage ext\n\n" + ext.String()
	}
	return writeFiles(dir, files)
}

// gsText is one stage-1 result: the text deriveGoString returned for pool[i].
type gsText struct {
	K    string `json:"k"`
	ID   string `json:"id"`
	I    int    `json:"i"`
	St   string `json:"st"`
	Text string `json:"text"`
}

// stage2File renders the registration file of some values of one case.
func stage2File(cs *engs.Case, vals []gsText) string {
	var b strings.Builder
	q := qualExpr(cs.T, cs.ID)
	fmt.Fprintf(&b, "func init() {\n\tt := reflect.TypeOf((*%s)(nil)).Elem()\n", q)
	for _, v := range vals {
		fmt.Fprintf(&b, "\tadd(%q, %d, t, func() interface{} {\n\t\treturn %s\n\t})\n", cs.ID, v.I, strings.TrimSpace(v.Text))
	}
	b.WriteString("}\n")
	return "package main\n\n" + importsFor(b.String(), "reflect") + b.String()
}
