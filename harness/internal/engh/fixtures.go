package engh

import (
	"fmt"

	"verif/harness/internal/engs"
)

// fixtureTypes: a fixed (seed-independent) family of terms added to the
// enumerated universe of both tiers. TypesUpTo has imported structs with ONE
// field and two-field structs only in the local package; the reflect+unsafe
// accessors that the templates print for UNEXPORTED fields of IMPORTED structs
// are typed per field, so a mix-up between fields is only observable on
// imported structs with several unexported fields of different types and
// SIZES (wide before narrow, narrow before wide, string / float / complex next
// to small integers), with the last field unexported or exported, alone and as
// a component. Together with the pool's extreme leaves (max, min, -1) and the
// dirty prior destinations every byte of every field matters.
// The all-exported variants are the same shapes inside C06's quantifier.
func fixtureTypes() []*engs.Type {
	b := engs.Basic
	ext := func(fs ...engs.Field) *engs.Type { return engs.Struct("S1", "ext", fs...) }
	f := engs.F
	pairs := [][2]string{
		{"int64", "int8"}, {"int8", "int64"}, {"uint64", "uint8"}, {"float64", "bool"}, {"string", "int"},
		{"int", "string"}, {"complex128", "float32"}, {"float64", "float32"}, {"string", "bool"}, {"int64", "bool"},
	}
	var base []*engs.Type
	for _, p := range pairs {
		base = append(base,
			ext(f("a", b(p[0])), f("b", b(p[1]))), // both unexported
			ext(f("a", b(p[0])), f("B", b(p[1]))), // last field exported
			ext(f("A", b(p[0])), f("b", b(p[1]))), // first field exported
			ext(f("A", b(p[0])), f("B", b(p[1]))), // all exported (C06)
		)
	}
	// the shape of a record: wide scalar, pointer, slice, narrow scalar
	rec := func(n1, n4 string) *engs.Type {
		return ext(f(n1, b("int64")), f("B", engs.Ptr(b("int64"))), f("C", engs.Slice(b("int"))), f(n4, b("int8")))
	}
	base = append(base, rec("a", "d"), rec("a", "D"), rec("A", "D"),
		ext(f("a", b("int64")), f("b", b("string")), f("c", b("int8"))),
		ext(f("a", b("float64")), f("b", b("int8")), f("c", b("uint8")), f("d", b("bool"))))
	out := append([]*engs.Type(nil), base...)
	// as a component: behind a pointer, in a slice, as a map value, as a field of a local struct
	for _, t := range []*engs.Type{base[0], base[1], base[12], base[16], base[len(base)-5]} {
		out = append(out, engs.Ptr(t.Clone()), engs.Slice(t.Clone()), engs.Map(b("int"), t.Clone()),
			engs.Struct("S2", "local", f("A", b("int8")), f("b", t.Clone())))
	}
	// NAMED basic types in every position where the templates test for a *types.Basic
	// element (pointer target, slice / array element, map value) inside a struct field and at
	// top level: `type N int; F *N` must not be treated like `F *int` (the printed literal /
	// the generated helper has another type). TypesUpTo reaches these only at depth 2 (sampled
	// in the quick tier).
	for _, n := range engs.NamedLeaves() {
		nm := func() *engs.Type { return n.Clone() }
		for _, pkg := range []string{"local", "ext"} {
			out = append(out,
				engs.Struct("S1", pkg, f("A", engs.Ptr(nm()))),
				engs.Struct("S1", pkg, f("A", b("int")), f("B", engs.Ptr(nm())), f("C", engs.Ptr(b("int")))))
		}
		out = append(out,
			engs.Struct("S1", "local", f("A", engs.Slice(nm()))),
			engs.Struct("S1", "local", f("A", engs.Array(nm()))),
			engs.Struct("S1", "local", f("A", engs.Map(b("string"), nm()))),
			engs.Struct("S1", "local", f("A", engs.Slice(engs.Ptr(nm())))),
			engs.Struct("S1", "local", f("A", engs.Map(b("int"), engs.Ptr(nm())))),
			engs.Slice(engs.Ptr(nm())), engs.Map(b("int"), engs.Ptr(nm())), engs.Ptr(engs.Ptr(nm())), engs.Array(engs.Ptr(nm())))
	}
	// maps whose values are ARRAYS of non-copyable elements: the map branch of deepcopy copies such a
	// value through a scratch array; scratch state surviving from one entry to the next (slices whose
	// capacity is re-used) makes the entries of the copy share backing arrays. The base value has two
	// entries whose inner slices have equal lengths and different contents. Pointer / map elements: controls.
	mapArr := func(key string, el *engs.Type) *engs.Type { return engs.Map(b(key), engs.Array(el)) }
	out = append(out,
		mapArr("string", engs.Slice(b("int"))), mapArr("int", engs.Slice(b("string"))),
		engs.Struct("S1", "local", f("A", mapArr("string", engs.Slice(b("int"))))),
		engs.Struct("S1", "ext", f("a", mapArr("int", engs.Slice(b("int"))))),
		engs.Ptr(mapArr("string", engs.Slice(b("int")))), engs.Slice(mapArr("string", engs.Slice(b("int")))),
		mapArr("string", engs.Ptr(b("int"))), mapArr("string", engs.Map(b("string"), b("int"))),
		mapArr("int", engs.Slice(engs.Slice(b("int")))))
	return out
}

// addFixtures appends the fixture family to a universe (part of its fixed core).
func addFixtures(u *engs.Universe) int {
	have := map[string]bool{}
	for _, t := range u.Types {
		have[t.Canon()] = true
	}
	n := 0
	for _, t := range fixtureTypes() {
		if have[t.Canon()] {
			continue
		}
		have[t.Canon()] = true
		u.Types = append(u.Types, t)
		u.IDs = append(u.IDs, fmt.Sprintf("T%d", len(u.Types)))
		n++
	}
	u.Core += n
	return n
}
