#!/bin/bash
# usage: runmut.sh <prop> <mutant> [extra env...]   -> /tmp/bh/mut/<mutant>.<prop>.log
source /verif/harness/env.sh
prop=$1; m=$2; shift 2
mkdir -p /tmp/bh/mut /tmp/bh/mutev
log=/tmp/bh/mut/$m.$prop.log
{
python3 /verif/harness/internal/engh/testdata/mutants.py $m || exit 9
cd /tmp/wt-h && $GO build . ./plugin/... ./derive/... && echo "BUILD-OK" || echo "BUILD-FAIL"
$GO test ./test/normal/ ./example/... 2>&1 | grep -vE "^ok|no test files" | head -5; echo "TESTS-DONE rc=${PIPESTATUS[0]}"
cd /verif && env VERIF_REPO=/tmp/wt-h VERIF_EVIDENCE_DIR=/tmp/bh/mutev VERIF_PAR=${VERIF_PAR:-8} "$@" bin/vcheck-h $prop --tier quick 2>&1 | cut -c1-400
echo "EXIT=${PIPESTATUS[0]}"
} > $log 2>&1
