#!/usr/bin/env python3
"""Apply one named mutant to the scratch worktree /tmp/wt-h (after `git checkout -- .`)."""
import subprocess, sys

WT = '/tmp/wt-h'

def sub(path, old, new, count=1):
    p = WT + '/' + path
    s = open(p).read()
    assert s.count(old) >= 1, (path, old)
    s = s.replace(old, new, count)
    open(p, 'w').write(s)

DC = 'plugin/deepcopy/deepcopy.go'
CL = 'plugin/clone/clone.go'
GS = 'plugin/gostring/gostring.go'

M = {}
# ---- C05
M['dc-shallow-slice'] = lambda: sub(DC, '''	case *types.Slice:
		p.P("if %s == nil {", thisField) // nil''', '''	case *types.Slice:
		if canCopy(typ.Elem()) {
			p.P("%s = %s", thatField, thisField)
			return nil
		}
		p.P("if %s == nil {", thisField) // nil''')
M['dc-ptr-forget-nil'] = lambda: sub(DC, '''		p.P("if %s == nil {", thisField)
		p.In()
		p.P("%s = nil", thatField)
		p.Out()
		p.P("} else {")
		p.In()
		ref := typ.Elem()''', '''		p.P("if %s == nil {", thisField)
		p.P("} else {")
		p.In()
		ref := typ.Elem()''')
M['dc-slice-forget-nil'] = lambda: sub(DC, '''		p.P("if %s == nil {", thisField) // nil
		p.In()
		p.P("%s = nil", thatField)
		p.Out()
		p.P("} else {") // nil''', '''		p.P("if %s == nil {", thisField) // nil
		p.P("} else {") // nil''')
M['dc-mapfield-forget-nil'] = lambda: sub(DC, '''		p.P("} else {")
		p.In()
		p.P("%s = nil", thatField)
		p.Out()
		p.P("}")
		return nil
	case *types.Struct:''', '''		p.P("}")
		return nil
	case *types.Struct:''')
# legitimate refactoring: reuse the destination's pointer target when there is one (must PASS)
M['dc-ptr-reuse-legit'] = lambda: sub(DC, '''		p.P("%s = new(%s)", thatField, g.TypeString(typ.Elem()))
		if hasDeepCopyMethod(ref) {''', '''		p.P("if %s == nil {", thatField)
		p.In()
		p.P("%s = new(%s)", thatField, g.TypeString(typ.Elem()))
		p.Out()
		p.P("}")
		if hasDeepCopyMethod(ref) {''')
# faulty: reuse the destination's pointer target, never allocate
M['dc-ptr-reuse-noalloc'] = lambda: sub(DC, '''		p.P("%s = new(%s)", thatField, g.TypeString(typ.Elem()))
		if hasDeepCopyMethod(ref) {''', '''		if hasDeepCopyMethod(ref) {''')
M['dc-mapfield-assign'] = lambda: sub(DC, '''		p.P("if %s != nil {", thisField)
		p.In()
		p.P("%s = make(%s, len(%s))", thatField, g.TypeString(typ), thisField)
		if hasDeepCopyMethod(fieldType) {
			p.P("%s.DeepCopy(%s)", wrap(thisField), thatField)
		} else {
			p.P("%s(%s, %s)", g.GetFuncName(typ), thatField, thisField)
		}
		p.Out()
		p.P("} else {")
		p.In()
		p.P("%s = nil", thatField)
		p.Out()
		p.P("}")
		return nil''', '''		p.P("%s = %s", thatField, thisField)
		return nil''')
M['dc-longer-dst-not-cut'] = lambda: sub(DC, '''		p.P("} else if len(%s) < len(%s) {", thisField, thatField) // len
		p.In()
		p.P("%s = (%s)[:len(%s)]", thatField, thatField, thisField)
		p.Out()
		p.P("}") // len''', '''		p.P("}") // len''')
M['dc-longer-dst-cut-by-one'] = lambda: sub(DC, '''		p.P("} else if len(%s) < len(%s) {", thisField, thatField) // len
		p.In()
		p.P("%s = (%s)[:len(%s)]", thatField, thatField, thisField)''', '''		p.P("} else if len(%s) < len(%s) {", thisField, thatField) // len
		p.In()
		p.P("%s = (%s)[:len(%s)-1]", thatField, thatField, thatField)''')
M['clone-return-src-ptr'] = lambda: sub(CL, '''		p.P("dst := new(%s)", g.TypeString(ttyp.Elem()))
		p.P("%s(dst, src)", g.deepcopy.GetFuncName(in))
		p.P("return dst")''', '''		_ = ttyp
		p.P("return src")''')
# ---- C06
M['gs-nil-slice-as-empty'] = lambda: sub(GS, '''	case *types.Slice:
		p.P("if %s == nil {", this)
		p.In()
		g.W("return nil")''', '''	case *types.Slice:
		p.P("if %s == nil {", this)
		p.In()
		g.W("return %s{}", g.TypeString(ttyp))''')
M['gs-unqualified-imported'] = lambda: sub(GS, '''func (g *gen) TypeString(typ types.Type) string {
	return g.TypesMap.(bypass).TypeStringBypass(typ)
}''', '''func (g *gen) TypeString(typ types.Type) string {
	return types.TypeString(typ, func(*types.Package) string { return "" })
}''')
M['gs-string-percent-v'] = lambda: sub(GS, '''	case *types.Basic:
		p.P("%s.Fprintf(buf, \\"%s = %s\\\\n\\", %s)", g.fmtPkg(), this, "%#v", this)
		return nil''', '''	case *types.Basic:
		verb := "%#v"
		if typ.Kind() == types.String {
			verb = "%v"
		}
		p.P("%s.Fprintf(buf, \\"%s = %s\\\\n\\", %s)", g.fmtPkg(), this, verb, this)
		return nil''')
M['gs-drop-amp'] = lambda: sub(GS, '''				g.W("%s := &%s{}", this, gotypeStr)
				for _, field := range fields.Fields {
					if field.Private() && external {''', '''				g.W("%s := %s{}", this, gotypeStr)
				for _, field := range fields.Fields {
					if field.Private() && external {''')

# ---- extra self-tests
M['dc-array-cancopy'] = lambda: sub(DC, '''	case *types.Array:
		return canCopy(typ.Elem())
	}
	return false''', '''	case *types.Array:
		return true
	}
	return false''')
M['fields-skip-private-external'] = lambda: sub('derive/fields.go', '''		if n.Fields[i].Private() {
			if external {
				n.Reflect = true
			}
		}
	}
	return n''', '''	}
	if external {
		kept := n.Fields[:0]
		for _, f := range n.Fields {
			if !f.Private() {
				kept = append(kept, f)
			}
		}
		n.Fields = kept
	}
	return n''')
def _both():
    sub(DC, '''		if nullable(elmType) {
			p.P("if %s == nil {", thisvalue)
			p.In()
			p.P("%s = nil", wrap(that)+"["+thatkey+"]")
			p.Out()
			p.P("}")
		}
''', '')
    M['dc-ptr-forget-nil']()
M['dc-mapentry-forget-nil-both'] = _both

if __name__ == '__main__':
    name = sys.argv[1]
    if name == 'list':
        print(' '.join(M)); sys.exit(0)
    subprocess.check_call(['git', '-C', WT, 'checkout', '--', '.'])
    if name != 'none':
        M[name]()
    print(subprocess.run(['git', '-C', WT, 'diff', '--stat'], capture_output=True, text=True).stdout)
