package engh

import (
	"bytes"
	"encoding/json"
	"fmt"
	"os"
	"path/filepath"
	"sort"
	"strings"
	"sync"
	"time"

	"verif/harness/internal/core"
	"verif/harness/internal/engs"
	"verif/harness/internal/tlc"
)

// ValStats: what TLC said about a set of observation files.
type ValStats struct {
	Files  int
	Lines  int
	States int
	Bad    []engs.Bad
}

type chunk struct {
	path  string
	lines int
	buf   bytes.Buffer
}

var (
	chunkSeq int
	chunkMu  sync.Mutex
)

// traceFile: one observation file (complete cases: case line + observations).
type traceFile struct {
	Path  string
	Lines int
}

// validate lets TLC judge observation files against a Trace module of
// spec/heap. The files are merged into at most n chunks (one JVM per chunk,
// at most n JVMs at a time). An error means TLC could not judge (machinery).
func validate(c *core.Ctx, module string, files []traceFile, n int) (*ValStats, error) {
	if n < 1 {
		n = 1
	}
	chunkMu.Lock()
	chunkSeq++
	seq := chunkSeq
	chunkMu.Unlock()
	dir := filepath.Join(c.Work, "val")
	if err := os.MkdirAll(dir, 0755); err != nil {
		return nil, err
	}
	sorted := append([]traceFile(nil), files...)
	sort.SliceStable(sorted, func(a, b int) bool { return sorted[a].Lines > sorted[b].Lines })
	if len(sorted) < n {
		n = len(sorted)
	}
	chunks := make([]*chunk, n)
	for i := range chunks {
		chunks[i] = &chunk{path: filepath.Join(dir, fmt.Sprintf("%s-%d-%02d.ndjson", module, seq, i))}
	}
	for _, f := range sorted {
		k := 0
		for i := range chunks {
			if chunks[i].lines < chunks[k].lines {
				k = i
			}
		}
		data, err := os.ReadFile(f.Path)
		if err != nil {
			return nil, err
		}
		chunks[k].buf.Write(data)
		chunks[k].lines += f.Lines
	}
	st := &ValStats{}
	var mu sync.Mutex
	var wg sync.WaitGroup
	var firstErr error
	fail := func(err error) {
		if firstErr == nil {
			firstErr = err
		}
	}
	for _, ch := range chunks {
		if ch.lines == 0 {
			continue
		}
		if err := os.WriteFile(ch.path, ch.buf.Bytes(), 0644); err != nil {
			return nil, err
		}
		ch.buf.Reset()
		wg.Add(1)
		go func(ch *chunk) {
			defer wg.Done()
			outp := ch.path + ".bad"
			res, err := tlc.Run(tlc.Opts{SpecDirs: specDirs(c), Module: module, Config: module + ".cfg",
				Workers: 1, Timeout: 30 * time.Minute, HeapMB: 3000, Scratch: c.Work,
				Env: map[string]string{"VERIF_TRACE": ch.path, "VERIF_OUT": outp}})
			mu.Lock()
			defer mu.Unlock()
			if err == nil && res.Violation {
				err = fmt.Errorf("specification got stuck after %d of %d lines: %s", res.Diameter-1, ch.lines, res.ErrText)
			}
			if err != nil {
				fail(fmt.Errorf("%s on %s: %v", module, ch.path, err))
				return
			}
			lines, err := readLines(outp)
			if err != nil {
				fail(fmt.Errorf("%s wrote no verdict file: %v", module, err))
				return
			}
			for _, l := range lines {
				var b engs.Bad
				if err := json.Unmarshal(l, &b); err != nil {
					fail(fmt.Errorf("verdict line: %v", err))
					return
				}
				st.Bad = append(st.Bad, b)
			}
			st.Files++
			st.Lines += ch.lines
			st.States += res.Distinct
		}(ch)
	}
	wg.Wait()
	if firstErr != nil {
		return nil, firstErr
	}
	sort.Slice(st.Bad, func(a, b int) bool {
		if st.Bad[a].ID != st.Bad[b].ID {
			return st.Bad[a].ID < st.Bad[b].ID
		}
		if st.Bad[a].L != st.Bad[b].L {
			return st.Bad[a].L < st.Bad[b].L
		}
		return st.Bad[a].Class() < st.Bad[b].Class()
	})
	for _, b := range st.Bad {
		if strings.HasPrefix(b.Law, "MALFORMED") {
			return nil, fmt.Errorf("observation file rejected as malformed: %s (case %s, form %q, i=%d, j=%d)", b.Law, b.ID, b.Form, b.I, b.J)
		}
	}
	return st, nil
}

// obsFiles: the trace files engs's driver runs produced.
func obsFiles(r *engs.Result) []traceFile {
	var fs []traceFile
	for _, o := range r.Obs {
		fs = append(fs, traceFile{o.Trace, o.Lines})
	}
	return fs
}
