package engh

import (
	"verif/harness/internal/core"
	"verif/harness/internal/engs"
)

func evidenceC05(c *core.Ctx, u *engs.Universe, r *engs.Result, val *ValStats, mc *MCResult, sh *shrinker, nbad, ndrift, goderiveRuns int) {
	built := 0
	for _, b := range r.Built {
		built += len(b.Cases)
	}
	obsLines := val.Lines - built // every line that is not a case line is one (source, prior, form) observation
	c.Set("states", mc.States)
	c.Set("transitions", mc.Transitions)
	c.Set("model_check_wall_s", int(mc.Wall.Seconds()))
	c.Set("traces_validated_against_impl", built)
	c.Set("trace_files", val.Files)
	c.Set("observation_lines_validated", val.Lines)
	c.Set("copy_observations", obsLines)
	c.Set("trace_validation_states", val.States)
	c.Set("evaluations", 2*obsLines)
	c.Set("distinct_nontrivial", built)
	c.Set("types_total", len(r.Cases))
	c.Set("types_core", u.Core)
	c.Set("types_sampled_depth2", u.Sampled)
	c.Set("types_random_depth3", u.Random)
	c.Set("skipped_not_generated", len(r.Build.Skipped))
	c.Set("skipped_reasons", r.Build.Kinds)
	c.Set("goderive_runs", goderiveRuns)
	c.Set("shrink_rounds", sh.Rounds)
	c.Set("shrink_candidates_run", sh.Ran)
	c.Set("rejected_observation_classes", nbad)
	c.Set("observation_drift_classes", ndrift)
	c.Set("exhaustive", u.Exhaustive)
	c.Set("phase_seconds", r.Times)
	c.Set("rule", "evaluations = calls of real generated deriveDeepCopy / deriveClone functions (each (type, source pool[i], prior destination prior[j], call form) is run twice: once to overwrite every cell reachable from the result, once to overwrite every cell reachable from the source); "+
		"distinct_nontrivial = distinct type terms (TLC-enumerated TypesUpTo(2), seed-sampled in the quick tier, plus seed-drawn depth-3 terms) whose generated code compiled and whose observations over Pool(T) x PriorDst(T) x call forms TLC validated against CopyOK and write independence; "+
		"states/transitions = TLC model check (HeapMC) of the heap model on the same exported types, sources and priors: CopyImpl establishes CopyOK; CopyOK implies write independence under the action Write(loc); the converse on visible cells; plus a sensitivity run that must fail")
	for _, reason := range r.Build.Reasons {
		c.Warn("skipped (C01's business): " + reason)
	}
	for i := 0; i < 3 && i < len(r.Cases); i++ {
		cs := r.Cases[(i*997+int(c.Seed)*31)%len(r.Cases)]
		var vals []string
		for k := 0; k < 3 && k < len(cs.Pool); k++ {
			vals = append(vals, cs.Pool[k].Tag+"="+string(cs.Pool[k].V))
		}
		c.Sample(map[string]interface{}{"id": cs.ID, "type": cs.T.String(), "sources": len(cs.Pool), "first_sources": vals})
	}
	c.Assume("TLC, the Go compiler and runtime; reflect/unsafe materialisation in the driver (self-checked: materialise->project is the identity on every pool value in every run)")
	c.Assume("heap projection: allocation labels are merged byte ranges of pointer targets and slice backing arrays (cap included) read with reflect; maps by runtime pointer; Go's allocator does not move or reuse live objects during a case (all visited allocations are kept alive)")
	c.Assume("the root reference of the slice and map forms is the caller's: cases where the source is nil and the destination is not (or vice versa) are not enumerated; the contents of spare capacity in prior destinations are zero values")
	c.Assume("leaf tokens: Go's == and < on the concrete literals agree with the TLA+ rank table (checked at start-up); cyclic values and user-declared DeepCopy methods are outside the universe")
	c.Set("tla_decides", "Pool(T), PriorDst(T) (enumeration of sources and prior destinations), Identical, Reach, CopyOK on every projected observation, write-independence observations; HeapMC: CopyOK => write independence, CopyImpl => CopyOK")
}
