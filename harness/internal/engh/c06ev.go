package engh

import (
	"verif/harness/internal/core"
	"verif/harness/internal/engs"
)

func evidenceC06(c *core.Ctx, u *engs.Universe, r *engs.Result, cases []*engs.Case, sts []*gsStats, val *ValStats, mc *MCResult, sh *shrinker, nbad, nnote, ndrift int) {
	st := sts[0]
	goderive, builds, s2 := 0, 0, 0
	for _, s := range sts {
		goderive += s.Goderive
		builds += s.Builds
		s2 += s.Stage2Bld
	}
	kinds := map[string]int{}
	for _, why := range st.Skipped {
		kinds[why]++
	}
	c.Set("states", mc.States)
	c.Set("transitions", mc.Transitions)
	c.Set("model_check_wall_s", int(mc.Wall.Seconds()))
	c.Set("traces_validated_against_impl", len(st.Built))
	c.Set("trace_files", val.Files)
	c.Set("observation_lines_validated", val.Lines)
	c.Set("trace_validation_states", val.States)
	c.Set("evaluations", st.Values)
	c.Set("distinct_nontrivial", len(st.Built))
	c.Set("types_total", len(r.Cases))
	c.Set("types_in_quantifier", len(cases))
	c.Set("types_core", u.Core)
	c.Set("types_sampled_depth2", u.Sampled)
	c.Set("types_random_depth3", u.Random)
	c.Set("skipped_not_generated", len(st.Skipped))
	c.Set("skipped_reasons", kinds)
	c.Set("goderive_runs", goderive)
	c.Set("stage1_builds", builds)
	c.Set("stage2_builds", s2)
	c.Set("shrink_rounds", sh.Rounds)
	c.Set("shrink_candidates_run", sh.Ran)
	c.Set("rejected_observation_classes", nbad)
	c.Set("notes_sign_of_zero", nnote)
	c.Set("observation_drift_classes", ndrift)
	c.Set("exhaustive", u.Exhaustive)
	c.Set("phase_seconds", r.Times)
	c.Set("rule", "evaluations = (type, pool value) pairs taken through both stages: the real generated deriveGoString returned a text, the real Go compiler compiled it as an expression in a package importing the type's package (per expression: a rejected file is split per value), the program evaluated it and the value was projected; "+
		"distinct_nontrivial = distinct type terms with exported fields only (AllExported, decided by TLC on the enumerated TypesUpTo(2), seed-sampled in the quick tier, plus seed-drawn depth-3 terms) whose generated code compiled and whose round trips over Pool(T) TLC validated; "+
		"states/transitions = TLC model check (GoStringMC) of the implementation-shaped printer/evaluator round trip on the same exported types and pools")
	c.Set("tla_decides", "the shape enumeration (TypesUpTo, AllExported), the values tried (Pool: nil / empty / non-empty containers, pointer chains, maps with struct keys, every single-position mutation), and RoundTripOK = Eq(T, v', v) on the projected round-tripped value (nil vs empty, pointer targets, lengths, key sets)")
	c.Set("tla_does_not_decide", "leaf formatting fidelity (%#v and the compiler's reading of it): judged by the real Go compiler on the concrete text, only as wide as the leaf table (strings with quote/newline/non-UTF-8 byte/non-ASCII rune, extreme integers, finite floats incl. -0, max, smallest denormal)")
	for id, why := range st.Skipped {
		if cs := r.ByID[id]; cs != nil {
			c.Warn("skipped (C01's business): " + id + " " + cs.T.String() + ": " + why)
		}
	}
	for i := 0; i < 3 && i < len(cases); i++ {
		cs := cases[(i*997+int(c.Seed)*31)%len(cases)]
		k := len(st.Vals[cs.ID]) - i // the last values are the leaf sweep
		if k < 1 {
			k = 1
		}
		c.Sample(map[string]interface{}{"id": cs.ID, "type": cs.T.String(), "values": len(st.Vals[cs.ID]),
			"value": st.Vals[cs.ID][k], "text": st.Texts[cs.ID][k]})
	}
	c.Assume("TLC, the Go compiler and runtime; reflect materialisation in the stage-1 driver (self-checked: materialise->project is the identity on every pool value); heap projection of the evaluated value with reflect")
	c.Assume("leaf tokens: Go's == and < on the concrete literals agree with the TLA+ rank table (checked at start-up); NaN and infinities are outside the statement (finite floats)")
	c.Assume("a result that is structurally equal (Eq: Go's == on leaves) but not bit-identical (the sign of a zero: %#v prints -0, which the compiler reads as the integer constant 0) is recorded as a note, not a verdict: the statement says structurally equal")
}
