package engh

import (
	_ "embed"
	"fmt"
	"strings"
	"time"

	"verif/harness/internal/core"
	"verif/harness/internal/engs"
	"verif/harness/internal/gd"
)

//go:embed drv/proj.go.txt
var projSrc string

//go:embed drv/zz_copy.go.txt
var copySrc string

// copyScreen declares what the call sites need in the import-free screening package.
const copyScreen = `package main

type copyFns struct {
	ptr   func(dst, src interface{})
	slice func(dst, src interface{})
	mp    func(dst, src interface{})
	clone func(src interface{}) interface{}
}

var regCopy = map[string]*copyFns{}
`

// callCopy: the call forms of C05 for one case of Go type x:
// deriveDeepCopy(dst, src *x), deriveClone(src x) and, for slices and maps,
// deriveDeepCopy(dst, src x).
var callCopy = engs.Call{Name: "copy", Site: func(id, x string) string {
	var b strings.Builder
	fmt.Fprintf(&b, "\tregCopy[%q] = &copyFns{}\n", id)
	fmt.Fprintf(&b, "\tregCopy[%[1]q].ptr = func(dst, src interface{}) { deriveDeepCopy%[1]s(dst.(*%[2]s), src.(*%[2]s)) }\n", id, x)
	fmt.Fprintf(&b, "\tregCopy[%[1]q].clone = func(src interface{}) interface{} { return deriveClone%[1]s(src.(%[2]s)) }\n", id, x)
	if strings.HasPrefix(x, "[]") {
		fmt.Fprintf(&b, "\tregCopy[%[1]q].slice = func(dst, src interface{}) { deriveDeepCopyS%[1]s(dst.(%[2]s), src.(%[2]s)) }\n", id, x)
	}
	if strings.HasPrefix(x, "map[") {
		fmt.Fprintf(&b, "\tregCopy[%[1]q].mp = func(dst, src interface{}) { deriveDeepCopyM%[1]s(dst.(%[2]s), src.(%[2]s)) }\n", id, x)
	}
	return b.String()
}}

func copyOpts() engs.PkgOpts {
	return engs.PkgOpts{Calls: []engs.Call{callCopy},
		Extra:       map[string]string{"proj.go": projSrc, "zz_copy.go": copySrc},
		ScreenExtra: map[string]string{"copyscreen.go": copyScreen}}
}

func builtSet(r *engs.Result) map[string]bool {
	m := map[string]bool{}
	for _, b := range r.Built {
		for _, cs := range b.Cases {
			m[cs.ID] = true
		}
	}
	return m
}

func init() { core.Register("C05", checkC05) }

func checkC05(c *core.Ctx) error {
	bin, err := gd.Build(c)
	if err != nil {
		return err
	}
	all, err := engs.EnumerateTypes(c, 2)
	if err != nil {
		return err
	}
	nq, nd := 60, 10
	if !c.Quick() {
		nq, nd = 0, 120
	}
	u := engs.SelectUniverse(all, c.Quick(), c.Seed, nq, nd)
	nfix := addFixtures(u)
	c.Set("types_fixture_family", nfix)
	devLimit(u)
	o := copyOpts()
	r, _, err := exportCases(c, "main", u.IDs, u.Types, false)
	if err != nil {
		return err
	}
	type mcOut struct {
		mc  *MCResult
		err error
	}
	mcCh := make(chan mcOut, 1)
	runMC := func() {
		mc, err := modelCheck(c, r.CasesFile, parOf(2, 1))
		mcCh <- mcOut{mc, err}
	}
	serial := par() <= 8 // small budget: one TLC job at a time
	if !serial {
		go runMC()
	}
	fail := func(err error) error {
		if !serial {
			<-mcCh
		}
		return err
	}
	t0 := time.Now()
	if err := r.BuildAndRun(c, bin, "main", o, 48); err != nil {
		return fail(err)
	}
	r.Times["build+run"] = time.Since(t0).Seconds()
	t0 = time.Now()
	val, err := validate(c, "HeapTrace", obsFiles(r), parOf(2, 1))
	if err != nil {
		return fail(err)
	}
	r.Times["validate"] = time.Since(t0).Seconds()
	if serial {
		runMC()
	}
	m := <-mcCh
	if m.err != nil {
		return m.err
	}
	if n := len(r.Build.Skipped); n*4 > len(r.Cases) {
		return fmt.Errorf("%d of %d types could not be generated/compiled (more than 25%%): the harness's own package is probably broken; first reasons: %s",
			n, len(r.Cases), strings.Join(r.Build.Reasons, " | "))
	}
	// verdicts: shrink every (type, class) and report the minimal witnesses
	goderiveRuns := r.Build.Goderive
	sh := newShrinker(func(tag string, ids []string, types []*engs.Type) (*engs.Result, map[string]bool, []engs.Bad, error) {
		r2, _, err := exportCases(c, tag, ids, types, true)
		if err != nil {
			return nil, nil, nil, err
		}
		if err := r2.BuildAndRun(c, bin, tag, o, 48); err != nil {
			return nil, nil, nil, err
		}
		goderiveRuns += r2.Build.Goderive
		v2, err := validate(c, "HeapTrace", obsFiles(r2), parOf(4, 1))
		if err != nil {
			return nil, nil, nil, err
		}
		return r2, builtSet(r2), v2.Bad, nil
	}, "copy")
	sh.seed(r, builtSet(r), val.Bad)
	nbad, ndrift := 0, 0
	for _, b := range val.Bad {
		if strings.HasPrefix(b.Law, "DRIFT") {
			ndrift++
			if ndrift <= 3 {
				c.Drift(fmt.Sprintf("%s %s form=%s: %s; e.g. source pool[%d], prior[%d]", b.ID, r.ByID[b.ID].T.String(), b.Form, strings.TrimPrefix(b.Law, "DRIFT: "), b.I, b.J))
			}
			continue
		}
		nbad++
	}
	wits, err := sh.shrinkAll()
	if err != nil {
		return err
	}
	for _, w := range wits {
		for i := 0; i < w.Count; i++ {
			c.Report(w.Witness, w.Detail, w.Replay)
		}
	}
	evidenceC05(c, u, r, val, m.mc, sh, nbad, ndrift, goderiveRuns)
	return nil
}
