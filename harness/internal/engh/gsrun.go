package engh

import (
	"bytes"
	"context"
	"encoding/json"
	"fmt"
	"os"
	"os/exec"
	"path/filepath"
	"regexp"
	"sort"
	"strings"
	"sync"
	"time"

	"verif/harness/internal/core"
	"verif/harness/internal/engs"
	"verif/harness/internal/gd"
)

// gsStats: what happened to the cases of a C06 run.
type gsStats struct {
	mu        sync.Mutex
	Built     map[string]bool   // case id -> generated, compiled, both stages run
	Skipped   map[string]string // case id -> why (goderive failed / generated code does not compile: C01's business)
	Texts     map[string]map[int]string
	Vals      map[string]map[int]string // case id -> value index -> tag=value JSON
	CompErr   map[string]map[int]string // first compiler message of a text that did not compile
	Goderive  int
	Builds    int
	Stage2Bld int
	Values    int
	Files     []traceFile
}

func newGsStats() *gsStats {
	return &gsStats{Built: map[string]bool{}, Skipped: map[string]string{}, Texts: map[string]map[int]string{}, Vals: map[string]map[int]string{}, CompErr: map[string]map[int]string{}}
}

func runCmd(c *core.Ctx, dir string, timeout time.Duration, name string, args ...string) (string, error) {
	ctx, cancel := context.WithTimeout(context.Background(), timeout)
	defer cancel()
	cmd := exec.CommandContext(ctx, name, args...)
	cmd.Dir = dir
	cmd.Env = c.GoEnv()
	out, err := cmd.CombinedOutput()
	if ctx.Err() != nil {
		return string(out), fmt.Errorf("%s %v timed out in %s", name, args, dir)
	}
	return string(out), err
}

func firstLine(s string) string {
	for _, l := range strings.Split(strings.TrimSpace(s), "\n") {
		if strings.HasPrefix(l, "#") || strings.TrimSpace(l) == "" {
			continue
		}
		if len(l) > 240 {
			l = l[:240]
		}
		return l
	}
	return strings.TrimSpace(s)
}

// gsBatch runs one batch end to end; when goderive fails or m/lib does not
// compile the batch is bisected, single failing cases are skipped (counted).
func gsBatch(c *core.Ctx, bin, dir string, cases []*engs.Case, st *gsStats) error {
	if len(cases) == 0 {
		return nil
	}
	if err := genGsModule(c, dir, cases); err != nil {
		return err
	}
	st.mu.Lock()
	st.Goderive++
	st.mu.Unlock()
	r, err := gd.Run(c, bin, filepath.Join(dir, "lib"), []string{"."}, "", 120*time.Second)
	if err != nil {
		return err
	}
	why := ""
	if r.Exit != 0 {
		why = fmt.Sprintf("goderive exit %d: %s", r.Exit, r.Stderr+r.Stdout)
	} else {
		st.mu.Lock()
		st.Builds++
		st.mu.Unlock()
		out, err := runCmd(c, dir, 5*time.Minute, c.GoBin, "build", "-o", "s1bin", "./s1")
		if err == nil {
			return gsStages(c, dir, cases, st)
		}
		if !strings.Contains(out, "derived.gen.go") {
			return fmt.Errorf("the harness's own stage-1 package does not compile in %s: %s", dir, firstLine(out))
		}
		why = "go build: " + out
	}
	if len(cases) == 1 {
		st.mu.Lock()
		st.Skipped[cases[0].ID] = firstLine(why)
		st.mu.Unlock()
		return nil
	}
	mid := len(cases) / 2
	if err := gsBatch(c, bin, dir+"_0", cases[:mid], st); err != nil {
		return err
	}
	return gsBatch(c, bin, dir+"_1", cases[mid:], st)
}

var reS2File = regexp.MustCompile(`(?m)^(?:\./)?s2/(c_[A-Za-z0-9_]+\.go):\d+(?::\d+)?: (.*)$`)

// gsStages: stage 1 (texts), stage 2 (compile with isolation of failing
// expressions, run), and the observation file for GoStringTrace.
func gsStages(c *core.Ctx, dir string, cases []*engs.Case, st *gsStats) error {
	var buf bytes.Buffer
	for _, cs := range cases {
		buf.Write(cs.Raw)
		buf.WriteByte('\n')
	}
	casesPath := filepath.Join(dir, "cases.ndjson")
	if err := os.WriteFile(casesPath, buf.Bytes(), 0644); err != nil {
		return err
	}
	if out, err := runCmd(c, dir, 5*time.Minute, filepath.Join(dir, "s1bin"), casesPath, filepath.Join(dir, "s1.ndjson")); err != nil {
		return fmt.Errorf("stage-1 driver failed in %s: %v\n%s", dir, err, out)
	}
	lines, err := readLines(filepath.Join(dir, "s1.ndjson"))
	if err != nil {
		return err
	}
	texts := map[string][]gsText{}
	for _, l := range lines {
		var t gsText
		if err := json.Unmarshal(l, &t); err != nil {
			return err
		}
		texts[t.ID] = append(texts[t.ID], t)
	}
	// stage 2 sources: one file per case; a file the compiler rejects is split
	// into one file per value, a rejected single-value file is dropped.
	driver, leaftab, err := engsDriverSources(c)
	if err != nil {
		return err
	}
	s2 := filepath.Join(dir, "s2")
	if err := writeFiles(s2, map[string]string{"driver.go": driver, "leaftab.go": leaftab, "proj.go": projSrc, "gs_main.go": gsMainSrc}); err != nil {
		return err
	}
	type unit struct {
		cs   *engs.Case
		vals []gsText
	}
	units := map[string]unit{}
	byID := map[string]*engs.Case{}
	for _, cs := range cases {
		byID[cs.ID] = cs
		var ok []gsText
		for _, t := range texts[cs.ID] {
			if t.St == "ok" {
				ok = append(ok, t)
			}
		}
		if len(ok) > 0 {
			units["c_"+cs.ID+".go"] = unit{cs, ok}
		}
	}
	for n, u := range units {
		if err := os.WriteFile(filepath.Join(s2, n), []byte(stage2File(u.cs, u.vals)), 0644); err != nil {
			return err
		}
	}
	notCompiled := map[string]map[int]string{}
	for round := 0; ; round++ {
		st.mu.Lock()
		st.Stage2Bld++
		st.mu.Unlock()
		out, err := runCmd(c, dir, 10*time.Minute, c.GoBin, "build", "-gcflags=-e", "-o", "s2bin", "./s2")
		if err == nil {
			break
		}
		failing := map[string]string{}
		for _, m := range reS2File.FindAllStringSubmatch(out, -1) {
			if _, seen := failing[m[1]]; !seen {
				failing[m[1]] = m[2]
			}
		}
		if len(failing) == 0 || round > 8 {
			return fmt.Errorf("the harness's own stage-2 package does not compile in %s: %s", dir, firstLine(out))
		}
		for n, msg := range failing {
			u, ok := units[n]
			if !ok {
				return fmt.Errorf("compiler names unknown stage-2 file %s in %s", n, dir)
			}
			delete(units, n)
			os.Remove(filepath.Join(s2, n))
			if len(u.vals) == 1 {
				if notCompiled[u.cs.ID] == nil {
					notCompiled[u.cs.ID] = map[int]string{}
				}
				notCompiled[u.cs.ID][u.vals[0].I] = msg
				continue
			}
			for _, v := range u.vals {
				vn := fmt.Sprintf("c_%s_v%d.go", u.cs.ID, v.I)
				units[vn] = unit{u.cs, []gsText{v}}
				if err := os.WriteFile(filepath.Join(s2, vn), []byte(stage2File(u.cs, []gsText{v})), 0644); err != nil {
					return err
				}
			}
		}
	}
	if out, err := runCmd(c, dir, 5*time.Minute, filepath.Join(dir, "s2bin"), filepath.Join(dir, "s2.ndjson")); err != nil {
		return fmt.Errorf("stage-2 program failed in %s: %v\n%s", dir, err, out)
	}
	return gsAssemble(dir, cases, texts, notCompiled, st)
}

type gs2Line struct {
	ID string          `json:"id"`
	I  int             `json:"i"`
	St string          `json:"st"`
	V  json.RawMessage `json:"v"`
}

func gsAssemble(dir string, cases []*engs.Case, texts map[string][]gsText, notCompiled map[string]map[int]string, st *gsStats) error {
	lines, err := readLines(filepath.Join(dir, "s2.ndjson"))
	if err != nil {
		return err
	}
	s2 := map[string]map[int]gs2Line{}
	for _, l := range lines {
		var g gs2Line
		if err := json.Unmarshal(l, &g); err != nil {
			return err
		}
		if s2[g.ID] == nil {
			s2[g.ID] = map[int]gs2Line{}
		}
		s2[g.ID][g.I] = g
	}
	var tr bytes.Buffer
	n := 0
	st.mu.Lock()
	defer st.mu.Unlock()
	for _, cs := range cases {
		ts := texts[cs.ID]
		if want := len(gsValues(cs)); len(ts) != want {
			return fmt.Errorf("stage 1 produced %d texts for the %d values of %s", len(ts), want, cs.ID)
		}
		sort.Slice(ts, func(a, b int) bool { return ts[a].I < ts[b].I })
		tr.Write(cs.Raw)
		tr.WriteByte('\n')
		n++
		st.Texts[cs.ID] = map[int]string{}
		st.Vals[cs.ID] = map[int]string{}
		for k, pe := range gsValues(cs) {
			st.Vals[cs.ID][k+1] = pe.Tag + "=" + string(pe.V)
		}
		for _, t := range ts {
			st.Texts[cs.ID][t.I] = t.Text
			obs := map[string]interface{}{"k": "gs", "id": cs.ID, "i": t.I, "st1": t.St, "compiled": false, "st2": "none"}
			if t.St == "ok" {
				if msg, bad := notCompiled[cs.ID][t.I]; bad {
					if st.CompErr[cs.ID] == nil {
						st.CompErr[cs.ID] = map[int]string{}
					}
					st.CompErr[cs.ID][t.I] = msg
				} else if g, ok := s2[cs.ID][t.I]; ok {
					obs["compiled"], obs["st2"] = true, g.St
					if g.St == "ok" {
						obs["v"] = g.V
					}
				} else {
					return fmt.Errorf("stage 2 lost value %d of %s in %s", t.I, cs.ID, dir)
				}
			}
			b, _ := json.Marshal(obs)
			tr.Write(b)
			tr.WriteByte('\n')
			n++
			st.Values++
		}
		st.Built[cs.ID] = true
	}
	p := filepath.Join(dir, "trace.ndjson")
	if err := os.WriteFile(p, tr.Bytes(), 0644); err != nil {
		return err
	}
	st.Files = append(st.Files, traceFile{p, n})
	return nil
}

// gsValues: the values C06 tries for a case: Pool(T) followed by the leaf sweep (GsPool in GoStringSem.tla).
func gsValues(cs *engs.Case) []engs.PoolEntry {
	var x struct {
		Gsx []engs.PoolEntry `json:"gsx"`
	}
	if err := json.Unmarshal(cs.Raw, &x); err != nil {
		return cs.Pool
	}
	return append(append([]engs.PoolEntry(nil), cs.Pool...), x.Gsx...)
}
