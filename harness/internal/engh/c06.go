package engh

import (
	"encoding/json"
	"fmt"
	"path/filepath"
	"sort"
	"strings"
	"sync"
	"time"

	"verif/harness/internal/core"
	"verif/harness/internal/engs"
	"verif/harness/internal/gd"
	"verif/harness/internal/tlc"
)

func init() { core.Register("C06", checkC06) }

// gsCases: the cases TLC marked as members of C06's quantifier (AllExported).
func gsCases(r *engs.Result) ([]*engs.Case, error) {
	var out []*engs.Case
	for _, cs := range r.Cases {
		var f struct {
			GS bool `json:"gs"`
		}
		if err := json.Unmarshal(cs.Raw, &f); err != nil {
			return nil, err
		}
		if f.GS {
			out = append(out, cs)
		}
	}
	return out, nil
}

// gsRun: both stages for a set of cases, batched and in parallel.
func gsRun(c *core.Ctx, bin, tag string, cases []*engs.Case, batch int) (*gsStats, error) {
	st := newGsStats()
	var batches [][]*engs.Case
	for i := 0; i < len(cases); i += batch {
		j := i + batch
		if j > len(cases) {
			j = len(cases)
		}
		batches = append(batches, cases[i:j])
	}
	errs := make([]error, len(batches))
	var wg sync.WaitGroup
	sem := make(chan struct{}, parOf(2, 2))
	for bi := range batches {
		wg.Add(1)
		go func(bi int) {
			defer wg.Done()
			sem <- struct{}{}
			defer func() { <-sem }()
			errs[bi] = gsBatch(c, bin, filepath.Join(c.Work, "gs", fmt.Sprintf("%s-b%03d", tag, bi)), batches[bi], st)
		}(bi)
	}
	wg.Wait()
	for _, e := range errs {
		if e != nil {
			return nil, e
		}
	}
	sort.Slice(st.Files, func(a, b int) bool { return st.Files[a].Path < st.Files[b].Path })
	return st, nil
}

// gsModelCheck: the implementation-shaped printer/evaluator round trip on the
// exported universe (GoStringMC). A violation is an error of the specification.
func gsModelCheck(c *core.Ctx, casesFile string, workers int) (*MCResult, error) {
	res, err := tlc.Run(tlc.Opts{SpecDirs: specDirs(c), Module: "GoStringMC", Config: "GoStringMC.cfg",
		Workers: workers, Timeout: 20 * time.Minute, HeapMB: 6000, Scratch: c.Work,
		Env: map[string]string{"VERIF_CASES": casesFile}})
	if err != nil {
		return nil, err
	}
	if res.Violation {
		return nil, fmt.Errorf("the round-trip model violates its own laws on the bounded universe (specification needs fixing): %s", res.ErrText)
	}
	return &MCResult{States: res.Distinct, Transitions: res.Generated, Wall: res.Wall}, nil
}

func checkC06(c *core.Ctx) error {
	bin, err := gd.Build(c)
	if err != nil {
		return err
	}
	all, err := engs.EnumerateTypes(c, 2)
	if err != nil {
		return err
	}
	nq, nd := 120, 20
	if !c.Quick() {
		nq, nd = 0, 200
	}
	u := engs.SelectUniverse(all, c.Quick(), c.Seed, nq, nd)
	nfix := addFixtures(u)
	c.Set("types_fixture_family", nfix)
	devLimit(u)
	r, _, err := exportCases(c, "main", u.IDs, u.Types, false)
	if err != nil {
		return err
	}
	cases, err := gsCases(r)
	if err != nil {
		return err
	}
	if len(cases)*5 < len(r.Cases) {
		return fmt.Errorf("only %d of %d types have exported fields only: the universe or AllExported is broken", len(cases), len(r.Cases))
	}
	type mcOut struct {
		mc  *MCResult
		err error
	}
	mcCh := make(chan mcOut, 1)
	go func() {
		mc, err := gsModelCheck(c, r.CasesFile, parOf(4, 1))
		mcCh <- mcOut{mc, err}
	}()
	t0 := time.Now()
	st, err := gsRun(c, bin, "main", cases, 48)
	if err != nil {
		<-mcCh
		return err
	}
	r.Times["stages"] = time.Since(t0).Seconds()
	t0 = time.Now()
	val, err := validate(c, "GoStringTrace", st.Files, parOf(2, 1))
	if err != nil {
		<-mcCh
		return err
	}
	r.Times["validate"] = time.Since(t0).Seconds()
	m := <-mcCh
	if m.err != nil {
		return m.err
	}
	if n := len(st.Skipped); n*4 > len(cases) {
		return fmt.Errorf("%d of %d types could not be generated/compiled (more than 25%%): the harness's own package is probably broken; e.g. %v", n, len(cases), firstOf(st.Skipped))
	}
	all2 := []*gsStats{st}
	sh := newShrinker(func(tag string, ids []string, types []*engs.Type) (*engs.Result, map[string]bool, []engs.Bad, error) {
		r2, _, err := exportCases(c, tag, ids, types, true)
		if err != nil {
			return nil, nil, nil, err
		}
		cs2, err := gsCases(r2)
		if err != nil {
			return nil, nil, nil, err
		}
		st2, err := gsRun(c, bin, tag, cs2, 32)
		if err != nil {
			return nil, nil, nil, err
		}
		all2 = append(all2, st2)
		if len(st2.Files) == 0 {
			return r2, st2.Built, nil, nil
		}
		v2, err := validate(c, "GoStringTrace", st2.Files, parOf(4, 1))
		if err != nil {
			return nil, nil, nil, err
		}
		return r2, st2.Built, v2.Bad, nil
	}, "gs")
	sh.detail = func(id string, b engs.Bad) string {
		for _, s := range all2 {
			if t, ok := s.Texts[id][b.I]; ok {
				d := "; value " + s.Vals[id][b.I] + "; returned text: " + fmt.Sprintf("%q", t)
				if msg, ok := s.CompErr[id][b.I]; ok {
					d += "; compiler: " + msg
				}
				return d
			}
		}
		return ""
	}
	sh.seed(r, st.Built, val.Bad)
	nbad, nnote, ndrift := 0, 0, 0
	for _, b := range val.Bad {
		switch {
		case strings.HasPrefix(b.Law, "DRIFT"):
			ndrift++
			if ndrift <= 3 {
				c.Drift(fmt.Sprintf("%s %s: %s; e.g. pool[%d]", b.ID, r.ByID[b.ID].T.String(), strings.TrimPrefix(b.Law, "DRIFT: "), b.I))
			}
		case strings.HasPrefix(b.Law, "NOTE"):
			nnote++
			if nnote <= 3 {
				c.Warn(fmt.Sprintf("%s %s pool[%d]: %s; difference %v; text %q", b.ID, r.ByID[b.ID].T.String(), b.I, b.Law, b.Diff, st.Texts[b.ID][b.I]))
			}
		default:
			nbad++
		}
	}
	wits, err := sh.shrinkAll()
	if err != nil {
		return err
	}
	for _, w := range wits {
		for i := 0; i < w.Count; i++ {
			c.Report(w.Witness, w.Detail, w.Replay)
		}
	}
	evidenceC06(c, u, r, cases, all2, val, m.mc, sh, nbad, nnote, ndrift)
	return nil
}

func firstOf(m map[string]string) string {
	var ks []string
	for k := range m {
		ks = append(ks, k)
	}
	sort.Strings(ks)
	if len(ks) == 0 {
		return ""
	}
	return ks[0] + ": " + m[ks[0]]
}
