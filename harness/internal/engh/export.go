package engh

import (
	"bufio"
	"bytes"
	"encoding/json"
	"fmt"
	"os"
	"path/filepath"
	"strconv"
	"strings"
	"sync"
	"time"

	"verif/harness/internal/core"
	"verif/harness/internal/engs"
	"verif/harness/internal/tlc"
)

var (
	snapMu  sync.Mutex
	snapDir = map[string]string{} // work dir -> snapshot of the specifications
)

// specDirs: spec/heap EXTENDS the modules of spec/sem. Both are snapshotted
// into the work directory at the first use, so that every TLC run of one check
// run (export, model check, validation, shrinking) sees the same modules even
// if the files are edited meanwhile.
func specDirs(c *core.Ctx) []string {
	snapMu.Lock()
	defer snapMu.Unlock()
	if d, ok := snapDir[c.Work]; ok {
		return []string{d}
	}
	live := []string{engs.SpecDir(c), filepath.Join(c.Verif, "spec", "heap")}
	d := filepath.Join(c.Work, "spec-snapshot")
	if err := os.MkdirAll(d, 0755); err != nil {
		return live
	}
	for _, src := range live {
		ents, err := os.ReadDir(src)
		if err != nil {
			return live
		}
		for _, e := range ents {
			n := e.Name()
			if e.IsDir() || !(strings.HasSuffix(n, ".tla") || strings.HasSuffix(n, ".cfg")) {
				continue
			}
			data, err := os.ReadFile(filepath.Join(src, n))
			if err != nil {
				return live
			}
			if err := os.WriteFile(filepath.Join(d, n), data, 0644); err != nil {
				return live
			}
		}
	}
	snapDir[c.Work] = d
	return []string{d}
}

func par() int {
	if v, err := strconv.Atoi(os.Getenv("VERIF_PAR")); err == nil && v >= 1 {
		return v
	}
	return 16
}

func parOf(div, min int) int {
	n := par() / div
	if n < min {
		n = min
	}
	return n
}

func readLines(path string) ([][]byte, error) {
	f, err := os.Open(path)
	if err != nil {
		return nil, err
	}
	defer f.Close()
	var out [][]byte
	sc := bufio.NewScanner(f)
	sc.Buffer(make([]byte, 1<<20), 1<<28)
	for sc.Scan() {
		if len(bytes.TrimSpace(sc.Bytes())) == 0 {
			continue
		}
		out = append(out, append([]byte(nil), sc.Bytes()...))
	}
	return out, sc.Err()
}

// PriorEntry is one prior destination state of PriorDst(T) (spec/heap/HeapOps.tla).
type PriorEntry struct {
	Tag string          `json:"tag"`
	V   json.RawMessage `json:"v"`
}

// exportCases lets TLC (HeapCases) compute Pool(t) and PriorDst(t) for the
// types and wraps the outcome in an engs.Result, so that engs's package
// generator, screening, batching and driver runs apply unchanged. With lenient,
// terms TLC rejects as not well-formed are returned in Result.Rejected.
func exportCases(c *core.Ctx, tag string, ids []string, types []*engs.Type, lenient bool) (*engs.Result, map[string][]PriorEntry, error) {
	t0 := time.Now()
	in := filepath.Join(c.Work, tag+"-types.ndjson")
	out := filepath.Join(c.Work, tag+"-cases.ndjson")
	lv := filepath.Join(c.Work, tag+"-leaves.ndjson")
	var buf bytes.Buffer
	for i, t := range types {
		fmt.Fprintf(&buf, "{\"id\":%q,\"t\":%s}\n", ids[i], t.Canon())
	}
	if err := os.WriteFile(in, buf.Bytes(), 0644); err != nil {
		return nil, nil, err
	}
	res, err := tlc.Run(tlc.Opts{SpecDirs: specDirs(c), Module: "HeapCases", Config: "HeapCases.cfg",
		Workers: 1, Timeout: 10 * time.Minute, HeapMB: 6000, Scratch: c.Work,
		Env: map[string]string{"VERIF_TYPES": in, "VERIF_OUT": out, "VERIF_LEAVES": lv}})
	if err != nil {
		return nil, nil, err
	}
	if res.Violation {
		return nil, nil, fmt.Errorf("HeapCases: %s", res.ErrText)
	}
	cases, err := engs.ReadCases(out)
	if err != nil {
		return nil, nil, err
	}
	if len(cases) != len(types) {
		return nil, nil, fmt.Errorf("TLC exported %d cases for %d types", len(cases), len(types))
	}
	r := &engs.Result{ByID: map[string]*engs.Case{}, Build: &engs.BuildStats{}, Times: map[string]float64{}, CasesFile: out}
	priors := map[string][]PriorEntry{}
	for i, cs := range cases {
		if cs.ID != ids[i] || cs.T.Canon() != types[i].Canon() {
			return nil, nil, fmt.Errorf("export line %d is %s %s, expected %s %s", i+1, cs.ID, cs.T.Canon(), ids[i], types[i].Canon())
		}
		if !cs.WF {
			if !lenient {
				return nil, nil, fmt.Errorf("TLC rejects type %s as not well-formed: %s", cs.ID, types[i].Canon())
			}
			r.Rejected = append(r.Rejected, types[i])
			continue
		}
		var p struct {
			Prior []PriorEntry `json:"prior"`
		}
		if err := json.Unmarshal(cs.Raw, &p); err != nil {
			return nil, nil, err
		}
		priors[cs.ID] = p.Prior
		r.Cases = append(r.Cases, cs)
		r.ByID[cs.ID] = cs
	}
	lines, err := readLines(lv)
	if err != nil {
		return nil, nil, err
	}
	for _, l := range lines {
		var k engs.LeafKind
		if err := json.Unmarshal(l, &k); err != nil {
			return nil, nil, err
		}
		r.Leaves = append(r.Leaves, k)
	}
	// binding check: Go's == and < on the concrete leaves agree with the TLA+ table
	if err := engs.LeafSanity(r.Leaves); err != nil {
		return nil, nil, fmt.Errorf("leaf table of the specification and the Go concretisation disagree: %v", err)
	}
	r.Times["export"] = time.Since(t0).Seconds()
	return r, priors, nil
}

// MCResult is the outcome of a TLC model-checking run of the design.
type MCResult struct {
	States, Transitions int
	Wall                time.Duration
}

// modelCheck runs HeapMC on the exported cases file: the copy model (CopyImpl
// satisfies CopyOK; CopyOK implies write independence) on exactly the types,
// sources and priors the real code is run on; then the sensitivity
// configuration, which MUST be violated. A failure is an error of the
// specification (exit 2), never a verdict.
func modelCheck(c *core.Ctx, casesFile string, workers int) (*MCResult, error) {
	res, err := tlc.Run(tlc.Opts{SpecDirs: specDirs(c), Module: "HeapMC", Config: "HeapMC.cfg",
		Workers: workers, Timeout: 25 * time.Minute, HeapMB: 8000, Scratch: c.Work,
		Env: map[string]string{"VERIF_CASES": casesFile}})
	if err != nil {
		return nil, err
	}
	if res.Violation {
		return nil, fmt.Errorf("the copy model violates its own laws on the bounded universe (specification needs fixing): %s", res.ErrText)
	}
	mc := &MCResult{States: res.Distinct, Transitions: res.Generated, Wall: res.Wall}
	// sensitivity on the head of the universe (every constructor over the first leaves): breadth-first
	// search reaches the first write state only after all (source, destination) pairs of all types
	lines, err := readLines(casesFile)
	if err != nil {
		return nil, err
	}
	if len(lines) > 60 {
		lines = lines[:60]
	}
	negFile := casesFile + ".neg"
	if err := os.WriteFile(negFile, append(bytes.Join(lines, []byte("\n")), '\n'), 0644); err != nil {
		return nil, err
	}
	neg, err := tlc.Run(tlc.Opts{SpecDirs: specDirs(c), Module: "HeapMC", Config: "HeapMCNeg.cfg",
		Workers: 1, Timeout: 10 * time.Minute, HeapMB: 4000, Scratch: c.Work,
		Env: map[string]string{"VERIF_CASES": negFile}})
	if err != nil {
		return nil, err
	}
	if !neg.Violation {
		return nil, fmt.Errorf("sensitivity of the heap model lost: without the premise CopyOK, write independence still holds on the whole universe")
	}
	mc.Wall += neg.Wall
	return mc, nil
}

// devLimit: development knobs, never set by the registered commands:
// VERIF_H_LIMIT=n truncates the universe to its first n types.
func devLimit(u *engs.Universe) {
	// VERIF_H_TYPES=<file of {"t":<type>} lines>: run exactly these types (replaying a witness)
	if f := os.Getenv("VERIF_H_TYPES"); f != "" {
		if lines, err := readLines(f); err == nil {
			u.Types, u.IDs, u.Exhaustive = nil, nil, false
			for i, l := range lines {
				var r struct {
					T *engs.Type `json:"t"`
				}
				if json.Unmarshal(l, &r) == nil && r.T != nil {
					u.Types = append(u.Types, r.T)
					u.IDs = append(u.IDs, fmt.Sprintf("T%d", i+1))
				}
			}
		}
	}
	if n, err := strconv.Atoi(os.Getenv("VERIF_H_LIMIT")); err == nil && n > 0 && n < len(u.Types) {
		u.Types, u.IDs = u.Types[:n], u.IDs[:n]
		u.Exhaustive = false
	}
}
