package engh

import (
	"fmt"
	"sort"
	"strings"

	"verif/harness/internal/engs"
)

// evalRes: what is known about one type term after running it through a
// pipeline (same memo as engs.Shrinker, whose evaluation is tied to spec/sem).
type evalRes struct {
	T       *engs.Type
	Case    *engs.Case
	WF      bool
	Built   bool
	Classes map[string]engs.Bad
}

// pipeline runs type terms end to end (TLC export, real goderive, real
// generated code, TLC validation) and returns the cases, which of them were
// generated and compiled, and the rejected observation classes.
type pipeline func(tag string, ids []string, types []*engs.Type) (r *engs.Result, built map[string]bool, bad []engs.Bad, err error)

// shrinker reduces every failing (type, class) to a minimal type with the same
// class (lazy exact greedy descent over engs.Reductions, memoised by NormKey).
type shrinker struct {
	run     pipeline
	obsKind string
	cache   map[string]*evalRes
	detail  func(id string, b engs.Bad) string // optional: more detail for a rejected observation
	Rounds  int
	Ran     int
}

func newShrinker(run pipeline, obsKind string) *shrinker {
	return &shrinker{run: run, obsKind: obsKind, cache: map[string]*evalRes{}}
}

func (s *shrinker) seed(r *engs.Result, built map[string]bool, bad []engs.Bad) {
	for _, cs := range r.Cases {
		s.cache[cs.T.NormKey()] = &evalRes{T: cs.T, Case: cs, WF: cs.WF, Built: built[cs.ID], Classes: map[string]engs.Bad{}}
	}
	for _, t := range r.Rejected {
		s.cache[t.NormKey()] = &evalRes{T: t, Classes: map[string]engs.Bad{}}
	}
	for _, b := range bad {
		if b.K != s.obsKind || strings.HasPrefix(b.Law, "DRIFT") || strings.HasPrefix(b.Law, "NOTE") {
			continue
		}
		cs := r.ByID[b.ID]
		if cs == nil {
			continue
		}
		e := s.cache[cs.T.NormKey()]
		if _, ok := e.Classes[b.Class()]; !ok {
			e.Classes[b.Class()] = b
		}
	}
}

func (s *shrinker) evaluate(types []*engs.Type) error {
	if len(types) == 0 {
		return nil
	}
	s.Rounds++
	s.Ran += len(types)
	ids := make([]string, len(types))
	for i := range types {
		ids[i] = fmt.Sprintf("X%dx%d", s.Rounds, i+1)
	}
	r, built, bad, err := s.run(fmt.Sprintf("shr%d", s.Rounds), ids, types)
	if err != nil {
		return err
	}
	s.seed(r, built, bad)
	return nil
}

type shrinkItem struct {
	cur   *engs.Type
	class string
	done  bool
}

// shrinkAll returns one witness per distinct minimal (class, type).
func (s *shrinker) shrinkAll() ([]engs.Witness, error) {
	var items []*shrinkItem
	for _, e := range s.cache {
		for class := range e.Classes {
			items = append(items, &shrinkItem{cur: e.T, class: class})
		}
	}
	sort.Slice(items, func(a, b int) bool {
		if items[a].class != items[b].class {
			return items[a].class < items[b].class
		}
		return items[a].cur.Less(items[b].cur)
	})
	const perRound = 6
	for round := 0; round < 200; round++ {
		need := map[string]*engs.Type{}
		active := 0
		for _, it := range items {
			if it.done {
				continue
			}
			active++
			for moved := true; moved; {
				moved = false
				unknown := 0
				var best *engs.Type
				for _, cd := range engs.Reductions(it.cur) { // smallest first
					e, ok := s.cache[cd.NormKey()]
					if !ok {
						need[cd.NormKey()] = cd
						unknown++
						if unknown >= perRound {
							break
						}
						continue
					}
					if !e.WF || !e.Built {
						continue
					}
					if _, fails := e.Classes[it.class]; fails {
						best = cd
						break
					}
				}
				switch {
				case unknown > 0:
				case best != nil:
					it.cur = best
					moved = true
				default:
					it.done = true
				}
			}
		}
		if active == 0 {
			break
		}
		if len(need) == 0 {
			continue
		}
		var batch []*engs.Type
		for _, t := range need {
			batch = append(batch, t)
		}
		sort.Slice(batch, func(a, b int) bool { return batch[a].Less(batch[b]) })
		if err := s.evaluate(batch); err != nil {
			return nil, err
		}
	}
	byWit := map[string]*engs.Witness{}
	var keys []string
	for _, it := range items {
		w := it.class + " :: " + it.cur.String()
		if x, ok := byWit[w]; ok {
			x.Count++
			continue
		}
		e := s.cache[it.cur.NormKey()]
		b := e.Classes[it.class]
		detail, replay := describe(e, b)
		if s.detail != nil && e.Case != nil {
			detail += s.detail(e.Case.ID, b)
		}
		byWit[w] = &engs.Witness{Witness: w, Detail: detail, Replay: replay, Count: 1}
		keys = append(keys, w)
	}
	sort.Strings(keys)
	var out []engs.Witness
	for _, k := range keys {
		w := byWit[k]
		w.Detail = fmt.Sprintf("%d failing (type, class) cases shrink to this witness; %s", w.Count, w.Detail)
		out = append(out, *w)
	}
	return out, nil
}

func describe(e *evalRes, b engs.Bad) (string, interface{}) {
	val := func(i int) string {
		if e.Case == nil || i < 1 || i > len(e.Case.Pool) {
			return "?"
		}
		return e.Case.Pool[i-1].Tag + "=" + string(e.Case.Pool[i-1].V)
	}
	d := fmt.Sprintf("minimal type %s (abstract term %s); observation kind=%s form=%q; source pool[%d] %s; prior destination / second index %d; law: %s; difference class %v",
		e.T.String(), e.T.Canon(), b.K, b.Form, b.I, val(b.I), b.J, b.Law, b.Diff)
	return d, map[string]interface{}{"type": e.T, "class": b.Class(), "source": val(b.I), "j": b.J, "observation": b}
}
