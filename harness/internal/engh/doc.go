// Package engh is engine S, copy semantics on a heap (spec/heap): C05, C06.
package engh
