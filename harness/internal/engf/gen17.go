package engf

import (
	"fmt"
	"strings"
)

// ---- C17 fmap over a slice / over the runes of a string --------------------------------
func genFmap(sh *Shape) {
	c := sh.Cases[0].C
	ka, kb := kinds[c.K1[0]], kinds[c.K1[1]]
	str := sh.Fam == "fmapstr"
	var b strings.Builder
	b.WriteString(header(sh.Pkg))
	b.WriteString(listTable(sh, false))
	b.WriteString(tokAtSrc)
	fmt.Fprintf(&b, "func f1(x0 %s) %s {\n\ti := rt.Enter(1, %s(x0))\n\tidx++\n\trt.Exit(i, 0, tokAt(cur.outs))\n\treturn %s(tokAt(cur.outs))\n}\n\n", ka.typ, kb.typ, ka.pr, kb.mk)
	pre := "\t\tcur, idx = &cases[ci], 0\n"
	var body string
	post := "\t\to.Calls = rt.Take()\n"
	if str {
		pre += "\t\ts := rt.FromBytes(cs.elems...)\n\t\to.InB.Es = rt.Bytes(s)\n"
		body = "\t\t\tres := deriveFmap(f1, s)\n"
		post += "\t\to.InA.Es = rt.Bytes(s)\n"
		sh.Call = fmt.Sprintf("deriveFmap(func(rune) %s, string)", kb.typ)
	} else {
		pre += fmt.Sprintf("\t\tvar list []%s\n\t\tif !cs.nilIn {\n\t\t\tlist = make([]%s, 0, len(cs.elems))\n\t\t}\n\t\tfor _, e := range cs.elems {\n\t\t\tlist = append(list, %s(e))\n\t\t}\n", ka.typ, ka.typ, ka.mk)
		proj := fmt.Sprintf("\t\to.%%s.Nil = list == nil\n\t\tfor _, e := range list {\n\t\t\to.%%s.Es = append(o.%%s.Es, %s(e))\n\t\t}\n", ka.pr)
		pre += fmt.Sprintf(proj, "InB", "InB", "InB")
		body = "\t\t\tres := deriveFmap(f1, list)\n"
		post += fmt.Sprintf(proj, "InA", "InA", "InA")
		sh.Call = fmt.Sprintf("deriveFmap(func(%s) %s, []%s)", ka.typ, kb.typ, ka.typ)
	}
	body += fmt.Sprintf("\t\t\to.Out.Nil = res == nil\n\t\t\tfor _, r := range res {\n\t\t\t\to.Out.Es = append(o.Out.Es, %s(r))\n\t\t\t}\n", kb.pr)
	b.WriteString(runLoopT("cs.id", pre, body, post))
	sh.Src = b.String()
	sh.Size = []int{kindRank(c.K1)}
}

// ---- C17 join: concatenation of a slice of slices / of strings -----------------------------
func genJoin(sh *Shape) {
	var b strings.Builder
	b.WriteString(header(sh.Pkg))
	if sh.Fam == "joinstr" {
		b.WriteString("type jcase struct {\n\tid    int\n\tnilIn bool\n\tstrs  [][]int\n}\n\nvar cases = []jcase{\n")
		for _, cs := range sh.Cases {
			var in ListsIn
			mustUnmarshal(cs.C.Input, &in)
			parts := make([]string, len(in.Ls))
			for i, raw := range in.Ls {
				var bs []int
				mustUnmarshal(raw, &bs)
				parts[i] = "{" + itoas(bs) + "}"
			}
			fmt.Fprintf(&b, "\t{%d, %v, [][]int{%s}},\n", cs.ID, in.Nil, strings.Join(parts, ", "))
		}
		b.WriteString("}\n\n")
		pre := "\t\tvar list []string\n\t\tif !cs.nilIn {\n\t\t\tlist = make([]string, 0, len(cs.strs)+1)\n\t\t}\n\t\tfor _, s := range cs.strs {\n\t\t\tlist = append(list, rt.FromBytes(s...))\n\t\t}\n"
		proj := "\t\to.LNil%s = list == nil\n\t\tfor _, s := range list {\n\t\t\to.S%s = append(o.S%s, rt.Bytes(s))\n\t\t}\n"
		pre += fmt.Sprintf(proj, "B", "B", "B")
		body := "\t\t\tres := deriveJoin(list)\n\t\t\to.Out.Es = rt.Bytes(res)\n"
		b.WriteString(runLoopT("cs.id", pre, body, fmt.Sprintf(proj, "A", "A", "A")))
		sh.Src = b.String()
		sh.Call = "deriveJoin([]string)"
		sh.Size = []int{0}
		return
	}
	c := sh.Cases[0].C
	k := kinds[c.K1[0]]
	// an inner list: nil, or len(es) elements followed by len(spare) elements of spare capacity
	b.WriteString("type inner struct {\n\tnilIn     bool\n\tes, spare []int\n}\n\ntype jcase struct {\n\tid    int\n\tnilIn bool\n\tls    []inner\n}\n\nvar cases = []jcase{\n")
	for _, cs := range sh.Cases {
		var in ListsIn
		mustUnmarshal(cs.C.Input, &in)
		parts := make([]string, len(in.Ls))
		for i, raw := range in.Ls {
			var l InnerIn
			mustUnmarshal(raw, &l)
			parts[i] = fmt.Sprintf("{%v, %s, %s}", l.Nil, goInts(l.Es), goInts(l.Spare))
		}
		fmt.Fprintf(&b, "\t{%d, %v, []inner{%s}},\n", cs.ID, in.Nil, strings.Join(parts, ", "))
	}
	b.WriteString("}\n\n")
	fmt.Fprintf(&b, "func build(l inner) []%s {\n\tif l.nilIn {\n\t\treturn nil\n\t}\n\tfull := make([]%s, 0, len(l.es)+len(l.spare))\n\tfor _, e := range l.es {\n\t\tfull = append(full, %s(e))\n\t}\n\tfor _, e := range l.spare {\n\t\tfull = append(full, %s(e))\n\t}\n\treturn full[:len(l.es)]\n}\n\n", k.typ, k.typ, k.mk, k.mk)
	fmt.Fprintf(&b, "func project(lists [][]%s) []rt.Inner {\n\tout := []rt.Inner{}\n\tfor _, l := range lists {\n\t\tin := rt.Inner{Nil: l == nil, Es: []int{}, Spare: []int{}}\n\t\tfor _, e := range l {\n\t\t\tin.Es = append(in.Es, %s(e))\n\t\t}\n\t\tfor _, e := range l[len(l):cap(l)] {\n\t\t\tin.Spare = append(in.Spare, %s(e))\n\t\t}\n\t\tout = append(out, in)\n\t}\n\treturn out\n}\n\n", k.typ, k.pr, k.pr)
	pre := fmt.Sprintf("\t\tvar lists [][]%s\n\t\tif !cs.nilIn {\n\t\t\tlists = make([][]%s, 0, len(cs.ls)+1)\n\t\t}\n\t\tfor _, l := range cs.ls {\n\t\t\tlists = append(lists, build(l))\n\t\t}\n\t\to.LNilB, o.LB = lists == nil, project(lists)\n", k.typ, k.typ)
	body := fmt.Sprintf("\t\t\tres := deriveJoin(lists)\n\t\t\to.Out.Nil = res == nil\n\t\t\tfor _, r := range res {\n\t\t\t\to.Out.Es = append(o.Out.Es, %s(r))\n\t\t\t}\n", k.pr)
	b.WriteString(runLoopT("cs.id", pre, body, "\t\to.LNilA, o.LA = lists == nil, project(lists)\n"))
	sh.Src = b.String()
	sh.Call = fmt.Sprintf("deriveJoin([][]%s)", k.typ)
	sh.Size = []int{kindRank(c.K1)}
}
