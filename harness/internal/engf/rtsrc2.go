package engf

const rtSource2 = `
// ---- Mem arguments: class k in 1..3, representative rep in 1..2 (distinct allocations, Equal content).
// The string contents of classes 1 and 2 collide under a 31-polynomial hash ("Aa" / "BB").
func strtok(k int) string {
	switch k {
	case 1:
		return "Aa"
	case 2:
		return "BB"
	case 3:
		return "Cc"
	}
	return "t" + itoa(k)
}
func unstr(s string) int {
	for k := 1; k <= 3; k++ {
		if s == strtok(k) {
			return k
		}
	}
	return -1
}

var (
	memPt  [4][3]*St
	memSsl [4][3][]string
	memMp  [4][3]map[string]int
	memStr [4][3]string
)

func init() {
	for k := 1; k <= 3; k++ {
		for r := 1; r <= 2; r++ {
			memPt[k][r] = &St{7, strtok(k)}
			memSsl[k][r] = []string{strtok(k)}
			memMp[k][r] = map[string]int{strtok(k): 7}
			memStr[k][r] = string(append([]byte{}, strtok(k)...))
		}
	}
}

func MemMkInt(k, rep int) int               { return k }
func MemMkStr(k, rep int) string            { return memStr[k][rep] }
func MemMkSt(k, rep int) St                 { return St{7, memStr[k][rep]} }
func MemMkAr(k, rep int) Ar                 { return Ar{k, 7} }
func MemMkPt(k, rep int) *St                { return memPt[k][rep] }
func MemMkSsl(k, rep int) []string          { return memSsl[k][rep] }
func MemMkMp(k, rep int) map[string]int     { return memMp[k][rep] }
func MemPrInt(v int) int                    { return v }
func MemPrStr(v string) int                 { return unstr(v) }
func MemPrSt(v St) int {
	if v.A != 7 {
		return -1
	}
	return unstr(v.B)
}
func MemPrAr(v Ar) int {
	if v[1] != 7 {
		return -1
	}
	return v[0]
}
func MemPrPt(v *St) int {
	if v == nil {
		return 0
	}
	return MemPrSt(*v)
}
func MemPrSsl(v []string) int {
	if v == nil {
		return 0
	}
	if len(v) != 1 {
		return -1
	}
	return unstr(v[0])
}
func MemPrMp(v map[string]int) int {
	if v == nil {
		return 0
	}
	if len(v) != 1 {
		return -1
	}
	for s, x := range v {
		if x == 7 {
			return unstr(s)
		}
	}
	return -1
}

// Kinds that Go compares with == but that derived Equal compares structurally (through the pointers).
type SP struct{ P *St }

func MemMkAp(k, rep int) [2]*St { return [2]*St{{7, strtok(k)}, {7, strtok(k)}} }
func MemMkSp(k, rep int) SP     { return SP{&St{7, strtok(k)}} }
func MemMkAsp(k, rep int) [2]SP { return [2]SP{{&St{7, strtok(k)}}, {&St{7, strtok(k)}}} }
func MemPrAp(v [2]*St) int {
	if a, b := MemPrPt(v[0]), MemPrPt(v[1]); a == b {
		return a
	}
	return -1
}
func MemPrSp(v SP) int { return MemPrPt(v.P) }
func MemPrAsp(v [2]SP) int {
	if a, b := MemPrPt(v[0].P), MemPrPt(v[1].P); a == b {
		return a
	}
	return -1
}

// ---- exotic kinds: a struct type whose tag contains printf verbs, a type with a non-ASCII name, a func value
type Tg = struct {
	A int ` + "`layout:\"%5d %s %%\"`" + `
}
type Ünï int

func MkTg(k int) Tg   { return Tg{A: k} }
func PrTg(v Tg) int   { return v.A }
func MkUni(k int) Ünï { return Ünï(k) }
func PrUni(v Ünï) int { return int(v) }

var fnPool [poolN]func(int) int

func init() {
	for k := 1; k < poolN; k++ {
		kk := k
		fnPool[k] = func(x int) int { return x + kk }
	}
}
func MkFn(k int) func(int) int {
	if k == 0 {
		return nil
	}
	return fnPool[k]
}
func PrFn(v func(int) int) int {
	if v == nil {
		return 0
	}
	if k := v(0); k > 0 && k < poolN && v(5) == k+5 {
		return k
	}
	return -1
}

// Integer-valued non-comparable kinds: classes 1 and 2 collide under goderive's 17/31 hash
// ([]int{1, 0} and []int{0, 31} both hash to 17*31*31 + 31), class 3 does not.
type P2 struct{ A, B int }

func pair(k int) (int, int) {
	switch k {
	case 1:
		return 1, 0
	case 2:
		return 0, 31
	case 3:
		return 2, 7
	}
	return k, -1
}
func unpair(a, b int) int {
	for k := 1; k <= 3; k++ {
		if x, y := pair(k); x == a && y == b {
			return k
		}
	}
	return -1
}

var (
	memIsl [4][3][]int
	memIp2 [4][3]*P2
	memSp2 [4][3][]P2
	memMpi [4][3]map[int]int
)

func init() {
	for k := 1; k <= 3; k++ {
		a, b := pair(k)
		for r := 1; r <= 2; r++ {
			memIsl[k][r] = []int{a, b}
			memIp2[k][r] = &P2{a, b}
			memSp2[k][r] = []P2{{a, b}}
			memMpi[k][r] = map[int]int{a: b}
		}
	}
}

func MemMkIsl(k, rep int) []int       { return memIsl[k][rep] }
func MemMkIp2(k, rep int) *P2         { return memIp2[k][rep] }
func MemMkSp2(k, rep int) []P2        { return memSp2[k][rep] }
func MemMkMpi(k, rep int) map[int]int { return memMpi[k][rep] }
func MemPrIsl(v []int) int {
	if len(v) != 2 {
		return -1
	}
	return unpair(v[0], v[1])
}
func MemPrIp2(v *P2) int {
	if v == nil {
		return 0
	}
	return unpair(v.A, v.B)
}
func MemPrSp2(v []P2) int {
	if len(v) != 1 {
		return -1
	}
	return unpair(v[0].A, v[0].B)
}
func MemPrMpi(v map[int]int) int {
	if len(v) != 1 {
		return -1
	}
	for a, b := range v {
		return unpair(a, b)
	}
	return -1
}

// ---- call log of the instrumented user functions ----
type Call struct {
	F    int
	Args []int
	Res  []int
	Err  int
}

var log []Call

func Reset() { log = []Call{} }
func Take() []Call {
	l := log
	log = []Call{}
	if l == nil {
		l = []Call{}
	}
	return l
}

// Peek returns a copy of the log so far without clearing it.
func Peek() []Call { return append([]Call{}, log...) }

// Enter logs the call of instrumented function f with its projected arguments.
func Enter(f int, args ...int) int {
	if args == nil {
		args = []int{}
	}
	log = append(log, Call{F: f, Args: args, Res: []int{}})
	return len(log) - 1
}

// Exit logs what the call returns (projected) and its error token.
func Exit(i int, err int, res ...int) {
	if res == nil {
		res = []int{}
	}
	log[i].Res = res
	log[i].Err = err
}

// Sl is a projected slice, Inner a projected inner list of a list of lists
// (Spare: the elements between len and cap).
type Sl struct {
	Nil bool
	Es  []int
}
type Inner struct {
	Nil   bool
	Es    []int
	Spare []int
}
type Step struct {
	Calls []Call
	Ret   []int
}

// Obs is what one executed case showed.
type Obs struct {
	Case     int
	Calls    []Call
	Ret      []int
	Err      int
	Panic    string
	ThunkNil bool
	Pre      []Call // the log when the wrapper returned, before a returned function value was touched
	Ret2     []int  // second invocation of a returned function value
	Early    int    // calls logged before the returned function was called
	Out      Sl
	InB, InA Sl
	LB, LA   []Inner
	LNilB    bool
	LNilA    bool
	SB, SA   [][]int
	Steps    []Step
}

func NewObs(id int) *Obs {
	return &Obs{Case: id, Calls: []Call{}, Pre: []Call{}, Ret: []int{}, Ret2: []int{}, Out: Sl{Es: []int{}}, InB: Sl{Es: []int{}}, InA: Sl{Es: []int{}},
		LB: []Inner{}, LA: []Inner{}, SB: [][]int{}, SA: [][]int{}, Steps: []Step{}}
}

// Guard runs body; a panic of the generated code becomes part of the observation.
func Guard(o *Obs, body func()) {
	defer func() {
		if r := recover(); r != nil {
			switch x := r.(type) {
			case error:
				o.Panic = x.Error()
			case string:
				o.Panic = x
			default:
				o.Panic = "panic"
			}
			if o.Panic == "" {
				o.Panic = "panic"
			}
		}
	}()
	body()
}

func Ints(xs ...int) []int {
	if xs == nil {
		return []int{}
	}
	return xs
}

func Bytes(s string) []int {
	out := make([]int, len(s))
	for i := 0; i < len(s); i++ {
		out[i] = int(s[i])
	}
	return out
}

func FromBytes(bs ...int) string {
	b := make([]byte, len(bs))
	for i, x := range bs {
		b[i] = byte(x)
	}
	return string(b)
}
`
