package engf

import (
	"fmt"
	"strings"
)

func b2i(b bool) int {
	if b {
		return 1
	}
	return 0
}

// ---- C16 join, error form -------------------------------------------------------
func genJoinErr(sh *Shape) {
	c := sh.Cases[0].C
	ks := c.K1
	rtys := append(typeList(ks, kinds), "error")
	var b strings.Builder
	b.WriteString(header(sh.Pkg))
	b.WriteString("var ffail bool\nvar outer int\n\n")
	fmt.Fprintf(&b, "func f1()%s {\n\ti := rt.Enter(1)\n\tif ffail {\n\t", results(rtys))
	b.WriteString(exitLine(c.Ferr, c.Fpart))
	b.WriteString("\t" + retLine(append(mkVals(c.Fpart, ks, kinds), fmt.Sprintf("rt.MkErr(%d)", c.Ferr))))
	b.WriteString("\t}\n")
	b.WriteString(exitLine(0, c.Fres))
	b.WriteString(retLine(append(mkVals(c.Fres, ks, kinds), "nil")))
	b.WriteString("}\n\n")
	ft := funcType(nil, rtys)
	call := "deriveJoin(f1, rt.MkErr(outer))"
	sh.Call = "deriveJoin(" + ft + ", error)"
	if c.Form == "tuple" {
		fmt.Fprintf(&b, "func g() (%s, error) { return f1, rt.MkErr(outer) }\n\n", ft)
		call = "deriveJoin(g())"
		sh.Call = "deriveJoin(g()) with g func() (" + ft + ", error)"
	}
	var rows [][]int
	for _, cs := range sh.Cases {
		rows = append(rows, []int{cs.ID, cs.I.Outer, b2i(cs.I.Ffail)})
	}
	l, vs := lhs(c.T, true, ":=")
	body := fmt.Sprintf("\t\t\t%s%s\n\t\t\to.Ret = rt.Ints(%s)\n\t\t\to.Err = rt.PrErr(err)\n", l, call, strings.Join(prArgs(vs, ks, kinds), ", "))
	b.WriteString(runLoop(rows, "\t\touter, ffail = cs[1], cs[2] == 1\n", body, "\t\to.Calls = rt.Take()\n"))
	sh.Src = b.String()
	sh.Size = []int{c.T, kindRank(ks), b2i(c.Form == "tuple")}
}

// ---- list cases (traverse, fmap): per-case token tables ---------------------------
func listTable(sh *Shape, withFail bool) string {
	var b strings.Builder
	b.WriteString("type tcase struct {\n\tid    int\n\tnilIn bool\n\tfail  int\n\telems, outs, parts, errs []int\n}\n\n")
	b.WriteString("var cases = []tcase{\n")
	for _, cs := range sh.Cases {
		var in SlIn
		if cs.Fam != "fmapstr" {
			mustUnmarshal(cs.C.Input, &in)
		}
		elems := cs.C.Elems
		if cs.Fam == "fmapstr" {
			var bs []int
			mustUnmarshal(cs.C.Input, &bs)
			elems = bs // for strings: the bytes of the input
		}
		fmt.Fprintf(&b, "\t{%d, %v, %d, %s, %s, %s, %s},\n", cs.ID, in.Nil, cs.I.Fail, goInts(elems), goInts(cs.C.Outs), goInts(cs.C.Parts), goInts(cs.C.Errs))
	}
	b.WriteString("}\n\nvar cur *tcase\nvar idx int\n\n")
	return b.String()
}

// tokAt: the token the instrumented element function hands out at call idx (99 when called too often).
const tokAtSrc = `func tokAt(xs []int) int {
	if idx >= 1 && idx <= len(xs) {
		return xs[idx-1]
	}
	return 99
}

`

func genTraverse(sh *Shape) {
	c := sh.Cases[0].C
	ka, kb := kinds[c.K1[0]], kinds[c.K1[1]]
	var b strings.Builder
	b.WriteString(header(sh.Pkg))
	b.WriteString(listTable(sh, true))
	b.WriteString(tokAtSrc)
	fmt.Fprintf(&b, "func f1(x0 %s) (%s, error) {\n\ti := rt.Enter(1, %s(x0))\n\tidx++\n", ka.typ, kb.typ, ka.pr)
	fmt.Fprintf(&b, "\tif cur.fail == idx {\n\t\trt.Exit(i, tokAt(cur.errs), tokAt(cur.parts))\n\t\treturn %s(tokAt(cur.parts)), rt.MkErr(tokAt(cur.errs))\n\t}\n", kb.mk)
	fmt.Fprintf(&b, "\trt.Exit(i, 0, tokAt(cur.outs))\n\treturn %s(tokAt(cur.outs)), nil\n}\n\n", kb.mk)
	pre := "\t\tcur, idx = &cases[ci], 0\n"
	pre += fmt.Sprintf("\t\tvar list []%s\n\t\tif !cs.nilIn {\n\t\t\tlist = make([]%s, 0, len(cs.elems))\n\t\t}\n\t\tfor _, e := range cs.elems {\n\t\t\tlist = append(list, %s(e))\n\t\t}\n", ka.typ, ka.typ, ka.mk)
	body := "\t\t\tres, err := deriveTraverse(f1, list)\n\t\t\to.Out.Nil = res == nil\n"
	body += fmt.Sprintf("\t\t\tfor _, r := range res {\n\t\t\t\to.Out.Es = append(o.Out.Es, %s(r))\n\t\t\t}\n\t\t\to.Err = rt.PrErr(err)\n", kb.pr)
	b.WriteString(runLoopT("cs.id", pre, body, "\t\to.Calls = rt.Take()\n"))
	sh.Src = b.String()
	sh.Call = fmt.Sprintf("deriveTraverse(func(%s) (%s, error), []%s)", ka.typ, kb.typ, ka.typ)
	sh.Size = []int{kindRank(c.K1)}
}

// ---- parameter naming variants ------------------------------------------------------
// names per parameter: n ordinary, b blank, f / e / p: names the templates use themselves
func paramNames(nm Naming) []string { return paramNamesFor(nm, false) }

// paramNamesFor: uncurry = position 0 is the outer function's parameter (blank -> param_0), positions 1.. are the
// returned function's parameters (blank at inner index k -> innerParam_k).
func paramNamesFor(nm Naming, uncurry bool) []string {
	minted := func(j int) string { // the name the blank-renaming mints for position j
		if uncurry && j >= 1 {
			return fmt.Sprintf("innerParam_%d", j-1)
		}
		return fmt.Sprintf("param_%d", j)
	}
	out := make([]string, len(nm.V))
	for i, v := range nm.V {
		switch v {
		case "n":
			out[i] = fmt.Sprintf("a%d", i)
		case "b":
			out[i] = "_"
		case "f":
			out[i] = "f"
		case "e":
			out[i] = "err"
		case "p": // equals the minted name of the nearest later blank, else merely carries the prefix
			out[i] = "param_7"
			if uncurry && i >= 1 {
				out[i] = "innerParam_7"
			}
			for j := i + 1; j < len(nm.V); j++ {
				if nm.V[j] == "b" {
					out[i] = minted(j)
					break
				}
			}
		case "q": // equals the minted name of the nearest earlier blank
			for j := i - 1; j >= 0; j-- {
				if nm.V[j] == "b" {
					out[i] = minted(j)
					break
				}
			}
		case "u":
			out[i] = ""
		}
	}
	if nm.Style == "same" && len(out) >= 2 {
		out[1] = out[0] // uncurry: inner function's first parameter named like the outer parameter
	}
	return out
}

func namedParams(names, types []string) string {
	ps := make([]string, len(types))
	for i := range types {
		ps[i] = strings.TrimSpace(names[i] + " " + types[i])
	}
	return strings.Join(ps, ", ")
}

func namingRank(nm Naming) int {
	r := 0
	if nm.Style == "same" {
		r = 2
	}
	for _, v := range nm.V {
		switch v {
		case "n":
		case "u":
			r += 1
		case "b":
			r += 2
		default:
			r += 3
		}
	}
	return r
}

// ---- C16 toerror -------------------------------------------------------------------
func genToError(sh *Shape) {
	c := sh.Cases[0].C
	kp, kr := c.K2[0], c.K2[1]
	pt, rtys := typeList(kp, kinds), append(typeList(kr, kinds), "bool")
	var b strings.Builder
	b.WriteString(header(sh.Pkg))
	b.WriteString("var ok bool\n\n")
	fmt.Fprintf(&b, "func fimpl(%s)%s {\n", paramDecl(xs(len(kp)), pt), results(rtys))
	b.WriteString(enterLine(1, kp, kinds))
	fmt.Fprintf(&b, "\tif ok {\n\t\trt.Exit(i, 0, %s)\n\t} else {\n\t\trt.Exit(i, 0, %s)\n\t}\n", itoas(append(append([]int{}, c.Res...), 1)), itoas(append(append([]int{}, c.Res...), 0)))
	b.WriteString(retLine(append(mkVals(c.Res, kr, kinds), "ok")))
	b.WriteString("}\n\n")
	ftype := "func(" + namedParams(paramNames(c.Naming), pt) + ")" + results(rtys)
	fmt.Fprintf(&b, "var fv %s = fimpl\n\n", ftype)
	var rows [][]int
	for _, cs := range sh.Cases {
		rows = append(rows, []int{cs.ID, b2i(cs.I.Ok)})
	}
	l, vs := lhs(c.R, true, ":=")
	body := fmt.Sprintf("\t\t\t%sderiveToError(rt.MkErr(%d), fv)(%s)\n\t\t\to.Ret = rt.Ints(%s)\n\t\t\to.Err = rt.PrErr(err)\n",
		l, c.Errtok, strings.Join(mkVals(c.Args, kp, kinds), ", "), strings.Join(prArgs(vs, kr, kinds), ", "))
	b.WriteString(runLoop(rows, "\t\tok = cs[1] == 1\n", body, "\t\to.Calls = rt.Take()\n"))
	sh.Src = b.String()
	sh.Call = "deriveToError(error, " + ftype + ")"
	sh.Size = []int{namingRank(c.Naming), c.P + c.R, kindRank(kp) + kindRank(kr)}
}
