package engf

import (
	"fmt"
	"sort"
	"strings"
	"time"

	"verif/harness/internal/core"
	"verif/harness/internal/gd"
)

func init() {
	core.Register("C15", checkC15)
	core.Register("C16", checkC16)
	core.Register("C17", checkC17)
	core.Register("C18", checkC18)
}

// shapeKey: the part of a case that determines the generated package.
func shapeKey(cs *Case) string {
	switch cs.Fam {
	case "traverse", "fmap", "fmapstr", "join":
		return cs.Fam + "|" + string(cs.C.Kinds)
	case "joinstr":
		return cs.Fam
	case "mem": // the dependency function of a re-entrant f is a run-time input
		return fmt.Sprintf("mem|%d|%d|%d|%s", cs.C.P, cs.C.R, cs.C.Rot, cs.C.Kinds)
	}
	return cs.Fam + "|" + string(cs.CfgRaw)
}

func makeShapes(cases []*Case) ([]*Shape, error) {
	byKey := map[string]*Shape{}
	var shapes []*Shape
	for _, cs := range cases {
		k := shapeKey(cs)
		sh := byKey[k]
		if sh == nil {
			sh = &Shape{Key: k, Fam: cs.Fam, Pkg: fmt.Sprintf("c%05d", len(shapes))}
			byKey[k] = sh
			shapes = append(shapes, sh)
		}
		sh.Cases = append(sh.Cases, cs)
	}
	for _, sh := range shapes {
		switch sh.Fam {
		case "compose", "fmaperr":
			genChain(sh)
		case "joinerr":
			genJoinErr(sh)
		case "traverse":
			genTraverse(sh)
		case "toerror":
			genToError(sh)
		case "plumb":
			genPlumb(sh)
		case "fmap", "fmapstr":
			genFmap(sh)
		case "join", "joinstr":
			genJoin(sh)
		case "mem":
			genMem(sh)
		default:
			return nil, fmt.Errorf("no generator for family %q", sh.Fam)
		}
		sh.Call = strings.Join(strings.Fields(sh.Call), " ")
		// shapes of the seed- and tier-independent core come first when a minimal witness is chosen
		sh.Size = append([]int{1 - b2i(isCore(sh))}, sh.Size...)
	}
	return shapes, nil
}

func lessInts(a, b []int) int {
	for i := 0; i < len(a) && i < len(b); i++ {
		if a[i] != b[i] {
			if a[i] < b[i] {
				return -1
			}
			return 1
		}
	}
	return len(a) - len(b)
}

// candidate is one rejected observation, described for grouping and minimisation.
type candidate struct {
	group   string // family + clause (+ compiler error): one defect class
	size    []int
	witness string
	detail  string
	replay  map[string]interface{}
}

func (a *candidate) less(b *candidate) bool {
	if d := lessInts(a.size, b.size); d != 0 {
		return d < 0
	}
	return a.witness < b.witness
}

type engineResult struct {
	mc      *mcStats
	shapes  []*Shape
	cases   []*Case
	obs     map[int]*RawObs
	val     *valStats
	runs    int
	rejRuns int
}

// runEngine is the whole pipeline of one check: model-check and export (TLC),
// concretise, run the real goderive and the real generated code, validate (TLC),
// group the rejected observations by defect class and report the smallest of each.
func runEngine(c *core.Ctx, runs []famRun) (*engineResult, error) {
	t0 := time.Now()
	phase := func(name string) {
		c.Set("wall_"+name+"_s", float64(int(time.Since(t0).Seconds()*10))/10)
		t0 = time.Now()
	}
	bin, err := gd.Build(c)
	if err != nil {
		return nil, err
	}
	phase("build_goderive")
	cases, mc, err := runMC(c, runs)
	if err != nil {
		return nil, err
	}
	phase("tlc_model_checking")
	shapes, err := makeShapes(cases)
	if err != nil {
		return nil, err
	}
	obs, err := runShapes(c, bin, shapes, c.Prop)
	if err != nil {
		return nil, err
	}
	phase("generate_compile_run")
	lines, nruns, err := obsLines(shapes, obs)
	if err != nil {
		return nil, err
	}
	val, err := validate(c, lines, c.Prop)
	if err != nil {
		return nil, err
	}
	phase("tlc_trace_validation")
	er := &engineResult{mc: mc, shapes: shapes, cases: cases, obs: obs, val: val, runs: nruns}
	byPkg := map[string]*Shape{}
	caseShape := map[int]*Shape{}
	byID := map[int]*Case{}
	for _, sh := range shapes {
		byPkg[sh.Pkg] = sh
		for _, cs := range sh.Cases {
			caseShape[cs.ID] = sh
			byID[cs.ID] = cs
		}
	}
	best := map[string]*candidate{}
	count := map[string]int{}
	rejected := map[string]bool{}
	for _, b := range val.Bad {
		if strings.HasPrefix(b.Why, "BINDING:") {
			return nil, fmt.Errorf("harness binding broken on %s: %s", b.ID, b.Why)
		}
		var cand *candidate
		kind, rest := b.ID[:1], b.ID[2:]
		switch kind {
		case "g":
			sh := byPkg[rest]
			cand = &candidate{group: famKey(sh) + " :: " + b.Why, size: sh.Size, witness: sh.Call + " :: " + b.Why,
				detail: fmt.Sprintf("goderive exit=%d: %s", sh.GenExit, trim(sh.GenErr, 400)),
				replay: map[string]interface{}{"source": sh.Src, "goderive_exit": sh.GenExit, "goderive_output": sh.GenErr}}
		case "c":
			sh := byPkg[rest]
			cand = &candidate{group: famKey(sh) + " :: " + b.Why + ": " + sh.CompileErr, size: sh.Size,
				witness: sh.Call + " :: " + b.Why + ": " + sh.CompileErr,
				detail:  trim(sh.CompileAll, 600),
				replay:  map[string]interface{}{"source": sh.Src, "derived": sh.Derived, "compiler": sh.CompileAll}}
		case "r":
			var id int
			fmt.Sscan(rest, &id)
			cs, sh := byID[id], caseShape[id]
			if cs == nil {
				return nil, fmt.Errorf("validator reported unknown case %q", b.ID)
			}
			rejected[b.ID] = true
			o := obs[id]
			env := caseEnv(cs, b.At)
			cand = &candidate{group: famKey(sh) + " :: " + b.Why, size: append(append([]int{}, sh.Size...), caseSize(cs, b.At)...),
				witness: strings.TrimSpace(sh.Call+" "+env) + " :: " + b.Why,
				detail:  fmt.Sprintf("observed %s; expected (one behaviour of the specification) %s", mustJSON(history(cs.Fam, cs.C.Src, o)), string(cs.ExpRaw)) + panicNote(o),
				replay: map[string]interface{}{"source": sh.Src, "derived": sh.Derived, "case": map[string]interface{}{"cfg": cs.CfgRaw, "in": cs.InRaw},
					"observed": history(cs.Fam, cs.C.Src, o), "panic": o.Panic, "expected": cs.ExpRaw}}
		default:
			return nil, fmt.Errorf("validator reported unknown line id %q", b.ID)
		}
		count[cand.group]++
		if cur := best[cand.group]; cur == nil || cand.less(cur) {
			best[cand.group] = cand
		}
	}
	er.rejRuns = len(rejected)
	groups := make([]string, 0, len(best))
	for g := range best {
		groups = append(groups, g)
	}
	sort.Strings(groups)
	for _, g := range groups {
		cand := best[g]
		c.Report(cand.witness, fmt.Sprintf("%d observations rejected for this reason; smallest: %s", count[g], cand.detail), cand.replay)
	}
	return er, nil
}

// famKey: defect classes are kept apart per family, and for Plumb per plugin (curry, uncurry, flip, apply, tuple).
func famKey(sh *Shape) string {
	if sh.Fam == "plumb" {
		return "plumb/" + sh.Cases[0].C.Kind
	}
	return sh.Fam
}

func panicNote(o *RawObs) string {
	if o.Panic == "" {
		return ""
	}
	return "; panic: " + o.Panic
}
