package engf

import (
	"fmt"
	"strings"
)

func goIntss(xss [][]int) string {
	ps := make([]string, len(xss))
	for i, xs := range xss {
		ps[i] = "{" + itoas(xs) + "}"
	}
	return "[][]int{" + strings.Join(ps, ", ") + "}"
}

// ---- C18 mem: call sequences over argument classes and representatives ----------------
func genMem(sh *Shape) {
	c := sh.Cases[0].C
	kp, kr := c.K2[0], c.K2[1]
	pt, rtys := typeList(kp, memKinds), typeList(kr, kinds)
	var b strings.Builder
	b.WriteString(header(sh.Pkg))
	fmt.Fprintf(&b, "var classArgs = %s\nvar classRes = %s\n\n", goIntss(c.A), goIntss(c.F))
	// re-entrancy: f(c) calls the memoized function on class dep[c-1] (0 = it does not); set per case
	fmt.Fprintf(&b, "var dep [3]int\nvar memf %s\n\n", funcType(pt, rtys))
	b.WriteString("func classOf(a ...int) int {\n\tfor c, as := range classArgs {\n\t\tsame := len(as) == len(a)\n\t\tfor i := range a {\n\t\t\tif same && as[i] != a[i] {\n\t\t\t\tsame = false\n\t\t\t}\n\t\t}\n\t\tif same {\n\t\t\treturn c\n\t\t}\n\t}\n\treturn -1\n}\n\n")
	// the memoized function: deterministic, its results depend on the class of its arguments only
	fmt.Fprintf(&b, "func fimpl(%s)%s {\n", paramDecl(xs(len(kp)), pt), results(rtys))
	pr := strings.Join(prArgs(xs(len(kp)), kp, memKinds), ", ")
	fmt.Fprintf(&b, "\ti := rt.Enter(%s)\n", strings.Join(append([]string{"1"}, prArgs(xs(len(kp)), kp, memKinds)...), ", "))
	nargs := make([]string, len(kp))
	for j, k := range kp {
		nargs[j] = fmt.Sprintf("%s(classArgs[d-1][%d], 2)", memKinds[k].mk, j)
	}
	nl, nvs := lhs(len(kr), false, ":=")
	fmt.Fprintf(&b, "\tres := make([]int, %d)\n\tfor j := range res {\n\t\tres[j] = 99\n\t}\n\tc := classOf(%s)\n\tif c >= 0 {\n\t\tres = classRes[c]\n\t}\n\trt.Exit(i, 0, res...)\n", len(kr), pr)
	if len(kp) > 0 {
		// the nested call of the memoized function is logged as function 2: its arguments and what it returned to f
		fmt.Fprintf(&b, "\tif c >= 0 && dep[c] != 0 {\n\t\td := dep[c]\n\t\tn := rt.Enter(2, classArgs[d-1]...)\n\t\t%smemf(%s)\n\t\trt.Exit(n, 0, rt.Ints(%s)...)\n\t}\n",
			nl, strings.Join(nargs, ", "), strings.Join(prArgs(nvs, kr, kinds), ", "))
	}
	vals := make([]string, len(kr))
	for j, k := range kr {
		vals[j] = fmt.Sprintf("%s(res[%d])", kinds[k].mk, j)
	}
	b.WriteString(retLine(vals))
	b.WriteString("}\n\n")
	var rows [][]int
	for _, cs := range sh.Cases {
		r := []int{cs.ID, 0, 0, 0}
		copy(r[1:4], cs.C.Dep)
		for _, e := range cs.I.Seq {
			r = append(r, e.C, e.Rep)
		}
		rows = append(rows, r)
	}
	args := make([]string, len(kp))
	for j, k := range kp {
		args[j] = fmt.Sprintf("%s(classArgs[c-1][%d], rep)", memKinds[k].mk, j)
	}
	l, vs := lhs(len(kr), false, ":=")
	var body strings.Builder
	body.WriteString("\t\t\tm := deriveMem(fimpl)\n\t\t\tmemf = m\n\t\t\tfor s := 4; s+1 < len(cs); s += 2 {\n\t\t\t\tc, rep := cs[s], cs[s+1]\n\t\t\t\t_, _ = c, rep\n")
	fmt.Fprintf(&body, "\t\t\t\t%sm(%s)\n", l, strings.Join(args, ", "))
	fmt.Fprintf(&body, "\t\t\t\to.Steps = append(o.Steps, rt.Step{Calls: rt.Take(), Ret: rt.Ints(%s)})\n\t\t\t}\n", strings.Join(prArgs(vs, kr, kinds), ", "))
	b.WriteString(runLoop(rows, "\t\tdep = [3]int{cs[1], cs[2], cs[3]}\n", body.String(), ""))
	sh.Src = b.String()
	sh.Call = "deriveMem(" + funcType(pt, rtys) + ")"
	sh.Size = []int{len(kp) + len(kr), kindRank(kp) + kindRank(kr)}
}
