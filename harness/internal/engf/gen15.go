package engf

import (
	"encoding/json"
	"fmt"
	"strings"
)

func mustUnmarshal(raw json.RawMessage, v interface{}) {
	if err := json.Unmarshal(raw, v); err != nil {
		panic(fmt.Sprintf("cannot decode %s: %v", raw, err))
	}
}

// ---- C15 plumb: curry, uncurry, flip, apply, tuple, uncurry(curry(f)) ------------------
func genPlumb(sh *Shape) {
	c := sh.Cases[0].C
	kp, kr := c.K2[0], c.K2[1]
	pt, rtys := typeList(kp, kinds), typeList(kr, kinds)
	names := paramNamesFor(c.Naming, c.Kind == "uncurry")
	n := c.N
	var b strings.Builder
	b.WriteString(header(sh.Pkg))
	// the original function, always with ordinary names so that it can log what it receives;
	// it reaches the derive call through a variable whose TYPE carries the naming variant
	switch c.Kind {
	case "tuple":
	case "uncurry":
		inner := funcType(pt[1:], rtys)
		fmt.Fprintf(&b, "func gimpl(x0 %s) %s {\n\ti := rt.Enter(1, %s(x0))\n\trt.Exit(i, 0)\n", pt[0], inner, kinds[kp[0]].pr)
		fmt.Fprintf(&b, "\treturn func(%s)%s {\n", paramDecl(xs(n-1), pt[1:]), results(rtys))
		b.WriteString("\t" + enterLine(2, kp[1:], kinds))
		b.WriteString("\t" + exitLine(0, c.Fres))
		b.WriteString("\t" + retLine(mkVals(c.Fres, kr, kinds)))
		b.WriteString("\t}\n}\n\n")
		gtype := "func(" + namedParams(names[:1], pt[:1]) + ") func(" + namedParams(names[1:], pt[1:]) + ")" + results(rtys)
		fmt.Fprintf(&b, "var gv %s = gimpl\n\n", gtype)
		sh.Call = "deriveUncurry(" + gtype + ")"
	default:
		fmt.Fprintf(&b, "func fimpl(%s)%s {\n", paramDecl(xs(n), pt), results(rtys))
		b.WriteString(enterLine(1, kp, kinds))
		b.WriteString(exitLine(0, c.Fres))
		b.WriteString(retLine(mkVals(c.Fres, kr, kinds)))
		b.WriteString("}\n\n")
		ftype := "func(" + namedParams(names, pt) + ")" + results(rtys)
		fmt.Fprintf(&b, "var fv %s = fimpl\n\n", ftype)
		switch c.Kind {
		case "curry":
			sh.Call = "deriveCurry(" + ftype + ")"
		case "flip":
			sh.Call = "deriveFlip(" + ftype + ")"
		case "apply":
			sh.Call = "deriveApply(" + ftype + ", " + pt[n-1] + ")"
		case "unccur":
			sh.Call = "deriveUncurry(deriveCurry(" + ftype + "))"
		}
	}
	// the test's argument values, in the order it supplies them (cfg.wargs), with their kinds
	wk := append([]string{}, kp...)
	switch c.Kind {
	case "flip":
		wk[0], wk[1] = kp[1], kp[0]
	case "apply":
		wk = append([]string{kp[n-1]}, kp[:n-1]...)
	}
	av := mkVals(c.Wargs, wk, kinds)
	// wexpr: the function the wrapper returns (for curry: already applied to the first argument);
	// final: the arguments of the call that must invoke the original function
	var wexpr, final string
	switch c.Kind {
	case "curry":
		wexpr, final = fmt.Sprintf("deriveCurry(fv)(%s)", av[0]), strings.Join(av[1:], ", ")
	case "flip":
		wexpr, final = "deriveFlip(fv)", strings.Join(av, ", ")
	case "apply":
		wexpr, final = fmt.Sprintf("deriveApply(fv, %s)", av[0]), strings.Join(av[1:], ", ")
	case "uncurry":
		wexpr, final = "deriveUncurry(gv)", strings.Join(av, ", ")
	case "unccur":
		wexpr, final = "deriveUncurry(deriveCurry(fv))", strings.Join(av, ", ")
	case "tuple":
		wexpr, final = fmt.Sprintf("deriveTuple(%s)", strings.Join(av, ", ")), ""
		sh.Call = "deriveTuple(" + strings.Join(pt, ", ") + ")"
	}
	var rows [][]int
	for _, cs := range sh.Cases {
		rows = append(rows, []int{cs.ID})
	}
	l, vs := lhs(len(kr), false, ":=")
	// nothing may be logged before the returned function is called
	body := fmt.Sprintf("\t\t\tw := %s\n\t\t\to.Early = len(rt.Peek())\n\t\t\t%sw(%s)\n\t\t\to.Ret = rt.Ints(%s)\n", wexpr, l, final, strings.Join(prArgs(vs, kr, kinds), ", "))
	b.WriteString(runLoop(rows, "", body, "\t\to.Calls = rt.Take()\n"))
	sh.Src = b.String()
	kindOrder := map[string]int{"curry": 0, "uncurry": 1, "flip": 2, "apply": 3, "tuple": 4, "unccur": 5}
	sh.Size = []int{namingRank(c.Naming), n + len(kr), kindRank(kp) + kindRank(kr), kindOrder[c.Kind]}
}
