package engf

import (
	"fmt"
	"strings"

	"verif/harness/internal/core"
)

// evidence records what the run covered (all counts measured on this run).
func evidence(c *core.Ctx, er *engineResult, rule string, nontrivial func(*Case) bool) {
	compiled, notCompiled, genFailed := 0, 0, 0
	for _, sh := range er.shapes {
		switch {
		case sh.GenExit != 0 || sh.TimedOut:
			genFailed++
		case sh.CompileOK:
			compiled++
		default:
			notCompiled++
		}
	}
	nt := 0
	for _, cs := range er.cases {
		if nontrivial(cs) {
			nt++
		}
	}
	c.Set("states", er.mc.States)
	c.Set("transitions", er.mc.Trans)
	c.Set("behaviours_exported_by_tlc", er.mc.Exported)
	c.Set("cases_per_family", er.mc.PerFam)
	c.Set("evaluations", len(er.cases))
	c.Set("distinct_nontrivial", nt)
	c.Set("rule", rule)
	c.Set("generated_packages", len(er.shapes))
	c.Set("packages_compiled", compiled)
	c.Set("packages_not_compiling", notCompiled)
	c.Set("packages_goderive_failed", genFailed)
	c.Set("cases_executed", er.runs)
	c.Set("observation_lines", er.val.Lines)
	c.Set("traces_validated_against_impl", er.runs-er.rejRuns)
	c.Set("observations_rejected", len(er.val.Bad))
	c.Set("trace_validation_states", er.val.States)
	c.Set("exhaustive", true)
	for i := 0; i < 4 && len(er.cases) > 0; i++ {
		cs := er.cases[(i*7919+int(c.Seed)*131)%len(er.cases)]
		s := map[string]interface{}{"family": cs.Fam, "cfg": cs.CfgRaw, "in": cs.InRaw}
		if o := er.obs[cs.ID]; o != nil {
			s["observed"] = history(cs.Fam, cs.C.Src, o)
		} else {
			s["observed"] = "package did not compile"
		}
		c.Sample(s)
	}
	c.Assume("TLC; the Go compiler; the projection of Go values to tokens in the generated module's package rt (zero value -> 0, harness token -> k, anything else -> negative)")
	c.Assume("instrumented user functions are deterministic and log their own arguments and results; FunTrace re-checks that they did what the case prescribes (BINDING)")
}

func tierConsts(c *core.Ctx, quick, thorough map[string]string) map[string]string {
	if c.Quick() {
		return quick
	}
	return thorough
}

// rotSet renders a TLC set of kind rotations (100+k = all values of kind k+1).
func rotSet(rs ...int) string {
	seen := map[int]bool{}
	var ps []string
	for _, r := range rs {
		if !seen[r] {
			seen[r] = true
			ps = append(ps, fmt.Sprint(r))
		}
	}
	return "{" + strings.Join(ps, ", ") + "}"
}

var allRots = []int{0, 1, 2, 3, 4, 5, 6, 7, 8, 9}
var allRots100 = append(append([]int{}, allRots...), 100)

// coreRots: the kind rotations every tier and every seed explores, per family
// (compose: per number of stages). Minimal witnesses are chosen among core shapes
// first, so that what the seed or the thorough tier adds never changes a witness string.
var coreRots = map[string][]int{
	"compose2": allRots100, "compose3": {0, 5}, "compose4": {},
	"fmaperr": allRots100, "joinerr": allRots100, "traverse": allRots100,
	"toerror": {0, 3, 6, 100},
	"plumb":   {0, 100, 200},
	"fmap":    allRots100, "fmapstr": {0, 4}, "join": {0, 4, 7},
	"mem": {0, 1, 2, 3, 4, 5, 6, 7, 8, 9, 10, 11, 12, 13},
}

func rotsOf(key string, extra ...int) string {
	return rotSet(append(append([]int{}, coreRots[key]...), extra...)...)
}

// isCore reports whether a shape belongs to the seed- and tier-independent core.
func isCore(sh *Shape) bool {
	if sh.Fam == "joinstr" {
		return true
	}
	key := sh.Fam
	if key == "compose" {
		key = fmt.Sprintf("compose%d", sh.Cases[0].C.N)
	}
	for _, r := range coreRots[key] {
		if r == sh.Cases[0].C.Rot {
			return true
		}
	}
	return false
}

func checkC16(c *core.Ctx) error {
	all := rotSet(allRots100...)
	sr := int(c.Seed % 10) // the seed widens the exploration beyond the fixed core; it never shrinks the core
	runs := []famRun{
		{"compose", tierConsts(c,
			map[string]string{"MaxN": "4", "Rots2": rotsOf("compose2"), "Rots3": rotsOf("compose3", sr), "Rots4": rotsOf("compose4", (sr+3)%10)},
			map[string]string{"MaxN": "4", "Rots2": rotsOf("compose2"), "Rots3": all, "Rots4": rotsOf("compose4", 0, 3, 6, 100, sr)})},
		{"fmaperr", map[string]string{"Rots": all}},
		{"joinerr", map[string]string{"Rots": all}},
		{"traverse", tierConsts(c, map[string]string{"Rots": all, "MaxLen": "3"}, map[string]string{"Rots": all, "MaxLen": "4"})},
		{"toerror", tierConsts(c, map[string]string{"Rots": rotsOf("toerror", sr)}, map[string]string{"Rots": all})},
	}
	er, err := runEngine(c, runs)
	if err != nil {
		return err
	}
	evidence(c, er, "TLC enumerates every configuration of each family (compose: 2..4 stages x boundary arities 0..3 x kind rotation; fmap/join error forms: result counts x kinds; traverse: lengths x failing index; toerror: params x results x parameter naming) and every behaviour of its machine (which stage fails); each is executed on the real generated code; non-trivial = some stage fails", func(cs *Case) bool {
		return cs.I.Fail != 0 || cs.I.Outer != 0 || cs.I.Ffail || (cs.Fam == "toerror" && !cs.I.Ok)
	})
	return nil
}

func checkC15(c *core.Ctx) error {
	runs := []famRun{{"plumb", tierConsts(c,
		map[string]string{"MaxParams": "4", "Rots": rotsOf("plumb", int(c.Seed%10))},
		map[string]string{"MaxParams": "5", "Rots": rotsOf("plumb", 4, 101, 201, int(c.Seed%10))})}}
	er, err := runEngine(c, runs)
	if err != nil {
		return err
	}
	evidence(c, er, "TLC enumerates curry/uncurry/flip/apply/tuple/uncurry-of-curry x parameter count x result count 0..3 x parameter naming (named, blank, unnamed, template names) x kind rotation; non-trivial = at least 3 parameters or a naming variant other than plain names", func(cs *Case) bool {
		return cs.C.N >= 3 || namingRank(cs.C.Naming) > 0
	})
	return nil
}

func checkC17(c *core.Ctx) error {
	all := rotSet(allRots100...)
	sr := int(c.Seed % 10)
	runs := []famRun{
		{"fmap", tierConsts(c, map[string]string{"Rots": all, "MaxLen": "3"}, map[string]string{"Rots": all, "MaxLen": "4"})},
		{"fmapstr", tierConsts(c, map[string]string{"Rots": rotsOf("fmapstr", sr), "MaxLen": "3"}, map[string]string{"Rots": rotsOf("fmapstr", 7, sr), "MaxLen": "4"})},
		{"join", tierConsts(c, map[string]string{"Rots": rotsOf("join", sr), "MaxOuter": "2", "MaxOuterLen": "4", "LenRots": "{0, 6}"}, map[string]string{"Rots": all, "MaxOuter": "3", "MaxOuterLen": "4", "LenRots": rotSet(0, 6, 4, sr)})},
		{"joinstr", tierConsts(c, map[string]string{"MaxOuter": "2"}, map[string]string{"MaxOuter": "3"})},
	}
	er, err := runEngine(c, runs)
	if err != nil {
		return err
	}
	evidence(c, er, "TLC enumerates lists of every length up to the bound (nil vs empty), strings as all sequences of byte groups (1-4 byte runes, invalid bytes), lists of lists with nil/empty/spare-capacity inner lists; non-trivial = at least two elements / groups / inner lists", func(cs *Case) bool {
		if cs.Fam == "join" || cs.Fam == "joinstr" {
			var in ListsIn
			mustUnmarshal(cs.C.Input, &in)
			return len(in.Ls) >= 2
		}
		return len(cs.C.Elems) >= 2
	})
	return nil
}

func checkC18(c *core.Ctx) error {
	runs := []famRun{{"mem", tierConsts(c,
		map[string]string{"MaxSeq": "3", "MaxSeqDep": "2", "MemDeps": "\"few\"", "MemRots": rotsOf("mem")},
		map[string]string{"MaxSeq": "4", "MaxSeqDep": "2", "MemDeps": "\"all\"", "MemRots": rotsOf("mem")})}}
	er, err := runEngine(c, runs)
	if err != nil {
		return err
	}
	evidence(c, er, "TLC enumerates signatures (0..3 parameters x 0..3 results x parameter kind rotation over comparable and non-comparable kinds) and ALL call sequences of the bound length over 3 argument classes x 2 representatives (hash-colliding contents, string- and integer-valued) x dependency functions of a re-entrant f (f(c) calls the memoized function on dep(c), nesting depth <= 2); non-trivial = the sequence repeats a class or f re-enters", func(cs *Case) bool {
		for _, d := range cs.C.Dep {
			if d != 0 {
				return true
			}
		}
		seen := map[int]bool{}
		for _, e := range cs.I.Seq {
			if seen[e.C] {
				return true
			}
			seen[e.C] = true
		}
		return false
	})
	return nil
}
