package engf

import (
	"fmt"
	"path/filepath"
	"sort"
	"strings"
	"sync"
	"time"

	"verif/harness/internal/core"
	"verif/harness/internal/tlc"
)

// famRun is one TLC model-checking run of FunMC: a family and its bounds.
type famRun struct {
	Fam    string
	Consts map[string]string // overrides of the default bounds
}

var defaultConsts = map[string]string{
	"MaxN": "2", "MaxAr": "3", "Rots2": "{0}", "Rots3": "{0}", "Rots4": "{0}", "Rots": "{0}",
	"MaxLen": "2", "MaxParams": "3", "MaxOuter": "2", "MaxOuterLen": "0", "LenRots": "{}", "MaxSeq": "2", "MaxSeqDep": "2", "MemDeps": "\"none\"", "MemRots": "{0}",
}

const mcInvariants = "ClausesHold Replayable NoCallAfterFailure StagesInOrderOnce ErrorOnlyFromFailure MemInvariants PlumbInvariants StringInvariants Export"

func mcConfig(fr famRun) string {
	var b strings.Builder
	b.WriteString("SPECIFICATION Spec\nCONSTANTS\n")
	fmt.Fprintf(&b, "  Fam = \"%s\"\n", fr.Fam)
	keys := make([]string, 0, len(defaultConsts))
	for k := range defaultConsts {
		keys = append(keys, k)
	}
	sort.Strings(keys)
	for _, k := range keys {
		v := defaultConsts[k]
		if o, ok := fr.Consts[k]; ok {
			v = o
		}
		fmt.Fprintf(&b, "  %s = %s\n", k, v)
	}
	b.WriteString("INVARIANTS " + mcInvariants + "\nCHECK_DEADLOCK FALSE\n")
	return b.String()
}

type mcStats struct {
	States, Trans, Exported int
	PerFam                  map[string]int
}

// runMC model-checks FunMC for every family run (in parallel) and returns the
// exported behaviours as cases with consecutive ids, in a deterministic order.
func runMC(c *core.Ctx, runs []famRun) ([]*Case, *mcStats, error) {
	type result struct {
		path string
		res  *tlc.Result
		err  error
	}
	results := make([]result, len(runs))
	var wg sync.WaitGroup
	sem := make(chan struct{}, tlcPar())
	for i, fr := range runs {
		wg.Add(1)
		go func(i int, fr famRun) {
			defer wg.Done()
			sem <- struct{}{}
			defer func() { <-sem }()
			outp := filepath.Join(c.Work, fmt.Sprintf("mc-%s-%d.csv", fr.Fam, i))
			res, err := tlc.Run(tlc.Opts{
				SpecDirs: []string{filepath.Join(c.Verif, "spec", "fun")},
				Module:   "FunMC", Config: "run.cfg", Files: map[string]string{"run.cfg": mcConfig(fr)},
				Workers: 1, Timeout: 30 * time.Minute, HeapMB: 4000, Scratch: c.Work,
				Env: map[string]string{"VERIF_OUT": outp},
			})
			results[i] = result{outp, res, err}
		}(i, fr)
	}
	wg.Wait()
	st := &mcStats{PerFam: map[string]int{}}
	var all []*Case
	for i, r := range results {
		if r.err != nil {
			return nil, nil, fmt.Errorf("FunMC %s: %v", runs[i].Fam, r.err)
		}
		if r.res.Violation {
			// a counterexample on the model is a lead about the specification, not a verdict on the code
			return nil, nil, fmt.Errorf("the model FunMC (%s) violates its own invariants (specification needs fixing): %s", runs[i].Fam, r.res.ErrText)
		}
		st.States += r.res.Distinct
		st.Trans += r.res.Generated
		cs, n, err := readCases(r.path, len(all))
		if err != nil {
			return nil, nil, err
		}
		st.Exported += n
		st.PerFam[runs[i].Fam] += len(cs)
		all = append(all, cs...)
	}
	return all, st, nil
}
