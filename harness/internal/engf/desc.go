package engf

import (
	"encoding/json"
	"fmt"
	"strconv"
	"strings"
)

func mustJSON(v interface{}) string {
	b, err := json.Marshal(v)
	if err != nil {
		return err.Error()
	}
	return string(b)
}

func goBytes(bs []int) string {
	b := make([]byte, len(bs))
	for i, x := range bs {
		b[i] = byte(x)
	}
	return strconv.QuoteToASCII(string(b))
}

func seqDesc(seq []SeqEl) string {
	ss := make([]string, len(seq))
	for i, e := range seq {
		ss[i] = fmt.Sprintf("c%dr%d", e.C, e.Rep)
	}
	return strings.Join(ss, " ")
}

// caseEnv describes the runtime part of a case (environment choices, input
// values) for the witness string; at is the failing step of a Mem history.
func caseEnv(cs *Case, at int) string {
	switch cs.Fam {
	case "compose", "fmaperr":
		if cs.I.Fail == 0 {
			return "[no stage fails]"
		}
		return fmt.Sprintf("[stage %d fails]", cs.I.Fail)
	case "joinerr":
		e, f := "err=nil", "f succeeds"
		if cs.I.Outer != 0 {
			e = "err!=nil"
		}
		if cs.I.Ffail {
			f = "f fails"
		}
		return "[" + e + ", " + f + "]"
	case "traverse":
		var in SlIn
		json.Unmarshal(cs.C.Input, &in)
		l := fmt.Sprintf("len=%d", cs.C.Len)
		if in.Nil {
			l = "nil list"
		}
		if cs.I.Fail == 0 {
			return "[" + l + ", no element fails]"
		}
		return fmt.Sprintf("[%s, element %d fails]", l, cs.I.Fail)
	case "toerror":
		if cs.I.Ok {
			return "[f reports true]"
		}
		return "[f reports false]"
	case "fmap":
		var in SlIn
		json.Unmarshal(cs.C.Input, &in)
		if in.Nil {
			return "[nil list]"
		}
		return fmt.Sprintf("[len=%d]", cs.C.Len)
	case "fmapstr":
		var bs []int
		json.Unmarshal(cs.C.Input, &bs)
		return "[" + goBytes(bs) + "]"
	case "join":
		var in ListsIn
		json.Unmarshal(cs.C.Input, &in)
		if in.Nil {
			return "[nil]"
		}
		parts := make([]string, len(in.Ls))
		for i, raw := range in.Ls {
			var l InnerIn
			json.Unmarshal(raw, &l)
			switch {
			case l.Nil:
				parts[i] = "nil"
			default:
				parts[i] = fmt.Sprintf("len=%d cap=%d", len(l.Es), len(l.Es)+len(l.Spare))
			}
		}
		return "[{" + strings.Join(parts, "}, {") + "}]"
	case "joinstr":
		var in ListsIn
		json.Unmarshal(cs.C.Input, &in)
		if in.Nil {
			return "[nil]"
		}
		parts := make([]string, len(in.Ls))
		for i, raw := range in.Ls {
			var bs []int
			json.Unmarshal(raw, &bs)
			parts[i] = goBytes(bs)
		}
		return "[" + strings.Join(parts, ", ") + "]"
	case "mem":
		seq := cs.I.Seq
		if at > 0 && at <= len(seq) {
			seq = seq[:at]
		}
		d := ""
		for c, x := range cs.C.Dep {
			if x != 0 {
				d += fmt.Sprintf(" f(c%d) calls the memoized function on c%d;", c+1, x)
			}
		}
		return "[" + strings.TrimSpace(d+" calls: "+seqDesc(seq)) + "]"
	}
	return ""
}

// caseSize orders the cases of one shape: smaller = simpler.
func caseSize(cs *Case, at int) []int {
	switch cs.Fam {
	case "compose", "fmaperr", "traverse":
		return []int{len(cs.C.Elems), cs.I.Fail}
	case "joinerr":
		a, b := 0, 0
		if cs.I.Outer != 0 {
			a = 1
		}
		if cs.I.Ffail {
			b = 1
		}
		return []int{a + b, a}
	case "toerror":
		if cs.I.Ok {
			return []int{0}
		}
		return []int{1}
	case "fmap", "fmapstr":
		return []int{len(cs.C.Elems), len(cs.C.Input)}
	case "join", "joinstr":
		return []int{len(cs.C.Input)}
	case "mem":
		n := len(cs.I.Seq)
		if at > 0 && at <= n {
			n = at
		}
		code := 0
		for i := 0; i < n; i++ {
			code = code*8 + cs.I.Seq[i].C*2 + cs.I.Seq[i].Rep
		}
		nd := 0
		for _, x := range cs.C.Dep {
			if x != 0 {
				nd++
			}
		}
		return []int{nd, n, code}
	}
	return nil
}
