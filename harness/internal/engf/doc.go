// Package engf is engine F: call-history state machines of the functional helpers (spec/fun).
package engf
