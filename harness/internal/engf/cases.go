package engf

import (
	"bufio"
	"encoding/json"
	"fmt"
	"os"
	"sort"
	"strings"
)

// Stage is one stage of a chain (compose, fmap error form).
type Stage struct {
	Res     []int `json:"res"`
	Part    []int `json:"part"`
	Err     int   `json:"err"`
	Canfail bool  `json:"canfail"`
}

type Naming struct {
	Style string   `json:"style"` // named | unnamed
	V     []string `json:"v"`     // per parameter: n, b, f, p, u
}

// Cfg is the union of the configuration records FunMC exports.
type Cfg struct {
	N      int             `json:"n"`
	Ar     []int           `json:"ar"`
	Rot    int             `json:"rot"`
	Kinds  json.RawMessage `json:"kinds"`
	Args   []int           `json:"args"`
	Stages []Stage         `json:"stages"`
	Nres   int             `json:"nres"`
	Thunk  bool            `json:"thunk"`
	R      int             `json:"r"`
	T      int             `json:"t"`
	Form   string          `json:"form"`
	Fres   []int           `json:"fres"`
	Fpart  []int           `json:"fpart"`
	Ferr   int             `json:"ferr"`
	Len    int             `json:"len"`
	Elems  []int           `json:"elems"`
	Outs   []int           `json:"outs"`
	Parts  []int           `json:"parts"`
	Errs   []int           `json:"errs"`
	Input  json.RawMessage `json:"input"`
	P      int             `json:"p"`
	Naming Naming          `json:"naming"`
	Res    []int           `json:"res"`
	Errtok int             `json:"errtok"`
	Kind   string          `json:"kind"`
	Wargs  []int           `json:"wargs"`
	Src    string          `json:"src"`
	Groups json.RawMessage `json:"groups"`
	Str    bool            `json:"str"`
	Dep    []int           `json:"dep"`
	A      [][]int         `json:"A"`
	F      [][]int         `json:"F"`

	K2 [][]string `json:"-"` // kinds as a list of lists (most families)
	K1 []string   `json:"-"` // kinds as a flat list (joinerr, traverse, fmap, join)
}

type SeqEl struct {
	C   int `json:"c"`
	Rep int `json:"rep"`
}

type In struct {
	Fail  int     `json:"fail"`
	Outer int     `json:"outer"`
	Ffail bool    `json:"ffail"`
	Ok    bool    `json:"ok"`
	Seq   []SeqEl `json:"seq"`
}

type SlIn struct {
	Nil bool  `json:"nil"`
	Es  []int `json:"es"`
}
type InnerIn struct {
	Nil   bool  `json:"nil"`
	Es    []int `json:"es"`
	Spare []int `json:"spare"`
}
type ListsIn struct {
	Nil bool              `json:"nil"`
	Ls  []json.RawMessage `json:"ls"`
}

// Case is one behaviour exported by TLC: configuration, environment choices, expected history.
type Case struct {
	ID     int
	Fam    string
	CfgRaw json.RawMessage
	InRaw  json.RawMessage
	ExpRaw json.RawMessage
	C      Cfg
	I      In
}

type exportLine struct {
	Fam string          `json:"fam"`
	Cfg json.RawMessage `json:"cfg"`
	In  json.RawMessage `json:"in"`
	Exp json.RawMessage `json:"exp"`
}

// readCases parses the CSVWrite'd export (each line a JSON string holding JSON)
// and drops duplicates of the same test input (behaviours that differ only where
// the specification allows several outcomes).
func readCases(path string, firstID int) ([]*Case, int, error) {
	f, err := os.Open(path)
	if err != nil {
		return nil, 0, err
	}
	defer f.Close()
	var out []*Case
	seen := map[string]bool{}
	n := 0
	sc := bufio.NewScanner(f)
	sc.Buffer(make([]byte, 1<<20), 1<<26)
	for sc.Scan() {
		line := strings.TrimSpace(sc.Text())
		if line == "" {
			continue
		}
		n++
		var inner string
		if err := json.Unmarshal([]byte(line), &inner); err != nil {
			return nil, 0, fmt.Errorf("export line: %v", err)
		}
		var e exportLine
		if err := json.Unmarshal([]byte(inner), &e); err != nil {
			return nil, 0, fmt.Errorf("export record: %v", err)
		}
		key := string(e.Cfg) + "|" + string(e.In)
		if seen[key] {
			continue
		}
		seen[key] = true
		c := &Case{ID: firstID + len(out), Fam: e.Fam, CfgRaw: e.Cfg, InRaw: e.In, ExpRaw: e.Exp}
		if err := json.Unmarshal(e.Cfg, &c.C); err != nil {
			return nil, 0, fmt.Errorf("cfg of %s: %v", e.Fam, err)
		}
		if err := json.Unmarshal(e.In, &c.I); err != nil {
			return nil, 0, fmt.Errorf("in of %s: %v", e.Fam, err)
		}
		if len(c.C.Kinds) > 0 {
			if json.Unmarshal(c.C.Kinds, &c.C.K2) != nil {
				c.C.K2 = nil
				if err := json.Unmarshal(c.C.Kinds, &c.C.K1); err != nil {
					return nil, 0, fmt.Errorf("kinds of %s: %s", e.Fam, c.C.Kinds)
				}
			} else if len(c.C.K2) == 0 {
				c.C.K1 = []string{}
			}
		}
		out = append(out, c)
	}
	// deterministic ids whatever order TLC explored the states in
	sort.SliceStable(out, func(i, j int) bool {
		return string(out[i].CfgRaw)+"|"+string(out[i].InRaw) < string(out[j].CfgRaw)+"|"+string(out[j].InRaw)
	})
	for i, c := range out {
		c.ID = firstID + i
	}
	return out, n, sc.Err()
}

// ---- kinds -------------------------------------------------------------------
type kindInfo struct {
	typ  string // Go type text inside a generated package
	mk   string // rt function: token -> value
	pr   string // rt function: value -> projection
	rank int    // complexity, for minimal witnesses
}

var kinds = map[string]kindInfo{
	"int":  {"int", "rt.MkInt", "rt.PrInt", 0},
	"str":  {"string", "rt.MkStr", "rt.PrStr", 1},
	"bool": {"bool", "rt.MkBool", "rt.PrBool", 2},
	"nint": {"rt.NInt", "rt.MkNInt", "rt.PrNInt", 3},
	"st":   {"rt.St", "rt.MkSt", "rt.PrSt", 4},
	"ar":   {"rt.Ar", "rt.MkAr", "rt.PrAr", 5},
	"pt":   {"*rt.St", "rt.MkPt", "rt.PrPt", 6},
	"sl":   {"[]int", "rt.MkSl", "rt.PrSl", 7},
	"mp":   {"map[string]int", "rt.MkMp", "rt.PrMp", 8},
	"if":   {"rt.If", "rt.MkIf", "rt.PrIf", 9},
	"rune": {"rune", "rt.MkRune", "rt.PrRune", 0},
	"tg":   {"struct {\n\tA int `layout:\"%5d %s %%\"`\n}", "rt.MkTg", "rt.PrTg", 10},
	"uni":  {"rt.Ünï", "rt.MkUni", "rt.PrUni", 10},
	"fn":   {"func(int) int", "rt.MkFn", "rt.PrFn", 10},
}

// Mem parameters: content-based classes with two representatives.
var memKinds = map[string]kindInfo{
	"int": {"int", "rt.MemMkInt", "rt.MemPrInt", 0},
	"str": {"string", "rt.MemMkStr", "rt.MemPrStr", 1},
	"st":  {"rt.St", "rt.MemMkSt", "rt.MemPrSt", 4},
	"ar":  {"rt.Ar", "rt.MemMkAr", "rt.MemPrAr", 5},
	"pt":  {"*rt.St", "rt.MemMkPt", "rt.MemPrPt", 6},
	"ssl": {"[]string", "rt.MemMkSsl", "rt.MemPrSsl", 7},
	"mp":  {"map[string]int", "rt.MemMkMp", "rt.MemPrMp", 8},
	"ap":  {"[2]*rt.St", "rt.MemMkAp", "rt.MemPrAp", 6},
	"sp":  {"rt.SP", "rt.MemMkSp", "rt.MemPrSp", 6},
	"asp": {"[2]rt.SP", "rt.MemMkAsp", "rt.MemPrAsp", 7},
	"isl": {"[]int", "rt.MemMkIsl", "rt.MemPrIsl", 7},
	"ip2": {"*rt.P2", "rt.MemMkIp2", "rt.MemPrIp2", 6},
	"sp2": {"[]rt.P2", "rt.MemMkSp2", "rt.MemPrSp2", 7},
	"mpi": {"map[int]int", "rt.MemMkMpi", "rt.MemPrMpi", 8},
}

func kindRank(ks []string) int {
	r := 0
	for _, k := range ks {
		if ki, ok := kinds[k]; ok {
			r += ki.rank
		} else if ki, ok := memKinds[k]; ok {
			r += ki.rank
		}
	}
	return r
}

func typeList(ks []string, table map[string]kindInfo) []string {
	out := make([]string, len(ks))
	for i, k := range ks {
		out[i] = table[k].typ
	}
	return out
}

func itoas(xs []int) string {
	ss := make([]string, len(xs))
	for i, x := range xs {
		ss[i] = fmt.Sprint(x)
	}
	return strings.Join(ss, ", ")
}

// results renders a Go result list: "", "T", "(T, U)".
func results(ts []string) string {
	switch len(ts) {
	case 0:
		return ""
	case 1:
		return " " + ts[0]
	}
	return " (" + strings.Join(ts, ", ") + ")"
}
