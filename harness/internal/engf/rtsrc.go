package engf

// rtSource is package m/rt of every generated test module: the value kinds,
// token pools (identity for pointers, slices, maps, errors), projections of
// real Go values to the integers of spec/fun/FuncSem.tla, and the call log of
// the instrumented user functions. It imports nothing: goderive's loader
// type-checks the dependencies of the user package from source on every run.
const rtSource = `package rt

type NInt int
type St struct {
	A int
	B string
}
type Ar [2]int
type If interface{ M() int }
type ifTok int

func (t ifTok) M() int { return int(t) }

type ErrTok struct{ K int }

func (e *ErrTok) Error() string { return "E" + itoa(e.K) }

func itoa(k int) string {
	if k == 0 {
		return "0"
	}
	neg := k < 0
	if neg {
		k = -k
	}
	s := ""
	for k > 0 {
		s = string(rune('0'+k%10)) + s
		k /= 10
	}
	if neg {
		s = "-" + s
	}
	return s
}

func atoi(s string) int {
	if s == "" {
		return -1
	}
	n := 0
	for _, c := range s {
		if c < '0' || c > '9' {
			return -1
		}
		n = n*10 + int(c-'0')
	}
	return n
}

const poolN = 128

var (
	ptPool  [poolN]*St
	slPool  [poolN][]int
	mpPool  [poolN]map[string]int
	errPool [poolN]*ErrTok
)

func init() {
	for k := 1; k < poolN; k++ {
		ptPool[k] = &St{k, "b" + itoa(k)}
		slPool[k] = []int{k, k}
		mpPool[k] = map[string]int{"k": k}
		errPool[k] = &ErrTok{k}
	}
}

// ---- token k of each kind (k = 0: the zero value) ----
func MkInt(k int) int   { return k }
func MkRune(k int) rune { return rune(k) }
func MkStr(k int) string {
	if k == 0 {
		return ""
	}
	return "t" + itoa(k)
}
func MkBool(k int) bool { return k != 0 }
func MkNInt(k int) NInt { return NInt(k) }
func MkSt(k int) St {
	if k == 0 {
		return St{}
	}
	return St{k, "b" + itoa(k)}
}
func MkAr(k int) Ar { return Ar{k, -k} }
func MkPt(k int) *St {
	if k == 0 {
		return nil
	}
	return ptPool[k]
}
func MkSl(k int) []int {
	if k == 0 {
		return nil
	}
	return slPool[k]
}
func MkMp(k int) map[string]int {
	if k == 0 {
		return nil
	}
	return mpPool[k]
}
func MkIf(k int) If {
	if k == 0 {
		return nil
	}
	return ifTok(k)
}
func MkErr(k int) error {
	if k == 0 {
		return nil
	}
	return errPool[k]
}

// ---- projections: 0 zero value, k > 0 token k, < 0 anything else ----
func PrInt(v int) int   { return v }
func PrRune(v rune) int { return int(v) }
func PrStr(v string) int {
	if v == "" {
		return 0
	}
	if len(v) > 1 && v[0] == 't' {
		return atoi(v[1:])
	}
	return -1
}
func PrBool(v bool) int {
	if v {
		return 1
	}
	return 0
}
func PrNInt(v NInt) int { return int(v) }
func PrSt(v St) int {
	if v == (St{}) {
		return 0
	}
	if v.A > 0 && v.B == "b"+itoa(v.A) {
		return v.A
	}
	return -1
}
func PrAr(v Ar) int {
	if v == (Ar{}) {
		return 0
	}
	if v[0] > 0 && v[1] == -v[0] {
		return v[0]
	}
	return -1
}
func PrPt(v *St) int {
	if v == nil {
		return 0
	}
	for k := 1; k < poolN; k++ {
		if ptPool[k] == v {
			if *v == (St{k, "b" + itoa(k)}) {
				return k
			}
			return -3
		}
	}
	return -1
}
func PrSl(v []int) int {
	if v == nil {
		return 0
	}
	if len(v) == 0 {
		return -2
	}
	for k := 1; k < poolN; k++ {
		if &slPool[k][0] == &v[0] {
			if len(v) == 2 && v[0] == k && v[1] == k {
				return k
			}
			return -3
		}
	}
	return -1
}
func PrMp(v map[string]int) int {
	if v == nil {
		return 0
	}
	for k := 1; k < poolN; k++ {
		mpPool[k]["probe"] = 1
		_, same := v["probe"]
		delete(mpPool[k], "probe")
		if same {
			if len(v) == 1 && v["k"] == k {
				return k
			}
			return -3
		}
	}
	return -1
}
func PrIf(v If) int {
	if v == nil {
		return 0
	}
	if t, ok := v.(ifTok); ok && t > 0 {
		return int(t)
	}
	return -1
}
func PrErr(v error) int {
	if v == nil {
		return 0
	}
	for k := 1; k < poolN; k++ {
		if error(errPool[k]) == v {
			return k
		}
	}
	return -1
}
` + rtSource2
